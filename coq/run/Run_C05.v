(* Run_C05.v — entry points evaluated by the correspondence harness for C05 (tier T1). *)
From DV Require Export Eval Sql Nested Agg.
Open Scope list_scope.

Inductive c05case :=
| CQuery (m : emodel) (rows : db) (q : query) (ps : params)
    (* one query: SQL text, parameter list, resolution flags, status, result *)
| CPages (m : emodel) (rows : db) (q : query) (ps : params) (n : Z) (fuel : nat)
| CNested (Q : q2) (nodes : list node) (ps : params)
| CAgg (rows : db) (q : aquery)
    (* tier T3, first slice: an aggregate query (groups, having, order, first / skip); result only *)
| CJsel (docs : list (option jdoc)) (sels : list jsel) (fs : list (jsel * cmpop * val)).
    (* tier T3, first slice: json selectors selected and filtered on, over the rows in result order *)
    (* tier T2, first slice: a query with nested entity / array references over a forest of rows *)
    (* q has order keys (all selected), no paging / first / skip: a client pages through it with
       first n + after(<keys of the last row received>) until an empty page comes back *)

(* ---- encodings of observations ---- *)
Definition enc_str (s : str) : list Z := Z.of_nat (List.length s) :: map Z.of_N s.
Definition enc_val (v : val) : list Z :=
  match v with
  | VNull => [0] | VBool b => [1; zb b] | VInt z => [2; z] | VFlt x => [3; x] | VStr s => 4 :: enc_str s
  end.
Definition enc_row (r : list val) : list Z := Z.of_nat (List.length r) :: flat_map enc_val r.
Definition enc_result (rs : list (list val)) : list Z := Z.of_nat (List.length rs) :: flat_map enc_row rs.
Definition enc_vo (vo : list pentry) : list Z :=
  Z.of_nat (List.length vo) :: flat_map (fun p : pentry => zb (fst p) :: enc_str (snd p)) vo.
Definition ref_flag (r : fref) : Z := match r with FByAlias _ => 1 | FByName _ => 0 end.
Definition sel_flags (q : query) : list Z :=
  map (fun f => ref_flag (fl_ref f)) (q_filters q) ++ map (fun k => ref_flag (ok_ref k)) (q_order q).
(* the SQL text is compared through its length and two independent 61-bit polynomial hashes
   (keeps the observation small; the text itself is in the case's meta and in `text_C05`) *)
Definition hash_step (mul md : Z) (h : Z) (c : N) : Z := ((h * mul + Z.of_N c + 1) mod md).
Definition hash_text (s : str) : list Z :=
  [Z.of_nat (List.length s);
   fold_left (hash_step 1000003 2305843009213693951) s 7;
   fold_left (hash_step 998244353 2305843009213693921) s 11].
Definition enc_answer (a : option (list (list val))) : list Z :=
  match a with Some rs => 0 :: enc_result rs | None => [2] end.

Fixpoint enc_jv (j : jv) : list Z :=
  match j with
  | JS v => enc_val v
  | JO l => 5 :: Z.of_nat (List.length l) :: flat_map enc_jv l
  | JA l => 6 :: Z.of_nat (List.length l) :: flat_map enc_jv l
  end.
Definition enc_jvs (l : list jv) : list Z := Z.of_nat (List.length l) :: flat_map enc_jv l.

(* ---- tier T3 results ---- *)
Definition round_div (a b : Z) : Z :=        (* a/b rounded to the nearest integer, halves away from zero; b > 0 *)
  if Z.ltb a 0 then - ((2 * (- a) + b) / (2 * b)) else (2 * a + b) / (2 * b).
Definition enc_cell (c : cell) : list Z :=
  match c with CV v => enc_val v | CAvg s n => [7; round_div (s * 250000) n] end.      (* an average in millionths *)
Definition enc_crow (r : list cell) : list Z := Z.of_nat (List.length r) :: flat_map enc_cell r.
Fixpoint zlex (a b : list Z) : comparison :=
  match a, b with
  | [], [] => Eq | [], _ :: _ => Lt | _ :: _, [] => Gt
  | x :: a', y :: b' => match Z.compare x y with Eq => zlex a' b' | c => c end
  end.
(* without order_by the order of the groups is not part of the answer: both sides are sorted *)
Definition enc_cells (q : aquery) (rs : list (list cell)) : list Z :=
  let es := map enc_crow rs in
  let es := match a_order q with [] => isort zlex es | _ => es end in
  Z.of_nat (List.length es) :: List.concat es.
Fixpoint ins_dmember (kv : str * jdoc) (l : list (str * jdoc)) : list (str * jdoc) :=
  match l with
  | [] => [kv]
  | h :: t => match str_cmp (fst kv) (fst h) with Gt => h :: ins_dmember kv t | _ => kv :: h :: t end
  end.
Fixpoint dcanon (j : jdoc) : jdoc :=
  match j with
  | DArr l => DArr (map dcanon l)
  | DObj l => DObj (fold_right ins_dmember [] (map (fun kv : str * jdoc => (fst kv, dcanon (snd kv))) l))
  | _ => j
  end.
Fixpoint enc_doc (j : jdoc) : list Z :=
  match j with
  | DNull => [0] | DBool b => [1; zb b] | DInt z => [2; z] | DStr s => 4 :: enc_str s
  | DArr l => 6 :: Z.of_nat (List.length l) :: flat_map enc_doc l
  | DObj l => 5 :: Z.of_nat (List.length l) :: flat_map (fun kv : str * jdoc => enc_str (fst kv) ++ enc_doc (snd kv)) l
  end.
Definition enc_docs (rs : list (list jdoc)) : list Z :=
  Z.of_nat (List.length rs) :: flat_map (fun r => Z.of_nat (List.length r) :: flat_map (fun d => enc_doc (dcanon d)) r) rs.

(* ---- the paging client ---- *)
Definition cursor_name (j : nat) : str := 99%N :: repeat 48%N j.          (* c, c0, c00, ... *)
Fixpoint find_pos {A} (p : A -> bool) (l : list A) (i : nat) : option nat :=
  match l with [] => None | x :: t => if p x then Some i else find_pos p t (S i) end.
Definition key_pos (q : query) (k : okey) : option nat :=
  match ok_ref k with
  | FByAlias j => Some j
  | FByName i => find_pos (fun sf => Nat.eqb (sf_field sf) i) (q_sel q) 0
  end.
(* the key values of a received row; None if the client cannot form a cursor from it *)
Definition cursor_of (q : query) (out : list val) : option (list val) :=
  all_some (map (fun k => match key_pos q k with
                          | Some p => match nth p out VNull with VNull => None | v => Some v end
                          | None => None
                          end) (q_order q)).
Definition with_page (q : query) (n : Z) (cursor : option (list val)) : query :=
  {| q_alias := q_alias q; q_sel := q_sel q; q_filters := q_filters q; q_order := q_order q;
     q_first := OLit (VInt n); q_skip := None;
     q_paging := match cursor with
                 | None => PNone
                 | Some c => PAfter (map (fun j => OVar (cursor_name j)) (seq 0 (List.length c)))
                 end |}.
Definition cursor_params (cursor : option (list val)) : params :=
  match cursor with
  | None => []
  | Some c => map (fun jv => (cursor_name (fst jv), snd jv)) (combine (seq 0 (List.length c)) c)
  end.
(* status: 0 = ended on an empty page, 2 = a page query failed, 3 = no cursor can be formed
   (a key of the last row is null), 4 = the client gave up (more pages than rows) *)
Fixpoint pages (run : query -> params -> option (list (list val))) (q : query) (ps : params) (n : Z)
         (fuel : nat) (cursor : option (list val)) : Z * list (list (list val)) :=
  match fuel with
  | O => (4, [])
  | S f =>
      match run (with_page q n cursor) (cursor_params cursor ++ ps) with
      | None => (2, [])
      | Some [] => (0, [])
      | Some page =>
          match cursor_of q (last page []) with
          | None => (3, [page])
          | Some c => let '(st, rest) := pages run q ps n f (Some c) in (st, page :: rest)
          end
      end
  end.
Definition enc_pages (r : Z * list (list (list val))) : list Z :=
  fst r :: Z.of_nat (List.length (snd r)) :: flat_map enc_result (snd r).

(* ---- what the model says the implementation does ---- *)
Definition run_C05 (c : c05case) : list Z :=
  match c with
  | CQuery m rows q ps =>
      let '(vo, s) := compile m q in
      hash_text (norm_ws (print m s)) ++ enc_vo vo ++ sel_flags q ++ enc_answer (run_query m rows q ps)
  | CPages m rows q ps n fuel => enc_pages (pages (run_query m rows) q ps n fuel None)
  | CNested Q nodes ps =>
      let '(vo, c) := compile2 Q in
      hash_text (norm_ws (print2 c)) ++ enc_vo vo ++
      match run_query2 Q nodes ps with Some l => 0 :: enc_jvs l | None => [2] end
  | CAgg rows q => 0 :: enc_cells q (eval_agg agg_impl rows q)
  | CJsel docs sels fs => 0 :: enc_docs (eval_jsel docs sels fs)
  end.

(* ---- decoding the implementation's observation ---- *)
Definition take {A} (n : nat) (l : list A) : option (list A * list A) :=
  if Nat.ltb (List.length l) n then None else Some (firstn n l, skipn n l).
(* a count read from an observation is only trusted if that many elements can follow (keeps the
   evaluation small on a malformed observation) *)
Definition count (n : Z) (t : list Z) : option nat :=
  if Z.ltb n 0 || Z.ltb (Z.of_nat (List.length t)) n then None else Some (Z.to_nat n).
Definition dec_str (l : list Z) : option (str * list Z) :=
  match l with
  | n :: t => match count n t with
              | Some k => match take k t with Some (a, b) => Some (map Z.to_N a, b) | None => None end
              | None => None
              end
  | [] => None
  end.
Definition dec_val (l : list Z) : option (val * list Z) :=
  match l with
  | 0 :: t => Some (VNull, t)
  | 1 :: b :: t => Some (VBool (Z.eqb b 1), t)
  | 2 :: z :: t => Some (VInt z, t)
  | 3 :: x :: t => Some (VFlt x, t)
  | 4 :: t => match dec_str t with Some (s, t') => Some (VStr s, t') | None => None end
  | _ => None
  end.
Fixpoint dec_many {A} (one : list Z -> option (A * list Z)) (n : nat) (l : list Z) : option (list A * list Z) :=
  match n with
  | O => Some ([], l)
  | S k => match one l with
           | Some (x, t) => match dec_many one k t with Some (xs, t') => Some (x :: xs, t') | None => None end
           | None => None
           end
  end.
Definition dec_counted {A} (one : list Z -> option (A * list Z)) (l : list Z) : option (list A * list Z) :=
  match l with
  | n :: t => match count n t with Some k => dec_many one k t | None => None end
  | [] => None
  end.
Definition dec_row (l : list Z) : option (list val * list Z) := dec_counted dec_val l.
Definition dec_result (l : list Z) : option (list (list val) * list Z) := dec_counted dec_row l.
Definition dec_answer (l : list Z) : option (option (list (list val))) :=
  match l with
  | 0 :: t => match dec_result t with Some (rs, []) => Some (Some rs) | _ => None end
  | [_] => Some None
  | _ => None
  end.
Definition skip_str (l : list Z) : option (list Z) := option_map snd (dec_str l).
Definition skip_vo (l : list Z) : option (list Z) :=
  option_map snd (dec_counted (fun l' => match l' with _ :: t' => dec_str t' | [] => None end) l).

(* ---- the property's own oracle ---- *)
Definition result_eqb (a b : list (list val)) : bool := list_eqb (list_eqb val_eqb) a b.
Definition answer_ok (expected observed : option (list (list val))) : bool :=
  match expected, observed with
  | Some e, Some o => result_eqb e o
  | None, None => true
  | _, _ => false
  end.

Definition spec_C05 (c : c05case) (obs : list Z) : bool :=
  match c with
  | CQuery m rows q ps =>
      (* the answer of the implementation must be the direct evaluation of the query *)
      match (match obs with _ :: _ :: _ :: t => Some t | _ => None end) with
      | Some t1 => match skip_vo t1 with
                   | Some t2 => match dec_answer (skipn (List.length (sel_flags q)) t2) with
                                | Some a => answer_ok (eval m rows q ps) a
                                | None => false
                                end
                   | None => false
                   end
      | None => false
      end
  | CPages m rows q ps n fuel =>
      (* the pages, one after the other, are the whole ordered result: every row exactly once *)
      match obs with
      | st :: t =>
          match dec_counted dec_result t with
          | Some (pgs, []) => Z.eqb st 0 && answer_ok (eval m rows q ps) (Some (List.concat pgs))
          | _ => false
          end
      | _ => false
      end
  | CNested Q nodes ps =>
      (* the JSON of the implementation is the direct evaluation of the nested query *)
      match (match obs with _ :: _ :: _ :: t => Some t | _ => None end) with
      | Some t1 => match skip_vo t1 with
                   | Some t2 => zlist_eqb t2 (0 :: enc_jvs (eval2 Q ps nodes))
                   | None => false
                   end
      | None => false
      end
  | CAgg rows q =>
      (* the answer is the direct evaluation: aggregates by the values of the fields, absent values left out *)
      zlist_eqb obs (0 :: enc_cells q (eval_agg agg_spec rows q))
  | CJsel docs sels fs =>
      zlist_eqb obs (0 :: enc_docs (eval_jsel docs sels fs))
  end.


(* ---- classes of inputs on which the unchanged code is known to violate the property ---- *)
Definition lacks (rows : db) (i : nat) : bool := existsb (fun r => is_null (nth i r VNull)) rows.
Definition default_of (m : emodel) (i : nat) : option val :=
  match field_def m i with Some fd => fd_default fd | None => None end.
Definition has_default (m : emodel) (i : nat) : bool :=
  match default_of m i with Some _ => true | None => false end.
Fixpoint has_dup {A} (eqv : A -> A -> bool) (l : list A) : bool :=
  match l with [] => false | x :: t => existsb (eqv x) t || has_dup eqv t end.
Definition lex_eq (ds : list dir) (a b : list val) : bool :=
  match lex_cmp ds a b with Eq => true | _ => false end.
Definition filter_values (q : query) (ps : params) : list val :=
  map (fun f => match operand_value ps (fl_val f) with Some v => v | None => VNull end) (q_filters q).
Definition no_paging (q : query) : query :=
  {| q_alias := q_alias q; q_sel := q_sel q; q_filters := q_filters q; q_order := q_order q;
     q_first := q_first q; q_skip := q_skip q; q_paging := PNone |}.
(* key tuples (defaults applied) of the rows that satisfy the filters *)
Definition matching_keys (m : emodel) (rows : db) (q : query) (ps : params) : list (list val) :=
  map (row_keys m q) (matching m (no_paging q) (filter_values q ps) [] rows).

(* 1: paging over a key tuple that is not unique on the matching rows, or that is null on one of them *)
Definition k_paging (paged : nat) (m : emodel) (rows : db) (q : query) (ps : params) : bool :=
  let ks := map (firstn paged) (matching_keys m rows q ps) in
  existsb (existsb is_null) ks.
Definition k_ties (m : emodel) (rows : db) (q : query) (ps : params) : bool :=
  has_dup (lex_eq (dirs q)) (matching_keys m rows q ps).
(* 2: an order key names a field with a default by the field's own name and a row lacks the field:
      the raw (absent) value is used for ordering and paging instead of the default *)
Definition k_rawkey (m : emodel) (rows : db) (q : query) : bool :=
  existsb (fun k => match ok_ref k with
                    | FByName i => has_default m i && lacks rows i
                    | FByAlias _ => false
                    end) (q_order q).
(* 3: a selected Boolean field with a default, on a row that lacks the field, is returned as 1 / 0 *)
Definition k_booldefault (m : emodel) (rows : db) (q : query) : bool :=
  existsb (fun sf => match default_of m (sf_field sf) with
                     | Some (VBool _) => lacks rows (sf_field sf)
                     | _ => false
                     end) (q_sel q).
(* (classes 4, 5 and 8 were repaired in /repo: 43340e7, e64e320, 936f709) *)
Definition query_vars (q : query) : list str :=
  flat_map (fun o => match o with OVar n => [n] | _ => [] end)
           (map fl_val (q_filters q) ++ paging_values (q_paging q) ++ [q_first q] ++
            match q_skip q with Some o => [o] | None => [] end).
(* 6: a variable whose value is null in an = / != filter is not a null test, unlike the literal null *)
Definition k_nullvar (q : query) (ps : params) : bool :=
  existsb (fun f => match fl_op f, fl_val f with
                    | (OEq | ONe), OVar n => match lookup n ps with Some VNull => true | _ => false end
                    | _, _ => false
                    end) (q_filters q).
(* 7: first $n with n = 0 returns nothing whereas first 0 means no limit *)
Definition k_firstzero (q : query) (ps : params) : bool :=
  match q_first q with
  | OVar n => match lookup n ps with Some (VInt 0) => true | _ => false end
  | _ => false
  end.
Definition cls (b : bool) (k : Z) : list Z := if b then [k] else [].
Definition known_query (m : emodel) (rows : db) (q : query) (ps : params) : list Z :=
  cls (match q_paging q with
       | PNone => false
       | p => k_paging (List.length (paging_values p)) m rows q ps
       end) 1 ++
  cls (k_rawkey m rows q) 2 ++ cls (k_booldefault m rows q) 3 ++ cls (k_nullvar q ps) 6 ++ cls (k_firstzero q ps) 7.

(* the open classes, level by level (each level over all the rows reachable at that level) *)
Fixpoint known_nested (Q : q2) (nodes : list node) (ps : params) {struct Q} : list Z :=
  match Q with
  | Q2 m q subs =>
      known_query m (map nvals nodes) q ps ++
      flat_map (fun p : subinfo * q2 => known_nested (snd p) (flat_map (fun nd => nth (si_ref (fst p)) (nrefs nd) []) nodes) ps) subs
  end.

(* T3: classes 9 (min / max compared the JSON texts) and 10 (avg counted absent values as 0) were repaired in /repo
   (b717988): no class is left for aggregate queries *)
Definition known_agg (rows : db) (q : aquery) : list Z := [].

Definition known_C05 (c : c05case) : list Z :=
  match c with
  | CQuery m rows q ps => known_query m rows q ps
  | CPages m rows q ps n fuel =>
      cls (k_paging (List.length (q_order q)) m rows q ps || k_ties m rows q ps) 1 ++
      cls (k_rawkey m rows q) 2 ++ cls (k_booldefault m rows q) 3 ++ cls (k_nullvar q ps) 6
  | CNested Q nodes ps => known_nested Q nodes ps
  | CAgg rows q => known_agg rows q
  | CJsel _ _ _ => []
  end.

(* ---- what the real parser and parameter validation guarantee (hypotheses of the theorems) ---- *)
Definition filter_default (m : emodel) (q : query) (f : qfilter) : option val :=
  match ref_field q (fl_ref f) with Some i => default_of m i | None => None end.
Definition wf_query (m : emodel) (q : query) : bool :=
  (* `= null` only on fields without a default (a field is nullable or has a default, never both) *)
  forallb (fun f => match fl_val f, filter_default m q f with OLit VNull, Some _ => false | _, _ => true end) (q_filters q)
  && forallb (fun fd => match fd_default fd with Some VNull => false | _ => true end) (em_fields m)
  (* after / before: at least one value, no more values than order keys, never the literal null *)
  && forallb (fun o => match o with OLit VNull => false | _ => true end) (paging_values (q_paging q))
  && match q_paging q with
     | PNone => true
     | p => negb (Nat.eqb (List.length (paging_values p)) 0) && Nat.leb (List.length (paging_values p)) (List.length (q_order q))
     end.
Definition params_ok (q : query) (ps : params) : bool :=
  forallb (fun n => match lookup n ps with Some _ => true | None => false end) (query_vars q)
  && match option_map as_int (operand_value ps (q_first q)) with Some (Some _) => true | _ => false end
  && match q_skip q with
     | None => true
     | Some o => match option_map as_int (operand_value ps o) with Some (Some _) => true | _ => false end
     end
  && forallb (fun o => match operand_value ps o with Some VNull => false | _ => true end) (paging_values (q_paging q)).

(* the paging client is used as intended: an ordered query without paging / first / skip of its own, every
   order key among the selected fields, and no variable of the query named like a cursor variable *)
Definition is_cursor_name (n : str) : bool :=
  match n with c :: t => N.eqb c 99 && forallb (N.eqb 48) t | [] => false end.
Definition wf_pages (m : emodel) (q : query) (ps : params) : bool :=
  wf_query m q && params_ok q ps
  && match q_paging q, q_first q, q_skip q with PNone, OLit (VInt 0), None => true | _, _, _ => false end
  && negb (Nat.eqb (List.length (q_order q)) 0)
  && forallb (fun k => match key_pos q k with Some _ => true | None => false end) (q_order q)
  && forallb (fun n => negb (is_cursor_name n)) (query_vars q).

Fixpoint q2_ok (Q : q2) (ps : params) {struct Q} : bool :=
  match Q with
  | Q2 m q subs => wf_query m q && params_ok q ps && forallb (fun p : subinfo * q2 => q2_ok (snd p) ps) subs
  end.

(* diagnostic: the SQL text the model prints for a query case *)
Definition text_C05 (c : c05case) : list Z :=
  match c with
  | CQuery m rows q ps => map Z.of_N (norm_ws (print m (snd (compile m q))))
  | CPages _ _ _ _ _ _ => []
  | CNested Q _ _ => map Z.of_N (norm_ws (print2 (snd (compile2 Q))))
  | CAgg _ _ | CJsel _ _ _ => []
  end.

(* diagnostic: are the hypotheses of the theorems met by a case? (evaluated by the harness statistics) *)
Definition wf_C05 (c : c05case) : list Z :=
  match c with
  | CQuery m rows q ps => [zb (wf_query m q); zb (params_ok q ps)]
  | CPages m rows q ps n fuel => [zb (wf_pages m q ps); zb (Z.ltb 0 n && Nat.ltb (List.length rows) fuel)]
  | CNested Q nodes ps => [zb (q2_ok Q ps); 1]
  | CAgg rows q => [1; 1]
  | CJsel docs sels fs =>
      (* a filter is only put on a selector that never selects an array or an object *)
      [zb (forallb (fun d => forallb (fun f : jsel * cmpop * val => negb (is_container (dsel d (fst (fst f))))) fs) docs); 1]
  end.

Definition eval_C05 (c : c05case) (obs : list Z) : list Z :=
  [zb (zlist_eqb (run_C05 c) obs); zb (spec_C05 c obs)] ++ known_C05 c.
