(* Run_C18.v — entry points evaluated by the correspondence harness for C18. No proofs. *)
From DV Require Export Events.
Open Scope Z_scope.

Inductive c18case :=
| CSeq (t0 : Z) (prog : list api)      (* API calls issued one after the other (streams with their observed schedule) *)
| CConc (t0 : Z) (os : list op)        (* the same kind of call issued from concurrent tasks: writes on distinct keys, any batching *)
| CRoom (n : N)                        (* n accepted changes of one room definition *)
| CRoomBurst (base accepted order : list N).  (* concurrent mutations of one room, each adding one entry; order = observed commit order *)

(* ---- flattening ---- *)
Definition enc_key (k : lkey) : list Z := let '(r, e, d) := k in [zn r; zn e; d].
Definition enc_tev (e : tev) : list Z :=
  match e with
  | TW ks => 1 :: Z.of_nat (length ks) :: flat_map enc_key ks
  | TE ks => 2 :: Z.of_nat (length ks) :: flat_map enc_key ks
  | TQ => [3]
  end.
Definition enc_trace (tr : list tev) : list Z := flat_map enc_tev tr.

Fixpoint dec_keys (k : nat) (l : list Z) : option (list lkey * list Z) :=
  match k with
  | O => Some ([], l)
  | S k' => match l with
            | r :: e :: d :: rest => match dec_keys k' rest with
                                     | Some (ks, rest') => Some ((Z.to_N r, Z.to_N e, d) :: ks, rest')
                                     | None => None end
            | _ => None end
  end.
Fixpoint dec_trace (fuel : nat) (l : list Z) : option (list tev) :=
  match fuel with
  | O => match l with [] => Some [] | _ => None end
  | S f =>
      match l with
      | [] => Some []
      | 3 :: rest => match dec_trace f rest with Some tr => Some (TQ :: tr) | None => None end
      | tag :: n :: rest =>
          match dec_keys (Z.to_nat n) rest with
          | Some (ks, rest') =>
              match dec_trace f rest' with
              | Some tr => if Z.eqb tag 1 then Some (TW ks :: tr) else if Z.eqb tag 2 then Some (TE ks :: tr) else None
              | None => None end
          | None => None end
      | _ => None
      end
  end.

(* ---- the model's run ---- *)
(* concurrent calls: the writer may batch them in any way (theorem C18_quiescent covers all of
   them); what the harness can observe without knowing the batching is, per call, the keys it
   changed, and the union of everything announced once all calls and recomputations are over *)
Definition conc_trace (t0 : Z) (os : list op) : list tev :=
  let '(s, tr) := trace_batches (init t0, []) (map (fun o => [MOp o]) os) in
  let '(_, rep) := compute s in
  tr ++ [TE rep; TQ].

Definition run_trace (c : c18case) : list tev :=
  match c with
  | CSeq t0 prog => snd (trace_prog t0 prog)
  | CConc t0 os => conc_trace t0 os
  | CRoom _ => []
  | CRoomBurst _ _ _ => []
  end.
Definition enc_sets (l : list (list N)) : list Z :=
  Z.of_nat (length l) :: flat_map (fun e => Z.of_nat (length e) :: map zn e) l.
Fixpoint dec_sets_n (k : nat) (l : list Z) : option (list (list N)) :=
  match k with
  | O => match l with [] => Some [] | _ => None end
  | S k' => match l with
            | n :: rest => let m := Z.to_nat n in
                           if Nat.ltb (length rest) m then None else
                           match dec_sets_n k' (skipn m rest) with
                           | Some t => Some (map Z.to_N (firstn m rest) :: t)
                           | None => None end
            | [] => None end
  end.
Definition dec_sets (l : list Z) : option (list (list N)) :=
  match l with n :: rest => dec_sets_n (Z.to_nat n) rest | [] => None end.
(* the oracle for room-modified events: one event per accepted mutation, definitions only grow (no
   event misses an entry an earlier event carried), the last event carries every accepted entry *)
Definition nsubset (a b : list N) : bool := forallb (fun x => existsb (N.eqb x) b) a.
Fixpoint grows (prev : list N) (evs : list (list N)) : bool :=
  match evs with [] => true | e :: t => nsubset prev e && grows e t end.
Definition room_events_ok (base accepted : list N) (evs : list (list N)) : bool :=
  Nat.eqb (length evs) (length accepted) && grows base evs &&
  match accepted with [] => true | _ => nsubset (base ++ accepted) (last evs []) end.
Definition run_C18 (c : c18case) : list Z :=
  match c with
  | CRoomBurst base _ order => enc_sets (room_events base order)
  | CRoom n => [zn n]
  | _ => enc_trace (run_trace c)
  end.

(* ---- the property's own oracle, on the events the implementation sent ----
   every key whose stored content a committed change altered (TW: computed by the harness from the
   tables before / after the change) must have been named by a data-changed event (TE) received
   after the change, by the time the call that promises it is over (TQ) *)
Fixpoint announced_ok (ow : list lkey) (tr : list tev) : bool :=
  match tr with
  | [] => true
  | TW ks :: t => announced_ok (ow ++ ks) t
  | TE ks :: t => announced_ok (filter (fun k => negb (existsb (key_eqb k) ks)) ow) t
  | TQ :: t => match ow with [] => announced_ok ow t | _ => false end
  end.
Definition spec_C18 (c : c18case) (obs : list Z) : bool :=
  match c with
  | CRoom n => match obs with [x] => Z.eqb x (zn n) | _ => false end    (* one room-modified event per accepted change *)
  | CRoomBurst base accepted _ => match dec_sets obs with Some evs => room_events_ok base accepted evs | None => false end
  | _ => match dec_trace (length obs) obs with
         | Some tr => announced_ok [] tr
         | None => false end
  end.

(* ---- known-finding classes (known_findings.d/C18.json) ----
   1: (repaired in /repo, a874354: never returned) a mutation stream whose stream-end recompute was
      processed before some of its mutations
   3: a write that changes a key it does not mark: no event can name that key.  The three write kinds
      of C09 classes 1-3 were repaired (4510e5f, f14488a, 9c2e3ca) and now cover (proofs/C09P.v);
      C09 class 6 was repaired too (9b19d99); what remains reachable is C09 class 7 (an edge tombstone
      replaced under another source entity) *)
Definition nonempty {A} (l : list A) : bool := match l with [] => false | _ => true end.
Definition unc_msg (acc : state * bool) (m : msg) : state * bool :=
  let '(s, u) := acc in
  match m with
  | MOp o => let '(s', ms) := exec_op o s in (s', u || nonempty (uncovered s s' ms))
  | MCompute => (fst (compute s), u)
  end.
Definition unc_batch (acc : state * bool) (b : list msg) : state * bool :=
  let '(s, u) := acc in (fst (trace_batch (s, []) b), snd (fold_left unc_msg b (s, u))).
Definition api_classes (acc : state * list Z) (a : api) : state * list Z :=
  let '(s, cl) := acc in
  let '(s', unc) := fold_left unc_batch (batches_of a) (s, false) in
  (s', cl ++ (if unc then [3] else [])).
Fixpoint zdedup18 (l : list Z) : list Z :=
  match l with [] => [] | x :: t => if existsb (Z.eqb x) t then zdedup18 t else x :: zdedup18 t end.
Definition known_C18 (c : c18case) : list Z :=
  match c with
  | CSeq t0 prog => zdedup18 (snd (fold_left api_classes prog (init t0, [])))
  | _ => []
  end.

Definition eval_C18 (c : c18case) (obs : list Z) : list Z :=
  [zb (zlist_eqb (run_C18 c) obs); zb (spec_C18 c obs)] ++ known_C18 c.
