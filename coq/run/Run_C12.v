(* Run_C12.v — entry points evaluated by the correspondence harness for C12:
   local acceptance and peer acceptance give the same verdict.  No proofs here. *)
From DV Require Export RightsSpec AuthzRemote LocalJson LocalGlue NodeSize Run_C01 Run_C02.

(* One local operation of author `me` on an instance A, and a peer B holding the same room
   definitions, the same data model and the same prior rows, to which the rows A writes are handed
   the way synchronisation does it.
   CWrite: a one-row mutation (create / update / move), validated at now = its date (one clock), that
     also adds `nadd` references from the row and removes the stored references whose authors are
     listed in h_edge_dels.
   CDelNode: deletion of a row.  CDelRef: deletion of one reference of a row (the source row is
     re-dated and signed again by the caller).
   CJson: creation of a row from literal field values (request text -> JSON content -> peer's
     validate_json_for_entity). *)
Inductive c12case :=
| CWrite (defs : list (uid * list event)) (dm : dmodel) (me : key) (h : mhead) (nadd : N)
| CDelNode (defs : list (uid * list event)) (me : key) (now : Z) (n : dnode)
| CDelRef (defs : list (uid * list event)) (me : key) (now : Z) (src : dnode) (edge_author : key)
(* an UPDATE request submitted as text (parser -> MutationQuery::execute -> validate_mutation) on the stored row
   of `author` in `room`: optionally another scalar field, and one operation on a reference field *)
| CReq (defs : list (uid * list event)) (dm : dmodel) (me : key) (e : entity) (room : option uid) (date : Z)
       (author : key) (other_field : bool) (op : refop)
| CJson (fs : list lfield) (lits : list (N * lit))
(* a creation (or an update) of a row by a caller who has every right: only the size limit decides.
   `signed` describes the row as signed by the caller. *)
| CSize (max : N) (update : bool) (signed : srow).

Definition good_json : option json := Some [(32%N, JStr false)].

(* ---- the rows B holds and the rows A sends, for each operation ---- *)
Definition old_row (h : mhead) : list rnode :=
  match h_old h with
  | Some o => [{| n_tag := 1%N; n_id := 100%N; n_room := o_room o; n_ent := Some (h_ent h); n_json := good_json;
                  n_mdate := h_date h - 5; n_author := o_author o; n_sig := 1%N; n_sig_ok := true; n_too_big := false |}]
  | None => []
  end.
Definition sent_row (me : key) (h : mhead) : rnode :=
  {| n_tag := 2%N; n_id := 100%N; n_room := h_room h; n_ent := Some (h_ent h); n_json := good_json;
     n_mdate := h_date h; n_author := me; n_sig := 2%N; n_sig_ok := true; n_too_big := h_too_big h |}.
Fixpoint numbered {A} (n : N) (l : list A) : list (N * A) :=
  match l with [] => [] | x :: t => (n, x) :: numbered (N.succ n) t end.
Definition stored_ref (h : mhead) (p : N * key) : redge :=
  {| e_tag := (10 + fst p)%N; e_src := 100%N; e_ent := Some (h_ent h); e_label := 1%N; e_dest := (300 + fst p)%N;
     e_cdate := h_date h - 5; e_author := snd p; e_sig_ok := true |}.
Definition ref_tombstone (me : key) (rid : uid) (date : Z) (e : redge) : redel :=
  {| ed_tag := (10 + e_tag e)%N; ed_room := rid; ed_src := e_src e; ed_ent := e_ent e; ed_label := e_label e; ed_dest := e_dest e;
     ed_cdate := e_cdate e; ed_date := date; ed_author := me; ed_sig_ok := true |}.
Definition added_ref (me : key) (h : mhead) (i : N) : redge :=
  {| e_tag := (40 + i)%N; e_src := 100%N; e_ent := Some (h_ent h); e_label := 2%N; e_dest := (200 + i)%N;
     e_cdate := h_date h; e_author := me; e_sig_ok := true |}.
Fixpoint upto (n : nat) : list N := match n with O => [] | S k => upto k ++ [N.of_nat k] end.
Definition peer_store (h : mhead) (rm : list key) : store :=
  {| s_nodes := old_row h; s_edges := map (stored_ref h) (numbered 0%N rm); s_ndels := []; s_edels := [] |}.

Definition count {A} (p : A -> bool) (l : list A) : Z := Z.of_nat (length (filter p l)).

(* is anything handed to the peer at all?  (a row outside any room is not synchronised) *)
Definition write_sends (h : mhead) : option uid :=
  match h_kind h with
  | KAuthLike => None
  | KNormal => if h_has_node h then h_room h else None
  end.

Definition row_of (n : dnode) (now : Z) : rnode :=
  {| n_tag := 1%N; n_id := 100%N; n_room := dn_room n; n_ent := Some (dn_ent n); n_json := good_json;
     n_mdate := now - 5; n_author := dn_author n; n_sig := 1%N; n_sig_ok := true; n_too_big := false |}.
Definition del_sends (n : dnode) : option uid := match dn_kind n with KAuthLike => None | KNormal => dn_room n end.

(* the head of the mutation an update request amounts to, after the glue of get_mutate_query *)
Definition req_head (e : entity) (room : option uid) (date : Z) (author : key) (other : bool) (op : refop) : mhead :=
  {| h_kind := KNormal; h_ent := e; h_room := room; h_date := date; h_has_node := row_rewritten other op;
     h_too_big := false; h_old := Some {| o_room := room; o_author := author |}; h_edge_dels := snd (ref_effect op) |}.

(* a one-row write: [local verdict; row stored by the peer (-1: nothing is handed over); references stored; tombstones stored] *)
Definition run_write_model (defs : list (uid * list event)) (dm : dmodel) (me : key) (h : mhead) (nadd : N) : list Z :=
      let rooms := build_rooms defs in
      let rm := h_edge_dels h in
      let local := verdict_code (validate_entity me (h_date h) rooms (MEnt h [])) in
      match write_sends h with
      | None => [local; -1; 0; 0]
      | Some rid =>
          let st := peer_store h rm in
          let tombs := map (ref_tombstone me rid (h_date h)) (s_edges st) in
          let adds := map (added_ref me h) (upto (N.to_nat nadd)) in
          let acc := accept_node rooms dm rid st (sent_row me h) in
          (* the rows the peer holds when the references arrive: the new version if it was accepted *)
          let st2 := {| s_nodes := if acc then [sent_row me h] else old_row h; s_edges := []; s_ndels := []; s_edels := [] |} in
          [local;
           zb acc;
           match find_room rooms rid with Some r => count (edge_ok r rid st2) adds | None => 0 end;
           count (edel_ok rooms st) tombs]
      end.

(* what the model says the implementation does: [local verdict; what the peer stored ...] *)
Definition run_C12 (c : c12case) : list Z :=
  match c with
  | CWrite defs dm me h nadd => run_write_model defs dm me h nadd
  | CReq defs dm me e room date author other op =>
      (* [local verdict; rows / references / tombstones produced and handed to the peer, each followed by how many it stored] *)
      let h := req_head e room date author other op in
      let nadd := snd (fst (ref_effect op)) in
      match write_sends h, run_write_model defs dm me h nadd with
      | Some _, [l; n; a; t] => [l; 1; n; Z.of_N nadd; a; Z.of_nat (length (h_edge_dels h)); t]
      | _, l :: _ => [l; 0; 0; 0; 0; 0; 0]
      | _, [] => []
      end
  | CDelNode defs me now n =>
      let rooms := build_rooms defs in
      let local := verdict_code (validate_deletion me now rooms [n] [] []) in
      match del_sends n with
      | None => [local; -1]
      | Some rid =>
          let st := {| s_nodes := [row_of n now]; s_edges := []; s_ndels := []; s_edels := [] |} in
          let t := {| nd_tag := 2%N; nd_room := rid; nd_id := 100%N; nd_ent := Some (dn_ent n); nd_mdate := now - 5;
                      nd_date := now; nd_author := me; nd_sig_ok := true |} in
          [local; zb (ndel_ok rooms st t)]
      end
  | CDelRef defs me now src ea =>
      let rooms := build_rooms defs in
      let e := {| de_kind := KNormal; de_ent := dn_ent src; de_room := dn_room src; de_author := ea; de_date := now |} in
      let local := verdict_code (validate_deletion me now rooms [] [e] [src]) in
      match del_sends src with
      | None => [local; -1; -1]
      | Some rid =>
          let edge := {| e_tag := 3%N; e_src := 100%N; e_ent := Some (dn_ent src); e_label := 1%N; e_dest := 300%N;
                         e_cdate := now - 5; e_author := ea; e_sig_ok := true |} in
          let st := {| s_nodes := [row_of src now]; s_edges := [edge]; s_ndels := []; s_edels := [] |} in
          let x := {| n_tag := 2%N; n_id := 100%N; n_room := Some rid; n_ent := Some (dn_ent src); n_json := good_json;
                      n_mdate := now; n_author := me; n_sig := 2%N; n_sig_ok := true; n_too_big := false |} in
          [local; zb (edel_ok rooms st (ref_tombstone me rid now edge));
           zb (validate_node rooms x (dn_room src) (Some (dn_author src)))]
      end
  | CSize max update signed =>
      (* [local verdict; the size the local path reports when it refuses; peer verdict; the size of the signed row] *)
      let big := exceeds max (local_measured signed) in
      [if big then 3 else 0; if big then zn (local_measured signed) else -1;
       zb (negb (exceeds max (peer_measured signed))); zn (node_size signed)]
  | CJson fs lits =>
      match local_store fs lits with
      | Some j => [1; zb (conform (map lf fs) (Some j))] ++ map (fun f => jcode (jget j (f_short (lf f)))) fs
      | None =>
          (* refused locally; if only because of explicit nulls: what a peer says of the content with those nulls *)
          match forced_store fs lits with
          | Some j => [0; zb (conform (map lf fs) (Some j))] ++ map (fun f => jcode (jget j (f_short (lf f)))) fs
          | None => [0; -1]
          end
      end
  end.

(* ================= the property's own oracle, on what the IMPLEMENTATION answered =================
   violations: 0 = local and peer verdicts differ and the case is in no listed class (this includes
     the repaired defects: an explicit null refused by peers; a mutation removing another author's
     reference accepted locally with the own-rows right while peers refuse the tombstone);
     2 = a Json field holding a scalar (literal or default), which peers refuse *)
Definition is_scalar (v : jval) : bool := match v with JObj | JArr => false | _ => true end.

Definition violations12 (c : c12case) (obs : list Z) : list Z :=
  match c, obs with
  | CWrite defs dm me h nadd, [l; n; a; t] =>
      match write_sends h with
      | None => []
      | Some _ =>
          let all_in := Z.eqb n 1 && Z.eqb a (Z.of_N nadd) && Z.eqb t (Z.of_nat (length (h_edge_dels h))) in
          if Z.eqb l 0 then (if all_in then [] else [0]) else (if all_in then [0] else [])
      end
  | CReq defs dm me e room date author other op, [l; ns; ni; asent; ai; ts; ti] =>
      (* judged on what the local path PRODUCED: accepted => the peer stores all of it;
         refused => nothing would be handed over, or the peer refuses some of it *)
      let all_in := Z.eqb ni ns && Z.eqb ai asent && Z.eqb ti ts in
      let anything := Z.ltb 0 (ns + asent + ts) in
      if Z.eqb l 0 then (if all_in then [] else [0]) else (if anything && all_in then [0] else [])
  | CDelNode defs me now n, [l; t] =>
      match del_sends n with
      | None => []
      | Some _ => if Z.eqb l 0 then (if Z.eqb t 1 then [] else [0]) else (if Z.eqb t 1 then [0] else [])
      end
  | CDelRef defs me now src ea, [l; t; n] =>
      match del_sends src with
      | None => []
      | Some _ => let all_in := Z.eqb t 1 && Z.eqb n 1 in
                  if Z.eqb l 0 then (if all_in then [] else [0]) else (if all_in then [0] else [])
      end
  | CSize max update signed, [l; sz; p; real] =>
      (* same verdict on the limit; a local refusal names the size of the signed row *)
      if (Z.eqb l 0 && Z.eqb p 1) || (Z.eqb l 3 && Z.eqb p 0 && Z.eqb sz real) then [] else [0]
  | CJson fs lits, l :: r :: kinds =>
      if Z.eqb l 1 && negb (Z.eqb r 1) then
        let scal := existsb (fun p => match f_type (lf (fst p)) with
                                      | TJson => (Z.leb 1 (snd p) && Z.leb (snd p) 5) ||
                                                 (Z.eqb (snd p) 0 && negb (f_nullable (lf (fst p))))   (* the text "null" *)
                                      | _ => false end) (combine fs kinds) in
        if scal then [2] else [0]
      else if Z.eqb l 0 && Z.eqb r 1 then [0]            (* refused locally (an explicit null), accepted by peers *)
      else []
  | _, _ => [0]
  end.

Definition spec_C12 (c : c12case) (obs : list Z) : bool :=
  match violations12 c obs with [] => true | _ => false end.
Definition known_C12 (c : c12case) : list Z := classes_of (violations12 c (run_C12 c)).

Definition eval_C12 (c : c12case) (obs : list Z) : list Z :=
  [zb (zlist_eqb (run_C12 c) obs); zb (spec_C12 c obs)] ++ classes_of (violations12 c obs).
