(* Run_C02.v — entry points evaluated by the correspondence harness for C02:
   rows received from peers are stored only if their author had the right. No proofs here. *)
From DV Require Export RightsSpec AuthzRemote Run_C01.

(* one receiver: room definitions (event histories, as in C01), its data model, the rows it holds,
   and a sequence of ingestion calls as the synchronisation code makes them *)
Inductive c02case :=
| CIngest (defs : list (uid * list event)) (dm : dmodel) (pre : store) (steps : list step).

(* ---- what is observed: after every call the four tables, as sorted lists of row tags ---- *)
Definition dump (st : store) : list Z :=
  counted (sortz (map (fun x => zn (n_tag x)) (s_nodes st))) ++
  counted (sortz (map (fun x => zn (e_tag x)) (s_edges st))) ++
  counted (sortz (map (fun x => zn (nd_tag x)) (s_ndels st))) ++
  counted (sortz (map (fun x => zn (ed_tag x)) (s_edels st))).

(* what the model says the implementation does *)
Definition run_C02 (c : c02case) : list Z :=
  match c with
  | CIngest defs dm pre steps =>
      dump pre ++ flat_map (fun r => snd r ++ dump (fst r)) (run_steps (build_rooms defs) dm pre steps)
  end.

(* ================= the property's own oracle ================= *)
(* It is evaluated on the tables the IMPLEMENTATION holds before and after each call and speaks
   about the room histories through `granted` only.  It returns the list of violations found:
     0  a change of the tables that the property does not allow and that is no listed finding
        (this includes the repaired defects: a reference whose source row is not a row of that
        entity in the room of the call, a row removed by a tombstone naming another entity,
        a row without JSON content for an entity with required fields)
     1  the tombstone of a stored reference whose source row is not a row of that entity in the
        room of the tombstone
     3  a row replaced by a row of another entity, whose author lacks the needed right for the
        entity of the replaced row
     4  another author's reference replaced without the all-rows right *)

Definition grantedR (defs : list (uid * list event)) (rid : uid) (k : key) (e : entity) (d : Z) (t : right_t) : bool :=
  known_room defs rid && granted (evs_of defs rid) k e d t.

Definition has_tag {A} (tag : A -> N) (l : list A) (t : N) : bool := existsb (fun y => N.eqb (tag y) t) l.
Definition same_tags {A} (tag : A -> N) (l1 l2 : list A) : bool :=
  forallb (fun x => has_tag tag l2 (tag x)) l1 && forallb (fun x => has_tag tag l1 (tag x)) l2.
Definition frame_viol (b : bool) : list Z := if b then [] else [0].

Definition node_entitled (defs : list (uid * list event)) (dm : dmodel) (R : uid) (before : store) (x : rnode) : list Z :=
  match n_ent x with
  | None => [0]
  | Some en =>
      let old := lookup_node before (n_id x) in
      let t := match old with Some o => needed (N.eqb (n_author o) (n_author x)) | None => MutateSelf end in
      let rights_for (e : entity) :=
        grantedR defs R (n_author x) e (n_mdate x) t &&
        match old with
        | Some o => match n_room o with
                    | Some R0 => N.eqb R0 R || grantedR defs R0 (n_author x) e (n_mdate x) t
                    | None => true
                    end
        | None => true
        end in
      match fields_of dm en with
      | None => [0]
      | Some fs =>
          if negb (n_sig_ok x && negb (n_too_big x) && opt_eqb N.eqb (n_room x) (Some R) && conform fs (n_json x) && rights_for en)
          then [0]
          else
            match old with
            | Some o => match n_ent o with
                        | Some eo => if N.eqb eo en || rights_for eo then [] else [3]
                        | None => []
                        end
            | None => []
            end
      end
  end.

Definition viol_nodes defs dm (R : uid) (batch : list rnode) (before after : store) : list Z :=
  frame_viol (same_tags e_tag (s_edges before) (s_edges after)) ++
  frame_viol (same_tags nd_tag (s_ndels before) (s_ndels after)) ++
  frame_viol (same_tags ed_tag (s_edels before) (s_edels after)) ++
  flat_map (fun x => if has_tag n_tag (s_nodes before) (n_tag x) then []
                     else if negb (has_tag n_tag batch (n_tag x)) then [0]
                     else node_entitled defs dm R before x) (s_nodes after) ++
  flat_map (fun y => if has_tag n_tag (s_nodes after) (n_tag y) then []
                     else if existsb (fun x => N.eqb (n_id x) (n_id y) && has_tag n_tag batch (n_tag x)) (s_nodes after) then []
                     else [0]) (s_nodes before).

Definition edge_entitled defs (R : uid) (before after : store) (x : redge) : list Z :=
  match e_ent x with
  | None => [0]
  | Some en =>
      if negb (e_sig_ok x && grantedR defs R (e_author x) en (e_cdate x) MutateSelf &&
               src_in_room (s_nodes after) (e_src x) R en) then [0]
      else
        match find (fun y => same_edge_pk y x) (s_edges before) with
        | Some o => if N.eqb (e_author o) (e_author x) || grantedR defs R (e_author x) en (e_cdate x) MutateAll then [] else [4]
        | None => []
        end
  end.

Definition viol_edges defs (R : uid) (batch : list redge) (before after : store) : list Z :=
  frame_viol (same_tags n_tag (s_nodes before) (s_nodes after)) ++
  frame_viol (same_tags nd_tag (s_ndels before) (s_ndels after)) ++
  frame_viol (same_tags ed_tag (s_edels before) (s_edels after)) ++
  flat_map (fun x => if has_tag e_tag (s_edges before) (e_tag x) then []
                     else if negb (has_tag e_tag batch (e_tag x)) then [0]
                     else edge_entitled defs R before after x) (s_edges after) ++
  flat_map (fun y => if has_tag e_tag (s_edges after) (e_tag y) then []
                     else if existsb (fun x => same_edge_pk x y && has_tag e_tag batch (e_tag x)) (s_edges after) then []
                     else [0]) (s_edges before).

(* a tombstone d that comes after the entries `prefix` of the same answer: the row it removes is the
   row of its id, room and a version not newer than the one it names — unless an earlier entry of
   the answer already designates that row.  It must name that row's entity. *)
Definition ndel_entitled defs (before : store) (prefix : list rndel) (d : rndel) : bool :=
  match nd_ent d with
  | None => false
  | Some en =>
      let hit := match find (node_hit d) (s_nodes before) with
                 | Some o => if existsb (fun e => node_hit e o) prefix then None else Some o
                 | None => None
                 end in
      let t := match hit with Some o => needed (N.eqb (n_author o) (nd_author d)) | None => MutateSelf end in
      nd_sig_ok d && grantedR defs (nd_room d) (nd_author d) en (nd_date d) t &&
      match hit with Some o => oent_eqb (n_ent o) (Some en) | None => true end
  end.
(* x is entitled at one of the positions of the answer where an entry carries its tag *)
Fixpoint entitled_at defs (before : store) (prefix rest : list rndel) (x : rndel) : bool :=
  match rest with
  | [] => false
  | y :: tl => (N.eqb (nd_tag y) (nd_tag x) && ndel_entitled defs before prefix x)
               || entitled_at defs before (prefix ++ [y]) tl x
  end.

Definition viol_ndels defs (batch : list rndel) (before after : store) : list Z :=
  frame_viol (same_tags e_tag (s_edges before) (s_edges after)) ++
  frame_viol (same_tags ed_tag (s_edels before) (s_edels after)) ++
  flat_map (fun d => if has_tag nd_tag (s_ndels before) (nd_tag d) then []
                     else if entitled_at defs before [] batch d then [] else [0]) (s_ndels after) ++
  flat_map (fun y => if has_tag nd_tag (s_ndels after) (nd_tag y) then []
                     else if existsb (fun d => same_ndel_pk d y && has_tag nd_tag batch (nd_tag d)) (s_ndels after) then []
                     else [0]) (s_ndels before) ++
  (* a row disappears only under an entitled tombstone of this call designating it; nothing appears *)
  flat_map (fun y => if has_tag n_tag (s_nodes after) (n_tag y) then []
                     else if existsb (fun d => node_hit d y && ndel_entitled defs before [] d) batch then []
                     else [0]) (s_nodes before) ++
  frame_viol (forallb (fun x => has_tag n_tag (s_nodes before) (n_tag x)) (s_nodes after)).

Definition edel_entitled defs (before : store) (d : redel) : list Z :=
  match ed_ent d with
  | None => [0]
  | Some en =>
      let hit := find (edge_hit d) (s_edges before) in
      let t := match hit with Some o => needed (N.eqb (e_author o) (ed_author d)) | None => MutateSelf end in
      if negb (ed_sig_ok d && grantedR defs (ed_room d) (ed_author d) en (ed_date d) t) then [0]
      else match hit with
           | Some _ => if src_in_room (s_nodes before) (ed_src d) (ed_room d) en then [] else [1]
           | None => []
           end
  end.

Definition viol_edels defs (batch : list redel) (before after : store) : list Z :=
  frame_viol (same_tags n_tag (s_nodes before) (s_nodes after)) ++
  frame_viol (same_tags nd_tag (s_ndels before) (s_ndels after)) ++
  flat_map (fun d => if has_tag ed_tag (s_edels before) (ed_tag d) then []
                     else if negb (has_tag ed_tag batch (ed_tag d)) then [0]
                     else edel_entitled defs before d) (s_edels after) ++
  flat_map (fun y => if has_tag ed_tag (s_edels after) (ed_tag y) then []
                     else if existsb (fun d => same_edel_pk d y && has_tag ed_tag batch (ed_tag d)) (s_edels after) then []
                     else [0]) (s_edels before) ++
  (* a reference disappears only under an entitled tombstone of this call designating it; nothing appears *)
  flat_map (fun y => if has_tag e_tag (s_edges after) (e_tag y) then []
                     else if existsb (fun d => edge_hit d y && negb (existsb (Z.eqb 0) (edel_entitled defs before d))) batch then []
                     else [0]) (s_edges before) ++
  frame_viol (forallb (fun x => has_tag e_tag (s_edges before) (e_tag x)) (s_edges after)).

Definition unchanged (before after : store) : list Z :=
  frame_viol (same_tags n_tag (s_nodes before) (s_nodes after)) ++
  frame_viol (same_tags e_tag (s_edges before) (s_edges after)) ++
  frame_viol (same_tags nd_tag (s_ndels before) (s_ndels after)) ++
  frame_viol (same_tags ed_tag (s_edels before) (s_edels after)).

(* one call: `ok` = the call did not fail as a whole (a failed call must change nothing) *)
Definition viol_step defs dm (s : step) (ok : bool) (before after : store) : list Z :=
  if negb ok then unchanged before after
  else match s with
       | SNodes R b => viol_nodes defs dm R b before after
       | SEdges R b => viol_edges defs R b before after
       | SNDels b => viol_ndels defs b before after
       | SEDels b => viol_edels defs b before after
       end.

Fixpoint viol_steps defs dm (before : store) (ss : list step) (obs : list (bool * store)) : list Z :=
  match ss, obs with
  | [], [] => []
  | s :: tl, (ok, after) :: otl => viol_step defs dm s ok before after ++ viol_steps defs dm after tl otl
  | _, _ => [0]
  end.

(* ---- decoding the observation: tags -> the rows of the case ---- *)
Definition step_nodes_of (s : step) := match s with SNodes _ b => b | _ => [] end.
Definition step_edges_of (s : step) := match s with SEdges _ b => b | _ => [] end.
Definition step_ndels_of (s : step) := match s with SNDels b => b | _ => [] end.
Definition step_edels_of (s : step) := match s with SEDels b => b | _ => [] end.
Definition universe (pre : store) (ss : list step) : store :=
  {| s_nodes := s_nodes pre ++ flat_map step_nodes_of ss;
     s_edges := s_edges pre ++ flat_map step_edges_of ss;
     s_ndels := s_ndels pre ++ flat_map step_ndels_of ss;
     s_edels := s_edels pre ++ flat_map step_edels_of ss |}.

Fixpoint take_n (n : nat) (l : list Z) : option (list Z * list Z) :=
  match n with
  | O => Some ([], l)
  | S k => match l with
           | [] => None
           | h :: t => match take_n k t with Some (a, r) => Some (h :: a, r) | None => None end
           end
  end.
Definition take_counted (l : list Z) : option (list Z * list Z) :=
  match l with
  | [] => None
  | c :: t => if Z.ltb c 0 then None else take_n (Z.to_nat c) t
  end.
Fixpoint by_tags {A} (tag : A -> N) (u : list A) (ts : list Z) : option (list A) :=
  match ts with
  | [] => Some []
  | t :: tl => match find (fun x => Z.eqb (zn (tag x)) t) u, by_tags tag u tl with
               | Some x, Some r => Some (x :: r)
               | _, _ => None                               (* a stored row that is no row of the case *)
               end
  end.
Definition parse_dump (u : store) (l : list Z) : option (store * list Z) :=
  match take_counted l with
  | Some (a, l1) =>
    match take_counted l1 with
    | Some (b, l2) =>
      match take_counted l2 with
      | Some (c, l3) =>
        match take_counted l3 with
        | Some (d, l4) =>
            match by_tags n_tag (s_nodes u) a, by_tags e_tag (s_edges u) b, by_tags nd_tag (s_ndels u) c, by_tags ed_tag (s_edels u) d with
            | Some na, Some eb, Some nc, Some ed => Some ({| s_nodes := na; s_edges := eb; s_ndels := nc; s_edels := ed |}, l4)
            | _, _, _, _ => None
            end
        | None => None
        end
      | None => None
      end
    | None => None
    end
  | None => None
  end.
(* the answer of one call: [status] or, for nodes / edges with status 0, [0; n; rejected ids] *)
Definition parse_answer (s : step) (l : list Z) : option (bool * list Z) :=
  match l with
  | [] => None
  | st :: t =>
      if Z.eqb st 0 then
        match s with
        | SNodes _ _ | SEdges _ _ => match take_counted t with Some (_, r) => Some (true, r) | None => None end
        | _ => Some (true, t)
        end
      else Some (false, t)
  end.
Fixpoint parse_steps (u : store) (ss : list step) (l : list Z) : option (list (bool * store)) :=
  match ss with
  | [] => match l with [] => Some [] | _ => None end
  | s :: tl =>
      match parse_answer s l with
      | Some (ok, l1) =>
          match parse_dump u l1 with
          | Some (st, l2) => match parse_steps u tl l2 with Some r => Some ((ok, st) :: r) | None => None end
          | None => None
          end
      | None => None
      end
  end.

Definition violations (c : c02case) (obs : list Z) : list Z :=
  match c with
  | CIngest defs dm pre steps =>
      let u := universe pre steps in
      match parse_dump u obs with
      | Some (st0, l1) =>
          match parse_steps u steps l1 with
          | Some o => frame_viol (same_tags n_tag (s_nodes pre) (s_nodes st0) && same_tags e_tag (s_edges pre) (s_edges st0) &&
                                  same_tags nd_tag (s_ndels pre) (s_ndels st0) && same_tags ed_tag (s_edels pre) (s_edels st0)) ++
                      viol_steps defs dm st0 steps o
          | None => [0]
          end
      | None => [0]
      end
  end.

Definition spec_C02 (c : c02case) (obs : list Z) : bool :=
  match violations c obs with [] => true | _ => false end.

(* the known-finding classes a failing case lies in: only if EVERY violation found is one of the
   delimited kinds; a case that also shows another violation is in no class (and is reported) *)
Fixpoint dedupz (l : list Z) : list Z :=
  match l with
  | [] => []
  | h :: t => if existsb (Z.eqb h) t then dedupz t else h :: dedupz t
  end.
Definition classes_of (v : list Z) : list Z :=
  if forallb (fun k => Z.ltb 0 k) v then dedupz v else [].
Definition known_C02 (c : c02case) : list Z := classes_of (violations c (run_C02 c)).

Definition eval_C02 (c : c02case) (obs : list Z) : list Z :=
  [zb (zlist_eqb (run_C02 c) obs); zb (spec_C02 c obs)] ++ classes_of (violations c obs).
