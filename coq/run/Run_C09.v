(* Run_C09.v — entry points evaluated by the correspondence harness for C09. No proofs. *)
From DV Require Export DailyLog.
Open Scope Z_scope.

(* a history as the harness drives it: writer batches, and points at which the harness (having
   waited for every requested recomputation) reads the tables back *)
Inductive c09item := IBatch (b : list msg) | ICheck.
Inductive c09case :=
| CDaily (t0 : Z) (items : list c09item)    (* judged on: count, daily hash, no pending mark, a row for every stored key *)
| CCanon (t0 : Z) (items : list c09item).   (* judged on: the whole log (row set, history hash) is the canonical function of the content *)

Definition case_t0 (c : c09case) := match c with CDaily t _ | CCanon t _ => t end.
Definition case_items (c : c09case) := match c with CDaily _ i | CCanon _ i => i end.

(* ---- what is read back at a check point ---- *)
Record crow := { c_croom : N; c_cent : N; c_cdate : Z; c_csig : N }.        (* one stored row / deletion record *)
Record rawrow := { rr_room : N; rr_ent : N; rr_day : Z; rr_n : N; rr_dirty : bool;
                   rr_daily : list Z; rr_hist : list Z }.                    (* one _daily_log row, hashes as encoded terms *)
Record dump := { d_content : list crow; d_log : list rawrow }.

Fixpoint enc_h (h : hterm) : list Z :=
  match h with
  | HD l => 1 :: Z.of_nat (length l) :: map zn l
  | HC p d => 2 :: enc_h p ++ match d with None => [0] | Some x => enc_h x end
  end.
Definition enc_oh (o : option hterm) : list Z := match o with None => [0] | Some h => enc_h h end.

Definition crow_ltb (a b : crow) : bool :=
  N.ltb (c_croom a) (c_croom b) || (N.eqb (c_croom a) (c_croom b) &&
  (N.ltb (c_cent a) (c_cent b) || (N.eqb (c_cent a) (c_cent b) &&
  (Z.ltb (c_cdate a) (c_cdate b) || (Z.eqb (c_cdate a) (c_cdate b) && N.ltb (c_csig a) (c_csig b)))))).
Fixpoint cinsert (x : crow) (l : list crow) : list crow :=
  match l with [] => [x] | h :: t => if crow_ltb h x then h :: cinsert x t else x :: h :: t end.
Fixpoint csort (l : list crow) : list crow := match l with [] => [] | x :: t => cinsert x (csort t) end.

Definition crows (s : state) : list crow :=
  map (fun d => {| c_croom := nd_room d; c_cent := nd_ent d; c_cdate := nd_date d; c_csig := nd_sig d |}) (ndels s) ++
  map (fun d => {| c_croom := ed_room d; c_cent := e_ent (ed_edge d); c_cdate := ed_date d; c_csig := ed_sig d |}) (edels s) ++
  flat_map (fun n => match n_room n with
                     | Some r => [{| c_croom := r; c_cent := n_ent n; c_cdate := n_mdate n; c_csig := n_sig n |}]
                     | None => [] end) (nodes s).
Definition raw_of (l : lrow) : rawrow :=
  {| rr_room := l_room l; rr_ent := l_ent l; rr_day := l_day l; rr_n := l_n l; rr_dirty := l_dirty l;
     rr_daily := enc_oh (l_daily l); rr_hist := enc_oh (l_hist l) |}.
Definition dump_of (s : state) : dump := {| d_content := csort (crows s); d_log := map raw_of (log s) |}.

(* ---- flattening to integers ---- *)
Definition enc_crow (c : crow) : list Z := [zn (c_croom c); zn (c_cent c); c_cdate c; zn (c_csig c)].
Definition enc_raw (r : rawrow) : list Z :=
  [zn (rr_room r); zn (rr_ent r); rr_day r; zn (rr_n r); zb (rr_dirty r);
   Z.of_nat (length (rr_daily r)); Z.of_nat (length (rr_hist r))] ++ rr_daily r ++ rr_hist r.
Definition enc_dump (d : dump) : list Z :=
  Z.of_nat (length (d_content d)) :: flat_map enc_crow (d_content d) ++
  Z.of_nat (length (d_log d)) :: flat_map enc_raw (d_log d).
Definition enc_dumps (ds : list dump) : list Z := Z.of_nat (length ds) :: flat_map enc_dump ds.

Fixpoint dec_crows (k : nat) (l : list Z) : option (list crow * list Z) :=
  match k with
  | O => Some ([], l)
  | S k' => match l with
            | r :: e :: d :: s :: rest =>
                match dec_crows k' rest with
                | Some (cs, rest') => Some ({| c_croom := Z.to_N r; c_cent := Z.to_N e; c_cdate := d; c_csig := Z.to_N s |} :: cs, rest')
                | None => None end
            | _ => None end
  end.
Fixpoint dec_raws (k : nat) (l : list Z) : option (list rawrow * list Z) :=
  match k with
  | O => Some ([], l)
  | S k' => match l with
            | r :: e :: d :: n :: dt :: ld :: lh :: rest =>
                let nd := Z.to_nat ld in let nh := Z.to_nat lh in
                if Nat.ltb (length rest) (nd + nh) then None else
                match dec_raws k' (skipn (nd + nh) rest) with
                | Some (rs, rest') =>
                    Some ({| rr_room := Z.to_N r; rr_ent := Z.to_N e; rr_day := d; rr_n := Z.to_N n; rr_dirty := Z.eqb dt 1;
                             rr_daily := firstn nd rest; rr_hist := firstn nh (skipn nd rest) |} :: rs, rest')
                | None => None end
            | _ => None end
  end.
Definition dec_dump (l : list Z) : option (dump * list Z) :=
  match l with
  | nc :: rest =>
      match dec_crows (Z.to_nat nc) rest with
      | Some (cs, nl :: rest') =>
          match dec_raws (Z.to_nat nl) rest' with
          | Some (rs, rest'') => Some ({| d_content := cs; d_log := rs |}, rest'')
          | None => None end
      | _ => None end
  | [] => None
  end.
Fixpoint dec_dumps_n (k : nat) (l : list Z) : option (list dump) :=
  match k with
  | O => match l with [] => Some [] | _ => None end
  | S k' => match dec_dump l with
            | Some (d, rest) => match dec_dumps_n k' rest with Some ds => Some (d :: ds) | None => None end
            | None => None end
  end.
Definition dec_dumps (l : list Z) : option (list dump) :=
  match l with n :: rest => dec_dumps_n (Z.to_nat n) rest | [] => None end.

(* ---- the model's run ---- *)
Definition run_item (acc : state * list dump) (i : c09item) : state * list dump :=
  let '(s, ds) := acc in
  match i with
  | IBatch b => (fst (exec_batch (s, []) b), ds)
  | ICheck => (s, ds ++ [dump_of s])
  end.
Definition run_items (t0 : Z) (items : list c09item) : state * list dump := fold_left run_item items (init t0, []).
Definition run_dumps (c : c09case) : list dump := snd (run_items (case_t0 c) (case_items c)).
Definition run_C09 (c : c09case) : list Z := enc_dumps (run_dumps c).

(* ---- the property's own oracle, on what was read back from the implementation ---- *)
Definition ckey_is (r e : N) (d : Z) (c : crow) : bool :=
  N.eqb (c_croom c) r && N.eqb (c_cent c) e && Z.eqb (day (c_cdate c)) d.
(* from-scratch recount of (room, entity, day) over the stored rows and deletion records *)
Definition stored_sigs (cs : list crow) (r e : N) (d : Z) : list N :=
  isort (map c_csig (filter (ckey_is r e d) cs)).
Definition row_matches_recount (cs : list crow) (rw : rawrow) : bool :=
  let sg := stored_sigs cs (rr_room rw) (rr_ent rw) (rr_day rw) in
  negb (rr_dirty rw) && N.eqb (rr_n rw) (N.of_nat (length sg)) && zlist_eqb (rr_daily rw) (enc_oh (daily_of sg)).
Definition has_row (lg : list rawrow) (c : crow) : bool :=
  existsb (fun rw => ckey_is (rr_room rw) (rr_ent rw) (rr_day rw) c) lg.
Definition daily_ok (d : dump) : bool :=
  forallb (row_matches_recount (d_content d)) (d_log d) && forallb (has_row (d_log d)) (d_content d).

(* the canonical log of a content: one row per stored key in (room, entity, day) order, count and
   daily hash recounted, history chained along the room (the first row of a room starts the chain
   with its daily hash) — the log of a peer that receives exactly this content and recomputes once.
   That single pass has a quirk which is part of the canonical form (it is a function of the
   content all the same): a day that is followed by another day of the same room and entity is
   chained a second time with its own daily hash (the read cursor yields the rewritten row again). *)
Definition ckey_of (c : crow) : lkey := (c_croom c, c_cent c, day (c_cdate c)).
Fixpoint kinsert (k : lkey) (l : list lkey) : list lkey :=
  match l with
  | [] => [k]
  | h :: t => if key_eqb h k then l else if key_ltb k h then k :: l else h :: kinsert k t
  end.
Definition stored_keys (cs : list crow) : list lkey := fold_left (fun a c => kinsert (ckey_of c) a) cs [].
Fixpoint canon_rows (cs : list crow) (ks : list lkey) (prev : option (N * option hterm * option hterm)) : list rawrow :=
  match ks with
  | [] => []
  | (r, e, d) :: t =>
      let sg := stored_sigs cs r e d in
      let daily := daily_of sg in
      let hist := match prev with
                  | Some (pr, ph, pd) => if N.eqb pr r then match ph with Some p => Some (HC p pd) | None => None end else daily
                  | None => daily end in
      let again := match t with (r2, e2, _) :: _ => N.eqb r2 r && N.eqb e2 e | [] => false end in
      let hist' := if again then match hist with Some p => Some (HC p daily) | None => None end else hist in
      {| rr_room := r; rr_ent := e; rr_day := d; rr_n := N.of_nat (length sg); rr_dirty := false;
         rr_daily := enc_oh daily; rr_hist := enc_oh hist' |} :: canon_rows cs t (Some (r, hist', daily))
  end.
Definition canon_log_v1 (cs : list crow) : list rawrow := canon_rows cs (stored_keys cs) None.

(* the canonical log once requests/C09-fix-6.diff is applied: one row per stored key; the history of
   a room is the chain over its stored keys in (day, entity) order: the first one carries its daily
   hash, every other one hashes the history and the daily hash of the one before — a fold of the
   day contents in day order, nothing else *)
Definition chainkey_ltb (a b : lkey) : bool :=
  let '(r1, e1, d1) := a in let '(r2, e2, d2) := b in
  N.ltb r1 r2 || (N.eqb r1 r2 && (Z.ltb d1 d2 || (Z.eqb d1 d2 && N.ltb e1 e2))).
Fixpoint ckinsert (k : lkey) (l : list lkey) : list lkey :=
  match l with
  | [] => [k]
  | h :: t => if key_eqb h k then l else if chainkey_ltb k h then k :: l else h :: ckinsert k t
  end.
Definition chain_keys (cs : list crow) : list lkey := fold_left (fun a c => ckinsert (ckey_of c) a) cs [].
Fixpoint canon_rows2 (cs : list crow) (ks : list lkey) (prev : option (N * option hterm * option hterm)) : list rawrow :=
  match ks with
  | [] => []
  | (r, e, d) :: t =>
      let sg := stored_sigs cs r e d in
      let daily := daily_of sg in
      let hist := match prev with
                  | Some (pr, ph, pd) => if N.eqb pr r then match ph with Some p => Some (HC p pd) | None => None end else daily
                  | None => daily end in
      {| rr_room := r; rr_ent := e; rr_day := d; rr_n := N.of_nat (length sg); rr_dirty := false;
         rr_daily := enc_oh daily; rr_hist := enc_oh hist |} :: canon_rows2 cs t (Some (r, hist, daily))
  end.
Definition rr_ltb (a b : rawrow) : bool :=
  key_ltb (rr_room a, rr_ent a, rr_day a) (rr_room b, rr_ent b, rr_day b).
Fixpoint rr_insert (r : rawrow) (l : list rawrow) : list rawrow :=
  match l with [] => [r] | h :: t => if rr_ltb r h then r :: l else h :: rr_insert r t end.
Definition canon_log_v2 (cs : list crow) : list rawrow :=
  fold_left (fun acc r => rr_insert r acc) (canon_rows2 cs (chain_keys cs) None) [].

(* THE SWITCH (together with DailyLog.compute): v1 = /repo as it is, v2 = with requests/C09-fix-6.diff *)
Definition canon_log := canon_log_v1.
Definition rawrow_eqb (a b : rawrow) : bool :=
  N.eqb (rr_room a) (rr_room b) && N.eqb (rr_ent a) (rr_ent b) && Z.eqb (rr_day a) (rr_day b) &&
  N.eqb (rr_n a) (rr_n b) && Bool.eqb (rr_dirty a) (rr_dirty b) &&
  zlist_eqb (rr_daily a) (rr_daily b) && zlist_eqb (rr_hist a) (rr_hist b).
Definition canon_ok (d : dump) : bool := list_eqb rawrow_eqb (d_log d) (canon_log (d_content d)).

Definition n_checks (items : list c09item) : nat :=
  length (filter (fun i => match i with ICheck => true | _ => false end) items).

Definition spec_C09 (c : c09case) (obs : list Z) : bool :=
  match dec_dumps obs with
  | None => false
  | Some ds =>
      Nat.eqb (length ds) (n_checks (case_items c)) &&
      match c with
      | CDaily _ _ => forallb daily_ok ds
      | CCanon _ _ => forallb canon_ok ds
      end
  end.

(* ---- known-finding classes (known_findings.d/C09.json), decided on the input through the model ----
   classes 1 (synchronised update to another day of the same room), 2 (reference deletion),
   3 (peer tombstone for another version), 6 (synchronised version under another entity) and
   7 (edge tombstone replacing one recorded under another source entity) were repaired in /repo
   (4510e5f, f14488a, 9c2e3ca, 9b19d99, de0967d): every write kind now marks every key it changes
   (proofs/C09P.v: all_writes_cover), these classes are never returned.
   9: any other write that changes a key it does not mark (NOT listed: would be reported)
   4: (CCanon) the history-hash column is not the canonical chain although counts and daily hashes are right
   5: (CCanon) a row is left behind for a key that stores nothing *)
Definition op_class (o : op) : Z :=
  match o with _ => 9 end.
Definition msg_classes (acc : state * list Z) (m : msg) : state * list Z :=
  let '(s, cl) := acc in
  match m with
  | MOp o => let '(s', ms) := exec_op o s in
             (s', match uncovered s s' ms with [] => cl | _ => cl ++ [op_class o] end)
  | MCompute => (fst (compute s), cl)
  end.
(* runs along the history exactly like exec_batch, collecting the class of every uncovering write *)
Definition item_classes (acc : state * list Z) (i : c09item) : state * list Z :=
  let '(s, cl) := acc in
  match i with
  | IBatch b => (fst (exec_batch (s, []) b), snd (fold_left msg_classes b (s, cl)))
  | ICheck => (s, cl)
  end.
Definition mark_classes (c : c09case) : list Z := snd (fold_left item_classes (case_items c) (init (case_t0 c), [])).

Definition rr_key_eqb (a b : rawrow) : bool :=
  N.eqb (rr_room a) (rr_room b) && N.eqb (rr_ent a) (rr_ent b) && Z.eqb (rr_day a) (rr_day b).
Definition hist_differs (d : dump) : bool :=
  let cn := canon_log (d_content d) in
  existsb (fun rw => existsb (fun cr => rr_key_eqb rw cr && negb (zlist_eqb (rr_hist rw) (rr_hist cr))) cn) (d_log d).
Definition empty_row_left (d : dump) : bool :=
  let cn := canon_log (d_content d) in
  existsb (fun rw => negb (existsb (rr_key_eqb rw) cn)) (d_log d).
Fixpoint zdedup (l : list Z) : list Z :=
  match l with [] => [] | x :: t => if existsb (Z.eqb x) t then zdedup t else x :: zdedup t end.

Definition known_C09 (c : c09case) : list Z :=
  zdedup (mark_classes c ++
          match c with
          | CDaily _ _ => []
          | CCanon _ _ => let ds := run_dumps c in
                          (if existsb hist_differs ds then [4] else []) ++
                          (if existsb empty_row_left ds then [5] else [])
          end).

Definition eval_C09 (c : c09case) (obs : list Z) : list Z :=
  [zb (zlist_eqb (run_C09 c) obs); zb (spec_C09 c obs)] ++ known_C09 c.

(* the statement at full strength (refuted by the faithful model: props/C09.v) *)
Definition no_pending (c : c09case) : bool :=
  forallb (fun d => forallb (fun rw => negb (rr_dirty rw)) (d_log d)) (run_dumps c).
Definition C09_full : Prop := forall c, no_pending c = true -> spec_C09 c (run_C09 c) = true.

