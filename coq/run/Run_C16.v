(* Run_C16.v — entry points evaluated by the correspondence harness for C16.  No proofs here. *)
From DV Require Export Pipeline.

(* CSched rights d nf ms sigma batch : the rooms known to the authorisation state with the date from
   which the caller's right is revoked, initial rows/references d, nf scalar fields observed, the mutations,
   the schedule executed against the real phases; [batch] only tells the harness whether adjacent
   writes share one transaction (as the batch writer does) — the model does not look at it.
   CNote : an observation-only record (real service driven through mutation_stream): nothing to decide *)
Inductive c16case :=
| CSched (rights : list (N * Z)) (d : db) (nf : N) (ms : list mutation) (sigma : list ev) (batch : bool)
| CNote.

(* ---- observation of a database state ---- *)
Definition fields_upto (nf : N) : list N := map N.of_nat (seq 0 (N.to_nat nf)).
Definition obs_row (nf : N) (r : row) : list Z :=
  [zn (r_id r); zo (r_room r); r_mdate r] ++
  map (fun f => match get_field f (r_fields r) with Some v => v | None => -1 end) (fields_upto nf).

Definition edge_leb (a b : edge) : bool :=
  match N.compare (e_src a) (e_src b) with
  | Lt => true | Gt => false
  | Eq => match N.compare (e_label a) (e_label b) with
          | Lt => true | Gt => false
          | Eq => N.leb (e_dest a) (e_dest b)
          end
  end.
Fixpoint ins_sorted (x : edge) (l : list edge) : list edge :=
  match l with
  | [] => [x]
  | y :: t => if edge_leb x y then x :: y :: t else y :: ins_sorted x t
  end.
Definition sort_edges (l : list edge) : list edge := fold_right ins_sorted [] l.
Definition obs_edge (e : edge) : list Z := [zn (e_src e); zn (e_label e); zn (e_dest e); e_cdate e].

Fixpoint ins_row (x : row) (l : list row) : list row :=
  match l with
  | [] => [x]
  | y :: t => if N.leb (r_id x) (r_id y) then x :: y :: t else y :: ins_row x t
  end.
Definition sort_rows (l : list row) : list row := fold_right ins_row [] l.
(* rows by id (rowids are not part of the observation), then references by (source, field, target) *)
Definition obs_db (nf : N) (d : db) : list Z :=
  flat_map (obs_row nf) (sort_rows (rows d)) ++ flat_map obs_edge (sort_edges (edges d)).

(* acknowledgements (1 = written and acknowledged, 2 = refused by the validation, 0 = error at
   read time) then the final state *)
Definition ack_code (s : st) (i : nat) : Z :=
  if memn i (s_acked s) then 1 else if memn i (s_refused s) then 2 else 0.
Definition outcome (n : nat) (nf : N) (s : st) : list Z :=
  map (ack_code s) (seq 0 n) ++ obs_db nf (s_db s).

(* ---- all orders of n mutations ---- *)
Fixpoint insert_all (x : nat) (l : list nat) : list (list nat) :=
  match l with
  | [] => [[x]]
  | y :: t => (x :: y :: t) :: map (cons y) (insert_all x t)
  end.
Fixpoint perms (l : list nat) : list (list nat) :=
  match l with
  | [] => [[]]
  | x :: t => flat_map (insert_all x) (perms t)
  end.

(* ---- chunked observation: each chunk is preceded by its length ---- *)
Definition join (l : list (list Z)) : list Z := flat_map (fun c => Z.of_nat (length c) :: c) l.
Fixpoint split_chunks (fuel : nat) (l : list Z) : option (list (list Z)) :=
  match l with
  | [] => Some []
  | n :: t =>
      match fuel with
      | O => None
      | S f =>
          let k := Z.to_nat n in
          if (n <? 0) || (length t <? k)%nat then None
          else match split_chunks f (skipn k t) with
               | Some r => Some (firstn k t :: r)
               | None => None
               end
      end
  end.

Definition serial_outcome (rights : list (N * Z)) (d : db) (nf : N) (ms : list mutation) (pi : list nat) : list Z :=
  match run_sched rights d ms (serial_sched pi) with
  | Some s => outcome (length ms) nf s
  | None => []
  end.

(* what the model says the harness observes: the outcome of the schedule, then the outcome of
   every serial order (the harness really runs each of them on a fresh copy of the initial state) *)
Definition run_chunks (c : c16case) : list (list Z) :=
  match c with
  | CSched rt d nf ms sigma _ =>
      match run_sched rt d ms sigma with
      | Some s => outcome (length ms) nf s :: map (serial_outcome rt d nf ms) (perms (seq 0 (length ms)))
      | None => []
      end
  | CNote => []
  end.
Definition run_C16 (c : c16case) : list Z := join (run_chunks c).

(* ---- the property's own semantics of ONE mutation applied alone to a state (written without the
   read / write split): assigned scalar fields take the new value, every other field keeps its
   value; a single reference replaces the references of its field unless it is already there; an
   array reference adds the targets not yet referenced through THAT field; null removes the
   references of the field; a given room moves the row; a mutation that changes nothing leaves the
   row (and its modification date) as it is ---- *)
Definition label_removed (es : list edge) (refs : list refop) (l : N) : bool :=
  existsb (fun op => match op with
                     | RClear l' => N.eqb l' l
                     | RSet l' dst => N.eqb l' l && negb (edge_exists l' dst es)
                     | RAdd _ _ => false
                     end) refs.
Definition spec_new_edges (x : N) (date : Z) (es : list edge) (op : refop) : list edge :=
  match op with
  | RAdd l ds => map (fun dst => mk_edge x l dst date) (filter (fun dst => negb (edge_exists l dst es)) ds)
  | RSet l dst => if edge_exists l dst es then [] else [mk_edge x l dst date]
  | RClear _ => []
  end.
Definition spec_ref_effective (es : list edge) (op : refop) : bool :=
  match op with
  | RAdd l ds => existsb (fun dst => negb (edge_exists l dst es)) ds
  | RSet l dst => negb (edge_exists l dst es)
  | RClear l => existsb (fun e => N.eqb (e_label e) l) es
  end.
Definition spec_new_rows_edges (m : mutation) (es : list edge) (all : list edge) : list edge :=
  fold_left (fun acc e => insert_edge e acc)
    (flat_map (spec_new_edges (m_row m) (m_date m) es) (m_refs m))
    (filter (fun e => negb (N.eqb (e_src e) (m_row m) && label_removed es (m_refs m) (e_label e))) all).
Definition spec_apply (m : mutation) (d : db) : db :=
  let x := m_row m in
  let es := edges_of x d in
  match m_kind m with
  | KUpdate =>
      match find_row x d with
      | None => d
      | Some old =>
          let changed := negb (is_nil (m_assign m)) || existsb (spec_ref_effective es) (m_refs m)
                         || room_changes old m in
          let new := {| r_id := r_id old; r_rowid := r_rowid old;
                        r_room := match m_room m with Some r => Some r | None => r_room old end;
                        r_mdate := m_date m;
                        r_fields := merge_fields (r_fields old) (m_assign m) |} in
          {| rows := if changed then map (fun r => if N.eqb (r_id r) x then new else r) (rows d) else rows d;
             edges := spec_new_rows_edges m es (edges d); db_floor := db_floor d |}
      end
  | KCreate =>
      (* a new row: the assigned fields (the parser has added the defaults), its room, its references *)
      match find_row x d with
      | Some _ => d
      | None =>
          {| rows := rows d ++ [{| r_id := x; r_rowid := next_rowid d; r_room := m_room m;
                                   r_mdate := m_date m; r_fields := merge_fields [] (m_assign m) |}];
             edges := spec_new_rows_edges m es (edges d); db_floor := db_floor d |}
      end
  | KDelete =>
      (* the row and the references that start from it are gone; deleting what is not there does nothing *)
      match find_row x d with
      | None => d
      | Some _ =>
          {| rows := filter (fun r => negb (N.eqb (r_id r) x)) (rows d);
             edges := filter (fun e => negb (N.eqb (e_src e) x)) (edges d); db_floor := db_floor d |}
      end
  end.
Definition spec_apply_i (ms : list mutation) (d : db) (i : nat) : db :=
  match nth_error ms i with Some m => spec_apply m d | None => d end.

(* indices acknowledged according to the observed acknowledgement flags *)
Definition acked_of (acks : list Z) : list nat :=
  map fst (filter (fun p => Z.eqb (snd p) 1) (combine (seq 0 (length acks)) acks)).

(* ---- the property's own oracle, on what the IMPLEMENTATION did (first chunk: acknowledgement
   flags, then the final rows and references): the final state is the state that the
   acknowledged mutations give when applied one after another, with the semantics above, in
   some order.  The implementation's own serial runs (the other chunks) are NOT consulted: they are
   compared with the model (correspondence) and judged themselves as cases of their own. ---- *)
Definition spec_chunks (c : c16case) (ch : list (list Z)) : bool :=
  match c with
  | CSched _ d nf ms sigma _ =>
      match ch with
      | h :: _ =>
          let n := length ms in
          let acks := firstn n h in
          let fin := skipn n h in
          Nat.eqb (length acks) n &&
          existsb (fun pi => zlist_eqb fin (obs_db nf (fold_left (spec_apply_i ms) pi d)))
                  (perms (acked_of acks))
      | [] => false
      end
  | CNote => true
  end.
Definition spec_C16 (c : c16case) (obs : list Z) : bool :=
  match split_chunks (S (length obs)) obs with
  | Some ch => spec_chunks c ch
  | None => false
  end.

(* every mutation of the case goes through its three phases *)
Definition ev_eqb (a b : ev) : bool :=
  match a, b with
  | R i, R j | V i, V j | W i, W j => Nat.eqb i j
  | _, _ => false
  end.
Definition complete (n : nat) (sigma : list ev) : bool :=
  forallb (fun i => existsb (ev_eqb (R i)) sigma && existsb (ev_eqb (W i)) sigma) (seq 0 n).

(* known-finding class 1: the schedule contains overlapping read-write windows on one row
   (a Read of a mutation on row x between the Read and the Write of another mutation on x).
   (class 2 — a room move that changes nothing else was acknowledged and dropped — is fixed in
   /repo by 07628ab; its predicate is gone) *)
Definition known_C16 (c : c16case) : list Z :=
  match c with
  | CSched _ d nf ms sigma _ => if windows_ok ms [] sigma then [] else [1]
  | CNote => []
  end.

(* well-formed cases (what the harness generates): row ids and rowids are unique, rowids of other
   entities' rows are below db_floor.., and the id drawn for a new row is new in every order *)
Fixpoint nodupb (l : list N) : bool :=
  match l with [] => true | x :: t => negb (existsb (N.eqb x) t) && nodupb t end.
Definition wf_db (d : db) : bool := nodupb (map r_id (rows d)) && nodupb (map r_rowid (rows d)).
Fixpoint creates_fresh (ms : list mutation) (d : db) (pi : list nat) : bool :=
  match pi with
  | [] => true
  | i :: t => match nth_error ms i with
              | Some m => match m_kind m, find_row (m_row m) d with
                          | KCreate, Some _ => false
                          | _, _ => true
                          end
              | None => true
              end && creates_fresh ms (apply ms d i) t
  end.
Definition wf_case (c : c16case) : bool :=
  match c with
  | CSched _ d nf ms sigma _ => wf_db d && forallb (creates_fresh ms d) (perms (seq 0 (length ms)))
  | CNote => true
  end.

Definition eval_C16 (c : c16case) (obs : list Z) : list Z :=
  [zb (zlist_eqb (run_C16 c) obs); zb (spec_C16 c obs)] ++ known_C16 c.
