(* Run_C01.v — entry points evaluated by the correspondence harness for C01 (and reused by C12). *)
From DV Require Export RightsSpec Authz.

Inductive c01case :=
| CMatrix (evs : list event) (probes : list (key * entity * Z))
| CMut (defs : list (uid * list event)) (me : key) (now : Z) (ms : list ment)
| CDel (defs : list (uid * list event)) (me : key) (now : Z) (ns : list dnode) (es : list dedge)
       (upd : list dnode)     (* source rows a reference deletion re-dates and re-signs (DeletionQuery.updated_nodes) *)
| CRoomMut (defs : list (uid * list event)) (me : key) (rid : uid) (date : Z) (news : list event)
       (* a mutation of an existing room's definition: the entries `news`, all dated `date` *)
| CFailedWrite (inner : c01case)
       (* `inner` submitted through the API while the storage refuses the write (injected failure
          of the batch): it must be answered with an error and leave tables AND rooms unchanged *)
| CE2E (inner : c01case).    (* the same operation submitted as text through the public API of a real instance:
                                observation = [refused?; database changed?] *)

Definition build_rooms (defs : list (uid * list event)) : list room :=
  map (fun p => build (fst p) (snd p)) defs.
Definition evs_of (defs : list (uid * list event)) (rid : uid) : list event :=
  match find (fun p => N.eqb (fst p) rid) defs with
  | Some p => accepted (fst p) (snd p)
  | None => []
  end.
Definition known_room (defs : list (uid * list event)) (rid : uid) : bool :=
  existsb (fun p => N.eqb (fst p) rid) defs.

(* validate_room_mutation for an EXISTING room: the caller must be admin of the room as it is;
   the entries are added with the add_* functions (any refusal refuses the request); then, if an
   admin / right / user-admin entry was added, or a user entry in a group whose user-admin the
   caller is not, the caller must (still) be admin of the room as it becomes *)
Fixpoint apply_news (r : room) (news : list event) : option room :=
  match news with
  | [] => Some r
  | ev :: tl => match apply_event r ev with Some r' => apply_news r' tl | None => None end
  end.
Definition needs_room_admin (r' : room) (me : key) (date : Z) (ev : event) : bool :=
  match ev with
  | EvGroup _ => false
  | EvAdmin _ _ _ | EvRight _ _ _ _ _ | EvUAdmin _ _ _ _ => true
  | EvUser g _ _ _ => match find_auth r' g with
                      | Some a => negb (can_admin_users a me date)
                      | None => true
                      end
  end.
Definition validate_room_update (me : key) (r : room) (date : Z) (news : list event) : verdict :=
  if negb (is_admin r me date) then VRejected
  else match apply_news r news with
       | None => VInvalidAuthMutation             (* some add_* refused (date older than the key's last entry, duplicate group) *)
       | Some r' =>
           if existsb (needs_room_admin r' me date) news && negb (is_admin r' me date) then VRejected
           else VOk
       end.

Definition probe_model (r : room) (p : key * entity * Z) : list Z :=
  let '(k, e, d) := p in
  [zb (can r k e d MutateSelf); zb (can r k e d MutateAll); zb (is_admin r k d);
   zb (is_user_valid_at r k d); zb (has_user r k);
   zb (existsb (fun a => can_admin_users a k d) (rm_auths r))].
Definition probe_spec (evs : list event) (p : key * entity * Z) : list Z :=
  let '(k, e, d) := p in
  [zb (granted evs k e d MutateSelf); zb (granted evs k e d MutateAll); zb (admin_at evs k d);
   zb (admin_at evs k d || existsb (fun g => member_at evs g k d) (groups evs))].

(* what the model says the implementation does *)
Fixpoint run_C01 (c : c01case) : list Z :=
  match c with
  | CMatrix evs probes =>
      let '(r, oks) := build_from (empty_room 1%N) evs in
      map zb oks ++ flat_map (probe_model r) probes
  | CMut defs me now ms => [verdict_code (validate_all me now (build_rooms defs) ms)]
  | CDel defs me now ns es upd => [verdict_code (validate_deletion me now (build_rooms defs) ns es upd)]
  | CRoomMut defs me rid date news =>
      match find (fun p => N.eqb (fst p) rid) defs with
      | None => [verdict_code VUnknownRoom]
      | Some p => [verdict_code (validate_room_update me (build (fst p) (snd p)) date news)]
      end
  | CFailedWrite _ => [1; 0]
  | CE2E inner =>
      match run_C01 inner with
      | [v] => if Z.eqb v 0 then [0; 1] else [1; 0]      (* accepted: applied; refused: nothing changes *)
      | l => l
      end
  end.

(* ---- the property's own oracle, evaluated on what the IMPLEMENTATION answered ---- *)
Definition head_entitled (defs : list (uid * list event)) (me : key) (now : Z) (h : mhead) : bool :=
  match h_kind h with
  | KAuthLike => false                       (* authorisation rows are never written outside a room mutation *)
  | KNormal =>
      let same := match h_old h with Some o => N.eqb (o_author o) me | None => true end in
      let t := needed same in
      let enter_ok := match h_room h with
                      | Some rid => known_room defs rid && granted (evs_of defs rid) me (h_ent h) (h_date h) t
                      | None => true end in
      let leave_ok := match h_old h with
                      | Some o => match o_room o with
                                  | Some orid =>
                                      if opt_eqb N.eqb (Some orid) (h_room h) then true
                                      else granted (evs_of defs orid) me (h_ent h) (h_date h) t
                                  | None => true end
                      | None => true end in
      (* references created by someone else are removed only with the all-rows right (at `now`) *)
      let dels_granted := match h_room h with
                          | Some rid => forallb (fun a => N.eqb a me || granted (evs_of defs rid) me (h_ent h) now MutateAll) (h_edge_dels h)
                          | None => true end in
      enter_ok && leave_ok && dels_granted
  end.

Definition del_entitled (defs : list (uid * list event)) (me : key) (now : Z)
           (k : ekind) (e : entity) (room : option uid) (author : key) (date : Z) : bool :=
  match k with
  | KAuthLike => false
  | KNormal => match room with
               | None => true
               | Some rid => known_room defs rid &&
                             (if N.eqb author me then granted (evs_of defs rid) me e date MutateSelf
                              else granted (evs_of defs rid) me e now MutateAll)
               end
  end.

Fixpoint drop {A} (n : nat) (l : list A) := match n, l with O, _ => l | S k, _ :: t => drop k t | _, [] => [] end.
Fixpoint chunks {A} (n : nat) (k : nat) (l : list A) : list (list A) :=
  match n with O => [] | S m => firstn k l :: chunks m k (drop k l) end.

(* the source row of a reference deletion is rewritten under the caller's name at `now`: the
   caller needs the own-rows right if it authored the row, the all-rows right otherwise *)
Definition upd_entitled (defs : list (uid * list event)) (me : key) (now : Z) (n : dnode) : bool :=
  del_entitled defs me now (dn_kind n) (dn_ent n) (dn_room n) (dn_author n) now.

Fixpoint spec_C01 (c : c01case) (obs : list Z) : bool :=
  match c with
  | CMatrix evs probes =>
      (* decisions of the real Room must be those the history grants *)
      let acc := map fst (filter snd (combine evs (map (fun z => Z.eqb z 1) (firstn (length evs) obs)))) in
      let per := chunks (length probes) 6 (drop (length evs) obs) in
      forallb (fun pq => zlist_eqb (firstn 4 (snd pq)) (probe_spec acc (fst pq))) (combine probes per)
  | CMut defs me now ms =>
      match obs with
      | [v] => if Z.eqb v 0 then forallb (head_entitled defs me now) (flat_map written ms) else true
      | _ => false
      end
  | CDel defs me now ns es upd =>
      match obs with
      | [v] => if Z.eqb v 0 then
                 forallb (fun n => del_entitled defs me now (dn_kind n) (dn_ent n) (dn_room n) (dn_author n) (dn_date n)) ns &&
                 forallb (fun n => del_entitled defs me now (de_kind n) (de_ent n) (de_room n) (de_author n) (de_date n)) es &&
                 forallb (upd_entitled defs me now) upd
               else true
      | _ => false
      end
  | CRoomMut defs me rid date news =>
      (* a room's definition is changed only by its admins *)
      match obs with
      | [v] => if Z.eqb v 0 then known_room defs rid && admin_at (evs_of defs rid) me date else true
      | _ => false
      end
  | CFailedWrite _ => zlist_eqb obs [1; 0]
  | CE2E inner =>
      match obs with
      | [refused; changed] =>
          if Z.eqb refused 0 then spec_C01 inner [0]
          else Z.eqb changed 0                      (* a refused operation leaves the database unchanged *)
      | _ => false
      end
  end.

(* shapes that create_node_to_mutate can produce: a row that is in a room keeps a room
   (new room = the given one, else the old one) *)
Definition wf_head (h : mhead) : bool :=
  match h_room h, h_old h with
  | None, Some o => match o_room o with None => true | Some _ => false end
  | _, _ => true
  end.
Fixpoint wf_tree (m : ment) : bool :=
  match m with MEnt h subs => wf_head h && forallb wf_tree subs end.

(* classes of inputs on which the tree is known to violate the property and that are recorded
   as open findings in known_findings.json: none for C01 (both defects found by this check
   were repaired: see known_findings.json "fixed" entries) *)
(* classes of inputs recorded as OPEN findings in known_findings.d/C01.json: none (the three
   defects this check found were repaired; see the "fixed" entries there) *)
Definition known_C01 (c : c01case) : list Z := [].

Definition eval_C01 (c : c01case) (obs : list Z) : list Z :=
  [zb (zlist_eqb (run_C01 c) obs); zb (spec_C01 c obs)] ++ known_C01 c.
