(* Run_C20.v — entry points evaluated by the correspondence harness for C20.  No proofs. *)
From DV Require Export Lock.
Open Scope N_scope.

Inductive c20case :=
| CLock (max : nat) (tr : list msg)          (* the service, driven by messages of 1-3 connections *)
| CConn (max : nat) (es : list cev)          (* connections (real process_acquired_room / cleanup) on top of the service *)
| CLoop (max : nat) (es : list cev).         (* the same, connection 1 being a real LocalPeerService::start loop (kept busy
                                                inside a RoomList answer, so it never takes a grant): its grants are not observable *)

(* ---------------- observation format ----------------
   per message: [number of grants; c; k; r; c; k; r; ...], the grants of that message ordered by
   reply channel (c, k), and in channel order within one channel: the order in which different
   channels were written within one message cannot be observed from outside. *)
Definition chan_leb (a b : grant) : bool :=
  let '(c1, k1, _) := a in let '(c2, k2, _) := b in
  N.ltb c1 c2 || (N.eqb c1 c2 && N.leb k1 k2).
Fixpoint insert_g (x : grant) (l : list grant) : list grant :=
  match l with
  | [] => [x]
  | y :: t => if chan_leb x y then x :: l else y :: insert_g x t
  end.
Fixpoint sort_g (l : list grant) : list grant :=
  match l with [] => [] | x :: t => insert_g x (sort_g t) end.

Definition enc_grant (g : grant) : list Z := let '(c, k, r) := g in [zn c; zn k; zn r].
Definition enc_step (gs : list grant) : list Z := Z.of_nat (length gs) :: flat_map enc_grant gs.
Definition encode (gss : list (list grant)) : list Z := flat_map enc_step gss.

Fixpoint take_grants (n : nat) (l : list Z) : option (list grant * list Z) :=
  match n with
  | O => Some ([], l)
  | S k => match l with
           | c :: g :: r :: tl =>
               match take_grants k tl with
               | Some (gs, rest) => Some ((Z.to_N c, Z.to_N g, Z.to_N r) :: gs, rest)
               | None => None
               end
           | _ => None
           end
  end.
Fixpoint decode (nsteps : nat) (l : list Z) : option (list (list grant)) :=
  match nsteps with
  | O => match l with [] => Some [] | _ => None end
  | S k => match l with
           | [] => None
           | cnt :: tl =>
               match take_grants (Z.to_nat cnt) tl with
               | Some (gs, rest) => match decode k rest with Some gss => Some (gs :: gss) | None => None end
               | None => None
               end
           end
  end.

(* ---------------- the property's own oracle ----------------
   Judged on the grants the implementation was observed to send, independently of the service's
   queue / rotation / counter.  It follows, from the messages and the observed grants only:
     holders  : who holds which room (granted and not released BY THAT HOLDER)
     credits  : requested rooms not yet granted (multiset)        -> "once per request"
     waiting  : (connection, room) requested since its last grant -> "never lost"
     deadch   : reply channels that were dropped.  A promise is owed to a connection as long as the channel
                of its latest request is alive: when one of its channels is dropped, or it asks on a dropped
                channel, what it was waiting for may be forgotten (waiting is emptied for it); a later request
                on a live channel — a peer that reconnects under the same circuit id — is owed again *)
Record sp := { holders : list (N * N); credits : list (N * N); waiting : list (N * N); deadch : list (N * N) }.
Definition sp0 : sp := {| holders := []; credits := []; waiting := []; deadch := [] |}.

Fixpoint take_one (x : N * N) (l : list (N * N)) : option (list (N * N)) :=
  match l with
  | [] => None
  | y :: t => if pair_eqb x y then Some t
              else match take_one x t with Some t' => Some (y :: t') | None => None end
  end.
Fixpoint remove_one (x : N * N) (l : list (N * N)) : list (N * N) :=
  match l with
  | [] => []
  | y :: t => if pair_eqb x y then t else y :: remove_one x t
  end.
Definition remove_all (x : N * N) (l : list (N * N)) : list (N * N) :=
  filter (fun y => negb (pair_eqb x y)) l.

Definition sp_msg (s : sp) (m : msg) : sp :=
  match m with
  | Request c rooms k =>
      {| holders := holders s; credits := map (pair c) rooms ++ credits s;
         waiting := if mem_pair (c, k) (deadch s)
                    then filter (fun x => negb (N.eqb (fst x) c)) (waiting s)
                    else map (pair c) rooms ++ waiting s;
         deadch := deadch s |}
  | Unlock who r =>
      {| holders := remove_one (who, r) (holders s); credits := credits s; waiting := waiting s; deadch := deadch s |}
  | DropChan c k =>
      {| holders := holders s; credits := credits s;
         waiting := filter (fun x => negb (N.eqb (fst x) c)) (waiting s); deadch := (c, k) :: deadch s |}
  end.
Definition sp_grant (s : sp) (g : grant) : option sp :=
  let '(c, _, r) := g in
  match take_one (c, r) (credits s) with
  | None => None                                      (* granted without a request: "once" violated *)
  | Some cr => Some {| holders := (c, r) :: holders s; credits := cr;
                       waiting := remove_all (c, r) (waiting s); deadch := deadch s |}
  end.
Fixpoint sp_grants (s : sp) (gs : list grant) : option sp :=
  match gs with
  | [] => Some s
  | g :: t => match sp_grant s g with Some s' => sp_grants s' t | None => None end
  end.

Fixpoint nodupN (l : list N) : bool :=
  match l with [] => true | x :: t => negb (memN x t) && nodupN t end.
(* exclusive and bounded *)
Definition sp_safe (max : nat) (s : sp) : bool :=
  nodupN (map snd (holders s)) && Nat.leb (length (holders s)) max.
(* never lost: a request that is owed (see deadch above) is blocked only by a held room or
   by the limit *)
Definition sp_live (max : nat) (s : sp) : bool :=
  forallb (fun x => memN (snd x) (map snd (holders s)) || Nat.leb max (length (holders s)))
          (waiting s).

(* (safe, live) over the whole history *)
Fixpoint spec_from (max : nat) (s : sp) (tr : list msg) (gss : list (list grant)) : bool * bool :=
  match tr, gss with
  | [], [] => (true, true)
  | m :: tl, gs :: gtl =>
      match sp_grants (sp_msg s m) gs with
      | None => (true, false)
      | Some s' => let '(a, b) := spec_from max s' tl gtl in (sp_safe max s' && a, sp_live max s' && b)
      end
  | _, _ => (false, false)
  end.

(* ---------------- service level: run / oracle / known ---------------- *)
Definition run_lock (max : nat) (tr : list msg) : list Z :=
  encode (map sort_g (run_from (init max) tr)).
Definition spec_pair_lock (max : nat) (tr : list msg) (obs : list Z) : bool * bool :=
  match decode (length tr) obs with
  | Some gss => spec_from max sp0 tr gss
  | None => (false, false)
  end.

(* class 1 (K1, releases carry no owner): somewhere in the history an Unlock sent by a connection
   that does not hold the room frees a room that is locked (held by another connection, or by the
   same connection through a newer grant).  Histories outside this class: theorem
   C20_outside_known.  The class only covers the exclusive/bounded part: if the "once" /
   "never lost" part fails on such a history it is NOT excused. *)
Definition gh_msg (h : list (N * N)) (m : msg) : list (N * N) :=
  match m with Unlock who r => remove_one (who, r) h | _ => h end.
Definition cr (g : grant) : N * N := (fst (fst g), snd g).
Definition gh_grants (h : list (N * N)) (gs : list grant) : list (N * N) :=
  fold_left (fun acc g => cr g :: acc) gs h.
Fixpoint foreign_from (s : st) (h : list (N * N)) (tr : list msg) : bool :=
  match tr with
  | [] => false
  | m :: tl =>
      let bad := match m with
                 | Unlock who r => negb (mem_pair (who, r) h) && memN r (locked s)
                 | _ => false
                 end in
      let '(s', g) := step s m in
      bad || foreign_from s' (gh_grants (gh_msg h m) g) tl
  end.
Definition foreign_lock (max : nat) (tr : list msg) : bool := foreign_from (init max) [] tr.

(* ---- "eventually granted": bounded overtaking ----
   oracle (on the observed grants): while (c, r) waits, none of c's channels was ever dropped and c is
   granted nothing, room r is granted to OTHER connections at most `ncirc` times, ncirc = the number
   of connections that request anything in the history (fewer than that many entries can stand
   before c's in the queue; each passes at most once before c is served: theorems
   C20_bounded_overtaking / C20_overtaking_oracle_holds).  The count of (c, r) starts again whenever c
   is granted a room. *)
Fixpoint dedupN (l : list N) : list N :=
  match l with [] => [] | x :: t => if memN x t then dedupN t else x :: dedupN t end.
Definition circuits_of (tr : list msg) : list N :=
  dedupN (flat_map (fun m => match m with Request c _ _ => [c] | _ => [] end) tr).
Definition ncirc (tr : list msg) : nat := length (circuits_of tr).
(* oracle state: waiting (c, r) with its count; connections one of whose channels was dropped *)
Definition bpst := (list (N * N * nat) * list N)%type.
Definition bp_msg (b : bpst) (m : msg) : bpst :=
  let '(w, t) := b in
  match m with
  | Request c rooms _ =>
      if memN c t then b else
      (fold_left (fun acc r => if existsb (fun x => pair_eqb (fst x) (c, r)) acc then acc else acc ++ [((c, r), O)]) rooms w, t)
  | DropChan c _ => (filter (fun x => negb (N.eqb (fst (fst x)) c)) w, c :: t)     (* no promise to that connection any more *)
  | Unlock _ _ => b
  end.
(* the grants of one message, whatever their order: a granted (c, r) stops waiting; the other rooms
   of a connection that was granted something start counting again; otherwise every grant of r counts *)
Definition bp_grants (w : list (N * N * nat)) (gs : list grant) : list (N * N * nat) :=
  map (fun x => if existsb (fun g : grant => N.eqb (fst (fst g)) (fst (fst x))) gs then (fst x, O)
                else (fst x, (snd x + length (filter (fun g : grant => N.eqb (snd g) (snd (fst x))) gs))%nat))
      (filter (fun x => negb (existsb (fun g : grant => pair_eqb (fst (fst g), snd g) (fst x)) gs)) w).
Fixpoint bypass_from (bound : nat) (b : bpst) (tr : list msg) (gss : list (list grant)) : bool :=
  match tr, gss with
  | [], [] => true
  | m :: tl, gs :: gtl =>
      let b1 := bp_msg b m in
      let w' := bp_grants (fst b1) gs in
      forallb (fun x => Nat.leb (snd x) bound) w' && bypass_from bound (w', snd b1) tl gtl
  | _, _ => false
  end.
Definition bypass_ok (tr : list msg) (obs : list Z) : bool :=
  match decode (length tr) obs with
  | Some gss => bypass_from (ncirc tr) ([], []) tr gss
  | None => false
  end.

(* known class of the service level: class 1 only.  (Class 3, starvation through the rotation of
   acquire_lock, was repaired by 11e9468: peers that cannot be served keep their place.) *)
Definition known_lock (max : nat) (tr : list msg) : list Z :=
  if foreign_lock max tr && snd (spec_pair_lock max tr (run_lock max tr)) then [1%Z] else [].

(* ---------------- connection level ----------------
   observation per event: the grants of the event (as above), then the room tasks in flight after
   the event: [number; c; r; c; r; ...] ordered by (c, r) *)
Definition pair_leb (a b : N * N) : bool :=
  N.ltb (fst a) (fst b) || (N.eqb (fst a) (fst b) && N.leb (snd a) (snd b)).
Fixpoint insert_p (x : N * N) (l : list (N * N)) : list (N * N) :=
  match l with [] => [x] | y :: t => if pair_leb x y then x :: l else y :: insert_p x t end.
Fixpoint sort_p (l : list (N * N)) : list (N * N) :=
  match l with [] => [] | x :: t => insert_p x (sort_p t) end.
Definition running (x : cst) : list (N * N) :=
  sort_p (flat_map (fun cn => map (pair (cn_c cn)) (cn_tasks cn)) (c_conns x)).
Definition enc_pairs (l : list (N * N)) : list Z :=
  Z.of_nat (length l) :: flat_map (fun p => [zn (fst p); zn (snd p)]) l.
Definition run_conn (max : nat) (es : list cev) : list Z :=
  flat_map (fun y : cst * list msg * list (list grant) =>
              enc_step (sort_g (concat (snd y))) ++ enc_pairs (running (fst (fst y))))
           (crun (cinit max) es).

Fixpoint take_pairs (n : nat) (l : list Z) : option (list (N * N) * list Z) :=
  match n with
  | O => Some ([], l)
  | S k => match l with
           | c :: r :: tl => match take_pairs k tl with
                             | Some (ps, rest) => Some ((Z.to_N c, Z.to_N r) :: ps, rest)
                             | None => None end
           | _ => None
           end
  end.
Fixpoint decode_conn (nev : nat) (l : list Z) : option (list (list grant * list (N * N))) :=
  match nev with
  | O => match l with [] => Some [] | _ => None end
  | S k => match l with
           | [] => None
           | cnt :: tl =>
               match take_grants (Z.to_nat cnt) tl with
               | Some (gs, cnt2 :: rest) =>
                   match take_pairs (Z.to_nat cnt2) rest with
                   | Some (ts, rest2) => match decode_conn k rest2 with Some al => Some ((gs, ts) :: al) | None => None end
                   | None => None
                   end
               | _ => None
               end
           end
  end.

(* the oracle at connection level, on what was observed (grants, tasks in flight):
     exclusive : no room has two tasks in flight (whichever connections they belong to)
     bounded   : at most `max` tasks in flight
     released  : when a live connection asks for exactly one room that nobody uses (no task in flight
                 for it, not waiting in the inbox of a live connection) and fewer than `max` rooms are
                 in use, it gets it at once — in particular what waited in the channel of a connection
                 that ended is free again *)
Record csp := { cs_inbox : list (N * list N); cs_ended : list N; cs_tasks : list (N * N) }.
Definition csp0 : csp := {| cs_inbox := []; cs_ended := []; cs_tasks := [] |}.
Definition inbox_of (s : csp) (c : N) : list N :=
  match find (fun x => N.eqb (fst x) c) (cs_inbox s) with Some x => snd x | None => [] end.
Definition set_inbox (s : csp) (c : N) (l : list N) : csp :=
  {| cs_inbox := (c, l) :: filter (fun x => negb (N.eqb (fst x) c)) (cs_inbox s); cs_ended := cs_ended s; cs_tasks := cs_tasks s |}.
Definition in_use (s : csp) : list N :=
  map snd (cs_tasks s) ++ flat_map (fun x => if memN (fst x) (cs_ended s) then [] else snd x) (cs_inbox s).
Definition csp_event (hidden : option N) (max : nat) (s : csp) (e : cev) (gs : list grant) (tasks : list (N * N)) : bool * csp :=
  let live := fun c => negb (memN c (cs_ended s)) in
  (* while a connection whose grants cannot be observed is alive, what is in use is not known *)
  let known_use := match hidden with Some h => memN h (cs_ended s) | None => true end in
  let must := match e with
              | CRequest c [r] => if known_use && live c && negb (memN r (in_use s)) && Nat.ltb (length (in_use s)) max
                                  then existsb (fun g => pair_eqb (cr g) (c, r)) gs else true
              | _ => true
              end in
  let s1 := match e with
            | CTake c | CTakeFail c => if live c then set_inbox s c (tl (inbox_of s c)) else s
            | CEnd c => {| cs_inbox := cs_inbox s; cs_ended := c :: cs_ended s; cs_tasks := cs_tasks s |}
            | _ => s
            end in
  let s2 := fold_left (fun acc g => set_inbox acc (fst (cr g)) (inbox_of acc (fst (cr g)) ++ [snd (cr g)])) gs s1 in
  (must && nodupN (map snd tasks) && Nat.leb (length tasks) max,
   {| cs_inbox := cs_inbox s2; cs_ended := cs_ended s2; cs_tasks := tasks |}).
Fixpoint spec_conn_from (hidden : option N) (max : nat) (s : csp) (es : list cev) (obs : list (list grant * list (N * N))) : bool :=
  match es, obs with
  | [], [] => true
  | e :: tl, (gs, ts) :: otl => let '(ok, s') := csp_event hidden max s e gs ts in ok && spec_conn_from hidden max s' tl otl
  | _, _ => false
  end.
Definition spec_conn (hidden : option N) (max : nat) (es : list cev) (obs : list Z) : bool :=
  match decode_conn (length es) obs with
  | Some l => spec_conn_from hidden max csp0 es l
  | None => false
  end.
(* connection 1 is a real loop: what is sent into its lock channel is not seen *)
Definition hide1 (gs : list grant) : list grant := filter (fun g => negb (N.eqb (fst (fst g)) 1)) gs.
Definition run_loop (max : nat) (es : list cev) : list Z :=
  flat_map (fun y : cst * list msg * list (list grant) =>
              enc_step (hide1 (sort_g (concat (snd y)))) ++
              enc_pairs (filter (fun p => negb (N.eqb (fst p) 1)) (running (fst (fst y)))))
           (crun (cinit max) es).

(* known class at connection level, by its cause:
   class 1 (K1 reached without any misbehaving caller): a connection ends while one of its room
           tasks is still running — cleanup unlocks the room, the task will unlock it again.
   (class 2, grants lost at connection end, was repaired by 2487a5d: the end of a connection now
    closes and drains its lock channel; it is no longer a class.) *)
Fixpoint known_conn_from (x : cst) (es : list cev) : list Z :=
  match es with
  | [] => []
  | e :: tl =>
      let here := match e with
                  | CEnd c => let cn := find_conn (c_conns x) c in
                              if cn_ended cn then [] else
                              match cn_tasks cn with [] => [] | _ => [1%Z] end
                  | _ => []
                  end in
      here ++ known_conn_from (fst (fst (cstep x e))) tl
  end.
Definition dedup12 (l : list Z) : list Z :=
  (if existsb (Z.eqb 1) l then [1%Z] else []) ++ (if existsb (Z.eqb 2) l then [2%Z] else []).
(* exclusive, bounded, once, never lost — the part of the service oracle the theorems carry *)
Definition spec_core_lock (max : nat) (tr : list msg) (obs : list Z) : bool :=
  let '(a, b) := spec_pair_lock max tr obs in a && b.

(* the service messages a connection-level history causes *)
Definition conn_trace (max : nat) (es : list cev) : list msg :=
  flat_map (fun y : cst * list msg * list (list grant) => snd (fst y)) (crun (cinit max) es).

(* ---------------- entry points ---------------- *)
Definition run_C20 (c : c20case) : list Z :=
  match c with CLock max tr => run_lock max tr | CConn max es => run_conn max es | CLoop max es => run_loop max es end.
Definition spec_C20 (c : c20case) (obs : list Z) : bool :=
  match c with
  | CLock max tr => let '(a, b) := spec_pair_lock max tr obs in a && b && bypass_ok tr obs
  | CConn max es => spec_conn None max es obs
  | CLoop max es => spec_conn (Some 1%N) max es obs
  end.
Definition known_C20 (c : c20case) : list Z :=
  match c with
  | CLock max tr => known_lock max tr
  | CConn max es | CLoop max es => dedup12 (known_conn_from (cinit max) es)
  end.

Definition eval_C20 (c : c20case) (obs : list Z) : list Z :=
  [zb (zlist_eqb (run_C20 c) obs); zb (spec_C20 c obs)] ++ known_C20 c.
