(* Run_C20.v — entry points evaluated by the correspondence harness for C20.  No proofs. *)
From DV Require Export Lock.
Open Scope N_scope.

Inductive c20case :=
| CLock (max : nat) (tr : list msg).         (* the service, driven by messages of 1-3 connections *)

(* ---------------- observation format ----------------
   per message: [number of grants; c; k; r; c; k; r; ...], the grants of that message ordered by
   reply channel (c, k), and in channel order within one channel: the order in which different
   channels were written within one message cannot be observed from outside. *)
Definition chan_leb (a b : grant) : bool :=
  let '(c1, k1, _) := a in let '(c2, k2, _) := b in
  N.ltb c1 c2 || (N.eqb c1 c2 && N.leb k1 k2).
Fixpoint insert_g (x : grant) (l : list grant) : list grant :=
  match l with
  | [] => [x]
  | y :: t => if chan_leb x y then x :: l else y :: insert_g x t
  end.
Fixpoint sort_g (l : list grant) : list grant :=
  match l with [] => [] | x :: t => insert_g x (sort_g t) end.

Definition enc_grant (g : grant) : list Z := let '(c, k, r) := g in [zn c; zn k; zn r].
Definition enc_step (gs : list grant) : list Z := Z.of_nat (length gs) :: flat_map enc_grant gs.
Definition encode (gss : list (list grant)) : list Z := flat_map enc_step gss.

Fixpoint take_grants (n : nat) (l : list Z) : option (list grant * list Z) :=
  match n with
  | O => Some ([], l)
  | S k => match l with
           | c :: g :: r :: tl =>
               match take_grants k tl with
               | Some (gs, rest) => Some ((Z.to_N c, Z.to_N g, Z.to_N r) :: gs, rest)
               | None => None
               end
           | _ => None
           end
  end.
Fixpoint decode (nsteps : nat) (l : list Z) : option (list (list grant)) :=
  match nsteps with
  | O => match l with [] => Some [] | _ => None end
  | S k => match l with
           | [] => None
           | cnt :: tl =>
               match take_grants (Z.to_nat cnt) tl with
               | Some (gs, rest) => match decode k rest with Some gss => Some (gs :: gss) | None => None end
               | None => None
               end
           end
  end.

(* ---------------- the property's own oracle ----------------
   Judged on the grants the implementation was observed to send, independently of the service's
   queue / rotation / counter.  It follows, from the messages and the observed grants only:
     holders  : who holds which room (granted and not released BY THAT HOLDER)
     credits  : requested rooms not yet granted (multiset)        -> "once per request"
     waiting  : (connection, room) requested since its last grant -> "never lost"
     tainted  : connections one of whose reply channels was dropped (no promise to them) *)
Record sp := { holders : list (N * N); credits : list (N * N); waiting : list (N * N); tainted : list N }.
Definition sp0 : sp := {| holders := []; credits := []; waiting := []; tainted := [] |}.

Fixpoint take_one (x : N * N) (l : list (N * N)) : option (list (N * N)) :=
  match l with
  | [] => None
  | y :: t => if pair_eqb x y then Some t
              else match take_one x t with Some t' => Some (y :: t') | None => None end
  end.
Fixpoint remove_one (x : N * N) (l : list (N * N)) : list (N * N) :=
  match l with
  | [] => []
  | y :: t => if pair_eqb x y then t else y :: remove_one x t
  end.
Definition remove_all (x : N * N) (l : list (N * N)) : list (N * N) :=
  filter (fun y => negb (pair_eqb x y)) l.

Definition sp_msg (s : sp) (m : msg) : sp :=
  match m with
  | Request c rooms _ =>
      {| holders := holders s; credits := map (pair c) rooms ++ credits s;
         waiting := map (pair c) rooms ++ waiting s; tainted := tainted s |}
  | Unlock who r =>
      {| holders := remove_one (who, r) (holders s); credits := credits s; waiting := waiting s; tainted := tainted s |}
  | DropChan c _ =>
      {| holders := holders s; credits := credits s; waiting := waiting s; tainted := c :: tainted s |}
  end.
Definition sp_grant (s : sp) (g : grant) : option sp :=
  let '(c, _, r) := g in
  match take_one (c, r) (credits s) with
  | None => None                                      (* granted without a request: "once" violated *)
  | Some cr => Some {| holders := (c, r) :: holders s; credits := cr;
                       waiting := remove_all (c, r) (waiting s); tainted := tainted s |}
  end.
Fixpoint sp_grants (s : sp) (gs : list grant) : option sp :=
  match gs with
  | [] => Some s
  | g :: t => match sp_grant s g with Some s' => sp_grants s' t | None => None end
  end.

Fixpoint nodupN (l : list N) : bool :=
  match l with [] => true | x :: t => negb (memN x t) && nodupN t end.
(* exclusive and bounded *)
Definition sp_safe (max : nat) (s : sp) : bool :=
  nodupN (map snd (holders s)) && Nat.leb (length (holders s)) max.
(* never lost: a waiting request of an untainted connection is blocked only by a held room or
   by the limit *)
Definition sp_live (max : nat) (s : sp) : bool :=
  forallb (fun x => memN (fst x) (tainted s) || memN (snd x) (map snd (holders s)) || Nat.leb max (length (holders s)))
          (waiting s).

(* (safe, live) over the whole history *)
Fixpoint spec_from (max : nat) (s : sp) (tr : list msg) (gss : list (list grant)) : bool * bool :=
  match tr, gss with
  | [], [] => (true, true)
  | m :: tl, gs :: gtl =>
      match sp_grants (sp_msg s m) gs with
      | None => (true, false)
      | Some s' => let '(a, b) := spec_from max s' tl gtl in (sp_safe max s' && a, sp_live max s' && b)
      end
  | _, _ => (false, false)
  end.

Definition trace_of (c : c20case) : nat * list msg :=
  match c with CLock max tr => (max, tr) end.

Definition run_grants (c : c20case) : list (list grant) :=
  let '(max, tr) := trace_of c in run_from (init max) tr.

(* what the model says the implementation observes *)
Definition run_C20 (c : c20case) : list Z :=
  encode (map sort_g (run_grants c)).

Definition spec_pair (c : c20case) (obs : list Z) : bool * bool :=
  let '(max, tr) := trace_of c in
  match decode (length tr) obs with
  | Some gss => spec_from max sp0 tr gss
  | None => (false, false)
  end.
Definition spec_C20 (c : c20case) (obs : list Z) : bool :=
  let '(a, b) := spec_pair c obs in a && b.

(* ---------------- known finding classes ----------------
   class 1 (K1, releases carry no owner): somewhere in the history an Unlock sent by a connection
   that does not hold the room frees a room that is locked (held by another connection, or by the
   same connection through a newer grant).  Histories outside this class: theorem
   C20_outside_known.  The class only covers the exclusive/bounded part: if the "once" /
   "never lost" part fails on such a history it is NOT excused. *)
Definition gh_msg (h : list (N * N)) (m : msg) : list (N * N) :=
  match m with Unlock who r => remove_one (who, r) h | _ => h end.
Definition cr (g : grant) : N * N := (fst (fst g), snd g).
Definition gh_grants (h : list (N * N)) (gs : list grant) : list (N * N) :=
  fold_left (fun acc g => cr g :: acc) gs h.
Fixpoint foreign_from (s : st) (h : list (N * N)) (tr : list msg) : bool :=
  match tr with
  | [] => false
  | m :: tl =>
      let bad := match m with
                 | Unlock who r => negb (mem_pair (who, r) h) && memN r (locked s)
                 | _ => false
                 end in
      let '(s', g) := step s m in
      bad || foreign_from s' (gh_grants (gh_msg h m) g) tl
  end.
Definition foreign_unlock (c : c20case) : bool :=
  let '(max, tr) := trace_of c in foreign_from (init max) [] tr.

Definition known_C20 (c : c20case) : list Z :=
  if foreign_unlock c && snd (spec_pair c (run_C20 c)) then [1%Z] else [].

Definition eval_C20 (c : c20case) (obs : list Z) : list Z :=
  [zb (zlist_eqb (run_C20 c) obs); zb (spec_C20 c obs)] ++ known_C20 c.
