(* Run_C11.v — entry points evaluated by the correspondence harness for C11 (a deleted row stays deleted). *)
From DV Require Export SyncObs.

Inductive c11case := C11Case (n : N) (hist : list sop) (final : list sop).
Definition c11_n (c : c11case) : N := match c with C11Case n _ _ => n end.
Definition c11_ops (c : c11case) : list sop := match c with C11Case _ h f => h ++ f end.
Definition c11_final (c : c11case) : list sop := match c with C11Case _ _ f => f end.

Definition run_C11 (c : c11case) : list Z := run_obs (init_sys (c11_n c)) (c11_ops c).

(* ---- the property's own oracle, on what the IMPLEMENTATION showed ----
   after every step, the peer that step touched shows no row at or below (modification date) a
   deletion record it has shown at that or any earlier step *)
Fixpoint replay_C11 (st : ostate) (ops : list sop) (blocks : list (Z * replica)) : bool :=
  match ops, blocks with
  | [], [] => true
  | o :: ops', (_, r) :: blocks' =>
      let st' := observe (op_peer o) r st in
      stays_deleted (get_seen (op_peer o) st') r && refs_stay_deleted (get_eseen (op_peer o) st') r &&
      (* a pull that exchanged the day of a deletion record the source showed leaves the receiver with that record *)
      (match o with
       | Pull d s days =>
           forallb (fun t => negb (existsb (Z.eqb (day (t_ddate t))) days) || has_tomb (tombs r) t) (tombs (get s (o_sys st))) &&
           forallb (fun t => negb (existsb (Z.eqb (day (et_ddate t))) days) || has_etomb (etombs r) t) (etombs (get s (o_sys st)))
       | _ => true
       end) && replay_C11 st' ops' blocks'
  | _, _ => false
  end.
Fixpoint final_state (st : ostate) (ops : list sop) (blocks : list (Z * replica)) : ostate :=
  match ops, blocks with
  | o :: ops', (_, r) :: blocks' => final_state (observe (op_peer o) r st) ops' blocks'
  | _, _ => st
  end.
Definition quiet_blocks (k : nat) (blocks : list (Z * replica)) : bool :=
  forallb (fun b => Z.eqb (fst b) 0) (skipn (length blocks - k) blocks).

(* once all members have synchronised (the final rounds are full and request nothing): every deletion
   record any peer has shown is present on every peer, and no peer shows a row at or below it *)
Definition everywhere (st : ostate) : bool :=
  let all := concat (o_seen st) in
  let eall := concat (o_eseen st) in
  forallb (fun r => tombs_subset all (tombs r) && stays_deleted all r &&
                    forallb (has_etomb (etombs r)) eall && refs_stay_deleted eall r) (o_sys st).

Definition spec_C11 (c : c11case) (obs : list Z) : bool :=
  match dec_steps (length (c11_ops c)) obs with
  | None => false
  | Some blocks =>
      let st0 := oinit (c11_n c) in
      replay_C11 st0 (c11_ops c) blocks &&
      (if only_pulls (c11_final c) && full_round (c11_n c) (c11_final c) && quiet_blocks (length (c11_final c)) blocks
       then everywhere (final_state st0 (c11_ops c) blocks) else true)
  end.

(* known-finding classes: none is open any more (known_findings.d/C11.json: class 1, a pull storing a
   row at or below a deletion record its receiver holds, fixed by ca69f52; class 3, two deletion
   records of one row in one answer collapsing to one, fixed by bb1bffb);
   4 (open)  a reference deletion record removes only the exactly named version of the reference: an
             older version of the same reference (added concurrently on another peer) stays visible on a
             peer that holds the record *)
(* 5 (open)  two deletion records of one row with the SAME deletion millisecond (the row deleted on two
             peers in the same millisecond while they held different versions) have the same key and
             replace each other: one of them is not present everywhere at the end *)
Definition key_clash (c : c11case) : bool :=
  let all := flat_map (fun S => flat_map tombs S) (run_trace (init_sys (c11_n c)) (c11_ops c)) in
  existsb (fun a => existsb (fun b => same_key a b && negb (tomb_eqb a b)) all) all.
Definition known_C11 (c : c11case) : list Z :=
  (if run_refs_coherent (init_sys (c11_n c)) (c11_ops c) then [] else [4]) ++ (if key_clash c then [5] else []).

(* the envelope of C11_holds, decided on the model's run: every creation uses an id the peer does
   not know yet (the code draws fresh uids) and no local update carries a clock that is behind the
   version it replaces *)
Definition c11_envelope (c : c11case) : bool := negb (run_guard (init_sys (c11_n c)) (c11_ops c)).

Definition eval_C11 (c : c11case) (obs : list Z) : list Z :=
  [zb (zlist_eqb (run_C11 c) obs); zb (spec_C11 c obs)] ++ known_C11 c.
