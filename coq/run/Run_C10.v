(* Run_C10.v — entry points evaluated by the correspondence harness for C10.
   A history is a list of steps; a step is one room mutation of the (single) authoring
   administrator: the definition events it adds, all with the step's date.  Step dates are
   strictly increasing.  The four constructions of the room:
     live    the add_* calls of validate_room_mutation, in order            (Rights.build_from)
     reload  LOAD_QUERY (every entry list ORDER BY mdate ASC, 83dc3ea) -> load_json -> load_auth_from_json
     fresh   RoomNode::read (oldest first, 83dc3ea) -> prepare_room_node on a peer that never saw the room
     chain   a peer that imports the definition after every step (prepare_room_with_history)
   No proofs here. *)
From DV Require Export RightsSpec RoomNode.

Definition probe := (key * entity * Z)%type.
(* an event with the rank of the uid of the row it writes among the rows of the room (the primary
   key order of the _edge table, in which RoomNode::read and the reload query meet the entries
   before they sort them by date; it decides the order of entries that carry the same date) *)
Definition ievent := (N * event)%type.
Inductive c10case :=
| CHist (author : key) (steps : list (list ievent)) (probes : list probe)
(* the same, on an instance of its own that is stopped and started again on its data folder *)
| CRestart (author : key) (steps : list (list ievent)) (probes : list probe)
(* a burst: the steps after the first are sent without awaiting one another; whatever the interleaving,
   live room, reloaded room and the room a fresh peer imports come from the same stored rows *)
| CBurst (author : key) (steps : list (list ievent)) (probes : list probe)
(* a peer that holds the definition [old] receives the later definition [cand] of the same room directly
   (it skipped the versions in between); a peer that never saw the room receives [cand] as well *)
| CJump (old cand : roomnode) (probes : list probe).
Definition events_of (steps : list (list ievent)) : list event := map snd (concat steps).

(* ------------------------------------------------------------------ live *)
Definition live (steps : list (list ievent)) : room * list bool := build_from (empty_room 1%N) (events_of steps).

(* ------------------------------------------------------------------ reload *)

(* the reload query meets the rows of a list in the order they were written (observed: entries with
   the same date come out in insertion order), before its ORDER BY mdate ASC *)
Definition pk_order {A} (l : list (N * A)) : list A := map snd l.
Definition hist_admins (evs : list ievent) : list user :=
  pk_order (flat_map (fun iev => match snd iev with EvAdmin k d b => [(fst iev, {| u_key := k; u_date := d; u_enabled := b |})] | _ => [] end) evs).
Definition hist_users (evs : list ievent) (g : uid) : list user :=
  pk_order (flat_map (fun iev => match snd iev with EvUser g' k d b => if N.eqb g' g then [(fst iev, {| u_key := k; u_date := d; u_enabled := b |})] else [] | _ => [] end) evs).
Definition hist_uadmins (evs : list ievent) (g : uid) : list user :=
  pk_order (flat_map (fun iev => match snd iev with EvUAdmin g' k d b => if N.eqb g' g then [(fst iev, {| u_key := k; u_date := d; u_enabled := b |})] else [] | _ => [] end) evs).
(* the stored flags, passed through EntityRight::new like everywhere else (a68fe8d) *)
Definition hist_rights_raw (evs : list ievent) (g : uid) : list eright :=
  pk_order (flat_map (fun iev => match snd iev with EvRight g' e d s a => if N.eqb g' g then [(fst iev, mk_right d e s a)] else [] | _ => [] end) evs).

Fixpoint replay_users (l : list user) (us : list user) : option (list user) :=
  match us with
  | [] => Some l
  | u :: tl => match add_user l u with Some l' => replay_users l' tl | None => None end
  end.
Fixpoint replay_rights (l : list eright) (rs : list eright) : option (list eright) :=
  match rs with
  | [] => Some l
  | r :: tl => match add_right l r with Some l' => replay_rights l' tl | None => None end
  end.

(* load_auth_from_json: users, user admins, rights — each list as the query returns it *)
Definition reload_auth (evs : list ievent) (g : uid) : option auth :=
  match replay_users [] (sort_by u_date (hist_users evs g)) with
  | None => None
  | Some us =>
      match replay_users [] (sort_by u_date (hist_uadmins evs g)) with
      | None => None
      | Some uas =>
          match replay_rights [] (sort_by r_from (hist_rights_raw evs g)) with
          | None => None
          | Some rs => Some {| a_id := g; a_users := us; a_rights := rs; a_uadmins := uas |}
          end
      end
  end.
Fixpoint reload_auths (evs : list ievent) (gs : list uid) : option (list auth) :=
  match gs with
  | [] => Some []
  | g :: tl => match reload_auth evs g, reload_auths evs tl with
               | Some a, Some l => Some (a :: l)
               | _, _ => None
               end
  end.
(* load_json: the groups, then the administrators *)
Definition reload (evs : list ievent) : option room :=
  match reload_auths evs (groups (map snd evs)) with
  | None => None
  | Some aus =>
      match replay_users [] (sort_by u_date (hist_admins evs)) with
      | None => None
      | Some ads => Some {| rm_id := 1%N; rm_admins := ads; rm_auths := aus |}
      end
  end.

(* ------------------------------------------------------------------ the exported definition *)
(* the entry of an event is the row with the event's rank, written and referenced by the author at its date; a group
   row keeps the date of the step that created it (re-signing by the same administrator does not
   change any verdict below: the author is an administrator from the first step on) *)
Definition mk_un (author : key) (i : N) (k : key) (d : Z) (b : bool) : unode :=
  {| un_id := i; un_date := d; un_author := author; un_key := k; un_enabled := b; un_cdate := d |}.
Definition mk_edge (author : key) (src : uid) (label : N) (i : N) (d : Z) : edge :=
  {| e_src := src; e_label := label; e_dest := i; e_date := d; e_author := author |}.

Definition add_to_group (g : uid) (f : anode -> anode) (l : list anode) : list anode :=
  map (fun a => if N.eqb (an_id a) g then f a else a) l.

Definition export_step (author : key) (n : roomnode) (iev : N * event) : roomnode :=
  let '(i, ev) := iev in
  match ev with
  | EvGroup g =>
      {| rmn_id := rmn_id n; rmn_cdate := rmn_cdate n; rmn_date := rmn_date n; rmn_author := rmn_author n;
         rmn_aedges := rmn_aedges n; rmn_anodes := rmn_anodes n;
         rmn_gedges := rmn_gedges n ++ [{| e_src := rmn_id n; e_label := L_AUTHS; e_dest := g; e_date := rmn_date n; e_author := author |}];
         rmn_gnodes := rmn_gnodes n ++ [{| an_id := g; an_date := rmn_date n; an_author := author;
                                           an_redges := []; an_rnodes := []; an_uedges := []; an_unodes := [];
                                           an_aedges := []; an_anodes := [] |}] |}
  | EvAdmin k d b =>
      {| rmn_id := rmn_id n; rmn_cdate := rmn_cdate n; rmn_date := rmn_date n; rmn_author := rmn_author n;
         rmn_aedges := rmn_aedges n ++ [mk_edge author (rmn_id n) L_ADMIN i d];
         rmn_anodes := rmn_anodes n ++ [mk_un author i k d b];
         rmn_gedges := rmn_gedges n; rmn_gnodes := rmn_gnodes n |}
  | EvUser g k d b =>
      {| rmn_id := rmn_id n; rmn_cdate := rmn_cdate n; rmn_date := rmn_date n; rmn_author := rmn_author n;
         rmn_aedges := rmn_aedges n; rmn_anodes := rmn_anodes n; rmn_gedges := rmn_gedges n;
         rmn_gnodes := add_to_group g (fun a =>
           {| an_id := an_id a; an_date := an_date a; an_author := an_author a;
              an_redges := an_redges a; an_rnodes := an_rnodes a;
              an_uedges := an_uedges a ++ [mk_edge author g L_USERS i d]; an_unodes := an_unodes a ++ [mk_un author i k d b];
              an_aedges := an_aedges a; an_anodes := an_anodes a |}) (rmn_gnodes n) |}
  | EvUAdmin g k d b =>
      {| rmn_id := rmn_id n; rmn_cdate := rmn_cdate n; rmn_date := rmn_date n; rmn_author := rmn_author n;
         rmn_aedges := rmn_aedges n; rmn_anodes := rmn_anodes n; rmn_gedges := rmn_gedges n;
         rmn_gnodes := add_to_group g (fun a =>
           {| an_id := an_id a; an_date := an_date a; an_author := an_author a;
              an_redges := an_redges a; an_rnodes := an_rnodes a;
              an_uedges := an_uedges a; an_unodes := an_unodes a;
              an_aedges := an_aedges a ++ [mk_edge author g L_UADMIN i d]; an_anodes := an_anodes a ++ [mk_un author i k d b] |}) (rmn_gnodes n) |}
  | EvRight g e d s a0 =>
      {| rmn_id := rmn_id n; rmn_cdate := rmn_cdate n; rmn_date := rmn_date n; rmn_author := rmn_author n;
         rmn_aedges := rmn_aedges n; rmn_anodes := rmn_anodes n; rmn_gedges := rmn_gedges n;
         rmn_gnodes := add_to_group g (fun a =>
           {| an_id := an_id a; an_date := an_date a; an_author := an_author a;
              an_redges := an_redges a ++ [mk_edge author g L_RIGHTS i d];
              an_rnodes := an_rnodes a ++ [{| rn_id := i; rn_date := d; rn_author := author; rn_ent := e; rn_self := s; rn_all := a0; rn_cdate := d |}];
              an_uedges := an_uedges a; an_unodes := an_unodes a;
              an_aedges := an_aedges a; an_anodes := an_anodes a |}) (rmn_gnodes n) |}
  end.

Definition ev_date (ev : event) : option Z :=
  match ev with EvGroup _ => None | EvAdmin _ d _ | EvUser _ _ d _ | EvUAdmin _ _ d _ | EvRight _ _ d _ _ => Some d end.
Fixpoint first_date (evs : list event) : Z :=
  match evs with [] => 0 | ev :: tl => match ev_date ev with Some d => d | None => first_date tl end end.

(* the definition in insertion (ascending) order; the group row of a group created in a later step
   carries that step's date through rmn_date, which is advanced step by step *)
Fixpoint export_steps (author : key) (n : roomnode) (steps : list (list ievent)) : roomnode :=
  match steps with
  | [] => n
  | st :: tl =>
      let n0 := {| rmn_id := rmn_id n; rmn_cdate := rmn_cdate n;
                   rmn_date := if existsb (fun iev => match snd iev with EvGroup _ | EvAdmin _ _ _ => true | _ => false end) st
                               then first_date (map snd st) else rmn_date n;
                   rmn_author := author; rmn_aedges := rmn_aedges n; rmn_anodes := rmn_anodes n;
                   rmn_gedges := rmn_gedges n; rmn_gnodes := rmn_gnodes n |} in
      let n1 := {| rmn_id := rmn_id n0; rmn_cdate := rmn_cdate n0; rmn_date := first_date (map snd st); rmn_author := author;
                   rmn_aedges := rmn_aedges n0; rmn_anodes := rmn_anodes n0; rmn_gedges := rmn_gedges n0; rmn_gnodes := rmn_gnodes n0 |} in
      let n2 := fold_left (export_step author) st n1 in
      let n3 := {| rmn_id := rmn_id n2; rmn_cdate := rmn_cdate n2; rmn_date := rmn_date n0; rmn_author := author;
                   rmn_aedges := rmn_aedges n2; rmn_anodes := rmn_anodes n2; rmn_gedges := rmn_gedges n2; rmn_gnodes := rmn_gnodes n2 |} in
      export_steps author n3 tl
  end.
Definition export (author : key) (steps : list (list ievent)) : roomnode :=
  let d0 := first_date (events_of steps) in
  export_steps author {| rmn_id := 1%N; rmn_cdate := d0; rmn_date := d0; rmn_author := author;
                         rmn_aedges := []; rmn_anodes := []; rmn_gedges := []; rmn_gnodes := [] |} steps.

(* what RoomNode::read returns for the stored rows: the references of a list in primary-key order
   (dest ascending), sorted by date ascending (stable), the rows in the order of their references *)
Definition rd {A} (idf : A -> uid) (df : A -> Z) (l : list A) : list A :=
  sort_by df (sort_by (fun x => Z.of_N (idf x)) l).
Definition read_auth_pk (a : anode) : anode :=
  {| an_id := an_id a; an_date := an_date a; an_author := an_author a;
     an_redges := rd e_dest e_date (an_redges a); an_rnodes := rd rn_id rn_date (an_rnodes a);
     an_uedges := rd e_dest e_date (an_uedges a); an_unodes := rd un_id un_date (an_unodes a);
     an_aedges := rd e_dest e_date (an_aedges a); an_anodes := rd un_id un_date (an_anodes a) |}.
Definition stored_read (n : roomnode) : roomnode :=
  {| rmn_id := rmn_id n; rmn_cdate := rmn_cdate n; rmn_date := rmn_date n; rmn_author := rmn_author n;
     rmn_aedges := rd e_dest e_date (rmn_aedges n); rmn_anodes := rd un_id un_date (rmn_anodes n);
     (* the group references are not sorted by date: primary-key order *)
     rmn_gedges := sort_by (fun e => Z.of_N (e_dest e)) (rmn_gedges n);
     rmn_gnodes := sort_by (fun a => Z.of_N (an_id a)) (map read_auth_pk (rmn_gnodes n)) |}.

(* ------------------------------------------------------------------ fresh import *)
Definition fresh_import (author : key) (steps : list (list ievent)) : pres room :=
  let cand := stored_read (export author steps) in
  do p <- prepare_room_node None None cand ;; parse_room (snd p).

(* ------------------------------------------------------------------ import after every step *)
Fixpoint prefixes {A} (acc : list A) (l : list A) : list (list A) :=
  match l with [] => [] | x :: tl => (acc ++ [x]) :: prefixes (acc ++ [x]) tl end.

(* state of the importing peer: room in memory, stored definition *)
Fixpoint chain (author : key) (known : option room) (stored : option roomnode) (ps : list (list (list ievent)))
  : list Z * option room :=
  match ps with
  | [] => ([], known)
  | p :: tl =>
      let cand := stored_read (export author p) in
      match prepare_room_node known (option_map stored_read stored) cand with
      | PErr e => let (vs, r) := chain author known stored tl in (perr_code e :: vs, r)
      | POk (false, _) => let (vs, r) := chain author known stored tl in (0 :: vs, r)
      | POk (true, res) =>
          match parse_room res with
          | POk r' => let (vs, r) := chain author (Some r') (Some res) tl in (1 :: vs, r)
          | PErr e => let (vs, r) := chain author known stored tl in (perr_code e :: vs, r)
          end
      end
  end.

(* ------------------------------------------------------------------ what the model says *)
Definition dec_opt (r : option room) (probes : list probe) : list Z :=
  match r with Some r => 1 :: decisions r probes | None => [0] end.

(* after the last step the history sends nine deletion requests aimed at the rows and references of the
   room definition (sys.Room admin / authorisations, sys.Authorisation rights / users / user_admin, the
   entry rows, the group row, the room row): validate_deletion refuses every one of them (0) *)
Definition n_del : nat := 9.
Definition run_hist (author : key) (steps : list (list ievent)) (probes : list probe) : list Z :=
  let evs := concat steps in
  let '(r, oks) := live steps in
  let '(vs, rb) := chain author None None (prefixes [] steps) in
  repeat 0 n_del ++ map zb oks ++ decisions r probes ++
  dec_opt (reload evs) probes ++
  match fresh_import author steps with POk rf => 1 :: decisions rf probes | PErr e => [perr_code e] end ++
  vs ++ dec_opt rb probes ++
  (* the importing peer reloads the same rows *)
  (if forallb (fun v => Z.leb v 1) vs then dec_opt (reload evs) probes else []).

(* the definition a peer holds after accepting [res]: room in memory = its parse *)
Definition jump_part (old cand : roomnode) (probes : list probe) : list Z :=
  match parse_room old with
  | PErr _ => [-1]
  | POk r =>
      match prepare_room_node (Some r) (Some old) cand with
      | PErr e => [perr_code e]
      | POk (false, _) => 0 :: decisions r probes               (* nothing new: the room held stays *)
      | POk (true, res) => 1 :: match parse_room res with POk r' => decisions r' probes | PErr _ => [] end
      end
  end.
Definition fresh_part (cand : roomnode) (probes : list probe) : list Z :=
  match prepare_room_node None None cand with
  | PErr e => [perr_code e]
  | POk (_, res) => 1 :: match parse_room res with POk r' => decisions r' probes | PErr _ => [] end
  end.

Definition burst_refused (iev : ievent) : bool :=
  N.eqb (fst iev) 0 && match snd iev with EvGroup _ => false | _ => true end.
Fixpoint burst_verdicts (evs : list ievent) (oks : list bool) : list Z :=
  match evs with
  | [] => []
  | iev :: tl => if burst_refused iev then 0%Z :: burst_verdicts tl oks
                 else match oks with b :: oks' => zb b :: burst_verdicts tl oks' | [] => [] end
  end.

Definition run_C10 (c : c10case) : list Z :=
  match c with
  | CHist author steps probes => run_hist author steps probes
  | CBurst author steps probes =>
      (* which mutations of a burst get through is decided by the scheduler, not by the model: an entry the
         implementation refused as a whole stored no row, and the harness writes it with row id 0 (group
         entries have no row and carry 0 as well: they are never meant).  The model takes these verdicts
         as given and predicts the three views from the entries that were accepted. *)
      let kept := map (filter (fun iev => negb (burst_refused iev))) steps in
      let '(r, oks) := live kept in
      burst_verdicts (concat steps) oks ++ decisions r probes ++ dec_opt (reload (concat kept)) probes ++
      match fresh_import author kept with POk rf => 1 :: decisions rf probes | PErr e => [perr_code e] end
  | CJump old cand probes => jump_part old cand probes ++ fresh_part cand probes
  | CRestart author steps probes =>
      let evs := concat steps in
      let '(r, oks) := live steps in
      map zb oks ++ decisions r probes ++ [zb (match reload evs with Some _ => true | None => false end)]
  end.

(* ------------------------------------------------------------------ the property's oracle *)
Definition probe_spec (evs : list event) (p : probe) : list Z :=
  let '(k, e, d) := p in
  [zb (granted evs k e d MutateSelf); zb (granted evs k e d MutateAll); zb (admin_at evs k d);
   zb (admin_at evs k d || existsb (fun g => member_at evs g k d) (groups evs));
   zb (existsb (fun g => uadmin_at evs g k d) (groups evs))].

Fixpoint take {A} (n : nat) (l : list A) : list A := match n, l with S k, x :: t => x :: take k t | _, _ => [] end.
Fixpoint dropn {A} (n : nat) (l : list A) : list A := match n, l with S k, _ :: t => dropn k t | _, _ => l end.

(* a part "[1] ++ decisions" that must be present and equal to the live decisions *)
Definition same_as_live (dl : list Z) (part : list Z) : bool :=
  match part with 1 :: d => zlist_eqb d dl | _ => false end.

(* judged on what the implementation did: every step accepted live, the live room decides what the
   history grants, the data can be reloaded, a new peer can import it, a peer following step by
   step accepts every step, and all of them decide as the live room does *)
(* the events a definition lists (what its rows say), for the meaning of an imported room *)
Definition node_events (n : roomnode) : list event :=
  map (fun x => EvAdmin (un_key x) (un_date x) (un_enabled x)) (rmn_anodes n) ++
  flat_map (fun a => EvGroup (an_id a) ::
                     map (fun x => EvRight (an_id a) (rn_ent x) (rn_date x) (rn_self x) (rn_all x)) (an_rnodes a) ++
                     map (fun x => EvUser (an_id a) (un_key x) (un_date x) (un_enabled x)) (an_unodes a) ++
                     map (fun x => EvUAdmin (an_id a) (un_key x) (un_date x) (un_enabled x)) (an_anodes a)) (rmn_gnodes n).

Definition spec_C10 (c : c10case) (obs : list Z) : bool :=
  match c with
  | CBurst author steps probes =>
      (* The property is about the three views of what WAS accepted.  Whether every mutation of a burst
         is accepted is not C10's subject: under load a concurrent definition change of the same room can
         be refused as a whole (seen once, on a loaded machine: one of 12 spawned mutations answered Err
         and stored nothing; live, reloaded and imported room agreed).  So the reference history is the
         accepted entries; the awaited creation step must be accepted entirely. *)
      let evs0 := events_of steps in
      let ne := length evs0 in let nd := (5 * length probes)%nat in
      let verdicts := take ne obs in
      let evs := map fst (filter (fun p => Z.eqb (snd p) 1) (combine evs0 verdicts)) in
      let dl := take nd (dropn ne obs) in
      let r1 := dropn (ne + nd) obs in
      forallb (fun v => Z.eqb v 0 || Z.eqb v 1) verdicts && Nat.eqb (length verdicts) ne &&
      forallb (Z.eqb 1) (take (length (hd [] steps)) verdicts) &&
      zlist_eqb dl (flat_map (probe_spec evs) probes) &&
      same_as_live dl (take (S nd) r1) && same_as_live dl (dropn (S nd) r1)
  | CJump old cand probes =>
      (* an honest later definition is accepted by the peer that holds an earlier one and by the peer that
         never saw the room, and both then decide what the rows of the definition say *)
      let nd := (5 * length probes)%nat in
      let want := flat_map (probe_spec (node_events cand)) probes in
      match obs with
      | vj :: rest =>
          Z.leb 0 vj && Z.leb vj 1 && zlist_eqb (take nd rest) want &&
          match dropn nd rest with
          | vf :: df => Z.eqb vf 1 && zlist_eqb df want
          | [] => false
          end
      | [] => false
      end
  | CHist author steps probes =>
      let evs := events_of steps in
      let ne := length evs in let nd := (5 * length probes)%nat in let ns := length steps in
      (* every deletion request aimed at the definition was refused; the views below are judged as before *)
      forallb (Z.eqb 0) (take n_del obs) && Nat.eqb (length (take n_del obs)) n_del &&
      let obs := dropn n_del obs in
      let oks := take ne obs in
      let dl := take nd (dropn ne obs) in
      let r1 := dropn (ne + nd) obs in
      forallb (Z.eqb 1) oks && Nat.eqb (length oks) ne &&
      zlist_eqb dl (flat_map (probe_spec evs) probes) &&
      same_as_live dl (take (S nd) r1) &&
      let r2 := dropn (S nd) r1 in
      same_as_live dl (take (S nd) r2) &&
      let r3 := dropn (S nd) r2 in
      forallb (fun v => Z.leb v 1) (take ns r3) && Nat.eqb (length (take ns r3)) ns &&
      let r4 := dropn ns r3 in
      same_as_live dl (take (S nd) r4) &&
      same_as_live dl (dropn (S nd) r4)
  | CRestart author steps probes =>
      let evs := events_of steps in
      let ne := length evs in let nd := (5 * length probes)%nat in
      forallb (Z.eqb 1) (take ne obs) &&
      zlist_eqb (take nd (dropn ne obs)) (flat_map (probe_spec evs) probes) &&
      zlist_eqb (dropn (ne + nd) obs) [1]          (* start() on the instance's own data succeeds *)
  end.

(* ------------------------------------------------------------------ known-finding classes *)
Definition slot := (N * N * N)%type.      (* list tag (0 admins, 1 users, 2 user admins, 3 rights), group, key or entity *)
Definition slot_eqb (a b : slot) : bool :=
  N.eqb (fst (fst a)) (fst (fst b)) && N.eqb (snd (fst a)) (snd (fst b)) && N.eqb (snd a) (snd b).
(* (slot, date) of every entry of the history *)
Definition entry_keys (evs : list event) : list (slot * Z) :=
  flat_map (fun ev => match ev with
                      | EvGroup _ => []
                      | EvAdmin k d _ => [((0, 0, k), d)]
                      | EvUser g k d _ => [((1, g, k), d)]
                      | EvUAdmin g k d _ => [((2, g, k), d)]
                      | EvRight g e d _ _ => [((3, g, e), d)]
                      end)%N evs.
Definition case_steps (c : c10case) := match c with CHist _ s _ | CRestart _ s _ | CBurst _ s _ => s | CJump _ _ _ => [] end.

Definition payload (ev : event) : Z :=
  match ev with
  | EvGroup _ => 0
  | EvAdmin _ _ b | EvUser _ _ _ b | EvUAdmin _ _ _ b => zb b
  | EvRight _ _ _ s a => 2 * zb s + zb a
  end.
Fixpoint same_date_differs (l : list ((slot * Z) * Z)) : bool :=
  match l with
  | [] => false
  | (k, d, p) :: tl =>
      existsb (fun q => slot_eqb (fst (fst q)) k && Z.eqb (snd (fst q)) d && negb (Z.eqb (snd q) p)) tl || same_date_differs tl
  end.

(* classes 1 (newest-first replay), 2 (right flags not normalised on reload) and 4 (group created
   together with users by an administrator refused by peers holding the room) were repaired by
   83dc3ea, a68fe8d and 85b1827 and are no classes any more.
   class 3: two entries of one key in one list carry the same date and differ: live and on reload the
            later mutation wins, import orders same-date entries by the row ids *)
Definition known_C10 (c : c10case) : list Z :=
  let evs := events_of (case_steps c) in
  (if same_date_differs (combine (entry_keys evs) (map payload (filter (fun ev => match ev with EvGroup _ => false | _ => true end) evs))) then [3] else []).

Definition eval_C10 (c : c10case) (obs : list Z) : list Z :=
  [zb (zlist_eqb (run_C10 c) obs); zb (spec_C10 c obs)] ++ known_C10 c.
