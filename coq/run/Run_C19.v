(* Run_C19.v — entry points evaluated by the correspondence harness for C19. No proofs. *)
From DV Require Export Handshake.
Local Open Scope Z_scope.

(* a token as a connection presents it *)
Inductive tokref := RInv (inv : N) | RPeer (p : peer) | ROwn.
Inductive pmop :=
| OCreate                             (* create_invite; the new invitation is named by its rank among the created ones *)
| OAccept (b : invite_bytes)          (* accept_invite *)
| OLookup (tr : tokref) (k : key)     (* get_token_type(token, claimed key) *)
| OConsume (tr : tokref) (p : peer).  (* a connection on token tr whose remote proved to be p: get_token_type, then
                                         invite_accepted when the token type is an invitation *)

Inductive c19case :=
| CHandshake (challenge : N) (local_key : key) (t : ttype) (r : remote) (events_ok : bool)
| CInvites (app : N) (me : secret) (me_key : key) (ops : list pmop)
| CTokens (secs : list secret) (probes : list (nat * nat))
(* several connections in a row; nonces = the challenges the implementation sent, renamed by first
   occurrence (an input of the model, and the first part of the observation) *)
| CSession (nonces : list N) (conns : list sconn)
(* the token table together with the database behind it: default rooms, restarts *)
| CInvDb (app : N) (me : secret) (me_key : key) (ops : list dop)
(* connections handed to a running peer connection service; circuit = what the connection announces
   (endpoint ids), tt = the token type the service finds for it, r = what the remote answers to the
   identity challenge.  The remote asks for the room list while its proof is pending and again after *)
| CCircuit (local_key : key) (conns : list (N * ttype * remote)).

(* ---------------------------------------------------------------- handshake *)
Definition result_code (r : result) : Z := match r with ROkFalse => 0 | ROkTrue => 1 | RErr => 2 end.
Definition bound_of (es : list effect) : Z :=
  fold_left (fun acc e => match e with EBind k => zn k | _ => acc end) es (-1).
Definition ready_of (es : list effect) : bool :=
  negb (existsb (fun e => match e with ENotReady => true | _ => false end) es).
Definition events_of (es : list effect) : list Z :=
  flat_map (fun e => match e with EvReady => [0] | EvReadyFingerprint => [1] | _ => [] end) es.
Definition msgs_of (es : list effect) : list Z :=
  flat_map (fun e => match e with MInviteAccepted k => [1; zn k] | MConnected k => [2; zn k] | _ => [] end) es.
Definition obs_handshake (x : result * list effect) : list Z :=
  let '(r, es) := x in
  [result_code r; bound_of es; zb (ready_of es)] ++ [Z.of_nat (length (events_of es))] ++ events_of es ++ msgs_of es.

(* ---------------------------------------------------------------- invitations *)
Definition tok_of_ref (m : pm) (tr : tokref) : token :=
  match tr with RInv inv => TkInvite inv | RPeer p => token_of (pm_secret m) (p_pub p) | ROwn => TkOwn end.
Definition lookup_obs (o : option ttype) : Z * Z :=
  match o with
  | None => (0, 0)
  | Some (TAllowed k) => (1, zn k)
  | Some (TOwned i) => (2, zn i)
  | Some (TInvite i _ _) => (3, zn i)
  end.
(* one operation on the table; next = rank the next created invitation gets (ids are fresh uids) *)
Definition step (next : N) (m : pm) (op : pmop) : N * pm * Z * Z :=
  match op with
  | OCreate => (N.succ next, create_invite m next, 1, zn next)
  | OAccept b => match accept_invite m b with Some m' => (next, m', 1, 0) | None => (next, m, 0, 0) end
  | OLookup tr k => let '(a, b) := lookup_obs (get_token_type m (tok_of_ref m tr) k) in (next, m, a, b)
  | OConsume tr p =>
      let o := get_token_type m (tok_of_ref m tr) (p_key p) in
      let a := fst (lookup_obs o) in
      match o with
      | Some (TAllowed _) | None => (next, m, a, 0)
      | Some t => match invite_accepted m t p with Some m' => (next, m', a, 1) | None => (next, m, a, 0) end
      end
  end.
Fixpoint run_ops (next : N) (m : pm) (ops : list pmop) : list Z :=
  match ops with
  | [] => []
  | op :: r => let '(n', m', a, b) := step next m op in a :: b :: run_ops n' m' r
  end.
Definition init_pm (app : N) (me : secret) (me_key : key) : pm :=
  {| pm_app := app; pm_secret := me; pm_tokens := [(TkOwn, TAllowed me_key)] |}.

(* ---------------------------------------------------------------- tokens *)
(* which of the computed tokens are equal: for every probe, one bit per later probe *)
Fixpoint eq_matrix (ts : list token) : list Z :=
  match ts with
  | [] => []
  | t :: r => map (fun u => zb (token_eqb t u)) r ++ eq_matrix r
  end.
Definition probe_token (secs : list secret) (p : nat * nat) : option token :=
  match nth_error secs (fst p), nth_error secs (snd p) with
  | Some a, Some b => Some (token_of a (s_pub b))
  | _, _ => None
  end.
Fixpoint all_some {A} (l : list (option A)) : option (list A) :=
  match l with
  | [] => Some []
  | Some x :: r => match all_some r with Some t => Some (x :: t) | None => None end
  | None :: _ => None
  end.

Fixpoint run_conns (nonces : list N) (all : list sconn) (i : nat) (cs : list sconn) : list Z :=
  match cs with
  | [] => []
  | c :: r => let x := conn_result nonces all i c in result_code (fst x) :: bound_of (snd x) :: run_conns nonces all (S i) r
  end.

Fixpoint run_dops (me_key : key) (s : sys) (ops : list dop) : list Z :=
  match ops with
  | [] => []
  | o :: r => let '(s', a, b) := dstep me_key s o in zn a :: zn b :: run_dops me_key s' r
  end.

(* one connection at the service level: [served while the proof is pending; event; served afterwards].
   InboundQueryService answers RoomList when the key holder of THIS connection is set and the
   connection is ready; the holder is created empty for every connection *)
Definition serve_conn (local_key : key) (x : N * ttype * remote) : list Z :=
  let '(_, t, r) := x in
  let res := init_connection 0 local_key t r true in
  let es := snd res in
  [0;
   match events_of es with e :: _ => e | [] => -1 end;
   zb (match fst res with ROkTrue => true | _ => false end && ready_of es && negb (Z.eqb (bound_of es) (-1)))].

Definition run_C19 (c : c19case) : list Z :=
  match c with
  | CHandshake ch lk t r ev => obs_handshake (init_connection ch lk t r ev)
  | CInvites app me mk ops => run_ops 1 (init_pm app me mk) ops
  | CTokens secs probes => match all_some (map (probe_token secs) probes) with Some ts => eq_matrix ts | None => [] end
  | CSession nonces conns => map zn nonces ++ run_conns nonces conns 0 conns
  | CInvDb app me mk ops => run_dops mk (init_sys app me mk) ops
  | CCircuit lk conns => flat_map (serve_conn lk) conns
  end.

(* ================================================================ the property's own oracle *)
(* the remote side is entitled to be treated as key k on this connection *)
Definition entitled (ch : N) (t : ttype) (r : remote) : option key :=
  match r with
  | NoAnswer => None
  | Ans a =>
      let k := a_key a in
      if match a_sig_by a with Some s => N.eqb s k | None => false end     (* signed by the key it claims *)
         && N.eqb (a_sig_over a) ch                                         (* THIS connection's fresh challenge *)
         && negb (a_room a) && a_entity_ok a && a_rowsig_ok a && a_pubkey_ok a   (* a well-formed, self-signed peer row *)
         && match t with
            | TAllowed p => N.eqb p k                                       (* the key expected for the token *)
            | TOwned _ => true
            | TInvite _ _ s => match s with Some s => N.eqb s k | None => false end   (* the invitation's signer *)
            end
      then Some k else None
  end.

Fixpoint msgs_ok (k : Z) (l : list Z) : bool :=
  match l with
  | [] => true
  | _ :: k' :: r => Z.eqb k' k && msgs_ok k r
  | _ => false
  end.

Definition is_nil_z (l : list Z) : bool := match l with [] => true | _ => false end.
Definition spec_hs_with (e : option key) (obs : list Z) : bool :=
  match obs with
  | res :: bound :: ready :: nev :: rest =>
      let evs := firstn (Z.to_nat nev) rest in
      let msgs := skipn (Z.to_nat nev) rest in
      match e with
      | Some k =>
          (* whatever is bound / reported / consumed is for the proven key *)
          (Z.eqb bound (-1) || Z.eqb bound (zn k)) && msgs_ok (zn k) msgs &&
          (if Z.eqb res 1 then Z.eqb bound (zn k) else true)
      | None =>
          (* a peer that fails gets nothing but a disconnect *)
          negb (Z.eqb res 1) && Z.eqb bound (-1) && is_nil_z evs && is_nil_z msgs
      end
  | _ => false
  end.
Definition spec_handshake (ch : N) (t : ttype) (r : remote) (obs : list Z) : bool :=
  spec_hs_with (entitled ch t r) obs.

(* invitations: judged operation by operation on the implementation's answers against a reference
   state: the set of PENDING invitations (created / accepted and not yet consumed, according to those
   answers).  Single use = a consumption is granted only for a pending invitation and ends it. *)
Definition mem_n (x : N) (l : list N) : bool := existsb (N.eqb x) l.
Definition drop_n (x : N) (l : list N) : list N := filter (fun y => negb (N.eqb y x)) l.
Definition op_ok (app : N) (pending : list N) (op : pmop) (a b : Z) : bool :=
  match op with
  | OCreate => true
  | OAccept bs =>
      (* accepted only if it names this application *)
      if Z.eqb a 1 then match bs with InviteFor _ app' _ => N.eqb app' app | Garbage => false end else true
  | OLookup tr k =>
      (if Z.eqb a 1 then Z.eqb b (zn k) else true) &&                       (* an allowed-peer entry only for the claimed key *)
      match tr with RInv inv => if mem_n inv pending then true else Z.eqb a 0 | _ => true end   (* not pending: unknown *)
  | OConsume tr p =>
      match tr with RInv inv => if mem_n inv pending then true else Z.eqb a 0 && Z.eqb b 0 | _ => true end
  end.
Definition pending_after (pending : list N) (op : pmop) (a b : Z) : list N :=
  match op with
  | OCreate => Z.to_N b :: pending
  | OAccept (InviteFor inv _ _) => if Z.eqb a 1 then inv :: pending else pending
  | OConsume (RInv inv) _ => if Z.eqb b 1 then drop_n inv pending else pending
  | _ => pending
  end.
Fixpoint spec_ops (app : N) (pending : list N) (ops : list pmop) (obs : list Z) : bool :=
  match ops, obs with
  | [], [] => true
  | op :: r, a :: b :: obs' => op_ok app pending op a b && spec_ops app (pending_after pending op a b) r obs'
  | _, _ => false
  end.
Definition spec_invites (app : N) (ops : list pmop) (obs : list Z) : bool := spec_ops app [] ops obs.

(* scenario encoding: created invitations are named by their rank 1..n; an invitation received from
   somebody else never has the id of one this instance will create later (ids are fresh random uids) *)
Fixpoint n_creates (ops : list pmop) : N :=
  match ops with [] => 0%N | OCreate :: r => N.succ (n_creates r) | _ :: r => n_creates r end.
Fixpoint ops_ok (next total : N) (ops : list pmop) : bool :=
  match ops with
  | [] => true
  | OCreate :: r => ops_ok (N.succ next) total r
  | OAccept (InviteFor inv _ _) :: r => (N.ltb inv next || N.ltb total inv) && ops_ok next total r
  | _ :: r => ops_ok next total r
  end.

(* tokens: the same on both sides, different for different pairs of public keys *)
Definition pair_of (secs : list secret) (p : nat * nat) : option (N * N) :=
  match nth_error secs (fst p), nth_error secs (snd p) with
  | Some a, Some b => Some (N.min (s_pub a) (s_pub b), N.max (s_pub a) (s_pub b))
  | _, _ => None
  end.
Definition pair_eqb (x y : option (N * N)) : bool :=
  match x, y with
  | Some (a, b), Some (c, d) => N.eqb a c && N.eqb b d
  | _, _ => false
  end.
Definition probe_rel (secs : list secret) (p q : nat * nat) (bit : Z) : bool :=
  (* both sides of one pair: the same token *)
  (if Nat.eqb (fst p) (snd q) && Nat.eqb (snd p) (fst q) then Z.eqb bit 1 else true) &&
  (* different pairs of public keys: different tokens *)
  (if pair_eqb (pair_of secs p) (pair_of secs q) then true else Z.eqb bit 0).
Fixpoint row_ok (secs : list secret) (p : nat * nat) (qs : list (nat * nat)) (bits : list Z) : bool :=
  match qs, bits with
  | [], [] => true
  | q :: qs', b :: bits' => probe_rel secs p q b && row_ok secs p qs' bits'
  | _, _ => false
  end.
Fixpoint spec_tokens (secs : list secret) (probes : list (nat * nat)) (obs : list Z) : bool :=
  match probes with
  | [] => is_nil_z obs
  | p :: r => row_ok secs p r (firstn (length r) obs) && spec_tokens secs r (skipn (length r) obs)
  end.

(* sessions: (a) freshness: the challenges of different connections are pairwise different, whatever
   the connections announce about themselves; (b) every connection is judged like a single handshake
   against ITS challenge; (c) an answer recorded on another connection is never accepted *)
Fixpoint nodup_n (l : list N) : bool :=
  match l with [] => true | x :: r => negb (existsb (N.eqb x) r) && nodup_n r end.
Definition conn_ok (nonces : list N) (all : list sconn) (i : nat) (c : sconn) (res bound : Z) : bool :=
  match nth_error nonces i with
  | Some n =>
      spec_hs_with (entitled n (sc_tt c) (sremote_of nonces all i c)) [res; bound; 1; 0] &&
      match sc_remote c with SReplay j => Nat.eqb j i || negb (Z.eqb res 1) | _ => true end
  | None => false
  end.
Fixpoint spec_conns (nonces : list N) (all : list sconn) (i : nat) (cs : list sconn) (obs : list Z) : bool :=
  match cs, obs with
  | [], [] => true
  | c :: r, res :: bound :: obs' => conn_ok nonces all i c res bound && spec_conns nonces all (S i) r obs'
  | _, _ => false
  end.
Definition spec_session (conns : list sconn) (obs : list Z) : bool :=
  let n := length conns in
  let ns := map Z.to_N (firstn n obs) in
  Nat.eqb (length ns) n && nodup_n ns && spec_conns ns conns 0 conns (skipn n obs).

(* the same reference machine for histories with restarts: a restart changes nothing to what is
   pending — an invitation is consumed once, across restarts too *)
Definition dop_ok (app : N) (pending : list N) (o : dop) (a b : Z) : bool :=
  match o with
  | DAccept bs => if Z.eqb a 1 then match bs with InviteFor _ app' _ => N.eqb app' app | Garbage => false end else true
  | DLookup tk k =>
      (if Z.eqb a 1 then Z.eqb b (zn k) else true) &&
      match tk with TkInvite inv => if mem_n inv pending then true else Z.eqb a 0 | _ => true end
  | DConsume tk p =>
      match tk with TkInvite inv => if mem_n inv pending then true else Z.eqb a 0 && Z.eqb b 0 | _ => true end
  | _ => true
  end.
Definition dpending_after (pending : list N) (o : dop) (a b : Z) : list N :=
  match o with
  | DCreate _ => Z.to_N b :: pending
  | DAccept (InviteFor inv _ _) => if Z.eqb a 1 then inv :: pending else pending
  | DConsume (TkInvite inv) _ => if Z.eqb b 1 then drop_n inv pending else pending
  | _ => pending
  end.
Fixpoint spec_dops (app : N) (pending : list N) (ops : list dop) (obs : list Z) : bool :=
  match ops, obs with
  | [], [] => true
  | o :: r, a :: b :: obs' => dop_ok app pending o a b && spec_dops app (dpending_after pending o a b) r obs'
  | _, _ => false
  end.
(* scenario encoding for the theorems: created invitations are named by their rank; an invitation
   received from somebody else never has the id of one this instance creates later *)
Fixpoint dops_ok (next total : N) (ops : list dop) : bool :=
  match ops with
  | [] => true
  | DCreate _ :: r => dops_ok (N.succ next) total r
  | DAccept (InviteFor inv _ _) :: r => (N.ltb inv next || N.ltb total inv) && dops_ok next total r
  | _ :: r => dops_ok next total r
  end.
Fixpoint n_dcreates (ops : list dop) : N :=
  match ops with [] => 0%N | DCreate _ :: r => N.succ (n_dcreates r) | _ :: r => n_dcreates r end.

(* a connection is served only after ITS OWN proof: never while the proof is pending, and afterwards
   only if the remote was entitled on this connection — whatever circuit it announces *)
Fixpoint spec_circuit (conns : list (N * ttype * remote)) (obs : list Z) : bool :=
  match conns, obs with
  | [], [] => true
  | (_, t, r) :: cs, before :: _ :: after :: obs' =>
      Z.eqb before 0 &&
      (if Z.eqb after 0 then true else match entitled 0 t r with Some _ => true | None => false end) &&
      spec_circuit cs obs'
  | _, _ => false
  end.

Definition spec_C19 (c : c19case) (obs : list Z) : bool :=
  match c with
  | CHandshake ch _ t r _ => spec_handshake ch t r obs
  | CInvites app _ _ ops => spec_invites app ops obs
  | CTokens secs probes => spec_tokens secs probes obs
  | CSession _ conns => spec_session conns obs
  | CInvDb app _ _ ops => spec_dops app [] ops obs
  | CCircuit _ conns => spec_circuit conns obs
  end.

(* known-finding classes (known_findings.d/C19.json):
   1  (fixed 2163820) an invitation presented a second time was accepted again
   2  two different secrets with the same x25519 public key (they differ only in bits the scalar
      clamping ignores) ask for each other's token
   3  (fixed 1e2cdf6) an invitation accepted twice was registered twice and consumed twice
   4  (fixed 1c5e321) an owned invitation whose default room could not be granted stayed usable until restart
   5  (fixed 4354588) an instance that accepted its own invitation registered it twice after a restart *)
Definition known_C19 (c : c19case) : list Z :=
  match c with
  | CTokens secs probes =>
      if existsb (fun p => match nth_error secs (fst p), nth_error secs (snd p) with
                           | Some a, Some b => N.eqb (s_pub a) (s_pub b) && negb (N.eqb (s_bytes a) (s_bytes b))
                           | _, _ => false
                           end) probes then [2] else []
  | _ => []
  end.

Definition eval_C19 (c : c19case) (obs : list Z) : list Z :=
  [zb (zlist_eqb (run_C19 c) obs); zb (spec_C19 c obs)] ++ known_C19 c.
