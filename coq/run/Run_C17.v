(* Run_C17.v — entry points evaluated by the correspondence harness for C17 (full-text search is exact). *)
From DV Require Export Fts.

(* the view of ONE peer: the totals of its index when the history starts (documents, tokens) and
   the operations that touched its row store, in order; rows a pull wrote are [FSyncPut]/[FSyncDel]
   (read off the peer's row dump before/after the pull: WHICH rows a pull delivers is C03's subject) *)
Inductive c17case := C17Case (n0 t0 : Z) (ops : list fop).
Definition c17_ops (c : c17case) : list fop := match c with C17Case _ _ o => o end.
Definition c17_init (c : c17case) : fstate := match c with C17Case n t _ => finit n t end.

Definition run_C17 (c : c17case) : list Z := frun_obs (c17_init c) (c17_ops c).

(* ---- decoding the observation ---- *)
Definition dec_text (l : list Z) : option (text * list Z) :=
  match l with
  | k :: rest => let n := Z.to_nat k in
                 if (n <=? length rest)%nat then Some (map Z.to_N (firstn n rest), skipn n rest) else None
  | [] => None
  end.
Definition dec_otext (l : list Z) : option (option text * list Z) :=
  match l with
  | fl :: rest => if Z.eqb fl 0 then Some (None, rest)
                  else match dec_text rest with Some (t, rest') => Some (Some t, rest') | None => None end
  | [] => None
  end.
Definition dec_frow (l : list Z) : option (frow * list Z) :=
  match l with
  | i :: r :: rest =>
      match dec_otext rest with
      | Some (a, rest') =>
          match dec_otext rest' with
          | Some (b, rest'') => Some ({| f_id := Z.to_N i; f_rowid := Z.to_N r; f_a := a; f_b := b |}, rest'')
          | None => None end
      | None => None end
  | _ => None
  end.
Fixpoint dec_frows (k : nat) (l : list Z) : option (list frow * list Z) :=
  match k with
  | O => Some ([], l)
  | S k' => match dec_frow l with
            | Some (r, rest) => match dec_frows k' rest with Some (rs, rest') => Some (r :: rs, rest') | None => None end
            | None => None end
  end.
Fixpoint dec_results (ws : list text) (l : list Z) : option (list (list uid) * list Z) :=
  match ws with
  | [] => Some ([], l)
  | _ :: ws' => match dec_text l with
                | Some (ids, rest) => match dec_results ws' rest with Some (rs, rest') => Some (ids :: rs, rest') | None => None end
                | None => None end
  end.

(* ---- the property's own oracle, on what the IMPLEMENTATION showed: at every check, for every
        well-formed search word, the ids returned are exactly the ids of the rows the peer shows
        whose text fields contain the word ---- *)
Fixpoint exact (rs : list frow) (ws : list text) (res : list (list uid)) : bool :=
  match ws, res with
  | [], [] => true
  | w :: ws', ids :: res' =>
      (negb (wf_term w) || list_eqb N.eqb (sort_n ids) (sort_n (expected rs w))) && exact rs ws' res'
  | _, _ => false
  end.
Fixpoint spec_ops (ops : list fop) (obs : list Z) : bool :=
  match ops with
  | [] => match obs with [] => true | _ => false end
  | FCheck ws :: rest =>
      match obs with
      | k :: o1 =>
          match dec_frows (Z.to_nat k) o1 with
          | Some (rs, o2) =>
              match dec_results ws o2 with
              | Some (res, o3) => exact rs ws res && spec_ops rest o3
              | None => false end
          | None => false end
      | [] => false end
  | FSyncPut _ _ _ :: rest => spec_ops rest obs
  | FSyncDel _ :: rest => spec_ops rest obs
  | FToggle _ :: rest => spec_ops rest obs
  | _ :: rest => match obs with _ :: o => spec_ops rest o | [] => false end
  end.
Definition spec_C17 (c : c17case) (obs : list Z) : bool := spec_ops (c17_ops c) obs.

(* known-finding classes (known_findings.d/C17.json), decided on the model's run:
   1  the peer holds a row that was written by synchronisation (such rows are never indexed)
   2  a new row took the storage slot of a deleted row whose index entries were left behind *)
Definition known_C17 (c : c17case) : list Z :=
  let ev := frun_events (c17_init c) (c17_ops c) in
  (if fev_synced ev then [1] else []) ++ (if fev_reused ev then [2] else []).

(* the model's own checks: at every FCheck of the run, every well-formed word finds exactly the rows
   whose text fields contain it (what C17_local_ok proves for local histories) *)
Fixpoint checks_exact (st : fstate) (ops : list fop) : bool :=
  match ops with
  | [] => true
  | o :: rest =>
      (match o with
       | FCheck ws => forallb (fun w => negb (wf_term w) || list_eqb N.eqb (search st w) (expected (rows st) w)) ws
       | _ => true
       end) && checks_exact (fst (fst (fstep st o))) rest
  end.
Definition eval_C17 (c : c17case) (obs : list Z) : list Z :=
  [zb (zlist_eqb (run_C17 c) obs); zb (spec_C17 c obs)] ++ known_C17 c.
