(* Run_C13.v — entry points evaluated by the correspondence harness for C13. No proofs. *)
From DV Require Export Writer WriterSkeleton.

(* the fault as it took effect in the run: none / process aborted at the k-th point hit /
   the statement behind the k-th point hit failed *)
Inductive fault_spec := FNone | FKill (k : N) | FFail (k : N).
Definition sched_of (f : fault_spec) : schedule :=
  fun n => match f with
           | FNone => Continue
           | FKill k => if N.eqb n k then Kill else Continue
           | FFail k => if N.eqb n k then FailStmt else Continue
           end.

Inductive c13case :=
| CSkip    (* a run the harness could not use (batch composition not attributable); counted, not judged *)
| CRun (init : list (N * N * N))          (* rows the set-up stored: (id, content, cell) *)
       (batches : list (list req))        (* the batches the writer formed (from the hook's trace), in order *)
       (unsent : list (req * bool))       (* requests that never reached a batch: the process died before (false),
                                             or the first validation refused them, answered Err upstream (true) *)
       (f : fault_spec)
| CRestart (init : list (N * N * N))      (* a fault-free workload (every request acknowledged), the process ended, and then *)
           (batches : list (list req))    (* the folder is opened again with a fault armed during GraphDatabaseService::start *)
           (script : list sstep)          (* what the writer sees of that start (+ the closing write), from a fault-free start *)
           (f : fault_spec).

Definition init_disk (init : list (N * N * N)) : disk :=
  recompute {| d_rows := map (fun x => ((snd x, fst (fst x)), snd (fst x))) init; d_tombs := [];
               d_log := [(1%N, (true, 0%N)); (2%N, (true, 0%N))] |}.

(* ---- what a query sees of one request *)
Definition reflected (d : disk) (o : op) : bool :=
  match o with
  | Put c i v => match lookup (c, i) (d_rows d) with Some v' => N.eqb v' v | None => false end
  | Del c i => match lookup (c, i) (d_rows d) with Some _ => false | None => existsb (rkey_eqb (c, i)) (d_tombs d) end
  end.
(* 1 = the whole effect, 0 = nothing, 2 = part of it *)
Definition vis (d : disk) (r : req) : Z :=
  if forallb (reflected d) (req_ops r) then 1 else if existsb (reflected d) (req_ops r) then 2 else 0.

(* ---- the daily log against the rows *)
Definition cells (d : disk) : list N :=
  map (fun kv => fst (fst kv)) (d_rows d) ++ map fst (d_tombs d) ++ map fst (d_log d).
(* invariant: an entry that does not describe the rows is marked for recompute *)
Definition cell_inv (d : disk) (c : N) : bool :=
  N.eqb c 0 ||
  match nlookup c (d_log d) with
  | None => N.eqb (count_cell d c) 0
  | Some (dirty, n) => dirty || N.eqb n (count_cell d c)
  end.
(* consistent: every entry is clean and describes the rows *)
Definition cell_cons (d : disk) (c : N) : bool :=
  N.eqb c 0 ||
  match nlookup c (d_log d) with
  | None => N.eqb (count_cell d c) 0
  | Some (dirty, n) => negb dirty && N.eqb n (count_cell d c)
  end.
Definition loginv_b (d : disk) : bool := forallb (cell_inv d) (cells d).
Definition consistent_b (d : disk) : bool := forallb (cell_cons d) (cells d).

Definition ack_code (a : option bool) : Z := match a with Some true => 1 | Some false => 2 | None => 0 end.

(* what the model says the implementation observes:
   per request (batches in order, then the unsent ones): acknowledgement (0 none, 1 Ok, 2 Err),
   visibility to a query of the still running process (-1 if it died), visibility after restart;
   then: alive, hits (alive) or the point it died at, log invariant on the file as left,
   log consistent after the restart's recompute, writes work after restart, query interface = tables,
   the writer stays in service (no batch behind a failed one is reported failed: C13_never_wedged_holds, one fault per run) *)
Definition all_continue : schedule := fun _ => Continue.
Definition script_reqs (sc : list sstep) : list req :=
  flat_map (fun s => match s with SAwait b | SFree b => b | _ => [] end) sc.
Definition run_model (c : c13case) : list Z :=
  match c with
  | CSkip => []
  | CRestart init batches script f =>
      (* phase A: the workload, no fault *)
      let ra := run_batches code_skeleton all_continue 0 {| w_disk := init_disk init; w_stuck := false |} true batches in
      (* phase B: a new process (new connection, hits counted from 0) starts on what was committed *)
      let rb := run_script code_skeleton (sched_of f) 0 {| w_disk := w_disk (rr_state ra); w_stuck := false |} true false script in
      let d' := w_disk (sr_state rb) in
      let dr := restart (sr_state rb) in
      (* per request of the workload: visible after this start and one more, normal, start;
         per request the writer saw after start() returned (the closing write): acknowledgement, visibility *)
      map (fun q => vis dr q) (concat batches)
      ++ flat_map (fun x => [ack_code (it_ack x); vis dr (it_req x)]) (filter (fun x => negb (match req_ops (it_req x) with [] => true | _ => false end)) (sr_items rb))
      ++ [zb (sr_alive rb); zn (if sr_alive rb then sr_hits rb else sr_last rb); zb (sr_started rb);
          zb (loginv_b d'); zb (consistent_b dr); 1; 1]
  | CRun init batches unsent f =>
      let r := run_batches code_skeleton (sched_of f) 0 {| w_disk := init_disk init; w_stuck := false |} true batches in
      let d' := w_disk (rr_state r) in
      let dr := restart (rr_state r) in
      let live (q : req) : Z := if rr_alive r then vis d' q else -1 in
      flat_map (fun x => [ack_code (it_ack x); live (it_req x); vis dr (it_req x)]) (rr_items r)
      ++ flat_map (fun x : req * bool => [if snd x then 2 else 0; live (fst x); vis dr (fst x)]) unsent
      ++ [zb (rr_alive r); zn (if rr_alive r then rr_hits r else rr_last r);
          zb (loginv_b d'); zb (consistent_b dr); 1; 1; 1]
  end.

(* ---- the property's own oracle, judged on what the IMPLEMENTATION did ---- *)
Fixpoint triples (n : nat) (obs : list Z) : option (list (Z * Z * Z) * list Z) :=
  match n with
  | O => Some ([], obs)
  | S m => match obs with
           | a :: l :: v :: rest => match triples m rest with
                                    | Some (ts, tl) => Some ((a, l, v) :: ts, tl)
                                    | None => None
                                    end
           | _ => None
           end
  end.
(* one request: all or nothing (never 2); a later query and the restarted database agree;
   acknowledged => visible; reported failed => invisible *)
Definition req_ok (t : Z * Z * Z) : bool :=
  let '(a, l, v) := t in
  (Z.eqb v 0 || Z.eqb v 1) && (Z.eqb l (-1) || Z.eqb l v) &&
  (Z.eqb a 0 || Z.eqb a 1 || Z.eqb a 2) &&
  implb (Z.eqb a 1) (Z.eqb v 1) && implb (Z.eqb a 2) (Z.eqb v 0).
Fixpoint pairs (n : nat) (obs : list Z) : option (list (Z * Z) * list Z) :=
  match n with
  | O => Some ([], obs)
  | S m => match obs with
           | a :: v :: rest => match pairs m rest with
                               | Some (ps, tl) => Some ((a, v) :: ps, tl)
                               | None => None
                               end
           | _ => None
           end
  end.
Definition spec_C13 (c : c13case) (obs : list Z) : bool :=
  match c with
  | CSkip => true
  | CRestart init batches script f =>
      (* every request of the (acknowledged) workload is still entirely visible, whatever happened during the start *)
      let nb := length (concat batches) in
      let rest := skipn nb obs in
      forallb (fun v => Z.eqb v 1) (firstn nb obs) && Nat.leb nb (length obs) &&
      (* then (acknowledgement, visibility) of the requests sent after the start (the closing write), then 8 flags *)
      match pairs (Nat.div2 (length rest - 8)) rest with
      | Some (ps, [alive; hits; started; inv0; cns; again; api; wf]) =>
          forallb (fun p : Z * Z => req_ok (fst p, snd p, snd p)) ps &&
          Z.eqb inv0 1 && Z.eqb cns 1 && Z.eqb again 1 && Z.eqb api 1
      | _ => false
      end
  | CRun init batches unsent f =>
      match triples (length (concat batches) + length unsent) obs with
      | Some (ts, [alive; hits; inv0; cns; again; api; svc; wf]) =>
          forallb req_ok ts && Z.eqb inv0 1 && Z.eqb cns 1 && Z.eqb again 1 && Z.eqb api 1 && Z.eqb svc 1
      | _ => false
      end
  end.

(* ---- known-finding classes ----
   1: two definition changes of one room in flight: an earlier one takes an entity right away, a later one
      (validated before the first was applied) also writes a row that needs that right. The authorisation
      actor validates the later one AGAIN after its batch was committed and reports it failed. *)
Definition revokes (r : req) : bool := match r_auth r with ANeeds _ true => true | _ => false end.
Definition needs (r : req) : bool := match r_auth r with ANeeds true _ => true | _ => false end.
Fixpoint k2 (seen_revoke : bool) (l : list req) : bool :=
  match l with
  | [] => false
  | r :: t => (seen_revoke && needs r) || k2 (seen_revoke || revokes r) t
  end.
Definition known_C13 (c : c13case) : list Z :=
  match c with
  | CRun _ batches _ _ => if k2 false (concat batches) then [1] else []
  | _ => []
  end.

(* ---- shapes the harness generates (hypothesis of the theorems; checked on the closed witnesses) *)
Fixpoint nodup_keys (l : list rkey) : bool :=
  match l with
  | [] => true
  | k :: t => negb (existsb (rkey_eqb k) t) && nodup_keys t
  end.
Definition covers (sk : skeleton) (r : req) : bool :=
  forallb (fun o => N.eqb (op_cell o) 0 || existsb (N.eqb (op_cell o)) (eff_marks sk r)) (req_ops r).
(* a recompute / optimize request carries no row operation, every other request at least one *)
Definition req_shape (r : req) : bool :=
  match r_kind r with
  | KCompute | KOptimize => match req_ops r with [] => true | _ => false end
  | _ => match req_ops r with [] => false | _ => true end
  end.
Definition wf_case (c : c13case) : bool :=
  match c with
  | CSkip => true
  | CRestart init batches script f =>
      let d0 := init_disk init in
      let rs := concat batches ++ script_reqs script in
      nodup_keys (map op_key (flat_map req_ops rs)) &&
      forallb (fun o => negb (reflected d0 o)) (flat_map req_ops rs) &&
      forallb (covers code_skeleton) rs &&
      forallb req_shape (concat batches) &&
      negb (k2 false (concat batches)) &&
      (* the start: awaited writes carry no row operation of the model, nothing of it is a room mutation,
         a request with row operations is not a recompute / optimize *)
      forallb (fun s => match s with SAwait b => forallb (fun r => match req_ops r with [] => true | _ => false end) b | _ => true end) script &&
      forallb (fun r => match r_auth r with ANone => true | _ => false end) (script_reqs script) &&
      forallb (fun r => match req_ops r with [] => true | _ => req_shape r end) (script_reqs script) &&
      loginv_b d0
  | CRun init batches unsent f =>
      let d0 := init_disk init in
      let rs := concat batches ++ map fst unsent in
      nodup_keys (map op_key (flat_map req_ops rs)) &&          (* requests touch pairwise different rows *)
      forallb (fun o => negb (reflected d0 o)) (flat_map req_ops rs) &&  (* none of their effects is there beforehand *)
      forallb (covers code_skeleton) (concat batches) &&        (* the marks cover the cells written (C09) *)
      forallb req_shape rs &&
      forallb (fun x : req * bool => negb (snd x && match r_kind (fst x) with KCompute | KOptimize => true | _ => false end)) unsent &&
      loginv_b d0
  end.

(* the model's observation + whether the case has the shape the theorems assume (the harness expects 1) *)
Definition run_C13 (c : c13case) : list Z :=
  match c with
  | CSkip => []
  | _ => run_model c ++ [zb (wf_case c)]
  end.

Definition eval_C13 (c : c13case) (obs : list Z) : list Z :=
  [zb (zlist_eqb (run_C13 c) obs); zb (spec_C13 c obs)] ++ known_C13 c.
