(* Run_C04.v — entry points evaluated by the correspondence harness for C04. *)
From DV Require Export Codec Sql.
Open Scope list_scope.

Inductive how := HParam | HLiteral.

(* JSON values (numbers: integers only) *)
Inductive jsn := JNull | JBool (b : bool) | JInt (z : Z) | JString (s : str) | JArray (l : list jsn) | JObject (l : list (str * jsn)).

Inductive c04case :=
| CStr (h : how) (w : str)
    (* a String field is set to a value: HParam: w is the value, bound as a parameter;
       HLiteral: w is the text between the quotes of a literal.  Then the row is read back, and searched with
       an equality filter, once with the value as a parameter and once with a literal *)
| CInt (h : how) (z : Z)
| CFlt (h : how) (bits : Z) (text_bits : Z)
    (* binary64 by bit pattern; text_bits = the value of the decimal literal text the harness uses for it *)
| CBool (h : how) (b : bool)
| CB64 (h : how) (upd : bool) (w : str)
    (* a Base64 field is set (on creation, or over an existing value if upd) to the text w *)
| CJson (h : how) (upd : bool) (nullable_field : bool) (prev : option jsn) (v : jsn)
    (* a Json field that holds prev (None = absent) is set to the JSON value v *)
| CJsonDefault (txt : str) (d : jsn)
    (* a row written before the Json field existed (it lacks the member); the field has the default d, written txt *)
| CUpd (h : how) (ty : Z) (old new : list Z)
    (* a row whose field (ty: 0 Integer, 1 Float by bit pattern, 2 Boolean, 3 String, 4 a number inside a Json field by
       its text) holds old is updated by id to new; the values are given in the encoding of the observation *)
| CSvc (lits : list str)
    (* one long-lived service instance receives, one after the other, requests that only differ in the text of a string
       literal (line breaks and blanks inside it): a mutation per literal, then a filter query per literal *)
| CAlias (a : str) (m : emodel) (q qn : query)
    (* q uses a as the alias of the entity and of a field, qn uses a neutral alias instead *)
| CSearch (term : str) (accepted : bool)
    (* search(term): the statement does not depend on the term; accepted = what FTS5 made of the term *)
| CDefault (m : emodel) (q : query)
    (* the statement compiled for q under a model whose String defaults are arbitrary text *)
| CShape (m : emodel) (q : query).
    (* the statement compiled for q and for q with every String literal replaced by a neutral one *)

Definition enc_str (s : str) : list Z := Z.of_nat (List.length s) :: map Z.of_N s.

(* ---- String values ---- *)
(* the literal used for the value: for a parameter the harness writes the JSON escaping of the value *)
Definition literal_text (h : how) (w : str) : str := match h with HParam => json_esc w | HLiteral => w end.
(* the value the text denotes: characters denote themselves, escapes have their JSON meaning *)
Definition intended (h : how) (w : str) : option str :=
  match h with
  | HParam => Some w
  | HLiteral => option_map toks_value (lex_lit w)
  end.
(* what is stored *)
Definition stored (h : how) (w : str) : str := match h with HParam => w | HLiteral => decode_literal w end.

Definition run_str (h : how) (w : str) : list Z :=
  match intended h w with
  | None => [1]                                          (* the literal is not accepted by the grammar *)
  | Some v =>
      let st := stored h w in
      [0] ++ enc_str (json_esc st)                       (* the JSON text of the field in the _json column *)
          ++ enc_str (match json_unesc (json_esc st) with Some s => s | None => [] end)   (* read back through a query *)
          ++ [zb (str_eqb st v);                         (* found by  field = $p  with p = the value *)
              zb (str_eqb st (decode_literal (literal_text h w)));   (* found by  field = `literal` *)
              1]                                         (* nothing else changed *)
  end.

(* ---- statements ---- *)
Definition neutral_operand (o : operand) : operand :=
  match o with OLit (VStr _) => OLit (VStr [120%N]) | _ => o end.
Definition neutral_query (q : query) : query :=
  {| q_alias := q_alias q; q_sel := q_sel q;
     q_filters := map (fun f => {| fl_ref := fl_ref f; fl_op := fl_op f; fl_val := neutral_operand (fl_val f) |}) (q_filters q);
     q_order := q_order q; q_first := q_first q; q_skip := q_skip q;
     q_paging := match q_paging q with
                 | PNone => PNone
                 | PAfter vs => PAfter (map neutral_operand vs)
                 | PBefore vs => PBefore (map neutral_operand vs)
                 end |}.
Definition neutral_model (m : emodel) : emodel :=
  {| em_name := em_name m; em_short := em_short m;
     em_fields := map (fun fd => {| fd_name := fd_name fd; fd_short := fd_short fd; fd_type := fd_type fd; fd_nullable := fd_nullable fd;
                                    fd_default := match fd_default fd with Some (VStr _) => Some (VStr [120%N]) | d => d end |}) (em_fields m) |}.
Definition sql_text (m : emodel) (q : query) : str := norm_ws (print m (snd (compile m q))).

(* the structure of a statement: everything outside string literals; a literal '...' ('' inside it is an
   escaped quote) is reduced to '' *)
Fixpoint skeleton (l : str) (inside : bool) : str :=
  match l with
  | [] => []
  | c :: t =>
      if inside then
        if N.eqb c 39 then
          match t with
          | 39%N :: t' => skeleton t' true
          | _ => 39%N :: skeleton t false
          end
        else skeleton t true
      else if N.eqb c 39 then 39%N :: skeleton t true else c :: skeleton t false
  end.

(* ---- Json and Base64 fields ---- *)
(* the row is a JSON object keyed by the short names of the fields; an assignment replaces the member
   (get_mutate_query: obj.insert) *)
Fixpoint obj_insert (k : str) (v : jsn) (o : list (str * jsn)) : list (str * jsn) :=
  match o with
  | [] => [(k, v)]
  | (k', v') :: t => if str_eqb k' k then (k, v) :: t else (k', v') :: obj_insert k v t
  end.
Fixpoint obj_lookup (k : str) (o : list (str * jsn)) : option jsn :=
  match o with
  | [] => None
  | (k', v') :: t => if str_eqb k' k then Some v' else obj_lookup k t
  end.
(* serde_json keeps the members of an object sorted by key: what is read back is the canonical form *)
Fixpoint ins_member (kv : str * jsn) (l : list (str * jsn)) : list (str * jsn) :=
  match l with
  | [] => [kv]
  | h :: t => match str_cmp (fst kv) (fst h) with Gt => h :: ins_member kv t | _ => kv :: h :: t end
  end.
Fixpoint canon (j : jsn) : jsn :=
  match j with
  | JArray l => JArray (map canon l)
  | JObject l => JObject (fold_right ins_member [] (map (fun kv : str * jsn => (fst kv, canon (snd kv))) l))
  | _ => j
  end.
Fixpoint enc_jsn (j : jsn) : list Z :=
  match j with
  | JNull => [0] | JBool b => [1; zb b] | JInt z => [2; z] | JString s => 4 :: enc_str s
  | JArray l => 6 :: Z.of_nat (List.length l) :: flat_map enc_jsn l
  | JObject l => 7 :: Z.of_nat (List.length l) :: flat_map (fun kv : str * jsn => enc_str (fst kv) ++ enc_jsn (snd kv)) l
  end.
(* the row of the harness: the field under test `j`, a neighbour `o` *)
Definition key_j : str := [106%N].
Definition key_o : str := [111%N].
Definition json_after (prev : option jsn) (v : jsn) : list (str * jsn) :=
  let row0 := match prev with Some p => obj_insert key_j p [(key_o, JInt 7)] | None => [(key_o, JInt 7)] end in
  obj_insert key_j v row0.
Definition json_filterable (v : jsn) : Z := match v with JObject _ | JArray _ => 1 | _ => 2 end.
Definition run_json (h : how) (nullable_field : bool) (prev : option jsn) (v : jsn) : list Z :=
  match v, nullable_field with
  | JNull, false => match h with HLiteral => [1] | HParam => [2] end                       (* null is refused for a field that is not nullable *)
  | _, _ =>
      let row1 := json_after prev v in
      [0] ++ enc_jsn (canon (match obj_lookup key_j row1 with Some x => x | None => JNull end))
          ++ [json_filterable v;     (* an object / array is found by  field = $p  with its canonical text; for a scalar JSON
                                        value the filter compares the extracted SQL value and is not exercised (2) *)
              zb (match obj_lookup key_o row1 with Some (JInt 7) => true | _ => false end)]   (* the neighbour and the other rows *)
  end.

(* URL-safe base64 without padding, canonical trailing bits (base64::URL_SAFE_NO_PAD) *)
Definition b64_index (c : N) : option N :=
  if N.leb 65 c && N.leb c 90 then Some (c - 65)%N
  else if N.leb 97 c && N.leb c 122 then Some (c - 71)%N
  else if N.leb 48 c && N.leb c 57 then Some (c + 4)%N
  else if N.eqb c 45 then Some 62%N else if N.eqb c 95 then Some 63%N else None.
Definition b64_valid (w : str) : bool :=
  forallb (fun c => match b64_index c with Some _ => true | None => false end) w
  && match Nat.modulo (List.length w) 4 with
     | 1%nat => false
     | 2%nat => match b64_index (last w 0%N) with Some i => N.eqb (N.modulo i 16) 0 | None => false end
     | 3%nat => match b64_index (last w 0%N) with Some i => N.eqb (N.modulo i 4) 0 | None => false end
     | _ => true
     end.
Definition run_b64 (h : how) (w : str) : list Z :=
  if b64_valid w then [0] ++ enc_str w ++ [1; 1; 1]
  else match h with HLiteral => [1] | HParam => [2] end.

(* identifiers: (LETTER | NUMBER | `_`)+ ; the ASCII part of LETTER / NUMBER is [A-Za-z] / [0-9]; outside ASCII the
   harness only uses the characters listed here *)
Definition ident_char (c : N) : bool :=
  (N.leb 65 c && N.leb c 90) || (N.leb 97 c && N.leb c 122) || (N.leb 48 c && N.leb c 57) || N.eqb c 95
  || existsb (N.eqb c) [233; 223; 20013; 937; 1633]%N.
Definition ident_ok (a : str) : bool :=
  negb (match a with [] => true | _ => false end) && forallb ident_char a
  && negb (match a with 95%N :: _ => true | _ => false end).     (* an alias must not start with _ *)
(* the structure of a statement with identifiers quoted by ` and literals by ' *)
Fixpoint skeleton2 (l : str) (inside : N) : str :=          (* inside: 0 = outside, 39 / 34 = inside that kind of quote *)
  match l with
  | [] => []
  | c :: t =>
      if N.eqb inside 0 then
        if N.eqb c 39 || N.eqb c 34 then c :: skeleton2 t c else c :: skeleton2 t 0
      else if N.eqb c inside then
        match t with
        | c' :: t' => if N.eqb c' inside then skeleton2 t' inside else c :: skeleton2 t 0
        | [] => [c]
        end
      else skeleton2 t inside
  end.
(* a search term made of plain words: FTS5 reads it as the words themselves *)
Definition word_char (c : N) : bool :=
  (N.leb 65 c && N.leb c 90) || (N.leb 97 c && N.leb c 122) || (N.leb 48 c && N.leb c 57) || N.eqb c 95 || N.leb 128 c.
Fixpoint split_words (l : str) (cur : str) : list str :=
  match l with
  | [] => [rev cur]
  | c :: t => if N.eqb c 32 then rev cur :: split_words t [] else split_words t (c :: cur)
  end.
Definition fts_operator (w : str) : bool :=
  str_eqb w (lit "AND") || str_eqb w (lit "OR") || str_eqb w (lit "NOT") || str_eqb w (lit "NEAR").
Definition plain_term (t : str) : bool :=
  forallb (fun w => negb (match w with [] => true | _ => false end) && forallb word_char w && negb (fts_operator w)) (split_words t []).

(* an update replaces the stored value by the assigned one, whatever the stored value is (no `nothing changes` shortcut
   in the model): read back, found by the equality filters with the new value, not found any more with the old one *)
Definition upd_expected (ty : Z) (new : list Z) : list Z :=
  [0; Z.of_nat (List.length new)] ++ new ++ (if Z.eqb ty 4 then [2; 2; 2; 1] else [1; 1; 1; 1]).
(* the service is stateless with respect to request texts: the value a request writes (filters on) is the value its own
   literal denotes - a function of the request text alone, not of any request handled before *)
Definition svc_values (lits : list str) : list str := map decode_literal lits.
Definition svc_expected (lits : list str) : list Z :=
  flat_map enc_str (svc_values lits) ++ map (fun _ => 1) lits ++ [1; 1].

(* ---- what the model says the implementation does ---- *)
Definition run_C04 (c : c04case) : list Z :=
  match c with
  | CStr h w => run_str h w
  | CInt h z => [0; z; 1; 1; 1]
  | CFlt h bits tb => [0; match h with HParam => bits | HLiteral => tb end; 1; 1; 1]
  | CBool h b => [0; zb b; 1; 1; 1]
  | CB64 h upd w => run_b64 h w
  | CJson h upd nf prev v => run_json h nf prev v
  | CJsonDefault txt d => [0] ++ enc_jsn (canon d)      (* Ifnull(<json>, json(?)) since 6a15d74: the default comes back as the JSON value *)
  | CUpd h ty old new => upd_expected ty new
  | CSvc lits => svc_expected lits
  | CAlias a m q qn => if ident_ok a then [1; zb (str_eqb (skeleton2 (sql_text m q) 0) (skeleton2 (sql_text m qn) 0)); 1; 1] else [0]
  | CSearch term acc => [1; if plain_term term then 1 else zb acc]
  | CDefault m q => 1 :: enc_str (sql_text m q) ++ enc_str (sql_text (neutral_model m) q)
  | CShape m q => [zb (str_eqb (sql_text m q) (sql_text m (neutral_query q)))]
  end.

(* ---- decoding ---- *)
Definition count (n : Z) (t : list Z) : option nat :=
  if Z.ltb n 0 || Z.ltb (Z.of_nat (List.length t)) n then None else Some (Z.to_nat n).
Definition dec_str (l : list Z) : option (str * list Z) :=
  match l with
  | n :: t => match count n t with
              | Some k => Some (map Z.to_N (firstn k t), skipn k t)
              | None => None
              end
  | [] => None
  end.

(* ---- the property's own oracle ---- *)
Definition spec_C04 (c : c04case) (obs : list Z) : bool :=
  match c with
  | CStr h w =>
      (* the value comes back unchanged, both equality filters find it, nothing else changed *)
      match intended h w, obs with
      | Some v, 0 :: t =>
          match dec_str t with
          | Some (_, t1) => match dec_str t1 with
                            | Some (back, [mp; ml; fr]) => str_eqb back v && Z.eqb mp 1 && Z.eqb ml 1 && Z.eqb fr 1
                            | _ => false
                            end
          | None => false
          end
      | Some _, _ => false
      | None, _ => true
      end
  | CInt h z => zlist_eqb obs [0; z; 1; 1; 1]
  | CFlt h bits tb => Z.eqb bits tb && zlist_eqb obs [0; bits; 1; 1; 1]
  | CBool h b => zlist_eqb obs [0; zb b; 1; 1; 1]
  | CB64 h upd w =>
      (* a valid text is stored, read back, found by both filters; nothing else changes *)
      if b64_valid w then zlist_eqb obs ([0] ++ enc_str w ++ [1; 1; 1]) else negb (match obs with 0 :: _ => true | _ => false end)
  | CJson h upd nf prev v =>
      (* the value read back is the assigned value (whatever the field held), the equality filter finds it,
         the neighbour field and the other rows are unchanged *)
      match v, nf with
      | JNull, false => negb (match obs with 0 :: _ => true | _ => false end)
      | _, _ => zlist_eqb obs ([0] ++ enc_jsn (canon v) ++ [json_filterable v; 1])
      end
  | CJsonDefault txt d => zlist_eqb obs ([0] ++ enc_jsn (canon d))      (* the default is the JSON value, not its text *)
  | CUpd h ty old new => zlist_eqb obs (upd_expected ty new)
  | CSvc lits => zlist_eqb obs (svc_expected lits)      (* every request round-trips its own literal *)
  | CAlias a m q qn =>
      (* an identifier the grammar accepts changes nothing but the names: same structure, accepted by the engine,
         same rows *)
      if ident_ok a then zlist_eqb obs [1; 1; 1; 1] else zlist_eqb obs [0]
  | CSearch term acc =>
      (* the statement is the same whatever the term, and the engine answers *)
      zlist_eqb obs [1; 1]
  | CDefault m q =>
      (* the text of a default value does not change the structure of the statement (compared with the statement
         the implementation compiles when every String default is the neutral `x`), and the engine accepts it *)
      match obs with
      | ok :: t => match dec_str t with
                   | Some (text, t1) => match dec_str t1 with
                                        | Some (neutral, []) => negb (Z.eqb ok 0) && str_eqb (skeleton text false) (skeleton neutral false)
                                        | _ => false
                                        end
                   | None => false
                   end
      | [] => false
      end
  | CShape m q => zlist_eqb obs [1]
      (* no character of a String literal reaches the statement *)
  end.

(* ---- classes of inputs on which the code is known to violate the property ----
   class 6 (the default of a Json field on a row lacking the member was returned as a JSON string holding the default's
   text) was repaired in 6a15d74; the four classes found on the original tree were repaired in /repo
   (1 literal escapes: cdaba75, 2 String default written into the filter SQL: 936f709,
    3 variable captured by a literal: e64e320, 4 Float literal written with Display: 043e710) *)
Definition known_C04 (c : c04case) : list Z :=
  match c with
  | CSearch term acc => if plain_term term then [] else [5]
      (* 5: the search term is handed to FTS5 as a query expression: a term that is not made of plain words
            (quotes, operators, punctuation) is read as FTS5 syntax and can be refused *)
  | _ => []
  end.

Definition eval_C04 (c : c04case) (obs : list Z) : list Z :=
  [zb (zlist_eqb (run_C04 c) obs); zb (spec_C04 c obs)] ++ known_C04 c.
