(* Run_C04.v — entry points evaluated by the correspondence harness for C04. *)
From DV Require Export Codec Sql.
Open Scope list_scope.

Inductive how := HParam | HLiteral.

Inductive c04case :=
| CStr (h : how) (w : str)
    (* a String field is set to a value: HParam: w is the value, bound as a parameter;
       HLiteral: w is the text between the quotes of a literal.  Then the row is read back, and searched with
       an equality filter, once with the value as a parameter and once with a literal *)
| CInt (h : how) (z : Z)
| CFlt (h : how) (bits : Z) (text_bits : Z)
    (* binary64 by bit pattern; text_bits = the value of the decimal literal text the harness uses for it *)
| CBool (h : how) (b : bool)
| CDefault (m : emodel) (q : query)
    (* the statement compiled for q under a model whose String defaults are arbitrary text *)
| CShape (m : emodel) (q : query).
    (* the statement compiled for q and for q with every String literal replaced by a neutral one *)

Definition enc_str (s : str) : list Z := Z.of_nat (List.length s) :: map Z.of_N s.

(* ---- String values ---- *)
(* the literal used for the value: for a parameter the harness writes the JSON escaping of the value *)
Definition literal_text (h : how) (w : str) : str := match h with HParam => json_esc w | HLiteral => w end.
(* the value the text denotes: characters denote themselves, escapes have their JSON meaning *)
Definition intended (h : how) (w : str) : option str :=
  match h with
  | HParam => Some w
  | HLiteral => option_map toks_value (lex_lit w)
  end.
(* what is stored *)
Definition stored (h : how) (w : str) : str := match h with HParam => w | HLiteral => decode_literal w end.

Definition run_str (h : how) (w : str) : list Z :=
  match intended h w with
  | None => [1]                                          (* the literal is not accepted by the grammar *)
  | Some v =>
      let st := stored h w in
      [0] ++ enc_str (json_esc st)                       (* the JSON text of the field in the _json column *)
          ++ enc_str (match json_unesc (json_esc st) with Some s => s | None => [] end)   (* read back through a query *)
          ++ [zb (str_eqb st v);                         (* found by  field = $p  with p = the value *)
              zb (str_eqb st (decode_literal (literal_text h w)));   (* found by  field = "literal" *)
              1]                                         (* nothing else changed *)
  end.

(* ---- statements ---- *)
Definition neutral_operand (o : operand) : operand :=
  match o with OLit (VStr _) => OLit (VStr [120%N]) | _ => o end.
Definition neutral_query (q : query) : query :=
  {| q_alias := q_alias q; q_sel := q_sel q;
     q_filters := map (fun f => {| fl_ref := fl_ref f; fl_op := fl_op f; fl_val := neutral_operand (fl_val f) |}) (q_filters q);
     q_order := q_order q; q_first := q_first q; q_skip := q_skip q;
     q_paging := match q_paging q with
                 | PNone => PNone
                 | PAfter vs => PAfter (map neutral_operand vs)
                 | PBefore vs => PBefore (map neutral_operand vs)
                 end |}.
Definition neutral_model (m : emodel) : emodel :=
  {| em_name := em_name m; em_short := em_short m;
     em_fields := map (fun fd => {| fd_name := fd_name fd; fd_short := fd_short fd; fd_type := fd_type fd; fd_nullable := fd_nullable fd;
                                    fd_default := match fd_default fd with Some (VStr _) => Some (VStr [120%N]) | d => d end |}) (em_fields m) |}.
Definition sql_text (m : emodel) (q : query) : str := norm_ws (print m (snd (compile m q))).

(* the structure of a statement: everything outside string literals; a literal '...' ('' inside it is an
   escaped quote) is reduced to '' *)
Fixpoint skeleton (l : str) (inside : bool) : str :=
  match l with
  | [] => []
  | c :: t =>
      if inside then
        if N.eqb c 39 then
          match t with
          | 39%N :: t' => skeleton t' true
          | _ => 39%N :: skeleton t false
          end
        else skeleton t true
      else if N.eqb c 39 then 39%N :: skeleton t true else c :: skeleton t false
  end.

(* ---- what the model says the implementation does ---- *)
Definition run_C04 (c : c04case) : list Z :=
  match c with
  | CStr h w => run_str h w
  | CInt h z => [0; z; 1; 1; 1]
  | CFlt h bits tb => [0; match h with HParam => bits | HLiteral => tb end; 1; 1; 1]
  | CBool h b => [0; zb b; 1; 1; 1]
  | CDefault m q => 1 :: enc_str (sql_text m q) ++ enc_str (sql_text (neutral_model m) q)
  | CShape m q => [zb (str_eqb (sql_text m q) (sql_text m (neutral_query q)))]
  end.

(* ---- decoding ---- *)
Definition count (n : Z) (t : list Z) : option nat :=
  if Z.ltb n 0 || Z.ltb (Z.of_nat (List.length t)) n then None else Some (Z.to_nat n).
Definition dec_str (l : list Z) : option (str * list Z) :=
  match l with
  | n :: t => match count n t with
              | Some k => Some (map Z.to_N (firstn k t), skipn k t)
              | None => None
              end
  | [] => None
  end.

(* ---- the property's own oracle ---- *)
Definition spec_C04 (c : c04case) (obs : list Z) : bool :=
  match c with
  | CStr h w =>
      (* the value comes back unchanged, both equality filters find it, nothing else changed *)
      match intended h w, obs with
      | Some v, 0 :: t =>
          match dec_str t with
          | Some (_, t1) => match dec_str t1 with
                            | Some (back, [mp; ml; fr]) => str_eqb back v && Z.eqb mp 1 && Z.eqb ml 1 && Z.eqb fr 1
                            | _ => false
                            end
          | None => false
          end
      | Some _, _ => false
      | None, _ => true
      end
  | CInt h z => zlist_eqb obs [0; z; 1; 1; 1]
  | CFlt h bits tb => Z.eqb bits tb && zlist_eqb obs [0; bits; 1; 1; 1]
  | CBool h b => zlist_eqb obs [0; zb b; 1; 1; 1]
  | CDefault m q =>
      (* the text of a default value does not change the structure of the statement (compared with the statement
         the implementation compiles when every String default is the neutral "x"), and the engine accepts it *)
      match obs with
      | ok :: t => match dec_str t with
                   | Some (text, t1) => match dec_str t1 with
                                        | Some (neutral, []) => negb (Z.eqb ok 0) && str_eqb (skeleton text false) (skeleton neutral false)
                                        | _ => false
                                        end
                   | None => false
                   end
      | [] => false
      end
  | CShape m q => zlist_eqb obs [1]
      (* no character of a String literal reaches the statement *)
  end.

(* ---- classes of inputs on which the code is known to violate the property ----
   none is left: the four classes found on the original tree were repaired in /repo
   (1 literal escapes: cdaba75, 2 String default written into the filter SQL: 936f709,
    3 variable captured by a literal: e64e320, 4 Float literal written with Display: 043e710) *)
Definition known_C04 (c : c04case) : list Z := [].

Definition eval_C04 (c : c04case) (obs : list Z) : list Z :=
  [zb (zlist_eqb (run_C04 c) obs); zb (spec_C04 c obs)] ++ known_C04 c.
