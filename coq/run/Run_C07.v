(* Run_C07.v — entry points evaluated by the correspondence harness for C07.
   run_C07  : what the model says prepare_room_node (+ parse of the accepted definition) observes;
   spec_C07 : the property's own oracle, judged on what the IMPLEMENTATION did: it looks only at
              the stored definition, the entries / references the implementation kept, and the
              decisions of the resulting room, and is written over RightsSpec (event histories,
              "entry in force at a date"), not over the model of room_node.rs;
   known_C07: classes of inputs on which the unchanged tree is known to violate the property. *)
From DV Require Export RightsSpec RoomNode.

Definition probe := (key * entity * Z)%type.

(* [old] is the definition the peer already holds, every list in insertion (ascending) order; the
   room in memory is its parse, the stored form handed to prepare_room_node is its read order.
   CPrep: prepare_room_node called directly; CE2E: the same through add_room_node on an instance *)
Inductive c07case :=
| CPrep (old : option roomnode) (cand : roomnode) (probes : list probe)
| CE2E (old : option roomnode) (cand : roomnode) (probes : list probe)
(* the validly signed definition [cand] went through the signature verification first; then a copy of it in
   which row / reference number [k] was tampered with (one field changed, or other content under a copied
   key and signature) is submitted to the same verification: signatures bind the content (symbolic
   signatures), the copy is refused before prepare_room_node is reached *)
| CForged (cand : roomnode) (k : N).

(* ------------------------------------------------------------------ flat view of a definition *)
(* kinds: 1 admin entry, 2 user entry, 3 user-admin entry, 4 right entry, 5 group row *)
Record sent := { s_kind : Z; s_g : Z; s_id : Z; s_date : Z; s_author : Z; s_a : Z; s_b : Z; s_c : Z; s_cd : Z }.
Record sedge := { se_kind : Z; se_g : Z; se_src : Z; se_label : Z; se_dest : Z; se_date : Z; se_author : Z }.

Definition sent_u (kind : Z) (g : uid) (n : unode) : sent :=
  {| s_kind := kind; s_g := zn g; s_id := zn (un_id n); s_date := un_date n; s_author := zn (un_author n);
     s_a := zn (un_key n); s_b := zb (un_enabled n); s_c := 0; s_cd := un_cdate n |}.
Definition sent_r (g : uid) (n : rnode) : sent :=
  {| s_kind := 4; s_g := zn g; s_id := zn (rn_id n); s_date := rn_date n; s_author := zn (rn_author n);
     s_a := zn (rn_ent n); s_b := zb (rn_self n); s_c := zb (rn_all n); s_cd := rn_cdate n |}.
Definition sent_g (a : anode) : sent :=
  {| s_kind := 5; s_g := 0; s_id := zn (an_id a); s_date := an_date a; s_author := zn (an_author a);
     s_a := 0; s_b := 0; s_c := 0; s_cd := 0 |}.
Definition sedge_of (kind : Z) (g : uid) (e : edge) : sedge :=
  {| se_kind := kind; se_g := zn g; se_src := zn (e_src e); se_label := zn (e_label e);
     se_dest := zn (e_dest e); se_date := e_date e; se_author := zn (e_author e) |}.

Definition sents_of_auth (a : anode) : list sent :=
  sent_g a :: map (sent_u 2 (an_id a)) (an_unodes a) ++ map (sent_u 3 (an_id a)) (an_anodes a)
           ++ map (sent_r (an_id a)) (an_rnodes a).
Definition sents_of (n : roomnode) : list sent :=
  map (sent_u 1 0%N) (rmn_anodes n) ++ flat_map sents_of_auth (rmn_gnodes n).
Definition sedges_of_auth (a : anode) : list sedge :=
  map (sedge_of 2 (an_id a)) (an_uedges a) ++ map (sedge_of 3 (an_id a)) (an_aedges a)
  ++ map (sedge_of 4 (an_id a)) (an_redges a).
Definition sedges_of (n : roomnode) : list sedge :=
  map (sedge_of 1 0%N) (rmn_aedges n) ++ map (sedge_of 5 0%N) (rmn_gedges n)
  ++ flat_map sedges_of_auth (rmn_gnodes n).

Definition enc_sent (x : sent) : list Z :=
  [s_kind x; s_g x; s_id x; s_date x; s_author x; s_a x; s_b x; s_c x; s_cd x].
Definition enc_sedge (e : sedge) : list Z :=
  [se_kind e; se_g e; se_src e; se_label e; se_dest e; se_date e; se_author e].
Definition zlen {A} (l : list A) : Z := Z.of_nat (length l).

Definition encode_result (n : roomnode) : list Z :=
  zlen (sents_of n) :: flat_map enc_sent (sents_of n) ++
  zlen (sedges_of n) :: flat_map enc_sedge (sedges_of n).

(* ------------------------------------------------------------------ what the model says *)
Definition known_room (old : option roomnode) : option (pres room) := option_map parse_room old.

Definition run_with (full : bool) (old : option roomnode) (cand : roomnode) (probes : list probe) : list Z :=
  let go (known : option room) :=
    match prepare_room_node known (option_map read_order old) cand with
    | PErr e => [perr_code e]
    | POk (false, _) => [0]
    | POk (true, res) =>
        1 :: (if full then encode_result res else []) ++
        match parse_room res with POk r => decisions r probes | PErr _ => [] end
    end in
  match known_room old with
  | None => go None
  | Some (POk r) => go (Some r)
  | Some (PErr _) => [-1]                 (* not a definition a peer can hold *)
  end.

Definition run_C07 (c : c07case) : list Z :=
  match c with
  | CPrep old cand probes => run_with true old cand probes
  | CE2E old cand probes => run_with false old cand probes
  | CForged _ _ => [200]
  end.

(* ------------------------------------------------------------------ the property's oracle *)
Definition sent_eqb (x y : sent) : bool :=
  Z.eqb (s_kind x) (s_kind y) && Z.eqb (s_g x) (s_g y) && Z.eqb (s_id x) (s_id y) &&
  Z.eqb (s_date x) (s_date y) && Z.eqb (s_author x) (s_author y) && Z.eqb (s_a x) (s_a y) &&
  Z.eqb (s_b x) (s_b y) && Z.eqb (s_c x) (s_c y) && Z.eqb (s_cd x) (s_cd y).
Definition sedge_eqb (x y : sedge) : bool :=
  Z.eqb (se_kind x) (se_kind y) && Z.eqb (se_g x) (se_g y) && Z.eqb (se_src x) (se_src y) &&
  Z.eqb (se_label x) (se_label y) && Z.eqb (se_dest x) (se_dest y) && Z.eqb (se_date x) (se_date y) &&
  Z.eqb (se_author x) (se_author y).
Definition same_place (x y : sent) : bool :=
  Z.eqb (s_kind x) (s_kind y) && Z.eqb (s_g x) (s_g y) && Z.eqb (s_id x) (s_id y).

Definition zbool (z : Z) : bool := negb (Z.eqb z 0).
Definition ev_of (x : sent) : list event :=
  let k := Z.to_N (s_a x) in let g := Z.to_N (s_g x) in
  if Z.eqb (s_kind x) 1 then [EvAdmin k (s_date x) (zbool (s_b x))]
  else if Z.eqb (s_kind x) 2 then [EvUser g k (s_date x) (zbool (s_b x))]
  else if Z.eqb (s_kind x) 3 then [EvUAdmin g k (s_date x) (zbool (s_b x))]
  else if Z.eqb (s_kind x) 4 then [EvRight g k (s_date x) (zbool (s_b x)) (zbool (s_c x))]
  else if Z.eqb (s_kind x) 5 then [EvGroup (Z.to_N (s_id x))]
  else [].
Definition evs_of (l : list sent) : list event := flat_map ev_of l.
Definition of_kind (k : Z) (l : list sent) : list sent := filter (fun x => Z.eqb (s_kind x) k) l.

Definition label_of (kind : Z) : Z :=
  if Z.eqb kind 1 then 32 else if Z.eqb kind 2 then 34 else if Z.eqb kind 3 then 35
  else if Z.eqb kind 4 then 33 else 33.
Definition container (room_id : Z) (x : sent) : Z :=
  if Z.eqb (s_kind x) 1 || Z.eqb (s_kind x) 5 then room_id else s_g x.

(* "authored for that room and that place": the entry is attached to its list by a reference
   from that room / group, under that list's field, signed by the entry's own author *)
Definition placed (room_id : Z) (admins : list event) (edges : list sedge) (x : sent) : bool :=
  existsb (fun e => Z.eqb (se_kind e) (s_kind x) && Z.eqb (se_g e) (s_g x) &&
                    Z.eqb (se_src e) (container room_id x) && Z.eqb (se_dest e) (s_id x) &&
                    Z.eqb (se_label e) (label_of (s_kind x)) &&
                    (* entries are immutable rows: the reference is by the entry's author; a group row
                       can be re-signed later: its reference is by a key that was administrator then *)
                    (if Z.eqb (s_kind x) 5 then admin_at admins (Z.to_N (se_author e)) (se_date e)
                     else Z.eqb (se_author e) (s_author x))) edges.

(* a reference from that room / group, under the field of the list, points to the entry - whoever signed it
   (what check_placed of cd32c02 enforces on every row of a candidate) *)
Definition placed_field (room_id : Z) (edges : list sedge) (x : sent) : bool :=
  existsb (fun e => Z.eqb (se_kind e) (s_kind x) && Z.eqb (se_g e) (s_g x) &&
                    Z.eqb (se_src e) (container room_id x) && Z.eqb (se_dest e) (s_id x) &&
                    Z.eqb (se_label e) (label_of (s_kind x))) edges.

(* administrators justify one another in date order; [base] are the entries that need no
   justification (the ones the peer already holds / the creator's own entries of a new room) *)
Fixpoint admins_justified (acc : list event) (is_base : sent -> bool) (l : list sent) : bool :=
  match l with
  | [] => true
  | x :: tl =>
      if is_base x then admins_justified acc is_base tl
      else admin_at acc (Z.to_N (s_author x)) (s_date x) && admins_justified (acc ++ ev_of x) is_base tl
  end.

(* the creator's own administrator entries of a room never seen before *)
Definition bootstrap (cdate : Z) (x : sent) : bool :=
  Z.eqb (s_kind x) 1 && Z.eqb (s_author x) (s_a x) && Z.eqb (s_date x) cdate && zbool (s_b x).

Definition is_base (fresh : bool) (cdate : Z) (olds : list sent) (x : sent) : bool :=
  if fresh then bootstrap cdate x else existsb (sent_eqb x) olds.

(* date order; within one date the revocations first: a key revoked at date d is not entitled at d *)
Definition admin_order (x : sent) : Z := 2 * s_date x + s_b x.
Definition admins_ok (fresh : bool) (cdate : Z) (olds res : list sent) : bool :=
  let ads := sort_by admin_order (of_kind 1 res) in
  admins_justified (evs_of (filter (is_base fresh cdate olds) ads)) (is_base fresh cdate olds) ads.

(* a new (or re-signed) non-administrator entry: its author must be entitled at the entry's date *)
Definition entitled (res : list sent) (x : sent) : bool :=
  let adm := admin_at (evs_of (of_kind 1 res)) (Z.to_N (s_author x)) (s_date x) in
  if Z.eqb (s_kind x) 2 then
    adm || uadmin_at (evs_of (of_kind 3 res)) (Z.to_N (s_g x)) (Z.to_N (s_author x)) (s_date x)
  else if Z.eqb (s_kind x) 1 then true        (* administrators: admins_ok *)
  else adm.

Definition needs_place (olds : list sent) (x : sent) : bool :=
  negb (Z.eqb (s_kind x) 5 && existsb (same_place x) olds).   (* a re-signed group row keeps its reference *)

Definition probe_spec (evs : list event) (p : probe) : list Z :=
  let '(k, e, d) := p in
  [zb (granted evs k e d MutateSelf); zb (granted evs k e d MutateAll); zb (admin_at evs k d);
   zb (admin_at evs k d || existsb (fun g => member_at evs g k d) (groups evs));
   zb (existsb (fun g => uadmin_at evs g k d) (groups evs))].

Definition monotone (olds res : list sent) (oldes edges : list sedge) : bool :=
  forallb (fun o => if Z.eqb (s_kind o) 5 then existsb (same_place o) res else existsb (sent_eqb o) res) olds &&
  forallb (fun oe => existsb (sedge_eqb oe) edges) oldes.

Definition new_entries (olds res : list sent) : list sent := filter (fun x => negb (existsb (sent_eqb x) olds)) res.

Definition spec_core (fresh : bool) (room_id cdate : Z) (olds : list sent) (oldes : list sedge)
           (res : list sent) (edges : list sedge) (probes : list probe) (dec : list Z) : bool :=
  monotone olds res oldes edges &&
  forallb (fun x => (negb (needs_place olds x) || placed room_id (evs_of (of_kind 1 res)) edges x) && entitled res x) (new_entries olds res) &&
  admins_ok fresh cdate olds res &&
  zlist_eqb dec (flat_map (probe_spec (evs_of res)) probes).

(* decoding of the observation *)
Fixpoint take {A} (n : nat) (l : list A) : list A := match n, l with S k, x :: t => x :: take k t | _, _ => [] end.
Fixpoint dropn {A} (n : nat) (l : list A) : list A := match n, l with S k, _ :: t => dropn k t | _, _ => l end.
Fixpoint chunk {A} (fuel k : nat) (l : list A) : list (list A) :=
  match fuel with O => [] | S f => take k l :: chunk f k (dropn k l) end.
Definition dec_sent (l : list Z) : option sent :=
  match l with
  | [a; b; c; d; e; f; g; h; i] => Some {| s_kind := a; s_g := b; s_id := c; s_date := d; s_author := e; s_a := f; s_b := g; s_c := h; s_cd := i |}
  | _ => None end.
Definition dec_sedge (l : list Z) : option sedge :=
  match l with
  | [a; b; c; d; e; f; g] => Some {| se_kind := a; se_g := b; se_src := c; se_label := d; se_dest := e; se_date := f; se_author := g |}
  | _ => None end.
Fixpoint all_some {A} (l : list (option A)) : option (list A) :=
  match l with
  | [] => Some []
  | Some x :: tl => match all_some tl with Some r => Some (x :: r) | None => None end
  | None :: _ => None
  end.
(* [n; n*9 ints; m; m*7 ints; rest] *)
Definition decode_result (l : list Z) : option (list sent * list sedge * list Z) :=
  match l with
  | [] => None
  | n :: t1 =>
      let n' := Z.to_nat n in
      match all_some (map dec_sent (chunk n' 9 t1)) with
      | None => None
      | Some es =>
          match dropn (n' * 9) t1 with
          | [] => None
          | m :: t2 =>
              let m' := Z.to_nat m in
              match all_some (map dec_sedge (chunk m' 7 t2)) with
              | None => None
              | Some eds => Some (es, eds, dropn (m' * 7) t2)
              end
          end
      end
  end.

Definition old_sents (old : option roomnode) : list sent := match old with Some o => sents_of o | None => [] end.
Definition old_sedges (old : option roomnode) : list sedge := match old with Some o => sedges_of o | None => [] end.
Definition is_fresh (old : option roomnode) : bool := match old with Some _ => false | None => true end.

(* what the definition amounts to when the candidate is merged into the stored one, as sets *)
Definition union_sents (olds cands : list sent) : list sent := olds ++ new_entries olds cands.
Definition union_sedges (oldes cands : list sedge) : list sedge :=
  oldes ++ filter (fun e => negb (existsb (sedge_eqb e) oldes)) cands.

Definition spec_C07 (c : c07case) (obs : list Z) : bool :=
  match c with
  | CPrep old cand probes =>
      match obs with
      | 1 :: rest =>
          match decode_result rest with
          | Some (res, edges, dec) =>
              spec_core (is_fresh old) (zn (rmn_id cand)) (rmn_cdate cand) (old_sents old) (old_sedges old)
                        res edges probes dec
          | None => false
          end
      | _ => true      (* refused, or nothing to write: stored definition and room in memory stay *)
      end
  | CE2E old cand probes =>
      match obs with
      | 1 :: dec =>
          spec_core (is_fresh old) (zn (rmn_id cand)) (rmn_cdate cand) (old_sents old) (old_sedges old)
                    (union_sents (old_sents old) (sents_of cand))
                    (union_sedges (old_sedges old) (sedges_of cand)) probes dec
      | _ => true
      end
  | CForged _ _ => zlist_eqb obs [200]        (* a row whose content is not the signed one is never attributed to the signer *)
  end.

(* ------------------------------------------------------------------ known-finding classes *)
Definition case_old (c : c07case) := match c with CPrep o _ _ | CE2E o _ _ => o | CForged n _ => Some n end.
Definition case_cand (c : c07case) := match c with CPrep _ n _ | CE2E _ n _ | CForged n _ => n end.

(* class 1: a new entry of the candidate IS referenced from this room / group under the field of the
            list it is put in, but by no reference of its own author (for a group row: of a key that
            was administrator at the reference's date): the signer of a placing reference is not
            looked at (self-signed or foreign-signed reference under the right field).  The other
            variants of the former class 1 (no reference at all, reference of another field) are
            refused since cd32c02 and are no part of the class any more.
   class 2: a room never seen before whose administrator entries do not justify one another in
            date order from the creator's own entries (prepare_new_room asks the fully parsed
            candidate, which already contains the entry that is being judged)
   class 3: repaired by 85b1827 (user-admin entries of a group new to the peer), no class any more
   class 4: repaired by cd32c02 (two rows with one id in a list), no class any more
   class 5: (update path) a new administrator entry x and a new entry revoking x's author carry the SAME date
            and x is listed before the revocation: the sort by date is stable, x is judged while its author
            is still enabled *)
Fixpoint tie_before (l : list sent) : bool :=
  match l with
  | [] => false
  | x :: tl => existsb (fun y => Z.eqb (s_b y) 0 && Z.eqb (s_a y) (s_author x) && Z.eqb (s_date y) (s_date x)) tl || tie_before tl
  end.
Definition known_C07 (c : c07case) : list Z :=
  let old := case_old c in let cand := case_cand c in
  let olds := old_sents old in
  let res := union_sents olds (sents_of cand) in
  let edges := union_sedges (old_sedges old) (sedges_of cand) in
  let news := new_entries olds (sents_of cand) in
  let rid := zn (rmn_id cand) in
  (if existsb (fun x => needs_place olds x && placed_field rid edges x &&
                        negb (placed rid (evs_of (of_kind 1 res)) edges x)) news then [1] else []) ++
  (if is_fresh old && negb (admins_ok true (rmn_cdate cand) [] (sents_of cand)) then [2] else []) ++
  (if negb (is_fresh old) && tie_before (filter (fun x => negb (existsb (sent_eqb x) olds)) (of_kind 1 (sents_of cand))) then [5] else []).

Definition eval_C07 (c : c07case) (obs : list Z) : list Z :=
  [zb (zlist_eqb (run_C07 c) obs); zb (spec_C07 c obs)] ++ known_C07 c.
