(* C06P.v — proofs for C06 (digest layouts: injectivity of the signed encoding). *)
From DV Require Import Digest DigestLayouts Run_C06.
From Coq Require Import Lia.
Local Open Scope N_scope.

(* ------------------------------------------------------------------ bytes *)
Lemma nb_bn : forall b, nb (bn b) = b.
Proof. intro b. unfold nb, bn. rewrite Byte.of_to_N. reflexivity. Qed.

Lemma bn_nb : forall n, n < 256 -> bn (nb n) = n.
Proof.
  intros n Hn. unfold nb, bn.
  destruct (Byte.of_N n) as [b|] eqn:E.
  - apply Byte.to_of_N. exact E.
  - apply Byte.of_N_None_iff in E. lia.
Qed.

Lemma bn_lt : forall b, bn b < 256.
Proof. intro b. unfold bn. pose proof (Byte.to_N_bounded b). lia. Qed.

Lemma bn_inj : forall a b, bn a = bn b -> a = b.
Proof. intros a b H. rewrite <- (nb_bn a), <- (nb_bn b), H. reflexivity. Qed.

Lemma byte_eqb_eq : forall a b, Byte.eqb a b = true <-> a = b.
Proof. intros a b. split; [apply Byte.byte_dec_bl | apply Byte.byte_dec_lb]. Qed.

Lemma list_eqb_eq : forall {A} (e : A -> A -> bool),
  (forall a b, e a b = true <-> a = b) -> forall l1 l2, list_eqb e l1 l2 = true <-> l1 = l2.
Proof.
  intros A e He l1. induction l1 as [|x t IH]; intros [|y u]; cbn [list_eqb]; split; intro H;
    try reflexivity; try discriminate.
  - apply andb_true_iff in H. destruct H as [H1 H2]. apply He in H1. apply IH in H2. congruence.
  - inversion H; subst. apply andb_true_iff. split; [apply He; reflexivity | apply IH; reflexivity].
Qed.

Lemma bytes_eqb_eq : forall a b, bytes_eqb a b = true <-> a = b.
Proof. apply list_eqb_eq. apply byte_eqb_eq. Qed.

Lemma fval_eqb_eq : forall a b, fval_eqb a b = true <-> a = b.
Proof.
  intros [x|x|] [y|y|]; cbn [fval_eqb]; split; intro H; try discriminate; try reflexivity.
  - apply bytes_eqb_eq in H. congruence.
  - inversion H. apply bytes_eqb_eq. reflexivity.
  - apply Z.eqb_eq in H. congruence.
  - inversion H. apply Z.eqb_eq. reflexivity.
Qed.

Lemma row_eqb_eq : forall a b, row_eqb a b = true <-> a = b.
Proof. apply list_eqb_eq. apply fval_eqb_eq. Qed.

(* ------------------------------------------------------------------ lists *)
Lemma app_eq_len : forall {A} (a b c d : list A),
  length a = length b -> a ++ c = b ++ d -> a = b /\ c = d.
Proof.
  intros A a. induction a as [|x a IH]; intros [|y b] c d Hl H; cbn in *; try discriminate.
  - split; [reflexivity | exact H].
  - inversion H; subst. inversion Hl as [Hl'].
    destruct (IH b c d Hl' H2) as [E1 E2]. subst. split; reflexivity.
Qed.

Lemma app_comparable : forall a b r r', a ++ r = b ++ r' -> comparable a b = true.
Proof.
  unfold comparable.
  intros a. induction a as [|x a IH]; intros b r r' H.
  - reflexivity.
  - destruct b as [|y b].
    + reflexivity.
    + cbn in H. inversion H; subst. cbn [is_prefix].
      assert (E : Byte.eqb y y = true) by (apply byte_eqb_eq; reflexivity).
      rewrite E. cbn [andb]. exact (IH b r r' H2).
Qed.

(* ------------------------------------------------------------------ little-endian integers *)
Lemma le_bytes_length : forall k n, length (le_bytes k n) = k.
Proof. induction k as [|k IH]; intro n; cbn [le_bytes length]; [reflexivity | rewrite IH; reflexivity]. Qed.

Lemma le_bytes_mod : forall k n m, le_bytes k n = le_bytes k m -> n mod 256 ^ N.of_nat k = m mod 256 ^ N.of_nat k.
Proof.
  induction k as [|k IH]; intros n m H.
  - cbn. rewrite !N.mod_1_r. reflexivity.
  - cbn [le_bytes] in H. inversion H as [[H1 H2]].
    assert (E1 : n mod 256 = m mod 256).
    { rewrite <- (bn_nb (n mod 256)) by (apply N.mod_lt; lia).
      rewrite <- (bn_nb (m mod 256)) by (apply N.mod_lt; lia). rewrite H1. reflexivity. }
    apply IH in H2.
    replace (N.of_nat (S k)) with (N.succ (N.of_nat k)) by lia.
    rewrite N.pow_succ_r'.
    assert (P : 256 ^ N.of_nat k <> 0) by (apply N.pow_nonzero; lia).
    rewrite !N.mod_mul_r by (try exact P; lia).
    rewrite E1, H2. reflexivity.
Qed.

Lemma le_bytes_inj : forall k n m, n < 256 ^ N.of_nat k -> m < 256 ^ N.of_nat k ->
  le_bytes k n = le_bytes k m -> n = m.
Proof.
  intros k n m Hn Hm H. apply le_bytes_mod in H.
  rewrite !N.mod_small in H by assumption. exact H.
Qed.

Lemma pow256_8 : 256 ^ N.of_nat 8 = 18446744073709551616.
Proof. reflexivity. Qed.

Lemma i64_le_length : forall z, length (i64_le z) = 8%nat.
Proof. intro z. apply le_bytes_length. Qed.

Lemma i64_le_inj : forall z z',
  (- two63 <= z < two63)%Z -> (- two63 <= z' < two63)%Z -> i64_le z = i64_le z' -> z = z'.
Proof.
  unfold i64_le, two63. intros z z' Hz Hz' H.
  assert (B : forall x, (0 <= x mod two64 < two64)%Z) by (intro x; apply Z.mod_pos_bound; reflexivity).
  pose proof (B z) as B1. pose proof (B z') as B2.
  apply le_bytes_inj in H.
  - assert (E : (z mod two64 = z' mod two64)%Z).
    { apply Z2N.inj; [apply B1 | apply B2 | exact H]. }
    pose proof (Z.div_mod z two64 ltac:(discriminate)) as D1.
    pose proof (Z.div_mod z' two64 ltac:(discriminate)) as D2.
    rewrite E in D1.
    remember (z / two64)%Z as q. remember (z' / two64)%Z as q'. remember (z' mod two64)%Z as m.
    unfold two64 in *. lia.
  - rewrite pow256_8. unfold two64 in *. lia.
  - rewrite pow256_8. unfold two64 in *. lia.
Qed.

(* ------------------------------------------------------------------ JSON quoting is injective *)
Definition allN : list N := map N.of_nat (seq 0 256).
Definition all_bytes : list byte := map nb allN.

Lemma all_bytes_in : forall b, In b all_bytes.
Proof.
  intro b. rewrite <- (nb_bn b). unfold all_bytes. apply in_map.
  unfold allN. rewrite <- (N2Nat.id (bn b)). apply in_map. apply in_seq.
  pose proof (bn_lt b). lia.
Qed.

Definition esc_table_ok : bool :=
  forallb (fun a => forallb (fun b => implb (comparable (json_esc a) (json_esc b)) (Byte.eqb a b)) all_bytes) all_bytes.

Lemma esc_table : esc_table_ok = true.
Proof. vm_cast_no_check (eq_refl true). Qed.

Lemma esc_prefix_free : forall a b r r', json_esc a ++ r = json_esc b ++ r' -> a = b /\ r = r'.
Proof.
  intros a b r r' H.
  pose proof (app_comparable _ _ _ _ H) as C.
  pose proof esc_table as T. unfold esc_table_ok in T.
  rewrite forallb_forall in T. specialize (T a (all_bytes_in a)).
  rewrite forallb_forall in T. specialize (T b (all_bytes_in b)).
  rewrite C in T. cbn [implb] in T. apply byte_eqb_eq in T. subst b.
  split; [reflexivity | exact (app_inv_head _ _ _ H)].
Qed.

Lemma flat_esc_inj : forall s t, flat_map json_esc s = flat_map json_esc t -> s = t.
Proof.
  induction s as [|a s IH]; intros [|b t] H; cbn [flat_map] in H.
  - reflexivity.
  - exfalso. assert (L : length (json_esc b ++ flat_map json_esc t) = 0%nat) by (rewrite <- H; reflexivity).
    rewrite app_length in L.
    assert (length (json_esc b) <> 0)%nat.
    { unfold json_esc. repeat match goal with |- context [if ?c then _ else _] => destruct c end; cbn; lia. }
    lia.
  - exfalso. assert (L : length (json_esc a ++ flat_map json_esc s) = 0%nat) by (rewrite H; reflexivity).
    rewrite app_length in L.
    assert (length (json_esc a) <> 0)%nat.
    { unfold json_esc. repeat match goal with |- context [if ?c then _ else _] => destruct c end; cbn; lia. }
    lia.
  - apply esc_prefix_free in H. destruct H as [E H]. subst. f_equal. apply IH. exact H.
Qed.

Lemma json_quote_inj : forall s t, json_quote s = json_quote t -> s = t.
Proof.
  unfold json_quote. intros s t H. inversion H as [H1].
  apply app_inj_tail in H1. destruct H1 as [H1 _]. apply flat_esc_inj. exact H1.
Qed.

(* ------------------------------------------------------------------ one field *)
Lemma wf_simple_not_none : forall f, wf_simple f VNone = false.
Proof. intros []; reflexivity. Qed.

(* a simple field is injective on its own bytes *)
Lemma simple_full_inj : forall g v v', simple g = true ->
  wf_simple g v = true -> wf_simple g v' = true -> enc_field g v = enc_field g v' -> v = v'.
Proof.
  intros g v v' Hs W W' E.
  destruct g; try discriminate Hs;
    destruct v as [b|z|]; try discriminate W; destruct v' as [b'|z'|]; try discriminate W';
    cbn [enc_field] in E.
  - congruence.
  - cbn [wf_simple] in W, W'. f_equal. apply i64_le_inj; try exact E.
    + apply andb_true_iff in W. destruct W as [W1 W2]. apply Z.leb_le in W1. apply Z.ltb_lt in W2. lia.
    + apply andb_true_iff in W'. destruct W' as [W1 W2]. apply Z.leb_le in W1. apply Z.ltb_lt in W2. lia.
  - congruence.
  - apply json_quote_inj in E. congruence.
  - congruence.
  - congruence.
Qed.

Lemma enc_opt_present : forall g v, v <> VNone -> enc_field (Opt g) v = enc_field g v.
Proof. intros g [b|z|] H; try reflexivity. congruence. Qed.
Lemma enc_flag_present : forall g v, v <> VNone -> enc_field (Flagged g) v = x01 :: enc_field g v.
Proof. intros g [b|z|] H; try reflexivity. congruence. Qed.

Lemma wf_present : forall g v, wf_simple g v = true -> v <> VNone.
Proof. intros g v W E. subst. rewrite wf_simple_not_none in W. discriminate. Qed.

Lemma len_lt_inj : forall a b : list byte,
  N.of_nat (length a) < 18446744073709551616 -> N.of_nat (length b) < 18446744073709551616 ->
  forall r r', le_bytes 8 (N.of_nat (length a)) ++ a ++ r = le_bytes 8 (N.of_nat (length b)) ++ b ++ r' ->
  a = b /\ r = r'.
Proof.
  intros a b Ha Hb r r' H.
  apply app_eq_len in H; [|rewrite !le_bytes_length; reflexivity].
  destruct H as [H1 H2].
  apply le_bytes_inj in H1; try (rewrite pow256_8; assumption).
  apply app_eq_len in H2; [exact H2 | lia].
Qed.

(* same shape: the field value is determined by its bytes, whatever follows *)
Lemma field_shape_inj : forall f v v' r r',
  wf_field f v = true -> wf_field f v' = true -> fshape f v = fshape f v' ->
  enc_field f v ++ r = enc_field f v' ++ r' -> v = v' /\ r = r'.
Proof.
  intros f v v' r r' W W' S E.
  assert (Len : v <> VNone -> v' <> VNone -> length (enc_field f v) = length (enc_field f v')).
  { intros N1 N2. unfold fshape in S. destruct v; destruct v'; try congruence; lia. }
  assert (Mixed1 : v = VNone -> v' = VNone).
  { intro; subst. unfold fshape in S. destruct v'; try reflexivity; lia. }
  assert (Mixed2 : v' = VNone -> v = VNone).
  { intro; subst. unfold fshape in S. destruct v; try reflexivity; lia. }
  destruct f as [n| |ne| | | |g|g|g].
  1-6: (pose proof (wf_present _ _ W) as N1; pose proof (wf_present _ _ W') as N2;
        destruct (app_eq_len _ _ _ _ (Len N1 N2) E) as [E1 E2]; split; [|exact E2];
        cbn [wf_field] in W, W'; refine (simple_full_inj _ _ _ _ W W' E1); reflexivity).
  - (* Opt *)
    cbn [wf_field] in W, W'. apply andb_true_iff in W. destruct W as [Sg W]. apply andb_true_iff in W'. destruct W' as [_ W'].
    destruct v as [b|z|] eqn:Ev.
    3:{ rewrite (Mixed1 eq_refl) in *. cbn [enc_field] in E. split; [reflexivity | exact E]. }
    all: destruct v' as [b'|z'|] eqn:Ev'; try (specialize (Mixed2 eq_refl); discriminate Mixed2).
    all: rewrite !enc_opt_present in E, Len by discriminate;
         destruct (app_eq_len _ _ _ _ (Len ltac:(discriminate) ltac:(discriminate)) E) as [E1 E2]; split; [|exact E2];
         eapply simple_full_inj; [exact Sg | exact W | exact W' | exact E1].
  - (* Flagged *)
    cbn [wf_field] in W, W'. apply andb_true_iff in W. destruct W as [Sg W]. apply andb_true_iff in W'. destruct W' as [_ W'].
    destruct v as [b|z|] eqn:Ev.
    3:{ rewrite (Mixed1 eq_refl) in *. cbn [enc_field] in E. inversion E. split; reflexivity. }
    all: destruct v' as [b'|z'|] eqn:Ev'; try (specialize (Mixed2 eq_refl); discriminate Mixed2).
    all: rewrite !enc_flag_present in E, Len by discriminate;
         cbn [app] in E; inversion E as [E0];
         assert (L : length (enc_field g v) = length (enc_field g v')) by
           (subst v v'; specialize (Len ltac:(discriminate) ltac:(discriminate)); cbn [length] in Len; lia);
         subst v v';
         destruct (app_eq_len _ _ _ _ L E0) as [E1 E2]; split; [|exact E2];
         eapply simple_full_inj; [exact Sg | exact W | exact W' | exact E1].
  - (* LenPref *)
    cbn [wf_field] in W, W'.
    apply andb_true_iff in W. destruct W as [W Wl]. apply andb_true_iff in W. destruct W as [Sg W].
    apply andb_true_iff in W'. destruct W' as [W' Wl']. apply andb_true_iff in W'. destruct W' as [_ W'].
    apply N.ltb_lt in Wl, Wl'.
    cbn [enc_field] in E. rewrite <- !app_assoc in E.
    destruct (len_lt_inj _ _ Wl Wl' _ _ E) as [E1 E2]. split; [|exact E2].
    eapply simple_full_inj; [exact Sg | exact W | exact W' | exact E1].
Qed.

(* self-delimiting fields *)
Lemma sd_inj : forall f v v' r r', sd f = true ->
  wf_field f v = true -> wf_field f v' = true ->
  enc_field f v ++ r = enc_field f v' ++ r' -> v = v' /\ r = r'.
Proof.
  intros f v v' r r' Hsd W W' E.
  assert (Base : forall g, (match g with Fixed _ | I64le | Key => true | _ => false end) = true ->
            forall v v' r r', wf_simple g v = true -> wf_simple g v' = true ->
            enc_field g v ++ r = enc_field g v' ++ r' -> v = v' /\ r = r').
  { intros g Hg u u' s s' U U' EE.
    assert (L : length (enc_field g u) = length (enc_field g u')).
    { destruct g; try discriminate Hg;
        destruct u as [b|z|]; try discriminate U; destruct u' as [b'|z'|]; try discriminate U'; cbn [enc_field].
      - cbn [wf_simple] in U, U'. apply Nat.eqb_eq in U, U'. congruence.
      - rewrite !i64_le_length. reflexivity.
      - cbn [wf_simple] in U, U'. apply andb_true_iff in U, U'. destruct U as [U _]. destruct U' as [U' _].
        apply Nat.eqb_eq in U, U'. congruence. }
    destruct (app_eq_len _ _ _ _ L EE) as [E1 E2]. split; [|exact E2].
    refine (simple_full_inj g _ _ _ U U' E1). destruct g; try discriminate Hg; reflexivity. }
  destruct f as [n| |ne| | | |g|g|g]; try discriminate Hsd.
  - apply (Base (Fixed n)); auto.
  - apply (Base I64le); auto.
  - apply (Base Key); auto.
  - (* Flagged *)
    cbn [sd] in Hsd. apply andb_true_iff in Hsd. destruct Hsd as [Sg Hg].
    cbn [wf_field] in W, W'. apply andb_true_iff in W. destruct W as [_ W]. apply andb_true_iff in W'. destruct W' as [_ W'].
    destruct v as [b|z|]; destruct v' as [b'|z'|]; cbn [enc_field app] in E; try discriminate E;
      try (inversion E as [E0]; destruct (Base g Hg _ _ _ _ W W' E0) as [E1 E2]; split; assumption).
    inversion E. split; reflexivity.
  - (* LenPref *)
    cbn [wf_field] in W, W'.
    apply andb_true_iff in W. destruct W as [W Wl]. apply andb_true_iff in W. destruct W as [Sg W].
    apply andb_true_iff in W'. destruct W' as [W' Wl']. apply andb_true_iff in W'. destruct W' as [_ W'].
    apply N.ltb_lt in Wl, Wl'.
    cbn [enc_field] in E. rewrite <- !app_assoc in E.
    destruct (len_lt_inj _ _ Wl Wl' _ _ E) as [E1 E2]. split; [|exact E2].
    eapply simple_full_inj; [exact Sg | exact W | exact W' | exact E1].
Qed.

(* last field: everything that remains *)
Lemma full_inj_inj : forall f v v', full_inj f = true ->
  wf_field f v = true -> wf_field f v' = true -> enc_field f v = enc_field f v' -> v = v'.
Proof.
  intros f v v' Hf W W' E.
  destruct f as [n| |ne| | | |g|g|g]; try discriminate Hf.
  1-6: (cbn [wf_field] in W, W'; refine (simple_full_inj _ _ _ _ W W' E); reflexivity).
  - cbn [full_inj] in Hf. cbn [wf_field] in W, W'.
    apply andb_true_iff in W. destruct W as [_ W]. apply andb_true_iff in W'. destruct W' as [_ W'].
    destruct v as [b|z|]; destruct v' as [b'|z'|]; cbn [enc_field] in E; try discriminate E; try reflexivity;
      inversion E as [E0]; (eapply simple_full_inj; [exact Hf | exact W | exact W' | exact E0]).
  - cbn [wf_field] in W, W'.
    apply andb_true_iff in W. destruct W as [W Wl]. apply andb_true_iff in W. destruct W as [Sg W].
    apply andb_true_iff in W'. destruct W' as [W' Wl']. apply andb_true_iff in W'. destruct W' as [_ W'].
    apply N.ltb_lt in Wl, Wl'.
    cbn [enc_field] in E.
    assert (E' : le_bytes 8 (N.of_nat (length (enc_field g v))) ++ enc_field g v ++ [] =
                 le_bytes 8 (N.of_nat (length (enc_field g v'))) ++ enc_field g v' ++ []) by (rewrite !app_nil_r; exact E).
    destruct (len_lt_inj _ _ Wl Wl' _ _ E') as [E1 _].
    eapply simple_full_inj; [exact Sg | exact W | exact W' | exact E1].
Qed.

(* ------------------------------------------------------------------ rows *)
Lemma wf_fields_length : forall fs r, wf_fields fs r = true -> length r = length fs.
Proof.
  induction fs as [|f fs IH]; intros [|v r] W; cbn [wf_fields] in W; try discriminate; try reflexivity.
  apply andb_true_iff in W. destruct W as [_ W]. cbn [length]. f_equal. apply IH. exact W.
Qed.

(* rows of one layout that agree on their shape: the encoding determines every field *)
Lemma shape_inj : forall fs x y,
  wf_fields fs x = true -> wf_fields fs y = true ->
  shape_fields fs x = shape_fields fs y -> enc_fields fs x = enc_fields fs y -> x = y.
Proof.
  induction fs as [|f fs IH]; intros [|v x] [|w y] Wx Wy S E; cbn [wf_fields] in Wx, Wy; try discriminate.
  - reflexivity.
  - apply andb_true_iff in Wx. destruct Wx as [Wv Wx]. apply andb_true_iff in Wy. destruct Wy as [Ww Wy].
    cbn [shape_fields] in S. inversion S as [[S1 S2]]. cbn [enc_fields] in E.
    destruct (field_shape_inj f v w _ _ Wv Ww S1 E) as [E1 E2]. subst w. f_equal.
    apply IH; assumption.
Qed.

(* layouts accepted by the decision procedure: no hypothesis on the shape is needed *)
Lemma fields_inj : forall fs x y, fields_ok fs = true ->
  wf_fields fs x = true -> wf_fields fs y = true -> enc_fields fs x = enc_fields fs y -> x = y.
Proof.
  induction fs as [|f fs IH]; intros [|v x] [|w y] Ok Wx Wy E; cbn [wf_fields] in Wx, Wy; try discriminate.
  - reflexivity.
  - apply andb_true_iff in Wx. destruct Wx as [Wv Wx]. apply andb_true_iff in Wy. destruct Wy as [Ww Wy].
    cbn [enc_fields] in E.
    destruct fs as [|f2 fs].
    + (* last field *)
      destruct x; [|discriminate Wx]. destruct y; [|discriminate Wy].
      cbn [enc_fields] in E. rewrite !app_nil_r in E. cbn [fields_ok] in Ok.
      f_equal. eapply full_inj_inj; eassumption.
    + change (fields_ok (f :: f2 :: fs)) with (sd f && fields_ok (f2 :: fs)) in Ok.
      apply andb_true_iff in Ok. destruct Ok as [Sd Ok].
      destruct (sd_inj f v w _ _ Sd Wv Ww E) as [E1 E2]. subst w. f_equal.
      apply IH; assumption.
Qed.

Lemma tags_ok_nth : forall ls i j l l', tags_ok ls = true ->
  nth_error ls i = Some l -> nth_error ls j = Some l' ->
  comparable (l_tag l) (l_tag l') = true -> i = j.
Proof.
  induction ls as [|a ls IH]; intros i j l l' T Hi Hj C.
  - destruct i; discriminate Hi.
  - cbn [tags_ok] in T. apply andb_true_iff in T. destruct T as [T1 T2].
    rewrite forallb_forall in T1.
    destruct i as [|i]; destruct j as [|j]; cbn [nth_error] in Hi, Hj.
    + reflexivity.
    + inversion Hi; subst a. apply nth_error_In in Hj. specialize (T1 _ Hj). rewrite C in T1. discriminate.
    + inversion Hj; subst a. apply nth_error_In in Hi. specialize (T1 _ Hi).
      unfold comparable in *. rewrite orb_comm in C. rewrite C in T1. discriminate.
    + f_equal. eapply IH; eassumption.
Qed.

(* THE soundness theorem of the decision procedure: across all kinds, the signed bytes determine
   the kind and every field of the row *)
Theorem ud_sound : forall ls, uniquely_decodable ls = true ->
  forall i j l l' x y, nth_error ls i = Some l -> nth_error ls j = Some l' ->
  wf_row l x = true -> wf_row l' y = true -> enc l x = enc l' y -> i = j /\ x = y.
Proof.
  intros ls U i j l l' x y Hi Hj Wx Wy E.
  unfold uniquely_decodable in U. apply andb_true_iff in U. destruct U as [U1 U2].
  unfold enc in E.
  assert (i = j) by (eapply tags_ok_nth; [exact U2 | exact Hi | exact Hj | eapply app_comparable; exact E]).
  subst j. rewrite Hi in Hj. inversion Hj; subst l'. split; [reflexivity|].
  apply app_inv_head in E.
  rewrite forallb_forall in U1. specialize (U1 l (nth_error_In _ _ Hi)).
  unfold wf_row in Wx, Wy. apply andb_true_iff in Wx, Wy. destruct Wx as [Wx _]. destruct Wy as [Wy _].
  eapply fields_inj; eassumption.
Qed.

(* what holds for ANY layout, the current ones included: same kind and same shape => same row *)
Theorem same_shape_inj : forall l x y,
  wf_row l x = true -> wf_row l y = true -> shape l x = shape l y -> enc l x = enc l y -> x = y.
Proof.
  intros l x y Wx Wy S E. unfold enc in E. apply app_inv_head in E.
  unfold wf_row in Wx, Wy. apply andb_true_iff in Wx, Wy. destruct Wx as [Wx _]. destruct Wy as [Wy _].
  eapply shape_inj; eassumption.
Qed.

(* ------------------------------------------------------------------ the witness search is sound *)
Lemma is_collision_spec : forall ls k1 r1 k2 r2, is_collision ls (k1, r1, k2, r2) = true ->
  exists l1 l2, nth_error ls (N.to_nat k1) = Some l1 /\ nth_error ls (N.to_nat k2) = Some l2 /\
    acceptable l1 r1 = true /\ acceptable l2 r2 = true /\ enc l1 r1 = enc l2 r2 /\ (k1, r1) <> (k2, r2).
Proof.
  intros ls k1 r1 k2 r2 H. unfold is_collision in H.
  destruct (nth_error ls (N.to_nat k1)) as [l1|]; [|discriminate].
  destruct (nth_error ls (N.to_nat k2)) as [l2|]; [|discriminate].
  apply andb_true_iff in H. destruct H as [H Hne]. apply andb_true_iff in H. destruct H as [H He].
  apply andb_true_iff in H. destruct H as [A1 A2].
  exists l1, l2. repeat split; try assumption.
  - apply bytes_eqb_eq. exact He.
  - intro Eq. inversion Eq; subst.
    assert (N.eqb k2 k2 && row_eqb r2 r2 = true).
    { apply andb_true_iff. split; [apply N.eqb_refl | apply row_eqb_eq; reflexivity]. }
    rewrite H in Hne. discriminate.
Qed.

Lemma collide_all_sound : forall key ls w, In w (collide_all key ls) -> is_collision ls w = true.
Proof.
  intros key ls w H. unfold collide_all in H.
  apply in_flat_map in H. destruct H as [[k1 l1] [_ H]].
  apply in_flat_map in H. destruct H as [[k2 l2] [_ H]].
  unfold reparse in H. cbn [fst snd] in H.
  destruct (strip_prefix (l_tag l2) (enc l1 (default_row key l1))) as [body|]; [|destruct H].
  apply in_flat_map in H. destruct H as [pres [_ H]].
  apply in_flat_map in H. destruct H as [k [_ H]].
  destruct (slice_at (l_fields l2) pres k body) as [r2|]; [|destruct H].
  destruct (is_collision ls (k1, default_row key l1, k2, r2)) eqn:C; [|destruct H].
  destruct H as [H|[]]. subst w. exact C.
Qed.

Lemma collide_sound : forall key ls w, collide key ls = Some w -> is_collision ls w = true.
Proof.
  intros key ls w H. unfold collide in H. apply collide_all_sound with (key := key).
  destruct (collide_all key ls) as [|a t]; [discriminate|]. inversion H. left. reflexivity.
Qed.

(* the procedure never accepts a family for which the search finds a witness *)
Lemma acceptable_wf : forall l r, acceptable l r = true -> wf_row l r = true.
Proof. intros l r H. unfold acceptable in H. apply andb_true_iff in H. apply H. Qed.

Theorem ud_excludes_collisions : forall key ls w,
  uniquely_decodable ls = true -> collide key ls = Some w -> False.
Proof.
  intros key ls [[[k1 r1] k2] r2] U C.
  apply collide_sound in C. apply is_collision_spec in C.
  destruct C as [l1 [l2 [H1 [H2 [A1 [A2 [E Ne]]]]]]].
  destruct (ud_sound ls U _ _ _ _ _ _ H1 H2 (acceptable_wf _ _ A1) (acceptable_wf _ _ A2) E) as [Ek Er].
  apply Ne. apply N2Nat.inj in Ek. congruence.
Qed.

(* ------------------------------------------------------------------ stored rows: whole-row writes *)
Section WholeRowsP.
  Variable row : Type.
  Variable same_key : row -> row -> bool.
  Variable V : row -> bool.         (* verify() accepts the row as a whole *)

  (* invariant "stored ⊆ verified": if every row handed to a write was verified, every stored row is *)
  Theorem whole_rows_invariant : forall ops s,
    Forall (fun r => V r = true) s ->
    Forall (fun o => match wrow row o with Some r => V r = true | None => True end) ops ->
    Forall (fun r => V r = true) (fold_left (wstep row same_key) ops s).
  Proof.
    induction ops as [|o ops IH]; intros s Hs Ho; [exact Hs|].
    inversion Ho as [|o' ops' Ho1 Ho2]; subst. cbn [fold_left]. apply IH; [|exact Ho2].
    assert (Filt : forall f, Forall (fun r => V r = true) (filter f s)).
    { intro f. apply Forall_forall. intros x Hx. apply filter_In in Hx. rewrite Forall_forall in Hs. apply Hs. apply Hx. }
    destruct o as [r|r|r|r]; cbn [wstep wrow] in *.
    - unfold insert_if_absent. destruct (existsb (same_key r) s); [exact Hs|].
      apply Forall_app. split; [exact Hs | constructor; [exact Ho1 | constructor]].
    - unfold upsert. apply Forall_app. split; [apply Filt | constructor; [exact Ho1 | constructor]].
    - unfold delete_key. apply Filt.
    - apply Forall_app. split; [exact Hs | constructor; [exact Ho1 | constructor]].
  Qed.
End WholeRowsP.

Lemma whole_verifies : forall rows j x, nth_error rows j = Some x -> verifies rows (whole j x) = true.
Proof.
  intros rows j x H. unfold verifies, whole. cbn [s_sig s_id s_key s_mdate s_json]. rewrite H.
  rewrite !N.eqb_refl, Z.eqb_refl. reflexivity.
Qed.

Lemma peer_write_verified : forall rows st j,
  Forall (fun r => verifies rows r = true) st -> Forall (fun r => verifies rows r = true) (peer_write rows st j).
Proof.
  intros rows st j H. unfold peer_write. destruct (nth_error rows j) as [x|] eqn:E; [|exact H].
  apply (whole_rows_invariant srow same_id (verifies rows) [WInsert srow (whole j x)] st H).
  constructor; [cbn; apply whole_verifies; exact E | constructor].
Qed.

Lemma set_nth_Forall : forall {A} (P : A -> Prop) n v l, Forall P l -> P v -> Forall P (set_nth n v l).
Proof.
  intros A P n v l. revert n. induction l as [|x l IH]; intros n Hl Hv; [destruct n; constructor|].
  inversion Hl; subst. destruct n; cbn [set_nth]; constructor; auto.
Qed.

Theorem peer_stores_verified : forall rows init ops,
  Forall (fun st => Forall (fun r => verifies rows r = true) st) (peer_run rows init ops).
Proof.
  intros rows init ops. unfold peer_run.
  assert (I : Forall (fun st => Forall (fun r => verifies rows r = true) st) (map (init_store rows) init)).
  { apply Forall_forall. intros st Hst. apply in_map_iff in Hst. destruct Hst as [js [E _]]. subst st.
    unfold init_store. apply Forall_forall. intros r Hr. apply in_flat_map in Hr. destruct Hr as [j [_ Hr]].
    destruct (nth_error rows j) as [x|] eqn:Ex; [|destruct Hr]. destruct Hr as [Hr|[]]. subst r. apply whole_verifies. exact Ex. }
  revert I. generalize (map (init_store rows) init). induction ops as [|o ops IH]; intros stores I; [exact I|].
  cbn [fold_left]. apply IH. unfold peer_op.
  destruct (nth_error stores (fst o)) as [st|] eqn:E; [|exact I].
  apply set_nth_Forall; [exact I|]. apply peer_write_verified.
  rewrite Forall_forall in I. apply I. eapply nth_error_In. exact E.
Qed.

Lemma served_rows_verified : forall rows stores keys,
  Forall (fun st => Forall (fun r => verifies rows r = true) st) stores ->
  filter (fun x => negb (verifies rows x)) (served_rows stores keys) = [].
Proof.
  intros rows stores keys H.
  assert (A : Forall (fun r => verifies rows r = true) (served_rows stores keys)).
  { rewrite Forall_forall in H. unfold served_rows. apply Forall_app. split; apply Forall_forall; intros r Hr.
    - apply in_concat in Hr. destruct Hr as [st [Hst Hr]]. specialize (H st Hst). rewrite Forall_forall in H. apply H. exact Hr.
    - apply in_flat_map in Hr. destruct Hr as [st [Hst Hr]]. apply in_flat_map in Hr. destruct Hr as [k [_ Hr]].
      unfold served in Hr. destruct (find (fun s0 => N.eqb (s_key s0) k) st) as [x|] eqn:F; [|destruct Hr].
      destruct Hr as [Hr|[]]. subst r. apply find_some in F. specialize (H st Hst). rewrite Forall_forall in H. apply H. apply F. }
  induction A as [|x l Hx _ IH]; [reflexivity|]. cbn [filter]. rewrite Hx. cbn [negb]. exact IH.
Qed.

(* ------------------------------------------------------------------ sign() then verify() *)
(* HOLDS since fix 6d1bd7f: what sign() accepts, verify() accepts (the generated flag says whether the
   source still evaluates the size bound before the signature is in place; if it does again, this
   proof no longer checks) *)
Lemma sign_then_verify : forall l r j, sign_accept l r j = true -> accept l r j = true.
Proof.
  intros l r j Sa. unfold sign_accept in Sa.
  apply andb_true_iff in Sa. destruct Sa as [Sa Sm]. apply andb_true_iff in Sa. destruct Sa as [Sw Sj].
  unfold accept, wf_row. rewrite Sw, Sj. cbn [andb]. rewrite andb_true_r.
  destruct (l_maxlen l) as [m|]; [|reflexivity].
  destruct sign_size_excludes_signature eqn:F; [vm_compute in F; discriminate F|].
  exact Sm.
Qed.

(* ------------------------------------------------------------------ signatures (idealised) *)
Section Signatures.
  Variable Hf : list byte -> list byte.                       (* the hash *)
  Hypothesis Hf_inj : forall a b, Hf a = Hf b -> a = b.       (* idealisation: collision-free *)
  Variable sigT : Type.
  Variable sign : list byte -> list byte -> sigT.             (* key, message *)
  Hypothesis sign_inj : forall k m k' m', sign k m = sign k' m' -> k = k' /\ m = m'.   (* symbolic signatures *)

  (* verify() of a row of layout l under key k accepts signature s *)
  Definition verifies (k : list byte) (l : layout) (r : row) (s : sigT) : Prop :=
    wf_row l r = true /\ s = sign k (Hf (enc l r)).

  Theorem binds_if_ud : forall ls, uniquely_decodable ls = true ->
    forall i j l l' x y k k' s, nth_error ls i = Some l -> nth_error ls j = Some l' ->
    verifies k l x s -> verifies k' l' y s -> i = j /\ x = y /\ k = k'.
  Proof.
    intros ls U i j l l' x y k k' s Hi Hj [Wx Sx] [Wy Sy].
    rewrite Sx in Sy. apply sign_inj in Sy. destruct Sy as [Ek Em]. apply Hf_inj in Em.
    destruct (ud_sound ls U _ _ _ _ _ _ Hi Hj Wx Wy Em) as [E1 E2]. auto.
  Qed.

  Theorem binds_same_shape : forall l x y k k' s,
    verifies k l x s -> verifies k' l y s -> shape l x = shape l y -> x = y /\ k = k'.
  Proof.
    intros l x y k k' s [Wx Sx] [Wy Sy] S.
    rewrite Sx in Sy. apply sign_inj in Sy. destruct Sy as [Ek Em]. apply Hf_inj in Em.
    split; [eapply same_shape_inj; eassumption | exact Ek].
  Qed.

  (* the identity-challenge service: every submitted byte string is signed as it is *)
  Definition oracle_answers (k : list byte) (challenges : list (list byte)) : list sigT := map (sign k) challenges.

  Theorem oracle_only_digests : forall k cs k' l x s,
    In s (oracle_answers k cs) -> verifies k' l x s -> k' = k /\ In (Hf (enc l x)) cs.
  Proof.
    intros k cs k' l x s Hin [_ Sx]. unfold oracle_answers in Hin. apply in_map_iff in Hin.
    destruct Hin as [c [Hc Hin]]. rewrite Sx in Hc. apply sign_inj in Hc. destruct Hc as [Ek Ec].
    split; [congruence | rewrite <- Ec; exact Hin].
  Qed.

  Theorem oracle_forges : forall k l x, wf_row l x = true ->
    exists s, In s (oracle_answers k [Hf (enc l x)]) /\ verifies k l x s.
  Proof.
    intros k l x W. exists (sign k (Hf (enc l x))). split; [left; reflexivity | split; [exact W | reflexivity]].
  Qed.

  (* ---- the same statements about the functions the harness evaluates ---- *)
  Lemma accept_wf : forall l r j, accept l r j = true -> wf_row l r = true.
  Proof. intros l r j H. unfold accept in H. apply andb_true_iff in H. apply H. Qed.

  (* an item the service accepts, that is not one of the collisions, is genuine *)
  Lemma item_verdict_genuine : forall it, item_verdict Hf it = true -> item_collides it = false -> item_genuine it = true.
  Proof.
    intros [[[[[k r] j] k0] r0] j0] V C. unfold item_verdict in V. unfold item_collides in C. unfold item_genuine.
    destruct (layout_of k) as [l|]; [|discriminate V]. destruct (layout_of k0) as [l0|]; [|discriminate V].
    apply andb_true_iff in V. destruct V as [_ V]. apply bytes_eqb_eq in V. apply Hf_inj in V.
    assert (E : bytes_eqb (enc l r) (enc l0 r0) = true) by (apply bytes_eqb_eq; exact V).
    rewrite E in C. cbn [andb] in C. destruct (N.eqb k k0 && row_eqb r r0); [reflexivity | discriminate C].
  Qed.

  Lemma service_spec : forall batches, existsb (existsb item_collides) batches = false ->
    forallb (fun bo : list sitem * Z => if Z.eqb (snd bo) 1 then forallb item_genuine (fst bo) else true)
            (combine batches (map (fun b => zb (batch_verdict Hf b)) batches)) = true.
  Proof.
    induction batches as [|b bs IH]; intros K; [reflexivity|].
    cbn [existsb] in K. apply orb_false_iff in K. destruct K as [Kb Ks].
    cbn [map combine forallb fst snd]. rewrite (IH Ks), andb_true_r.
    destruct (batch_verdict Hf b) eqn:V; cbn [zb Z.eqb]; [|reflexivity].
    unfold batch_verdict in V. rewrite forallb_forall in V. apply forallb_forall. intros it Hit.
    apply item_verdict_genuine; [apply V; exact Hit|].
    destruct (item_collides it) eqn:C; [|reflexivity].
    assert (X : existsb item_collides b = true) by (apply existsb_exists; exists it; split; assumption).
    rewrite X in Kb. discriminate Kb.
  Qed.

  Theorem run_spec_outside_known : forall c, case_ok c = true -> known_C06_gen Hf c = [] ->
    spec_C06 c (run_C06_gen Hf c) = true.
  Proof.
    intros c Ok K. destruct c as [k r j | k1 r1 j1 k2 r2 j2 | k r j ch | b | rows init ops nkeys | sops | batches]; cbn [case_ok] in Ok.
    - cbn [run_C06_gen spec_C06 known_C06_gen] in *. destruct (layout_of k) as [l|]; [|discriminate Ok].
      rewrite rev_app_distr. cbn [rev app].
      destruct (sign_accept l r j) eqn:Sa; cbn [zb Z.eqb negb orb andb]; [|reflexivity].
      rewrite (sign_then_verify l r j Sa). reflexivity.
    - cbn [run_C06_gen spec_C06 known_C06_gen] in *.
      destruct (layout_of k1) as [l1|] eqn:L1; [|discriminate Ok].
      destruct (layout_of k2) as [l2|] eqn:L2; [|discriminate Ok].
      destruct (sign_accept l1 r1 j1); cbn [zb Z.eqb andb]; [|reflexivity].
      destruct (accept l1 r1 j1) eqn:A1; cbn [zb Z.eqb andb]; [|reflexivity].
      destruct (accept l2 r2 j2) eqn:A2; cbn [zb Z.eqb andb]; [|reflexivity].
      destruct (bytes_eqb (Hf (enc l1 r1)) (Hf (enc l2 r2))) eqn:B; cbn [zb Z.eqb andb]; [|reflexivity].
      apply bytes_eqb_eq in B. apply Hf_inj in B.
      assert (Be : bytes_eqb (enc l1 r1) (enc l2 r2) = true) by (apply bytes_eqb_eq; exact B).
      rewrite Be in K.
      destruct (N.eqb k1 k2) eqn:Ek; cbn [negb] in K; [|discriminate K].
      apply N.eqb_eq in Ek. subst k2. rewrite L1 in L2. inversion L2; subst l2.
      destruct (list_eqb N.eqb (shape l1 r1) (shape l1 r2)) eqn:S; [|discriminate K].
      apply (list_eqb_eq N.eqb N.eqb_eq) in S.
      cbn [andb]. apply row_eqb_eq.
      eapply same_shape_inj; try eassumption; eapply accept_wf; eassumption.
    - cbn [run_C06_gen spec_C06 known_C06_gen] in *.
      destruct (layout_of k) as [l|]; [|discriminate Ok].
      destruct (bytes_eqb (challenge_of Hf l r ch) (Hf (enc l r))); [discriminate K|].
      rewrite andb_false_r. reflexivity.
    - reflexivity.
    - cbn [run_C06_gen spec_C06]. rewrite rev_app_distr. cbn [rev app].
      rewrite (served_rows_verified _ _ _ (peer_stores_verified rows init ops)). reflexivity.
    - reflexivity.
    - cbn [run_C06_gen spec_C06 known_C06_gen] in *. rewrite map_length, Nat.eqb_refl. cbn [andb].
      apply service_spec. destruct (existsb (existsb item_collides) batches); [|reflexivity].
      destruct (existsb _ batches) in K; discriminate K.
  Qed.

  (* the service is stateless: the verdict on a batch does not depend on what was submitted before *)
  Theorem service_stateless : forall history b,
    run_C06_gen Hf (CService (history ++ [b])) = run_C06_gen Hf (CService history) ++ [zb (forallb (item_verdict Hf) b)].
  Proof. intros history b. cbn [run_C06_gen]. rewrite map_app. reflexivity. Qed.
End Signatures.

(* ------------------------------------------------------------------ the current layouts *)
Definition key0 : list byte := x01 :: repeat x61 32.

Lemma layouts_not_ud : uniquely_decodable layouts = false.
Proof. vm_compute. reflexivity. Qed.

Lemma current_refuted : exists k1 r1 k2 r2 l1 l2,
  collide key0 layouts = Some (k1, r1, k2, r2) /\
  nth_error layouts (N.to_nat k1) = Some l1 /\ nth_error layouts (N.to_nat k2) = Some l2 /\
  acceptable l1 r1 = true /\ acceptable l2 r2 = true /\ enc l1 r1 = enc l2 r2 /\ (k1, r1) <> (k2, r2).
Proof.
  destruct (collide key0 layouts) as [[[[k1 r1] k2] r2]|] eqn:C; [|vm_compute in C; discriminate C].
  pose proof (collide_sound _ _ _ C) as S. apply is_collision_spec in S.
  destruct S as [l1 [l2 S]]. exists k1, r1, k2, r2, l1, l2. split; [reflexivity | exact S].
Qed.

(* the scratch-confirmed pairs, as closed witnesses *)
Definition uidA : list byte := repeat x41 16.
Definition node_a : row := [VB uidA; VNone; VI 5; VI 7; VB (hx "61"); VB (hx "7b7d"); VNone; VB key0].
Definition node_b : row := [VB uidA; VNone; VI 5; VI 7; VB (hx "61227b7d22"); VNone; VNone; VB key0].
Definition edge_a : row := [VB uidA; VB (hx "6162"); VB (hx "63"); VB uidA; VI 9; VB key0].
Definition edge_b : row := [VB uidA; VB (hx "61"); VB (hx "6263"); VB uidA; VI 9; VB key0].

Lemma k1_node_witness : is_collision layouts (0%N, node_a, 0%N, node_b) = true.
Proof. vm_compute. reflexivity. Qed.
Lemma k1_edge_witness : is_collision layouts (1%N, edge_a, 1%N, edge_b) = true.
Proof. vm_compute. reflexivity. Qed.
Lemma k2_cross_kind_witness :
  existsb (fun w : witness => let '(k1, _, k2, _) := w in negb (N.eqb k1 k2) && (k1 <? 4)%N && (k2 <? 4)%N)
          (collide_all key0 layouts) = true.
Proof. vm_compute. reflexivity. Qed.

(* every field of a signed structure (the signature itself excepted) is part of the digest *)
Definition all_fields_hashed : bool :=
  list_eqb (fun st hs => forallb (fun f => existsb (String.eqb f) hs) st) layout_struct_fields layout_names.
Lemma all_fields_hashed_ok : all_fields_hashed = true.
Proof. vm_compute. reflexivity. Qed.

Lemma raw_oracle_present : existsb (fun k => match k with SignsPeerBytes => true | _ => false end) sign_callers = true.
Proof. vm_compute. reflexivity. Qed.

(* a family the procedure accepts (tags + length prefixes + presence bytes): hypotheses of ud_sound are satisfiable *)
Definition repaired : list layout :=
  [ {| l_tag := hx "4e"; l_fields := [Fixed 16; Flagged (Fixed 16); I64le; I64le; LenPref (VarStr true); LenPref JsonQ; Key; Flagged VarBytes];
       l_json_object := true; l_maxlen := None |};
    {| l_tag := hx "45"; l_fields := [Fixed 16; LenPref (VarStr true); LenPref (VarStr true); Fixed 16; I64le; Key];
       l_json_object := false; l_maxlen := Some 1024%N |};
    {| l_tag := hx "44"; l_fields := [Fixed 16; Fixed 16; I64le; LenPref (VarStr false); I64le; Key];
       l_json_object := false; l_maxlen := None |};
    {| l_tag := hx "46"; l_fields := [Fixed 16; Fixed 16; LenPref (VarStr false); LenPref (VarStr false); Fixed 16; I64le; I64le; Key];
       l_json_object := false; l_maxlen := None |};
    {| l_tag := hx "49"; l_fields := [Fixed 16; VarStr false]; l_json_object := false; l_maxlen := None |};
    {| l_tag := hx "41"; l_fields := [Fixed 16; Fixed 32]; l_json_object := false; l_maxlen := None |} ].
Lemma repaired_ud : uniquely_decodable repaired = true /\ collide key0 repaired = None.
Proof. vm_compute. split; reflexivity. Qed.

Lemma run_spec_nonvacuous :
  case_ok (CPair 0 node_a true 0 node_a true) = true /\ known_C06 (CPair 0 node_a true 0 node_a true) = [] /\
  run_C06 (CPair 0 node_a true 0 node_a true) = [1; 1; 1]%Z /\
  known_C06 (CPair 0 node_a true 0 node_b true) = [1]%Z /\
  spec_C06 (CPair 0 node_a true 0 node_b true) (run_C06 (CPair 0 node_a true 0 node_b true)) = false.
Proof. vm_compute. repeat split; reflexivity. Qed.
