(* C15P.v — proofs for C15 *)
From DV Require Import DataModel Run_C15.
Lemma placeholder_c15 : True. Proof. exact I. Qed.
