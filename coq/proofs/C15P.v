(* C15P.v — proofs of the C15 theorems (statements collected in props/C15.v). *)
From DV Require Import DataModel Run_C15 DataModelP DataModelAgainP.
From Coq Require Import Permutation.
Local Open Scope N_scope.

(* ------------------------------------------------------------------ from relations to the oracle's booleans *)
Lemma Forall2_in_l : forall A B (R : A -> B -> Prop) l l', Forall2 R l l' -> forall a, In a l -> exists b, In b l' /\ R a b.
Proof.
  induction 1 as [|x y l l' Hxy _ IH]; intros a Ha; [destruct Ha|].
  destruct Ha as [<-|Ha]; [exists y; split; [left; reflexivity | exact Hxy]|].
  destruct (IH a Ha) as [b [Hb Hr]]. exists b. split; [right; exact Hb | exact Hr].
Qed.
Lemma Forall2_in_r : forall A B (R : A -> B -> Prop) l l', Forall2 R l l' -> forall b, In b l' -> exists a, In a l /\ R a b.
Proof.
  induction 1 as [|x y l l' Hxy _ IH]; intros b Hb; [destruct Hb|].
  destruct Hb as [<-|Hb]; [exists x; split; [left; reflexivity | exact Hxy]|].
  destruct (IH b Hb) as [a [Ha Hr]]. exists a. split; [right; exact Ha | exact Hr].
Qed.
Lemma list_ext_find : forall A (R : A -> A -> Prop) Q l l', list_ext R Q l l' -> forall a, In a l -> exists b, In b l' /\ R a b.
Proof.
  intros A R Q l l' [l1 [l2 [-> [H2 _]]]] a Ha. destruct (Forall2_in_l _ _ _ _ _ H2 a Ha) as [b [Hb Hr]].
  exists b. split; [apply in_or_app; left; exact Hb | exact Hr].
Qed.

Lemma field_kept_of_ext : forall f fs', (exists g, In g fs' /\ field_ext f g) -> field_kept f fs' = true.
Proof.
  intros f fs' [g [Hg [H1 [H2 H3]]]]. unfold field_kept. apply existsb_exists. exists g. split; [exact Hg|].
  rewrite H1, H2, H3, !N.eqb_refl. cbn. apply ftype_eqb_eq. reflexivity.
Qed.
Lemma ent_kept_of_ext : forall e es', (exists e', In e' es' /\ ent_ext e e') -> ent_kept e es' = true.
Proof.
  intros e es' [e' [He' [H1 [H2 H3]]]]. unfold ent_kept. apply existsb_exists. exists e'. split; [exact He'|].
  rewrite H1, H2, N.eqb_refl. cbn. apply andb_true_iff. split; [apply short_eqb_eq; reflexivity|].
  apply forallb_forall. intros f Hf. apply field_kept_of_ext. apply (list_ext_find _ _ _ _ _ H3). exact Hf.
Qed.
Lemma ns_kept_of_ext : forall n M', (exists n', In n' M' /\ ns_ext n n') -> ns_kept n M' = true.
Proof.
  intros n M' [n' [Hn' [H1 [H2 H3]]]]. unfold ns_kept. apply existsb_exists. exists n'. split; [exact Hn'|].
  rewrite H1, H2, !N.eqb_refl. cbn.
  apply forallb_forall. intros e He. apply ent_kept_of_ext. apply (list_ext_find _ _ _ _ _ H3). exact He.
Qed.
Lemma ext_stable_b : forall M M', model_ext M M' -> stable_b M M' = true.
Proof.
  intros M M' H. unfold stable_b. apply forallb_forall. intros n Hn. apply ns_kept_of_ext.
  apply (list_ext_find _ _ _ _ _ H). exact Hn.
Qed.

Lemma findk_notin : forall A (key : A -> N) k l, ~ In k (map key l) -> findk key k l = None.
Proof.
  intros A key k l H. destruct (findk key k l) as [a|] eqn:Hf; [|reflexivity].
  apply findk_some in Hf. destruct Hf as [Ha Hk]. exfalso. apply H. rewrite <- Hk. apply in_map. exact Ha.
Qed.

Lemma readable_bool : forall f, readable f -> f_nullable f || negb (is_none (f_default f)) || is_ref (f_type f) = true.
Proof.
  intros f H. unfold readable, needs_default in H.
  destruct (f_nullable f), (f_default f), (is_ref (f_type f)); cbn in *; try reflexivity; discriminate.
Qed.

Lemma ext_newfields_b : forall M M', model_ext M M' -> NoDup (map n_name M) ->
  (forall n, In n M -> NoDup (map e_name (n_ents n))) -> newfields_b M M' = true.
Proof.
  intros M M' [l1 [l2 [-> [H2 HQ]]]] Hnd Hend. unfold newfields_b. apply forallb_forall. intros n' Hn'.
  apply in_app_or in Hn'. destruct Hn' as [Hn'|Hn'].
  - destruct (Forall2_in_r _ _ _ _ _ H2 n' Hn') as [n [Hn [Hname [_ Hents]]]].
    change (find_ns (n_name n') M) with (findk n_name (n_name n') M). rewrite Hname, (findk_nodup n_name M n Hnd Hn).
    destruct Hents as [e1 [e2 [-> [HE2 HEQ]]]]. apply forallb_forall. intros e' He'.
    apply in_app_or in He'. destruct He' as [He'|He'].
    + destruct (Forall2_in_r _ _ _ _ _ HE2 e' He') as [e [He [Hen [_ Hflds]]]].
      change (find_ent (e_name e') (n_ents n)) with (findk e_name (e_name e') (n_ents n)).
      rewrite Hen, (findk_nodup e_name (n_ents n) e (Hend n Hn) He).
      destruct Hflds as [f1 [f2 [-> [HF2 HFQ]]]]. apply forallb_forall. intros f' Hf'.
      apply in_app_or in Hf'. destruct Hf' as [Hf'|Hf'].
      * destruct (Forall2_in_r _ _ _ _ _ HF2 f' Hf') as [f [Hf [Hfn _]]].
        assert (Hh : has_field (f_name f') (e_fields e) = true).
        { apply (hask_In f_name). rewrite Hfn. apply in_map. exact Hf. }
        rewrite Hh. reflexivity.
      * rewrite Forall_forall in HFQ. destruct (HFQ f' Hf') as [Hr _].
        pose proof (readable_bool f' Hr) as Hb. rewrite <- !orb_assoc. rewrite <- !orb_assoc in Hb. rewrite Hb. apply orb_true_r.
    + rewrite Forall_forall in HEQ. specialize (HEQ e' He').
      change (find_ent (e_name e') (n_ents n)) with (findk e_name (e_name e') (n_ents n)).
      rewrite (findk_notin _ e_name _ _ HEQ). reflexivity.
  - rewrite Forall_forall in HQ. specialize (HQ n' Hn').
    change (find_ns (n_name n') M) with (findk n_name (n_name n') M).
    rewrite (findk_notin _ n_name _ _ HQ). reflexivity.
Qed.

Lemma nodup_by_N : forall l, NoDup l -> nodup_by N.eqb l = true.
Proof.
  induction 1 as [|a l Ha _ IH]; cbn; [reflexivity|]. rewrite IH, andb_true_r. apply negb_true_iff.
  destruct (existsb (N.eqb a) l) eqn:He; [|reflexivity]. exfalso. apply Ha. apply existsb_exists in He.
  destruct He as [x [Hx He]]. apply N.eqb_eq in He. subst. exact Hx.
Qed.
Lemma nodup_by_short : forall l, NoDup l -> nodup_by short_eqb l = true.
Proof.
  induction 1 as [|a l Ha _ IH]; cbn; [reflexivity|]. rewrite IH, andb_true_r. apply negb_true_iff.
  destruct (existsb (short_eqb a) l) eqn:He; [|reflexivity]. exfalso. apply Ha. apply existsb_exists in He.
  destruct He as [x [Hx He]]. apply short_eqb_eq in He. subst. exact Hx.
Qed.

Lemma wf_model_tail : forall n M, wf_model (n :: M) -> wf_model M.
Proof.
  intros n M [H1 [H2 [H3 H4]]]. cbn in H1, H2. inversion H1. inversion H2. inversion H3. inversion H4. repeat split; assumption.
Qed.

(* no two entities of the whole model share a short name ("pos" / "nsid.pos") *)
Lemma all_eshorts_nodup : forall M, wf_model M -> NoDup (all_eshorts M).
Proof.
  induction M as [|n M IH]; intros Hwf; [constructor|].
  unfold all_eshorts. cbn [flat_map]. fold (all_eshorts M).
  pose proof (wf_model_tail _ _ Hwf) as Hwf'. destruct Hwf as [Hn [Hi [Hw _]]].
  inversion Hw as [|? ? [_ [Hs Hf]] Hw']. subst.
  apply NoDup_app_intro; [exact Hs | apply IH; exact Hwf'|].
  intros x Hx Hx2. apply in_map_iff in Hx. destruct Hx as [e [Hex He]].
  unfold all_eshorts in Hx2. apply in_flat_map in Hx2. destruct Hx2 as [n2 [Hn2 Hx2]].
  apply in_map_iff in Hx2. destruct Hx2 as [e2 [He2x He2]].
  rewrite Forall_forall in Hf. destruct (Hf e He) as [Hp1 _].
  rewrite Forall_forall in Hw'. destruct (Hw' n2 Hn2) as [_ [_ Hf2]]. rewrite Forall_forall in Hf2. destruct (Hf2 e2 He2) as [Hp2 _].
  assert (Hpp : nspart n = nspart n2) by congruence.
  cbn in Hn, Hi. inversion Hn as [|? ? Hnn _]. inversion Hi as [|? ? Hni _]. subst.
  unfold nspart in Hpp. destruct (N.eqb (n_name n) 0) eqn:E1, (N.eqb (n_name n2) 0) eqn:E2; try discriminate.
  - apply N.eqb_eq in E1. apply N.eqb_eq in E2. apply Hnn. rewrite E1, <- E2. apply in_map. exact Hn2.
  - inversion Hpp as [Hid]. apply Hni. rewrite Hid. apply in_map. exact Hn2.
Qed.

Lemma wf_model_b : forall M, wf_model M -> wf_b M = true.
Proof.
  intros M Hwf. pose proof (all_eshorts_nodup M Hwf) as Hall. destruct Hwf as [Hn [Hi [Hw _]]].
  unfold wf_b. rewrite (nodup_by_N _ Hn), (nodup_by_N _ Hi), (nodup_by_short _ Hall). cbn.
  apply forallb_forall. intros n Hin. rewrite Forall_forall in Hw. destruct (Hw n Hin) as [Hen [_ Hf]].
  rewrite (nodup_by_N _ Hen). cbn. apply forallb_forall. intros e He. rewrite Forall_forall in Hf.
  destruct (Hf e He) as [_ [Hfn [Hfs _]]]. rewrite (nodup_by_N _ Hfn), (nodup_by_N _ Hfs). reflexivity.
Qed.

(* ------------------------------------------------------------------ one step, any verdict, any order *)
Lemma upd_keeps_ids : forall o sys M v, wf_model (m_nss M) ->
  keeps_ids M (fst (upd o sys M v)) /\ wf_model (m_nss (fst (upd o sys M v))).
Proof.
  intros o sys M v Hwf. pose proof (upd_ext o sys M v) as Hext. pose proof (upd_wf o sys M v Hwf) as Hwf'.
  split; [|exact Hwf']. split; [apply ext_stable_b; exact Hext|]. split; [apply wf_model_b; exact Hwf'|].
  destruct Hwf as [Hn [_ [Hw _]]]. apply ext_newfields_b; [exact Hext | exact Hn|].
  intros n Hin. rewrite Forall_forall in Hw. apply (Hw n Hin).
Qed.

(* ------------------------------------------------------------------ all histories *)
Lemma run_steps_hist_ok : forall steps os M, wf_model (m_nss M) -> hist_ok M (run_steps M steps os).
Proof.
  unfold hist_ok. induction steps as [|s steps IH]; intros os M Hwf; cbn [run_steps]; [exact I|].
  destruct (upd (hd zero_oracle os) (s_sys s) M (s_ver s)) as [M' e] eqn:Hu.
  destruct (upd_keeps_ids (hd zero_oracle os) (s_sys s) M (s_ver s) Hwf) as [Hk Hwf']. rewrite Hu in Hk, Hwf'. cbn [fst] in Hk, Hwf'.
  cbn [chain]. split; [exact Hk | apply IH; exact Hwf'].
Qed.

Theorem ids_stable_all_histories : forall steps os, hist_ok empty_model (run_steps empty_model steps os).
Proof. intros. apply run_steps_hist_ok. apply wf_model_nil. Qed.

(* ------------------------------------------------------------------ a refused version changes nothing *)
Theorem refused_changes_nothing : forall o sys M v e, snd (upd o sys M v) = Some e -> fst (upd o sys M v) = M.
Proof.
  intros o sys M v e H. destruct (upd_cases o sys M v) as [[Ha Hu] | [x [_ Hu]]].
  - rewrite Hu, Ha in H. discriminate.
  - rewrite Hu. reflexivity.
Qed.

Theorem run_steps_refused_unchanged : forall steps os M, refused_unchanged M (run_steps M steps os).
Proof.
  induction steps as [|s steps IH]; intros os M; cbn [run_steps]; [exact I|].
  destruct (upd (hd zero_oracle os) (s_sys s) M (s_ver s)) as [M1 e1] eqn:H1.
  cbn [refused_unchanged]. split; [|apply IH].
  intros Hne. destruct e1 as [e|]; [|congruence].
  pose proof (refused_changes_nothing (hd zero_oracle os) (s_sys s) M (s_ver s) e) as Hr.
  rewrite H1 in Hr. apply Hr. reflexivity.
Qed.

(* ------------------------------------------------------------------ the iteration orders do not matter *)
Lemma entity_update_det : forall o1 o2 nsn e q,
  snd (entity_update o1 nsn e q) = None -> entity_update o2 nsn e q = entity_update o1 nsn e q.
Proof.
  intros o1 o2 nsn e q Hok. unfold entity_update in *.
  destruct (loop f_name (o_fld o1 nsn (e_name e)) (upd_field (e_fields q)) (e_fields e)) as [fs1 er1] eqn:Hl.
  destruct er1 as [y|]; [discriminate|].
  rewrite (loop_deterministic _ f_name (upd_field (e_fields q)) (upd_field (e_fields q)) (o_fld o1 nsn (e_name e)) (o_fld o2 nsn (e_name e)));
    [|reflexivity | rewrite Hl; reflexivity].
  rewrite Hl. reflexivity.
Qed.
Lemma upd_ent_det : forall o1 o2 nsn qes e,
  snd (upd_ent o1 nsn qes e) = None -> upd_ent o2 nsn qes e = upd_ent o1 nsn qes e.
Proof.
  intros o1 o2 nsn qes e Hok. unfold upd_ent in *. destruct (find_ent (e_name e) qes) as [q|]; [|reflexivity].
  destruct (negb (short_eqb (e_short e) (e_short q))); [reflexivity|]. apply entity_update_det. exact Hok.
Qed.
Lemma upd_ns_det : forall o1 o2 sys P n,
  snd (upd_ns o1 sys P n) = None -> upd_ns o2 sys P n = upd_ns o1 sys P n.
Proof.
  intros o1 o2 sys P n Hok. unfold upd_ns in *. destruct (find_ns (n_name n) P) as [p|] eqn:Hf; [|reflexivity].
  destruct (negb (N.eqb (n_id p) (n_id n))); [reflexivity|].
  destruct (loop e_name (o_ent o1 (n_name n)) (upd_ent o1 (n_name n) (n_ents p)) (n_ents n)) as [es er] eqn:Hl.
  destruct er as [y|]; [discriminate|].
  rewrite (loop_deterministic _ e_name (upd_ent o1 (n_name n) (n_ents p)) (upd_ent o2 (n_name n) (n_ents p)) (o_ent o1 (n_name n)) (o_ent o2 (n_name n)));
    [rewrite Hl; reflexivity | | rewrite Hl; reflexivity].
  intros a Ha. symmetry. apply upd_ent_det.
  apply (loop_ok_all e_name (upd_ent o1 (n_name n) (n_ents p)) (o_ent o1 (n_name n)) (n_ents n)); [rewrite Hl; reflexivity | exact Ha].
Qed.
Lemma apply_upd_det : forall o1 o2 sys M v,
  snd (apply_upd o1 sys M v) = None -> apply_upd o2 sys M v = apply_upd o1 sys M v.
Proof.
  intros o1 o2 sys M v Hok. unfold apply_upd in *.
  destruct (parse (if sys then 0 else 1) v) as [P|pe]; [|reflexivity].
  destruct (ns_check_fails sys P); [reflexivity|].
  destruct (loop n_name (o_ns o1) (upd_ns o1 sys P) (m_nss M)) as [nss er] eqn:Hl.
  destruct er as [y|]; [discriminate|].
  rewrite (loop_deterministic _ n_name (upd_ns o1 sys P) (upd_ns o2 sys P) (o_ns o1) (o_ns o2));
    [rewrite Hl; reflexivity | | rewrite Hl; reflexivity].
  intros a Ha. symmetry. apply upd_ns_det.
  apply (loop_ok_all n_name (upd_ns o1 sys P) (o_ns o1) (m_nss M)); [rewrite Hl; reflexivity | exact Ha].
Qed.

(* whether a version is accepted, and the model afterwards, do not depend on the iteration orders *)
Theorem upd_outcome_det : forall o1 o2 sys M v,
  is_none (snd (upd o1 sys M v)) = is_none (snd (upd o2 sys M v)) /\ fst (upd o1 sys M v) = fst (upd o2 sys M v).
Proof.
  intros o1 o2 sys M v.
  destruct (upd_cases o1 sys M v) as [[Ha1 Hu1] | [x1 [Ha1 Hu1]]].
  - pose proof (apply_upd_det o1 o2 sys M v Ha1) as Hd. unfold upd. rewrite Hd. split; reflexivity.
  - destruct (upd_cases o2 sys M v) as [[Ha2 Hu2] | [x2 [Ha2 Hu2]]].
    + pose proof (apply_upd_det o2 o1 sys M v Ha2) as Hd. rewrite Hd, Ha2 in Ha1. discriminate.
    + rewrite Hu1, Hu2. split; reflexivity.
Qed.

Theorem run_steps_outcome_det : forall steps os1 os2 M,
  map outcome (run_steps M steps os1) = map outcome (run_steps M steps os2).
Proof.
  induction steps as [|s steps IH]; intros os1 os2 M; cbn [run_steps]; [reflexivity|].
  destruct (upd_outcome_det (hd zero_oracle os1) (hd zero_oracle os2) (s_sys s) M (s_ver s)) as [He HM].
  destruct (upd (hd zero_oracle os1) (s_sys s) M (s_ver s)) as [M1 e1].
  destruct (upd (hd zero_oracle os2) (s_sys s) M (s_ver s)) as [M2 e2].
  cbn [fst snd] in He, HM. subst M2.
  cbn [map]. f_equal; [unfold outcome; cbn [fst snd]; rewrite He; reflexivity | apply IH].
Qed.

(* ------------------------------------------------------------------ regression witnesses (former defects) *)
Definition fS (k : N) : fdecl := mkFD k TStr None false false.       (* fk: String *)
Definition fSn (k : N) : fdecl := mkFD k TStr None true false.       (* fk: String nullable *)
Definition w_v1 : version := mkV 1 [(2, [mkED 1 false true [fS 1] []])].
Definition w_v2 : version := mkV 2 [(2, [mkED 1 false true [fS 1; fSn 3; fSn 2] []])].
Definition w_none : otab := mkOT [] [] [].
Definition w_steps : list step := [mkS false w_v1; mkS false w_v2; mkS false w_v2].
Definition field_ids (M : dmodel) : list (N * N) :=
  flat_map (fun n => flat_map (fun e => map (fun f => (f_name f, f_short f)) (e_fields e)) (n_ents n)) (m_nss M).

(* former K1: two fields at once get the identifiers of their place in the text, and the same text
   again is accepted *)
Lemma k1_regression :
  let a := run_steps empty_model w_steps [] in
  map fst a = [None; None; None] /\ map (fun r => field_ids (snd r)) a = [[(1, 32)]; [(1, 32); (3, 33); (2, 34)]; [(1, 32); (3, 33); (2, 34)]].
Proof. cbv zeta. split; vm_compute; reflexivity. Qed.

(* former K2: valid for E1, invalid for E2: refused, nothing changed, whichever entity is visited first *)
Definition w_w1 : version := mkV 1 [(2, [mkED 1 false true [fS 1] []; mkED 2 false true [fS 1; fS 2] []])].
Definition w_w2 : version := mkV 2 [(2, [mkED 1 false true [fS 1; fSn 2] []; mkED 2 false true [fS 1] []])].
Definition w_e1_first : otab := mkOT [] [(2, 1, 0); (2, 2, 1)] [].
Definition w_e2_first : otab := mkOT [] [(2, 1, 1); (2, 2, 0)] [].
Lemma k2_regression :
  let M := fst (upd zero_oracle false empty_model w_w1) in
  snd (upd zero_oracle false empty_model w_w1) = None /\
  upd (oracle_of w_e1_first) false M w_w2 = (M, Some EMissingField) /\
  upd (oracle_of w_e2_first) false M w_w2 = (M, Some EMissingField).
Proof. cbv zeta. repeat split; vm_compute; reflexivity. Qed.

(* the same, and the former K3 (refusal at run time reported), judged by the functions the harness evaluates *)
Definition w_case_k1 : c15case := CBare w_steps [[w_none; w_none; w_none]; [w_none; w_none; w_none]].
Definition w_case_k2 : c15case := CBare [mkS false w_w1; mkS false w_w2; mkS false w_w1] [[w_none; w_e1_first; w_none]; [w_none; w_e2_first; w_none]].
Definition w_case_k3 : c15case :=
  CInst [(true, mkS false w_w1); (false, mkS false (mkV 2 [(2, [mkED 1 false true [fS 1] []])])); (true, mkS false w_w1)] [w_none; w_none; w_none].
Lemma spec_witnesses :
  spec_C15 w_case_k1 (run_C15 w_case_k1) = true /\ spec_C15 w_case_k2 (run_C15 w_case_k2) = true /\
  spec_C15 w_case_k3 (run_C15 w_case_k3) = true /\
  map fst (run_inst_obs empty_model empty_model false None [(true, mkS false w_w1); (false, mkS false (mkV 2 [(2, [mkED 1 false true [fS 1] []])])); (true, mkS false w_w1)] []) = [true; false; true].
Proof. repeat split; vm_compute; reflexivity. Qed.

(* ------------------------------------------------------------------ readers that address values by identifier *)
Lemma list_ext_findk : forall A (key : A -> N) (R : A -> A -> Prop) Q l l' a,
  (forall x y, R x y -> key y = key x) -> list_ext R Q l l' -> NoDup (map key l') -> In a l ->
  exists b, findk key (key a) l' = Some b /\ R a b.
Proof.
  intros A key R Q l l' a Hkey Hext Hnd Ha. destruct (list_ext_find _ _ _ _ _ Hext a Ha) as [b [Hb Hr]].
  exists b. split; [|exact Hr]. rewrite <- (Hkey a b Hr). apply findk_nodup; assumption.
Qed.

Theorem address_stable : forall o sys M v ns e f a, wf_model (m_nss M) ->
  address (m_nss M) ns e f = Some a -> address (m_nss (fst (upd o sys M v))) ns e f = Some a.
Proof.
  intros o sys M v ns e f a Hwf Ha. pose proof (upd_ext o sys M v) as Hext. pose proof (upd_wf o sys M v Hwf) as Hwf'.
  set (M' := m_nss (fst (upd o sys M v))) in *. unfold address in *.
  destruct (find_ns ns (m_nss M)) as [n|] eqn:Hn; [|discriminate].
  apply (findk_some n_name) in Hn. destruct Hn as [Hnin Hnname]. subst ns.
  destruct Hwf' as [Hnd' [_ [Hw' _]]].
  destruct (list_ext_findk _ n_name ns_ext _ _ _ n (fun x y H => proj1 H) Hext Hnd' Hnin) as [n' [Hfn' [_ [_ Hents]]]].
  change (find_ns (n_name n) M') with (findk n_name (n_name n) M'). rewrite Hfn'.
  destruct (find_ent e (n_ents n)) as [en|] eqn:He; [|discriminate].
  apply (findk_some e_name) in He. destruct He as [Hein Hename]. subst e.
  assert (Hwn' : wf_ns n'). { apply (findk_some n_name) in Hfn'. rewrite Forall_forall in Hw'. apply Hw'. apply Hfn'. }
  destruct Hwn' as [Hend' [_ Hfor']].
  destruct (list_ext_findk _ e_name ent_ext _ _ _ en (fun x y H => proj1 H) Hents Hend' Hein) as [en' [Hfe' [_ [Hsh Hflds]]]].
  change (find_ent (e_name en) (n_ents n')) with (findk e_name (e_name en) (n_ents n')). rewrite Hfe'.
  destruct (find_field f (e_fields en)) as [fl|] eqn:Hf; [|discriminate].
  apply (findk_some f_name) in Hf. destruct Hf as [Hfin Hfname]. subst f.
  assert (Hwe' : wf_ent en'). { apply (findk_some e_name) in Hfe'. rewrite Forall_forall in Hfor'. apply Hfor'. apply Hfe'. }
  destruct Hwe' as [Hfnd' _].
  destruct (list_ext_findk _ f_name field_ext _ _ _ fl (fun x y H => proj1 H) Hflds Hfnd' Hfin) as [fl' [Hff' [_ [Hfs Hft]]]].
  change (find_field (f_name fl) (e_fields en')) with (findk f_name (f_name fl) (e_fields en')). rewrite Hff'.
  rewrite Hsh, Hfs, Hft. exact Ha.
Qed.

(* any reader that locates a value through `address` returns, after any step of any history, what
   it returned before for every name that existed *)
Section Readers.
  Variable store : Type.
  Variable read_at : eshort * N * ftype -> store -> N -> option N.     (* address, database, row -> value *)
  Definition read (M : list nspace) (ns e f : N) (db : store) (row : N) : option N :=
    match address M ns e f with Some a => read_at a db row | None => None end.

  Theorem read_stable : forall o sys M v ns e f db row, wf_model (m_nss M) ->
    address (m_nss M) ns e f <> None ->
    read (m_nss (fst (upd o sys M v))) ns e f db row = read (m_nss M) ns e f db row.
  Proof.
    intros o sys M v ns e f db row Hwf Hdef. unfold read.
    destruct (address (m_nss M) ns e f) as [a|] eqn:Ha; [|congruence].
    rewrite (address_stable o sys M v ns e f a Hwf Ha). reflexivity.
  Qed.
End Readers.

Lemma run_steps_wf : forall steps os M, wf_model (m_nss M) -> Forall (fun r => wf_model (m_nss (snd r))) (run_steps M steps os).
Proof.
  induction steps as [|s steps IH]; intros os M Hwf; cbn [run_steps]; [constructor|].
  destruct (upd (hd zero_oracle os) (s_sys s) M (s_ver s)) as [M' e] eqn:Hu.
  pose proof (upd_wf (hd zero_oracle os) (s_sys s) M (s_ver s) Hwf) as Hwf'. rewrite Hu in Hwf'. cbn [fst] in Hwf'.
  constructor; [exact Hwf' | apply IH; exact Hwf'].
Qed.

Theorem run_steps_addresses_kept : forall steps os M, wf_model (m_nss M) -> chain addresses_kept M (run_steps M steps os).
Proof.
  induction steps as [|s steps IH]; intros os M Hwf; cbn [run_steps]; [exact I|].
  destruct (upd (hd zero_oracle os) (s_sys s) M (s_ver s)) as [M' er] eqn:Hu.
  pose proof (upd_wf (hd zero_oracle os) (s_sys s) M (s_ver s) Hwf) as Hwf'. rewrite Hu in Hwf'. cbn [fst] in Hwf'.
  cbn [chain]. split; [|apply IH; exact Hwf'].
  intros ns e f a Ha. pose proof (address_stable (hd zero_oracle os) (s_sys s) M (s_ver s) ns e f a Hwf Ha) as H. rewrite Hu in H. exact H.
Qed.


(* ------------------------------------------------------------------ instances: memory = store *)
Lemma keeps_ids_refl : forall M, wf_model (m_nss M) -> keeps_ids M M.
Proof.
  intros M Hwf. split; [apply ext_stable_b; apply model_ext_refl|]. split; [apply wf_model_b; exact Hwf|].
  destruct Hwf as [Hn [_ [Hw _]]]. apply ext_newfields_b; [apply model_ext_refl | exact Hn|].
  intros n Hin. rewrite Forall_forall in Hw. apply (Hw n Hin).
Qed.

Theorem run_inst_chain : forall steps os stored mem running base,
  wf_model (m_nss stored) -> (running = true -> mem = stored) ->
  inst_chain stored (run_inst_obs stored mem running base steps os).
Proof.
  induction steps as [|[is_start s] steps IH]; intros os stored mem running base Hwf Hmem; cbn [run_inst_obs]; [exact I|].
  destruct (negb is_start && negb running) eqn:Hskip.
  - cbn [inst_chain]. split; [reflexivity | apply IH; assumption].
  - set (o := oracle_of (hd (mkOT [] [] []) os)).
    destruct (upd o (s_sys s) stored (s_ver s)) as [W e] eqn:Hu.
    destruct (upd_keeps_ids o (s_sys s) stored (s_ver s) Hwf) as [Hk HwW]. rewrite Hu in Hk, HwW. cbn [fst] in Hk, HwW.
    destruct (is_none e && negb (storage_refuses (s_ver s))) eqn:Hok.
    + (* accepted and stored *)
      assert (Hrun : (if is_start then true else true) = true) by (destruct is_start; reflexivity).
      rewrite Hrun. cbn [inst_chain]. split; [reflexivity|]. split; [discriminate|]. split; [exact Hk|].
      apply IH; [exact HwW | reflexivity].
    + destruct is_start.
      * cbn [inst_chain]. split; [reflexivity|]. apply IH; [exact Hwf | reflexivity].
      * cbn [negb andb] in Hskip. apply negb_false_iff in Hskip. specialize (Hmem Hskip). subst mem.
        cbn [inst_chain]. split; [reflexivity|]. split; [reflexivity|]. split; [apply keeps_ids_refl; exact Hwf|].
        apply IH; [exact Hwf | reflexivity].
Qed.

(* a version the data model rules accept and the database refuses: E1 and e1 both with index(f1) *)
Definition w_ix1 : version := mkV 1 [(2, [mkED 1 false true [fS 1] [[1]]])].
Definition w_ix_clash : version := mkV 2 [(2, [mkED 1 false true [fS 1] [[1]]; mkED 1001 false true [fS 1] [[1]]])].
Definition w_ix3 : version := mkV 3 [(2, [mkED 1 false true [fS 1] [[1]]; mkED 2 false true [fS 1] []])].
Definition w_case_storage : c15case :=
  CInst [(true, mkS false w_ix1); (false, mkS false w_ix_clash); (false, mkS false w_ix3); (true, mkS false w_ix_clash); (true, mkS false w_ix3)]
        [w_none; w_none; w_none; w_none; w_none].
Lemma storage_witness :
  snd (upd zero_oracle false (fst (upd zero_oracle false empty_model w_ix1)) w_ix_clash) = None /\
  storage_refuses w_ix_clash = true /\ storage_refuses w_ix3 = false /\
  map fst (run_inst_obs empty_model empty_model false None
             [(true, mkS false w_ix1); (false, mkS false w_ix_clash); (false, mkS false w_ix3); (true, mkS false w_ix_clash); (true, mkS false w_ix3)] [])
    = [true; false; true; false; true] /\
  spec_C15 w_case_storage (run_C15 w_case_storage) = true /\ known_C15 w_case_storage = [].
Proof. repeat split; vm_compute; reflexivity. Qed.

(* finding class 4, judged by the functions the harness evaluates: E1 has rows, a later version
   gives it `f2: Boolean default true` *)
Definition w_bool : version := mkV 2 [(2, [mkED 1 false true [fS 1; mkFD 2 TBool (Some 1) false false] []])].
Definition w_case_bool : c15case := CInst [(true, mkS false w_v1); (false, mkS false w_bool)] [w_none; w_none].
Lemma bool_default_witness : spec_C15 w_case_bool (run_C15 w_case_bool) = false /\ known_C15 w_case_bool = [4%Z].
Proof. split; vm_compute; reflexivity. Qed.
