(* DataModelAgainP.v — the same version again: after an accepted version, applying the same text
   once more (what a restart does) is accepted under every iteration order and changes nothing. *)
From DV Require Import DataModel DataModelP.
From Coq Require Import Permutation.
Local Open Scope N_scope.

Lemma filter_nil : forall A (p : A -> bool) l, (forall x, In x l -> p x = false) -> filter p l = [].
Proof.
  induction l as [|a l IH]; intros H; cbn; [reflexivity|].
  rewrite (H a (or_introl eq_refl)). apply IH. intros x Hx. apply H. right. exact Hx.
Qed.
Lemma filter_partition_length : forall A (p : A -> bool) l,
  (length (filter p l) + length (filter (fun x => negb (p x)) l) = length l)%nat.
Proof. induction l as [|a l IH]; cbn; [reflexivity|]. destruct (p a); cbn; lia. Qed.
Lemma map_id_in : forall A (g : A -> A) l, (forall a, In a l -> g a = a) -> map g l = l.
Proof. induction l as [|a l IH]; intros H; cbn; [reflexivity|]. rewrite H by (left; reflexivity). f_equal. apply IH. intros b Hb. apply H. right. exact Hb. Qed.

(* pigeonhole: n distinct values inside a range of size n fill the range *)
Lemma range_filled : forall (l : list N) lo, NoDup l -> (forall x, In x l -> lo <= x /\ x < lo + len l) ->
  forall y, lo <= y -> y < lo + len l -> In y l.
Proof.
  intros l lo Hnd Hb y Hy1 Hy2.
  set (r := map (fun i => lo + N.of_nat i) (seq 0 (length l))).
  assert (Hincl : incl l r).
  { intros x Hx. destruct (Hb x Hx) as [H1 H2]. unfold r. apply in_map_iff. exists (N.to_nat (x - lo)). split; [lia|].
    apply in_seq. unfold len in H2. lia. }
  assert (Hlen : (length r <= length l)%nat) by (unfold r; rewrite map_length, seq_length; lia).
  pose proof (NoDup_length_incl Hnd Hlen Hincl) as Hback. apply Hback.
  unfold r. apply in_map_iff. exists (N.to_nat (y - lo)). split; [lia|]. apply in_seq. unfold len in Hy2. lia.
Qed.

(* ------------------------------------------------------------------ fields *)
Lemma needs_default_self : forall g t, f_nullable g && needs_default (f_nullable g) (f_default g) t = false.
Proof. intros g t. unfold needs_default. destruct (f_nullable g); reflexivity. Qed.

Lemma upd_field_found : forall qfs g nm sh ty df nu dp,
  find_field nm qfs = Some g -> sh = f_short g -> ty = f_type g -> df = f_default g -> nu = f_nullable g -> dp = f_depr g ->
  upd_field qfs (mkF nm sh ty df nu dp) = (mkF nm sh ty df nu dp, None).
Proof.
  intros qfs g nm sh ty df nu dp Hf -> -> -> -> ->. unfold upd_field. cbn [f_name f_short f_type f_nullable].
  rewrite Hf, N.eqb_refl. cbn [negb]. assert (Ht : ftype_eqb (f_type g) (f_type g) = true) by (apply ftype_eqb_eq; reflexivity).
  rewrite Ht. cbn [negb]. rewrite needs_default_self. reflexivity.
Qed.

Lemma upd_field_self : forall qfs g, NoDup (map f_name qfs) -> In g qfs -> upd_field qfs g = (g, None).
Proof.
  intros qfs g Hnd Hin. destruct g as [nm sh ty df nu dp].
  apply (upd_field_found qfs (mkF nm sh ty df nu dp)); try reflexivity.
  apply (findk_nodup f_name qfs (mkF nm sh ty df nu dp) Hnd Hin).
Qed.

Lemma upd_field_idem : forall qfs f, snd (upd_field qfs f) = None ->
  upd_field qfs (fst (upd_field qfs f)) = (fst (upd_field qfs f), None).
Proof.
  intros qfs f H. unfold upd_field in H |- *. destruct (find_field (f_name f) qfs) as [g|] eqn:Hf; [|discriminate].
  destruct (N.eqb (f_short f) (f_short g)) eqn:Hs; [|discriminate]. cbn [negb] in *.
  destruct (ftype_eqb (f_type f) (f_type g)) eqn:Ht; [|discriminate]. cbn [negb] in *.
  destruct (f_nullable f && needs_default (f_nullable g) (f_default g) (f_type f)); [discriminate|].
  cbn [fst f_name f_short f_type f_nullable]. rewrite Hf, Hs, Ht. cbn [negb]. rewrite needs_default_self. reflexivity.
Qed.

Lemma upd_field_ok_inv : forall qfs f, snd (upd_field qfs f) = None ->
  exists g, find_field (f_name f) qfs = Some g /\ f_short g = f_short f /\
            fst (upd_field qfs f) = mkF (f_name f) (f_short f) (f_type f) (f_default g) (f_nullable g) (f_depr g).
Proof.
  intros qfs f H. unfold upd_field in *. destruct (find_field (f_name f) qfs) as [g|]; [|discriminate].
  destruct (N.eqb (f_short f) (f_short g)) eqn:Hs; [|discriminate]. cbn [negb] in *.
  destruct (negb (ftype_eqb (f_type f) (f_type g))); [discriminate|].
  destruct (f_nullable f && needs_default (f_nullable g) (f_default g) (f_type f)); [discriminate|].
  exists g. apply N.eqb_eq in Hs. repeat split; congruence.
Qed.

(* ------------------------------------------------------------------ ascending, consecutive *)
Fixpoint asc (l : list N) : Prop :=
  match l with [] => True | x :: r => (forall y, In y r -> x < y) /\ asc r end.
Fixpoint consec (a : N) (l : list N) : Prop :=
  match l with [] => True | x :: r => x = a /\ consec (a + 1) r end.

Lemma ins_asc : forall A (rk : A -> N) a s, asc (map rk s) -> ~ In (rk a) (map rk s) -> asc (map rk (ins rk a s)).
Proof.
  induction s as [|b r IH]; intros Hs Hn; cbn [ins map asc]; [split; [intros y []|exact I]|].
  cbn [map asc] in Hs. destruct Hs as [Hb Hr].
  destruct (rk a <=? rk b) eqn:Hle.
  - apply N.leb_le in Hle. cbn [map asc]. split; [|split; assumption].
    assert (Hlt : rk a < rk b). { destruct (N.eq_dec (rk a) (rk b)) as [He|He]; [exfalso; apply Hn; left; symmetry; exact He | lia]. }
    intros y [<-|Hy]; [exact Hlt | specialize (Hb y Hy); lia].
  - apply N.leb_gt in Hle. cbn [map asc]. split.
    + intros y Hy. apply in_map_iff in Hy. destruct Hy as [x [<- Hx]].
      apply (Permutation_in _ (ins_perm _ rk a r)) in Hx. destruct Hx as [<-|Hx]; [exact Hle | apply Hb; apply in_map; exact Hx].
    + apply IH; [exact Hr | intros Hin; apply Hn; right; exact Hin].
Qed.
Lemma sort_by_asc : forall A (rk : A -> N) l, NoDup (map rk l) -> asc (map rk (sort_by rk l)).
Proof.
  induction l as [|a l IH]; intros Hnd; cbn [sort_by fold_right]; [exact I|].
  cbn in Hnd. inversion Hnd as [|? ? Ha Hnd']. subst. apply ins_asc; [apply IH; exact Hnd'|].
  intros Hin. apply Ha. apply in_map_iff in Hin. destruct Hin as [x [Hx Hxin]]. apply sort_by_In in Hxin.
  rewrite <- Hx. apply in_map. exact Hxin.
Qed.

(* k ascending values inside a range of size k are the range, in order *)
Lemma asc_consec : forall l lo, asc l -> (forall x, In x l -> lo <= x /\ x < lo + len l) -> consec lo l.
Proof.
  induction l as [|x r IH]; intros lo Ha Hb; cbn [consec]; [exact I|].
  cbn [asc] in Ha. destruct Ha as [Hx Hr].
  assert (Hlen : len (x :: r) = len r + 1) by (unfold len; cbn [length]; lia).
  assert (Hr' : consec (lo + 1) r).
  { apply IH; [exact Hr|]. intros y Hy. specialize (Hx y Hy). destruct (Hb x (or_introl eq_refl)) as [Hx1 _].
    destruct (Hb y (or_intror Hy)) as [_ Hy2]. rewrite Hlen in Hy2. lia. }
  split; [|exact Hr'].
  destruct (Hb x (or_introl eq_refl)) as [Hx1 Hx2]. destruct r as [|y r'].
  - rewrite Hlen in Hx2. cbn in Hx2. lia.
  - cbn [consec] in Hr'. destruct Hr' as [Hy _]. specialize (Hx y (or_introl eq_refl)). lia.
Qed.

(* the new fields of an entity stand, in the text, right after the fields the entity had *)
Lemma new_fields_range : forall e q, wf_ent e -> wf_fields (e_fields q) ->
  (forall f, In f (e_fields e) -> exists g, In g (e_fields q) /\ f_name g = f_name f /\ f_short g = f_short f) ->
  forall h, In h (new_fields e q) ->
  reserved + len (e_fields e) <= f_short h /\ f_short h < reserved + len (e_fields e) + len (new_fields e q).
Proof.
  intros e q [Hen [Hes Heb]] [Hqn [Hqs Hqb]] Hmatch h Hh.
  pose proof (new_fields_fresh e q h Hh) as Hfresh.
  assert (Hhq : In h (e_fields q)) by (unfold new_fields in Hh; apply filter_In in Hh; apply Hh).
  (* its identifier is none of the entity's *)
  assert (Hnot : ~ In (f_short h) (map f_short (e_fields e))).
  { intros Hin. apply in_map_iff in Hin. destruct Hin as [f [Hfs Hf]].
    destruct (Hmatch f Hf) as [g [Hg [Hgn Hgs]]].
    assert (g = h). { apply (NoDup_map_inj _ _ f_short (e_fields q)); [exact Hqs | exact Hg | exact Hhq | congruence]. }
    subst g. apply Hfresh. rewrite Hgn. apply in_map. exact Hf. }
  split.
  - (* the entity's identifiers fill [reserved, reserved + n) *)
    destruct (N.lt_ge_cases (f_short h) (reserved + len (e_fields e))) as [Hlt|Hge]; [|exact Hge]. exfalso. apply Hnot.
    rewrite Forall_forall in Hqb. destruct (Hqb h Hhq) as [Hh1 _].
    apply (range_filled (map f_short (e_fields e)) reserved Hes).
    + intros x Hx. apply in_map_iff in Hx. destruct Hx as [f [<- Hf]]. rewrite len_map. rewrite Forall_forall in Heb. apply Heb. exact Hf.
    + exact Hh1.
    + rewrite len_map. exact Hlt.
  - (* the text has at most as many fields as the entity's plus the new ones *)
    assert (Hp : (length (filter (fun f => has_field (f_name f) (e_fields e)) (e_fields q)) + length (new_fields e q) = length (e_fields q))%nat).
    { unfold new_fields. apply (filter_partition_length _ (fun f => has_field (f_name f) (e_fields e))). }
    assert (Hle : (length (filter (fun f => has_field (f_name f) (e_fields e)) (e_fields q)) <= length (e_fields e))%nat).
    { rewrite <- (map_length f_name (filter _ _)), <- (map_length f_name (e_fields e)).
      apply NoDup_incl_length; [apply NoDup_map_filter; exact Hqn|].
      intros x Hx. apply in_map_iff in Hx. destruct Hx as [g [<- Hg]]. apply filter_In in Hg. destruct Hg as [_ Hg].
      apply (hask_In f_name). exact Hg. }
    rewrite Forall_forall in Hqb. destruct (Hqb h Hhq) as [_ Hup]. unfold len in *. lia.
Qed.

(* fields whose parsed identifiers continue the entity's are inserted as they are *)
Lemma insert_new_consec : forall news fs, consec (reserved + len fs) (map f_short news) ->
  Forall readable news -> insert_new news fs = (fs ++ news, None).
Proof.
  induction news as [|h news IH]; intros fs Hc Hr; cbn [insert_new]; [rewrite app_nil_r; reflexivity|].
  inversion Hr as [|? ? Hh Hr']. subst. unfold readable in Hh. rewrite Hh.
  cbn [map consec] in Hc. destruct Hc as [Hs Hc].
  assert (Heta : mkF (f_name h) (reserved + len fs) (f_type h) (f_default h) (f_nullable h) (f_depr h) = h).
  { rewrite <- Hs. destruct h. reflexivity. }
  rewrite Heta. rewrite IH; [rewrite <- app_assoc; reflexivity| |exact Hr'].
  rewrite len_snoc. replace (reserved + (len fs + 1)) with (reserved + len fs + 1) by lia. exact Hc.
Qed.
Lemma insert_new_ok_readable : forall news fs, snd (insert_new news fs) = None -> Forall readable news.
Proof.
  induction news as [|h news IH]; intros fs H; cbn [insert_new] in H; [constructor|].
  destruct (needs_default (f_nullable h) (f_default h) (f_type h)) eqn:Hn; [discriminate|].
  constructor; [exact Hn | eapply IH; exact H].
Qed.

(* ------------------------------------------------------------------ entities *)
Lemma entity_update_fix : forall o nsn e q, NoDup (map f_name (e_fields q)) ->
  (forall f, In f (e_fields e) -> upd_field (e_fields q) f = (f, None)) ->
  (forall g, In g (e_fields q) -> has_field (f_name g) (e_fields e) = true) ->
  e_idx e = e_idx q -> e_depr e = e_depr q ->
  entity_update o nsn e q = (e, None).
Proof.
  intros o nsn e q Hnd Hfix Hall Hidx Hdepr. unfold entity_update.
  rewrite (loop_all_ok f_name (upd_field (e_fields q)) (o_fld o nsn (e_name e)) (e_fields e));
    [|intros a Ha; rewrite (Hfix a Ha); reflexivity].
  rewrite (map_id_in _ (fun a => fst (upd_field (e_fields q) a))); [|intros a Ha; rewrite (Hfix a Ha); reflexivity].
  assert (Hnew : new_fields e q = []).
  { unfold new_fields. apply filter_nil. intros g Hg. rewrite (Hall g Hg). reflexivity. }
  rewrite Hnew. cbn [sort_by fold_right insert_new].
  assert (Hrm : filter (fun i => negb (memN i (e_idx q)) && negb (memN i (e_rm e))) (e_idx e) = []).
  { apply filter_nil. intros i Hi. rewrite Hidx in Hi. apply memN_In in Hi. rewrite Hi. reflexivity. }
  rewrite Hrm, app_nil_r. destruct e. cbn in *. subst. reflexivity.
Qed.

Lemma entity_update_self : forall o nsn q, NoDup (map f_name (e_fields q)) -> entity_update o nsn q q = (q, None).
Proof.
  intros o nsn q Hnd. apply entity_update_fix; try reflexivity; [exact Hnd| |].
  - intros f Hf. apply upd_field_self; assumption.
  - intros g Hg. apply (hask_In f_name). apply in_map. exact Hg.
Qed.

Lemma entity_update_again : forall o o' nsn e q, wf_ent e -> wf_fields (e_fields q) ->
  snd (entity_update o nsn e q) = None ->
  entity_update o' nsn (fst (entity_update o nsn e q)) q = (fst (entity_update o nsn e q), None).
Proof.
  intros o o' nsn e q Hwe Hwq Hok.
  pose proof Hwq as [Hqn [Hqs _]].
  unfold entity_update in Hok |- *.
  destruct (loop f_name (o_fld o nsn (e_name e)) (upd_field (e_fields q)) (e_fields e)) as [fs1 er1] eqn:Hl.
  destruct er1 as [x|]; [discriminate|].
  assert (Hall : forall a, In a (e_fields e) -> snd (upd_field (e_fields q) a) = None).
  { apply (loop_ok_all f_name (upd_field (e_fields q)) (o_fld o nsn (e_name e))). rewrite Hl. reflexivity. }
  rewrite (loop_all_ok f_name (upd_field (e_fields q)) (o_fld o nsn (e_name e)) (e_fields e) Hall) in Hl.
  injection Hl as Hfs1.
  assert (Hlen1 : len fs1 = len (e_fields e)) by (rewrite <- Hfs1; apply len_map).
  assert (Hfix1 : forall f', In f' fs1 -> upd_field (e_fields q) f' = (f', None)).
  { intros f' Hf'. rewrite <- Hfs1 in Hf'. apply in_map_iff in Hf'. destruct Hf' as [f [<- Hf]]. apply upd_field_idem. apply Hall. exact Hf. }
  assert (Hnames1 : forall g, has_field (f_name g) (e_fields e) = true -> has_field (f_name g) fs1 = true).
  { intros g Hg. apply (hask_In f_name). apply (hask_In f_name) in Hg. rewrite <- Hfs1, map_map.
    rewrite (map_ext_in _ f_name); [exact Hg|]. intros a _. apply upd_field_ext. }
  set (news := sort_by f_short (new_fields e q)) in *.
  assert (Hnews_in : forall h, In h news <-> In h (new_fields e q)) by (intros h; apply sort_by_In).
  assert (Hlenn : len news = len (new_fields e q)).
  { unfold len. f_equal. apply Permutation_length. apply sort_by_perm. }
  assert (Hmatch : forall f, In f (e_fields e) -> exists g, In g (e_fields q) /\ f_name g = f_name f /\ f_short g = f_short f).
  { intros f Hf. destruct (upd_field_ok_inv _ _ (Hall f Hf)) as [g [Hg [Hgs _]]]. apply (findk_some f_name) in Hg. destruct Hg as [Hgin Hgn].
    exists g. repeat split; assumption. }
  assert (Hcons : consec (reserved + len fs1) (map f_short news)).
  { apply asc_consec.
    - apply sort_by_asc. apply NoDup_map_filter. exact Hqs.
    - intros x Hx. apply in_map_iff in Hx. destruct Hx as [h [<- Hh]]. rewrite len_map, Hlen1, Hlenn.
      apply (new_fields_range e q Hwe Hwq Hmatch). apply Hnews_in. exact Hh. }
  destruct (insert_new news fs1) as [fs2 er2] eqn:Hi.
  destruct er2 as [x|]; [discriminate|].
  assert (Hread : Forall readable news). { apply (insert_new_ok_readable news fs1). rewrite Hi. reflexivity. }
  rewrite (insert_new_consec news fs1 Hcons Hread) in Hi. injection Hi as Hfs2. subst fs2. cbn [fst].
  apply entity_update_fix; cbn [e_fields e_idx e_depr]; try reflexivity; [exact Hqn| |].
  - intros f' Hf'. apply in_app_or in Hf'. destruct Hf' as [Hf'|Hf']; [apply Hfix1; exact Hf'|].
    apply upd_field_self; [exact Hqn|]. apply Hnews_in in Hf'. unfold new_fields in Hf'. apply filter_In in Hf'. apply Hf'.
  - intros g Hg. unfold has_field. rewrite existsb_app. apply orb_true_iff.
    destruct (has_field (f_name g) (e_fields e)) eqn:Hh; [left; apply Hnames1; exact Hh|]. right.
    apply (hask_In f_name). apply in_map. apply Hnews_in. unfold new_fields. apply filter_In. split; [exact Hg | rewrite Hh; reflexivity].
Qed.

Lemma upd_ent_fix : forall o nsn qes e q, find_ent (e_name e) qes = Some q -> e_short q = e_short e ->
  entity_update o nsn e q = (e, None) -> upd_ent o nsn qes e = (e, None).
Proof.
  intros o nsn qes e q Hf Hs Hu. unfold upd_ent. rewrite Hf.
  assert (Hb : short_eqb (e_short e) (e_short q) = true) by (apply short_eqb_eq; symmetry; exact Hs).
  rewrite Hb. cbn [negb]. exact Hu.
Qed.

Lemma upd_ent_self : forall o nsn qes q, NoDup (map e_name qes) -> In q qes -> wf_ent q -> upd_ent o nsn qes q = (q, None).
Proof.
  intros o nsn qes q Hnd Hin [Hqn _]. apply (upd_ent_fix o nsn qes q q); [apply (findk_nodup e_name); assumption | reflexivity|].
  apply entity_update_self. exact Hqn.
Qed.

Lemma upd_ent_again : forall o o' nsn qes e, wf_ent e -> Forall wf_ent qes ->
  snd (upd_ent o nsn qes e) = None ->
  upd_ent o' nsn qes (fst (upd_ent o nsn qes e)) = (fst (upd_ent o nsn qes e), None).
Proof.
  intros o o' nsn qes e Hwe Hwq Hok.
  destruct (upd_ent_ok_inv o nsn qes e Hok) as [q [Hf Hs]].
  assert (Hwq' : wf_fields (e_fields q)).
  { apply (findk_some e_name) in Hf. rewrite Forall_forall in Hwq. apply (Hwq q). apply Hf. }
  unfold upd_ent in Hok |- *. rewrite Hf in Hok |- *.
  assert (Hb : short_eqb (e_short e) (e_short q) = true) by (apply short_eqb_eq; symmetry; exact Hs).
  rewrite Hb in Hok |- *. cbn [negb] in Hok |- *.
  destruct (entity_update_ext o nsn e q) as [Hname [Hshort _]].
  apply (upd_ent_fix o' nsn qes _ q); [rewrite Hname; exact Hf | rewrite Hshort; exact Hs|].
  apply entity_update_again; [exact Hwe | exact Hwq' | exact Hok].
Qed.

(* ------------------------------------------------------------------ namespaces *)
Lemma upd_ns_fix : forall o sys P n p, find_ns (n_name n) P = Some p -> n_id p = n_id n ->
  (forall e, In e (n_ents n) -> upd_ent o (n_name n) (n_ents p) e = (e, None)) ->
  (forall q, In q (n_ents p) -> has_ent (e_name q) (n_ents n) = true) ->
  upd_ns o sys P n = (n, None).
Proof.
  intros o sys P n p Hf Hid Hfix Hall. unfold upd_ns. rewrite Hf, Hid, N.eqb_refl. cbn [negb].
  rewrite (loop_all_ok e_name (upd_ent o (n_name n) (n_ents p)) (o_ent o (n_name n)) (n_ents n));
    [|intros a Ha; rewrite (Hfix a Ha); reflexivity].
  rewrite (map_id_in _ (fun a => fst (upd_ent o (n_name n) (n_ents p) a))); [|intros a Ha; rewrite (Hfix a Ha); reflexivity].
  assert (Hnew : new_ents n p = []).
  { unfold new_ents. apply filter_nil. intros q Hq. rewrite (Hall q Hq). reflexivity. }
  rewrite Hnew, app_nil_r. destruct n. reflexivity.
Qed.

Lemma upd_ns_self : forall o sys P p, NoDup (map n_name P) -> In p P -> wf_ns p -> upd_ns o sys P p = (p, None).
Proof.
  intros o sys P p Hnd Hin [Hen [_ Hf]]. apply (upd_ns_fix o sys P p p); [apply (findk_nodup n_name); assumption | reflexivity | |].
  - intros e He. apply upd_ent_self; [exact Hen | exact He|]. rewrite Forall_forall in Hf. apply Hf. exact He.
  - intros q Hq. apply (hask_In e_name). apply in_map. exact Hq.
Qed.

Lemma upd_ns_again : forall o o' sys P n, wf_ns n -> Forall wf_ns P ->
  snd (upd_ns o sys P n) = None ->
  upd_ns o' sys P (fst (upd_ns o sys P n)) = (fst (upd_ns o sys P n), None).
Proof.
  intros o o' sys P n Hwn HwP Hok.
  destruct (find_ns (n_name n) P) as [p|] eqn:Hf.
  - assert (Hp : wf_ns p). { apply (findk_some n_name) in Hf. rewrite Forall_forall in HwP. apply HwP. apply Hf. }
    destruct Hp as [Hpn [_ Hpf]]. destruct Hwn as [Hnn [_ Hnf]].
    unfold upd_ns in Hok |- *. rewrite Hf in Hok |- *.
    destruct (N.eqb (n_id p) (n_id n)) eqn:Hid; [|discriminate]. cbn [negb] in Hok |- *. apply N.eqb_eq in Hid.
    set (F := upd_ent o (n_name n) (n_ents p)) in *.
    destruct (loop e_name (o_ent o (n_name n)) F (n_ents n)) as [es er] eqn:Hl.
    destruct er as [x|]; [discriminate|]. cbn [fst].
    assert (Hall : forall a, In a (n_ents n) -> snd (F a) = None).
    { apply (loop_ok_all e_name F (o_ent o (n_name n))). rewrite Hl. reflexivity. }
    rewrite (loop_all_ok e_name F (o_ent o (n_name n)) (n_ents n) Hall) in Hl. injection Hl as Hes.
    assert (Hwq : Forall wf_ent (n_ents p)) by (eapply Forall_impl; [|exact Hpf]; intros a [_ Ha]; exact Ha).
    apply (upd_ns_fix o' sys P (set_ents n (es ++ new_ents n p)) p); cbn [n_name n_id n_ents set_ents]; [exact Hf | exact Hid | |].
    + intros e' He'. apply in_app_or in He'. destruct He' as [He'|He'].
      * rewrite <- Hes in He'. apply in_map_iff in He'. destruct He' as [e [<- He]]. unfold F. apply upd_ent_again.
        -- rewrite Forall_forall in Hnf. apply Hnf. exact He.
        -- exact Hwq.
        -- apply Hall. exact He.
      * unfold new_ents in He'. apply filter_In in He'. destruct He' as [He' _].
        apply upd_ent_self; [exact Hpn | exact He'|]. rewrite Forall_forall in Hwq. apply Hwq. exact He'.
    + intros q Hq. unfold has_ent. rewrite existsb_app. apply orb_true_iff.
      destruct (has_ent (e_name q) (n_ents n)) eqn:Hh.
      * left. apply (hask_In e_name). apply (hask_In e_name) in Hh. rewrite <- Hes, map_map.
        rewrite (map_ext_in _ e_name); [exact Hh|]. intros a _. apply upd_ent_ext.
      * right. apply (hask_In e_name). apply in_map. unfold new_ents. apply filter_In. split; [exact Hq | rewrite Hh; reflexivity].
  - unfold upd_ns in Hok |- *. rewrite Hf in Hok |- *. cbn [fst snd] in Hok |- *. rewrite Hf. rewrite Hok. reflexivity.
Qed.

(* ------------------------------------------------------------------ the model *)
Lemma apply_upd_fix : forall o (sys : bool) M v P, parse (if sys then 0 else 1) v = Ok P -> ns_check_fails sys P = false ->
  (forall n, In n (m_nss M) -> upd_ns o sys P n = (n, None)) ->
  (forall p, In p P -> has_ns (n_name p) (m_nss M) = true) ->
  apply_upd o sys M v = (mkM (v_tag v) (m_nss M), None).
Proof.
  intros o sys M v P Hp Hc Hfix Hall. unfold apply_upd. rewrite Hp, Hc.
  rewrite (loop_all_ok n_name (upd_ns o sys P) (o_ns o) (m_nss M)); [|intros a Ha; rewrite (Hfix a Ha); reflexivity].
  rewrite (map_id_in _ (fun a => fst (upd_ns o sys P a))); [|intros a Ha; rewrite (Hfix a Ha); reflexivity].
  assert (Hnew : new_nss (m_nss M) P = []).
  { unfold new_nss. apply filter_nil. intros p Hin. rewrite (Hall p Hin). reflexivity. }
  rewrite Hnew, app_nil_r. reflexivity.
Qed.

Lemma apply_upd_again : forall o o' (sys : bool) M v, wf_model (m_nss M) ->
  snd (apply_upd o sys M v) = None ->
  apply_upd o' sys (fst (apply_upd o sys M v)) v = (fst (apply_upd o sys M v), None).
Proof.
  intros o o' sys M v Hwf Hok.
  destruct (parse (if sys then 0 else 1) v) as [P|pe] eqn:Hparse; [|unfold apply_upd in Hok; rewrite Hparse in Hok; discriminate].
  destruct (parse_wf _ _ _ Hparse) as [HPn [HPi [HPw HPb]]].
  assert (HPwf : Forall wf_ns P) by (eapply Forall_impl; [|exact HPw]; intros a [Ha _]; exact Ha).
  destruct Hwf as [Hn [Hi [Hw Hr]]].
  unfold apply_upd in Hok |- *. rewrite Hparse in Hok |- *.
  destruct (ns_check_fails sys P) eqn:Hc; [discriminate|].
  set (F := upd_ns o sys P) in *.
  destruct (loop n_name (o_ns o) F (m_nss M)) as [nss er] eqn:Hl.
  destruct er as [x|]; [discriminate|]. cbn [fst].
  assert (Hall : forall a, In a (m_nss M) -> snd (F a) = None).
  { apply (loop_ok_all n_name F (o_ns o)). rewrite Hl. reflexivity. }
  rewrite (loop_all_ok n_name F (o_ns o) (m_nss M) Hall) in Hl. injection Hl as Hnss.
  pose proof (apply_upd_fix o' sys (mkM (v_tag v) (nss ++ new_nss (m_nss M) P)) v P Hparse Hc) as Hfix.
  unfold apply_upd in Hfix. rewrite Hparse, Hc in Hfix. cbn [m_nss m_tag] in Hfix. apply Hfix.
  - intros n' Hn'. apply in_app_or in Hn'. destruct Hn' as [Hn'|Hn'].
    + rewrite <- Hnss in Hn'. apply in_map_iff in Hn'. destruct Hn' as [n [<- Hin]]. unfold F. apply upd_ns_again.
      * rewrite Forall_forall in Hw. apply Hw. exact Hin.
      * exact HPwf.
      * apply Hall. exact Hin.
    + unfold new_nss in Hn'. apply filter_In in Hn'. destruct Hn' as [Hn' _].
      apply upd_ns_self; [exact HPn | exact Hn'|]. rewrite Forall_forall in HPwf. apply HPwf. exact Hn'.
  - intros p Hp. unfold has_ns. rewrite existsb_app. apply orb_true_iff.
    destruct (has_ns (n_name p) (m_nss M)) eqn:Hh.
    + left. apply (hask_In n_name). apply (hask_In n_name) in Hh. rewrite <- Hnss, map_map.
      rewrite (map_ext_in _ n_name); [exact Hh|]. intros a _. apply upd_ns_ext.
    + right. apply (hask_In n_name). apply in_map. unfold new_nss. apply filter_In. split; [exact Hp | rewrite Hh; reflexivity].
Qed.

(* an accepted version applied again — under any iteration order — is accepted and changes nothing *)
Theorem upd_again : forall o o' sys M v, wf_model (m_nss M) -> snd (upd o sys M v) = None ->
  upd o' sys (fst (upd o sys M v)) v = (fst (upd o sys M v), None).
Proof.
  intros o o' sys M v Hwf Hok. destruct (upd_cases o sys M v) as [[Ha Hu] | [x [_ Hu]]]; [|rewrite Hu in Hok; discriminate].
  rewrite Hu. pose proof (apply_upd_again o o' sys M v Hwf Ha) as H2.
  unfold upd at 1. rewrite H2. reflexivity.
Qed.
