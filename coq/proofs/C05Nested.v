(* C05Nested.v — tier T2, first slice: the statement compiled for a query with nested entity / array references,
   run over a forest of rows, gives the reference evaluation (outside the open classes, level by level). *)
From DV Require Import Eval Sql Nested Run_C05 C05Sort C05Order C05Sql C05P.
From Coq Require Import Permutation.
Open Scope list_scope.

(* ---------- one level: the facts the T1 proof establishes, for a level compiled anywhere in the statement ---------- *)
Lemma holds_combine : forall m q ps r (fl : list qfilter) fvals,
  Forall2 (fun f y => operand_value ps (fl_val f) = Some y) fl fvals ->
  forallb (fun fv : qfilter * val => holds (fl_op (fst fv)) (ref_value m q r (fl_ref (fst fv))) (snd fv)) (combine fl fvals) =
  forallb (fun f => holds (fl_op f) (ref_value m q r (fl_ref f)) (opval ps (fl_val f))) fl.
Proof.
  intros m q ps r fl fvals H. induction H as [|f y fl fvals Hf Hrest IH]. reflexivity.
  cbn [combine forallb fst snd]. rewrite IH. unfold opval. rewrite Hf. reflexivity.
Qed.

Lemma opval_map : forall ps (l : list operand) cur, Forall2 (fun o y => operand_value ps o = Some y) l cur -> map (opval ps) l = cur.
Proof.
  intros ps l cur H. induction H as [|o y l cur Ho Hrest IH]. reflexivity.
  cbn [map]. rewrite IH. unfold opval. rewrite Ho. reflexivity.
Qed.

Lemma level_facts : forall m rows q ps (unique : bool) vo0 vo1 sel voa vo2 fs vo3 pg vo4 lim off vf binds s,
  compile_sel m vo0 (q_sel q) = (vo1, sel) -> pfx vo1 voa ->
  compile_filters m q voa (q_filters q) = (vo2, fs) ->
  compile_disjs (is_before (q_paging q)) vo2 [] (combine (q_order q) (paging_values (q_paging q))) = (vo3, pg) ->
  (if unique then (vo3, Some (XInt 1), None) else compile_limit vo3 q) = (vo4, lim, off) ->
  pfx vo4 vf -> bind vf ps = Some binds ->
  st_sel s = sel -> st_filters s = fs -> st_paging s = pg ->
  st_order s = map (fun k : okey => (ref_sx (ok_ref k), ok_dir k)) (q_order q) -> st_limit s = lim -> st_offset s = off ->
  wf_query m q = true -> params_ok q ps = true -> known_query m rows q ps = [] ->
  (forall r, In r rows -> is_true (where_eval binds r (json_object binds s r) s) = row_passes m q ps r) /\
  (forall a b, In a rows -> In b rows -> srow_cmp binds s a b = lex_cmp (dirs q) (row_keys m q a) (row_keys m q b)) /\
  (forall r, In r rows -> json_object binds s r = project m q r) /\
  (forall A (l : list A), sql_limit (lim_z binds (st_limit s)) (lim_z binds (st_offset s)) l =
                          limit_nodes unique (opint ps (q_first q)) (match q_skip q with Some o => opint ps o | None => 0 end) l).
Proof.
  intros m rows q ps unique vo0 vo1 sel voa vo2 fs vo3 pg vo4 lim off vf binds s E1 Hpa E2 E3 E4 Hpf4 Hb Ssel Sfs Spg Sord Slim Soff Hwf Hpo Hk.
  unfold known_query in Hk.
  apply cls_nil in Hk. destruct Hk as [K1 Hk]. apply cls_nil in Hk. destruct Hk as [K2 Hk].
  apply cls_nil in Hk. destruct Hk as [K3 Hk]. apply cls_nil in Hk. destruct Hk as [K6 K7]. apply cls_nil1 in K7.
  unfold wf_query in Hwf. apply andb_prop in Hwf. destruct Hwf as [Hwf W4]. apply andb_prop in Hwf. destruct Hwf as [Hwf W3].
  apply andb_prop in Hwf. destruct Hwf as [W1 W2].
  unfold params_ok in Hpo. apply andb_prop in Hpo. destruct Hpo as [Hpo P4]. apply andb_prop in Hpo. destruct Hpo as [Hpo P3].
  apply andb_prop in Hpo. destruct Hpo as [P1 P2].
  rewrite forallb_forall in W1, W2, W3, P1, P4.
  destruct (compile_sel_sem _ _ _ _ _ E1) as [Hp1 C1].
  destruct (compile_filters_shape _ _ _ _ _ _ E2) as [Hp2 C2].
  destruct (compile_disjs_sem _ _ _ _ _ _ E3) as [Hp3 C3].
  assert (Hp4 : pfx vo3 vo4).
  { destruct unique. injection E4 as <- _ _. apply pfx_refl. apply (compile_limit_sem _ _ _ _ _ E4). }
  assert (Hpf3 : pfx vo3 vf) by (eapply pfx_trans; eauto).
  assert (Hpf2 : pfx vo2 vf) by (eapply pfx_trans; eauto).
  assert (Hpfa : pfx voa vf) by (eapply pfx_trans; eauto).
  assert (Hpf1 : pfx vo1 vf) by (eapply pfx_trans; eauto).
  destruct (all_some_Forall2 _ _ (fun f => operand_value ps (fl_val f)) (q_filters q)) as (fvals & Hfv & Hfv2).
  { intros f Hin. destruct (fl_val f) as [v|n] eqn:Ev; simpl. discriminate.
    specialize (P1 n (vars_filter q f n Hin Ev)). destruct (lookup n ps); congruence. }
  destruct (all_some_Forall2 _ _ (operand_value ps) (paging_values (q_paging q))) as (cur & Hcur & Hcur2).
  { intros o Hin. destruct o as [v|n]; simpl. discriminate.
    specialize (P1 n (vars_paging q (OVar n) n Hin eq_refl)). destruct (lookup n ps); congruence. }
  pose proof (C1 vf ps binds Hpf1 Hb) as HC1. rewrite <- Ssel in HC1.
  pose proof (C2 vf ps binds Hpf2 Hb) as HC2.
  split; [|split; [|split]].
  - (* WHERE *)
    intros r Hr. unfold row_passes. rewrite <- (holds_combine m q ps r _ fvals Hfv2).
    assert (Hfl : forallb (fun sf => is_true (filter_eval binds r (json_object binds s r) sf)) fs =
                  forallb (fun fv : qfilter * val => holds (fl_op (fst fv)) (ref_value m q r (fl_ref (fst fv))) (snd fv)) (combine (q_filters q) fvals)).
    { eapply filters_sem. exact HC2. exact Hfv2.
      - intros k0. apply (alias_canon m q rows binds s HC1 K3 K2 r k0 Hr).
      - intros f Hin Hl. specialize (W1 f Hin). rewrite Hl in W1. destruct (filter_default m q f); [discriminate | reflexivity].
      - intros f d Hin Hd Hdn. subst d. unfold filter_default in Hd. destruct (ref_field q (fl_ref f)) as [i|]; try discriminate.
        destruct (default_of_In m i VNull Hd) as (fd & Hfd & Hdd). specialize (W2 fd Hfd). rewrite Hdd in W2. discriminate.
      - intros f nm Hin Hop Hv Hl. unfold k_nullvar in K6.
        assert (Hex : existsb (fun f0 => match fl_op f0, fl_val f0 with
                                        | (OEq | ONe), OVar n0 => match lookup n0 ps with Some VNull => true | _ => false end
                                        | _, _ => false end) (q_filters q) = true).
        { apply existsb_exists. exists f. split. exact Hin. rewrite Hv, Hl. destruct Hop as [-> | ->]; reflexivity. }
        congruence. }
    unfold where_eval. rewrite Sfs, Spg.
    assert (Hpaged : forall (before : bool) vs, q_paging q = (if before then PBefore vs else PAfter vs) ->
              is_true (match pg with [] => fold_right (fun f acc => tv_and (filter_eval binds r (json_object binds s r) f) acc) (Some true) fs
                       | _ => tv_and (fold_right (fun f acc => tv_and (filter_eval binds r (json_object binds s r) f) acc) (Some true) fs)
                                     (fold_right (fun d acc => tv_or (disj_eval binds r (json_object binds s r) d) acc) (Some false) pg) end)
              = (forallb (fun fv : qfilter * val => holds (fl_op (fst fv)) (ref_value m q r (fl_ref (fst fv))) (snd fv)) (combine (q_filters q) fvals)
                 && match lex_cmp (dirs q) (row_keys m q r) cur with Gt => negb before | Lt => before | Eq => false end)).
    { intros before vs Ep.
      assert (Epv : paging_values (q_paging q) = vs) by (rewrite Ep; destruct before; reflexivity).
      assert (Epb : is_before (q_paging q) = before) by (rewrite Ep; destruct before; reflexivity).
      rewrite Epv, Epb in E3. rewrite Epv in Hcur2, W3, P4.
      assert (W4' : negb (Nat.eqb (List.length vs) 0) && Nat.leb (List.length vs) (List.length (q_order q)) = true).
      { rewrite Ep in W4. destruct before; exact W4. }
      apply andb_prop in W4'. destruct W4' as [W4a W4b]. apply Nat.leb_le in W4b.
      assert (W4c : List.length vs <> 0%nat). { intros Hc. rewrite Hc in W4a. discriminate. }
      rewrite Epv, Epb in C3.
      assert (Hcne : combine (q_order q) vs <> []).
      { intros Hc. pose proof (combine_length (q_order q) vs) as Hcl. rewrite Hc in Hcl. simpl in Hcl. lia. }
      pose proof (compile_disjs_nonempty' _ _ _ _ _ _ E3 Hcne) as Hne.
      destruct pg as [|d0 pg']; [congruence|].
      rewrite is_true_and, filters_fold, Hfl.
      destruct (forallb (fun fv : qfilter * val => holds (fl_op (fst fv)) (ref_value m q r (fl_ref (fst fv))) (snd fv)) (combine (q_filters q) fvals)) eqn:Hpass; [|reflexivity].
      cbn [andb].
      assert (HF2 : Forall2 (fun (ko0 : okey * operand) c => operand_value ps (snd ko0) = Some c) (combine (q_order q) vs) cur).
      { apply (Forall2_combine_order (fun o c => operand_value ps o = Some c)). exact Hcur2. exact W4b. }
      rewrite (C3 vf ps binds Hpf3 Hb) with (kval := kval m q r) (cd := []) (ct := cur).
      2: { intros k0. apply (kval_canon m q rows binds s HC1 K3 K2 r k0 Hr). }
      2: constructor.
      2: exact HF2.
      cbn [trip combine map forallb andb].
      rewrite (trip_zip _ _ _ _ _ HF2), (kvals_keys m q rows K2 r Hr). fold (dirs q).
      rewrite vlex_lexz, <- lex_cmp_zip. reflexivity.
      intros d kv c Hin. apply In_combine3_firstn in Hin. destruct Hin as [Hk Hc]. split.
      - assert (Hk1 : k_paging (List.length vs) m rows q ps = false).
        { rewrite Ep in K1. destruct before; cbn [paging_values] in K1; exact K1. }
        unfold k_paging in Hk1.
        assert (Hlen : List.length cur = List.length vs) by (symmetry; eapply Forall2_length'; eauto).
        rewrite Hlen in Hk. intros Hn. subst kv.
        assert (Hex : existsb (existsb is_null) (map (firstn (List.length vs)) (matching_keys m rows q ps)) = true).
        { apply existsb_exists. exists (firstn (List.length vs) (row_keys m q r)). split.
          - apply in_map. unfold matching_keys. apply in_map. unfold matching. apply filter_In. split. exact Hr.
            rewrite (filter_values_eq q ps fvals Hfv2). cbn [q_filters q_paging no_paging]. rewrite andb_true_r.
            rewrite forallb_forall in Hpass |- *. intros fv Hfvin. rewrite ref_value_no_paging. apply Hpass. exact Hfvin.
          - apply existsb_exists. exists VNull. split. exact Hk. reflexivity. }
        congruence.
      - destruct (Forall2_In_r _ _ _ _ _ _ Hcur2 Hc) as (o & Ho & Hov). specialize (P4 o Ho). rewrite Hov in P4.
        intros Hn. subst c. discriminate. }
    destruct (q_paging q) as [|vs|vs] eqn:Ep.
    + cbn [paging_values is_before] in E3. rewrite combine_nil in E3. cbn in E3. injection E3 as _ <-.
      rewrite filters_fold, Hfl, andb_true_r. reflexivity.
    + pose proof (Hpaged false vs eq_refl) as HP. cbn [negb] in HP. cbn [paging_values] in Hcur2.
      rewrite (opval_map ps vs cur Hcur2).
      transitivity (forallb (fun fv : qfilter * val => holds (fl_op (fst fv)) (ref_value m q r (fl_ref (fst fv))) (snd fv)) (combine (q_filters q) fvals)
                    && match lex_cmp (dirs q) (row_keys m q r) cur with Gt => true | Lt => false | Eq => false end).
      * rewrite <- HP. destruct pg; reflexivity.
      * destruct (lex_cmp (dirs q) (row_keys m q r) cur); reflexivity.
    + pose proof (Hpaged true vs eq_refl) as HP. cbn [negb] in HP. cbn [paging_values] in Hcur2.
      rewrite (opval_map ps vs cur Hcur2).
      transitivity (forallb (fun fv : qfilter * val => holds (fl_op (fst fv)) (ref_value m q r (fl_ref (fst fv))) (snd fv)) (combine (q_filters q) fvals)
                    && match lex_cmp (dirs q) (row_keys m q r) cur with Gt => false | Lt => true | Eq => false end).
      * rewrite <- HP. destruct pg; reflexivity.
      * destruct (lex_cmp (dirs q) (row_keys m q r) cur); reflexivity.
  - intros a b Ha Hb'. apply (order_cmp_lex m q rows binds s HC1 Sord K3 K2); assumption.
  - intros r Hr. unfold project, json_object. apply project_eq. exact HC1.
    intros sf b Hin Hd. eapply bool_rows; eauto.
  - intros A l. rewrite Slim, Soff. destruct unique.
    + injection E4 as _ <- <-. reflexivity.
    + destruct (option_map as_int (operand_value ps (q_first q))) as [[n|]|] eqn:Ef; try discriminate.
      set (sk := match q_skip q with None => Some (Some 0) | Some o => option_map as_int (operand_value ps o) end).
      assert (Hsk : exists k, sk = Some (Some k)).
      { subst sk. destruct (q_skip q) as [o|]. destruct (option_map as_int (operand_value ps o)) as [[k|]|]; try discriminate. exists k. reflexivity. exists 0. reflexivity. }
      destruct Hsk as [k Hsk].
      destruct (compile_limit_sem _ _ _ _ _ E4) as [_ C4].
      destruct (C4 vf ps binds n k Hpf4 Hb Ef Hsk K7) as (ln & lk & Hln & Hlk & Hlim & Hoff).
      assert (Hn : opint ps (q_first q) = n).
      { unfold opint, opval. destruct (operand_value ps (q_first q)) as [v|]; try discriminate. simpl in Ef. destruct v; try discriminate. injection Ef as <-. reflexivity. }
      assert (Hkk : match q_skip q with Some o => opint ps o | None => 0 end = k).
      { subst sk. destruct (q_skip q) as [o|]. unfold opint, opval. destruct (operand_value ps o) as [v|]; try discriminate. simpl in Hsk. destruct v; try discriminate. injection Hsk as <-. reflexivity.
        injection Hsk as <-. reflexivity. }
      rewrite Hn, Hkk.
      assert (Hlz : forall o x, lim_value binds o = Some x -> lim_z binds o = x).
      { intros o x H. unfold lim_value, lim_z in *. destruct o as [e|]. destruct (sx_eval binds [] [] e); try discriminate. injection H as <-. reflexivity. injection H as <-. reflexivity. }
      rewrite (Hlz _ _ Hln), (Hlz _ _ Hlk). unfold limit_nodes.
      rewrite <- (Hoff A l). rewrite <- (Hlim A (offset_list lk l)). reflexivity.
Qed.

(* ---------- induction on nested queries ---------- *)
Section Q2ind.
  Variable P : q2 -> Prop.
  Hypothesis H : forall m q subs, Forall (fun p : subinfo * q2 => P (snd p)) subs -> P (Q2 m q subs).
  Fixpoint q2_ind' (Q : q2) : P Q :=
    match Q with
    | Q2 m q subs =>
        H m q subs ((fix go (l : list (subinfo * q2)) : Forall (fun p : subinfo * q2 => P (snd p)) l :=
                       match l with
                       | [] => Forall_nil _
                       | p :: t => Forall_cons p (q2_ind' (snd p)) (go t)
                       end) subs)
    end.
End Q2ind.

(* ---------- unfolding equations ---------- *)
Definition F_sel (p : subinfo * q2) (vo : list pentry) : list pentry * cq2 :=
  compile_level (snd p) (quoted (si_name (fst p))) (negb (si_array (fst p))) vo.
Definition F_ex (p : subinfo * q2) (vo : list pentry) : list pentry * cq2 :=
  compile_level (snd p) (quoted (si_name (fst p))) (exists_unique (fst p)) vo.

Lemma compile_level_eq : forall m q subs table unique vo,
  compile_level (Q2 m q subs) table unique vo =
  let '(vo1, sel) := compile_sel m vo (q_sel q) in
  let '(vo2, sel_subs) :=
    fold_left (fun (acc : list pentry * list (subinfo * cq2)) (p : subinfo * q2) =>
                 let '(v, c) := F_sel p (fst acc) in (v, snd acc ++ [(fst p, c)])) subs (vo1, []) in
  let '(vo3, ex_subs) :=
    fold_left (fun (acc : list pentry * list (subinfo * cq2)) (p : subinfo * q2) =>
                 if si_nullable (fst p) then acc
                 else let '(v, c) := F_ex p (fst acc) in (v, snd acc ++ [(fst p, c)])) subs (vo2, []) in
  let '(vo4, fs) := compile_filters m q vo3 (q_filters q) in
  let '(vo5, pg) := compile_disjs (is_before (q_paging q)) vo4 [] (combine (q_order q) (paging_values (q_paging q))) in
  let '(vo6, lim, off) := if unique then (vo5, Some (XInt 1), None) else compile_limit vo5 q in
  (vo6, CQ m {| st_table := table; st_eshort := em_short m; st_sel := sel; st_filters := fs; st_paging := pg;
                st_order := map (fun k => (ref_sx (ok_ref k), ok_dir k)) (q_order q);
                st_limit := lim; st_offset := off |} sel_subs ex_subs).
Proof. reflexivity. Qed.

Definition children (nd : node) (si : subinfo) : list node := nth (si_ref si) (nrefs nd) [].
Definition is_nil {A} (l : list A) : bool := match l with [] => true | _ => false end.

Lemma eval_nodes_eq : forall m q subs ps unique nodes,
  eval_nodes (Q2 m q subs) ps unique nodes =
  let sub_results (nd : node) : list (subinfo * list jv) :=
    map (fun p : subinfo * q2 => (fst p, eval_nodes (snd p) ps (negb (si_array (fst p))) (children nd (fst p)))) subs in
  let passing := filter (fun nd => row_passes m q ps (nvals nd)
                                   && forallb (fun sr : subinfo * list jv => si_nullable (fst sr) || negb (is_nil (snd sr))) (sub_results nd)) nodes in
  let sorted := isort (fun a b => lex_cmp (dirs q) (row_keys m q (nvals a)) (row_keys m q (nvals b))) passing in
  let limited := limit_nodes unique (opint ps (q_first q)) (match q_skip q with Some o => opint ps o | None => 0 end) sorted in
  map (fun nd => JO (map JS (project m q (nvals nd)) ++
                     map (fun sr : subinfo * list jv => nested_value (si_array (fst sr)) (snd sr)) (sub_results nd))) limited.
Proof. reflexivity. Qed.

Lemma run_nodes_eq : forall m s sel_subs ex_subs binds nodes,
  run_nodes (CQ m s sel_subs ex_subs) binds nodes =
  let passing := filter (fun nd =>
                           is_true (where_eval binds (nvals nd) (json_object binds s (nvals nd)) s)
                           && forallb (fun p : subinfo * cq2 => negb (is_nil (run_nodes (snd p) binds (children nd (fst p))))) ex_subs) nodes in
  let sorted := ssort (fun a b => srow_cmp binds s (nvals a) (nvals b)) passing in
  let limited := sql_limit (lim_z binds (st_limit s)) (lim_z binds (st_offset s)) sorted in
  map (fun nd => JO (map JS (json_object binds s (nvals nd)) ++
                     map (fun p : subinfo * cq2 => nested_value (si_array (fst p)) (run_nodes (snd p) binds (children nd (fst p)))) sel_subs)) limited.
Proof. reflexivity. Qed.

(* ---------- the threaded compilation of the references ---------- *)
Inductive chain (F : subinfo * q2 -> list pentry -> list pentry * cq2) : list (subinfo * q2) -> list pentry -> list pentry -> list (subinfo * cq2) -> Prop :=
| ch_nil : forall vo, chain F [] vo vo []
| ch_cons : forall p t vo v1 c vo' cs, F p vo = (v1, c) -> chain F t v1 vo' cs -> chain F (p :: t) vo vo' ((fst p, c) :: cs).
Inductive chain_ex (F : subinfo * q2 -> list pentry -> list pentry * cq2) : list (subinfo * q2) -> list pentry -> list pentry -> list (subinfo * cq2) -> Prop :=
| cx_nil : forall vo, chain_ex F [] vo vo []
| cx_skip : forall p t vo vo' cs, si_nullable (fst p) = true -> chain_ex F t vo vo' cs -> chain_ex F (p :: t) vo vo' cs
| cx_cons : forall p t vo v1 c vo' cs, si_nullable (fst p) = false -> F p vo = (v1, c) -> chain_ex F t v1 vo' cs -> chain_ex F (p :: t) vo vo' ((fst p, c) :: cs).

Lemma fold_chain : forall F subs vo acc0 vo' r,
  fold_left (fun (acc : list pentry * list (subinfo * cq2)) (p : subinfo * q2) =>
               let '(v, c) := F p (fst acc) in (v, snd acc ++ [(fst p, c)])) subs (vo, acc0) = (vo', r) ->
  exists cs, r = acc0 ++ cs /\ chain F subs vo vo' cs.
Proof.
  intros F subs. induction subs as [|p t IH]; intros vo acc0 vo' r H; cbn [fold_left] in H.
  - injection H as <- <-. exists []. split. rewrite app_nil_r. reflexivity. constructor.
  - cbn [fst snd] in H. destruct (F p vo) as [v1 c] eqn:E.
    destruct (IH _ _ _ _ H) as (cs & -> & Hc). exists ((fst p, c) :: cs). split. rewrite <- app_assoc. reflexivity.
    econstructor; eauto.
Qed.

Lemma fold_chain_ex : forall F subs vo acc0 vo' r,
  fold_left (fun (acc : list pentry * list (subinfo * cq2)) (p : subinfo * q2) =>
               if si_nullable (fst p) then acc
               else let '(v, c) := F p (fst acc) in (v, snd acc ++ [(fst p, c)])) subs (vo, acc0) = (vo', r) ->
  exists cs, r = acc0 ++ cs /\ chain_ex F subs vo vo' cs.
Proof.
  intros F subs. induction subs as [|p t IH]; intros vo acc0 vo' r H; cbn [fold_left] in H.
  - injection H as <- <-. exists []. split. rewrite app_nil_r. reflexivity. constructor.
  - destruct (si_nullable (fst p)) eqn:En.
    + destruct (IH _ _ _ _ H) as (cs & -> & Hc). exists cs. split. reflexivity. apply cx_skip; assumption.
    + cbn [fst snd] in H. destruct (F p vo) as [v1 c] eqn:E.
      destruct (IH _ _ _ _ H) as (cs & -> & Hc). exists ((fst p, c) :: cs). split. rewrite <- app_assoc. reflexivity.
      eapply cx_cons; eauto.
Qed.

(* ---------- the open classes are monotone in the set of rows ---------- *)
Lemma existsb_incl : forall A (f : A -> bool) l l', (forall x, In x l' -> In x l) -> existsb f l = false -> existsb f l' = false.
Proof.
  intros A f l l' Hin H. destruct (existsb f l') eqn:E; [|reflexivity].
  apply existsb_exists in E. destruct E as (x & Hx & Hf).
  assert (existsb f l = true) by (apply existsb_exists; exists x; split; auto). congruence.
Qed.

Lemma lacks_incl : forall rows rows' i, (forall r, In r rows' -> In r rows) -> lacks rows i = false -> lacks rows' i = false.
Proof. intros rows rows' i Hin H. unfold lacks in *. eapply existsb_incl; eauto. Qed.

Lemma known_query_subset : forall m rows rows' q ps, (forall r, In r rows' -> In r rows) ->
  known_query m rows q ps = [] -> known_query m rows' q ps = [].
Proof.
  intros m rows rows' q ps Hin Hk. unfold known_query in *.
  apply cls_nil in Hk. destruct Hk as [K1 Hk]. apply cls_nil in Hk. destruct Hk as [K2 Hk].
  apply cls_nil in Hk. destruct Hk as [K3 Hk]. apply cls_nil in Hk. destruct Hk as [K6 K7]. apply cls_nil1 in K7.
  assert (E1 : match q_paging q with PNone => false | p => k_paging (List.length (paging_values p)) m rows' q ps end = false).
  { assert (Hkp : forall n, k_paging n m rows q ps = false -> k_paging n m rows' q ps = false).
    { intros n H. unfold k_paging in *. eapply existsb_incl; [|exact H].
      intros x Hx. apply in_map_iff in Hx. destruct Hx as (ks & <- & Hks). apply in_map.
      unfold matching_keys in *. apply in_map_iff in Hks. destruct Hks as (r & <- & Hr). apply in_map.
      unfold matching in *. apply filter_In in Hr. apply filter_In. split. apply Hin. tauto. tauto. }
    destruct (q_paging q); auto. }
  assert (E2 : k_rawkey m rows' q = false).
  { unfold k_rawkey in *. destruct (existsb _ (q_order q)) eqn:E in |- *; [|reflexivity].
    apply existsb_exists in E. destruct E as (k & Hk' & Hf).
    assert (Hx : existsb (fun k0 => match ok_ref k0 with FByName i => has_default m i && lacks rows i | FByAlias _ => false end) (q_order q) = true).
    { apply existsb_exists. exists k. split. exact Hk'. destruct (ok_ref k); [|discriminate].
      apply andb_prop in Hf. destruct Hf as [Hd Hl]. rewrite Hd. simpl.
      destruct (lacks rows i) eqn:El; [reflexivity|]. rewrite (lacks_incl rows rows' i Hin El) in Hl. discriminate. }
    congruence. }
  assert (E3 : k_booldefault m rows' q = false).
  { unfold k_booldefault in *. destruct (existsb _ (q_sel q)) eqn:E in |- *; [|reflexivity].
    apply existsb_exists in E. destruct E as (sf & Hsf & Hf).
    assert (Hx : existsb (fun sf0 => match default_of m (sf_field sf0) with Some (VBool _) => lacks rows (sf_field sf0) | _ => false end) (q_sel q) = true).
    { apply existsb_exists. exists sf. split. exact Hsf. destruct (default_of m (sf_field sf)) as [[| | | |]|]; try discriminate.
      destruct (lacks rows (sf_field sf)) eqn:El; [reflexivity|]. rewrite (lacks_incl rows rows' _ Hin El) in Hf. discriminate. }
    congruence. }
  rewrite E1, E2, E3, K6, K7. reflexivity.
Qed.

Lemma app_nil_both : forall A (a b : list A), a ++ b = [] -> a = [] /\ b = [].
Proof. intros A a b H. destruct a; simpl in H. auto. discriminate. Qed.

Lemma flat_map_nil : forall A B (f : A -> list B) l, flat_map f l = [] -> forall x, In x l -> f x = [].
Proof.
  intros A B f l. induction l as [|y t IH]; intros H x Hx. contradiction.
  simpl in H. apply app_nil_both in H. destruct H as [H1 H2]. destruct Hx as [<-|Hx]. exact H1. apply IH; assumption.
Qed.
Lemma flat_map_nil_intro : forall A B (f : A -> list B) l, (forall x, In x l -> f x = []) -> flat_map f l = [].
Proof.
  intros A B f l. induction l as [|y t IH]; intros H. reflexivity.
  simpl. rewrite (H y (or_introl eq_refl)), IH. reflexivity. intros x Hx. apply H. right. exact Hx.
Qed.

Lemma known_nested_subset : forall ps Q nodes nodes', (forall x, In x nodes' -> In x nodes) ->
  known_nested Q nodes ps = [] -> known_nested Q nodes' ps = [].
Proof.
  intros ps Q. induction Q as [m q subs IH] using q2_ind'. intros nodes nodes' Hin Hk.
  cbn [known_nested] in *. apply app_nil_both in Hk. destruct Hk as [H1 H2].
  rewrite (known_query_subset m (map nvals nodes) (map nvals nodes') q ps); try assumption.
  2: { intros r Hr. apply in_map_iff in Hr. destruct Hr as (x & <- & Hx). apply in_map. apply Hin. exact Hx. }
  cbn [app]. apply flat_map_nil_intro. intros p Hp.
  rewrite Forall_forall in IH. apply (IH p Hp (flat_map (fun nd => nth (si_ref (fst p)) (nrefs nd) []) nodes)).
  - intros x Hx. apply in_flat_map in Hx. destruct Hx as (nd & Hnd & Hx). apply in_flat_map. exists nd. split. apply Hin. exact Hnd. exact Hx.
  - apply (flat_map_nil _ _ _ _ H2 p Hp).
Qed.

(* ---------- generic list facts ---------- *)
Lemma In_sql_limit : forall A lim off (l : list A) x, In x (sql_limit lim off l) -> In x l.
Proof.
  intros A lim off l x H. unfold sql_limit in H.
  assert (H1 : forall y, In y (match off with Some k => if Z.leb k 0 then l else skipn' (Z.to_nat k) l | None => l end) -> In y l).
  { intros y Hy. destruct off as [k|]; auto. destruct (Z.leb k 0); auto. eapply In_skipn'; eauto. }
  destruct lim as [n|]. destruct (Z.ltb n 0). auto. apply H1. eapply In_firstn; eauto. auto.
Qed.

Lemma forallb_map' : forall A B (f : B -> bool) (g : A -> B) l, forallb f (map g l) = forallb (fun x => f (g x)) l.
Proof. intros A B f g l. induction l as [|x t IH]; simpl. reflexivity. rewrite IH. reflexivity. Qed.

Lemma isort_map_ext : forall A (c1 c2 : A -> A -> comparison) l,
  (forall x y, In x l -> In y l -> c1 x y = c2 x y) -> ssort c1 l = isort c2 l.
Proof. intros A c1 c2 l H. rewrite ssort_isort. apply isort_ext_in. exact H. Qed.

(* ---------- the theorem, level by level ---------- *)
Section Slice.
  Variable ps : params.

  Definition S (Q : q2) : Prop :=
    forall table unique vo vo' c, compile_level Q table unique vo = (vo', c) ->
      pfx vo vo' /\
      forall vf binds, pfx vo' vf -> bind vf ps = Some binds -> q2_ok Q ps = true ->
        forall nodes, known_nested Q nodes ps = [] -> run_nodes c binds nodes = eval_nodes Q ps unique nodes.

  Lemma chain_pfx : forall subs vo vo' cs, Forall (fun p : subinfo * q2 => S (snd p)) subs -> chain F_sel subs vo vo' cs -> pfx vo vo'.
  Proof.
    intros subs vo vo' cs HF Hc. induction Hc as [vo|p t vo v1 c vo' cs HFp Hc IH]. apply pfx_refl.
    inversion HF as [|? ? Hp Ht]; subst. eapply pfx_trans. apply (Hp _ _ _ _ _ HFp). apply IH. exact Ht.
  Qed.
  Lemma chain_ex_pfx : forall subs vo vo' cs, Forall (fun p : subinfo * q2 => S (snd p)) subs -> chain_ex F_ex subs vo vo' cs -> pfx vo vo'.
  Proof.
    intros subs vo vo' cs HF Hc. induction Hc as [vo|p t vo vo' cs Hn Hc IH|p t vo v1 c vo' cs Hn HFp Hc IH]. apply pfx_refl.
    - inversion HF; subst. apply IH. assumption.
    - inversion HF as [|? ? Hp Ht]; subst. eapply pfx_trans. apply (Hp _ _ _ _ _ HFp). apply IH. exact Ht.
  Qed.

  Definition sub_ok (binds : list sval) (unique_of : subinfo -> bool) (p : subinfo * q2) (c : cq2) : Prop :=
    forall nodes, q2_ok (snd p) ps = true -> known_nested (snd p) nodes ps = [] ->
                  run_nodes c binds nodes = eval_nodes (snd p) ps (unique_of (fst p)) nodes.

  Lemma chain_sem : forall subs vo vo' cs, Forall (fun p : subinfo * q2 => S (snd p)) subs -> chain F_sel subs vo vo' cs ->
    forall vf binds, pfx vo' vf -> bind vf ps = Some binds ->
    Forall2 (fun p sc => fst sc = fst p /\ sub_ok binds (fun si => negb (si_array si)) p (snd sc)) subs cs.
  Proof.
    intros subs vo vo' cs HF Hc. induction Hc as [vo|p t vo v1 c vo' cs HFp Hc IH]; intros vf binds Hpf Hb. constructor.
    inversion HF as [|? ? Hp Ht]; subst. constructor.
    - split. reflexivity. intros nodes Hok Hk. destruct (Hp _ _ _ _ _ HFp) as [_ Hs]. apply (Hs vf binds); try assumption.
      eapply pfx_trans. eapply chain_pfx; eauto. exact Hpf.
    - apply (IH Ht vf binds Hpf Hb).
  Qed.

  (* the EXISTS conditions of a row: one per selected reference that is not nullable, each evaluated on the
     reference's own compiled sub-query - which has the limit of the select-list sub-query *)
  Lemma chain_ex_sem : forall subs vo vo' cs, Forall (fun p : subinfo * q2 => S (snd p)) subs -> chain_ex F_ex subs vo vo' cs ->
    forall vf binds nd, pfx vo' vf -> bind vf ps = Some binds ->
    (forall p, In p subs -> q2_ok (snd p) ps = true /\ known_nested (snd p) (children nd (fst p)) ps = []) ->
    forallb (fun sc : subinfo * cq2 => negb (is_nil (run_nodes (snd sc) binds (children nd (fst sc))))) cs =
    forallb (fun p : subinfo * q2 => si_nullable (fst p) || negb (is_nil (eval_nodes (snd p) ps (negb (si_array (fst p))) (children nd (fst p))))) subs.
  Proof.
    intros subs vo vo' cs HF Hc. induction Hc as [vo|p t vo vo' cs Hn Hc IH|p t vo v1 c vo' cs Hn HFp Hc IH]; intros vf binds nd Hpf Hb Hall.
    - reflexivity.
    - inversion HF; subst. cbn [forallb]. rewrite Hn. cbn [orb andb]. apply (IH H2 vf binds nd Hpf Hb). intros p' Hp'. apply Hall. right. exact Hp'.
    - inversion HF as [|? ? Hp Ht]; subst. cbn [forallb fst snd]. rewrite Hn. cbn [orb]. f_equal.
      + destruct (Hp _ _ _ _ _ HFp) as [_ Hs]. destruct (Hall p (or_introl eq_refl)) as [Hok Hk].
        rewrite (Hs vf binds). reflexivity. eapply pfx_trans. eapply chain_ex_pfx; eauto. exact Hpf. exact Hb. exact Hok. exact Hk.
      + apply (IH Ht vf binds nd Hpf Hb). intros p' Hp'. apply Hall. right. exact Hp'.
  Qed.

  Lemma q2_ok_unfold : forall m q subs, q2_ok (Q2 m q subs) ps = true ->
    wf_query m q = true /\ params_ok q ps = true /\ forall p, In p subs -> q2_ok (snd p) ps = true.
  Proof.
    intros m q subs H. cbn [q2_ok] in H. apply andb_prop in H. destruct H as [H H3]. apply andb_prop in H. destruct H as [H1 H2].
    repeat split; try assumption. rewrite forallb_forall in H3. exact H3.
  Qed.

  Lemma nested_values_eq : forall binds nd subs cs,
    Forall2 (fun p sc => fst sc = fst p /\ sub_ok binds (fun si => negb (si_array si)) p (snd sc)) subs cs ->
    (forall p, In p subs -> q2_ok (snd p) ps = true /\ known_nested (snd p) (children nd (fst p)) ps = []) ->
    map (fun p : subinfo * cq2 => nested_value (si_array (fst p)) (run_nodes (snd p) binds (children nd (fst p)))) cs =
    map (fun sr : subinfo * list jv => nested_value (si_array (fst sr)) (snd sr))
        (map (fun p : subinfo * q2 => (fst p, eval_nodes (snd p) ps (negb (si_array (fst p))) (children nd (fst p)))) subs).
  Proof.
    intros binds nd subs cs H. induction H as [|p sc subs cs (Hf & Hs) Hrest IH]; intros Hall. reflexivity.
    cbn [map fst snd]. destruct (Hall p (or_introl eq_refl)) as [Hok Hk]. rewrite Hf, (Hs _ Hok Hk). f_equal.
    apply IH. intros p' Hp'. apply Hall. right. exact Hp'.
  Qed.

  Theorem level_holds : forall Q, S Q.
  Proof.
    induction Q as [m q subs IH] using q2_ind'. intros table unique vo vo' c Hc.
    rewrite compile_level_eq in Hc.
    destruct (compile_sel m vo (q_sel q)) as [vo1 sel] eqn:E1.
    destruct (fold_left _ subs (vo1, [])) as [vo2 sel_subs] eqn:F1.
    destruct (fold_left _ subs (vo2, [])) as [vo3 ex_subs] eqn:F2.
    destruct (compile_filters m q vo3 (q_filters q)) as [vo4 fs] eqn:E2.
    destruct (compile_disjs (is_before (q_paging q)) vo4 [] (combine (q_order q) (paging_values (q_paging q)))) as [vo5 pg] eqn:E3.
    destruct (if unique then (vo5, Some (XInt 1), None) else compile_limit vo5 q) as [[vo6 lim] off] eqn:E4.
    injection Hc as <- <-.
    destruct (fold_chain _ _ _ _ _ _ F1) as (cs1 & Hr1 & Ch1). cbn [app] in Hr1. subst sel_subs.
    destruct (fold_chain_ex _ _ _ _ _ _ F2) as (cs2 & Hr2 & Ch2). cbn [app] in Hr2. subst ex_subs.
    pose proof (proj1 (compile_sel_sem _ _ _ _ _ E1)) as P1.
    pose proof (chain_pfx _ _ _ _ IH Ch1) as P2. pose proof (chain_ex_pfx _ _ _ _ IH Ch2) as P3.
    pose proof (proj1 (compile_filters_shape _ _ _ _ _ _ E2)) as P4.
    pose proof (proj1 (compile_disjs_sem _ _ _ _ _ _ E3)) as P5.
    assert (P6 : pfx vo5 vo6).
    { destruct unique. injection E4 as <- _ _. apply pfx_refl. apply (compile_limit_sem _ _ _ _ _ E4). }
    split. { eapply pfx_trans. exact P1. eapply pfx_trans. exact P2. eapply pfx_trans. exact P3. eapply pfx_trans. exact P4. eapply pfx_trans; eauto. }
    intros vf binds Hpf Hb Hok nodes Hk.
    destruct (q2_ok_unfold _ _ _ Hok) as (Hwf & Hpo & Hsubs_ok).
    cbn [known_nested] in Hk. apply app_nil_both in Hk. destruct Hk as [Hk1 Hk2].
    set (s := {| st_table := table; st_eshort := em_short m; st_sel := sel; st_filters := fs; st_paging := pg;
                 st_order := map (fun k => (ref_sx (ok_ref k), ok_dir k)) (q_order q); st_limit := lim; st_offset := off |}).
    destruct (level_facts m (map nvals nodes) q ps unique vo vo1 sel vo3 vo4 fs vo5 pg vo6 lim off vf binds s E1
                (pfx_trans _ _ _ P2 P3) E2 E3 E4 Hpf Hb eq_refl eq_refl eq_refl eq_refl eq_refl eq_refl Hwf Hpo Hk1)
      as (Hwhere & Hord & Hproj & Hlimit).
    (* what holds for the references of a node of this level *)
    assert (Hchild : forall nd, In nd nodes -> forall p, In p subs -> q2_ok (snd p) ps = true /\ known_nested (snd p) (children nd (fst p)) ps = []).
    { intros nd Hnd p Hp. split. apply Hsubs_ok. exact Hp.
      eapply known_nested_subset. 2: apply (flat_map_nil _ _ _ _ Hk2 p Hp).
      intros x Hx. apply in_flat_map. exists nd. split. exact Hnd. exact Hx. }
    assert (Hpf2 : pfx vo2 vf). { eapply pfx_trans. exact P3. eapply pfx_trans. exact P4. eapply pfx_trans. exact P5. eapply pfx_trans; eauto. }
    assert (Hpf3 : pfx vo3 vf). { eapply pfx_trans. exact P4. eapply pfx_trans. exact P5. eapply pfx_trans; eauto. }
    pose proof (chain_sem _ _ _ _ IH Ch1 vf binds Hpf2 Hb) as Hsel.
    rewrite run_nodes_eq, eval_nodes_eq. cbv zeta.
    (* the rows that pass *)
    assert (Hfilter : filter (fun nd => is_true (where_eval binds (nvals nd) (json_object binds s (nvals nd)) s)
                                      && forallb (fun p : subinfo * cq2 => negb (is_nil (run_nodes (snd p) binds (children nd (fst p))))) cs2) nodes =
                      filter (fun nd => row_passes m q ps (nvals nd)
                                      && forallb (fun sr : subinfo * list jv => si_nullable (fst sr) || negb (is_nil (snd sr)))
                                           (map (fun p : subinfo * q2 => (fst p, eval_nodes (snd p) ps (negb (si_array (fst p))) (children nd (fst p)))) subs)) nodes).
    { apply filter_ext_in. intros nd Hnd. rewrite (Hwhere (nvals nd) (in_map nvals _ _ Hnd)). f_equal.
      rewrite (chain_ex_sem _ _ _ _ IH Ch2 vf binds nd Hpf3 Hb (Hchild nd Hnd)).
      rewrite forallb_map'. reflexivity. }
    rewrite Hfilter.
    set (passing := filter _ nodes).
    assert (Hpin : forall x, In x passing -> In x nodes) by (intros x Hx; apply filter_In in Hx; tauto).
    rewrite (isort_map_ext _ (fun a b => srow_cmp binds s (nvals a) (nvals b))
                             (fun a b => lex_cmp (dirs q) (row_keys m q (nvals a)) (row_keys m q (nvals b))) passing).
    2: { intros x y Hx Hy. apply Hord; apply in_map; apply Hpin; assumption. }
    rewrite Hlimit.
    apply map_ext_in. intros nd Hnd.
    assert (Hnn : In nd nodes).
    { apply Hpin. unfold limit_nodes in Hnd.
      assert (Hs : In nd (isort (fun a b => lex_cmp (dirs q) (row_keys m q (nvals a)) (row_keys m q (nvals b))) passing)).
      { destruct unique. eapply In_firstn; eauto.
        destruct (Z.leb (opint ps (q_first q)) 0); destruct (Z.leb (match q_skip q with Some o => opint ps o | None => 0 end) 0);
          repeat (first [exact Hnd | apply In_firstn in Hnd | apply In_skipn' in Hnd]). }
      eapply Permutation_in. apply Permutation_sym. apply isort_perm. exact Hs. }
    f_equal. f_equal.
    - f_equal. apply Hproj. apply in_map. exact Hnn.
    - apply nested_values_eq. exact Hsel. apply Hchild. exact Hnn.
  Qed.
End Slice.

(* ---------- binding succeeds ---------- *)
Fixpoint q2_vars (Q : q2) : list str :=
  match Q with Q2 m q subs => query_vars q ++ flat_map (fun p : subinfo * q2 => q2_vars (snd p)) subs end.

Definition E (S' : str -> Prop) (Q : q2) : Prop :=
  forall table unique vo vo' c, compile_level Q table unique vo = (vo', c) ->
    entries_ok S' vo -> (forall n, In n (q2_vars Q) -> S' n) -> entries_ok S' vo'.

Lemma chain_entries : forall S' subs vo vo' cs, Forall (fun p : subinfo * q2 => E S' (snd p)) subs -> chain F_sel subs vo vo' cs ->
  entries_ok S' vo -> (forall p, In p subs -> forall n, In n (q2_vars (snd p)) -> S' n) -> entries_ok S' vo'.
Proof.
  intros S' subs vo vo' cs IH Ch. induction Ch as [vo|p t vo v1 c vo' cs HF Hc IHc]; intros H1 Hs. exact H1.
  inversion IH as [|? ? Hp Ht]; subst. apply IHc; try assumption.
  - apply (Hp _ _ _ _ _ HF H1). apply Hs. left. reflexivity.
  - intros p' Hp'. apply Hs. right. exact Hp'.
Qed.
Lemma chain_ex_entries : forall S' subs vo vo' cs, Forall (fun p : subinfo * q2 => E S' (snd p)) subs -> chain_ex F_ex subs vo vo' cs ->
  entries_ok S' vo -> (forall p, In p subs -> forall n, In n (q2_vars (snd p)) -> S' n) -> entries_ok S' vo'.
Proof.
  intros S' subs vo vo' cs IH Ch. induction Ch as [vo|p t vo vo' cs Hn Hc IHc|p t vo v1 c vo' cs Hn HF Hc IHc]; intros H2 Hs. exact H2.
  - inversion IH; subst. apply IHc; try assumption. intros p' Hp'. apply Hs. right. exact Hp'.
  - inversion IH as [|? ? Hp Ht]; subst. apply IHc; try assumption.
    + apply (Hp _ _ _ _ _ HF H2). apply Hs. left. reflexivity.
    + intros p' Hp'. apply Hs. right. exact Hp'.
Qed.

Lemma level_entries : forall S' Q, E S' Q.
Proof.
  intros S'. induction Q as [m q subs IH] using q2_ind'. intros table unique vo vo' c Hc Ho Hv.
  rewrite compile_level_eq in Hc.
  destruct (compile_sel m vo (q_sel q)) as [vo1 sel] eqn:E1.
  destruct (fold_left _ subs (vo1, [])) as [vo2 sel_subs] eqn:F1.
  destruct (fold_left _ subs (vo2, [])) as [vo3 ex_subs] eqn:F2.
  destruct (compile_filters m q vo3 (q_filters q)) as [vo4 fs] eqn:E2.
  destruct (compile_disjs (is_before (q_paging q)) vo4 [] (combine (q_order q) (paging_values (q_paging q)))) as [vo5 pg] eqn:E3.
  destruct (if unique then (vo5, Some (XInt 1), None) else compile_limit vo5 q) as [[vo6 lim] off] eqn:E4.
  injection Hc as <- _.
  destruct (fold_chain _ _ _ _ _ _ F1) as (cs1 & _ & Ch1). destruct (fold_chain_ex _ _ _ _ _ _ F2) as (cs2 & _ & Ch2).
  cbn [q2_vars] in Hv.
  assert (Hq : forall n, In n (query_vars q) -> S' n) by (intros n Hn; apply Hv; apply in_or_app; left; exact Hn).
  assert (Hs : forall p, In p subs -> forall n, In n (q2_vars (snd p)) -> S' n).
  { intros p Hp n Hn. apply Hv. apply in_or_app. right. apply in_flat_map. exists p. split; assumption. }
  assert (H1 : entries_ok S' vo1) by (eapply compile_sel_entries; eauto).
  assert (H2 : entries_ok S' vo2) by (eapply chain_entries; eauto).
  assert (H3 : entries_ok S' vo3) by (eapply chain_ex_entries; eauto).
  assert (H4 : entries_ok S' vo4).
  { eapply compile_filters_entries; eauto. intros f n Hin Hvv. apply Hq. eapply vars_filter; eauto. }
  assert (H5 : entries_ok S' vo5).
  { eapply compile_disjs_entries; eauto. intros ko n Hin Hn. simpl in Hin. apply Hq. eapply vars_paging. eapply in_combine_snd. exact Hin. exact Hn. }
  destruct unique. injection E4 as <- _ _. exact H5.
  eapply compile_limit_entries; eauto. intros n Hn. apply Hq. apply vars_first. exact Hn. intros n Hn. apply Hq. apply vars_skip. exact Hn.
Qed.

Lemma q2_ok_vars : forall ps Q, q2_ok Q ps = true -> forall n, In n (q2_vars Q) -> lookup n ps <> None.
Proof.
  intros ps. induction Q as [m q subs IH] using q2_ind'. intros Hok n Hn.
  destruct (q2_ok_unfold ps _ _ _ Hok) as (_ & Hpo & Hs). cbn [q2_vars] in Hn. apply in_app_or in Hn. destruct Hn as [Hn|Hn].
  - unfold params_ok in Hpo. apply andb_prop in Hpo. destruct Hpo as [Hpo _]. apply andb_prop in Hpo. destruct Hpo as [Hpo _].
    apply andb_prop in Hpo. destruct Hpo as [P1 _]. rewrite forallb_forall in P1. specialize (P1 n Hn). destruct (lookup n ps); congruence.
  - apply in_flat_map in Hn. destruct Hn as (p & Hp & Hn). rewrite Forall_forall in IH. apply (IH p Hp (Hs p Hp) n Hn).
Qed.

(* tier T2, first slice: outside the open classes (level by level) the compiled statement gives the reference
   evaluation of the nested query *)
Theorem T2_outside_known : forall Q nodes ps,
  q2_ok Q ps = true -> known_nested Q nodes ps = [] -> run_query2 Q nodes ps = Some (eval2 Q ps nodes).
Proof.
  intros Q nodes ps Hok Hk. unfold run_query2, compile2.
  destruct (compile_level Q (sql_aliased_name (q2_model Q) (q2_base Q)) false []) as [vo c] eqn:Ec.
  destruct (bind_total ps vo) as [binds Hb].
  { apply (level_entries (fun n => lookup n ps <> None) Q _ _ _ _ _ Ec). intros p []. apply q2_ok_vars. exact Hok. }
  rewrite Hb. f_equal. destruct (level_holds ps Q _ _ _ _ _ Ec) as [_ Hs]. apply (Hs vo binds (pfx_refl _) Hb Hok nodes Hk).
Qed.

(* EXISTS for a reference that is not nullable <=> its nested result, under the nested query's own limits, is not
   empty: stated on the compiled statement (every EXISTS sub-query evaluates to the reference result of its
   reference, with the limit of the select-list sub-query) *)
Theorem T2_exists_same_limits : forall ps subs vo vo' cs,
  chain_ex F_ex subs vo vo' cs ->
  forall vf binds nd, pfx vo' vf -> bind vf ps = Some binds ->
  (forall p, In p subs -> q2_ok (snd p) ps = true /\ known_nested (snd p) (children nd (fst p)) ps = []) ->
  forallb (fun sc : subinfo * cq2 => negb (is_nil (run_nodes (snd sc) binds (children nd (fst sc))))) cs =
  forallb (fun p : subinfo * q2 => si_nullable (fst p) || negb (is_nil (eval_nodes (snd p) ps (negb (si_array (fst p))) (children nd (fst p))))) subs.
Proof.
  intros ps subs vo vo' cs Hc. apply (chain_ex_sem ps subs vo vo' cs); [|exact Hc].
  apply Forall_forall. intros p _. apply level_holds.
Qed.
