(* SystemDefsP.v — the store invariant of SystemP.v WITHOUT the restriction "the room definitions are
   fixed along the history" (model/SystemDefs.v: the definitions are part of the state, `SysGrow R new`
   appends entries to room R).
     (1) past_grants_stable: entries appended to a room's entry list change no decision at a date d
         as long as those of them the room ACCEPTS are dated strictly after d — for every key, entity
         and right kind, for the specification (RightsSpec.granted on the accepted history) and for
         the executable room (Rights.can on Rights.build).  The boundary is exact
         (past_grants_boundary_refuted): an entry dated d itself, or a back-dated FIRST entry of a
         key, is accepted by room.rs' add_* checks and changes a decision at d.
     (2) store_invariant_defs_growth: over any history, of any length, of remote calls, local writes,
         local deletions and growth steps, every stored row stays entitled provided every growth step
         adds only entries dated after every row then stored in the room;
         store_all_invariant_defs_growth: rows and references, with System.step_stable on the other
         steps and the dates of the references hanging on rows of the room on the growth steps.
     (3) store_invariant_backdated_refuted: the side condition is needed — the executable room accepts
         a back-dated entry ("key 2 disabled at 5" after "enabled at 3") and a stored row dated 7
         loses its entitlement.
     (4) defs_growth_nonvacuous: a mixed history of ten steps.
   Reused: RightsP.build_Rep / can_granted / right_entries_of / existsb_ext_in (the refinement of
   room.rs by RightsSpec), SystemP.sys_do_rows / sys_do_refs / step_preserves / nodes_ok_entitled
   (the three other kinds of step, unchanged). *)
From DV Require Import RightsP Run_C01 C01P Run_C02 C02P System SystemP SystemDefs.

(* ------------------------------------------------------------------ replay of an appended entry list *)
Lemma build_from_app evs : forall r new,
  fst (build_from r (evs ++ new)) = fst (build_from (fst (build_from r evs)) new) /\
  snd (build_from r (evs ++ new)) = snd (build_from r evs) ++ snd (build_from (fst (build_from r evs)) new) /\
  accepted_from r (evs ++ new) = accepted_from r evs ++ accepted_from (fst (build_from r evs)) new.
Proof.
  unfold accepted_from. induction evs as [|ev tl IH]; intros r new.
  - simpl. auto.
  - simpl. destruct (apply_event r ev) as [r'|].
    + destruct (IH r' new) as (H1 & H2 & H3).
      destruct (build_from r' (tl ++ new)) as [rf oks]. destruct (build_from r' tl) as [rf1 oks1].
      simpl in *. rewrite H3, H2. auto.
    + destruct (IH r new) as (H1 & H2 & H3).
      destruct (build_from r (tl ++ new)) as [rf oks]. destruct (build_from r tl) as [rf1 oks1].
      simpl in *. rewrite H3, H2. auto.
Qed.

Lemma build_app id evs new : build id (evs ++ new) = fst (build_from (build id evs) new).
Proof. unfold build. apply (build_from_app evs (empty_room id) new). Qed.

Lemma accepted_app id evs new : accepted id (evs ++ new) = accepted id evs ++ accepted_tail id evs new.
Proof. apply (build_from_app evs (empty_room id) new). Qed.

(* the flags room.rs answers for the appended entries are those of the replay on top of the room *)
Lemma build_flags_app id evs new :
  snd (build_from (empty_room id) (evs ++ new)) =
  snd (build_from (empty_room id) evs) ++ snd (build_from (build id evs) new).
Proof. apply (build_from_app evs (empty_room id) new). Qed.

Lemma accepted_from_sub new : forall r ev, In ev (accepted_from r new) -> In ev new.
Proof.
  unfold accepted_from. induction new as [|e tl IH]; intros r ev Hin; [contradiction|].
  simpl in Hin. destruct (apply_event r e) as [r'|].
  - destruct (build_from r' tl) as [rf oks] eqn:Hb. simpl in Hin. destruct Hin as [<-|Hin]; [left; reflexivity|].
    right. apply (IH r'). rewrite Hb. exact Hin.
  - destruct (build_from r tl) as [rf oks] eqn:Hb. simpl in Hin.
    right. apply (IH r). rewrite Hb. exact Hin.
Qed.

(* a condition on all the appended entries implies the condition on the accepted ones *)
Lemma evs_after_accepted d id evs new : evs_after d new = true -> evs_after d (accepted_tail id evs new) = true.
Proof.
  unfold evs_after, accepted_tail. intros H. rewrite forallb_forall in H. apply forallb_forall.
  intros ev Hin. apply H. eapply accepted_from_sub. exact Hin.
Qed.

(* ------------------------------------------------------------------ the entry in force, entries appended *)
Lemma in_force_none_after {A} (M : list (Z * A)) d : Forall (fun p => d < fst p) M -> in_force M d = None.
Proof.
  induction M as [|[x v] M IH]; intros HF; simpl; [reflexivity|].
  inversion HF as [|? ? Hx HM]; subst. rewrite (IH HM). cbn [fst] in Hx.
  destruct (Z.leb x d) eqn:Hle; [apply Z.leb_le in Hle; lia|reflexivity].
Qed.

Lemma in_force_app_after {A} (L M : list (Z * A)) d :
  Forall (fun p => d < fst p) M -> in_force (L ++ M) d = in_force L d.
Proof.
  induction L as [|[x v] L IH]; intros HF; simpl; [apply in_force_none_after; exact HF|].
  rewrite (IH HF). reflexivity.
Qed.

Lemma admin_entries_app evs new k : admin_entries (evs ++ new) k = admin_entries evs k ++ admin_entries new k.
Proof. unfold admin_entries. apply flat_map_app. Qed.
Lemma user_entries_app evs new g k : user_entries (evs ++ new) g k = user_entries evs g k ++ user_entries new g k.
Proof. unfold user_entries. apply flat_map_app. Qed.
Lemma uadmin_entries_app evs new g k : uadmin_entries (evs ++ new) g k = uadmin_entries evs g k ++ uadmin_entries new g k.
Proof. unfold uadmin_entries. apply flat_map_app. Qed.
Lemma right_entries_app evs new g e : right_entries (evs ++ new) g e = right_entries evs g e ++ right_entries new g e.
Proof. unfold right_entries. apply flat_map_app. Qed.
Lemma groups_app evs new : groups (evs ++ new) = groups evs ++ groups new.
Proof. unfold groups. apply flat_map_app. Qed.

Lemma admin_entries_after d k : forall new,
  evs_after d new = true -> Forall (fun p : Z * bool => d < fst p) (admin_entries new k).
Proof.
  unfold admin_entries, evs_after. induction new as [|ev tl IH]; intros H; [constructor|].
  cbn [forallb] in H. apply andb_prop in H. destruct H as [Hev Htl].
  cbn [flat_map]. apply Forall_app. split; [|apply IH; exact Htl].
  destruct ev as [g|k' x b|g k' x b|g k' x b|g e x s a]; try constructor.
  cbn [ev_after] in Hev. apply Z.ltb_lt in Hev.
  destruct (N.eqb k' k); constructor; [exact Hev|constructor].
Qed.
Lemma user_entries_after d g0 k : forall new,
  evs_after d new = true -> Forall (fun p : Z * bool => d < fst p) (user_entries new g0 k).
Proof.
  unfold user_entries, evs_after. induction new as [|ev tl IH]; intros H; [constructor|].
  cbn [forallb] in H. apply andb_prop in H. destruct H as [Hev Htl].
  cbn [flat_map]. apply Forall_app. split; [|apply IH; exact Htl].
  destruct ev as [g|k' x b|g k' x b|g k' x b|g e x s a]; try constructor.
  cbn [ev_after] in Hev. apply Z.ltb_lt in Hev.
  destruct (N.eqb g g0 && N.eqb k' k); constructor; [exact Hev|constructor].
Qed.
Lemma uadmin_entries_after d g0 k : forall new,
  evs_after d new = true -> Forall (fun p : Z * bool => d < fst p) (uadmin_entries new g0 k).
Proof.
  unfold uadmin_entries, evs_after. induction new as [|ev tl IH]; intros H; [constructor|].
  cbn [forallb] in H. apply andb_prop in H. destruct H as [Hev Htl].
  cbn [flat_map]. apply Forall_app. split; [|apply IH; exact Htl].
  destruct ev as [g|k' x b|g k' x b|g k' x b|g e x s a]; try constructor.
  cbn [ev_after] in Hev. apply Z.ltb_lt in Hev.
  destruct (N.eqb g g0 && N.eqb k' k); constructor; [exact Hev|constructor].
Qed.
Lemma right_entries_after d g0 e0 : forall new,
  evs_after d new = true -> Forall (fun p : Z * (bool * bool) => d < fst p) (right_entries new g0 e0).
Proof.
  unfold right_entries, evs_after. induction new as [|ev tl IH]; intros H; [constructor|].
  cbn [forallb] in H. apply andb_prop in H. destruct H as [Hev Htl].
  cbn [flat_map]. apply Forall_app. split; [|apply IH; exact Htl].
  destruct ev as [g|k' x b|g k' x b|g k' x b|g e x s a]; try constructor.
  cbn [ev_after] in Hev. apply Z.ltb_lt in Hev.
  destruct (N.eqb g g0 && N.eqb e e0); constructor; [exact Hev|constructor].
Qed.

Lemma admin_at_app_after evs new k d : evs_after d new = true -> admin_at (evs ++ new) k d = admin_at evs k d.
Proof.
  intros Ha. unfold admin_at, flag_in_force. rewrite admin_entries_app, in_force_app_after; [reflexivity|].
  apply admin_entries_after. exact Ha.
Qed.
Lemma member_at_app_after evs new g k d : evs_after d new = true -> member_at (evs ++ new) g k d = member_at evs g k d.
Proof.
  intros Ha. unfold member_at, flag_in_force. rewrite user_entries_app, uadmin_entries_app.
  rewrite !in_force_app_after; [reflexivity|apply uadmin_entries_after; exact Ha|apply user_entries_after; exact Ha].
Qed.
Lemma right_granted_app_after evs new g e d t :
  evs_after d new = true -> right_granted (evs ++ new) g e d t = right_granted evs g e d t.
Proof.
  intros Ha. unfold right_granted. rewrite !right_entries_app.
  rewrite !in_force_app_after; [reflexivity|apply right_entries_after; exact Ha|apply right_entries_after; exact Ha].
Qed.

(* a group that grants something has entries; an accepted history has entries only for its groups *)
Lemma right_granted_group evs g e d t :
  no_orphans evs -> right_granted evs g e d t = true -> In g (groups evs).
Proof.
  intros Hno Hg. destruct (in_dec N.eq_dec g (groups evs)) as [Hin|Hout]; [exact Hin|exfalso].
  destruct (Hno g Hout) as (_ & _ & Hr).
  assert (Hnil : forall e0, right_entries evs g e0 = []).
  { intros e0. pose proof (right_entries_of evs g e0) as He. rewrite Hr in He. unfold entries_of in He. simpl in He.
    symmetry in He. apply map_eq_nil in He. exact He. }
  unfold right_granted in Hg. rewrite !Hnil in Hg. simpl in Hg. discriminate.
Qed.

(* PAST-STABILITY, specification side.  `no_orphans evs` (RightsP: no entry names a group that the
   history does not create) holds of every accepted history (RightsP.build_Rep); it is needed because
   a group creation carries no date (granted_app_needs_no_orphans below). *)
Lemma granted_app_after evs new k e d t :
  no_orphans evs -> evs_after d new = true -> granted (evs ++ new) k e d t = granted evs k e d t.
Proof.
  intros Hno Ha. unfold granted.
  rewrite (existsb_ext_in _ (fun g => (admin_at evs k d || member_at evs g k d) && right_granted evs g e d t)).
  2:{ intros g _. rewrite admin_at_app_after, member_at_app_after, right_granted_app_after by exact Ha. reflexivity. }
  rewrite groups_app, existsb_app.
  destruct (existsb _ (groups new)) eqn:Hn; [|apply orb_false_r].
  rewrite orb_true_r. symmetry.
  apply existsb_exists in Hn. destruct Hn as [g [_ Hg]]. apply existsb_exists. exists g. split; [|exact Hg].
  apply andb_prop in Hg. destruct Hg as [_ Hg]. eapply right_granted_group; eauto.
Qed.

Lemma no_orphans_nil : no_orphans [].
Proof. intros g _. simpl. auto. Qed.

Lemma accepted_no_orphans id evs : no_orphans (accepted id evs).
Proof. destruct (build_Rep id evs) as (_ & _ & _ & _ & _ & Hno). exact Hno. Qed.

(* PAST-STABILITY.  The condition bears on the entries that the room ACCEPTS among the appended ones
   (accepted_tail: a refused add_* call changes nothing), all of them, whatever key they name. *)
Theorem past_grants_stable id evs new d :
  evs_after d (accepted_tail id evs new) = true ->
  forall k en t,
    granted (accepted id (evs ++ new)) k en d t = granted (accepted id evs) k en d t /\
    can (build id (evs ++ new)) k en d t = can (build id evs) k en d t.
Proof.
  intros Ha k en t.
  assert (G : granted (accepted id (evs ++ new)) k en d t = granted (accepted id evs) k en d t).
  { rewrite accepted_app. apply granted_app_after; [apply accepted_no_orphans|exact Ha]. }
  split; [exact G|]. rewrite !can_granted. exact G.
Qed.

(* ... in particular when ALL appended entries are dated after d *)
Corollary past_grants_stable_all id evs new d :
  evs_after d new = true ->
  forall k en t,
    granted (accepted id (evs ++ new)) k en d t = granted (accepted id evs) k en d t /\
    can (build id (evs ++ new)) k en d t = can (build id evs) k en d t.
Proof. intros Ha. apply past_grants_stable. apply evs_after_accepted. exact Ha. Qed.

Lemma is_admin_stable id evs new d k :
  evs_after d (accepted_tail id evs new) = true ->
  is_admin (build id (evs ++ new)) k d = is_admin (build id evs) k d.
Proof. intros Ha. rewrite !is_admin_admin_at, accepted_app. apply admin_at_app_after. exact Ha. Qed.

(* THE BOUNDARY.  Room 1: group 1 gives the own-rows right on every entity from date 0; key 2 is a
   member from date 5.  room.rs (add_user) refuses an entry only if it is older than the LAST entry of
   the SAME key.  Hence:
   (a) an entry dated exactly d: "key 2 disabled at 5" is accepted (5 is not older than 5) and, the
       later entry winning on equal dates, revokes the decision at d = 5;
   (b) a back-dated FIRST entry of another key: "key 3 member at 2" is accepted although the room
       already holds entries dated 5, and grants key 3 at d = 4 what it did not have;
   (c) a back-dated entry of a key that has a later entry ("key 2 disabled at 4") is refused: the
       accepted tail is empty and nothing changes — which is why the condition of
       past_grants_stable bears on the accepted tail only;
   (d) a back-dated right entry: "group 1, entity 1: no right from 3" is accepted (first entry of
       entity 1; the wildcard entry of date 0 is another key) and revokes at d = 5. *)
Local Open Scope N_scope.
Definition w_room : list event := [EvGroup 1; EvRight 1 0 0 true false; EvUser 1 2 5 true].

Example past_grants_boundary_refuted :
  (snd (build_from (build 1 w_room) [EvUser 1 2 5 false]) = [true] /\
   evs_after 5 (accepted_tail 1 w_room [EvUser 1 2 5 false]) = false /\
   evs_after 4 (accepted_tail 1 w_room [EvUser 1 2 5 false]) = true /\
   can (build 1 w_room) 2 1 5 MutateSelf = true /\
   can (build 1 (w_room ++ [EvUser 1 2 5 false])) 2 1 5 MutateSelf = false /\
   granted (accepted 1 w_room) 2 1 5 MutateSelf = true /\
   granted (accepted 1 (w_room ++ [EvUser 1 2 5 false])) 2 1 5 MutateSelf = false) /\
  (snd (build_from (build 1 w_room) [EvUser 1 3 2 true]) = [true] /\
   can (build 1 w_room) 3 1 4 MutateSelf = false /\
   can (build 1 (w_room ++ [EvUser 1 3 2 true])) 3 1 4 MutateSelf = true) /\
  (snd (build_from (build 1 w_room) [EvUser 1 2 4 false]) = [false] /\
   accepted_tail 1 w_room [EvUser 1 2 4 false] = [] /\
   evs_after 100 [EvUser 1 2 4 false] = false /\
   can (build 1 (w_room ++ [EvUser 1 2 4 false])) 2 1 5 MutateSelf = true) /\
  (snd (build_from (build 1 w_room) [EvRight 1 1 3 false false]) = [true] /\
   can (build 1 (w_room ++ [EvRight 1 1 3 false false])) 2 1 5 MutateSelf = false).
Proof. vm_compute. repeat split; reflexivity. Qed.

(* on an entry list that is no accepted history the condition on the dates is not enough: entries of
   a group that is created afterwards become effective at every date *)
Example granted_app_needs_no_orphans :
  (let evs := [EvUser 1 2 0 true; EvRight 1 0 0 true false] in
   evs_after 5 [EvGroup 1] = true /\
   granted evs 2 1 5 MutateSelf = false /\ granted (evs ++ [EvGroup 1]) 2 1 5 MutateSelf = true /\
   accepted 1 evs = []).
Proof. vm_compute. repeat split; reflexivity. Qed.
Local Close Scope N_scope.

(* ------------------------------------------------------------------ the definitions of a receiver, grown *)
Lemma fst_grow_entry R new p : fst (grow_entry R new p) = fst p.
Proof. unfold grow_entry. destruct (N.eqb (fst p) R); reflexivity. Qed.

Lemma grow_entry_other R new p : fst p <> R -> grow_entry R new p = p.
Proof. unfold grow_entry. intros Hne. apply N.eqb_neq in Hne. rewrite Hne. reflexivity. Qed.
Lemma grow_entry_same R new p : fst p = R -> grow_entry R new p = (R, snd p ++ new).
Proof. unfold grow_entry. intros He. rewrite He, N.eqb_refl. reflexivity. Qed.

Lemma find_def_map R new R' defs :
  find (fun p => N.eqb (fst p) R') (map (grow_entry R new) defs) =
  option_map (grow_entry R new) (find (fun p => N.eqb (fst p) R') defs).
Proof.
  induction defs as [|p tl IH]; simpl; [reflexivity|]. rewrite fst_grow_entry. unfold uid in *.
  destruct (N.eqb (fst p) R'); [reflexivity|exact IH].
Qed.

Lemma find_snoc {A} (f : A -> bool) l x :
  find f (l ++ [x]) = match find f l with Some y => Some y | None => if f x then Some x else None end.
Proof. induction l as [|a l IH]; simpl; [reflexivity|]. destruct (f a); [reflexivity|exact IH]. Qed.

Lemma known_room_find defs R :
  known_room defs R = true -> exists p, find (fun p => N.eqb (fst p) R) defs = Some p /\ fst p = R.
Proof.
  unfold known_room. intros Hk. destruct (find (fun p => N.eqb (fst p) R) defs) as [p|] eqn:Hf.
  - exists p. split; [reflexivity|]. apply find_some in Hf. destruct Hf as [_ He]. apply N.eqb_eq. exact He.
  - exfalso. apply existsb_exists in Hk. destruct Hk as [p [Hin He]].
    pose proof (find_none _ _ Hf p Hin) as Hn. cbv beta in Hn. congruence.
Qed.

Lemma unknown_room_find defs R : known_room defs R = false -> find (fun p => N.eqb (fst p) R) defs = None.
Proof.
  unfold known_room. intros Hk. destruct (find (fun p => N.eqb (fst p) R) defs) as [p|] eqn:Hf; [|reflexivity].
  apply find_some in Hf. destruct Hf as [Hin He].
  assert (Ht : existsb (fun p => N.eqb (fst p) R) defs = true) by (apply existsb_exists; exists p; auto). congruence.
Qed.

Lemma known_room_grow_known defs R new R' :
  known_room defs R = true -> known_room (grow_defs defs R new) R' = known_room defs R'.
Proof.
  intros Hk. unfold grow_defs. rewrite Hk. unfold known_room. rewrite existsb_map.
  apply existsb_ext_in. intros p _. rewrite fst_grow_entry. reflexivity.
Qed.
Lemma known_room_grow_new defs R new R' :
  known_room defs R = false -> known_room (grow_defs defs R new) R' = known_room defs R' || N.eqb R R'.
Proof.
  intros Hk. unfold grow_defs. rewrite Hk. unfold known_room. rewrite existsb_app. simpl. rewrite orb_false_r. reflexivity.
Qed.

(* the accepted history of another room is untouched *)
Lemma evs_of_grow_other defs R new R' : R' <> R -> evs_of (grow_defs defs R new) R' = evs_of defs R'.
Proof.
  intros Hne. unfold grow_defs, evs_of. destruct (known_room defs R).
  - rewrite find_def_map. destruct (find (fun p => N.eqb (fst p) R') defs) as [p|] eqn:Hf; simpl; [|reflexivity].
    apply find_some in Hf. destruct Hf as [_ He]. apply N.eqb_eq in He.
    rewrite grow_entry_other; [reflexivity|].
    intros E. apply Hne. transitivity (fst p); [symmetry; exact He|exact E].
  - rewrite find_snoc. destruct (find (fun p => N.eqb (fst p) R') defs) as [p|]; [reflexivity|].
    simpl. assert (Hn : N.eqb R R' = false) by (apply N.eqb_neq; congruence). rewrite Hn. reflexivity.
Qed.

(* the accepted history of the grown room is the old one followed by the accepted tail *)
Lemma evs_of_grow_same defs R new :
  known_room defs R = true -> evs_of (grow_defs defs R new) R = evs_of defs R ++ grow_tail defs R new.
Proof.
  intros Hk. destruct (known_room_find defs R Hk) as [p [Hf Hp]].
  unfold grow_defs, evs_of, grow_tail. rewrite Hk, find_def_map, Hf. simpl.
  rewrite (grow_entry_same R new p Hp). cbn [fst snd]. rewrite Hp. apply accepted_app.
Qed.

Lemma evs_of_no_orphans defs R : no_orphans (evs_of defs R).
Proof.
  unfold evs_of. destruct (find (fun p => N.eqb (fst p) R) defs) as [p|]; [apply accepted_no_orphans|apply no_orphans_nil].
Qed.

(* the rooms a receiver builds from grown definitions are the rooms it had, fed the new entries
   (this is the link to the executable side: build_rooms is what validate_* and do_step are given) *)
Lemma build_rooms_grow_known defs R new :
  known_room defs R = true ->
  build_rooms (grow_defs defs R new) =
  map (fun p => if N.eqb (fst p) R then fst (build_from (build (fst p) (snd p)) new) else build (fst p) (snd p)) defs.
Proof.
  intros Hk. unfold grow_defs, build_rooms. rewrite Hk, map_map. apply map_ext. intros p.
  unfold grow_entry, uid. destruct (N.eqb (fst p) R); [|reflexivity]. cbn [fst snd]. apply build_app.
Qed.

Lemma grantedR_grow_other defs R new R' k en d t :
  R' <> R -> grantedR (grow_defs defs R new) R' k en d t = grantedR defs R' k en d t.
Proof.
  intros Hne. unfold grantedR. rewrite evs_of_grow_other by exact Hne.
  destruct (known_room defs R) eqn:Hk.
  - rewrite known_room_grow_known by exact Hk. reflexivity.
  - rewrite known_room_grow_new by exact Hk.
    assert (Hn : N.eqb R R' = false) by (apply N.eqb_neq; congruence). rewrite Hn, orb_false_r. reflexivity.
Qed.

(* PAST-STABILITY at the level of a receiver's definitions *)
Lemma grantedR_grow_same defs R new k en d t :
  known_room defs R = true -> evs_after d (grow_tail defs R new) = true ->
  grantedR (grow_defs defs R new) R k en d t = grantedR defs R k en d t.
Proof.
  intros Hk Ha. unfold grantedR. rewrite known_room_grow_known by exact Hk.
  rewrite evs_of_grow_same by exact Hk. rewrite granted_app_after; [reflexivity|apply evs_of_no_orphans|exact Ha].
Qed.

Lemma room_grants_grow defs R new room k en d :
  (room = Some R -> evs_after d (grow_tail defs R new) = true) ->
  room_grants defs room k en d = true -> room_grants (grow_defs defs R new) room k en d = true.
Proof.
  intros Ha. destruct room as [R'|]; [|auto]. cbn [room_grants].
  destruct (N.eq_dec R' R) as [->|Hne].
  - destruct (known_room defs R) eqn:Hk.
    + rewrite grantedR_grow_same; auto.
    + unfold grantedR at 1. rewrite Hk. discriminate.
  - rewrite grantedR_grow_other by exact Hne. auto.
Qed.

Lemma in_room_some R n : n_room n = Some R -> in_room R n = true.
Proof. unfold in_room. intros ->. simpl. apply N.eqb_refl. Qed.

Lemma entitled_node_grow defs R new x :
  negb (in_room R x) || evs_after (n_mdate x) (grow_tail defs R new) = true ->
  entitled_node defs x = true -> entitled_node (grow_defs defs R new) x = true.
Proof.
  intros Hc. unfold entitled_node. destruct (n_room x) as [R'|] eqn:Er; [|auto].
  destruct (n_ent x) as [en|]; [|auto].
  apply (room_grants_grow defs R new (Some R') (n_author x) en (n_mdate x)).
  intros HR. inversion HR; subst R'. rewrite (in_room_some R x Er) in Hc. exact Hc.
Qed.

Lemma entitled_edge_grow defs R new nodes y :
  forallb (fun n => negb (anchors n y && in_room R n) || evs_after (e_cdate y) (grow_tail defs R new)) nodes = true ->
  entitled_edge defs nodes y = true -> entitled_edge (grow_defs defs R new) nodes y = true.
Proof.
  intros Hc. unfold entitled_edge. destruct (e_ent y) as [en|]; [|auto]. intros He.
  apply existsb_exists in He. destruct He as [n [Hn Hb]]. apply andb_prop in Hb. destruct Hb as [Hanc Hgr].
  apply existsb_exists. exists n. split; [exact Hn|]. rewrite Hanc. cbn [andb].
  apply room_grants_grow; [|exact Hgr].
  intros HR. rewrite forallb_forall in Hc. specialize (Hc n Hn). rewrite Hanc, (in_room_some R n HR) in Hc. exact Hc.
Qed.

(* ------------------------------------------------------------------ the growth step *)
Theorem preserved_by_growth_rows defs st R new :
  grow_after_rows defs st R new = true ->
  nodes_entitled defs st = true -> nodes_entitled (grow_defs defs R new) st = true.
Proof.
  unfold grow_after_rows, nodes_entitled. intros Hc Hn. rewrite forallb_forall in *.
  intros x Hx. apply entitled_node_grow; auto.
Qed.

Theorem preserved_by_growth defs st R new :
  grow_after_rows defs st R new = true -> grow_after_refs defs st R new = true ->
  all_entitled defs st = true -> all_entitled (grow_defs defs R new) st = true.
Proof.
  intros Hr He Hall. apply all_entitled_iff in Hall. destruct Hall as [HN HE]. apply all_entitled_iff.
  split; [apply preserved_by_growth_rows; assumption|].
  unfold grow_after_refs, edges_entitled in *. rewrite forallb_forall in *.
  intros y Hy. apply entitled_edge_grow; auto.
Qed.

(* ------------------------------------------------------------------ THE INVARIANT with growing definitions *)
Lemma gsys_do_rows dm g s :
  gstep_rows_ok g s = true -> g_nodes_entitled g = true -> g_nodes_entitled (fst (gsys_do dm g s)) = true.
Proof.
  unfold g_nodes_entitled. destruct s as [s0|R new]; cbn [gstep_rows_ok gsys_do fst g_defs g_store]; intros Hc Hn.
  - eapply nodes_ok_entitled; [apply sys_do_rows|exact Hn].
  - apply preserved_by_growth_rows; assumption.
Qed.

(* (1) rows: histories of any length mixing the four kinds of step *)
Theorem store_invariant_defs_growth dm : forall hist g,
  g_nodes_entitled g = true ->
  ghist_rows_ok dm g hist = true ->
  g_nodes_entitled (gsys_final dm g hist) = true.
Proof.
  induction hist as [|s tl IH]; intros g Hn Hok; cbn [gsys_final]; [exact Hn|].
  cbn [ghist_rows_ok] in Hok. apply andb_prop in Hok. destruct Hok as [H1 H2].
  apply IH; [|exact H2]. apply gsys_do_rows; assumption.
Qed.

Lemma gsys_do_all dm g s :
  gstep_stable dm g s = true -> g_all_entitled g = true -> g_all_entitled (fst (gsys_do dm g s)) = true.
Proof.
  unfold g_all_entitled. destruct s as [s0|R new]; cbn [gstep_stable gsys_do fst g_defs g_store]; intros Hc Hall.
  - apply step_preserves with (g_store g).
    + exact Hall.
    + unfold step_stable in Hc. apply andb_prop in Hc. tauto.
    + apply sys_do_rows.
    + apply sys_do_refs. exact Hc.
  - apply andb_prop in Hc. destruct Hc as [Hr He]. apply preserved_by_growth; assumption.
Qed.

(* (2) rows and references *)
Theorem store_all_invariant_defs_growth dm : forall hist g,
  g_all_entitled g = true ->
  ghist_stable dm g hist = true ->
  g_all_entitled (gsys_final dm g hist) = true.
Proof.
  induction hist as [|s tl IH]; intros g Hall Hok; cbn [gsys_final]; [exact Hall|].
  cbn [ghist_stable] in Hok. apply andb_prop in Hok. destruct Hok as [H1 H2].
  apply IH; [|exact H2]. apply gsys_do_all; assumption.
Qed.

(* a history without growth steps is a history of System.v: the extension is conservative *)
Lemma gsys_final_embed dm : forall hist defs st,
  gsys_final dm {| g_defs := defs; g_store := st |} (map SysStep hist) =
  {| g_defs := defs; g_store := sys_final (build_rooms defs) dm st hist |}.
Proof. induction hist as [|s tl IH]; intros defs st; cbn [map gsys_final sys_final]; [reflexivity|]. apply IH. Qed.
Lemma ghist_rows_ok_embed dm : forall hist g, ghist_rows_ok dm g (map SysStep hist) = true.
Proof. induction hist as [|s tl IH]; intros g; cbn [map ghist_rows_ok gstep_rows_ok andb]; [reflexivity|apply IH]. Qed.
Lemma ghist_stable_embed dm : forall hist defs st,
  ghist_stable dm {| g_defs := defs; g_store := st |} (map SysStep hist) = hist_stable (build_rooms defs) dm st hist.
Proof.
  induction hist as [|s tl IH]; intros defs st; cbn [map ghist_stable hist_stable gstep_stable g_defs g_store]; [reflexivity|].
  f_equal. apply IH.
Qed.
(* SystemP.rows_invariant is the growth-free special case *)
Corollary rows_invariant_again defs dm hist st :
  nodes_entitled defs st = true -> nodes_entitled defs (sys_final (build_rooms defs) dm st hist) = true.
Proof.
  intros Hn.
  pose proof (store_invariant_defs_growth dm (map SysStep hist) {| g_defs := defs; g_store := st |} Hn
                (ghist_rows_ok_embed dm hist _)) as H.
  rewrite gsys_final_embed in H. exact H.
Qed.

(* the empty store satisfies the premise whatever the definitions *)
Lemma empty_gstate_entitled defs :
  g_all_entitled {| g_defs := defs; g_store := {| s_nodes := []; s_edges := []; s_ndels := []; s_edels := [] |} |} = true.
Proof. reflexivity. Qed.

(* ------------------------------------------------------------------ closed cases *)
Local Open Scope N_scope.
Definition empty_w : store := st_w [] [].
(* room 1: group 1 gives the own-rows right on every entity from date 0, key 2 is a member from date 3 *)
Definition defs_b : list (uid * list event) := [(1, [EvGroup 1; EvRight 1 0 0%Z true false; EvUser 1 2 3%Z true])].
Definition write_w (me : key) (date : Z) (room : uid) (tag id : N) : gstep :=
  SysStep (SysWrite me date [MEnt (head_w 1 room date None) []] [lx_w tag id []] [] []).

(* THE SIDE CONDITION IS NEEDED.  From the empty store: key 2 (member since 3) writes row 100 at date 7:
   accepted.  Then the definition of room 1 grows by the BACK-DATED entry "key 2 disabled at 5": room.rs
   accepts it (answer [0; 1]: 5 is not older than key 2's last entry, dated 3).  The row of date 7 is
   still stored and is no longer entitled; the rows side condition is false exactly at that step. *)
Definition w_backdated : gcase :=
  {| gc_defs := defs_b; gc_dm := dm_w; gc_pre := empty_w;
     gc_hist := [write_w 2 7%Z 1 1 100; SysGrow 1 [EvUser 1 2 5%Z false]] |}.
(* the same with a back-dated RIGHT entry (entity 1: no right from date 5) *)
Definition w_backdated_right : gcase :=
  {| gc_defs := defs_b; gc_dm := dm_w; gc_pre := empty_w;
     gc_hist := [write_w 2 7%Z 1 1 100; SysGrow 1 [EvRight 1 1 5%Z false false]] |}.
(* an entry dated exactly as the row *)
Definition w_samedate : gcase :=
  {| gc_defs := defs_b; gc_dm := dm_w; gc_pre := empty_w;
     gc_hist := [write_w 2 7%Z 1 1 100; SysGrow 1 [EvUser 1 2 7%Z false]] |}.
(* a later entry: harmless *)
Definition w_later : gcase :=
  {| gc_defs := defs_b; gc_dm := dm_w; gc_pre := empty_w;
     gc_hist := [write_w 2 7%Z 1 1 100; SysGrow 1 [EvUser 1 2 8%Z false]] |}.

Example store_invariant_backdated_refuted :
  gc_answers w_backdated = [[0]; [0; 1]]%Z /\ gverdicts w_backdated = (true, false, false, false, false) /\
  ghist_rows_ok (gc_dm w_backdated) (gc_init w_backdated) [write_w 2 7%Z 1 1 100] = true /\
  g_nodes_entitled (gsys_final (gc_dm w_backdated) (gc_init w_backdated) [write_w 2 7%Z 1 1 100]) = true /\
  dump (g_store (gc_final w_backdated)) = [1; 1; 0; 0; 0]%Z /\
  gc_answers w_backdated_right = [[0]; [0; 1]]%Z /\ gverdicts w_backdated_right = (true, false, false, false, false) /\
  gc_answers w_samedate = [[0]; [0; 1]]%Z /\ gverdicts w_samedate = (true, false, false, false, false) /\
  gc_answers w_later = [[0]; [0; 1]]%Z /\ gverdicts w_later = (true, true, true, true, true).
Proof. vm_compute. repeat split; reflexivity. Qed.

(* references need their own dates: key 2 (own-rows right from 10) holds row 100 of date 20 with a
   reference created at date 30; "key 2 disabled at 25" is later than every ROW of the room (the rows
   stay entitled) but not later than the reference, which loses its entitlement *)
Definition w_refdate : gcase :=
  {| gc_defs := [(1, member_w 2 2 0 true false)]; gc_dm := dm_w;
     gc_pre := st_w [node_w 1 100 1 1 good_w 20%Z 2; node_w 2 101 1 1 good_w 20%Z 2] [edge_w 3 100 1 101 30%Z 2];
     gc_hist := [SysGrow 1 [EvUser 2 2 25%Z false]] |}.
Example references_need_their_dates :
  gc_answers w_refdate = [[0; 1]]%Z /\ gverdicts w_refdate = (true, true, false, true, false).
Proof. vm_compute. repeat split; reflexivity. Qed.

(* NON-VACUITY: ten steps from the empty store.  Room 1: key 1 all-rows right (group 1), key 2
   own-rows right (group 2), both from date 10.
     1  key 2 writes rows 100, 101 and a reference 100 -> 101 at date 20                  [0]
     2  room 1 grows: "key 2 disabled at 30" — later than every row and reference          [0; 1]
     3  key 2 writes at date 35: refused (Rejected)                                         [1]
     4  a peer sends row 103 of key 2 dated 25, BEFORE the revocation: stored               [0; 0]
     5  a peer sends row 104 of key 2 dated 32, after the revocation: rejected              [0; 1; 104]
     6  room 1 grows: "key 2 enabled at 40" (accepted) and the back-dated "key 2 disabled at 15"
        (refused by room.rs: older than key 2's last entry; it does not count)              [0; 1; 0]
     7  key 2 writes row 105 at date 45: accepted again                                     [0]
     8  room 2 is CREATED: group 1, key 3 member and own-rows right from 50                 [2; 1; 1; 1]
     9  key 3 writes row 106 in room 2 at date 60                                           [0]
    10  key 1 (all-rows right) deletes row 101 of key 2 and its reference, rewriting row 100 [0]
   Both side conditions hold, four rows and no reference are held at the end, all entitled; and the
   final definitions are the initial ones with the accepted AND refused entries appended. *)
Definition w_growth_ok : gcase :=
  {| gc_defs := [(1, member_w 1 1 0 true true ++ member_w 2 2 0 true false)]; gc_dm := dm_w; gc_pre := empty_w;
     gc_hist :=
       [SysStep (SysWrite 2 20%Z [MEnt (head_w 1 1 20%Z None) [MEnt (head_w 2 1 20%Z None) []]]
                          [lx_w 1 100 [(3, 1, 101)]; lx_w 2 101 []] [] []);
        SysGrow 1 [EvUser 2 2 30%Z false];
        write_w 2 35%Z 1 4 102;
        SysStep (SysRemote (SNodes 1 [node_w 5 103 1 1 good_w 25%Z 2]));
        SysStep (SysRemote (SNodes 1 [node_w 6 104 1 1 good_w 32%Z 2]));
        SysGrow 1 [EvUser 2 2 40%Z true; EvUser 2 2 15%Z false];
        write_w 2 45%Z 1 7 105;
        SysGrow 2 [EvGroup 1; EvUser 1 3 50%Z true; EvRight 1 0 50%Z true false];
        write_w 3 60%Z 2 8 106;
        SysStep (SysDelete 1 70%Z
                  [({| dn_kind := KNormal; dn_ent := 2; dn_room := Some 1; dn_author := 2; dn_date := 20%Z |}, 101)]
                  [({| de_kind := KNormal; de_ent := 1; de_room := Some 1; de_author := 2; de_date := 20%Z |}, (100, 1, 101))]
                  [({| dn_kind := KNormal; dn_ent := 1; dn_room := Some 1; dn_author := 2; dn_date := 20%Z |}, lrow_w 9 100)]
                  [] [])] |}.

Example defs_growth_nonvacuous :
  gverdicts w_growth_ok = (true, true, true, true, true) /\
  gc_answers w_growth_ok = [[0]; [0; 1]; [1]; [0; 0]; [0; 1; 104]; [0; 1; 0]; [0]; [2; 1; 1; 1]; [0]; [0]]%Z /\
  dump (g_store (gc_final w_growth_ok)) = [4; 5; 7; 8; 9;  0;  0;  0]%Z /\
  g_defs (gc_final w_growth_ok) =
    [(1, member_w 1 1 0 true true ++ member_w 2 2 0 true false ++
         [EvUser 2 2 30%Z false; EvUser 2 2 40%Z true; EvUser 2 2 15%Z false]);
     (2, [EvGroup 1; EvUser 1 3 50%Z true; EvRight 1 0 50%Z true false])].
Proof. vm_compute. repeat split; reflexivity. Qed.
