(* C16P.v — proofs for C16 (pipeline of read / validate / write phases). *)
From Coq Require Import Permutation.
From DV Require Import Pipeline Run_C16.

(* ------------------------------------------------------------------ small list facts *)
Lemma memn_In : forall i l, memn i l = true <-> In i l.
Proof.
  induction l as [|j t IH]; cbn [memn In]; [split; [discriminate | tauto]|].
  rewrite Bool.orb_true_iff, IH, Nat.eqb_eq. split; intros [H|H]; auto.
Qed.
Lemma memn_false : forall i l, memn i l = false <-> ~ In i l.
Proof.
  intros i l. rewrite <- memn_In. destruct (memn i l); split; intros H; auto; try discriminate.
  exfalso; apply H; reflexivity.
Qed.

Lemma lookup_In : forall A i (l : list (nat * A)) p, lookup i l = Some p -> In (i, p) l.
Proof.
  induction l as [|[j a] t IH]; cbn [lookup]; intros p H; [discriminate|].
  destruct (Nat.eqb i j) eqn:E.
  - apply Nat.eqb_eq in E. inversion H; subst. left; reflexivity.
  - right; auto.
Qed.
Lemma In_remove_key : forall A i (l : list (nat * A)) j q,
  In (j, q) (remove_key i l) <-> In (j, q) l /\ j <> i.
Proof.
  intros A i l j q. unfold remove_key. rewrite filter_In. cbn [fst].
  rewrite Bool.negb_true_iff, Nat.eqb_neq. intuition congruence.
Qed.
Lemma keys_remove_key : forall A i (l : list (nat * A)),
  map fst (remove_key i l) = remove_nat i (map fst l).
Proof.
  induction l as [|[j a] t IH]; [reflexivity|].
  unfold remove_key, remove_nat in *. cbn [filter map fst].
  destruct (negb (Nat.eqb i j)); cbn [map fst]; rewrite IH; reflexivity.
Qed.
Lemma In_remove_nat : forall i l j, In j (remove_nat i l) <-> In j l /\ j <> i.
Proof.
  intros i l j. unfold remove_nat. rewrite filter_In, Bool.negb_true_iff, Nat.eqb_neq.
  intuition congruence.
Qed.

(* ------------------------------------------------------------------ frame: what a read depends on *)
Definition pend_wf (p : pending) : Prop :=
  (forall n, p_node p = Some n -> r_id n = p_row p) /\
  Forall (fun e => e_src e = p_row p) (p_del p) /\
  Forall (fun e => e_src e = p_row p) (p_ins p).

Lemma ref_read_src : forall x date es op,
  Forall (fun e => e_src e = x) es ->
  Forall (fun e => e_src e = x) (fst (fst (ref_read x date es op))) /\
  Forall (fun e => e_src e = x) (snd (fst (ref_read x date es op))).
Proof.
  intros x date es op Hes. destruct op as [l ds|l dst|l]; cbn [ref_read].
  - cbn [fst snd]. split; [constructor|].
    apply Forall_forall. intros e He. apply in_map_iff in He. destruct He as [dst [<- _]]. reflexivity.
  - destruct (edge_exists l dst es); cbn [fst snd]; split; try constructor; auto.
    unfold get_edges. apply Forall_forall. intros e He. apply filter_In in He.
    rewrite Forall_forall in Hes. apply Hes, He.
  - cbn [fst snd]. split; [|constructor].
    unfold get_edges. apply Forall_forall. intros e He. apply filter_In in He.
    rewrite Forall_forall in Hes. apply Hes, He.
Qed.

Lemma Forall_flat_map : forall A B (P : B -> Prop) (f : A -> list B) l,
  (forall a, In a l -> Forall P (f a)) -> Forall P (flat_map f l).
Proof.
  induction l as [|a t IH]; intros H; cbn [flat_map]; [constructor|].
  apply Forall_app. split; [apply H; left; reflexivity | apply IH; intros; apply H; right; assumption].
Qed.

Lemma read_wf : forall d m p, read d m = Some p -> pend_wf p /\ p_row p = m_row m.
Proof.
  intros d m p H. unfold read in H. destruct (find_row (m_row m) d) as [old|] eqn:F; [|discriminate].
  inversion H; subst p; clear H. unfold read_view, pend_wf; cbn [p_row p_node p_del p_ins].
  assert (Hes : Forall (fun e => e_src e = m_row m) (edges_of (m_row m) d)).
  { unfold edges_of. apply Forall_forall. intros e He. apply filter_In in He. apply N.eqb_eq, He. }
  split; [|reflexivity]. split; [|split].
  - intros n Hn. destruct (_ || _); [|discriminate]. inversion Hn; subst n; cbn [r_id].
    unfold find_row in F. apply find_some in F. apply N.eqb_eq, F.
  - apply Forall_flat_map. intros t Ht. apply in_map_iff in Ht. destruct Ht as [op [<- _]].
    apply ref_read_src, Hes.
  - apply Forall_flat_map. intros t Ht. apply in_map_iff in Ht. destruct Ht as [op [<- _]].
    apply ref_read_src, Hes.
Qed.

Lemma find_replace_other : forall (n : row) x l,
  r_id n <> x ->
  find (fun r => N.eqb (r_id r) x) (map (fun r => if N.eqb (r_id r) (r_id n) then n else r) l)
  = find (fun r => N.eqb (r_id r) x) l.
Proof.
  intros n x l Hne. induction l as [|r t IH]; [reflexivity|]. cbn [map find].
  destruct (N.eqb (r_id r) (r_id n)) eqn:E.
  - apply N.eqb_eq in E.
    assert (E1 : N.eqb (r_id n) x = false) by (apply N.eqb_neq; assumption).
    assert (E2 : N.eqb (r_id r) x = false) by (apply N.eqb_neq; congruence).
    rewrite E1, E2. apply IH.
  - destruct (N.eqb (r_id r) x); [reflexivity | apply IH].
Qed.

Lemma filter_src_delete : forall x e es,
  e_src e <> x ->
  filter (fun a => N.eqb (e_src a) x) (delete_edge e es) = filter (fun a => N.eqb (e_src a) x) es.
Proof.
  intros x e es Hne. unfold delete_edge. induction es as [|a t IH]; [reflexivity|]. cbn [filter].
  destruct (N.eqb (e_src a) x) eqn:E.
  - assert (K : same_key a e = false).
    { unfold same_key. apply N.eqb_eq in E.
      assert (E1 : N.eqb (e_src a) (e_src e) = false) by (apply N.eqb_neq; congruence).
      rewrite E1. reflexivity. }
    rewrite K. cbn [negb filter]. rewrite E, IH. reflexivity.
  - destruct (negb (same_key a e)); cbn [filter]; [rewrite E|]; apply IH.
Qed.
Lemma filter_src_insert : forall x e es,
  e_src e <> x ->
  filter (fun a => N.eqb (e_src a) x) (insert_edge e es) = filter (fun a => N.eqb (e_src a) x) es.
Proof.
  intros x e es Hne. unfold insert_edge. rewrite filter_app. cbn [filter].
  assert (E1 : N.eqb (e_src e) x = false) by (apply N.eqb_neq; assumption).
  rewrite E1, app_nil_r. apply (filter_src_delete x e es Hne).
Qed.

Lemma filter_src_fold_delete : forall x l es,
  Forall (fun e => e_src e <> x) l ->
  filter (fun a => N.eqb (e_src a) x) (fold_left (fun es e => delete_edge e es) l es)
  = filter (fun a => N.eqb (e_src a) x) es.
Proof.
  induction l as [|e t IH]; intros es H; [reflexivity|]. cbn [fold_left].
  inversion H; subst. rewrite IH by assumption. apply filter_src_delete; assumption.
Qed.
Lemma filter_src_fold_insert : forall x l es,
  Forall (fun e => e_src e <> x) l ->
  filter (fun a => N.eqb (e_src a) x) (fold_left (fun es e => insert_edge e es) l es)
  = filter (fun a => N.eqb (e_src a) x) es.
Proof.
  induction l as [|e t IH]; intros es H; [reflexivity|]. cbn [fold_left].
  inversion H; subst. rewrite IH by assumption. apply filter_src_insert; assumption.
Qed.

Lemma find_row_write : forall p d x, pend_wf p -> p_row p <> x -> find_row x (write p d) = find_row x d.
Proof.
  intros p d x [Hn _] Hne. unfold find_row, write; cbn [rows].
  destruct (p_node p) as [n|] eqn:E; [|reflexivity].
  apply find_replace_other. rewrite (Hn n eq_refl). assumption.
Qed.
Lemma edges_of_write : forall p d x, pend_wf p -> p_row p <> x -> edges_of x (write p d) = edges_of x d.
Proof.
  intros p d x [_ [Hd Hi]] Hne. unfold edges_of, write; cbn [edges].
  rewrite filter_src_fold_insert, filter_src_fold_delete; [reflexivity| |].
  - eapply Forall_impl; [|exact Hd]. cbn beta. intros e He. congruence.
  - eapply Forall_impl; [|exact Hi]. cbn beta. intros e He. congruence.
Qed.

(* a write of a mutation on another row leaves what a read sees unchanged *)
Lemma read_write_frame : forall p d m, pend_wf p -> p_row p <> m_row m -> read (write p d) m = read d m.
Proof.
  intros p d m Hwf Hne. unfold read. rewrite find_row_write, edges_of_write by assumption. reflexivity.
Qed.

(* ------------------------------------------------------------------ T1: schedules without overlapping windows *)
Record inv (ms : list mutation) (d0 : db) (open : list nat) (s : st) : Prop := {
  inv_db : s_db s = fold_left (apply ms) (s_acked s) d0;
  inv_snap : forall i p, In (i, p) (s_pend s) -> exists m, nth_error ms i = Some m /\ read (s_db s) m = Some p;
  inv_keys : NoDup (map fst (s_pend s));
  inv_rows : forall i p j q, In (i, p) (s_pend s) -> In (j, q) (s_pend s) -> i <> j -> p_row p <> p_row q;
  inv_open : incl (map fst (s_pend s)) open;
  inv_failed : forall i, In i (s_failed s) -> ~ In i (map fst (s_pend s)) }.

Definition open_after (e : ev) (open : list nat) : list nat :=
  match e with R i => i :: open | V _ => open | W i => remove_nat i open end.

Lemma windows_ok_cons : forall ms open e t,
  windows_ok ms open (e :: t) = true -> windows_ok ms (open_after e open) t = true.
Proof.
  intros ms open e t H. destruct e; cbn [windows_ok open_after] in *; auto.
  apply Bool.andb_true_iff in H. apply H.
Qed.

Lemma started_false : forall i s, started i s = false ->
  ~ In i (map fst (s_pend s)) /\ ~ In i (s_acked s) /\ ~ In i (s_failed s).
Proof.
  intros i s H. unfold started in H. apply Bool.orb_false_iff in H. destruct H as [H H3].
  apply Bool.orb_false_iff in H. destruct H as [H1 H2].
  rewrite memn_false in H1, H2, H3. auto.
Qed.

Lemma step_inv : forall ms d0 open s e t s',
  inv ms d0 open s -> windows_ok ms open (e :: t) = true -> step ms s e = Some s' ->
  inv ms d0 (open_after e open) s'.
Proof.
  intros ms d0 open s e t s' I Hw Hs. destruct I as [Idb Isnap Ikeys Irows Iopen Ifail].
  destruct e as [i|i|i]; cbn [step open_after] in *.
  - (* R i *)
    destruct (started i s) eqn:St; [discriminate|].
    apply started_false in St. destruct St as [Sk [Sa Sf]].
    destruct (nth_error ms i) as [m|] eqn:Nm; [|discriminate].
    cbn [windows_ok] in Hw. apply Bool.andb_true_iff in Hw. destruct Hw as [Hrow _].
    rewrite forallb_forall in Hrow.
    destruct (read (s_db s) m) as [p|] eqn:Rd; inversion Hs; subst s'; clear Hs.
    { constructor; cbn [s_db s_pend s_acked s_failed].
      - assumption.
      - intros j q [H|H]; [inversion H; subst; exists m; auto | auto].
      - cbn [map fst]. constructor; assumption.
      - assert (K : forall j q, In (j, q) (s_pend s) -> p_row p <> p_row q).
        { intros j q Hj. destruct (Isnap j q Hj) as [mj [Nj Rj]].
          apply read_wf in Rd. apply read_wf in Rj. destruct Rd as [_ Rd]. destruct Rj as [_ Rj].
          assert (Jo : In j open) by (apply Iopen; apply in_map_iff; exists (j, q); auto).
          specialize (Hrow j Jo). unfold row_of in Hrow. rewrite Nj, Nm in Hrow. cbn [opt_eqb] in Hrow.
          apply Bool.negb_true_iff, N.eqb_neq in Hrow. congruence. }
        intros a pa b pb [Ha|Ha] [Hb|Hb] Hne.
        + inversion Ha; inversion Hb; subst. congruence.
        + inversion Ha; subst. eapply K; eauto.
        + inversion Hb; subst. intros E. symmetry in E. revert E. eapply K; eauto.
        + eapply Irows; eauto.
      - cbn [map fst]. intros j [<-|Hj]; [left; reflexivity | right; apply Iopen, Hj].
      - intros j Hj. cbn [map fst]. intros [<-|Hk]; [contradiction | eapply Ifail; eauto]. }
    { constructor; cbn [s_db s_pend s_acked s_failed]; auto.
      - intros j Hj. right. apply Iopen, Hj.
      - intros j Hj. apply in_app_or in Hj. destruct Hj as [Hj|[<-|[]]]; auto. }
  - (* V i *)
    destruct (memn i (s_failed s)); [inversion Hs; subst; constructor; auto|].
    destruct (memn i (map fst (s_pend s)) && negb (memn i (s_fifo s))); [|discriminate].
    inversion Hs; subst s'; constructor; cbn [s_db s_pend s_acked s_failed]; auto.
  - (* W i *)
    destruct (memn i (s_failed s)) eqn:Mf.
    + inversion Hs; subst s'. apply memn_In in Mf. constructor; auto.
      intros j Hj. apply In_remove_nat. split; [apply Iopen, Hj|].
      intros ->. eapply Ifail; eauto.
    + destruct (s_fifo s) as [|j rest]; [discriminate|].
      destruct (Nat.eqb i j) eqn:Eij; [|discriminate].
      destruct (lookup i (s_pend s)) as [p|] eqn:Lk; [|discriminate].
      inversion Hs; subst s'; clear Hs. apply lookup_In in Lk.
      destruct (Isnap i p Lk) as [m [Nm Rd]]. pose proof (read_wf _ _ _ Rd) as [Wf Pr].
      constructor; cbn [s_db s_pend s_acked s_failed].
      * rewrite fold_left_app. cbn [fold_left]. rewrite <- Idb. unfold apply. rewrite Nm, Rd. reflexivity.
      * intros k q Hk. apply In_remove_key in Hk. destruct Hk as [Hk Hne].
        destruct (Isnap k q Hk) as [mk [Nk Rk]]. exists mk. split; [assumption|].
        rewrite read_write_frame; [assumption | assumption |].
        pose proof (read_wf _ _ _ Rk) as [_ Pk]. rewrite <- Pk. eapply Irows; eauto.
      * rewrite keys_remove_key. unfold remove_nat. apply NoDup_filter, Ikeys.
      * intros a pa b pb Ha Hb. apply In_remove_key in Ha. apply In_remove_key in Hb.
        eapply Irows; [apply Ha | apply Hb].
      * rewrite keys_remove_key. intros k Hk. apply In_remove_nat in Hk. apply In_remove_nat.
        split; [apply Iopen, Hk | apply Hk].
      * intros k Hk. rewrite keys_remove_key. intros Hin. apply In_remove_nat in Hin.
        eapply Ifail; [exact Hk | apply Hin].
Qed.

Lemma run_inv : forall ms d0 sigma open s s',
  inv ms d0 open s -> windows_ok ms open sigma = true -> run ms s sigma = Some s' ->
  exists open', inv ms d0 open' s'.
Proof.
  induction sigma as [|e t IH]; intros open s s' I Hw Hr; cbn [run] in Hr.
  - inversion Hr; subst. exists open; assumption.
  - destruct (step ms s e) as [s1|] eqn:Hs; [|discriminate].
    eapply IH; [eapply step_inv; eauto | eapply windows_ok_cons; eauto | exact Hr].
Qed.

Lemma inv_init : forall ms d0, inv ms d0 [] (init d0).
Proof.
  intros. constructor; cbn [init s_db s_pend s_acked s_failed fold_left map].
  - reflexivity.
  - intros i p [].
  - constructor.
  - intros i p j q [].
  - intros i [].
  - intros i [].
Qed.

(* every schedule (any number of mutations, any length) in which no Read of a mutation on row x
   falls between the Read and the Write of another mutation on x leaves exactly the state of
   the serial application of the written mutations in write order *)
Theorem serial_ok : forall d ms sigma s,
  run_sched d ms sigma = Some s -> windows_ok ms [] sigma = true ->
  s_db s = fold_left (apply ms) (s_acked s) d.
Proof.
  intros d ms sigma s Hr Hw. unfold run_sched in Hr.
  destruct (run_inv ms d sigma [] (init d) s (inv_init ms d) Hw Hr) as [open' I].
  apply I.
Qed.

(* ------------------------------------------------------------------ T2: the statement on run_C16 / spec_C16 *)

(* --- every order is enumerated --- *)
Lemma insert_all_In : forall x l1 l2, In (l1 ++ x :: l2) (insert_all x (l1 ++ l2)).
Proof.
  induction l1 as [|y t IH]; intros l2; cbn [app].
  - destruct l2; cbn [insert_all]; left; reflexivity.
  - cbn [insert_all]. right. apply in_map. apply IH.
Qed.
Lemma perms_complete : forall l pi, Permutation l pi -> In pi (perms l).
Proof.
  induction l as [|x t IH]; intros pi HP; cbn [perms].
  - apply Permutation_nil in HP. subst. left; reflexivity.
  - assert (HP' := Permutation_sym HP).
    destruct (Permutation_vs_cons_inv HP') as [l1 [l2 E]]. subst pi.
    apply Permutation_cons_app_inv in HP.
    apply in_flat_map. exists (l1 ++ l2). split; [apply IH, HP | apply insert_all_In].
Qed.

(* --- chunks --- *)
Lemma firstn_len_app : forall A (c r : list A), firstn (length c) (c ++ r) = c.
Proof. induction c as [|a t IH]; intros r; cbn [length firstn app]; [reflexivity | rewrite IH; reflexivity]. Qed.
Lemma skipn_len_app : forall A (c r : list A), skipn (length c) (c ++ r) = r.
Proof. induction c as [|a t IH]; intros r; cbn [length skipn app]; [reflexivity | apply IH]. Qed.

Lemma split_join : forall l fuel, (length l < fuel)%nat -> split_chunks fuel (join l) = Some l.
Proof.
  induction l as [|c t IH]; intros fuel Hf.
  - destruct fuel; reflexivity.
  - unfold join. cbn [flat_map]. fold (join t). cbn [app].
    destruct fuel as [|f]; [cbn [length] in Hf; lia|]. cbn [split_chunks].
    rewrite Nat2Z.id.
    assert (E1 : (Z.of_nat (length c) <? 0) = false) by (apply Z.ltb_ge; lia).
    assert (E2 : (length (c ++ join t) <? length c)%nat = false)
      by (apply Nat.ltb_ge; rewrite app_length; lia).
    rewrite E1, E2. cbn [orb]. rewrite skipn_len_app, firstn_len_app.
    rewrite IH by (cbn [length] in Hf; lia). reflexivity.
Qed.
Lemma join_length : forall l, (length l <= length (join l))%nat.
Proof.
  induction l as [|c t IH]; [cbn; lia|].
  unfold join. cbn [flat_map]. fold (join t). cbn [length app]. rewrite app_length. lia.
Qed.

(* --- row identities never change --- *)
Definition ids (d : db) : list N := map r_id (rows d).
Lemma ids_write : forall p d, ids (write p d) = ids d.
Proof.
  intros p d. unfold ids, write; cbn [rows]. destruct (p_node p) as [n|]; [|reflexivity].
  rewrite map_map. apply map_ext. intros r. destruct (N.eqb (r_id r) (r_id n)) eqn:E; [|reflexivity].
  apply N.eqb_eq in E. congruence.
Qed.
Lemma find_row_none : forall x d, find_row x d = None <-> ~ In x (ids d).
Proof.
  intros x d. unfold find_row, ids. induction (rows d) as [|r t IH]; cbn [find map In]; [tauto|].
  destruct (N.eqb (r_id r) x) eqn:E.
  - apply N.eqb_eq in E. split; [discriminate | intros H; exfalso; apply H; left; assumption].
  - apply N.eqb_neq in E. rewrite IH. tauto.
Qed.
Definition has_row (ms : list mutation) (d : db) (i : nat) : bool :=
  match nth_error ms i with
  | Some m => match find_row (m_row m) d with Some _ => true | None => false end
  | None => false
  end.
Lemma read_none_iff : forall d m, read d m = None <-> find_row (m_row m) d = None.
Proof. intros d m. unfold read. destruct (find_row (m_row m) d); split; intros; congruence. Qed.
Lemma has_row_ids : forall ms d d' i, ids d = ids d' -> has_row ms d i = has_row ms d' i.
Proof.
  intros ms d d' i E. unfold has_row. destruct (nth_error ms i) as [m|]; [|reflexivity].
  destruct (find_row (m_row m) d) eqn:F; destruct (find_row (m_row m) d') eqn:F'; try reflexivity.
  - apply find_row_none in F'. rewrite <- E in F'. apply find_row_none in F'. congruence.
  - apply find_row_none in F. rewrite E in F. apply find_row_none in F. congruence.
Qed.

(* --- bookkeeping invariant of any run (no assumption on the schedule) --- *)
Record inv2 (ms : list mutation) (d0 : db) (s : st) : Prop := {
  i2_ids : ids (s_db s) = ids d0;
  i2_nk : NoDup (map fst (s_pend s));
  i2_na : NoDup (s_acked s);
  i2_nf : NoDup (s_failed s);
  i2_ka : forall i, In i (map fst (s_pend s)) -> ~ In i (s_acked s);
  i2_kf : forall i, In i (map fst (s_pend s)) -> ~ In i (s_failed s);
  i2_af : forall i, In i (s_acked s) -> ~ In i (s_failed s);
  i2_hk : forall i, In i (map fst (s_pend s)) -> has_row ms d0 i = true;
  i2_ha : forall i, In i (s_acked s) -> has_row ms d0 i = true;
  i2_hf : forall i, In i (s_failed s) -> has_row ms d0 i = false /\ nth_error ms i <> None }.

Lemma nodup_snoc : forall (l : list nat) i, NoDup l -> ~ In i l -> NoDup (l ++ [i]).
Proof.
  induction l as [|a t IH]; intros i Hn Hi; cbn [app].
  - constructor; [intros [] | constructor].
  - inversion Hn; subst. constructor.
    + intros H. apply in_app_or in H. destruct H as [H|[H|[]]]; [contradiction|].
      subst. apply Hi. left. reflexivity.
    + apply IH; [assumption | intros H; apply Hi; right; assumption].
Qed.
Lemma nodup_app2 : forall (a b : list nat), NoDup a -> NoDup b -> (forall x, In x a -> ~ In x b) -> NoDup (a ++ b).
Proof.
  induction a as [|x t IH]; intros b Ha Hb Hd; cbn [app]; [assumption|].
  inversion Ha; subst. constructor.
  - intros H. apply in_app_or in H. destruct H as [H|H]; [contradiction|]. apply (Hd x); [left; reflexivity | assumption].
  - apply IH; auto. intros y Hy. apply Hd. right. assumption.
Qed.

Lemma inv2_init : forall ms d0, inv2 ms d0 (init d0).
Proof.
  intros. constructor; cbn [init s_db s_pend s_acked s_failed map];
    try reflexivity; try (intros i []); constructor.
Qed.

Lemma step_inv2 : forall ms d0 s e s', inv2 ms d0 s -> step ms s e = Some s' -> inv2 ms d0 s'.
Proof.
  intros ms d0 s e s' I Hs.
  destruct I as [Iids Ink Ina Inf Ika Ikf Iaf Ihk Iha Ihf].
  destruct e as [i|i|i]; cbn [step] in Hs.
  - destruct (started i s) eqn:St; [discriminate|].
    apply started_false in St. destruct St as [Sk [Sa Sf]].
    destruct (nth_error ms i) as [m|] eqn:Nm; [|discriminate].
    destruct (read (s_db s) m) as [p|] eqn:Rd; inversion Hs; subst s'; clear Hs.
    + assert (Hr : has_row ms d0 i = true).
      { rewrite <- (has_row_ids ms (s_db s) d0 i Iids). unfold has_row. rewrite Nm.
        destruct (find_row (m_row m) (s_db s)) eqn:F; [reflexivity|].
        apply read_none_iff in F. congruence. }
      constructor; cbn [s_db s_pend s_acked s_failed map fst]; auto.
      * constructor; assumption.
      * intros j [<-|Hj]; auto.
      * intros j [<-|Hj]; auto.
      * intros j [<-|Hj]; auto.
    + assert (Hr : has_row ms d0 i = false).
      { rewrite <- (has_row_ids ms (s_db s) d0 i Iids). unfold has_row. rewrite Nm.
        apply read_none_iff in Rd. rewrite Rd. reflexivity. }
      constructor; cbn [s_db s_pend s_acked s_failed]; auto.
      * apply nodup_snoc; assumption.
      * intros j Hj H. apply in_app_or in H. destruct H as [H|[<-|[]]]; [eapply Ikf; eauto | contradiction].
      * intros j Hj H. apply in_app_or in H. destruct H as [H|[<-|[]]]; [eapply Iaf; eauto | contradiction].
      * intros j H. apply in_app_or in H. destruct H as [H|[<-|[]]]; [auto|]. split; [assumption | congruence].
  - destruct (memn i (s_failed s)); [inversion Hs; subst; constructor; auto|].
    destruct (memn i (map fst (s_pend s)) && negb (memn i (s_fifo s))); [|discriminate].
    inversion Hs; subst s'; constructor; cbn [s_db s_pend s_acked s_failed]; auto.
  - destruct (memn i (s_failed s)); [inversion Hs; subst; constructor; auto|].
    destruct (s_fifo s) as [|j rest]; [discriminate|].
    destruct (Nat.eqb i j); [|discriminate].
    destruct (lookup i (s_pend s)) as [p|] eqn:Lk; [|discriminate].
    inversion Hs; subst s'; clear Hs. apply lookup_In in Lk.
    assert (Ki : In i (map fst (s_pend s))) by (apply in_map_iff; exists (i, p); auto).
    constructor; cbn [s_db s_pend s_acked s_failed]; try rewrite keys_remove_key.
    + rewrite ids_write. assumption.
    + unfold remove_nat. apply NoDup_filter. assumption.
    + apply nodup_snoc; auto.
    + assumption.
    + intros k Hk H. apply In_remove_nat in Hk. destruct Hk as [Hk Hne].
      apply in_app_or in H. destruct H as [H|[H|[]]]; [eapply Ika; eauto | congruence].
    + intros k Hk. apply In_remove_nat in Hk. apply Ikf, Hk.
    + intros k H. apply in_app_or in H. destruct H as [H|[<-|[]]]; auto.
    + intros k Hk. apply In_remove_nat in Hk. apply Ihk, Hk.
    + intros k H. apply in_app_or in H. destruct H as [H|[<-|[]]]; auto.
    + assumption.
Qed.

Lemma run_inv2 : forall ms d0 sigma s s', inv2 ms d0 s -> run ms s sigma = Some s' -> inv2 ms d0 s'.
Proof.
  induction sigma as [|e t IH]; intros s s' I Hr; cbn [run] in Hr.
  - inversion Hr; subst; assumption.
  - destruct (step ms s e) as [s1|] eqn:Hs; [|discriminate].
    eapply IH; [eapply step_inv2; eauto | exact Hr].
Qed.

(* --- a mutation whose Write is in the schedule ends acknowledged or failed --- *)
Lemma step_mono : forall ms s e s', step ms s e = Some s' ->
  incl (s_acked s) (s_acked s') /\ incl (s_failed s) (s_failed s').
Proof.
  intros ms s e s' Hs. destruct e as [i|i|i]; cbn [step] in Hs.
  - destruct (started i s); [discriminate|]. destruct (nth_error ms i); [|discriminate].
    destruct (read (s_db s) m); inversion Hs; subst; cbn [s_acked s_failed]; split;
      try apply incl_refl. apply incl_appl, incl_refl.
  - destruct (memn i (s_failed s)); [inversion Hs; subst; split; apply incl_refl|].
    destruct (_ && _); [|discriminate]. inversion Hs; subst; split; apply incl_refl.
  - destruct (memn i (s_failed s)); [inversion Hs; subst; split; apply incl_refl|].
    destruct (s_fifo s) as [|j rest]; [discriminate|]. destruct (Nat.eqb i j); [|discriminate].
    destruct (lookup i (s_pend s)); [|discriminate]. inversion Hs; subst; cbn [s_acked s_failed].
    split; [apply incl_appl|]; apply incl_refl.
Qed.
Lemma run_mono : forall ms sigma s s', run ms s sigma = Some s' ->
  incl (s_acked s) (s_acked s') /\ incl (s_failed s) (s_failed s').
Proof.
  induction sigma as [|e t IH]; intros s s' Hr; cbn [run] in Hr.
  - inversion Hr; subst; split; apply incl_refl.
  - destruct (step ms s e) as [s1|] eqn:Hs; [|discriminate].
    apply step_mono in Hs. apply IH in Hr. destruct Hs, Hr. split; eapply incl_tran; eauto.
Qed.
Lemma step_W : forall ms s i s', step ms s (W i) = Some s' -> In i (s_acked s') \/ In i (s_failed s').
Proof.
  intros ms s i s' Hs. cbn [step] in Hs.
  destruct (memn i (s_failed s)) eqn:Mf; [inversion Hs; subst; right; apply memn_In; assumption|].
  destruct (s_fifo s) as [|j rest]; [discriminate|]. destruct (Nat.eqb i j); [|discriminate].
  destruct (lookup i (s_pend s)); [|discriminate]. inversion Hs; subst; cbn [s_acked].
  left. apply in_or_app. right. left. reflexivity.
Qed.
Lemma run_W : forall ms sigma s s' i, run ms s sigma = Some s' -> In (W i) sigma ->
  In i (s_acked s') \/ In i (s_failed s').
Proof.
  induction sigma as [|e t IH]; intros s s' i Hr Hin; [destruct Hin|]. cbn [run] in Hr.
  destruct (step ms s e) as [s1|] eqn:Hs; [|discriminate].
  destruct Hin as [->|Hin]; [|eapply IH; eauto].
  apply step_W in Hs. apply run_mono in Hr. destruct Hr as [Ha Hf].
  destruct Hs as [H|H]; [left; apply Ha, H | right; apply Hf, H].
Qed.

Lemma complete_W : forall n sigma i, complete n sigma = true -> (i < n)%nat -> In (W i) sigma.
Proof.
  intros n sigma i Hc Hi. unfold complete in Hc. rewrite forallb_forall in Hc.
  assert (Hs : In i (seq 0 n)) by (apply in_seq; lia).
  specialize (Hc i Hs). apply Bool.andb_true_iff in Hc. destruct Hc as [_ Hc].
  apply existsb_exists in Hc. destruct Hc as [e [He Eq]].
  destruct e as [j|j|j]; cbn [ev_eqb] in Eq; try discriminate.
  apply Nat.eqb_eq in Eq. subst j. assumption.
Qed.

(* --- the serial schedule of an order --- *)
Lemma windows_ok_serial : forall ms pi, windows_ok ms [] (serial_sched pi) = true.
Proof.
  induction pi as [|i t IH]; [reflexivity|].
  unfold serial_sched. cbn [flat_map app windows_ok forallb andb remove_nat filter].
  rewrite Nat.eqb_refl. cbn [negb]. exact IH.
Qed.

Lemma run_app : forall ms l1 l2 s,
  run ms s (l1 ++ l2) = match run ms s l1 with Some s1 => run ms s1 l2 | None => None end.
Proof.
  induction l1 as [|e t IH]; intros l2 s; cbn [app run]; [reflexivity|].
  destruct (step ms s e); [apply IH | reflexivity].
Qed.

Lemma serial_one_ok : forall ms d a f i m p,
  memn i a = false -> memn i f = false -> nth_error ms i = Some m -> read d m = Some p ->
  run ms {| s_db := d; s_pend := []; s_fifo := []; s_acked := a; s_failed := f |} [R i; V i; W i]
  = Some {| s_db := write p d; s_pend := []; s_fifo := []; s_acked := a ++ [i]; s_failed := f |}.
Proof.
  intros ms d a f i m p Ha Hf Nm Rd.
  cbn [run]. unfold step at 1. unfold started. cbn [s_pend s_acked s_failed s_db map memn orb].
  rewrite Ha, Hf, Nm, Rd. cbn [orb].
  unfold step at 1. cbn [s_pend s_acked s_failed s_db s_fifo map fst memn].
  rewrite Hf, Nat.eqb_refl. cbn [orb andb negb app].
  unfold step at 1. cbn [s_pend s_acked s_failed s_db s_fifo lookup].
  rewrite Hf, Nat.eqb_refl. unfold remove_key. cbn [filter fst]. rewrite Nat.eqb_refl. cbn [negb].
  reflexivity.
Qed.
Lemma serial_one_fail : forall ms d a f i m,
  memn i a = false -> memn i f = false -> nth_error ms i = Some m -> read d m = None ->
  run ms {| s_db := d; s_pend := []; s_fifo := []; s_acked := a; s_failed := f |} [R i; V i; W i]
  = Some {| s_db := d; s_pend := []; s_fifo := []; s_acked := a; s_failed := f ++ [i] |}.
Proof.
  intros ms d a f i m Ha Hf Nm Rd.
  assert (Hfi : memn i (f ++ [i]) = true) by (apply memn_In, in_or_app; right; left; reflexivity).
  cbn [run]. unfold step at 1. unfold started. cbn [s_pend s_acked s_failed s_db map memn orb].
  rewrite Ha, Hf, Nm, Rd. cbn [orb].
  unfold step at 1. cbn [s_failed]. rewrite Hfi.
  unfold step at 1. cbn [s_failed]. rewrite Hfi.
  reflexivity.
Qed.

Lemma serial_run : forall ms d0 pi d a f,
  ids d = ids d0 -> NoDup pi ->
  (forall i, In i pi -> ~ In i a /\ ~ In i f /\ nth_error ms i <> None) ->
  exists s', run ms {| s_db := d; s_pend := []; s_fifo := []; s_acked := a; s_failed := f |} (serial_sched pi) = Some s' /\
             s_acked s' = a ++ filter (has_row ms d0) pi.
Proof.
  induction pi as [|i t IH]; intros d a f Hids Hnd Hfresh.
  - eexists. cbn [serial_sched flat_map run filter]. rewrite app_nil_r. split; reflexivity.
  - inversion Hnd as [|? ? Hni Hnt]; subst.
    destruct (Hfresh i (or_introl eq_refl)) as [Ha [Hf Hm]].
    destruct (nth_error ms i) as [m|] eqn:Nm; [|congruence].
    apply memn_false in Ha. apply memn_false in Hf.
    change (serial_sched (i :: t)) with ([R i; V i; W i] ++ serial_sched t).
    rewrite run_app.
    assert (Hhr : has_row ms d0 i = match read d m with Some _ => true | None => false end).
    { rewrite <- (has_row_ids ms d d0 i Hids). unfold has_row, read. rewrite Nm.
      destruct (find_row (m_row m) d); reflexivity. }
    destruct (read d m) as [p|] eqn:Rd.
    + rewrite (serial_one_ok ms d a f i m p Ha Hf Nm Rd).
      destruct (IH (write p d) (a ++ [i]) f) as [s' [Hr Hacc]].
      * rewrite ids_write. assumption.
      * assumption.
      * intros k Hk. destruct (Hfresh k (or_intror Hk)) as [Ka [Kf Km]]. split; [|auto].
        intros H. apply in_app_or in H. destruct H as [H|[H|[]]]; [contradiction | subst; contradiction].
      * exists s'. split; [exact Hr|]. rewrite Hacc. cbn [filter]. rewrite Hhr.
        rewrite <- app_assoc. reflexivity.
    + rewrite (serial_one_fail ms d a f i m Ha Hf Nm Rd).
      destruct (IH d a (f ++ [i])) as [s' [Hr Hacc]]; auto.
      * intros k Hk. destruct (Hfresh k (or_intror Hk)) as [Ka [Kf Km]]. split; [auto|]. split; [|auto].
        intros H. apply in_app_or in H. destruct H as [H|[H|[]]]; [contradiction | subst; contradiction].
      * exists s'. split; [exact Hr|]. rewrite Hacc. cbn [filter]. rewrite Hhr. reflexivity.
Qed.

Lemma filter_all : forall A (f : A -> bool) l, (forall x, In x l -> f x = true) -> filter f l = l.
Proof.
  induction l as [|a t IH]; intros H; cbn [filter]; [reflexivity|].
  rewrite (H a (or_introl eq_refl)), IH; [reflexivity | intros; apply H; right; assumption].
Qed.
Lemma filter_none : forall A (f : A -> bool) l, (forall x, In x l -> f x = false) -> filter f l = [].
Proof.
  induction l as [|a t IH]; intros H; cbn [filter]; [reflexivity|].
  rewrite (H a (or_introl eq_refl)). apply IH. intros; apply H; right; assumption.
Qed.

Lemma zlist_eqb_refl : forall l, zlist_eqb l l = true.
Proof.
  unfold zlist_eqb. induction l as [|a t IH]; cbn [list_eqb]; [reflexivity|].
  rewrite Z.eqb_refl, IH. reflexivity.
Qed.

(* ------------------------------------------------------------------ the model's serial step refines the abstract semantics *)
Lemma is_nil_filter : forall A (f : A -> bool) l, negb (is_nil (filter f l)) = existsb f l.
Proof.
  induction l as [|a t IH]; [reflexivity|]. cbn [filter existsb]. destruct (f a); [reflexivity | exact IH].
Qed.
Lemma existsb_map' : forall A B (g : A -> B) (f : B -> bool) l, existsb f (map g l) = existsb (fun a => f (g a)) l.
Proof. induction l as [|a t IH]; [reflexivity|]. cbn [map existsb]. rewrite IH. reflexivity. Qed.
Lemma existsb_ext' : forall A (f g : A -> bool) l, (forall a, In a l -> f a = g a) -> existsb f l = existsb g l.
Proof.
  induction l as [|a t IH]; intros H; [reflexivity|]. cbn [existsb].
  rewrite (H a (or_introl eq_refl)), IH; [reflexivity | intros; apply H; right; assumption].
Qed.
Lemma existsb_flat_map : forall A B (f : B -> bool) (g : A -> list B) l,
  existsb f (flat_map g l) = existsb (fun a => existsb f (g a)) l.
Proof. induction l as [|a t IH]; [reflexivity|]. cbn [flat_map existsb]. rewrite existsb_app, IH. reflexivity. Qed.
Lemma existsb_andb_const : forall A (c : bool) (g : A -> bool) l,
  existsb (fun a => c && g a) l = c && existsb g l.
Proof.
  induction l as [|a t IH]; cbn [existsb]; [destruct c; reflexivity|].
  rewrite IH. destruct c; reflexivity.
Qed.
Lemma flat_map_map' : forall A B C (g : A -> B) (f : B -> list C) l, flat_map f (map g l) = flat_map (fun a => f (g a)) l.
Proof. induction l as [|a t IH]; [reflexivity|]. cbn [map flat_map]. rewrite IH. reflexivity. Qed.
Lemma flat_map_ext' : forall A B (f g : A -> list B) l, (forall a, f a = g a) -> flat_map f l = flat_map g l.
Proof. induction l as [|a t IH]; intros H; [reflexivity|]. cbn [flat_map]. rewrite H, IH by assumption. reflexivity. Qed.
Lemma filter_filter' : forall A (f g : A -> bool) l, filter f (filter g l) = filter (fun a => g a && f a) l.
Proof.
  induction l as [|a t IH]; [reflexivity|]. cbn [filter]. destruct (g a); cbn [filter andb]; rewrite IH; reflexivity.
Qed.
Lemma filter_ext_in' : forall A (f g : A -> bool) l, (forall a, In a l -> f a = g a) -> filter f l = filter g l.
Proof.
  induction l as [|a t IH]; intros H; [reflexivity|]. cbn [filter].
  rewrite (H a (or_introl eq_refl)), IH; [reflexivity | intros; apply H; right; assumption].
Qed.

Lemma fold_delete_filter : forall L acc,
  fold_left (fun es e => delete_edge e es) L acc
  = filter (fun a => negb (existsb (fun e => same_key a e) L)) acc.
Proof.
  induction L as [|e t IH]; intros acc; cbn [fold_left existsb].
  - cbn [negb]. induction acc as [|a u IHu]; [reflexivity|]. cbn [filter]. rewrite <- IHu. reflexivity.
  - rewrite IH. unfold delete_edge. rewrite filter_filter'. apply filter_ext_in'. intros a _.
    rewrite Bool.negb_orb. reflexivity.
Qed.

Lemma same_key_refl : forall a, same_key a a = true.
Proof. intros a. unfold same_key. rewrite !N.eqb_refl. reflexivity. Qed.

Lemma found_edges_key : forall d x l a, In a (edges d) ->
  existsb (fun e => same_key a e) (get_edges l (edges_of x d)) = N.eqb (e_src a) x && N.eqb l (e_label a).
Proof.
  intros d x l a Ha. apply Bool.eq_iff_eq_true. rewrite existsb_exists, Bool.andb_true_iff, !N.eqb_eq. split.
  - intros [e [He Hk]]. unfold get_edges, edges_of in He. rewrite !filter_In in He.
    destruct He as [[_ Hs] Hl]. apply N.eqb_eq in Hs. apply N.eqb_eq in Hl.
    unfold same_key in Hk. rewrite !Bool.andb_true_iff, !N.eqb_eq in Hk. destruct Hk as [[K1 K2] _]. split; congruence.
  - intros [Hs Hl]. exists a. split; [|apply same_key_refl].
    unfold get_edges, edges_of. rewrite !filter_In, !N.eqb_eq. auto.
Qed.

Lemma ref_read_effective : forall x date es op, snd (ref_read x date es op) = spec_ref_effective es op.
Proof.
  intros x date es op. destruct op as [l ds|l dst|l]; cbn [ref_read spec_ref_effective snd].
  - apply is_nil_filter.
  - destruct (edge_exists l dst es); reflexivity.
  - unfold get_edges. apply is_nil_filter.
Qed.
Lemma ref_read_new : forall x date es op, snd (fst (ref_read x date es op)) = spec_new_edges x date es op.
Proof.
  intros x date es op. destruct op as [l ds|l dst|l]; cbn [ref_read spec_new_edges snd fst]; try reflexivity.
  destruct (edge_exists l dst es); reflexivity.
Qed.
Lemma ref_read_del_key : forall d x date op a, In a (edges d) ->
  existsb (fun e => same_key a e) (fst (fst (ref_read x date (edges_of x d) op)))
  = N.eqb (e_src a) x &&
    match op with
    | RClear l' => N.eqb l' (e_label a)
    | RSet l' dst => N.eqb l' (e_label a) && negb (edge_exists l' dst (edges_of x d))
    | RAdd _ _ => false
    end.
Proof.
  intros d x date op a Ha. destruct op as [l ds|l dst|l]; cbn [ref_read fst].
  - cbn [existsb]. rewrite Bool.andb_false_r. reflexivity.
  - destruct (edge_exists l dst (edges_of x d)); cbn [fst existsb negb].
    + rewrite !Bool.andb_false_r. reflexivity.
    + rewrite Bool.andb_true_r. apply found_edges_key, Ha.
  - apply found_edges_key, Ha.
Qed.

Definition apply1 (m : mutation) (d : db) : db :=
  match read d m with Some p => write p d | None => d end.

(* unless the mutation is a room move that the code ignores (class 2), reading and writing with
   nothing in between is the abstract semantics of the mutation *)
Lemma apply1_spec : forall m d, ignored_move d m = false -> apply1 m d = spec_apply m d.
Proof.
  intros m d Hig. unfold apply1, read, spec_apply, ignored_move in *.
  destruct (find_row (m_row m) d) as [old|] eqn:F; [|reflexivity].
  assert (Hid : r_id old = m_row m) by (unfold find_row in F; apply find_some in F; apply N.eqb_eq, F).
  set (es := edges_of (m_row m) d) in *.
  assert (Hupd : (negb (is_nil (m_assign m)) ||
                  existsb (fun t : list edge * list edge * bool => snd t) (map (ref_read (m_row m) (m_date m) es) (m_refs m)))
                 = (negb (is_nil (m_assign m)) || existsb (spec_ref_effective es) (m_refs m))).
  { f_equal. rewrite existsb_map'. apply existsb_ext'. intros op _. apply ref_read_effective. }
  unfold write, read_view; cbn [p_node p_del p_ins rows edges]. rewrite Hupd.
  f_equal.
  - destruct (negb (is_nil (m_assign m)) || existsb (spec_ref_effective es) (m_refs m)) eqn:U; cbn [orb].
    + cbn [r_id]. rewrite Hid. reflexivity.
    + cbn [negb] in Hig. rewrite Bool.andb_true_r in Hig. rewrite Hig. reflexivity.
  - rewrite !flat_map_map'.
    rewrite (flat_map_ext' _ _ (fun op => snd (fst (ref_read (m_row m) (m_date m) es op)))
                              (spec_new_edges (m_row m) (m_date m) es)) by (intros; apply ref_read_new).
    f_equal. rewrite fold_delete_filter. apply filter_ext_in'. intros a Ha. f_equal.
    rewrite existsb_flat_map.
    rewrite (existsb_ext' _ _ (fun op => N.eqb (e_src a) (m_row m) &&
               match op with
               | RClear l' => N.eqb l' (e_label a)
               | RSet l' dst => N.eqb l' (e_label a) && negb (edge_exists l' dst es)
               | RAdd _ _ => false
               end)) by (intros op _; apply ref_read_del_key, Ha).
    rewrite existsb_andb_const. unfold label_removed. reflexivity.
Qed.

Lemma apply_apply1 : forall ms d i,
  apply ms d i = match nth_error ms i with Some m => apply1 m d | None => d end.
Proof. reflexivity. Qed.

Lemma fold_spec_apply : forall ms pi d, moves_ok ms d pi = true ->
  fold_left (spec_apply_i ms) pi d = fold_left (apply ms) pi d.
Proof.
  induction pi as [|i t IH]; intros d H; [reflexivity|]. cbn [moves_ok] in H.
  apply Bool.andb_true_iff in H. destruct H as [H1 H2]. cbn [fold_left].
  assert (E : spec_apply_i ms d i = apply ms d i).
  { unfold spec_apply_i. rewrite apply_apply1. destruct (nth_error ms i) as [m|]; [|reflexivity].
    symmetry. apply apply1_spec. apply Bool.negb_true_iff, H1. }
  rewrite E. apply IH, H2.
Qed.
Lemma moves_ok_app : forall ms a b d, moves_ok ms d (a ++ b) = true -> moves_ok ms d a = true.
Proof.
  induction a as [|i t IH]; intros b d H; [reflexivity|]. cbn [app moves_ok] in *.
  apply Bool.andb_true_iff in H. destruct H as [H1 H2]. rewrite H1. cbn [andb]. eapply IH, H2.
Qed.

(* --- reading the acknowledgement flags back --- *)
Lemma combine_map_self : forall A B (g : A -> B) l, combine l (map g l) = map (fun a => (a, g a)) l.
Proof. induction l as [|a t IH]; [reflexivity|]. cbn [map combine]. rewrite IH. reflexivity. Qed.
Lemma flags_filter : forall (f : nat -> bool) l,
  map fst (filter (fun p : nat * Z => Z.eqb (snd p) 1) (map (fun a => (a, zb (f a))) l)) = filter f l.
Proof.
  induction l as [|i t IH]; [reflexivity|]. cbn [map filter snd].
  destruct (f i); cbn [zb Z.eqb Pos.eqb map fst]; [rewrite IH; reflexivity | exact IH].
Qed.
Lemma acked_of_flags : forall (f : nat -> bool) n,
  acked_of (map (fun i => zb (f i)) (seq 0 n)) = filter f (seq 0 n).
Proof.
  intros f n. unfold acked_of. rewrite map_length, seq_length, combine_map_self. apply flags_filter.
Qed.

(* outside the known classes: a schedule (complete or not) without overlapping windows on one
   row, in a case where no order ignores a room move, reaches the state that the acknowledged
   mutations give under the abstract semantics, applied in write order; stated on the functions
   the harness evaluates *)
Theorem outside_known : forall d nf ms sigma b,
  known_C16 (CSched d nf ms sigma b) = [] ->
  run_sched d ms sigma <> None ->
  spec_C16 (CSched d nf ms sigma b) (run_C16 (CSched d nf ms sigma b)) = true.
Proof.
  intros d nf ms sigma b Hk Hr.
  cbn [known_C16] in Hk. apply app_eq_nil in Hk. destruct Hk as [Hk1 Hk2].
  destruct (windows_ok ms [] sigma) eqn:Hw; [|discriminate]. clear Hk1.
  destruct (forallb (moves_ok ms d) (perms (seq 0 (length ms)))) eqn:Hm; [|discriminate]. clear Hk2.
  rewrite forallb_forall in Hm.
  destruct (run_sched d ms sigma) as [s|] eqn:Hrun; [|congruence]. clear Hr.
  unfold spec_C16, run_C16.
  rewrite split_join by (pose proof (join_length (run_chunks (CSched d nf ms sigma b))); lia).
  cbn [run_chunks]. rewrite Hrun. cbn [spec_chunks].
  pose proof (serial_ok d ms sigma s Hrun Hw) as Hdb.
  unfold run_sched in Hrun.
  pose proof (run_inv2 ms d sigma (init d) s (inv2_init ms d) Hrun) as I2.
  destruct I2 as [_ _ Ina _ _ _ _ _ Iha _].
  set (n := length ms) in *.
  set (flags := map (fun i => zb (memn i (s_acked s))) (seq 0 n)).
  assert (Hlen : length flags = n) by (unfold flags; rewrite map_length, seq_length; reflexivity).
  unfold outcome. fold flags.
  assert (Hf : firstn n (flags ++ obs_db nf (s_db s)) = flags) by (rewrite <- Hlen; apply firstn_len_app).
  assert (Hs : skipn n (flags ++ obs_db nf (s_db s)) = obs_db nf (s_db s)) by (rewrite <- Hlen; apply skipn_len_app).
  rewrite Hf, Hs, Hlen, Nat.eqb_refl. cbn [andb].
  unfold flags. rewrite acked_of_flags.
  assert (Hlt : forall i, In i (s_acked s) -> (i < n)%nat).
  { intros i Hi. specialize (Iha i Hi). unfold has_row in Iha.
    apply nth_error_Some. destruct (nth_error ms i); [discriminate | discriminate]. }
  assert (HP : Permutation (filter (fun i => memn i (s_acked s)) (seq 0 n)) (s_acked s)).
  { apply NoDup_Permutation; [apply NoDup_filter, seq_NoDup | assumption |].
    intros i. rewrite filter_In, in_seq, memn_In. split; [tauto|]. intros Hi. pose proof (Hlt i Hi). split; [lia | assumption]. }
  (* an order of all mutations that starts with the write order *)
  set (rest := filter (fun i => negb (memn i (s_acked s))) (seq 0 n)).
  assert (HPall : Permutation (seq 0 n) (s_acked s ++ rest)).
  { apply NoDup_Permutation; [apply seq_NoDup | |].
    - apply nodup_app2; [assumption | apply NoDup_filter, seq_NoDup |].
      intros i Hi Hr. unfold rest in Hr. apply filter_In in Hr. destruct Hr as [_ Hr].
      apply Bool.negb_true_iff, memn_false in Hr. contradiction.
    - intros i. rewrite in_app_iff. unfold rest. rewrite filter_In, in_seq, Bool.negb_true_iff, memn_false. split.
      + intros Hi. destruct (memn i (s_acked s)) eqn:M; [left; apply memn_In, M | right; split; [lia | apply memn_false, M]].
      + intros [Hi|[Hi _]]; [specialize (Hlt i Hi); lia | lia]. }
  assert (Hmo : moves_ok ms d (s_acked s) = true).
  { eapply moves_ok_app. apply Hm. apply perms_complete, HPall. }
  apply existsb_exists. exists (s_acked s). split; [apply perms_complete, HP|].
  rewrite (fold_spec_apply ms (s_acked s) d Hmo), <- Hdb. apply zlist_eqb_refl.
Qed.

(* ------------------------------------------------------------------ refutation witnesses (closed terms) *)
Definition wit_row : row :=
  {| r_id := 1%N; r_room := Some 1%N; r_mdate := 0; r_fields := [(0%N, 1); (1%N, 2); (2%N, 90); (3%N, 12)] |}.
Definition wit_db : db :=
  {| rows := [wit_row]; edges := [mk_edge 1%N 0%N 0%N 0; mk_edge 1%N 1%N 0%N 0] |}.
Definition mut (room : option N) (date : Z) (a : list (N * Z)) (r : list refop) : mutation :=
  {| m_row := 1%N; m_date := date; m_room := room; m_assign := a; m_refs := r |}.
(* R1 R2 V1 W1 V2 W2 *)
Definition wit_sigma : list ev := [R 0; R 1; V 0; W 0; V 1; W 1]%nat.

Definition wit_fields : list mutation := [mut None 1000 [(0%N, 11)] []; mut None 2000 [(1%N, 22)] []].
Definition wit_refs : list mutation := [mut None 1000 [] [RSet 1%N 1%N]; mut None 2000 [] [RSet 1%N 2%N]].
Definition wit_room : list mutation := [mut (Some 2%N) 1000 [(0%N, 11)] []; mut None 2000 [(1%N, 22)] []].

Ltac two_orders H :=
  apply perms_complete in H; cbn in H;
  destruct H as [<-|[<-|[]]]; vm_compute; discriminate.

(* m1 assigns field 0, m2 assigns field 1 of one row: both are acknowledged, the final row has
   m2's field 1 and the OLD field 0; no serial order gives that state *)
Lemma refuted_fields :
  let c := CSched wit_db 4%N wit_fields wit_sigma false in
  known_C16 c = [1] /\ complete 2 wit_sigma = true /\
  (exists s, run_sched wit_db wit_fields wit_sigma = Some s /\ s_acked s = [0; 1]%nat /\
     (exists r, find_row 1%N (s_db s) = Some r /\
                get_field 0%N (r_fields r) = Some 1 /\ get_field 1%N (r_fields r) = Some 22) /\
     (forall pi, Permutation [0; 1]%nat pi ->
                 obs_db 4%N (fold_left (spec_apply_i wit_fields) pi wit_db) <> obs_db 4%N (s_db s))) /\
  spec_C16 c (run_C16 c) = false.
Proof.
  cbv zeta. split; [vm_compute; reflexivity|]. split; [vm_compute; reflexivity|]. split; [|vm_compute; reflexivity].
  eexists. split; [vm_compute; reflexivity|]. split; [reflexivity|]. split.
  - eexists. split; [vm_compute; reflexivity|]. split; reflexivity.
  - intros pi HP. two_orders HP.
Qed.

(* two replacements of a single-valued reference (owner:{id:t1} and owner:{id:t2}): both
   acknowledged, the row ends with TWO owners; every serial order leaves one *)
Lemma refuted_reference :
  let c := CSched wit_db 4%N wit_refs wit_sigma false in
  known_C16 c = [1] /\ complete 2 wit_sigma = true /\
  (exists s, run_sched wit_db wit_refs wit_sigma = Some s /\ s_acked s = [0; 1]%nat /\
     length (get_edges 1%N (edges_of 1%N (s_db s))) = 2%nat /\
     (forall pi, Permutation [0; 1]%nat pi ->
                 length (get_edges 1%N (edges_of 1%N (fold_left (spec_apply_i wit_refs) pi wit_db))) = 1%nat)) /\
  spec_C16 c (run_C16 c) = false.
Proof.
  cbv zeta. split; [vm_compute; reflexivity|]. split; [vm_compute; reflexivity|]. split; [|vm_compute; reflexivity].
  eexists. split; [vm_compute; reflexivity|]. split; [reflexivity|]. split; [vm_compute; reflexivity|].
  intros pi HP. apply perms_complete in HP. cbn in HP. destruct HP as [<-|[<-|[]]]; vm_compute; reflexivity.
Qed.

(* a move to room 2 (with an assignment) racing a field update: both acknowledged, the row is
   still in room 1 and the moved mutation's assignment is gone *)
Lemma refuted_room_move :
  let c := CSched wit_db 4%N wit_room wit_sigma false in
  known_C16 c = [1] /\ complete 2 wit_sigma = true /\
  (exists s, run_sched wit_db wit_room wit_sigma = Some s /\ s_acked s = [0; 1]%nat /\
     (exists r, find_row 1%N (s_db s) = Some r /\ r_room r = Some 1%N /\ get_field 0%N (r_fields r) = Some 1) /\
     (forall pi, Permutation [0; 1]%nat pi ->
                 exists r, find_row 1%N (fold_left (spec_apply_i wit_room) pi wit_db) = Some r /\ r_room r = Some 2%N)) /\
  spec_C16 c (run_C16 c) = false.
Proof.
  cbv zeta. split; [vm_compute; reflexivity|]. split; [vm_compute; reflexivity|]. split; [|vm_compute; reflexivity].
  eexists. split; [vm_compute; reflexivity|]. split; [reflexivity|]. split.
  - eexists. split; [vm_compute; reflexivity|]. split; reflexivity.
  - intros pi HP. apply perms_complete in HP. cbn in HP.
    destruct HP as [<-|[<-|[]]]; eexists; (split; [vm_compute; reflexivity | reflexivity]).
Qed.

(* the hypotheses of outside_known are satisfiable by a schedule that is not serial: windows of
   mutations on different rows overlap, the two mutations of row 1 do not *)
Definition nv_db : db :=
  {| rows := [wit_row; {| r_id := 2%N; r_room := None; r_mdate := 0; r_fields := [(2%N, 6)] |}];
     edges := [mk_edge 1%N 1%N 0%N 0] |}.
Definition nv_ms : list mutation :=
  [mut None 1000 [(0%N, 11)] [RSet 1%N 2%N];
   {| m_row := 2%N; m_date := 2000; m_room := None; m_assign := [(0%N, 22)]; m_refs := [RAdd 0%N [1%N]] |};
   mut (Some 2%N) 3000 [(1%N, 33)] [RClear 1%N]].
Definition nv_sigma : list ev := [R 0; R 1; V 1; V 0; W 1; W 0; R 2; V 2; W 2]%nat.
Lemma nonvacuous :
  let c := CSched nv_db 3%N nv_ms nv_sigma false in
  known_C16 c = [] /\ run_sched nv_db nv_ms nv_sigma <> None /\
  windows_ok nv_ms [] [R 0; R 2; V 0; W 0; V 2; W 2]%nat = false.
Proof.
  cbv zeta. split; [vm_compute; reflexivity|].
  split; [vm_compute; discriminate | vm_compute; reflexivity].
Qed.

(* ------------------------------------------------------------------ the statement at full strength, and its refutation *)
Definition full_statement : Prop :=
  forall d ms sigma s,
    run_sched d ms sigma = Some s -> complete (length ms) sigma = true ->
    exists pi, Permutation (s_acked s) pi /\ s_db s = fold_left (spec_apply_i ms) pi d.

Lemma full_refuted : ~ full_statement.
Proof.
  intros H. destruct refuted_fields as [_ [Hc [[s [Hr [Ha [_ Hno]]]] _]]].
  destruct (H wit_db wit_fields wit_sigma s Hr Hc) as [pi [HP Hdb]].
  rewrite Ha in HP. apply (Hno pi HP). rewrite Hdb. reflexivity.
Qed.

Lemma other_rows_frame : forall d m mo p,
  read d mo = Some p -> m_row mo <> m_row m -> read (write p d) m = read d m.
Proof.
  intros d m mo p Hr Hne. destruct (read_wf d mo p Hr) as [Hwf Hrow].
  apply read_write_frame; [assumption | congruence].
Qed.

(* class 2, closed witness: a strictly sequential schedule; the first mutation only names room 2 *)
Definition wit_room_only : list mutation := [mut (Some 2%N) 1000 [] []; mut None 2000 [(1%N, 22)] []].
Definition seq_sigma : list ev := [R 0; V 0; W 0; R 1; V 1; W 1]%nat.
Lemma refuted_room_only :
  let c := CSched wit_db 4%N wit_room_only seq_sigma false in
  known_C16 c = [2] /\ windows_ok wit_room_only [] seq_sigma = true /\
  (exists s, run_sched wit_db wit_room_only seq_sigma = Some s /\ s_acked s = [0; 1]%nat /\
     (exists r, find_row 1%N (s_db s) = Some r /\ r_room r = Some 1%N) /\
     (forall pi, Permutation [0; 1]%nat pi ->
                 exists r, find_row 1%N (fold_left (spec_apply_i wit_room_only) pi wit_db) = Some r /\ r_room r = Some 2%N)) /\
  spec_C16 c (run_C16 c) = false.
Proof.
  cbv zeta. split; [vm_compute; reflexivity|]. split; [vm_compute; reflexivity|]. split; [|vm_compute; reflexivity].
  eexists. split; [vm_compute; reflexivity|]. split; [reflexivity|]. split.
  - eexists. split; [vm_compute; reflexivity|]. reflexivity.
  - intros pi HP. apply perms_complete in HP. cbn in HP.
    destruct HP as [<-|[<-|[]]]; eexists; (split; [vm_compute; reflexivity | reflexivity]).
Qed.

(* the serial theorem, against the abstract semantics *)
Lemma serial_spec : forall d ms sigma s,
  run_sched d ms sigma = Some s -> windows_ok ms [] sigma = true -> moves_ok ms d (s_acked s) = true ->
  s_db s = fold_left (spec_apply_i ms) (s_acked s) d.
Proof.
  intros d ms sigma s Hr Hw Hm. rewrite (fold_spec_apply ms (s_acked s) d Hm). eapply serial_ok; eauto.
Qed.
