(* C16P.v — proofs for C16 (pipeline of read / validate / write phases). *)
From Coq Require Import Permutation.
From DV Require Import Pipeline Run_C16.

(* ------------------------------------------------------------------ small list facts *)
Lemma memn_In : forall i l, memn i l = true <-> In i l.
Proof.
  induction l as [|j t IH]; cbn [memn In]; [split; [discriminate | tauto]|].
  rewrite Bool.orb_true_iff, IH, Nat.eqb_eq. split; intros [H|H]; auto.
Qed.
Lemma memn_false : forall i l, memn i l = false <-> ~ In i l.
Proof.
  intros i l. rewrite <- memn_In. destruct (memn i l); split; intros H; auto; try discriminate.
  exfalso; apply H; reflexivity.
Qed.

Lemma lookup_In : forall A i (l : list (nat * A)) p, lookup i l = Some p -> In (i, p) l.
Proof.
  induction l as [|[j a] t IH]; cbn [lookup]; intros p H; [discriminate|].
  destruct (Nat.eqb i j) eqn:E.
  - apply Nat.eqb_eq in E. inversion H; subst. left; reflexivity.
  - right; auto.
Qed.
Lemma In_remove_key : forall A i (l : list (nat * A)) j q,
  In (j, q) (remove_key i l) <-> In (j, q) l /\ j <> i.
Proof.
  intros A i l j q. unfold remove_key. rewrite filter_In. cbn [fst].
  rewrite Bool.negb_true_iff, Nat.eqb_neq. intuition congruence.
Qed.
Lemma keys_remove_key : forall A i (l : list (nat * A)),
  map fst (remove_key i l) = remove_nat i (map fst l).
Proof.
  induction l as [|[j a] t IH]; [reflexivity|].
  unfold remove_key, remove_nat in *. cbn [filter map fst].
  destruct (negb (Nat.eqb i j)); cbn [map fst]; rewrite IH; reflexivity.
Qed.
Lemma In_remove_nat : forall i l j, In j (remove_nat i l) <-> In j l /\ j <> i.
Proof.
  intros i l j. unfold remove_nat. rewrite filter_In, Bool.negb_true_iff, Nat.eqb_neq.
  intuition congruence.
Qed.

Lemma is_nil_filter : forall A (f : A -> bool) l, negb (is_nil (filter f l)) = existsb f l.
Proof.
  induction l as [|a t IH]; [reflexivity|]. cbn [filter existsb]. destruct (f a); [reflexivity | exact IH].
Qed.
Lemma existsb_map' : forall A B (g : A -> B) (f : B -> bool) l, existsb f (map g l) = existsb (fun a => f (g a)) l.
Proof. induction l as [|a t IH]; [reflexivity|]. cbn [map existsb]. rewrite IH. reflexivity. Qed.
Lemma existsb_ext' : forall A (f g : A -> bool) l, (forall a, In a l -> f a = g a) -> existsb f l = existsb g l.
Proof.
  induction l as [|a t IH]; intros H; [reflexivity|]. cbn [existsb].
  rewrite (H a (or_introl eq_refl)), IH; [reflexivity | intros; apply H; right; assumption].
Qed.
Lemma existsb_flat_map : forall A B (f : B -> bool) (g : A -> list B) l,
  existsb f (flat_map g l) = existsb (fun a => existsb f (g a)) l.
Proof. induction l as [|a t IH]; [reflexivity|]. cbn [flat_map existsb]. rewrite existsb_app, IH. reflexivity. Qed.
Lemma existsb_andb_const : forall A (c : bool) (g : A -> bool) l,
  existsb (fun a => c && g a) l = c && existsb g l.
Proof.
  induction l as [|a t IH]; cbn [existsb]; [destruct c; reflexivity|].
  rewrite IH. destruct c; reflexivity.
Qed.
Lemma flat_map_map' : forall A B C (g : A -> B) (f : B -> list C) l, flat_map f (map g l) = flat_map (fun a => f (g a)) l.
Proof. induction l as [|a t IH]; [reflexivity|]. cbn [map flat_map]. rewrite IH. reflexivity. Qed.
Lemma flat_map_ext' : forall A B (f g : A -> list B) l, (forall a, f a = g a) -> flat_map f l = flat_map g l.
Proof. induction l as [|a t IH]; intros H; [reflexivity|]. cbn [flat_map]. rewrite H, IH by assumption. reflexivity. Qed.
Lemma filter_filter' : forall A (f g : A -> bool) l, filter f (filter g l) = filter (fun a => g a && f a) l.
Proof.
  induction l as [|a t IH]; [reflexivity|]. cbn [filter]. destruct (g a); cbn [filter andb]; rewrite IH; reflexivity.
Qed.
Lemma filter_ext_in' : forall A (f g : A -> bool) l, (forall a, In a l -> f a = g a) -> filter f l = filter g l.
Proof.
  induction l as [|a t IH]; intros H; [reflexivity|]. cbn [filter].
  rewrite (H a (or_introl eq_refl)), IH; [reflexivity | intros; apply H; right; assumption].
Qed.


(* ------------------------------------------------------------------ rowids *)
Definition rowids (d : db) : list N := map r_rowid (rows d).
Definition ids (d : db) : list N := map r_id (rows d).

Lemma unique_by : forall (f : row -> N) l a b,
  NoDup (map f l) -> In a l -> In b l -> f a = f b -> a = b.
Proof.
  induction l as [|r t IH]; intros a b Hn Ha Hb E; [destruct Ha|].
  cbn [map] in Hn. inversion Hn as [|? ? Hnot Hn']; subst.
  destruct Ha as [<-|Ha]; destruct Hb as [<-|Hb]; auto.
  - exfalso. apply Hnot. rewrite E. apply in_map, Hb.
  - exfalso. apply Hnot. rewrite <- E. apply in_map, Ha.
Qed.

Lemma NoDup_map_filter : forall (f : row -> N) g l, NoDup (map f l) -> NoDup (map f (filter g l)).
Proof.
  induction l as [|r t IH]; intros H; [constructor|]. cbn [map] in H. inversion H as [|? ? Hnot Hn]; subst.
  cbn [filter]. destruct (g r); [|apply IH, Hn]. cbn [map]. constructor; [|apply IH, Hn].
  intros Hin. apply Hnot. apply in_map_iff in Hin. destruct Hin as [a [Ea Ha]]. apply filter_In in Ha.
  apply in_map_iff. exists a. tauto.
Qed.

Lemma max_ge : forall (l : list N) b x, In x l -> (x <= fold_right N.max b l)%N.
Proof.
  induction l as [|a t IH]; intros b x H; [destruct H|]. cbn [fold_right].
  destruct H as [<-|H]; [apply N.le_max_l|]. etransitivity; [apply IH, H | apply N.le_max_r].
Qed.
Lemma next_rowid_fresh : forall d, ~ In (next_rowid d) (rowids d).
Proof.
  intros d H. unfold next_rowid, rowids in *. apply (max_ge _ (db_floor d)) in H. lia.
Qed.

Lemma rowids_write : forall p d, NoDup (rowids d) -> NoDup (rowids (write p d)).
Proof.
  intros p d H. unfold write, rowids in *. destruct (p_kind p) as [| |[|]]; cbn [rows]; try assumption.
  - destruct (p_node p) as [n|]; [|assumption].
    rewrite map_map. erewrite map_ext; [exact H|]. intros r. cbn beta.
    destruct (N.eqb (r_rowid r) (r_rowid n)) eqn:E; [apply N.eqb_eq in E; congruence | reflexivity].
  - destruct (p_node p) as [n|]; [|assumption].
    rewrite map_app. cbn [map r_rowid]. apply NoDup_rev in H.
    rewrite <- (rev_involutive (map r_rowid (rows d) ++ [next_rowid d])). apply NoDup_rev.
    rewrite rev_app_distr. cbn [rev app]. constructor; [|exact H].
    rewrite <- in_rev. apply next_rowid_fresh.
  - apply NoDup_map_filter, H.
Qed.

(* ------------------------------------------------------------------ frame: what a read depends on *)
Lemma ref_read_src : forall x date es op,
  Forall (fun e => e_src e = x) es ->
  Forall (fun e => e_src e = x) (fst (fst (ref_read x date es op))) /\
  Forall (fun e => e_src e = x) (snd (fst (ref_read x date es op))).
Proof.
  intros x date es op Hes. destruct op as [l ds|l dst|l]; cbn [ref_read].
  - cbn [fst snd]. split; [constructor|].
    apply Forall_forall. intros e He. apply in_map_iff in He. destruct He as [dst [<- _]]. reflexivity.
  - destruct (edge_exists l dst es); cbn [fst snd]; split; try constructor; auto.
    unfold get_edges. apply Forall_forall. intros e He. apply filter_In in He.
    rewrite Forall_forall in Hes. apply Hes, He.
  - cbn [fst snd]. split; [|constructor].
    unfold get_edges. apply Forall_forall. intros e He. apply filter_In in He.
    rewrite Forall_forall in Hes. apply Hes, He.
Qed.

Lemma Forall_flat_map : forall A B (P : B -> Prop) (f : A -> list B) l,
  (forall a, In a l -> Forall P (f a)) -> Forall P (flat_map f l).
Proof.
  induction l as [|a t IH]; intros H; cbn [flat_map]; [constructor|].
  apply Forall_app. split; [apply H; left; reflexivity | apply IH; intros; apply H; right; assumption].
Qed.

Lemma edges_of_src : forall x d, Forall (fun e => e_src e = x) (edges_of x d).
Proof. intros. unfold edges_of. apply Forall_forall. intros e He. apply filter_In in He. apply N.eqb_eq, He. Qed.

Lemma refs_src : forall x date d refs,
  Forall (fun e => e_src e = x) (flat_map (fun t : list edge * list edge * bool => fst (fst t)) (map (ref_read x date (edges_of x d)) refs)) /\
  Forall (fun e => e_src e = x) (flat_map (fun t : list edge * list edge * bool => snd (fst t)) (map (ref_read x date (edges_of x d)) refs)).
Proof.
  intros. split; apply Forall_flat_map; intros t Ht; apply in_map_iff in Ht; destruct Ht as [op [<- _]];
    apply ref_read_src, edges_of_src.
Qed.

(* what read produces *)
Lemma read_edges_src : forall d m p, read d m = Some p ->
  p_row p = m_row m /\ Forall (fun e => e_src e = m_row m) (p_del p) /\ Forall (fun e => e_src e = m_row m) (p_ins p).
Proof.
  intros d m p H. unfold read in H. destruct (m_kind m).
  - destruct (find_row (m_row m) d); [|discriminate]. inversion H; subst p; cbn [read_update p_row p_del p_ins].
    split; [reflexivity|]. apply refs_src.
  - inversion H; subst p; cbn [read_create p_row p_del p_ins]. split; [reflexivity|]. apply refs_src.
  - inversion H; subst p; cbn [p_row p_del p_ins]. repeat split; constructor.
Qed.

Lemma filter_src_delete : forall x e es,
  e_src e <> x ->
  filter (fun a => N.eqb (e_src a) x) (delete_edge e es) = filter (fun a => N.eqb (e_src a) x) es.
Proof.
  intros x e es Hne. unfold delete_edge. induction es as [|a t IH]; [reflexivity|]. cbn [filter].
  destruct (N.eqb (e_src a) x) eqn:E.
  - assert (K : same_key a e = false).
    { unfold same_key. apply N.eqb_eq in E.
      assert (E1 : N.eqb (e_src a) (e_src e) = false) by (apply N.eqb_neq; congruence).
      rewrite E1. reflexivity. }
    rewrite K. cbn [negb filter]. rewrite E, IH. reflexivity.
  - destruct (negb (same_key a e)); cbn [filter]; [rewrite E|]; apply IH.
Qed.
Lemma filter_src_insert : forall x e es,
  e_src e <> x ->
  filter (fun a => N.eqb (e_src a) x) (insert_edge e es) = filter (fun a => N.eqb (e_src a) x) es.
Proof.
  intros x e es Hne. unfold insert_edge. rewrite filter_app. cbn [filter].
  assert (E1 : N.eqb (e_src e) x = false) by (apply N.eqb_neq; assumption).
  rewrite E1, app_nil_r. apply (filter_src_delete x e es Hne).
Qed.

Lemma filter_src_fold_delete : forall x l es,
  Forall (fun e => e_src e <> x) l ->
  filter (fun a => N.eqb (e_src a) x) (fold_left (fun es e => delete_edge e es) l es)
  = filter (fun a => N.eqb (e_src a) x) es.
Proof.
  induction l as [|e t IH]; intros es H; [reflexivity|]. cbn [fold_left].
  inversion H; subst. rewrite IH by assumption. apply filter_src_delete; assumption.
Qed.
Lemma filter_src_fold_insert : forall x l es,
  Forall (fun e => e_src e <> x) l ->
  filter (fun a => N.eqb (e_src a) x) (fold_left (fun es e => insert_edge e es) l es)
  = filter (fun a => N.eqb (e_src a) x) es.
Proof.
  induction l as [|e t IH]; intros es H; [reflexivity|]. cbn [fold_left].
  inversion H; subst. rewrite IH by assumption. apply filter_src_insert; assumption.
Qed.


Lemma find_map_same : forall (P : row -> bool) (f : row -> row) l,
  (forall r, In r l -> P (f r) = P r /\ (P r = true -> f r = r)) -> find P (map f l) = find P l.
Proof.
  induction l as [|r t IH]; intros H; [reflexivity|]. cbn [map find].
  destruct (H r (or_introl eq_refl)) as [E1 E2]. rewrite E1. destruct (P r) eqn:Pr.
  - rewrite E2; reflexivity.
  - apply IH. intros; apply H; right; assumption.
Qed.
Lemma find_snoc_other : forall (P : row -> bool) l a, P a = false -> find P (l ++ [a]) = find P l.
Proof.
  induction l as [|r t IH]; intros a H; cbn [app find]; [rewrite H; reflexivity|].
  destruct (P r); [reflexivity | apply IH, H].
Qed.
Lemma find_filter_other : forall (P g : row -> bool) l,
  (forall r, P r = true -> g r = true) -> find P (filter g l) = find P l.
Proof.
  induction l as [|r t IH]; intros H; [reflexivity|]. cbn [filter find].
  destruct (P r) eqn:Pr.
  - rewrite (H r Pr). cbn [find]. rewrite Pr. reflexivity.
  - destruct (g r); cbn [find]; [rewrite Pr|]; apply IH, H.
Qed.

(* a write of a mutation on another row leaves what a read of row x sees unchanged; the
   pending mutation must still be what a read would produce now (its rowid is that of its row) *)
Lemma view_write : forall d mo p x,
  NoDup (rowids d) -> read d mo = Some p -> m_row mo <> x ->
  find_row x (write p d) = find_row x d /\ edges_of x (write p d) = edges_of x d.
Proof.
  intros d mo p x Hn Hr Hne.
  pose proof (read_edges_src d mo p Hr) as [Hrow [Hd Hi]].
  assert (Hedges : filter (fun a => N.eqb (e_src a) x) (write_edges p (edges d)) = filter (fun a => N.eqb (e_src a) x) (edges d)).
  { unfold write_edges. rewrite filter_src_fold_insert, filter_src_fold_delete; [reflexivity| |].
    - eapply Forall_impl; [|exact Hd]. cbn beta. intros e He. congruence.
    - eapply Forall_impl; [|exact Hi]. cbn beta. intros e He. congruence. }
  unfold read in Hr. destruct (m_kind mo) eqn:K.
  - (* update *)
    destruct (find_row (m_row mo) d) as [old|] eqn:F; [|discriminate].
    inversion Hr; subst p; clear Hr. unfold write, find_row, edges_of; cbn [read_update p_kind p_node rows edges].
    split; [|exact Hedges].
    destruct (_ || _); [|reflexivity].
    unfold find_row in F. pose proof (find_some _ _ F) as [Hin Hid]. apply N.eqb_eq in Hid.
    apply find_map_same. intros r0 Hr0. cbn [r_rowid].
    destruct (N.eqb (r_rowid r0) (r_rowid old)) eqn:E.
    + apply N.eqb_eq in E. assert (r0 = old) by (eapply (unique_by r_rowid); eauto). subst r0.
      cbn [r_id]. split; [reflexivity|]. intros Hx. apply N.eqb_eq in Hx. congruence.
    + split; [reflexivity | reflexivity].
  - (* creation *)
    inversion Hr; subst p; clear Hr. unfold write, find_row, edges_of; cbn [read_create p_kind p_node rows edges].
    split; [|exact Hedges]. apply find_snoc_other. cbn [r_id]. apply N.eqb_neq. assumption.
  - (* deletion *)
    inversion Hr; subst p; clear Hr. unfold write; cbn [p_kind p_row].
    destruct (find_row (m_row mo) d); [|split; reflexivity].
    unfold find_row, edges_of; cbn [rows edges]. split.
    + apply find_filter_other. intros r0 Hx. apply N.eqb_eq in Hx. apply Bool.negb_true_iff, N.eqb_neq. congruence.
    + rewrite filter_filter'. apply filter_ext_in'. intros a _.
      destruct (N.eqb (e_src a) x) eqn:E; [|rewrite Bool.andb_false_r; reflexivity].
      apply N.eqb_eq in E. rewrite Bool.andb_true_r. apply Bool.negb_true_iff, N.eqb_neq. congruence.
Qed.

Lemma read_view_eq : forall d d' m,
  find_row (m_row m) d' = find_row (m_row m) d -> edges_of (m_row m) d' = edges_of (m_row m) d ->
  read d' m = read d m.
Proof. intros d d' m Hf He. unfold read. rewrite Hf, He. reflexivity. Qed.

Lemma read_write_frame : forall d mo p m,
  NoDup (rowids d) -> read d mo = Some p -> m_row mo <> m_row m -> read (write p d) m = read d m.
Proof.
  intros d mo p m Hn Hr Hne. destruct (view_write d mo p (m_row m) Hn Hr Hne) as [Hf He].
  apply read_view_eq; assumption.
Qed.

(* ------------------------------------------------------------------ T1: schedules without overlapping windows *)
Record inv (ms : list mutation) (d0 : db) (open : list nat) (s : st) : Prop := {
  inv_db : s_db s = fold_left (apply ms) (s_acked s) d0;
  inv_rowids : NoDup (rowids (s_db s));
  inv_snap : forall i p, In (i, p) (s_pend s) -> exists m, nth_error ms i = Some m /\ read (s_db s) m = Some p;
  inv_keys : NoDup (map fst (s_pend s));
  inv_rows : forall i p j q, In (i, p) (s_pend s) -> In (j, q) (s_pend s) -> i <> j -> p_row p <> p_row q;
  inv_open : incl (map fst (s_pend s)) open;
  inv_dropped : forall i, In i (s_failed s) \/ In i (s_refused s) -> ~ In i (map fst (s_pend s)) }.

Definition open_after (e : ev) (open : list nat) : list nat :=
  match e with R i => i :: open | V _ => open | W i => remove_nat i open end.

Lemma windows_ok_cons : forall ms open e t,
  windows_ok ms open (e :: t) = true -> windows_ok ms (open_after e open) t = true.
Proof.
  intros ms open e t H. destruct e; cbn [windows_ok open_after] in *; auto.
  apply Bool.andb_true_iff in H. apply H.
Qed.

Lemma started_false : forall i s, started i s = false ->
  ~ In i (map fst (s_pend s)) /\ ~ In i (s_acked s) /\ ~ In i (s_failed s) /\ ~ In i (s_refused s).
Proof.
  intros i s H. unfold started in H. apply Bool.orb_false_iff in H. destruct H as [H H4].
  apply Bool.orb_false_iff in H. destruct H as [H H3].
  apply Bool.orb_false_iff in H. destruct H as [H1 H2].
  rewrite memn_false in H1, H2, H3, H4. auto.
Qed.
Lemma dropped_true : forall i s, dropped i s = true -> In i (s_failed s) \/ In i (s_refused s).
Proof. intros i s H. unfold dropped in H. apply Bool.orb_true_iff in H. rewrite !memn_In in H. exact H. Qed.

Lemma read_row : forall d m p, read d m = Some p -> p_row p = m_row m.
Proof. intros d m p H. apply read_edges_src in H. apply H. Qed.

Lemma step_inv : forall rt ms d0 open s e t s',
  inv ms d0 open s -> windows_ok ms open (e :: t) = true -> step rt ms s e = Some s' ->
  inv ms d0 (open_after e open) s'.
Proof.
  intros rt ms d0 open s e t s' I Hw Hs. destruct I as [Idb Irid Isnap Ikeys Irows Iopen Idrop].
  destruct e as [i|i|i]; cbn [step open_after] in *.
  - (* R i *)
    destruct (started i s) eqn:St; [discriminate|].
    apply started_false in St. destruct St as [Sk [Sa [Sf Sr]]].
    destruct (nth_error ms i) as [m|] eqn:Nm; [|discriminate].
    cbn [windows_ok] in Hw. apply Bool.andb_true_iff in Hw. destruct Hw as [Hrow _].
    rewrite forallb_forall in Hrow.
    destruct (read (s_db s) m) as [p|] eqn:Rd; inversion Hs; subst s'; clear Hs.
    { constructor; cbn [s_db s_pend s_acked s_failed s_refused].
      - assumption.
      - assumption.
      - intros j q [H|H]; [inversion H; subst; exists m; auto | auto].
      - cbn [map fst]. constructor; assumption.
      - assert (K : forall j q, In (j, q) (s_pend s) -> p_row p <> p_row q).
        { intros j q Hj. destruct (Isnap j q Hj) as [mj [Nj Rj]].
          apply read_row in Rd. apply read_row in Rj.
          assert (Jo : In j open) by (apply Iopen; apply in_map_iff; exists (j, q); auto).
          specialize (Hrow j Jo). unfold row_of in Hrow. rewrite Nj, Nm in Hrow. cbn [opt_eqb] in Hrow.
          apply Bool.negb_true_iff, N.eqb_neq in Hrow. congruence. }
        intros a pa b pb [Ha|Ha] [Hb|Hb] Hne.
        + inversion Ha; inversion Hb; subst. congruence.
        + inversion Ha; subst. eapply K; eauto.
        + inversion Hb; subst. intros E. symmetry in E. revert E. eapply K; eauto.
        + eapply Irows; eauto.
      - cbn [map fst]. intros j [<-|Hj]; [left; reflexivity | right; apply Iopen, Hj].
      - intros j Hj. cbn [map fst]. intros [<-|Hk]; [destruct Hj; contradiction | eapply Idrop; eauto]. }
    { constructor; cbn [s_db s_pend s_acked s_failed s_refused]; auto.
      - intros j Hj. right. apply Iopen, Hj.
      - intros j [Hj|Hj]; [|apply Idrop; right; assumption].
        apply in_app_or in Hj. destruct Hj as [Hj|[<-|[]]]; [apply Idrop; left; assumption | assumption]. }
  - (* V i *)
    destruct (dropped i s); [inversion Hs; subst; constructor; auto|].
    destruct (memn i (s_fifo s)); [discriminate|].
    destruct (lookup i (s_pend s)) as [p|] eqn:Lk; [|discriminate].
    destruct (validate rt p); inversion Hs; subst s'; clear Hs.
    + constructor; cbn [s_db s_pend s_acked s_failed s_refused]; auto.
    + constructor; cbn [s_db s_pend s_acked s_failed s_refused]; auto.
      * intros k q Hk. apply In_remove_key in Hk. apply Isnap, Hk.
      * rewrite keys_remove_key. unfold remove_nat. apply NoDup_filter, Ikeys.
      * intros a pa b pb Ha Hb. apply In_remove_key in Ha. apply In_remove_key in Hb.
        eapply Irows; [apply Ha | apply Hb].
      * rewrite keys_remove_key. intros k Hk. apply In_remove_nat in Hk. apply Iopen, Hk.
      * intros k Hk. rewrite keys_remove_key. intros Hin. apply In_remove_nat in Hin. destruct Hin as [Hin Hne].
        destruct Hk as [Hk|Hk]; [eapply Idrop; [left; exact Hk | exact Hin]|].
        apply in_app_or in Hk. destruct Hk as [Hk|[Hk|[]]]; [eapply Idrop; [right; exact Hk | exact Hin] | congruence].
  - (* W i *)
    destruct (dropped i s) eqn:Dr.
    + inversion Hs; subst s'. apply dropped_true in Dr. constructor; auto.
      intros j Hj. apply In_remove_nat. split; [apply Iopen, Hj|].
      intros ->. eapply Idrop; eauto.
    + destruct (s_fifo s) as [|j rest]; [discriminate|].
      destruct (Nat.eqb i j) eqn:Eij; [|discriminate].
      destruct (lookup i (s_pend s)) as [p|] eqn:Lk; [|discriminate].
      inversion Hs; subst s'; clear Hs. apply lookup_In in Lk.
      destruct (Isnap i p Lk) as [m [Nm Rd]]. pose proof (read_row _ _ _ Rd) as Pr.
      constructor; cbn [s_db s_pend s_acked s_failed s_refused].
      * rewrite fold_left_app. cbn [fold_left]. rewrite <- Idb. unfold apply. rewrite Nm, Rd. reflexivity.
      * apply rowids_write, Irid.
      * intros k q Hk. apply In_remove_key in Hk. destruct Hk as [Hk Hne].
        destruct (Isnap k q Hk) as [mk [Nk Rk]]. exists mk. split; [assumption|].
        rewrite (read_write_frame (s_db s) m p mk Irid Rd); [assumption|].
        pose proof (read_row _ _ _ Rk) as Pk. rewrite <- Pk, <- Pr. eapply Irows; eauto.
      * rewrite keys_remove_key. unfold remove_nat. apply NoDup_filter, Ikeys.
      * intros a pa b pb Ha Hb. apply In_remove_key in Ha. apply In_remove_key in Hb.
        eapply Irows; [apply Ha | apply Hb].
      * rewrite keys_remove_key. intros k Hk. apply In_remove_nat in Hk. apply In_remove_nat.
        split; [apply Iopen, Hk | apply Hk].
      * intros k Hk. rewrite keys_remove_key. intros Hin. apply In_remove_nat in Hin.
        eapply Idrop; [exact Hk | apply Hin].
Qed.

Lemma run_inv : forall rt ms d0 sigma open s s',
  inv ms d0 open s -> windows_ok ms open sigma = true -> run rt ms s sigma = Some s' ->
  exists open', inv ms d0 open' s'.
Proof.
  induction sigma as [|e t IH]; intros open s s' I Hw Hr; cbn [run] in Hr.
  - inversion Hr; subst. exists open; assumption.
  - destruct (step rt ms s e) as [s1|] eqn:Hs; [|discriminate].
    eapply IH; [eapply step_inv; eauto | eapply windows_ok_cons; eauto | exact Hr].
Qed.

Lemma inv_init : forall ms d0, NoDup (rowids d0) -> inv ms d0 [] (init d0).
Proof.
  intros. constructor; cbn [init s_db s_pend s_acked s_failed s_refused fold_left map].
  - reflexivity.
  - assumption.
  - intros i p [].
  - constructor.
  - intros i p j q [].
  - intros i [].
  - intros i [[]|[]].
Qed.

(* every schedule (any number of mutations, creations, deletions; any length; validation may
   refuse some) in which no Read of a mutation on row x falls between the Read and the Write
   of another mutation on x leaves exactly the state of the serial application of the WRITTEN
   mutations in write order: refused and failed ones leave no trace *)
Theorem serial_ok : forall rt d ms sigma s,
  NoDup (rowids d) ->
  run_sched rt d ms sigma = Some s -> windows_ok ms [] sigma = true ->
  s_db s = fold_left (apply ms) (s_acked s) d.
Proof.
  intros rt d ms sigma s Hn Hr Hw. unfold run_sched in Hr.
  destruct (run_inv rt ms d sigma [] (init d) s (inv_init ms d Hn) Hw Hr) as [open' I].
  apply I.
Qed.

(* ------------------------------------------------------------------ T2: the statement on run_C16 / spec_C16 *)

(* --- every order is enumerated --- *)
Lemma insert_all_In : forall x l1 l2, In (l1 ++ x :: l2) (insert_all x (l1 ++ l2)).
Proof.
  induction l1 as [|y t IH]; intros l2; cbn [app].
  - destruct l2; cbn [insert_all]; left; reflexivity.
  - cbn [insert_all]. right. apply in_map. apply IH.
Qed.
Lemma perms_complete : forall l pi, Permutation l pi -> In pi (perms l).
Proof.
  induction l as [|x t IH]; intros pi HP; cbn [perms].
  - apply Permutation_nil in HP. subst. left; reflexivity.
  - assert (HP' := Permutation_sym HP).
    destruct (Permutation_vs_cons_inv HP') as [l1 [l2 E]]. subst pi.
    apply Permutation_cons_app_inv in HP.
    apply in_flat_map. exists (l1 ++ l2). split; [apply IH, HP | apply insert_all_In].
Qed.

(* --- chunks --- *)
Lemma firstn_len_app : forall A (c r : list A), firstn (length c) (c ++ r) = c.
Proof. induction c as [|a t IH]; intros r; cbn [length firstn app]; [reflexivity | rewrite IH; reflexivity]. Qed.
Lemma skipn_len_app : forall A (c r : list A), skipn (length c) (c ++ r) = r.
Proof. induction c as [|a t IH]; intros r; cbn [length skipn app]; [reflexivity | apply IH]. Qed.

Lemma split_join : forall l fuel, (length l < fuel)%nat -> split_chunks fuel (join l) = Some l.
Proof.
  induction l as [|c t IH]; intros fuel Hf.
  - destruct fuel; reflexivity.
  - unfold join. cbn [flat_map]. fold (join t). cbn [app].
    destruct fuel as [|f]; [cbn [length] in Hf; lia|]. cbn [split_chunks].
    rewrite Nat2Z.id.
    assert (E1 : (Z.of_nat (length c) <? 0) = false) by (apply Z.ltb_ge; lia).
    assert (E2 : (length (c ++ join t) <? length c)%nat = false)
      by (apply Nat.ltb_ge; rewrite app_length; lia).
    rewrite E1, E2. cbn [orb]. rewrite skipn_len_app, firstn_len_app.
    rewrite IH by (cbn [length] in Hf; lia). reflexivity.
Qed.
Lemma join_length : forall l, (length l <= length (join l))%nat.
Proof.
  induction l as [|c t IH]; [cbn; lia|].
  unfold join. cbn [flat_map]. fold (join t). cbn [length app]. rewrite app_length. lia.
Qed.

Lemma nodup_snoc : forall (l : list nat) i, NoDup l -> ~ In i l -> NoDup (l ++ [i]).
Proof.
  induction l as [|a t IH]; intros i Hn Hi; cbn [app].
  - constructor; [intros [] | constructor].
  - inversion Hn; subst. constructor.
    + intros H. apply in_app_or in H. destruct H as [H|[H|[]]]; [contradiction|].
      subst. apply Hi. left. reflexivity.
    + apply IH; [assumption | intros H; apply Hi; right; assumption].
Qed.
Lemma nodup_app2 : forall (a b : list nat), NoDup a -> NoDup b -> (forall x, In x a -> ~ In x b) -> NoDup (a ++ b).
Proof.
  induction a as [|x t IH]; intros b Ha Hb Hd; cbn [app]; [assumption|].
  inversion Ha; subst. constructor.
  - intros H. apply in_app_or in H. destruct H as [H|H]; [contradiction|]. apply (Hd x); [left; reflexivity | assumption].
  - apply IH; auto. intros y Hy. apply Hd. right. assumption.
Qed.

Lemma zlist_eqb_refl : forall l, zlist_eqb l l = true.
Proof.
  unfold zlist_eqb. induction l as [|a t IH]; cbn [list_eqb]; [reflexivity|].
  rewrite Z.eqb_refl, IH. reflexivity.
Qed.

Lemma windows_ok_serial : forall ms pi, windows_ok ms [] (serial_sched pi) = true.
Proof.
  induction pi as [|i t IH]; [reflexivity|].
  unfold serial_sched. cbn [flat_map app windows_ok forallb andb remove_nat filter].
  rewrite Nat.eqb_refl. cbn [negb]. exact IH.
Qed.


(* --- bookkeeping invariant of any run (no assumption on the schedule) --- *)
Record inv2 (ms : list mutation) (d0 : db) (s : st) : Prop := {
  i2_nk : NoDup (map fst (s_pend s));
  i2_na : NoDup (s_acked s);
  i2_ka : forall i, In i (map fst (s_pend s)) -> ~ In i (s_acked s);
  i2_kr : forall i, In i (s_refused s) \/ In i (s_failed s) -> ~ In i (map fst (s_pend s)) /\ ~ In i (s_acked s);
  i2_lt : forall i, In i (map fst (s_pend s)) \/ In i (s_acked s) -> nth_error ms i <> None;
  (* only what acknowledged mutations read has been written *)
  i2_trace : exists ps : list (nat * pending), map fst ps = s_acked s /\
             s_db s = fold_left (fun d p => write p d) (map snd ps) d0 }.

Lemma inv2_init : forall ms d0, inv2 ms d0 (init d0).
Proof.
  intros. constructor; cbn [init s_db s_pend s_acked s_failed s_refused map].
  - constructor.
  - constructor.
  - intros i [].
  - intros i [[]|[]].
  - intros i [[]|[]].
  - exists []. split; reflexivity.
Qed.

Lemma step_inv2 : forall rt ms d0 s e s', inv2 ms d0 s -> step rt ms s e = Some s' -> inv2 ms d0 s'.
Proof.
  intros rt ms d0 s e s' I Hs.
  destruct I as [Ink Ina Ika Ikr Ilt Itr].
  destruct e as [i|i|i]; cbn [step] in Hs.
  - destruct (started i s) eqn:St; [discriminate|].
    apply started_false in St. destruct St as [Sk [Sa [Sf Sr]]].
    destruct (nth_error ms i) as [m|] eqn:Nm; [|discriminate].
    destruct (read (s_db s) m) as [p|] eqn:Rd; inversion Hs; subst s'; clear Hs.
    + constructor; cbn [s_db s_pend s_acked s_failed s_refused map fst]; auto.
      * constructor; assumption.
      * intros j [<-|Hj]; auto.
      * intros j Hj. destruct (Ikr j Hj) as [K1 K2]. split; [|assumption].
        intros [<-|Hk]; [destruct Hj; contradiction | contradiction].
      * intros j [[<-|Hj]|Hj]; [congruence | apply Ilt; auto | apply Ilt; auto].
    + constructor; cbn [s_db s_pend s_acked s_failed s_refused]; auto.
      intros j [Hj|Hj]; [apply Ikr; left; assumption|].
      apply in_app_or in Hj. destruct Hj as [Hj|[<-|[]]]; [apply Ikr; right; assumption | split; assumption].
  - destruct (dropped i s); [inversion Hs; subst; constructor; auto|].
    destruct (memn i (s_fifo s)); [discriminate|].
    destruct (lookup i (s_pend s)) as [p|] eqn:Lk; [|discriminate]. apply lookup_In in Lk.
    assert (Ki : In i (map fst (s_pend s))) by (apply in_map_iff; exists (i, p); auto).
    destruct (validate rt p); inversion Hs; subst s'; clear Hs.
    + constructor; cbn [s_db s_pend s_acked s_failed s_refused]; auto.
    + constructor; cbn [s_db s_pend s_acked s_failed s_refused]; try rewrite keys_remove_key; auto.
      * unfold remove_nat. apply NoDup_filter. assumption.
      * intros k Hk. apply In_remove_nat in Hk. apply Ika, Hk.
      * intros k Hk. try rewrite keys_remove_key.
        assert (Hc : (In k (s_refused s) \/ In k (s_failed s)) \/ k = i).
        { destruct Hk as [Hk|Hk]; [|left; right; assumption].
          apply in_app_or in Hk. destruct Hk as [Hk|[Hk|[]]]; [left; left; assumption | right; auto]. }
        destruct Hc as [Hc| ->].
        -- destruct (Ikr k Hc) as [K1 K2]. split; [|assumption]. intros H. apply In_remove_nat in H. apply K1, H.
        -- split; [intros H; apply In_remove_nat in H; destruct H; congruence | apply Ika, Ki].
      * intros k [Hk|Hk]; [try rewrite keys_remove_key in Hk; apply In_remove_nat in Hk; apply Ilt; left; apply Hk | apply Ilt; auto].
  - destruct (dropped i s); [inversion Hs; subst; constructor; auto|].
    destruct (s_fifo s) as [|j rest]; [discriminate|].
    destruct (Nat.eqb i j); [|discriminate].
    destruct (lookup i (s_pend s)) as [p|] eqn:Lk; [|discriminate].
    inversion Hs; subst s'; clear Hs. apply lookup_In in Lk.
    assert (Ki : In i (map fst (s_pend s))) by (apply in_map_iff; exists (i, p); auto).
    constructor; cbn [s_db s_pend s_acked s_failed s_refused]; try rewrite keys_remove_key.
    + unfold remove_nat. apply NoDup_filter. assumption.
    + apply nodup_snoc; auto.
    + intros k Hk H. apply In_remove_nat in Hk. destruct Hk as [Hk Hne].
      apply in_app_or in H. destruct H as [H|[H|[]]]; [eapply Ika; eauto | congruence].
    + intros k Hk. try rewrite keys_remove_key. destruct (Ikr k Hk) as [K1 K2]. split.
      * intros H. apply In_remove_nat in H. apply K1, H.
      * intros H. apply in_app_or in H. destruct H as [H|[<-|[]]]; [contradiction | contradiction].
    + intros k [Hk|Hk].
      * try rewrite keys_remove_key in Hk. apply In_remove_nat in Hk. apply Ilt. left. apply Hk.
      * apply in_app_or in Hk. destruct Hk as [Hk|[<-|[]]]; apply Ilt; auto.
    + destruct Itr as [ps [Hps Hdb]]. exists (ps ++ [(i, p)]). split.
      * rewrite map_app, Hps. reflexivity.
      * rewrite map_app, fold_left_app, <- Hdb. reflexivity.
Qed.

Lemma run_inv2 : forall rt ms d0 sigma s s', inv2 ms d0 s -> run rt ms s sigma = Some s' -> inv2 ms d0 s'.
Proof.
  induction sigma as [|e t IH]; intros s s' I Hr; cbn [run] in Hr.
  - inversion Hr; subst; assumption.
  - destruct (step rt ms s e) as [s1|] eqn:Hs; [|discriminate].
    eapply IH; [eapply step_inv2; eauto | exact Hr].
Qed.

(* a mutation that the validation refused, or whose read failed, is never written: in ANY
   schedule the database is the result of the writes of acknowledged mutations only *)
Theorem only_acked_written : forall rt d ms sigma s,
  run_sched rt d ms sigma = Some s ->
  (forall i, In i (s_refused s) \/ In i (s_failed s) -> ~ In i (s_acked s)) /\
  exists ps : list (nat * pending), map fst ps = s_acked s /\
    s_db s = fold_left (fun d p => write p d) (map snd ps) d.
Proof.
  intros rt d ms sigma s Hr. unfold run_sched in Hr.
  pose proof (run_inv2 rt ms d sigma (init d) s (inv2_init ms d) Hr) as I.
  destruct I as [_ _ _ Ikr _ Itr]. split; [intros i Hi; apply Ikr, Hi | exact Itr].
Qed.

(* ------------------------------------------------------------------ the model's serial step refines the abstract semantics *)
Lemma fold_delete_filter : forall L acc,
  fold_left (fun es e => delete_edge e es) L acc
  = filter (fun a => negb (existsb (fun e => same_key a e) L)) acc.
Proof.
  induction L as [|e t IH]; intros acc; cbn [fold_left existsb].
  - cbn [negb]. induction acc as [|a u IHu]; [reflexivity|]. cbn [filter]. rewrite <- IHu. reflexivity.
  - rewrite IH. unfold delete_edge. rewrite filter_filter'. apply filter_ext_in'. intros a _.
    rewrite Bool.negb_orb. reflexivity.
Qed.

Lemma same_key_refl : forall a, same_key a a = true.
Proof. intros a. unfold same_key. rewrite !N.eqb_refl. reflexivity. Qed.

Lemma found_edges_key : forall d x l a, In a (edges d) ->
  existsb (fun e => same_key a e) (get_edges l (edges_of x d)) = N.eqb (e_src a) x && N.eqb l (e_label a).
Proof.
  intros d x l a Ha. apply Bool.eq_iff_eq_true. rewrite existsb_exists, Bool.andb_true_iff, !N.eqb_eq. split.
  - intros [e [He Hk]]. unfold get_edges, edges_of in He. rewrite !filter_In in He.
    destruct He as [[_ Hs] Hl]. apply N.eqb_eq in Hs. apply N.eqb_eq in Hl.
    unfold same_key in Hk. rewrite !Bool.andb_true_iff, !N.eqb_eq in Hk. destruct Hk as [[K1 K2] _]. split; congruence.
  - intros [Hs Hl]. exists a. split; [|apply same_key_refl].
    unfold get_edges, edges_of. rewrite !filter_In, !N.eqb_eq. auto.
Qed.

Lemma ref_read_effective : forall x date es op, snd (ref_read x date es op) = spec_ref_effective es op.
Proof.
  intros x date es op. destruct op as [l ds|l dst|l]; cbn [ref_read spec_ref_effective snd].
  - apply is_nil_filter.
  - destruct (edge_exists l dst es); reflexivity.
  - unfold get_edges. apply is_nil_filter.
Qed.
Lemma ref_read_new : forall x date es op, snd (fst (ref_read x date es op)) = spec_new_edges x date es op.
Proof.
  intros x date es op. destruct op as [l ds|l dst|l]; cbn [ref_read spec_new_edges snd fst]; try reflexivity.
  destruct (edge_exists l dst es); reflexivity.
Qed.
Lemma ref_read_del_key : forall d x date op a, In a (edges d) ->
  existsb (fun e => same_key a e) (fst (fst (ref_read x date (edges_of x d) op)))
  = N.eqb (e_src a) x &&
    match op with
    | RClear l' => N.eqb l' (e_label a)
    | RSet l' dst => N.eqb l' (e_label a) && negb (edge_exists l' dst (edges_of x d))
    | RAdd _ _ => false
    end.
Proof.
  intros d x date op a Ha. destruct op as [l ds|l dst|l]; cbn [ref_read fst].
  - cbn [existsb]. rewrite Bool.andb_false_r. reflexivity.
  - destruct (edge_exists l dst (edges_of x d)); cbn [fst existsb negb].
    + rewrite !Bool.andb_false_r. reflexivity.
    + rewrite Bool.andb_true_r. apply found_edges_key, Ha.
  - apply found_edges_key, Ha.
Qed.


Lemma edges_spec : forall m d,
  let es := edges_of (m_row m) d in
  let rs := map (ref_read (m_row m) (m_date m) es) (m_refs m) in
  fold_left (fun acc e => insert_edge e acc) (flat_map (fun t : list edge * list edge * bool => snd (fst t)) rs)
    (fold_left (fun acc e => delete_edge e acc) (flat_map (fun t : list edge * list edge * bool => fst (fst t)) rs) (edges d))
  = spec_new_rows_edges m es (edges d).
Proof.
  intros m d es rs. unfold spec_new_rows_edges, rs. rewrite !flat_map_map'.
  rewrite (flat_map_ext' _ _ (fun op => snd (fst (ref_read (m_row m) (m_date m) es op)))
                            (spec_new_edges (m_row m) (m_date m) es)) by (intros; apply ref_read_new).
  f_equal. rewrite fold_delete_filter. apply filter_ext_in'. intros a Ha. f_equal.
  rewrite existsb_flat_map.
  rewrite (existsb_ext' _ _ (fun op => N.eqb (e_src a) (m_row m) &&
             match op with
             | RClear l' => N.eqb l' (e_label a)
             | RSet l' dst => N.eqb l' (e_label a) && negb (edge_exists l' dst es)
             | RAdd _ _ => false
             end)) by (intros op _; apply ref_read_del_key, Ha).
  rewrite existsb_andb_const. unfold label_removed. reflexivity.
Qed.

Definition apply1 (m : mutation) (d : db) : db :=
  match read d m with Some p => write p d | None => d end.

Definition wfP (d : db) : Prop := NoDup (ids d) /\ NoDup (rowids d).
Definition fresh_create (d : db) (m : mutation) : Prop :=
  m_kind m = KCreate -> find_row (m_row m) d = None.

Lemma find_row_none : forall x d, find_row x d = None <-> ~ In x (ids d).
Proof.
  intros x d. unfold find_row, ids. induction (rows d) as [|r t IH]; cbn [find map In]; [tauto|].
  destruct (N.eqb (r_id r) x) eqn:E.
  - apply N.eqb_eq in E. split; [discriminate | intros H; exfalso; apply H; left; assumption].
  - apply N.eqb_neq in E. rewrite IH. tauto.
Qed.

(* reading and writing with nothing in between is the abstract semantics of the request *)
Lemma apply1_spec : forall m d, wfP d -> fresh_create d m -> apply1 m d = spec_apply m d.
Proof.
  intros m d [Hids Hrids] Hfresh. unfold apply1, read, spec_apply in *.
  destruct (m_kind m) eqn:K.
  - (* update *)
    destruct (find_row (m_row m) d) as [old|] eqn:F; [|reflexivity].
    unfold find_row in F. pose proof (find_some _ _ F) as [Hin Hid]. apply N.eqb_eq in Hid.
    set (es := edges_of (m_row m) d) in *.
    assert (Hupd : (negb (is_nil (m_assign m)) ||
                    existsb (fun t : list edge * list edge * bool => snd t) (map (ref_read (m_row m) (m_date m) es) (m_refs m)))
                   = (negb (is_nil (m_assign m)) || existsb (spec_ref_effective es) (m_refs m))).
    { f_equal. rewrite existsb_map'. apply existsb_ext'. intros op _. apply ref_read_effective. }
    unfold write, read_update; cbn [p_kind p_node p_del p_ins rows edges]. rewrite Hupd.
    f_equal.
    + destruct (negb (is_nil (m_assign m)) || existsb (spec_ref_effective es) (m_refs m) || room_changes old m) eqn:U; [|reflexivity].
      cbn [r_rowid]. apply map_ext_in. intros r Hr.
      assert (E : N.eqb (r_rowid r) (r_rowid old) = N.eqb (r_id r) (m_row m)).
      { apply Bool.eq_iff_eq_true. rewrite !N.eqb_eq. split; intros H.
        - assert (r = old) by (eapply (unique_by r_rowid); eauto). subst r. assumption.
        - assert (r = old) by (eapply (unique_by r_id); eauto; congruence). subst r. reflexivity. }
      rewrite E. reflexivity.
    + apply (edges_spec m d).
  - (* creation *)
    rewrite (Hfresh K). unfold write, read_create; cbn [p_kind p_node p_del p_ins rows edges r_id r_room r_mdate r_fields].
    f_equal. apply (edges_spec m d).
  - (* deletion *)
    destruct (find_row (m_row m) d); unfold write; cbn [p_kind p_row]; reflexivity.
Qed.

Lemma apply_apply1 : forall ms d i,
  apply ms d i = match nth_error ms i with Some m => apply1 m d | None => d end.
Proof. reflexivity. Qed.

Lemma ids_map_same : forall (f : row -> row) l, (forall r, In r l -> r_id (f r) = r_id r) -> map r_id (map f l) = map r_id l.
Proof. intros f l H. rewrite map_map. apply map_ext_in, H. Qed.

Lemma wf_apply1 : forall m d, wfP d -> fresh_create d m -> wfP (apply1 m d).
Proof.
  intros m d [Hids Hrids] Hfresh. unfold apply1. destruct (read d m) as [p|] eqn:Rd; [|split; assumption].
  split; [|apply rowids_write, Hrids].
  unfold read in Rd. destruct (m_kind m) eqn:K.
  - destruct (find_row (m_row m) d) as [old|] eqn:F; [|discriminate]. inversion Rd; subst p; clear Rd.
    unfold write, ids; cbn [read_update p_kind p_node rows]. destruct (_ || _); [|exact Hids].
    unfold find_row in F. pose proof (find_some _ _ F) as [Hin _].
    rewrite ids_map_same; [exact Hids|]. intros r Hr. cbn [r_rowid].
    destruct (N.eqb (r_rowid r) (r_rowid old)) eqn:E; [|reflexivity].
    apply N.eqb_eq in E. assert (r = old) by (eapply (unique_by r_rowid); eauto). subst r. reflexivity.
  - inversion Rd; subst p; clear Rd. unfold write, ids; cbn [read_create p_kind p_node rows r_id].
    rewrite map_app. cbn [map r_id]. unfold ids in Hids. apply NoDup_rev in Hids.
    rewrite <- (rev_involutive (map r_id (rows d) ++ [m_row m])). apply NoDup_rev.
    rewrite rev_app_distr. cbn [rev app]. constructor; [|exact Hids].
    rewrite <- in_rev. apply find_row_none, Hfresh, K.
  - inversion Rd; subst p; clear Rd. unfold write, ids; cbn [p_kind p_row].
    destruct (find_row (m_row m) d); [|exact Hids]. cbn [rows]. apply NoDup_map_filter, Hids.
Qed.

Lemma fold_spec_apply : forall ms pi d, wfP d ->
  creates_fresh ms d pi = true ->
  fold_left (spec_apply_i ms) pi d = fold_left (apply ms) pi d.
Proof.
  induction pi as [|i t IH]; intros d Hwf Hc; [reflexivity|]. cbn [creates_fresh] in Hc.
  apply Bool.andb_true_iff in Hc. destruct Hc as [C1 C2]. cbn [fold_left].
  assert (E : spec_apply_i ms d i = apply ms d i /\ wfP (apply ms d i)).
  { unfold spec_apply_i. rewrite apply_apply1. destruct (nth_error ms i) as [m|]; [|split; [reflexivity | assumption]].
    assert (Hf : fresh_create d m).
    { intros K. rewrite K in C1. destruct (find_row (m_row m) d); [discriminate | reflexivity]. }
    split; [symmetry; apply apply1_spec; auto | apply wf_apply1; assumption]. }
  destruct E as [E Hwf']. rewrite E. apply IH; assumption.
Qed.
Lemma creates_fresh_app : forall ms a b d, creates_fresh ms d (a ++ b) = true -> creates_fresh ms d a = true.
Proof.
  induction a as [|i t IH]; intros b d H; [reflexivity|]. cbn [app creates_fresh] in *.
  apply Bool.andb_true_iff in H. destruct H as [H1 H2]. rewrite H1. cbn [andb]. eapply IH, H2.
Qed.

Lemma nodupb_NoDup : forall l, nodupb l = true -> NoDup l.
Proof.
  induction l as [|x t IH]; intros H; [constructor|]. cbn [nodupb] in H.
  apply Bool.andb_true_iff in H. destruct H as [H1 H2]. constructor; [|apply IH, H2].
  intros Hin. apply Bool.negb_true_iff in H1. assert (existsb (N.eqb x) t = true); [|congruence].
  apply existsb_exists. exists x. split; [assumption | apply N.eqb_refl].
Qed.
Lemma wf_db_wfP : forall d, wf_db d = true -> wfP d.
Proof. intros d H. unfold wf_db in H. apply Bool.andb_true_iff in H. destruct H. split; apply nodupb_NoDup; assumption. Qed.

(* --- reading the acknowledgement flags back --- *)
Lemma combine_map_self : forall A B (g : A -> B) l, combine l (map g l) = map (fun a => (a, g a)) l.
Proof. induction l as [|a t IH]; [reflexivity|]. cbn [map combine]. rewrite IH. reflexivity. Qed.
Lemma flags_filter : forall (g : nat -> Z) l,
  map fst (filter (fun p : nat * Z => Z.eqb (snd p) 1) (map (fun a => (a, g a)) l)) = filter (fun a => Z.eqb (g a) 1) l.
Proof.
  induction l as [|i t IH]; [reflexivity|]. cbn [map filter snd].
  destruct (Z.eqb (g i) 1); cbn [map fst]; [rewrite IH; reflexivity | exact IH].
Qed.
Lemma acked_of_flags : forall s n,
  acked_of (map (ack_code s) (seq 0 n)) = filter (fun i => memn i (s_acked s)) (seq 0 n).
Proof.
  intros s n. unfold acked_of. rewrite map_length, seq_length, combine_map_self, flags_filter.
  apply filter_ext_in'. intros i _. unfold ack_code.
  destruct (memn i (s_acked s)); [reflexivity|]. destruct (memn i (s_refused s)); reflexivity.
Qed.

(* outside the known class: a schedule (complete or not) without overlapping windows on one
   row reaches the state that the acknowledged
   mutations give under the abstract semantics, applied in write order; stated on the functions
   the harness evaluates *)
Theorem outside_known : forall rt d nf ms sigma b,
  known_C16 (CSched rt d nf ms sigma b) = [] ->
  wf_case (CSched rt d nf ms sigma b) = true ->
  run_sched rt d ms sigma <> None ->
  spec_C16 (CSched rt d nf ms sigma b) (run_C16 (CSched rt d nf ms sigma b)) = true.
Proof.
  intros rt d nf ms sigma b Hk Hwf Hr.
  cbn [known_C16] in Hk.
  destruct (windows_ok ms [] sigma) eqn:Hw; [|discriminate]. clear Hk.
  cbn [wf_case] in Hwf. apply Bool.andb_true_iff in Hwf. destruct Hwf as [Hwd Hcf].
  apply wf_db_wfP in Hwd. rewrite forallb_forall in Hcf.
  destruct (run_sched rt d ms sigma) as [s|] eqn:Hrun; [|congruence]. clear Hr.
  unfold spec_C16, run_C16.
  rewrite split_join by (pose proof (join_length (run_chunks (CSched rt d nf ms sigma b))); lia).
  cbn [run_chunks]. rewrite Hrun. cbn [spec_chunks].
  pose proof (serial_ok rt d ms sigma s (proj2 Hwd) Hrun Hw) as Hdb.
  unfold run_sched in Hrun.
  pose proof (run_inv2 rt ms d sigma (init d) s (inv2_init ms d) Hrun) as I2.
  destruct I2 as [_ Ina _ _ Ilt _].
  set (n := length ms) in *.
  set (flags := map (ack_code s) (seq 0 n)).
  assert (Hlen : length flags = n) by (unfold flags; rewrite map_length, seq_length; reflexivity).
  unfold outcome. fold flags.
  assert (Hf : firstn n (flags ++ obs_db nf (s_db s)) = flags) by (rewrite <- Hlen; apply firstn_len_app).
  assert (Hs : skipn n (flags ++ obs_db nf (s_db s)) = obs_db nf (s_db s)) by (rewrite <- Hlen; apply skipn_len_app).
  rewrite Hf, Hs, Hlen, Nat.eqb_refl. cbn [andb].
  unfold flags. rewrite acked_of_flags.
  assert (Hlt : forall i, In i (s_acked s) -> (i < n)%nat).
  { intros i Hi. apply nth_error_Some. apply Ilt. right. assumption. }
  assert (HP : Permutation (filter (fun i => memn i (s_acked s)) (seq 0 n)) (s_acked s)).
  { apply NoDup_Permutation; [apply NoDup_filter, seq_NoDup | assumption |].
    intros i. rewrite filter_In, in_seq, memn_In. split; [tauto|]. intros Hi. pose proof (Hlt i Hi). split; [lia | assumption]. }
  (* an order of all mutations that starts with the write order *)
  set (rest := filter (fun i => negb (memn i (s_acked s))) (seq 0 n)).
  assert (HPall : Permutation (seq 0 n) (s_acked s ++ rest)).
  { apply NoDup_Permutation; [apply seq_NoDup | |].
    - apply nodup_app2; [assumption | apply NoDup_filter, seq_NoDup |].
      intros i Hi Hr. unfold rest in Hr. apply filter_In in Hr. destruct Hr as [_ Hr].
      apply Bool.negb_true_iff, memn_false in Hr. contradiction.
    - intros i. rewrite in_app_iff. unfold rest. rewrite filter_In, in_seq, Bool.negb_true_iff, memn_false. split.
      + intros Hi. destruct (memn i (s_acked s)) eqn:M; [left; apply memn_In, M | right; split; [lia | apply memn_false, M]].
      + intros [Hi|[Hi _]]; [specialize (Hlt i Hi); lia | lia]. }
  assert (Hall : In (s_acked s ++ rest) (perms (seq 0 n))) by (apply perms_complete, HPall).
  assert (Hfo : creates_fresh ms d (s_acked s) = true) by (eapply creates_fresh_app, Hcf, Hall).
  apply existsb_exists. exists (s_acked s). split; [apply perms_complete, HP|].
  rewrite (fold_spec_apply ms (s_acked s) d Hwd Hfo), <- Hdb. apply zlist_eqb_refl.
Qed.

(* ------------------------------------------------------------------ refutation witnesses (closed terms) *)
(* rooms of the harness: 1 = the caller may write for ever, 2 = right revoked from date 1500 *)
Definition wit_rt : list (N * Z) := [(1%N, 1000000000); (2%N, 1500)].
Definition wit_row : row :=
  {| r_id := 1%N; r_rowid := 4%N; r_room := Some 1%N; r_mdate := 0;
     r_fields := [(0%N, 1); (1%N, 2); (2%N, 90); (3%N, 12); (4%N, 100); (5%N, 109)] |}.
Definition wit_db : db :=
  {| rows := [wit_row]; edges := [mk_edge 1%N 0%N 0%N 0; mk_edge 1%N 1%N 0%N 0]; db_floor := 3%N |}.
Definition mut (room : option N) (date : Z) (a : list (N * Z)) (r : list refop) : mutation :=
  {| m_kind := KUpdate; m_row := 1%N; m_date := date; m_room := room; m_assign := a; m_refs := r |}.
(* R1 R2 V1 W1 V2 W2 *)
Definition wit_sigma : list ev := [R 0; R 1; V 0; W 0; V 1; W 1]%nat.

Definition wit_fields : list mutation := [mut None 1000 [(0%N, 11)] []; mut None 2000 [(1%N, 22)] []].
Definition wit_refs : list mutation := [mut None 1000 [] [RSet 1%N 1%N]; mut None 2000 [] [RSet 1%N 2%N]].
Definition wit_room : list mutation := [mut (Some 2%N) 1000 [(0%N, 11)] []; mut None 2000 [(1%N, 22)] []].

Ltac two_orders H :=
  apply perms_complete in H; cbn in H;
  destruct H as [<-|[<-|[]]]; vm_compute; discriminate.

(* m1 assigns field 0, m2 assigns field 1 of one row: both are acknowledged, the final row has
   m2's field 1 and the OLD field 0; no serial order gives that state *)
Lemma refuted_fields :
  let c := CSched wit_rt wit_db 6%N wit_fields wit_sigma false in
  known_C16 c = [1] /\ wf_case c = true /\ complete 2 wit_sigma = true /\
  (exists s, run_sched wit_rt wit_db wit_fields wit_sigma = Some s /\ s_acked s = [0; 1]%nat /\
     (exists r, find_row 1%N (s_db s) = Some r /\
                get_field 0%N (r_fields r) = Some 1 /\ get_field 1%N (r_fields r) = Some 22) /\
     (forall pi, Permutation [0; 1]%nat pi ->
                 obs_db 6%N (fold_left (spec_apply_i wit_fields) pi wit_db) <> obs_db 6%N (s_db s))) /\
  spec_C16 c (run_C16 c) = false.
Proof.
  cbv zeta. split; [vm_compute; reflexivity|]. split; [vm_compute; reflexivity|]. split; [vm_compute; reflexivity|].
  split; [|vm_compute; reflexivity].
  eexists. split; [vm_compute; reflexivity|]. split; [reflexivity|]. split.
  - eexists. split; [vm_compute; reflexivity|]. split; reflexivity.
  - intros pi HP. two_orders HP.
Qed.

(* two replacements of a single-valued reference (owner:{id:t1} and owner:{id:t2}): both
   acknowledged, the row ends with TWO owners; every serial order leaves one *)
Lemma refuted_reference :
  let c := CSched wit_rt wit_db 6%N wit_refs wit_sigma false in
  known_C16 c = [1] /\ wf_case c = true /\
  (exists s, run_sched wit_rt wit_db wit_refs wit_sigma = Some s /\ s_acked s = [0; 1]%nat /\
     length (get_edges 1%N (edges_of 1%N (s_db s))) = 2%nat /\
     (forall pi, Permutation [0; 1]%nat pi ->
                 length (get_edges 1%N (edges_of 1%N (fold_left (spec_apply_i wit_refs) pi wit_db))) = 1%nat)) /\
  spec_C16 c (run_C16 c) = false.
Proof.
  cbv zeta. split; [vm_compute; reflexivity|]. split; [vm_compute; reflexivity|]. split; [|vm_compute; reflexivity].
  eexists. split; [vm_compute; reflexivity|]. split; [reflexivity|]. split; [vm_compute; reflexivity|].
  intros pi HP. apply perms_complete in HP. cbn in HP. destruct HP as [<-|[<-|[]]]; vm_compute; reflexivity.
Qed.

(* a move to room 2 (with an assignment) racing a field update: both acknowledged, the row is
   still in room 1 and the moved mutation's assignment is gone *)
Lemma refuted_room_move :
  let c := CSched wit_rt wit_db 6%N wit_room wit_sigma false in
  known_C16 c = [1] /\ wf_case c = true /\
  (exists s, run_sched wit_rt wit_db wit_room wit_sigma = Some s /\ s_acked s = [0; 1]%nat /\
     (exists r, find_row 1%N (s_db s) = Some r /\ r_room r = Some 1%N /\ get_field 0%N (r_fields r) = Some 1) /\
     (forall pi, Permutation [0; 1]%nat pi ->
                 exists r, find_row 1%N (fold_left (spec_apply_i wit_room) pi wit_db) = Some r /\ r_room r = Some 2%N)) /\
  spec_C16 c (run_C16 c) = false.
Proof.
  cbv zeta. split; [vm_compute; reflexivity|]. split; [vm_compute; reflexivity|]. split; [|vm_compute; reflexivity].
  eexists. split; [vm_compute; reflexivity|]. split; [reflexivity|]. split.
  - eexists. split; [vm_compute; reflexivity|]. split; reflexivity.
  - intros pi HP. apply perms_complete in HP. cbn in HP.
    destruct HP as [<-|[<-|[]]]; eexists; (split; [vm_compute; reflexivity | reflexivity]).
Qed.

(* update of row 1 read; row 1 deleted; a NEW row 11 created (it takes over the rowid of the
   deleted row); the update is written: all three acknowledged, the deleted row 1 is back and
   the new row 11 is gone.  In every serial order row 1 is gone and row 11 is there. *)
Definition wit_takeover : list mutation :=
  [mut None 1000 [(0%N, 11)] [RAdd 0%N [1%N]];
   {| m_kind := KDelete; m_row := 1%N; m_date := 2000; m_room := None; m_assign := []; m_refs := [] |};
   {| m_kind := KCreate; m_row := 11%N; m_date := 3000; m_room := Some 1%N;
      m_assign := [(0%N, 5); (1%N, 70); (2%N, 90); (3%N, 30); (5%N, 109)]; m_refs := [RSet 1%N 2%N] |}].
Definition takeover_sigma : list ev := [R 0; R 1; V 1; W 1; R 2; V 2; W 2; V 0; W 0]%nat.
Lemma refuted_rowid_takeover :
  let c := CSched wit_rt wit_db 6%N wit_takeover takeover_sigma false in
  known_C16 c = [1] /\ wf_case c = true /\
  (exists s, run_sched wit_rt wit_db wit_takeover takeover_sigma = Some s /\ s_acked s = [1; 2; 0]%nat /\
     find_row 1%N (s_db s) <> None /\ find_row 11%N (s_db s) = None /\
     (forall pi, Permutation [0; 1; 2]%nat pi ->
                 find_row 1%N (fold_left (spec_apply_i wit_takeover) pi wit_db) = None /\
                 find_row 11%N (fold_left (spec_apply_i wit_takeover) pi wit_db) <> None)) /\
  spec_C16 c (run_C16 c) = false.
Proof.
  cbv zeta. split; [vm_compute; reflexivity|]. split; [vm_compute; reflexivity|]. split; [|vm_compute; reflexivity].
  eexists. split; [vm_compute; reflexivity|]. split; [reflexivity|].
  split; [vm_compute; discriminate|]. split; [vm_compute; reflexivity|].
  intros pi HP. apply perms_complete in HP. cbn in HP.
  repeat (destruct HP as [<-|HP]; [split; [vm_compute; reflexivity | vm_compute; discriminate]|]). destruct HP.
Qed.

(* the hypotheses of outside_known are satisfiable by a schedule that is not serial and that
   contains a refused mutation, a creation and a deletion: windows of mutations on different rows
   overlap, the mutations of one row do not *)
Definition nv_db : db :=
  {| rows := [wit_row; {| r_id := 2%N; r_rowid := 5%N; r_room := None; r_mdate := 0; r_fields := [(2%N, 6)] |}];
     edges := [mk_edge 1%N 1%N 0%N 0]; db_floor := 3%N |}.
Definition nv_ms : list mutation :=
  [mut None 1000 [(0%N, 11)] [RSet 1%N 2%N];
   {| m_kind := KDelete; m_row := 2%N; m_date := 2000; m_room := None; m_assign := []; m_refs := [] |};
   mut (Some 3%N) 3000 [(1%N, 33)] [RClear 1%N];
   {| m_kind := KCreate; m_row := 11%N; m_date := 4000; m_room := Some 1%N; m_assign := [(0%N, 5)]; m_refs := [RAdd 0%N [1%N]] |}].
Definition nv_sigma : list ev := [R 0; R 1; V 1; R 3; V 0; W 1; W 0; R 2; V 3; V 2; W 3; W 2]%nat.
Lemma nonvacuous :
  let c := CSched wit_rt nv_db 6%N nv_ms nv_sigma false in
  known_C16 c = [] /\ wf_case c = true /\
  (exists s, run_sched wit_rt nv_db nv_ms nv_sigma = Some s /\ s_acked s = [1; 0; 3]%nat /\ s_refused s = [2]%nat) /\
  windows_ok nv_ms [] [R 0; R 2; V 0; W 0; V 2; W 2]%nat = false.
Proof.
  cbv zeta. split; [vm_compute; reflexivity|]. split; [vm_compute; reflexivity|].
  split; [eexists; split; [vm_compute; reflexivity | split; reflexivity] | vm_compute; reflexivity].
Qed.

(* ------------------------------------------------------------------ the statement at full strength, and its refutation *)
Definition full_statement : Prop :=
  forall rt d ms sigma s,
    wf_db d = true -> run_sched rt d ms sigma = Some s -> complete (length ms) sigma = true ->
    exists pi, Permutation (s_acked s) pi /\ s_db s = fold_left (spec_apply_i ms) pi d.

Lemma full_refuted : ~ full_statement.
Proof.
  intros H. destruct refuted_fields as [_ [_ [Hc [[s [Hr [Ha [_ Hno]]]] _]]]].
  destruct (H wit_rt wit_db wit_fields wit_sigma s eq_refl Hr Hc) as [pi [HP Hdb]].
  rewrite Ha in HP. apply (Hno pi HP). rewrite Hdb. reflexivity.
Qed.

Lemma other_rows_frame : forall d m mo p,
  NoDup (rowids d) -> read d mo = Some p -> m_row mo <> m_row m -> read (write p d) m = read d m.
Proof. intros d m mo p Hn Hr Hne. eapply read_write_frame; eauto. Qed.

(* former class 2 (fixed by 07628ab), now a PASSING witness: a strictly sequential schedule whose
   first mutation only names room 2: the row moves, the case lies in no known class and the
   oracle accepts it *)
Definition wit_room_only : list mutation := [mut (Some 2%N) 1000 [] []; mut None 2000 [(1%N, 22)] []].
Definition seq_sigma : list ev := [R 0; V 0; W 0; R 1; V 1; W 1]%nat.
Lemma room_only_moves :
  let c := CSched wit_rt wit_db 6%N wit_room_only seq_sigma false in
  known_C16 c = [] /\ wf_case c = true /\
  (exists s, run_sched wit_rt wit_db wit_room_only [R 0; V 0; W 0]%nat = Some s /\ s_acked s = [0]%nat /\
     exists r, find_row 1%N (s_db s) = Some r /\ r_room r = Some 2%N /\ r_mdate r = 1000) /\
  spec_C16 c (run_C16 c) = true.
Proof.
  cbv zeta. split; [vm_compute; reflexivity|]. split; [vm_compute; reflexivity|]. split; [|vm_compute; reflexivity].
  eexists. split; [vm_compute; reflexivity|]. split; [reflexivity|].
  eexists. split; [vm_compute; reflexivity|]. split; reflexivity.
Qed.

(* the serial theorem, against the abstract semantics *)
Lemma serial_spec : forall rt d ms sigma s,
  wf_db d = true ->
  run_sched rt d ms sigma = Some s -> windows_ok ms [] sigma = true ->
  creates_fresh ms d (s_acked s) = true ->
  s_db s = fold_left (spec_apply_i ms) (s_acked s) d.
Proof.
  intros rt d ms sigma s Hwf Hr Hw Hc. apply wf_db_wfP in Hwf.
  rewrite (fold_spec_apply ms (s_acked s) d Hwf Hc). eapply serial_ok; eauto. apply Hwf.
Qed.
