(* C16P.v — proofs for C16 (pipeline of read / validate / write phases). *)
From Coq Require Import Permutation.
From DV Require Import Pipeline Run_C16.

(* ------------------------------------------------------------------ small list facts *)
Lemma memn_In : forall i l, memn i l = true <-> In i l.
Proof.
  induction l as [|j t IH]; cbn [memn In]; [split; [discriminate | tauto]|].
  rewrite Bool.orb_true_iff, IH, Nat.eqb_eq. split; intros [H|H]; auto.
Qed.
Lemma memn_false : forall i l, memn i l = false <-> ~ In i l.
Proof.
  intros i l. rewrite <- memn_In. destruct (memn i l); split; intros H; auto; try discriminate.
  exfalso; apply H; reflexivity.
Qed.

Lemma lookup_In : forall A i (l : list (nat * A)) p, lookup i l = Some p -> In (i, p) l.
Proof.
  induction l as [|[j a] t IH]; cbn [lookup]; intros p H; [discriminate|].
  destruct (Nat.eqb i j) eqn:E.
  - apply Nat.eqb_eq in E. inversion H; subst. left; reflexivity.
  - right; auto.
Qed.
Lemma In_remove_key : forall A i (l : list (nat * A)) j q,
  In (j, q) (remove_key i l) <-> In (j, q) l /\ j <> i.
Proof.
  intros A i l j q. unfold remove_key. rewrite filter_In. cbn [fst].
  rewrite Bool.negb_true_iff, Nat.eqb_neq. intuition congruence.
Qed.
Lemma keys_remove_key : forall A i (l : list (nat * A)),
  map fst (remove_key i l) = remove_nat i (map fst l).
Proof.
  induction l as [|[j a] t IH]; [reflexivity|].
  unfold remove_key, remove_nat in *. cbn [filter map fst].
  destruct (negb (Nat.eqb i j)); cbn [map fst]; rewrite IH; reflexivity.
Qed.
Lemma In_remove_nat : forall i l j, In j (remove_nat i l) <-> In j l /\ j <> i.
Proof.
  intros i l j. unfold remove_nat. rewrite filter_In, Bool.negb_true_iff, Nat.eqb_neq.
  intuition congruence.
Qed.

(* ------------------------------------------------------------------ frame: what a read depends on *)
Definition pend_wf (p : pending) : Prop :=
  (forall n, p_node p = Some n -> r_id n = p_row p) /\
  Forall (fun e => e_src e = p_row p) (p_del p) /\
  Forall (fun e => e_src e = p_row p) (p_ins p).

Lemma ref_read_src : forall x date es op,
  Forall (fun e => e_src e = x) es ->
  Forall (fun e => e_src e = x) (fst (fst (ref_read x date es op))) /\
  Forall (fun e => e_src e = x) (snd (fst (ref_read x date es op))).
Proof.
  intros x date es op Hes. destruct op as [l ds|l dst|l]; cbn [ref_read].
  - cbn [fst snd]. split; [constructor|].
    apply Forall_forall. intros e He. apply in_map_iff in He. destruct He as [dst [<- _]]. reflexivity.
  - destruct (edge_exists l dst es); cbn [fst snd]; split; try constructor; auto.
    unfold get_edges. apply Forall_forall. intros e He. apply filter_In in He.
    rewrite Forall_forall in Hes. apply Hes, He.
  - cbn [fst snd]. split; [|constructor].
    unfold get_edges. apply Forall_forall. intros e He. apply filter_In in He.
    rewrite Forall_forall in Hes. apply Hes, He.
Qed.

Lemma Forall_flat_map : forall A B (P : B -> Prop) (f : A -> list B) l,
  (forall a, In a l -> Forall P (f a)) -> Forall P (flat_map f l).
Proof.
  induction l as [|a t IH]; intros H; cbn [flat_map]; [constructor|].
  apply Forall_app. split; [apply H; left; reflexivity | apply IH; intros; apply H; right; assumption].
Qed.

Lemma read_wf : forall d m p, read d m = Some p -> pend_wf p /\ p_row p = m_row m.
Proof.
  intros d m p H. unfold read in H. destruct (find_row (m_row m) d) as [old|] eqn:F; [|discriminate].
  inversion H; subst p; clear H. unfold read_view, pend_wf; cbn [p_row p_node p_del p_ins].
  assert (Hes : Forall (fun e => e_src e = m_row m) (edges_of (m_row m) d)).
  { unfold edges_of. apply Forall_forall. intros e He. apply filter_In in He. apply N.eqb_eq, He. }
  split; [|reflexivity]. split; [|split].
  - intros n Hn. destruct (_ || _); [|discriminate]. inversion Hn; subst n; cbn [r_id].
    unfold find_row in F. apply find_some in F. apply N.eqb_eq, F.
  - apply Forall_flat_map. intros t Ht. apply in_map_iff in Ht. destruct Ht as [op [<- _]].
    apply ref_read_src, Hes.
  - apply Forall_flat_map. intros t Ht. apply in_map_iff in Ht. destruct Ht as [op [<- _]].
    apply ref_read_src, Hes.
Qed.

Lemma find_replace_other : forall (n : row) x l,
  r_id n <> x ->
  find (fun r => N.eqb (r_id r) x) (map (fun r => if N.eqb (r_id r) (r_id n) then n else r) l)
  = find (fun r => N.eqb (r_id r) x) l.
Proof.
  intros n x l Hne. induction l as [|r t IH]; [reflexivity|]. cbn [map find].
  destruct (N.eqb (r_id r) (r_id n)) eqn:E.
  - apply N.eqb_eq in E.
    assert (E1 : N.eqb (r_id n) x = false) by (apply N.eqb_neq; assumption).
    assert (E2 : N.eqb (r_id r) x = false) by (apply N.eqb_neq; congruence).
    rewrite E1, E2. apply IH.
  - destruct (N.eqb (r_id r) x); [reflexivity | apply IH].
Qed.

Lemma filter_src_delete : forall x e es,
  e_src e <> x ->
  filter (fun a => N.eqb (e_src a) x) (delete_edge e es) = filter (fun a => N.eqb (e_src a) x) es.
Proof.
  intros x e es Hne. unfold delete_edge. induction es as [|a t IH]; [reflexivity|]. cbn [filter].
  destruct (N.eqb (e_src a) x) eqn:E.
  - assert (K : same_key a e = false).
    { unfold same_key. apply N.eqb_eq in E.
      assert (E1 : N.eqb (e_src a) (e_src e) = false) by (apply N.eqb_neq; congruence).
      rewrite E1. reflexivity. }
    rewrite K. cbn [negb filter]. rewrite E, IH. reflexivity.
  - destruct (negb (same_key a e)); cbn [filter]; [rewrite E|]; apply IH.
Qed.
Lemma filter_src_insert : forall x e es,
  e_src e <> x ->
  filter (fun a => N.eqb (e_src a) x) (insert_edge e es) = filter (fun a => N.eqb (e_src a) x) es.
Proof.
  intros x e es Hne. unfold insert_edge. rewrite filter_app. cbn [filter].
  assert (E1 : N.eqb (e_src e) x = false) by (apply N.eqb_neq; assumption).
  rewrite E1, app_nil_r. apply (filter_src_delete x e es Hne).
Qed.

Lemma filter_src_fold_delete : forall x l es,
  Forall (fun e => e_src e <> x) l ->
  filter (fun a => N.eqb (e_src a) x) (fold_left (fun es e => delete_edge e es) l es)
  = filter (fun a => N.eqb (e_src a) x) es.
Proof.
  induction l as [|e t IH]; intros es H; [reflexivity|]. cbn [fold_left].
  inversion H; subst. rewrite IH by assumption. apply filter_src_delete; assumption.
Qed.
Lemma filter_src_fold_insert : forall x l es,
  Forall (fun e => e_src e <> x) l ->
  filter (fun a => N.eqb (e_src a) x) (fold_left (fun es e => insert_edge e es) l es)
  = filter (fun a => N.eqb (e_src a) x) es.
Proof.
  induction l as [|e t IH]; intros es H; [reflexivity|]. cbn [fold_left].
  inversion H; subst. rewrite IH by assumption. apply filter_src_insert; assumption.
Qed.

Lemma find_row_write : forall p d x, pend_wf p -> p_row p <> x -> find_row x (write p d) = find_row x d.
Proof.
  intros p d x [Hn _] Hne. unfold find_row, write; cbn [rows].
  destruct (p_node p) as [n|] eqn:E; [|reflexivity].
  apply find_replace_other. rewrite (Hn n eq_refl). assumption.
Qed.
Lemma edges_of_write : forall p d x, pend_wf p -> p_row p <> x -> edges_of x (write p d) = edges_of x d.
Proof.
  intros p d x [_ [Hd Hi]] Hne. unfold edges_of, write; cbn [edges].
  rewrite filter_src_fold_insert, filter_src_fold_delete; [reflexivity| |].
  - eapply Forall_impl; [|exact Hd]. cbn beta. intros e He. congruence.
  - eapply Forall_impl; [|exact Hi]. cbn beta. intros e He. congruence.
Qed.

(* a write of a mutation on another row leaves what a read sees unchanged *)
Lemma read_write_frame : forall p d m, pend_wf p -> p_row p <> m_row m -> read (write p d) m = read d m.
Proof.
  intros p d m Hwf Hne. unfold read. rewrite find_row_write, edges_of_write by assumption. reflexivity.
Qed.

(* ------------------------------------------------------------------ T1: schedules without overlapping windows *)
Record inv (ms : list mutation) (d0 : db) (open : list nat) (s : st) : Prop := {
  inv_db : s_db s = fold_left (apply ms) (s_acked s) d0;
  inv_snap : forall i p, In (i, p) (s_pend s) -> exists m, nth_error ms i = Some m /\ read (s_db s) m = Some p;
  inv_keys : NoDup (map fst (s_pend s));
  inv_rows : forall i p j q, In (i, p) (s_pend s) -> In (j, q) (s_pend s) -> i <> j -> p_row p <> p_row q;
  inv_open : incl (map fst (s_pend s)) open;
  inv_failed : forall i, In i (s_failed s) -> ~ In i (map fst (s_pend s)) }.

Definition open_after (e : ev) (open : list nat) : list nat :=
  match e with R i => i :: open | V _ => open | W i => remove_nat i open end.

Lemma windows_ok_cons : forall ms open e t,
  windows_ok ms open (e :: t) = true -> windows_ok ms (open_after e open) t = true.
Proof.
  intros ms open e t H. destruct e; cbn [windows_ok open_after] in *; auto.
  apply Bool.andb_true_iff in H. apply H.
Qed.

Lemma started_false : forall i s, started i s = false ->
  ~ In i (map fst (s_pend s)) /\ ~ In i (s_acked s) /\ ~ In i (s_failed s).
Proof.
  intros i s H. unfold started in H. apply Bool.orb_false_iff in H. destruct H as [H H3].
  apply Bool.orb_false_iff in H. destruct H as [H1 H2].
  rewrite memn_false in H1, H2, H3. auto.
Qed.

Lemma step_inv : forall ms d0 open s e t s',
  inv ms d0 open s -> windows_ok ms open (e :: t) = true -> step ms s e = Some s' ->
  inv ms d0 (open_after e open) s'.
Proof.
  intros ms d0 open s e t s' I Hw Hs. destruct I as [Idb Isnap Ikeys Irows Iopen Ifail].
  destruct e as [i|i|i]; cbn [step open_after] in *.
  - (* R i *)
    destruct (started i s) eqn:St; [discriminate|].
    apply started_false in St. destruct St as [Sk [Sa Sf]].
    destruct (nth_error ms i) as [m|] eqn:Nm; [|discriminate].
    cbn [windows_ok] in Hw. apply Bool.andb_true_iff in Hw. destruct Hw as [Hrow _].
    rewrite forallb_forall in Hrow.
    destruct (read (s_db s) m) as [p|] eqn:Rd; inversion Hs; subst s'; clear Hs;
      constructor; cbn [s_db s_pend s_acked s_failed]; auto.
    + intros j q [H|H]; [inversion H; subst; exists m; auto | auto].
    + cbn [map fst]. constructor; assumption.
    + assert (K : forall j q, In (j, q) (s_pend s) -> p_row p <> p_row q).
      { intros j q Hj. destruct (Isnap j q Hj) as [mj [Nj Rj]].
        apply read_wf in Rd. apply read_wf in Rj. destruct Rd as [_ Rd]. destruct Rj as [_ Rj].
        assert (Jo : In j open) by (apply Iopen; apply in_map_iff; exists (j, q); auto).
        specialize (Hrow j Jo). unfold row_of in Hrow. rewrite Nj, Nm in Hrow. cbn [opt_eqb] in Hrow.
        apply Bool.negb_true_iff, N.eqb_neq in Hrow. congruence. }
      intros a pa b pb [Ha|Ha] [Hb|Hb] Hne.
      * inversion Ha; inversion Hb; subst. congruence.
      * inversion Ha; subst. eapply K; eauto.
      * inversion Hb; subst. intros E. symmetry in E. revert E. eapply K; eauto.
      * eapply Irows; eauto.
    + cbn [map fst]. intros j [<-|Hj]; [left; reflexivity | right; apply Iopen, Hj].
    + intros j Hj. cbn [map fst]. intros [<-|Hk]; [contradiction | eapply Ifail; eauto].
    + intros j Hj. right. apply Iopen, Hj.
    + intros j Hj. apply in_app_or in Hj. destruct Hj as [Hj|[<-|[]]]; auto.
  - (* V i *)
    destruct (memn i (s_failed s)); [inversion Hs; subst; constructor; auto|].
    destruct (memn i (map fst (s_pend s)) && negb (memn i (s_fifo s))); [|discriminate].
    inversion Hs; subst s'; constructor; cbn [s_db s_pend s_acked s_failed]; auto.
  - (* W i *)
    destruct (memn i (s_failed s)) eqn:Mf.
    + inversion Hs; subst s'. apply memn_In in Mf. constructor; auto.
      intros j Hj. apply In_remove_nat. split; [apply Iopen, Hj|].
      intros ->. eapply Ifail; eauto.
    + destruct (s_fifo s) as [|j rest]; [discriminate|].
      destruct (Nat.eqb i j) eqn:Eij; [|discriminate].
      destruct (lookup i (s_pend s)) as [p|] eqn:Lk; [|discriminate].
      inversion Hs; subst s'; clear Hs. apply lookup_In in Lk.
      destruct (Isnap i p Lk) as [m [Nm Rd]]. pose proof (read_wf _ _ _ Rd) as [Wf Pr].
      constructor; cbn [s_db s_pend s_acked s_failed].
      * rewrite fold_left_app. cbn [fold_left]. rewrite <- Idb. unfold apply. rewrite Nm, Rd. reflexivity.
      * intros k q Hk. apply In_remove_key in Hk. destruct Hk as [Hk Hne].
        destruct (Isnap k q Hk) as [mk [Nk Rk]]. exists mk. split; [assumption|].
        rewrite read_write_frame; [assumption | assumption |].
        pose proof (read_wf _ _ _ Rk) as [_ Pk]. rewrite <- Pk. eapply Irows; eauto.
      * rewrite keys_remove_key. unfold remove_nat. apply NoDup_filter, Ikeys.
      * intros a pa b pb Ha Hb. apply In_remove_key in Ha. apply In_remove_key in Hb.
        eapply Irows; [apply Ha | apply Hb].
      * rewrite keys_remove_key. intros k Hk. apply In_remove_nat in Hk. apply In_remove_nat.
        split; [apply Iopen, Hk | apply Hk].
      * intros k Hk. rewrite keys_remove_key. intros Hin. apply In_remove_nat in Hin.
        eapply Ifail; [exact Hk | apply Hin].
Qed.

Lemma run_inv : forall ms d0 sigma open s s',
  inv ms d0 open s -> windows_ok ms open sigma = true -> run ms s sigma = Some s' ->
  exists open', inv ms d0 open' s'.
Proof.
  induction sigma as [|e t IH]; intros open s s' I Hw Hr; cbn [run] in Hr.
  - inversion Hr; subst. exists open; assumption.
  - destruct (step ms s e) as [s1|] eqn:Hs; [|discriminate].
    eapply IH; [eapply step_inv; eauto | eapply windows_ok_cons; eauto | exact Hr].
Qed.

Lemma inv_init : forall ms d0, inv ms d0 [] (init d0).
Proof.
  intros. constructor; cbn [init s_db s_pend s_acked s_failed fold_left map]; auto.
  - intros i p [].
  - constructor.
  - intros i p j q [].
  - intros i [].
Qed.

(* every schedule (any number of mutations, any length) in which no Read of a mutation on row x
   falls between the Read and the Write of another mutation on x leaves exactly the state of
   the serial application of the written mutations in write order *)
Theorem serial_ok : forall d ms sigma s,
  run_sched d ms sigma = Some s -> windows_ok ms [] sigma = true ->
  s_db s = fold_left (apply ms) (s_acked s) d.
Proof.
  intros d ms sigma s Hr Hw. unfold run_sched in Hr.
  destruct (run_inv ms d sigma [] (init d) s (inv_init ms d) Hw Hr) as [open' I].
  apply I.
Qed.
