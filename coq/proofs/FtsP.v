(* FtsP.v — string lemmas for C17: a phrase of trigrams at consecutive positions is a substring. *)
From DV Require Import Fts.
From Coq Require Import Lia.
Open Scope Z_scope.

Lemma tri_eqb_eq : forall x y, tri_eqb x y = true <-> x = y.
Proof.
  intros [[a b] c] [[d e] f]. unfold tri_eqb. split.
  - intros H. apply Bool.andb_true_iff in H. destruct H as [H H3]. apply Bool.andb_true_iff in H. destruct H as [H1 H2].
    apply N.eqb_eq in H1. apply N.eqb_eq in H2. apply N.eqb_eq in H3. congruence.
  - intros H. inversion H. subst. rewrite !N.eqb_refl. reflexivity.
Qed.
Lemma tri_eqb_refl : forall x, tri_eqb x x = true.
Proof. intros. apply tri_eqb_eq. reflexivity. Qed.
Lemma tri_eqb_sym : forall x y, tri_eqb x y = tri_eqb y x.
Proof.
  intros x y. destruct (tri_eqb x y) eqn:E.
  - apply tri_eqb_eq in E. subst. symmetry. apply tri_eqb_refl.
  - destruct (tri_eqb y x) eqn:E2; [|reflexivity]. apply tri_eqb_eq in E2. subst. rewrite tri_eqb_refl in E. discriminate.
Qed.

(* the text from position p on *)
Lemma skipn_S_tl : forall {A} p (t : list A), skipn (S p) t = tl (skipn p t).
Proof.
  intros A p. induction p as [|p IH]; intros t.
  - destruct t; reflexivity.
  - destruct t as [|x t]; [reflexivity|]. cbn [skipn]. rewrite <- IH. reflexivity.
Qed.

Lemma is_tri_at_prefix : forall p t a b c, is_tri_at t (a, b, c) p = prefix [a; b; c] (skipn p t).
Proof.
  induction p as [|p IH]; intros t a b c.
  - unfold is_tri_at. cbn [skipn].
    destruct t as [|x [|y [|z t]]]; cbn [tri_at prefix]; rewrite ?Bool.andb_false_r; try reflexivity.
    unfold tri_eqb. rewrite (N.eqb_sym x a), (N.eqb_sym y b), (N.eqb_sym z c).
    rewrite Bool.andb_true_r, Bool.andb_assoc. reflexivity.
  - destruct t as [|x t].
    + reflexivity.
    + unfold is_tri_at in *. cbn [tri_at skipn]. apply IH.
Qed.

Lemma is_tri_at_lt : forall p t u, is_tri_at t u p = true -> (p < length t)%nat.
Proof.
  induction p as [|p IH]; intros t u H; unfold is_tri_at in H.
  - destruct t as [|x t]; cbn [tri_at] in H; [discriminate|cbn [length]; lia].
  - destruct t as [|x t]; cbn [tri_at] in H; [discriminate|]. cbn [length]. apply IH in H. lia.
Qed.

(* the k-th trigram of the word sits at position p + k, on the text itself *)
Fixpoint tfollows (t : text) (us : list tri) (p : nat) : bool :=
  match us with
  | [] => true
  | u :: rest => is_tri_at t u p && tfollows t rest (S p)
  end.

Lemma prefix_weaken2 : forall b c more s, prefix (b :: c :: more) s = true -> prefix [b; c] s = true.
Proof.
  intros b c more s H. destruct s as [|x [|y s]]; cbn [prefix] in *; try discriminate.
  - rewrite Bool.andb_false_r in H. discriminate.
  - apply Bool.andb_true_iff in H. destruct H as [H1 H]. apply Bool.andb_true_iff in H. destruct H as [H2 _].
    rewrite H1, H2. reflexivity.
Qed.

Lemma tfollows_prefix : forall t rest a b c p,
  tfollows t (tris (a :: b :: c :: rest)) p = prefix (a :: b :: c :: rest) (skipn p t).
Proof.
  intros t rest. induction rest as [|d rest IH]; intros a b c p.
  - cbn [tris tfollows]. rewrite Bool.andb_true_r. apply is_tri_at_prefix.
  - assert (E : tris (a :: b :: c :: d :: rest) = (a, b, c) :: tris (b :: c :: d :: rest)) by reflexivity.
    rewrite E. cbn [tfollows]. rewrite IH, is_tri_at_prefix, skipn_S_tl.
    destruct (skipn p t) as [|x s]; [reflexivity|]. cbn [tl].
    change (prefix [a; b; c] (x :: s)) with (N.eqb a x && prefix [b; c] s)%bool.
    change (prefix (a :: b :: c :: d :: rest) (x :: s)) with (N.eqb a x && prefix (b :: c :: d :: rest) s)%bool.
    destruct (N.eqb a x); [|reflexivity]. cbn [andb].
    destruct (prefix (b :: c :: d :: rest) s) eqn:P.
    + rewrite (prefix_weaken2 _ _ _ _ P). reflexivity.
    + apply Bool.andb_false_r.
Qed.

Lemma existsb_filter : forall {A} (g h : A -> bool) l, existsb g (filter h l) = existsb (fun x => h x && g x)%bool l.
Proof.
  intros A g h l. induction l as [|x l IH]; [reflexivity|]. cbn [filter existsb].
  destruct (h x); cbn [existsb andb orb]; rewrite IH; reflexivity.
Qed.

Lemma existsb_ext_in : forall {A} (f g : A -> bool) l, (forall x, In x l -> f x = g x) -> existsb f l = existsb g l.
Proof.
  intros A f g l H. induction l as [|x l IH]; [reflexivity|]. cbn [existsb].
  rewrite (H x (or_introl eq_refl)), IH; [reflexivity|]. intros y Hy. apply H. right. exact Hy.
Qed.

Lemma existsb_map' : forall {A B} (f : B -> bool) (g : A -> B) l, existsb f (map g l) = existsb (fun x => f (g x)) l.
Proof. intros A B f g l. induction l as [|x l IH]; [reflexivity|]. cbn [map existsb]. rewrite IH. reflexivity. Qed.

Lemma contains_seq : forall w t, w <> [] ->
  existsb (fun p => prefix w (skipn p t)) (seq 0 (length t)) = contains t w.
Proof.
  intros w t Hw. induction t as [|x t IH].
  - cbn. destruct w; [contradiction|reflexivity].
  - cbn [length seq existsb contains skipn]. rewrite <- seq_shift, existsb_map'. f_equal. exact IH.
Qed.

(* match of a word on the trigram positions of a text *)
Definition text_match (t : text) (w : text) : bool :=
  match tris w with
  | [] => false
  | u :: us => existsb (fun p => tfollows t us (S p)) (positions t u)
  end.

Theorem text_match_contains : forall t w, (3 <= length w)%nat -> text_match t w = contains t w.
Proof.
  intros t w H. destruct w as [|a [|b [|c rest]]]; cbn [length] in H; try lia.
  unfold text_match.
  assert (E : tris (a :: b :: c :: rest) = (a, b, c) :: tris (b :: c :: rest)) by reflexivity.
  rewrite E. unfold positions. rewrite existsb_filter.
  rewrite <- (contains_seq (a :: b :: c :: rest) t) by discriminate.
  apply existsb_ext_in. intros p _.
  rewrite <- tfollows_prefix, E. reflexivity.
Qed.

(* ---------- words without a space do not match across the field separator ---------- *)
Definition nosp (w : text) : bool := forallb (fun c => negb (N.eqb c sp)) w.

Lemma prefix_sep : forall w a rest, nosp w = true -> prefix w (a ++ sp :: rest) = prefix w a.
Proof.
  induction w as [|c w IH]; intros a rest H; [destruct a; reflexivity|].
  cbn [nosp forallb] in H. apply Bool.andb_true_iff in H. destruct H as [Hc Hw].
  destruct a as [|x a]; cbn [app prefix].
  - apply Bool.negb_true_iff in Hc. rewrite Hc. reflexivity.
  - rewrite (IH a rest Hw). reflexivity.
Qed.

Lemma contains_sep : forall w a rest, w <> [] -> nosp w = true ->
  contains (a ++ sp :: rest) w = (contains a w || contains rest w)%bool.
Proof.
  intros w a rest Hne Hw. induction a as [|x a IH].
  - cbn [app contains]. destruct w as [|c w]; [contradiction|].
    cbn [nosp forallb] in Hw. apply Bool.andb_true_iff in Hw. destruct Hw as [Hc _]. apply Bool.negb_true_iff in Hc.
    cbn [prefix]. rewrite Hc. reflexivity.
  - change ((x :: a) ++ sp :: rest) with (x :: (a ++ sp :: rest)).
    cbn [contains]. rewrite IH.
    change (x :: a ++ sp :: rest) with ((x :: a) ++ sp :: rest). rewrite (prefix_sep w (x :: a) rest Hw).
    rewrite Bool.orb_assoc. reflexivity.
Qed.

Lemma contains_opt_text : forall w o rest, w <> [] -> nosp w = true ->
  contains (opt_text o ++ rest) w = (match o with Some t => contains t w | None => false end || contains rest w)%bool.
Proof.
  intros w o rest Hne Hs. destruct o as [t|]; [|reflexivity].
  unfold opt_text. rewrite <- app_assoc. cbn [app]. apply contains_sep; assumption.
Qed.

Theorem contains_fts_text : forall w a b, wf_term w = true ->
  contains (fts_text a b) w =
  (match a with Some t => contains t w | None => false end || match b with Some t => contains t w | None => false end)%bool.
Proof.
  intros w a b H. unfold wf_term in H. apply Bool.andb_true_iff in H. destruct H as [Hl Hs].
  apply Nat.leb_le in Hl. assert (Hne : w <> []) by (destruct w; [cbn in Hl; lia|discriminate]).
  unfold fts_text. rewrite (contains_opt_text w a _ Hne Hs). f_equal.
  rewrite <- (app_nil_r (opt_text b)). rewrite (contains_opt_text w b [] Hne Hs).
  cbn [contains]. destruct w; [contradiction|]. cbn [prefix]. apply Bool.orb_false_r.
Qed.

(* ---------- trigram lists ---------- *)
Lemma is_tri_at_in_tris : forall p t u, is_tri_at t u p = true -> existsb (tri_eqb u) (tris t) = true.
Proof.
  induction p as [|p IH]; intros t u H; unfold is_tri_at in H.
  - destruct t as [|a [|b [|c t]]]; cbn [tri_at] in H; try discriminate.
    assert (E : tris (a :: b :: c :: t) = (a, b, c) :: tris (b :: c :: t)) by reflexivity.
    rewrite E. cbn [existsb]. rewrite tri_eqb_sym, H. reflexivity.
  - destruct t as [|a t]; cbn [tri_at] in H; [discriminate|].
    assert (H' : is_tri_at t u p = true) by exact H.
    pose proof (IH t u H') as I.
    destruct t as [|b [|c t]]; try (cbn in I; discriminate).
    assert (E : tris (a :: b :: c :: t) = (a, b, c) :: tris (b :: c :: t)) by reflexivity.
    rewrite E. cbn [existsb]. rewrite I. apply Bool.orb_true_r.
Qed.

Lemma mem_positions : forall t u p, mem_nat p (positions t u) = is_tri_at t u p.
Proof.
  intros t u p. unfold mem_nat, positions.
  destruct (is_tri_at t u p) eqn:E.
  - apply existsb_exists. exists p. split; [|apply Nat.eqb_refl].
    apply filter_In. split; [|exact E]. apply in_seq. pose proof (is_tri_at_lt _ _ _ E). lia.
  - destruct (existsb (Nat.eqb p) (filter (is_tri_at t u) (seq 0 (length t)))) eqn:X; [|reflexivity].
    apply existsb_exists in X. destruct X as [q [Hin Hq]]. apply Nat.eqb_eq in Hq. subst q.
    apply filter_In in Hin. destruct Hin as [_ Hin]. congruence.
Qed.

Lemma existsb_mem_ext : forall (g : nat -> bool) l1 l2, (forall p, mem_nat p l1 = mem_nat p l2) ->
  existsb g l1 = existsb g l2.
Proof.
  intros g l1 l2 H.
  assert (K : forall la lb, (forall p, mem_nat p la = mem_nat p lb) -> existsb g la = true -> existsb g lb = true).
  { intros la lb Hm E. apply existsb_exists in E. destruct E as [p [Hin Hg]].
    assert (M : mem_nat p la = true) by (unfold mem_nat; apply existsb_exists; exists p; split; [exact Hin|apply Nat.eqb_refl]).
    rewrite Hm in M. unfold mem_nat in M. apply existsb_exists in M. destruct M as [q [Hq E]]. apply Nat.eqb_eq in E. subst q.
    apply existsb_exists. exists p. split; assumption. }
  destruct (existsb g l1) eqn:E1.
  - symmetry. apply (K l1 l2 H E1).
  - destruct (existsb g l2) eqn:E2; [|reflexivity].
    rewrite (K l2 l1 (fun p => eq_sym (H p)) E2) in E1. discriminate.
Qed.
