(* C04Wit.v — closed witnesses: directed cases of harness/src/bin/c04.rs as Gallina terms, the model's verdict
   checked by vm_compute.  The same cases are replayed on the real code on every run.
   (snapshot of the harness output; regenerate with tools/c04_genwit.py if the directed cases change) *)
From DV Require Import Run_C04.
Open Scope Z_scope.

(* directed-K1-literal-backslash : {'by_literal': 1, 'by_param': 1, 'frame': 1, 'generator': ['alias: 319 cases, 0 refused, 0 frame violations', 'ascii: 554 cases, 0 refused, 0 frame violations', 'base64: 158 cases, 88 refused, 0 frame violations', 'bool: 4 cases, 0 refused, 0 frame violations', 'default: 120 cases, 0 refused, 0 fram *)
Definition w_K1_literal_backslash : c04case := CStr HLiteral [97%N; 92%N; 92%N; 98%N].
Lemma w_K1_literal_backslash_holds : spec_C04 w_K1_literal_backslash (run_C04 w_K1_literal_backslash) = true /\ known_C04 w_K1_literal_backslash = [].
Proof. vm_compute. split; reflexivity. Qed.

(* directed-K1-param-backslash-literal-filter : {'by_literal': 1, 'by_param': 1, 'frame': 1, 'note': '', 'read_back': 'a\\b', 'stored_raw': 'a\\\\b', 'text': 'a\\b'} *)
Definition w_K1_param_backslash : c04case := CStr HParam [97%N; 92%N; 98%N].
Lemma w_K1_param_backslash_holds : spec_C04 w_K1_param_backslash (run_C04 w_K1_param_backslash) = true /\ known_C04 w_K1_param_backslash = [].
Proof. vm_compute. split; reflexivity. Qed.

(* directed-K1-literal-unicode-escape : {'by_literal': 1, 'by_param': 1, 'frame': 1, 'note': '', 'read_back': 'A', 'stored_raw': 'A', 'text': '\\u0041'} *)
Definition w_K1_unicode_escape : c04case := CStr HLiteral [92%N; 117%N; 48%N; 48%N; 52%N; 49%N].
Lemma w_K1_unicode_escape_holds : spec_C04 w_K1_unicode_escape (run_C04 w_K1_unicode_escape) = true /\ known_C04 w_K1_unicode_escape = [].
Proof. vm_compute. split; reflexivity. Qed.

(* directed-literal-surrogate-pair : {'by_literal': 1, 'by_param': 1, 'frame': 1, 'note': '', 'read_back': '\ud83d\ude00', 'stored_raw': '\ud83d\ude00', 'text': '\\ud83d\\ude00'} *)
Definition w_surrogate_pair : c04case := CStr HLiteral [92%N; 117%N; 100%N; 56%N; 51%N; 100%N; 92%N; 117%N; 100%N; 101%N; 48%N; 48%N].
Lemma w_surrogate_pair_holds : spec_C04 w_surrogate_pair (run_C04 w_surrogate_pair) = true /\ known_C04 w_surrogate_pair = [].
Proof. vm_compute. split; reflexivity. Qed.

(* directed-literal-lone-high-surrogate : {'by_literal': 1, 'by_param': 1, 'frame': 1, 'note': '', 'read_back': 'a\ufffdb', 'stored_raw': 'a\ufffdb', 'text': 'a\\ud83db'} *)
Definition w_lone_surrogate : c04case := CStr HLiteral [97%N; 92%N; 117%N; 100%N; 56%N; 51%N; 100%N; 98%N].
Lemma w_lone_surrogate_holds : spec_C04 w_lone_surrogate (run_C04 w_lone_surrogate) = true /\ known_C04 w_lone_surrogate = [].
Proof. vm_compute. split; reflexivity. Qed.

(* default : {'default': 'it's', 'note': '', 'query': 'query { S (t = \'given\') { name t } }', 'sql': 'SELECT json_group_array(value->'$')FROM(SELECT json_object('name',_json->'$.32','t',Ifnull(_json->'$.33',?1))as value FROM _node \'S\' WHERE \'S\'._entity='0' AND CASE WHEN ?3 = ?2 THEN _json->>'$.33' = ?2 OR  *)
Definition w_K2_default_quote : c04case := CDefault (Build_emodel [83%N] [48%N] [(Build_fdef [110%N; 97%N; 109%N; 101%N] [51%N; 50%N] TStr false None); (Build_fdef [116%N] [51%N; 51%N] TStr false (Some (VStr [105%N; 116%N; 39%N; 115%N]))); (Build_fdef [110%N] [51%N; 52%N] TInt false (Some (VInt 3)))]) (Build_query None [(Build_selfield 0 None); (Build_selfield 1 None)] [(Build_qfilter (FByName 1) OEq (OLit (VStr [103%N; 105%N; 118%N; 101%N; 110%N])))] [] (OLit (VInt 0)) None PNone).
Lemma w_K2_default_quote_holds : spec_C04 w_K2_default_quote (run_C04 w_K2_default_quote) = true /\ known_C04 w_K2_default_quote = [].
Proof. vm_compute. split; reflexivity. Qed.

(* default : {'default': '' OR '1'='1', 'note': '', 'query': 'query { S (t = \'given\') { name t } }', 'sql': 'SELECT json_group_array(value->'$')FROM(SELECT json_object('name',_json->'$.32','t',Ifnull(_json->'$.33',?1))as value FROM _node \'S\' WHERE \'S\'._entity='0' AND CASE WHEN ?3 = ?2 THEN _json->>'$.33' = *)
Definition w_K2_default_injection : c04case := CDefault (Build_emodel [83%N] [48%N] [(Build_fdef [110%N; 97%N; 109%N; 101%N] [51%N; 50%N] TStr false None); (Build_fdef [116%N] [51%N; 51%N] TStr false (Some (VStr [39%N; 32%N; 79%N; 82%N; 32%N; 39%N; 49%N; 39%N; 61%N; 39%N; 49%N]))); (Build_fdef [110%N] [51%N; 52%N] TInt false (Some (VInt 3)))]) (Build_query None [(Build_selfield 0 None); (Build_selfield 1 None)] [(Build_qfilter (FByName 1) OEq (OLit (VStr [103%N; 105%N; 118%N; 101%N; 110%N])))] [] (OLit (VInt 0)) None PNone).
Lemma w_K2_default_injection_holds : spec_C04 w_K2_default_injection (run_C04 w_K2_default_injection) = true /\ known_C04 w_K2_default_injection = [].
Proof. vm_compute. split; reflexivity. Qed.

(* shape : {'neutral': 'query { S (b = \'x\', name = $dd) { name b } }', 'query': 'query { S (b = \'dd\', name = $dd) { name b } }', 'sql': 'SELECT json_group_array(value->'$')FROM(SELECT json_object('name',_json->'$.32','b',_json->'$.33')as value FROM _node \'S\' WHERE \'S\'._entity='0' AND _json->>'$.33' = ? *)
Definition w_K3_capture : c04case := CShape (Build_emodel [83%N] [48%N] [(Build_fdef [110%N; 97%N; 109%N; 101%N] [51%N; 50%N] TStr false None); (Build_fdef [98%N] [51%N; 51%N] TStr true None); (Build_fdef [99%N] [51%N; 52%N] TStr false (Some (VStr [100%N; 100%N]))); (Build_fdef [110%N] [51%N; 53%N] TInt false None)]) (Build_query None [(Build_selfield 0 None); (Build_selfield 1 None)] [(Build_qfilter (FByName 1) OEq (OLit (VStr [100%N; 100%N]))); (Build_qfilter (FByName 0) OEq (OVar [100%N; 100%N]))] [] (OLit (VInt 0)) None PNone).
Lemma w_K3_capture_holds : spec_C04 w_K3_capture (run_C04 w_K3_capture) = true /\ known_C04 w_K3_capture = [].
Proof. vm_compute. split; reflexivity. Qed.

(* float-directed : {'by_literal': 1, 'by_param': 1, 'digits': 16, 'literal': '8.407903850944054e17', 'note': '', 'read_back_raw': '8.407903850944054e+17', 'stored_raw': '8.407903850944054e+17', 'value': '8.407903850944054e17'} *)
Definition w_K4_float_display : c04case := CFlt HParam 4874959872071056218 4874959872071056218.
Lemma w_K4_float_display_holds : spec_C04 w_K4_float_display (run_C04 w_K4_float_display) = true /\ known_C04 w_K4_float_display = [].
Proof. vm_compute. split; reflexivity. Qed.

(* directed-literal-escaped-quote-ok : {'by_literal': 1, 'by_param': 1, 'frame': 1, 'note': '', 'read_back': 'say \'hi\'', 'stored_raw': 'say \\\'hi\\\'', 'text': 'say \\\'hi\\\''} *)
Definition w_ok_escaped_quote : c04case := CStr HLiteral [115%N; 97%N; 121%N; 32%N; 92%N; 34%N; 104%N; 105%N; 92%N; 34%N].
Lemma w_ok_escaped_quote_holds : spec_C04 w_ok_escaped_quote (run_C04 w_ok_escaped_quote) = true /\ known_C04 w_ok_escaped_quote = [].
Proof. vm_compute. split; reflexivity. Qed.

(* directed-param-sql : {'by_literal': 1, 'by_param': 1, 'frame': 1, 'note': '', 'read_back': ''; DROP TABLE _node; --', 'stored_raw': ''; DROP TABLE _node; --', 'text': ''; DROP TABLE _node; --'} *)
Definition w_ok_param_sql : c04case := CStr HParam [39%N; 59%N; 32%N; 68%N; 82%N; 79%N; 80%N; 32%N; 84%N; 65%N; 66%N; 76%N; 69%N; 32%N; 95%N; 110%N; 111%N; 100%N; 101%N; 59%N; 32%N; 45%N; 45%N].
Lemma w_ok_param_sql_holds : spec_C04 w_ok_param_sql (run_C04 w_ok_param_sql) = true /\ known_C04 w_ok_param_sql = [].
Proof. vm_compute. split; reflexivity. Qed.

(* directed-json-object-over-object : {'assigned_text': '{\'a\' :2}', 'by_param': 1, 'field': 'j', 'frame': 1, 'note': '', 'previous': '{\'a\':1,\'b\':{\'x\':1,\'y\':2},\'c\':[1,2]}', 'read_back': {'a': 2}, 'update': true} *)
Definition w_json_object_over_object : c04case := CJson HParam true true (Some (JObject [([97%N], (JInt 1)); ([98%N], (JObject [([120%N], (JInt 1)); ([121%N], (JInt 2))])); ([99%N], (JArray [(JInt 1); (JInt 2)]))])) (JObject [([97%N], (JInt 2))]).
Lemma w_json_object_over_object_holds : spec_C04 w_json_object_over_object (run_C04 w_json_object_over_object) = true /\ known_C04 w_json_object_over_object = [].
Proof. vm_compute. split; reflexivity. Qed.

(* directed-json-null-member : {'assigned_text': '{\'b\':{ \'x\':null}}', 'by_param': 1, 'field': 'j', 'frame': 1, 'note': '', 'previous': '{\'a\':1,\'b\':{\'x\':1,\'y\':2},\'c\':[1,2]}', 'read_back': {'b': {'x': null}}, 'update': true} *)
Definition w_json_null_member : c04case := CJson HLiteral true true (Some (JObject [([97%N], (JInt 1)); ([98%N], (JObject [([120%N], (JInt 1)); ([121%N], (JInt 2))])); ([99%N], (JArray [(JInt 1); (JInt 2)]))])) (JObject [([98%N], (JObject [([120%N], JNull)]))]).
Lemma w_json_null_member_holds : spec_C04 w_json_null_member (run_C04 w_json_null_member) = true /\ known_C04 w_json_null_member = [].
Proof. vm_compute. split; reflexivity. Qed.

(* directed-json-empty-object-over-object : {'assigned_text': '{}', 'by_param': 1, 'field': 'jp', 'frame': 1, 'note': '', 'previous': '{\'a\':1,\'b\':{\'x\':1,\'y\':2},\'c\':[1,2]}', 'read_back': {}, 'update': true} *)
Definition w_json_empty_over_object : c04case := CJson HParam true false (Some (JObject [([97%N], (JInt 1)); ([98%N], (JObject [([120%N], (JInt 1)); ([121%N], (JInt 2))])); ([99%N], (JArray [(JInt 1); (JInt 2)]))])) (JObject []).
Lemma w_json_empty_over_object_holds : spec_C04 w_json_empty_over_object (run_C04 w_json_empty_over_object) = true /\ known_C04 w_json_empty_over_object = [].
Proof. vm_compute. split; reflexivity. Qed.

(* directed-json-array-over-object : {'assigned_text': '[{\'a\' : null}]', 'by_param': 1, 'field': 'j', 'frame': 1, 'note': '', 'previous': '{\'a\':1,\'b\':{\'x\':1,\'y\':2},\'c\':[1,2]}', 'read_back': [{'a': null}], 'update': true} *)
Definition w_json_array_over_object : c04case := CJson HParam true true (Some (JObject [([97%N], (JInt 1)); ([98%N], (JObject [([120%N], (JInt 1)); ([121%N], (JInt 2))])); ([99%N], (JArray [(JInt 1); (JInt 2)]))])) (JArray [(JObject [([97%N], JNull)])]).
Lemma w_json_array_over_object_holds : spec_C04 w_json_array_over_object (run_C04 w_json_array_over_object) = true /\ known_C04 w_json_array_over_object = [].
Proof. vm_compute. split; reflexivity. Qed.

(* directed-json-null-over-object : {'assigned_text': 'null', 'by_param': 2, 'field': 'j', 'frame': 1, 'note': '', 'previous': '{\'a\':1,\'b\':{\'x\':1,\'y\':2},\'c\':[1,2]}', 'read_back': null, 'update': true} *)
Definition w_json_null_over_object : c04case := CJson HLiteral true true (Some (JObject [([97%N], (JInt 1)); ([98%N], (JObject [([120%N], (JInt 1)); ([121%N], (JInt 2))])); ([99%N], (JArray [(JInt 1); (JInt 2)]))])) JNull.
Lemma w_json_null_over_object_holds : spec_C04 w_json_null_over_object (run_C04 w_json_null_over_object) = true /\ known_C04 w_json_null_over_object = [].
Proof. vm_compute. split; reflexivity. Qed.

(* directed-json-over-default : {'assigned_text': '{\'e\':1}', 'by_param': 1, 'field': 'jd', 'frame': 1, 'note': '', 'previous': null, 'read_back': {'e': 1}, 'update': true} *)
Definition w_json_over_default : c04case := CJson HParam true false (Some (JObject [([100%N], (JArray [(JInt 1)]))])) (JObject [([101%N], (JInt 1))]).
Lemma w_json_over_default_holds : spec_C04 w_json_over_default (run_C04 w_json_over_default) = true /\ known_C04 w_json_over_default = [].
Proof. vm_compute. split; reflexivity. Qed.

(* directed-json-null-refused : {'assigned_text': 'null', 'by_param': -1, 'field': 'jp', 'frame': 0, 'note': 'execute: 'v' is not nullable', 'previous': null, 'read_back': null, 'update': false} *)
Definition w_json_null_refused : c04case := CJson HParam false false None JNull.
Lemma w_json_null_refused_holds : spec_C04 w_json_null_refused (run_C04 w_json_null_refused) = true /\ known_C04 w_json_null_refused = [].
Proof. vm_compute. split; reflexivity. Qed.

(* base64 : {'field': 'bd', 'note': '', 'read_back': '', 'text': '', 'update': true} *)
Definition w_b64_empty : c04case := CB64 HParam true [].
Lemma w_b64_empty_holds : spec_C04 w_b64_empty (run_C04 w_b64_empty) = true /\ known_C04 w_b64_empty = [].
Proof. vm_compute. split; reflexivity. Qed.

(* base64 : {'field': 'b', 'note': 'execute: 'AB' is not a base64 value', 'read_back': null, 'text': 'AB', 'update': true} *)
Definition w_b64_noncanonical : c04case := CB64 HParam true [65%N; 66%N].
Lemma w_b64_noncanonical_holds : spec_C04 w_b64_noncanonical (run_C04 w_b64_noncanonical) = true /\ known_C04 w_b64_noncanonical = [].
Proof. vm_compute. split; reflexivity. Qed.

(* base64 : {'field': 'bp', 'note': 'execute: 'AA==' is not a base64 value', 'read_back': null, 'text': 'AA==', 'update': true} *)
Definition w_b64_padded : c04case := CB64 HParam true [65%N; 65%N; 61%N; 61%N].
Lemma w_b64_padded_holds : spec_C04 w_b64_padded (run_C04 w_b64_padded) = true /\ known_C04 w_b64_padded = [].
Proof. vm_compute. split; reflexivity. Qed.

(* base64 : {'field': 'bp', 'note': '', 'read_back': '-_8', 'text': '-_8', 'update': false} *)
Definition w_b64_urlsafe : c04case := CB64 HParam false [45%N; 95%N; 56%N].
Lemma w_b64_urlsafe_holds : spec_C04 w_b64_urlsafe (run_C04 w_b64_urlsafe) = true /\ known_C04 w_b64_urlsafe = [].
Proof. vm_compute. split; reflexivity. Qed.

(* alias : {'alias': 'select', 'query': 'query { select: S (order_by(select asc)) { select: n name } }'} *)
Definition w_alias_keyword : c04case := CAlias [115%N; 101%N; 108%N; 101%N; 99%N; 116%N] (Build_emodel [83%N] [48%N] [(Build_fdef [110%N; 97%N; 109%N; 101%N] [51%N; 50%N] TStr false None); (Build_fdef [110%N] [51%N; 51%N] TInt false (Some (VInt 3)))]) (Build_query (Some [115%N; 101%N; 108%N; 101%N; 99%N; 116%N]) [Build_selfield 1 (Some [115%N; 101%N; 108%N; 101%N; 99%N; 116%N]); Build_selfield 0 None] [] [Build_okey (FByAlias 0) Asc] (OLit (VInt 0)) None PNone) (Build_query (Some [120%N; 49%N]) [Build_selfield 1 (Some [120%N; 49%N]); Build_selfield 0 None] [] [Build_okey (FByAlias 0) Asc] (OLit (VInt 0)) None PNone).
Lemma w_alias_keyword_holds : spec_C04 w_alias_keyword (run_C04 w_alias_keyword) = true /\ known_C04 w_alias_keyword = [].
Proof. vm_compute. split; reflexivity. Qed.

(* alias : {'alias': 'a\'b', 'query': 'query { a\'b: S (order_by(a\'b asc)) { a\'b: n name } }'} *)
Definition w_alias_dquote : c04case := CAlias [97%N; 34%N; 98%N] (Build_emodel [83%N] [48%N] [(Build_fdef [110%N; 97%N; 109%N; 101%N] [51%N; 50%N] TStr false None); (Build_fdef [110%N] [51%N; 51%N] TInt false (Some (VInt 3)))]) (Build_query (Some [97%N; 34%N; 98%N]) [Build_selfield 1 (Some [97%N; 34%N; 98%N]); Build_selfield 0 None] [] [Build_okey (FByAlias 0) Asc] (OLit (VInt 0)) None PNone) (Build_query (Some [120%N; 49%N]) [Build_selfield 1 (Some [120%N; 49%N]); Build_selfield 0 None] [] [Build_okey (FByAlias 0) Asc] (OLit (VInt 0)) None PNone).
Lemma w_alias_dquote_holds : spec_C04 w_alias_dquote (run_C04 w_alias_dquote) = true /\ known_C04 w_alias_dquote = [].
Proof. vm_compute. split; reflexivity. Qed.

(* alias : {'alias': 'a b', 'query': 'query { a b: S (order_by(a b asc)) { a b: n name } }'} *)
Definition w_alias_space : c04case := CAlias [97%N; 32%N; 98%N] (Build_emodel [83%N] [48%N] [(Build_fdef [110%N; 97%N; 109%N; 101%N] [51%N; 50%N] TStr false None); (Build_fdef [110%N] [51%N; 51%N] TInt false (Some (VInt 3)))]) (Build_query (Some [97%N; 32%N; 98%N]) [Build_selfield 1 (Some [97%N; 32%N; 98%N]); Build_selfield 0 None] [] [Build_okey (FByAlias 0) Asc] (OLit (VInt 0)) None PNone) (Build_query (Some [120%N; 49%N]) [Build_selfield 1 (Some [120%N; 49%N]); Build_selfield 0 None] [] [Build_okey (FByAlias 0) Asc] (OLit (VInt 0)) None PNone).
Lemma w_alias_space_holds : spec_C04 w_alias_space (run_C04 w_alias_space) = true /\ known_C04 w_alias_space = [].
Proof. vm_compute. split; reflexivity. Qed.

(* directed-json-default-old-row : {'default': '{\'d\':[1]}', 'returned': '{\'d\':[1]}'} *)
Definition w_K6_json_default : c04case := CJsonDefault [123%N; 34%N; 100%N; 34%N; 58%N; 91%N; 49%N; 93%N; 125%N] (JObject [([100%N], (JArray [(JInt 1)]))]).
Lemma w_K6_json_default_holds : spec_C04 w_K6_json_default (run_C04 w_K6_json_default) = true /\ known_C04 w_K6_json_default = [].
Proof. vm_compute. split; reflexivity. Qed.

(* directed-update-int-above-2p53 : {'new': 'Int(9007199254740993)', 'note': 'read back 9007199254740993', 'old': 'Int(9007199254740992)'} *)
Definition w_upd_2p53 : c04case := CUpd HParam 0 [9007199254740992] [9007199254740993].
Lemma w_upd_2p53_holds : spec_C04 w_upd_2p53 (run_C04 w_upd_2p53) = true /\ known_C04 w_upd_2p53 = [].
Proof. vm_compute. split; reflexivity. Qed.

(* directed-service-multiline-literal : {'literals': ['def f(x):\n    return x', 'def f(x):\nreturn x', 'def f(x):\n\treturn x', 'def f(x):\r\n    return x', 'def f(x):  \n    return x', 'def f(x):\n\n    return x', 'def f(x):\n    return x  ', '  def f(x):\n    return x'], 'log': []} *)
Definition w_svc_multiline : c04case := CSvc [[100%N; 101%N; 102%N; 32%N; 102%N; 40%N; 120%N; 41%N; 58%N; 10%N; 32%N; 32%N; 32%N; 32%N; 114%N; 101%N; 116%N; 117%N; 114%N; 110%N; 32%N; 120%N]; [100%N; 101%N; 102%N; 32%N; 102%N; 40%N; 120%N; 41%N; 58%N; 10%N; 114%N; 101%N; 116%N; 117%N; 114%N; 110%N; 32%N; 120%N]; [100%N; 101%N; 102%N; 32%N; 102%N; 40%N; 120%N; 41%N; 58%N; 10%N; 9%N; 114%N; 101%N; 116%N; 117%N; 114%N; 110%N; 32%N; 120%N]; [100%N; 101%N; 102%N; 32%N; 102%N; 40%N; 120%N; 41%N; 58%N; 13%N; 10%N; 32%N; 32%N; 32%N; 32%N; 114%N; 101%N; 116%N; 117%N; 114%N; 110%N; 32%N; 120%N]; [100%N; 101%N; 102%N; 32%N; 102%N; 40%N; 120%N; 41%N; 58%N; 32%N; 32%N; 10%N; 32%N; 32%N; 32%N; 32%N; 114%N; 101%N; 116%N; 117%N; 114%N; 110%N; 32%N; 120%N]; [100%N; 101%N; 102%N; 32%N; 102%N; 40%N; 120%N; 41%N; 58%N; 10%N; 10%N; 32%N; 32%N; 32%N; 32%N; 114%N; 101%N; 116%N; 117%N; 114%N; 110%N; 32%N; 120%N]; [100%N; 101%N; 102%N; 32%N; 102%N; 40%N; 120%N; 41%N; 58%N; 10%N; 32%N; 32%N; 32%N; 32%N; 114%N; 101%N; 116%N; 117%N; 114%N; 110%N; 32%N; 120%N; 32%N; 32%N]; [32%N; 32%N; 100%N; 101%N; 102%N; 32%N; 102%N; 40%N; 120%N; 41%N; 58%N; 10%N; 32%N; 32%N; 32%N; 32%N; 114%N; 101%N; 116%N; 117%N; 114%N; 110%N; 32%N; 120%N]].
Lemma w_svc_multiline_holds : spec_C04 w_svc_multiline (run_C04 w_svc_multiline) = true /\ known_C04 w_svc_multiline = [].
Proof. vm_compute. split; reflexivity. Qed.

(* search : {'fts5': '', 'term': 'hello'} *)
Definition w_search_plain : c04case := CSearch [104%N; 101%N; 108%N; 108%N; 111%N] true.
Lemma w_search_plain_holds : spec_C04 w_search_plain (run_C04 w_search_plain) = true /\ known_C04 w_search_plain = [].
Proof. vm_compute. split; reflexivity. Qed.

(* search : {'fts5': 'read: unterminated string', 'term': 'hello\''} *)
Definition w_K5_search_quote : c04case := CSearch [104%N; 101%N; 108%N; 108%N; 111%N; 34%N] false.
Lemma w_K5_search_quote_refuted : spec_C04 w_K5_search_quote (run_C04 w_K5_search_quote) = false /\ known_C04 w_K5_search_quote = [5].
Proof. vm_compute. split; reflexivity. Qed.

(* search : {'fts5': 'read: no such column: name', 'term': 'name:hello'} *)
Definition w_K5_search_column : c04case := CSearch [110%N; 97%N; 109%N; 101%N; 58%N; 104%N; 101%N; 108%N; 108%N; 111%N] false.
Lemma w_K5_search_column_refuted : spec_C04 w_K5_search_column (run_C04 w_K5_search_column) = false /\ known_C04 w_K5_search_column = [5].
Proof. vm_compute. split; reflexivity. Qed.
