(* C04Wit.v — closed witnesses: directed cases of harness/src/bin/c04.rs as Gallina terms, the model's verdict
   checked by vm_compute.  The same cases are replayed on the real code on every run.
   (snapshot of the harness output; regenerate with tools/c04_genwit.py if the directed cases change) *)
From DV Require Import Run_C04.
Open Scope Z_scope.

(* directed-K1-literal-backslash : {'by_literal': 1, 'by_param': 0, 'frame': 1, 'note': '', 'read_back': 'a\\\\b', 'stored_raw': 'a\\\\\\\\b', 'text': 'a\\\\b'} *)
Definition w_K1_literal_backslash : c04case := CStr HLiteral [97%N; 92%N; 92%N; 98%N].
Lemma w_K1_literal_backslash_refuted : spec_C04 w_K1_literal_backslash (run_C04 w_K1_literal_backslash) = false /\ known_C04 w_K1_literal_backslash = [1].
Proof. vm_compute. split; reflexivity. Qed.

(* directed-K1-param-backslash-literal-filter : {'by_literal': 0, 'by_param': 1, 'frame': 1, 'note': '', 'read_back': 'a\\b', 'stored_raw': 'a\\\\b', 'text': 'a\\b'} *)
Definition w_K1_param_backslash : c04case := CStr HParam [97%N; 92%N; 98%N].
Lemma w_K1_param_backslash_refuted : spec_C04 w_K1_param_backslash (run_C04 w_K1_param_backslash) = false /\ known_C04 w_K1_param_backslash = [1].
Proof. vm_compute. split; reflexivity. Qed.

(* directed-K1-literal-unicode-escape : {'by_literal': 1, 'by_param': 0, 'frame': 1, 'note': '', 'read_back': '\\u0041', 'stored_raw': '\\\\u0041', 'text': '\\u0041'} *)
Definition w_K1_unicode_escape : c04case := CStr HLiteral [92%N; 117%N; 48%N; 48%N; 52%N; 49%N].
Lemma w_K1_unicode_escape_refuted : spec_C04 w_K1_unicode_escape (run_C04 w_K1_unicode_escape) = false /\ known_C04 w_K1_unicode_escape = [1].
Proof. vm_compute. split; reflexivity. Qed.

(* default : {'default': 'it's', 'note': 'read: near \'s\': syntax error in SELECT \njson_group_array(value->'$') \nFROM (\n    SELECT \n    json_object(\n    'name',_json->'$.32',\n    't',Ifnull(_json->'$.33',?1)) as value\n    FROM _node S\n    WHERE \n    S._entity='0' AND \n    CASE\n        WHEN 'it's' = ? *)
Definition w_K2_default_quote : c04case := CDefault (Build_emodel [83%N] [48%N] [(Build_fdef [110%N; 97%N; 109%N; 101%N] [51%N; 50%N] TStr false None); (Build_fdef [116%N] [51%N; 51%N] TStr false (Some (VStr [105%N; 116%N; 39%N; 115%N]))); (Build_fdef [110%N] [51%N; 52%N] TInt false (Some (VInt 3)))]) (Build_query None [(Build_selfield 0 None); (Build_selfield 1 None)] [(Build_qfilter (FByName 1) OEq (OLit (VStr [103%N; 105%N; 118%N; 101%N; 110%N])))] [] (OLit (VInt 0)) None PNone).
Lemma w_K2_default_quote_refuted : spec_C04 w_K2_default_quote (run_C04 w_K2_default_quote) = false /\ known_C04 w_K2_default_quote = [2].
Proof. vm_compute. split; reflexivity. Qed.

(* default : {'default': '' OR '1'='1', 'note': '', 'query': 'query { S (t = \'given\') { name t } }', 'sql': 'SELECT json_group_array(value->'$')FROM(SELECT json_object('name',_json->'$.32','t',Ifnull(_json->'$.33',?1))as value FROM _node S WHERE S._entity='0' AND CASE WHEN '' OR '1'='1' = ?2 THEN _json->>'$.33 *)
Definition w_K2_default_injection : c04case := CDefault (Build_emodel [83%N] [48%N] [(Build_fdef [110%N; 97%N; 109%N; 101%N] [51%N; 50%N] TStr false None); (Build_fdef [116%N] [51%N; 51%N] TStr false (Some (VStr [39%N; 32%N; 79%N; 82%N; 32%N; 39%N; 49%N; 39%N; 61%N; 39%N; 49%N]))); (Build_fdef [110%N] [51%N; 52%N] TInt false (Some (VInt 3)))]) (Build_query None [(Build_selfield 0 None); (Build_selfield 1 None)] [(Build_qfilter (FByName 1) OEq (OLit (VStr [103%N; 105%N; 118%N; 101%N; 110%N])))] [] (OLit (VInt 0)) None PNone).
Lemma w_K2_default_injection_refuted : spec_C04 w_K2_default_injection (run_C04 w_K2_default_injection) = false /\ known_C04 w_K2_default_injection = [2].
Proof. vm_compute. split; reflexivity. Qed.

(* shape : {'neutral': 'query { S (b = \'x\', name = $dd) { name b } }', 'query': 'query { S (b = \'dd\', name = $dd) { name b } }', 'sql': 'SELECT json_group_array(value->'$')FROM(SELECT json_object('name',_json->'$.32','b',_json->'$.33')as value FROM _node S WHERE S._entity='0' AND _json->>'$.33' = ?1 AND _j *)
Definition w_K3_capture : c04case := CShape (Build_emodel [83%N] [48%N] [(Build_fdef [110%N; 97%N; 109%N; 101%N] [51%N; 50%N] TStr false None); (Build_fdef [98%N] [51%N; 51%N] TStr true None); (Build_fdef [99%N] [51%N; 52%N] TStr false (Some (VStr [100%N; 100%N]))); (Build_fdef [110%N] [51%N; 53%N] TInt false None)]) (Build_query None [(Build_selfield 0 None); (Build_selfield 1 None)] [(Build_qfilter (FByName 1) OEq (OLit (VStr [100%N; 100%N]))); (Build_qfilter (FByName 0) OEq (OVar [100%N; 100%N]))] [] (OLit (VInt 0)) None PNone).
Lemma w_K3_capture_refuted : spec_C04 w_K3_capture (run_C04 w_K3_capture) = false /\ known_C04 w_K3_capture = [3].
Proof. vm_compute. split; reflexivity. Qed.

(* float : {'by_literal': 0, 'by_param': 1, 'digits': 16, 'literal': '6.759302089509944e17', 'note': '', 'read_back_raw': '6.759302089509944e+17', 'stored_raw': '6.759302089509944e+17', 'value': '6.759302089509944e17'} *)
Definition w_K4_float_display : c04case := CFlt HParam 4873671901944935820 4873671901944935820 false.
Lemma w_K4_float_display_refuted : spec_C04 w_K4_float_display (run_C04 w_K4_float_display) = false /\ known_C04 w_K4_float_display = [4].
Proof. vm_compute. split; reflexivity. Qed.

(* directed-literal-escaped-quote-ok : {'by_literal': 1, 'by_param': 1, 'frame': 1, 'note': '', 'read_back': 'say \'hi\'', 'stored_raw': 'say \\\'hi\\\'', 'text': 'say \\\'hi\\\''} *)
Definition w_ok_escaped_quote : c04case := CStr HLiteral [115%N; 97%N; 121%N; 32%N; 92%N; 34%N; 104%N; 105%N; 92%N; 34%N].
Lemma w_ok_escaped_quote_ok : spec_C04 w_ok_escaped_quote (run_C04 w_ok_escaped_quote) = true /\ known_C04 w_ok_escaped_quote = [].
Proof. vm_compute. split; reflexivity. Qed.

(* directed-param-sql : {'by_literal': 1, 'by_param': 1, 'frame': 1, 'note': '', 'read_back': ''; DROP TABLE _node; --', 'stored_raw': ''; DROP TABLE _node; --', 'text': ''; DROP TABLE _node; --'} *)
Definition w_ok_param_sql : c04case := CStr HParam [39%N; 59%N; 32%N; 68%N; 82%N; 79%N; 80%N; 32%N; 84%N; 65%N; 66%N; 76%N; 69%N; 32%N; 95%N; 110%N; 111%N; 100%N; 101%N; 59%N; 32%N; 45%N; 45%N].
Lemma w_ok_param_sql_ok : spec_C04 w_ok_param_sql (run_C04 w_ok_param_sql) = true /\ known_C04 w_ok_param_sql = [].
Proof. vm_compute. split; reflexivity. Qed.

(* default : {'default': 'dd', 'note': '', 'query': 'query { S (t = \'given\') { name t } }', 'sql': 'SELECT json_group_array(value->'$')FROM(SELECT json_object('name',_json->'$.32','t',Ifnull(_json->'$.33',?1))as value FROM _node S WHERE S._entity='0' AND CASE WHEN 'dd' = ?2 THEN _json->>'$.33' = ?2 OR _json->> *)
Definition w_ok_default_paired : c04case := CDefault (Build_emodel [83%N] [48%N] [(Build_fdef [110%N; 97%N; 109%N; 101%N] [51%N; 50%N] TStr false None); (Build_fdef [116%N] [51%N; 51%N] TStr false (Some (VStr [100%N; 100%N]))); (Build_fdef [110%N] [51%N; 52%N] TInt false (Some (VInt 3)))]) (Build_query None [(Build_selfield 0 None); (Build_selfield 1 None)] [(Build_qfilter (FByName 1) OEq (OLit (VStr [103%N; 105%N; 118%N; 101%N; 110%N])))] [] (OLit (VInt 0)) None PNone).
Lemma w_ok_default_paired_ok : spec_C04 w_ok_default_paired (run_C04 w_ok_default_paired) = true /\ known_C04 w_ok_default_paired = [].
Proof. vm_compute. split; reflexivity. Qed.

(* shape : {'neutral': 'query { S (name = \'x\') { name } }', 'query': 'query { S (name = \''; DROP TABLE _node; --\') { name } }', 'sql': 'SELECT json_group_array(value->'$')FROM(SELECT json_object('name',_json->'$.32')as value FROM _node S WHERE S._entity='0' AND _json->>'$.32' = ?1)', 'sql_neutral': 'SELECT *)
Definition w_ok_shape : c04case := CShape (Build_emodel [83%N] [48%N] [(Build_fdef [110%N; 97%N; 109%N; 101%N] [51%N; 50%N] TStr false None); (Build_fdef [98%N] [51%N; 51%N] TStr true None); (Build_fdef [99%N] [51%N; 52%N] TStr false (Some (VStr [100%N; 100%N]))); (Build_fdef [110%N] [51%N; 53%N] TInt false None)]) (Build_query None [(Build_selfield 0 None)] [(Build_qfilter (FByName 0) OEq (OLit (VStr [39%N; 59%N; 32%N; 68%N; 82%N; 79%N; 80%N; 32%N; 84%N; 65%N; 66%N; 76%N; 69%N; 32%N; 95%N; 110%N; 111%N; 100%N; 101%N; 59%N; 32%N; 45%N; 45%N])))] [] (OLit (VInt 0)) None PNone).
Lemma w_ok_shape_ok : spec_C04 w_ok_shape (run_C04 w_ok_shape) = true /\ known_C04 w_ok_shape = [].
Proof. vm_compute. split; reflexivity. Qed.
