(* C04Wit.v — closed witnesses: directed cases of harness/src/bin/c04.rs as Gallina terms, the model's verdict
   checked by vm_compute.  The same cases are replayed on the real code on every run.
   (snapshot of the harness output; regenerate with tools/c04_genwit.py if the directed cases change) *)
From DV Require Import Run_C04.
Open Scope Z_scope.

(* directed-K1-literal-backslash : {'by_literal': 1, 'by_param': 1, 'frame': 1, 'generator': ['ascii: 554 cases, 0 refused, 0 frame violations', 'bool: 4 cases, 0 refused, 0 frame violations', 'default: 120 cases, 0 refused, 0 frame violations', 'directed: 11 cases, 0 refused, 0 frame violations', 'float: 210 cases, 0 refused, 0 fram *)
Definition w_K1_literal_backslash : c04case := CStr HLiteral [97%N; 92%N; 92%N; 98%N].
Lemma w_K1_literal_backslash_holds : spec_C04 w_K1_literal_backslash (run_C04 w_K1_literal_backslash) = true /\ known_C04 w_K1_literal_backslash = [].
Proof. vm_compute. split; reflexivity. Qed.

(* directed-K1-param-backslash-literal-filter : {'by_literal': 1, 'by_param': 1, 'frame': 1, 'note': '', 'read_back': 'a\\b', 'stored_raw': 'a\\\\b', 'text': 'a\\b'} *)
Definition w_K1_param_backslash : c04case := CStr HParam [97%N; 92%N; 98%N].
Lemma w_K1_param_backslash_holds : spec_C04 w_K1_param_backslash (run_C04 w_K1_param_backslash) = true /\ known_C04 w_K1_param_backslash = [].
Proof. vm_compute. split; reflexivity. Qed.

(* directed-K1-literal-unicode-escape : {'by_literal': 1, 'by_param': 1, 'frame': 1, 'note': '', 'read_back': 'A', 'stored_raw': 'A', 'text': '\\u0041'} *)
Definition w_K1_unicode_escape : c04case := CStr HLiteral [92%N; 117%N; 48%N; 48%N; 52%N; 49%N].
Lemma w_K1_unicode_escape_holds : spec_C04 w_K1_unicode_escape (run_C04 w_K1_unicode_escape) = true /\ known_C04 w_K1_unicode_escape = [].
Proof. vm_compute. split; reflexivity. Qed.

(* directed-literal-surrogate-pair : {'by_literal': 1, 'by_param': 1, 'frame': 1, 'note': '', 'read_back': '\ud83d\ude00', 'stored_raw': '\ud83d\ude00', 'text': '\\ud83d\\ude00'} *)
Definition w_surrogate_pair : c04case := CStr HLiteral [92%N; 117%N; 100%N; 56%N; 51%N; 100%N; 92%N; 117%N; 100%N; 101%N; 48%N; 48%N].
Lemma w_surrogate_pair_holds : spec_C04 w_surrogate_pair (run_C04 w_surrogate_pair) = true /\ known_C04 w_surrogate_pair = [].
Proof. vm_compute. split; reflexivity. Qed.

(* directed-literal-lone-high-surrogate : {'by_literal': 1, 'by_param': 1, 'frame': 1, 'note': '', 'read_back': 'a\ufffdb', 'stored_raw': 'a\ufffdb', 'text': 'a\\ud83db'} *)
Definition w_lone_surrogate : c04case := CStr HLiteral [97%N; 92%N; 117%N; 100%N; 56%N; 51%N; 100%N; 98%N].
Lemma w_lone_surrogate_holds : spec_C04 w_lone_surrogate (run_C04 w_lone_surrogate) = true /\ known_C04 w_lone_surrogate = [].
Proof. vm_compute. split; reflexivity. Qed.

(* default : {'default': 'it's', 'note': '', 'query': 'query { S (t = \'given\') { name t } }', 'sql': 'SELECT json_group_array(value->'$')FROM(SELECT json_object('name',_json->'$.32','t',Ifnull(_json->'$.33',?1))as value FROM _node \'S\' WHERE \'S\'._entity='0' AND CASE WHEN ?3 = ?2 THEN _json->>'$.33' = ?2 OR  *)
Definition w_K2_default_quote : c04case := CDefault (Build_emodel [83%N] [48%N] [(Build_fdef [110%N; 97%N; 109%N; 101%N] [51%N; 50%N] TStr false None); (Build_fdef [116%N] [51%N; 51%N] TStr false (Some (VStr [105%N; 116%N; 39%N; 115%N]))); (Build_fdef [110%N] [51%N; 52%N] TInt false (Some (VInt 3)))]) (Build_query None [(Build_selfield 0 None); (Build_selfield 1 None)] [(Build_qfilter (FByName 1) OEq (OLit (VStr [103%N; 105%N; 118%N; 101%N; 110%N])))] [] (OLit (VInt 0)) None PNone).
Lemma w_K2_default_quote_holds : spec_C04 w_K2_default_quote (run_C04 w_K2_default_quote) = true /\ known_C04 w_K2_default_quote = [].
Proof. vm_compute. split; reflexivity. Qed.

(* default : {'default': '' OR '1'='1', 'note': '', 'query': 'query { S (t = \'given\') { name t } }', 'sql': 'SELECT json_group_array(value->'$')FROM(SELECT json_object('name',_json->'$.32','t',Ifnull(_json->'$.33',?1))as value FROM _node \'S\' WHERE \'S\'._entity='0' AND CASE WHEN ?3 = ?2 THEN _json->>'$.33' = *)
Definition w_K2_default_injection : c04case := CDefault (Build_emodel [83%N] [48%N] [(Build_fdef [110%N; 97%N; 109%N; 101%N] [51%N; 50%N] TStr false None); (Build_fdef [116%N] [51%N; 51%N] TStr false (Some (VStr [39%N; 32%N; 79%N; 82%N; 32%N; 39%N; 49%N; 39%N; 61%N; 39%N; 49%N]))); (Build_fdef [110%N] [51%N; 52%N] TInt false (Some (VInt 3)))]) (Build_query None [(Build_selfield 0 None); (Build_selfield 1 None)] [(Build_qfilter (FByName 1) OEq (OLit (VStr [103%N; 105%N; 118%N; 101%N; 110%N])))] [] (OLit (VInt 0)) None PNone).
Lemma w_K2_default_injection_holds : spec_C04 w_K2_default_injection (run_C04 w_K2_default_injection) = true /\ known_C04 w_K2_default_injection = [].
Proof. vm_compute. split; reflexivity. Qed.

(* shape : {'neutral': 'query { S (b = \'x\', name = $dd) { name b } }', 'query': 'query { S (b = \'dd\', name = $dd) { name b } }', 'sql': 'SELECT json_group_array(value->'$')FROM(SELECT json_object('name',_json->'$.32','b',_json->'$.33')as value FROM _node \'S\' WHERE \'S\'._entity='0' AND _json->>'$.33' = ? *)
Definition w_K3_capture : c04case := CShape (Build_emodel [83%N] [48%N] [(Build_fdef [110%N; 97%N; 109%N; 101%N] [51%N; 50%N] TStr false None); (Build_fdef [98%N] [51%N; 51%N] TStr true None); (Build_fdef [99%N] [51%N; 52%N] TStr false (Some (VStr [100%N; 100%N]))); (Build_fdef [110%N] [51%N; 53%N] TInt false None)]) (Build_query None [(Build_selfield 0 None); (Build_selfield 1 None)] [(Build_qfilter (FByName 1) OEq (OLit (VStr [100%N; 100%N]))); (Build_qfilter (FByName 0) OEq (OVar [100%N; 100%N]))] [] (OLit (VInt 0)) None PNone).
Lemma w_K3_capture_holds : spec_C04 w_K3_capture (run_C04 w_K3_capture) = true /\ known_C04 w_K3_capture = [].
Proof. vm_compute. split; reflexivity. Qed.

(* float-directed : {'by_literal': 1, 'by_param': 1, 'digits': 16, 'literal': '8.407903850944054e17', 'note': '', 'read_back_raw': '8.407903850944054e+17', 'stored_raw': '8.407903850944054e+17', 'value': '8.407903850944054e17'} *)
Definition w_K4_float_display : c04case := CFlt HParam 4874959872071056218 4874959872071056218.
Lemma w_K4_float_display_holds : spec_C04 w_K4_float_display (run_C04 w_K4_float_display) = true /\ known_C04 w_K4_float_display = [].
Proof. vm_compute. split; reflexivity. Qed.

(* directed-literal-escaped-quote-ok : {'by_literal': 1, 'by_param': 1, 'frame': 1, 'note': '', 'read_back': 'say \'hi\'', 'stored_raw': 'say \\\'hi\\\'', 'text': 'say \\\'hi\\\''} *)
Definition w_ok_escaped_quote : c04case := CStr HLiteral [115%N; 97%N; 121%N; 32%N; 92%N; 34%N; 104%N; 105%N; 92%N; 34%N].
Lemma w_ok_escaped_quote_holds : spec_C04 w_ok_escaped_quote (run_C04 w_ok_escaped_quote) = true /\ known_C04 w_ok_escaped_quote = [].
Proof. vm_compute. split; reflexivity. Qed.

(* directed-param-sql : {'by_literal': 1, 'by_param': 1, 'frame': 1, 'note': '', 'read_back': ''; DROP TABLE _node; --', 'stored_raw': ''; DROP TABLE _node; --', 'text': ''; DROP TABLE _node; --'} *)
Definition w_ok_param_sql : c04case := CStr HParam [39%N; 59%N; 32%N; 68%N; 82%N; 79%N; 80%N; 32%N; 84%N; 65%N; 66%N; 76%N; 69%N; 32%N; 95%N; 110%N; 111%N; 100%N; 101%N; 59%N; 32%N; 45%N; 45%N].
Lemma w_ok_param_sql_holds : spec_C04 w_ok_param_sql (run_C04 w_ok_param_sql) = true /\ known_C04 w_ok_param_sql = [].
Proof. vm_compute. split; reflexivity. Qed.
