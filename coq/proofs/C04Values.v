(* C04Values.v — Json and Base64 fields (an assignment replaces the stored value), identifiers and quoting. *)
From DV Require Import Codec Sql Run_C04 C05Order C04Shape.
Open Scope list_scope.

(* ---------- an assignment replaces the member and touches no other member (get_mutate_query: obj.insert) ---------- *)
Theorem obj_lookup_insert_same : forall k v o, obj_lookup k (obj_insert k v o) = Some v.
Proof.
  intros k v o. induction o as [|[k' v'] t IH]; cbn [obj_insert obj_lookup].
  - rewrite str_eqb_refl'. reflexivity.
  - destruct (str_eqb k' k) eqn:E; cbn [obj_lookup]. rewrite str_eqb_refl'. reflexivity. rewrite E. exact IH.
Qed.

Theorem obj_lookup_insert_other : forall k k' v o, str_eqb k k' = false -> obj_lookup k' (obj_insert k v o) = obj_lookup k' o.
Proof.
  intros k k' v o Hne. induction o as [|[k0 v0] t IH]; cbn [obj_insert obj_lookup].
  - rewrite Hne. reflexivity.
  - destruct (str_eqb k0 k) eqn:E; cbn [obj_lookup].
    + apply str_eqb_eq in E. subst k0. rewrite Hne. reflexivity.
    + destruct (str_eqb k0 k'). reflexivity. exact IH.
Qed.

Lemma zlist_refl : forall l, zlist_eqb l l = true.
Proof. apply zlist_eqb_refl. Qed.

(* a Json value assigned to a field - whatever the field held before - is what is read back; the neighbour is untouched *)
Theorem json_roundtrip_holds : forall h upd nf prev v,
  spec_C04 (CJson h upd nf prev v) (run_C04 (CJson h upd nf prev v)) = true.
Proof.
  intros h upd nf prev v. cbn [spec_C04 run_C04]. unfold run_json.
  assert (Hj : obj_lookup key_j (json_after prev v) = Some v) by (unfold json_after; apply obj_lookup_insert_same).
  assert (Ho : obj_lookup key_o (json_after prev v) = Some (JInt 7)).
  { unfold json_after. rewrite obj_lookup_insert_other by reflexivity.
    destruct prev as [p|]. rewrite obj_lookup_insert_other by reflexivity. reflexivity. reflexivity. }
  destruct v; destruct nf; try (rewrite Hj, Ho; apply zlist_refl); destruct h; reflexivity.
Qed.

Theorem b64_holds : forall h upd w, spec_C04 (CB64 h upd w) (run_C04 (CB64 h upd w)) = true.
Proof.
  intros h upd w. cbn [spec_C04 run_C04]. unfold run_b64. destruct (b64_valid w). apply zlist_refl. destruct h; reflexivity.
Qed.

(* ---------- identifiers ---------- *)
(* from the grammar (LETTER | NUMBER | _): no quote, no space, no SQL punctuation can occur in an alias *)
Theorem ident_no_special : forall a c, ident_ok a = true -> In c a ->
  c <> 34%N /\ c <> 39%N /\ c <> 32%N /\ c <> 59%N /\ c <> 45%N /\ c <> 40%N /\ c <> 41%N /\ c <> 92%N.
Proof.
  intros a c H Hin. unfold ident_ok in H. apply andb_prop in H. destruct H as [H _]. apply andb_prop in H. destruct H as [_ H].
  rewrite forallb_forall in H. specialize (H c Hin).
  repeat split; intros ->; vm_compute in H; discriminate.
Qed.

(* a quoted identifier without a double quote inside is one token of the statement, whatever its characters *)
Lemma skeleton2_inside : forall s rest, ~ In 34%N s -> skeleton2 (s ++ 34%N :: rest) 34 = 34%N :: skeleton2 rest 0 \/
                                         exists c t, rest = c :: t /\ c = 34%N.
Proof.
  induction s as [|x s IH]; intros rest Hn.
  - cbn [app skeleton2]. rewrite N.eqb_refl. cbn [N.eqb].
    destruct rest as [|c t]. left. reflexivity.
    destruct (N.eqb c 34) eqn:E. right. apply N.eqb_eq in E. eauto. left. reflexivity.
  - cbn [app skeleton2]. assert (Hx : N.eqb x 34 = false). { apply N.eqb_neq. intros ->. apply Hn. left. reflexivity. }
    cbn [N.eqb]. rewrite Hx. apply IH. intros Hc. apply Hn. right. exact Hc.
Qed.

Definition quoted (a : str) : str := 34%N :: a ++ [34%N].
Theorem quoted_ident_token : forall a rest, ident_ok a = true -> (forall c t, rest = c :: t -> c <> 34%N) ->
  skeleton2 (quoted a ++ rest) 0 = 34%N :: 34%N :: skeleton2 rest 0.
Proof.
  intros a rest Hok Hrest. unfold quoted. rewrite <- app_comm_cons. rewrite <- app_assoc. cbn [app].
  change (skeleton2 (34%N :: a ++ 34%N :: rest) 0) with (34%N :: skeleton2 (a ++ 34%N :: rest) 34). f_equal.
  destruct (skeleton2_inside a rest) as [H|(c & t & -> & ->)].
  - intros Hin. destruct (ident_no_special a 34%N Hok Hin) as [Hc _]. congruence.
  - exact H.
  - exfalso. eapply Hrest; reflexivity.
Qed.

(* search terms: the model says the statement does not depend on the term (it is a bound parameter) and that a
   term made of plain words is accepted; what FTS5 makes of any other term is not modelled (class 5) *)
Theorem search_partial : forall t acc, plain_term t = true -> spec_C04 (CSearch t acc) (run_C04 (CSearch t acc)) = true.
Proof. intros t acc H. cbn [spec_C04 run_C04]. rewrite H. reflexivity. Qed.

Theorem search_outside_known : forall t acc, known_C04 (CSearch t acc) = [] -> spec_C04 (CSearch t acc) (run_C04 (CSearch t acc)) = true.
Proof. intros t acc H. apply search_partial. cbn [known_C04] in H. destruct (plain_term t). reflexivity. discriminate. Qed.

(* the statement of a search query does not depend on the term at all: the model's verdict on the text is the constant 1 *)
Theorem search_text_independent : forall t t' acc acc', hd 0%Z (run_C04 (CSearch t acc)) = hd 0%Z (run_C04 (CSearch t' acc')).
Proof. reflexivity. Qed.

(* 6a15d74: the default of a Json field is returned as the JSON value *)
Theorem json_default_holds : forall txt d, spec_C04 (CJsonDefault txt d) (run_C04 (CJsonDefault txt d)) = true.
Proof. intros txt d. cbn [spec_C04 run_C04]. apply zlist_refl. Qed.

(* ---------- updates over a stored value; the service and earlier requests ---------- *)
(* the answer the model gives for an update does not depend on the value stored before: there is no state in which a
   write of a different (or of the same) value is not carried out *)
Theorem upd_independent_of_old : forall h ty old old' new, run_C04 (CUpd h ty old new) = run_C04 (CUpd h ty old' new).
Proof. reflexivity. Qed.
Theorem upd_holds : forall h ty old new, spec_C04 (CUpd h ty old new) (run_C04 (CUpd h ty old new)) = true.
Proof. intros. cbn [spec_C04 run_C04]. apply zlist_refl. Qed.

(* the value a request writes is the value its own literal denotes, whatever requests were handled before or after it *)
Theorem svc_stateless : forall pre l post, nth (List.length pre) (svc_values (pre ++ l :: post)) [] = decode_literal l.
Proof.
  intros pre l post. unfold svc_values. rewrite map_app. cbn [map].
  rewrite app_nth2; rewrite map_length; [|apply Nat.le_refl]. rewrite Nat.sub_diag. reflexivity.
Qed.
Theorem svc_holds : forall lits, spec_C04 (CSvc lits) (run_C04 (CSvc lits)) = true.
Proof. intros. cbn [spec_C04 run_C04]. apply zlist_refl. Qed.
