(* C12P.v — proofs for C12: the local validation functions (Authz.v) and the peer-side ones
   (AuthzRemote.v) give the same verdict on the same operation, outside the delimited classes. *)
From DV Require Import RightsP Run_C01 C01P Run_C02 C02P Run_C12.

(* ------------------------------------------------------------------ rows: local head vs validate_node *)
Definition old_room_of (h : mhead) : option uid := match h_old h with Some o => o_room o | None => None end.
Definition old_author_of (h : mhead) : option key := match h_old h with Some o => Some (o_author o) | None => None end.

(* the local head check is the peer's validate_node on the row as received, plus the check of the
   references the mutation removes (in the room entered) *)
Lemma node_agree me now rooms h rid :
  h_kind h = KNormal -> h_has_node h = true -> h_room h = Some rid ->
  (check_head me now rooms h = None <->
   validate_node rooms (sent_row me h) (old_room_of h) (old_author_of h) = true /\
   match find_room rooms rid with Some r => dels_ok me now r h = true | None => False end).
Proof.
  intros Hk Hn Hr. unfold check_head, validate_node, old_room_of, old_author_of, sent_row. cbn [n_too_big n_room n_ent n_author n_mdate].
  rewrite Hk, Hn, Hr. cbn [negb].
  destruct (h_too_big h); [split; [discriminate|intros [H _]; discriminate]|].
  destruct (h_old h) as [o|]; cbn [required_right].
  - destruct (find_room rooms rid) as [r|] eqn:Er.
    + destruct (o_room o) as [orid|].
      * destruct (N.eqb orid rid) eqn:Ee; cbn [negb].
        -- destruct (can r me (h_ent h) (h_date h) (needed (N.eqb (o_author o) me))); [|split; [discriminate|intros [H _]; discriminate]].
           destruct (dels_ok me now r h); split; try discriminate; try tauto. intros [_ H]. discriminate.
        -- destruct (find_room rooms orid) as [oroom|]; [|split; [discriminate|intros [H _]; discriminate]].
           destruct (can oroom me (h_ent h) (h_date h) (needed (N.eqb (o_author o) me))); cbn [negb]; [|split; [discriminate|intros [H _]; discriminate]].
           destruct (can r me (h_ent h) (h_date h) (needed (N.eqb (o_author o) me))); [|split; [discriminate|intros [H _]; discriminate]].
           destruct (dels_ok me now r h); split; try discriminate; try tauto. intros [_ H]. discriminate.
      * cbn [negb]. destruct (can r me (h_ent h) (h_date h) (needed (N.eqb (o_author o) me))); [|split; [discriminate|intros [H _]; discriminate]].
        destruct (dels_ok me now r h); split; try discriminate; try tauto. intros [_ H]. discriminate.
    + split; [discriminate|]. intros [_ []].
  - cbn [negb]. destruct (find_room rooms rid) as [r|]; [|split; [discriminate|intros [_ []]]].
    destruct (can r me (h_ent h) (h_date h) MutateSelf); [|split; [discriminate|intros [H _]; discriminate]].
    destruct (dels_ok me now r h); split; try discriminate; try tauto. intros [_ H]. discriminate.
Qed.

Lemma validate_entity_single me now rooms h :
  validate_entity me now rooms (MEnt h []) = VOk <-> check_head me now rooms h = None.
Proof.
  simpl. destruct (check_head me now rooms h) as [v|] eqn:E; split; try congruence; try discriminate.
  intros ->. exfalso. eapply check_head_not_ok; eauto.
Qed.

(* a local acceptance of a row in a room implies the own-rows right there (rooms built from histories) *)
Lemma can_all_self_built defs rid r k e d :
  find_room (build_rooms defs) rid = Some r -> can r k e d MutateAll = true -> can r k e d MutateSelf = true.
Proof.
  intros Hr Hc. destruct (find_room_build _ _ _ Hr) as [_ Hg]. rewrite Hg in *. apply granted_all_self; assumption.
Qed.
Lemma can_needed_self_built defs rid r k e d b :
  find_room (build_rooms defs) rid = Some r -> can r k e d (needed b) = true -> can r k e d MutateSelf = true.
Proof. destruct b; simpl; [tauto|apply can_all_self_built]. Qed.

(* a row the peer accepts: its author has the own-rows right in the room entered *)
Lemma sent_ok_can defs me h rid :
  h_room h = Some rid ->
  validate_node (build_rooms defs) (sent_row me h) (old_room_of h) (old_author_of h) = true ->
  exists r, find_room (build_rooms defs) rid = Some r /\ can r me (h_ent h) (h_date h) MutateSelf = true.
Proof.
  intros Hr. unfold validate_node, sent_row. cbn [n_too_big n_room n_ent n_author n_mdate]. rewrite Hr.
  destruct (h_too_big h); [discriminate|].
  match goal with |- (if negb ?d then _ else _) = true -> _ => destruct d; cbn [negb]; [|discriminate] end.
  destruct (find_room (build_rooms defs) rid) as [r|] eqn:Er; [|discriminate]. intros Hc. exists r. split; [reflexivity|].
  unfold required_right, old_author_of in Hc. destruct (h_old h) as [o|]; [eapply can_needed_self_built; eauto|exact Hc].
Qed.

(* ------------------------------------------------------------------ counting *)
Lemma count_all {A} (p : A -> bool) l : forallb p l = true -> count p l = Z.of_nat (length l).
Proof.
  unfold count. intros H. f_equal. induction l as [|a t IH]; simpl in *; [reflexivity|].
  apply andb_prop in H. destruct H as [Ha Ht]. rewrite Ha. simpl. f_equal. auto.
Qed.
Lemma filter_len_le {A} (p : A -> bool) l : (length (filter p l) <= length l)%nat.
Proof. induction l as [|a t IH]; simpl; [lia|]. destruct (p a); simpl; lia. Qed.
Lemma count_not_all {A} (p : A -> bool) l : forallb p l = false -> count p l <> Z.of_nat (length l).
Proof.
  unfold count. intros H E. apply Nat2Z.inj in E. revert H E. induction l as [|a t IH]; simpl; [discriminate|].
  intros H E. destruct (p a) eqn:Pa; simpl in *.
  - apply IH; [assumption|lia].
  - pose proof (filter_len_le p t). lia.
Qed.
Lemma forallb_ext_in' {A} (p q : A -> bool) l : (forall x, In x l -> p x = q x) -> forallb p l = forallb q l.
Proof. induction l as [|a t IH]; simpl; intros H; [reflexivity|]. rewrite (H a (or_introl eq_refl)), IH; auto. Qed.
Lemma length_upto n : length (upto n) = n.
Proof. induction n; simpl; [reflexivity|]. rewrite app_length, IHn. simpl. lia. Qed.
Lemma length_numbered {A} (l : list A) : forall n, length (numbered n l) = length l.
Proof. induction l; simpl; intros; [reflexivity|]. rewrite IHl. reflexivity. Qed.
Lemma numbered_ge {A} (l : list A) : forall n p, In p (numbered n l) -> (n <= fst p)%N.
Proof.
  induction l as [|a t IH]; simpl; intros n p H; [contradiction|]. destruct H as [<-|H]; [simpl; lia|].
  apply IH in H. lia.
Qed.
Lemma numbered_fst_inj {A} (l : list A) : forall n p q, In p (numbered n l) -> In q (numbered n l) -> fst p = fst q -> p = q.
Proof.
  induction l as [|a t IH]; simpl; intros n p q Hp Hq He; [contradiction|].
  destruct Hp as [<-|Hp], Hq as [<-|Hq].
  - reflexivity.
  - apply numbered_ge in Hq. simpl in He. lia.
  - apply numbered_ge in Hp. simpl in He. lia.
  - eapply IH; eauto.
Qed.
Lemma count_map {A B} (p : B -> bool) (f : A -> B) l : count p (map f l) = count (fun x => p (f x)) l.
Proof. unfold count. f_equal. induction l as [|a t IH]; simpl; [reflexivity|]. destruct (p (f a)); simpl; rewrite IH; reflexivity. Qed.
Lemma count_ext_in {A} (p q : A -> bool) l : (forall x, In x l -> p x = q x) -> count p l = count q l.
Proof.
  unfold count. intros H. f_equal. induction l as [|a t IH]; simpl; [reflexivity|].
  rewrite (H a (or_introl eq_refl)). destruct (q a); simpl; rewrite IH; auto; intros; apply H; simpl; auto.
Qed.
Lemma count_numbered_snd {A} (p : A -> bool) (l : list A) : forall n, count (fun x => p (snd x)) (numbered n l) = count p l.
Proof.
  unfold count. intros n. f_equal. revert n. induction l as [|a t IH]; intros n; simpl; [reflexivity|].
  destruct (p a); simpl; rewrite IH; reflexivity.
Qed.

(* ------------------------------------------------------------------ CWrite *)
Definition peer_knows (dm : dmodel) (e : entity) : bool :=
  match fields_of dm e with Some fs => conform fs good_json | None => false end.

Lemma accept_sent_row defs dm me h rm rid :
  h_room h = Some rid -> peer_knows dm (h_ent h) = true ->
  accept_node (build_rooms defs) dm rid (peer_store h rm) (sent_row me h) =
  validate_node (build_rooms defs) (sent_row me h) (old_room_of h) (old_author_of h).
Proof.
  intros Hr Hp. unfold accept_node, prefilter. cbn [sent_row n_room n_ent n_json n_id]. rewrite Hr, N.eqb_refl.
  unfold peer_knows in Hp. destruct (fields_of dm (h_ent h)); [|discriminate]. rewrite Hp. cbn [andb].
  unfold lookup_node, peer_store, old_row, old_room_of, old_author_of. cbn [s_nodes].
  destruct (h_old h) as [o|]; cbn [find n_id n_room n_author]; reflexivity.
Qed.

(* the peer's verdict on the tombstone of the i-th removed reference: the own-rows right if the
   caller wrote that reference, the all-rows right otherwise *)
Lemma tombstone_verdict defs me h rid r p :
  find_room (build_rooms defs) rid = Some r -> In p (numbered 0%N (h_edge_dels h)) ->
  edel_ok (build_rooms defs) (peer_store h (h_edge_dels h)) (ref_tombstone me rid (h_date h) (stored_ref h p)) =
  can r me (h_ent h) (h_date h) (needed (N.eqb (snd p) me)).
Proof.
  intros Er Hp. unfold edel_ok, ref_tombstone. cbn [ed_ent ed_room ed_author ed_date stored_ref e_ent]. rewrite Er.
  match goal with |- can r me _ _ ?t = _ => assert (Ht : t = needed (N.eqb (snd p) me)) end; [|rewrite Ht; reflexivity].
  destruct (find _ _) as [ex|] eqn:Ef.
  - apply find_some in Ef. destruct Ef as [Hin Hhit].
    unfold peer_store in Hin. cbn [s_edges] in Hin. apply in_map_iff in Hin. destruct Hin as [q [<- Hq]].
    unfold edge_hit in Hhit. cbn [ed_src ed_ent ed_label ed_dest ed_cdate stored_ref e_src e_ent e_label e_dest e_cdate] in Hhit.
    apply andb_prop in Hhit. destruct Hhit as [Hhit _]. apply andb_prop in Hhit. destruct Hhit as [_ Hdest].
    apply N.eqb_eq in Hdest. assert (Hfst : fst q = fst p) by (eapply N.add_cancel_l; exact Hdest).
    rewrite (numbered_fst_inj _ 0%N q p Hq Hp Hfst). unfold stored_ref. cbn [e_author]. reflexivity.
  - exfalso. pose proof (find_none _ _ Ef (stored_ref h p)) as Hn.
    assert (Hin : In (stored_ref h p) (s_edges (peer_store h (h_edge_dels h)))).
    { unfold peer_store. cbn [s_edges]. apply in_map. exact Hp. }
    specialize (Hn Hin). unfold edge_hit in Hn.
    cbn [ed_src ed_ent ed_label ed_dest ed_cdate stored_ref e_src e_ent e_label e_dest e_cdate] in Hn.
    rewrite !N.eqb_refl, Z.eqb_refl in Hn. unfold oent_eqb in Hn. cbn [opt_eqb] in Hn. rewrite N.eqb_refl in Hn. discriminate.
Qed.

(* one-row write, references added, references of ANY authors removed: same verdict on both sides *)
Theorem write_agree defs dm me h nadd :
  h_kind h = KNormal -> peer_knows dm (h_ent h) = true ->
  violations12 (CWrite defs dm me h nadd) (run_C12 (CWrite defs dm me h nadd)) = [].
Proof.
  intros Hk Hp. unfold run_C12, run_write_model, violations12, write_sends. rewrite Hk.
  destruct (h_has_node h) eqn:Hn; [|reflexivity].
  destruct (h_room h) as [rid|] eqn:Hr; [|reflexivity].
  rewrite (accept_sent_row defs dm me h (h_edge_dels h) rid Hr Hp).
  pose proof (node_agree me (h_date h) (build_rooms defs) h rid Hk Hn Hr) as Hag.
  pose proof (validate_entity_single me (h_date h) (build_rooms defs) h) as Hsingle.
  destruct (validate_node (build_rooms defs) (sent_row me h) (old_room_of h) (old_author_of h)) eqn:Hval.
  - (* the peer accepts the row *)
    destruct (sent_ok_can defs me h rid Hr Hval) as [r [Er Hself]]. rewrite Er in *.
    cbn [zb Z.eqb andb].
    (* the added references: the row is there, the own-rows right holds *)
    rewrite count_all.
    2:{ apply forallb_forall. intros x Hx. apply in_map_iff in Hx. destruct Hx as [i [<- _]].
        unfold edge_ok, edge_right, added_ref, src_in_room. cbn [e_ent e_author e_cdate e_src s_nodes existsb sent_row n_id n_room n_ent].
        rewrite Hr, N.eqb_refl. cbn [opt_eqb]. rewrite N.eqb_refl. unfold oent_eqb. cbn [opt_eqb]. rewrite N.eqb_refl. cbn [andb orb]. exact Hself. }
    rewrite map_length, length_upto, N_nat_Z, Z.eqb_refl. cbn [andb].
    (* the tombstones: exactly the local check of the removed references *)
    set (f := fun a : key => can r me (h_ent h) (h_date h) (needed (N.eqb a me))).
    assert (Hcount : count (edel_ok (build_rooms defs) (peer_store h (h_edge_dels h)))
                       (map (ref_tombstone me rid (h_date h)) (s_edges (peer_store h (h_edge_dels h)))) = count f (h_edge_dels h)).
    { unfold peer_store at 2. cbn [s_edges]. rewrite !count_map.
      rewrite <- (count_numbered_snd f (h_edge_dels h) 0%N). apply count_ext_in. intros p Hp'.
      apply tombstone_verdict; assumption. }
    rewrite Hcount.
    assert (Hdels : dels_ok me (h_date h) r h = forallb f (h_edge_dels h)).
    { unfold dels_ok, f. apply forallb_ext_in'. intros a _. destruct (N.eqb a me); cbn [needed orb]; [symmetry; exact Hself|reflexivity]. }
    destruct (forallb f (h_edge_dels h)) eqn:Hall.
    + assert (Hv : validate_entity me (h_date h) (build_rooms defs) (MEnt h []) = VOk).
      { apply Hsingle. apply Hag. split; [reflexivity|]. rewrite Hdels. reflexivity. }
      rewrite Hv. cbn [verdict_code Z.eqb]. rewrite (count_all _ _ Hall), Z.eqb_refl. reflexivity.
    + assert (Hv : validate_entity me (h_date h) (build_rooms defs) (MEnt h []) <> VOk).
      { intros E. apply Hsingle in E. apply Hag in E. destruct E as [_ E]. rewrite Hdels in E. discriminate. }
      pose proof (count_not_all _ _ Hall) as Hne. apply Z.eqb_neq in Hne. rewrite Hne.
      destruct (validate_entity me (h_date h) (build_rooms defs) (MEnt h [])); [congruence| | | | |]; reflexivity.
  - (* the peer refuses the row: so does the local path *)
    assert (Hv : validate_entity me (h_date h) (build_rooms defs) (MEnt h []) <> VOk).
    { intros E. apply Hsingle in E. apply Hag in E. destruct E as [E _]. discriminate. }
    cbn [zb Z.eqb andb].
    destruct (validate_entity me (h_date h) (build_rooms defs) (MEnt h [])); [congruence| | | | |]; reflexivity.
Qed.

Lemma req_from_write_arith (l n a t na nd : Z) :
  (if Z.eqb l 0 then (if Z.eqb n 1 && Z.eqb a na && Z.eqb t nd then [] else [0])
   else (if Z.eqb n 1 && Z.eqb a na && Z.eqb t nd then [0] else [])) = @nil Z ->
  (if Z.eqb l 0 then (if Z.eqb n 1 && Z.eqb a na && Z.eqb t nd then [] else [0])
   else (if Z.ltb 0 (1 + na + nd) && (Z.eqb n 1 && Z.eqb a na && Z.eqb t nd) then [0] else [])) = @nil Z.
Proof.
  destruct (Z.eqb l 0); [tauto|]. destruct (Z.eqb n 1 && Z.eqb a na && Z.eqb t nd); [discriminate|].
  intros _. rewrite andb_false_r. reflexivity.
Qed.

(* an update request submitted as text: whatever the glue of get_mutate_query makes of it (row rewritten
   or not, references inserted, references removed), the local verdict and the peer's verdict on exactly
   the rows, references and tombstones produced agree *)
Theorem request_agree defs dm me e room date author other op :
  peer_knows dm e = true ->
  violations12 (CReq defs dm me e room date author other op) (run_C12 (CReq defs dm me e room date author other op)) = [].
Proof.
  intros Hp. set (h := req_head e room date author other op). set (nadd := snd (fst (ref_effect op))).
  pose proof (write_agree defs dm me h nadd eq_refl Hp) as Hw.
  unfold run_C12, violations12 in *. fold h. fold nadd. cbv beta iota in Hw.
  unfold run_write_model in *.
  destruct (write_sends h) as [rid|] eqn:Hs; cbv beta iota zeta in *.
  - apply req_from_write_arith. exact Hw.
  - destruct (Z.eqb _ 0); reflexivity.
Qed.

(* ------------------------------------------------------------------ deletion of a row *)
Lemma check_del_ok_iff me now rooms e rid author r :
  find_room rooms rid = Some r ->
  (check_del me now rooms KNormal e (Some rid) author now = VOk <->
   can r me e now (needed (N.eqb author me)) = true).
Proof.
  intros Hr. unfold check_del. rewrite Hr. destruct (N.eqb author me); cbn [needed];
  destruct (can r me e now _); split; congruence.
Qed.

Theorem delete_row_agree defs me now n :
  dn_date n = now ->
  violations12 (CDelNode defs me now n) (run_C12 (CDelNode defs me now n)) = [].
Proof.
  intros Hd. unfold run_C12, violations12, del_sends. destruct (dn_kind n) eqn:Hk; [|reflexivity].
  destruct (dn_room n) as [rid|] eqn:Hr; [|reflexivity].
  unfold validate_deletion. cbn [validate_dnodes validate_dupd validate_dedges]. rewrite Hk, Hr, Hd.
  unfold ndel_ok, lookup_node, row_of. cbn [nd_ent nd_room nd_id nd_author nd_date s_nodes find n_id n_author]. rewrite N.eqb_refl.
  cbn [n_author n_ent]. unfold oent_eqb. cbn [opt_eqb]. rewrite N.eqb_refl. cbn [andb].
  destruct (find_room (build_rooms defs) rid) as [r|] eqn:Er.
  - pose proof (check_del_ok_iff me now (build_rooms defs) (dn_ent n) rid (dn_author n) r Er) as Hiff.
    destruct (check_del me now (build_rooms defs) KNormal (dn_ent n) (Some rid) (dn_author n) now) eqn:Hc; cbn [verdict_code Z.eqb].
    + rewrite (proj1 Hiff eq_refl). reflexivity.
    + assert (Hf : can r me (dn_ent n) now (needed (N.eqb (dn_author n) me)) = false) by (apply not_true_is_false; intros E; apply Hiff in E; discriminate).
      rewrite Hf. reflexivity.
    + assert (Hf : can r me (dn_ent n) now (needed (N.eqb (dn_author n) me)) = false) by (apply not_true_is_false; intros E; apply Hiff in E; discriminate).
      rewrite Hf. reflexivity.
    + assert (Hf : can r me (dn_ent n) now (needed (N.eqb (dn_author n) me)) = false) by (apply not_true_is_false; intros E; apply Hiff in E; discriminate).
      rewrite Hf. reflexivity.
    + assert (Hf : can r me (dn_ent n) now (needed (N.eqb (dn_author n) me)) = false) by (apply not_true_is_false; intros E; apply Hiff in E; discriminate).
      rewrite Hf. reflexivity.
    + assert (Hf : can r me (dn_ent n) now (needed (N.eqb (dn_author n) me)) = false) by (apply not_true_is_false; intros E; apply Hiff in E; discriminate).
      rewrite Hf. reflexivity.
  - unfold check_del. rewrite Er. reflexivity.
Qed.

(* ------------------------------------------------------------------ deletion of a reference *)
Lemma hit_own_tombstone me rid d e : edge_hit (ref_tombstone me rid d e) e = true.
Proof.
  unfold edge_hit, ref_tombstone. cbn [ed_src ed_ent ed_label ed_dest ed_cdate].
  rewrite !N.eqb_refl, Z.eqb_refl. unfold oent_eqb. destruct (e_ent e); cbn [opt_eqb]; rewrite ?N.eqb_refl; reflexivity.
Qed.

Theorem delete_reference_agree defs me now src ea :
  violations12 (CDelRef defs me now src ea) (run_C12 (CDelRef defs me now src ea)) = [].
Proof.
  unfold run_C12, violations12, del_sends. destruct (dn_kind src) eqn:Hk; [|reflexivity].
  destruct (dn_room src) as [rid|] eqn:Hr; [|reflexivity].
  unfold validate_deletion. cbn [validate_dnodes validate_dupd validate_dedges de_kind de_ent de_room de_author de_date]. rewrite Hk, Hr.
  set (edge := {| e_tag := 3%N; e_src := 100%N; e_ent := Some (dn_ent src); e_label := 1%N; e_dest := 300%N;
                  e_cdate := now - 5; e_author := ea; e_sig_ok := true |}).
  unfold edel_ok. cbn [s_edges find]. rewrite hit_own_tombstone.
  unfold ref_tombstone. cbn [ed_ent ed_room ed_author ed_date]. unfold edge. cbn [e_ent e_author].
  unfold validate_node. cbn [n_too_big n_room n_ent n_author n_mdate required_right]. rewrite N.eqb_refl. cbn [negb].
  destruct (find_room (build_rooms defs) rid) as [r|] eqn:Er.
  - pose proof (check_del_ok_iff me now (build_rooms defs) (dn_ent src) rid (dn_author src) r Er) as Hn.
    pose proof (check_del_ok_iff me now (build_rooms defs) (dn_ent src) rid ea r Er) as He.
    destruct (can r me (dn_ent src) now (needed (N.eqb (dn_author src) me))) eqn:Cn.
    + rewrite (proj2 Hn eq_refl).
      destruct (can r me (dn_ent src) now (needed (N.eqb ea me))) eqn:Ce.
      * rewrite (proj2 He eq_refl). reflexivity.
      * destruct (check_del me now (build_rooms defs) KNormal (dn_ent src) (Some rid) ea now) eqn:Hc; try reflexivity.
        pose proof (proj1 He eq_refl) as X. discriminate X.
    + destruct (check_del me now (build_rooms defs) KNormal (dn_ent src) (Some rid) (dn_author src) now) eqn:Hc.
      * pose proof (proj1 Hn eq_refl) as X. discriminate X.
      * cbn [verdict_code Z.eqb]. destruct (can r me _ _ (needed (N.eqb ea me))); reflexivity.
      * cbn [verdict_code Z.eqb]. destruct (can r me _ _ (needed (N.eqb ea me))); reflexivity.
      * cbn [verdict_code Z.eqb]. destruct (can r me _ _ (needed (N.eqb ea me))); reflexivity.
      * cbn [verdict_code Z.eqb]. destruct (can r me _ _ (needed (N.eqb ea me))); reflexivity.
      * cbn [verdict_code Z.eqb]. destruct (can r me _ _ (needed (N.eqb ea me))); reflexivity.
  - unfold check_del. rewrite Er. reflexivity.
Qed.

(* ------------------------------------------------------------------ field values: request text -> JSON -> peer *)
(* the listed class, as a condition on the request and the data model: a Json field given a scalar
   (by a literal or by its default) *)
Definition lit_clean (f : lfield) (l : option lit) : bool :=
  match l with
  | Some (LStr _ (Some k)) => match f_type (lf f) with TJson => negb (is_scalar k) | _ => true end
  | _ => true
  end.
Definition default_typed (f : lfield) : bool :=
  match lf_default f with Some v => value_ok (f_type (lf f)) v | None => true end.
Definition short_of (f : lfield) : N := f_short (lf f).

Lemma local_value_typed f l v :
  lit_clean f l = true -> default_typed f = true -> local_value f l = Some (Some v) ->
  (f_nullable (lf f) && is_null v) || value_ok (f_type (lf f)) v = true.
Proof.
  unfold lit_clean, default_typed, local_value. intros Hc Hd.
  destruct l as [[| | |b js|]|].
  - destruct (f_type (lf f)); intros H; inversion H; apply orb_true_r.
  - destruct (f_type (lf f)); intros H; inversion H; apply orb_true_r.
  - destruct (f_type (lf f)); intros H; inversion H; apply orb_true_r.
  - destruct (f_type (lf f)) eqn:Et; intros H; try discriminate.
    + destruct b; inversion H. apply orb_true_r.
    + inversion H. apply orb_true_r.
    + destruct js as [k|]; [|discriminate]. inversion H; subst. destruct v; simpl in Hc; try discriminate; apply orb_true_r.
  - (* an explicit null: accepted locally only for a nullable field, and peers accept it there *)
    destruct (f_nullable (lf f)); [|discriminate]. intros H. inversion H. reflexivity.
  - destruct (f_nullable (lf f)); [discriminate|]. destruct (lf_default f); [|discriminate]. intros H. inversion H; subst. rewrite Hd. apply orb_true_r.
Qed.

Lemma local_value_absent f l : local_value f l = Some None -> f_nullable (lf f) = true.
Proof.
  unfold local_value. destruct l as [[| | |b js|]|].
  - destruct (f_type (lf f)); discriminate.
  - destruct (f_type (lf f)); discriminate.
  - destruct (f_type (lf f)); discriminate.
  - destruct (f_type (lf f)); try discriminate; [destruct b; discriminate|destruct js; discriminate].
  - destruct (f_nullable (lf f)); discriminate.
  - destruct (f_nullable (lf f)); [reflexivity|]. destruct (lf_default f); discriminate.
Qed.

Lemma local_store_keys fs lits : forall j, local_store fs lits = Some j ->
  forall k v, In (k, v) j -> In k (map short_of fs).
Proof.
  induction fs as [|f tl IH]; simpl; intros j Hs k v Hin.
  - inversion Hs; subst. contradiction.
  - destruct (local_value f (lget lits (f_short (lf f)))) as [[w|]|]; [| |discriminate];
    destruct (local_store tl lits) as [j'|]; try discriminate; inversion Hs; subst.
    + destruct Hin as [Hin|Hin]; [inversion Hin; subst; left; reflexivity|right; eapply IH; eauto].
    + right. eapply IH; eauto.
Qed.

Lemma jget_absent j k : (forall v, ~ In (k, v) j) -> jget j k = None.
Proof.
  unfold jget. intros H. destruct (find (fun p => N.eqb (fst p) k) j) as [[k' v]|] eqn:E; [|reflexivity].
  apply find_some in E. destruct E as [Hin He]. simpl in He. apply N.eqb_eq in He. subst k'. exfalso. eapply H; eauto.
Qed.
Lemma jget_cons_other j k k' v : k <> k' -> jget ((k, v) :: j) k' = jget j k'.
Proof. intros H. unfold jget. simpl. destruct (N.eqb k k') eqn:E; [apply N.eqb_eq in E; contradiction|reflexivity]. Qed.
Lemma jget_cons_same j k v : jget ((k, v) :: j) k = Some v.
Proof. unfold jget. simpl. rewrite N.eqb_refl. reflexivity. Qed.

Lemma local_store_conform lits : forall fs j,
  NoDup (map short_of fs) ->
  forallb (fun f => lit_clean f (lget lits (short_of f))) fs = true ->
  forallb default_typed fs = true ->
  local_store fs lits = Some j -> forallb (field_ok j) (map lf fs) = true.
Proof.
  induction fs as [|f tl IH]; intros j Hnd Hc Hd Hs; [reflexivity|].
  simpl in Hs, Hc, Hd. apply andb_prop in Hc. destruct Hc as [Hc1 Hc2]. apply andb_prop in Hd. destruct Hd as [Hd1 Hd2].
  inversion Hnd as [|? ? Hnot Hnd']; subst.
  destruct (local_value f (lget lits (f_short (lf f)))) as [[w|]|] eqn:Lv; [| |discriminate];
  destruct (local_store tl lits) as [j'|] eqn:Ls; try discriminate; inversion Hs; subst.
  - simpl. apply andb_true_intro. split.
    + unfold field_ok. rewrite jget_cons_same. eapply local_value_typed; eauto.
    + specialize (IH j' Hnd' Hc2 Hd2 eq_refl). rewrite forallb_forall in IH. apply forallb_forall. intros g Hg.
      specialize (IH g Hg). unfold field_ok in *. rewrite jget_cons_other; [exact IH|].
      intros Heq. apply Hnot. apply in_map_iff in Hg. destruct Hg as [g' [<- Hg']].
      apply in_map_iff. exists g'. split; [unfold short_of; congruence|assumption].
  - simpl. apply andb_true_intro. split.
    + unfold field_ok. rewrite jget_absent.
      * rewrite (local_value_absent _ _ Lv). reflexivity.
      * intros v Hin. apply Hnot. eapply local_store_keys; eauto.
    + apply IH; auto.
Qed.

(* a request refused only because of explicit nulls: the content with those nulls is refused by peers too *)
Lemma value_ok_null t : value_ok t JNull = false.
Proof. destruct t; reflexivity. Qed.

Lemma forced_value_cases f l :
  forced_value f l = local_value f l \/
  (f_nullable (lf f) = false /\ forced_value f l = Some (Some JNull) /\ local_value f l = None).
Proof.
  destruct l as [[| | |b js|]|]; try (left; reflexivity).
  unfold forced_value, local_value. destruct (f_nullable (lf f)); [left; reflexivity|right; auto].
Qed.

Lemma field_ok_tl_same k v j' (tl : list lfield) :
  ~ In k (map short_of tl) ->
  forallb (field_ok ((k, v) :: j')) (map lf tl) = forallb (field_ok j') (map lf tl).
Proof.
  intros Hnot. apply forallb_ext_in'. intros g Hg. unfold field_ok. rewrite jget_cons_other; [reflexivity|].
  intros Heq. apply Hnot. apply in_map_iff in Hg. destruct Hg as [g' [<- Hg']].
  apply in_map_iff. exists g'. split; [unfold short_of; congruence|assumption].
Qed.

Lemma forced_refused lits : forall fs j,
  NoDup (map short_of fs) ->
  forced_store fs lits = Some j -> local_store fs lits = None ->
  forallb (field_ok j) (map lf fs) = false.
Proof.
  induction fs as [|f tl IH]; intros j Hnd Hf Hl; [discriminate|].
  simpl in Hf, Hl. inversion Hnd as [|? ? Hnot Hnd']; subst.
  destruct (forced_value_cases f (lget lits (f_short (lf f)))) as [E|[Hnn [E El]]].
  - rewrite E in Hf. destruct (local_value f (lget lits (f_short (lf f)))) as [[w|]|]; [| |discriminate].
    + destruct (forced_store tl lits) as [j'|] eqn:Fs; [|discriminate].
      destruct (local_store tl lits) as [jl|] eqn:Ls; [discriminate|].
      pose proof (IH j' Hnd' eq_refl eq_refl) as IH'. inversion Hf; subst j. simpl.
      rewrite field_ok_tl_same; [|exact Hnot]. rewrite IH'. apply andb_false_r.
    + destruct (forced_store tl lits) as [j'|] eqn:Fs; [|discriminate].
      destruct (local_store tl lits) as [jl|] eqn:Ls; [discriminate|].
      pose proof (IH j' Hnd' eq_refl eq_refl) as IH'. inversion Hf; subst j. simpl.
      rewrite IH'. apply andb_false_r.
  - rewrite E in Hf. destruct (forced_store tl lits) as [j'|]; [|discriminate]. inversion Hf; subst. simpl.
    unfold field_ok at 1. rewrite jget_cons_same, Hnn, value_ok_null. reflexivity.
Qed.

Theorem json_agree fs lits :
  NoDup (map short_of fs) ->
  forallb (fun f => lit_clean f (lget lits (short_of f))) fs = true ->
  forallb default_typed fs = true ->
  violations12 (CJson fs lits) (run_C12 (CJson fs lits)) = [].
Proof.
  intros Hnd Hc Hd. unfold run_C12. destruct (local_store fs lits) as [j|] eqn:Hs.
  - unfold conform. rewrite (local_store_conform lits fs j Hnd Hc Hd Hs). reflexivity.
  - destruct (forced_store fs lits) as [j|] eqn:Hf; [|reflexivity].
    unfold conform. rewrite (forced_refused lits fs j Hnd Hf Hs). reflexivity.
Qed.

(* the refusal direction needs no hypothesis on literals or defaults: whatever request the local parser
   refuses only for its explicit nulls, peers refuse its content too *)
Theorem json_null_refusal_agrees fs lits j :
  NoDup (map short_of fs) ->
  local_store fs lits = None -> forced_store fs lits = Some j -> conform (map lf fs) (Some j) = false.
Proof. intros Hnd Hl Hf. unfold conform. apply (forced_refused lits fs j Hnd Hf Hl). Qed.

(* ------------------------------------------------------------------ closed witnesses *)
Local Open Scope N_scope.
Definition fld (s : N) (t : ftype) (nullable : bool) (d : option jval) : lfield :=
  {| lf := {| f_short := s; f_type := t; f_nullable := nullable; f_default := match d with Some _ => true | None => false end |}; lf_default := d |}.
(* (repaired by d170035) `i: null` on a nullable Integer field; (8ac9d00) `j: null` on a nullable Json field *)
Definition w12_null : c12case := CJson [fld 32 TString false None; fld 33 TInt true None; fld 34 TJson true None]
                                       [(32, LStr false None); (33, LNull); (34, LNull)].
(* class 2: `j: "5"` on a Json field; a Json field whose default is "5" *)
Definition w12_scalar : c12case := CJson [fld 32 TString false None; fld 33 TJson true None] [(32, LStr false None); (33, LStr false (Some JInt))].
Definition w12_scalar_default : c12case := CJson [fld 32 TJson false (Some JInt)] [].
(* (repaired by 25ca1a0) key 1 authored the row and has the own-rows right only; the mutation removes
   the reference key 2 attached to it: now refused locally as well *)
Definition w12_ref : c12case :=
  CWrite [(1, [EvGroup 1; EvUser 1 1 10%Z true; EvUser 1 2 10%Z true; EvRight 1 1 10%Z true false])]
         [(1, [{| f_short := 32; f_type := TString; f_nullable := false; f_default := false |}])] 1
         {| h_kind := KNormal; h_ent := 1; h_room := Some 1; h_date := 20%Z; h_has_node := true; h_too_big := false;
            h_old := Some {| o_room := Some 1; o_author := 1 |}; h_edge_dels := [2; 1] |} 1.

Example witnesses12 :
  violations12 w12_scalar (run_C12 w12_scalar) = [2%Z] /\
  violations12 w12_scalar_default (run_C12 w12_scalar_default) = [2%Z].
Proof. repeat split; vm_compute; reflexivity. Qed.

Example repaired_witnesses12 :
  run_C12 w12_null = [1; 1; 4; 0; 0]%Z /\ violations12 w12_null (run_C12 w12_null) = [] /\
  run_C12 w12_ref = [1; 1; 1; 1]%Z /\ violations12 w12_ref (run_C12 w12_ref) = [].
Proof. repeat split; vm_compute; reflexivity. Qed.

(* non-vacuity: accepted on both sides (a move, two references added, an own and a foreign reference
   removed with the all-rows right), refused on both sides *)
Definition w12_ok : c12case :=
  CWrite [(1, [EvGroup 1; EvUser 1 1 10%Z true; EvRight 1 1 10%Z true true]); (2, [EvGroup 1; EvUser 1 1 10%Z true; EvRight 1 0 10%Z true true])]
         [(1, [{| f_short := 32; f_type := TString; f_nullable := false; f_default := false |}])] 1
         {| h_kind := KNormal; h_ent := 1; h_room := Some 1; h_date := 20%Z; h_has_node := true; h_too_big := false;
            h_old := Some {| o_room := Some 2; o_author := 1 |}; h_edge_dels := [1; 3] |} 2.
Definition w12_refused : c12case :=
  CWrite [(1, [EvGroup 1; EvUser 1 1 10%Z true; EvRight 1 1 10%Z true false])]
         [(1, [{| f_short := 32; f_type := TString; f_nullable := false; f_default := false |}])] 1
         {| h_kind := KNormal; h_ent := 1; h_room := Some 1; h_date := 20%Z; h_has_node := true; h_too_big := false;
            h_old := Some {| o_room := Some 1; o_author := 3 |}; h_edge_dels := [] |} 1.
Example nonvacuous12 :
  run_C12 w12_ok = [0; 1; 2; 2]%Z /\ spec_C12 w12_ok (run_C12 w12_ok) = true /\
  run_C12 w12_refused = [1; 0; 1; 0]%Z /\ spec_C12 w12_refused (run_C12 w12_refused) = true /\
  run_C12 (CJson [fld 32 TString false None; fld 33 TFloat true None] [(32, LStr false None); (33, LInt)]) = [1; 1; 4; 3]%Z.
Proof. repeat split; vm_compute; reflexivity. Qed.

(* ------------------------------------------------------------------ the size limit *)
Local Close Scope N_scope.
(* both paths measure the row as signed: the same number, hence the same side of the limit *)
Theorem size_measured_same r : local_measured r = peer_measured r.
Proof. reflexivity. Qed.

Theorem size_agree max u r : violations12 (CSize max u r) (run_C12 (CSize max u r)) = [].
Proof.
  unfold run_C12, violations12, local_measured, peer_measured.
  destruct (exceeds max (node_size r)); cbn [negb zb Z.eqb andb orb]; [rewrite Z.eqb_refl|]; reflexivity.
Qed.

(* the bit the row models carry: if the local head's bit is what the local path measures and the
   received row's bit is what the peer measures, they are the same bit (so C12_write_holds applies
   to rows at the limit) *)
Theorem size_bit_transfers max r me h :
  h_too_big h = exceeds max (local_measured r) -> n_too_big (sent_row me h) = exceeds max (peer_measured r).
Proof. intros H. cbn [sent_row n_too_big]. rewrite H. reflexivity. Qed.

(* the limit is sharp: one more byte of content is one more byte measured *)
Theorem size_one_more_byte r l :
  sr_json_len r = Some l ->
  node_size {| sr_room := sr_room r; sr_ent_len := sr_ent_len r; sr_json_len := Some (l + 1)%N; sr_bin_len := sr_bin_len r;
               sr_key_len := sr_key_len r; sr_sig_len := sr_sig_len r |} = (node_size r + 1)%N.
Proof. intros H. unfold node_size. cbn [sr_room sr_ent_len sr_json_len sr_bin_len sr_key_len sr_sig_len]. rewrite H. unfold opt_bytes. lia. Qed.
