(* C12P.v — proofs for C12: the local validation functions (Authz.v) and the peer-side ones
   (AuthzRemote.v) give the same verdict on the same operation, outside the delimited classes. *)
From DV Require Import RightsP Run_C01 C01P Run_C02 C02P Run_C12.

(* ------------------------------------------------------------------ rows: local head vs validate_node *)
Definition old_room_of (h : mhead) : option uid := match h_old h with Some o => o_room o | None => None end.
Definition old_author_of (h : mhead) : option key := match h_old h with Some o => Some (o_author o) | None => None end.

Lemma node_agree me rooms h rid :
  h_kind h = KNormal -> h_has_node h = true -> h_room h = Some rid ->
  (check_head me rooms h = None <->
   validate_node rooms (sent_row me h) (old_room_of h) (old_author_of h) = true).
Proof.
  intros Hk Hn Hr. unfold check_head, validate_node, old_room_of, old_author_of, sent_row. cbn [n_too_big n_room n_ent n_author n_mdate].
  rewrite Hk, Hn, Hr. cbn [negb].
  destruct (h_too_big h); [split; discriminate|].
  destruct (h_old h) as [o|]; cbn [required_right].
  - destruct (find_room rooms rid) as [r|] eqn:Er.
    + destruct (o_room o) as [orid|].
      * destruct (N.eqb orid rid) eqn:Ee; cbn [negb].
        -- destruct (can r me (h_ent h) (h_date h) (needed (N.eqb (o_author o) me))); split; congruence.
        -- destruct (find_room rooms orid) as [oroom|]; [|split; discriminate].
           destruct (can oroom me (h_ent h) (h_date h) (needed (N.eqb (o_author o) me))); cbn [negb]; [|split; discriminate].
           destruct (can r me (h_ent h) (h_date h) (needed (N.eqb (o_author o) me))); split; congruence.
      * cbn [negb]. destruct (can r me (h_ent h) (h_date h) (needed (N.eqb (o_author o) me))); split; congruence.
    + split; [discriminate|]. destruct (o_room o) as [orid|]; cbn [negb]; [|discriminate].
      destruct (N.eqb orid rid); cbn [negb]; [discriminate|].
      destruct (find_room rooms orid) as [oroom|]; [|discriminate].
      destruct (can oroom me _ _ _); cbn [negb]; discriminate.
  - cbn [negb]. destruct (find_room rooms rid) as [r|]; [|split; discriminate].
    destruct (can r me (h_ent h) (h_date h) MutateSelf); split; congruence.
Qed.

Lemma validate_entity_single me rooms h :
  validate_entity me rooms (MEnt h []) = VOk <-> check_head me rooms h = None.
Proof.
  simpl. destruct (check_head me rooms h) as [v|] eqn:E; split; try congruence; try discriminate.
  intros ->. exfalso. eapply check_head_not_ok; eauto.
Qed.

(* a local acceptance of a row in a room implies the own-rows right there (rooms built from histories) *)
Lemma can_all_self_built defs rid r k e d :
  find_room (build_rooms defs) rid = Some r -> can r k e d MutateAll = true -> can r k e d MutateSelf = true.
Proof.
  intros Hr Hc. destruct (find_room_build _ _ _ Hr) as [_ Hg]. rewrite Hg in *. apply granted_all_self; assumption.
Qed.
Lemma can_needed_self_built defs rid r k e d b :
  find_room (build_rooms defs) rid = Some r -> can r k e d (needed b) = true -> can r k e d MutateSelf = true.
Proof. destruct b; simpl; [tauto|apply can_all_self_built]. Qed.

Lemma head_ok_can defs me h rid :
  h_kind h = KNormal -> h_has_node h = true -> h_room h = Some rid ->
  check_head me (build_rooms defs) h = None ->
  exists r, find_room (build_rooms defs) rid = Some r /\ can r me (h_ent h) (h_date h) MutateSelf = true.
Proof.
  intros Hk Hn Hr. unfold check_head. rewrite Hk, Hn, Hr. cbn [negb]. destruct (h_too_big h); [discriminate|].
  destruct (h_old h) as [o|].
  - destruct (find_room (build_rooms defs) rid) as [r|] eqn:Er; [|discriminate]. intros H. exists r. split; [reflexivity|].
    assert (Hc : can r me (h_ent h) (h_date h) (needed (N.eqb (o_author o) me)) = true).
    { destruct (o_room o) as [orid|].
      - destruct (N.eqb orid rid).
        + destruct (can r me _ _ _); [reflexivity|discriminate].
        + destruct (find_room (build_rooms defs) orid); [|discriminate]. destruct (can r0 me _ _ _); [|discriminate].
          destruct (can r me _ _ _); [reflexivity|discriminate].
      - destruct (can r me _ _ _); [reflexivity|discriminate]. }
    eapply can_needed_self_built; eauto.
  - destruct (find_room (build_rooms defs) rid) as [r|] eqn:Er; [|discriminate]. intros H. exists r. split; [reflexivity|].
    destruct (can r me _ _ _); [reflexivity|discriminate].
Qed.

(* ------------------------------------------------------------------ counting *)
Lemma count_all {A} (p : A -> bool) l : forallb p l = true -> count p l = Z.of_nat (length l).
Proof.
  unfold count. intros H. f_equal. induction l as [|a t IH]; simpl in *; [reflexivity|].
  apply andb_prop in H. destruct H as [Ha Ht]. rewrite Ha. simpl. f_equal. auto.
Qed.
Lemma length_upto n : length (upto n) = n.
Proof. induction n; simpl; [reflexivity|]. rewrite app_length, IHn. simpl. lia. Qed.
Lemma length_numbered {A} (l : list A) : forall n, length (numbered n l) = length l.
Proof. induction l; simpl; intros; [reflexivity|]. rewrite IHl. reflexivity. Qed.
Lemma numbered_snd {A} (l : list A) : forall n p, In p (numbered n l) -> In (snd p) l.
Proof. induction l as [|a t IH]; simpl; intros n p H; [contradiction|]. destruct H as [<-|H]; [auto|]. right. eapply IH; eauto. Qed.

(* ------------------------------------------------------------------ CWrite *)
Definition peer_knows (dm : dmodel) (e : entity) : bool :=
  match fields_of dm e with Some fs => conform fs good_json | None => false end.

Lemma accept_sent_row defs dm me h rm rid :
  h_room h = Some rid -> peer_knows dm (h_ent h) = true ->
  accept_node (build_rooms defs) dm rid (peer_store h rm) (sent_row me h) =
  validate_node (build_rooms defs) (sent_row me h) (old_room_of h) (old_author_of h).
Proof.
  intros Hr Hp. unfold accept_node, prefilter. cbn [sent_row n_room n_ent n_json n_id]. rewrite Hr, N.eqb_refl.
  unfold peer_knows in Hp. destruct (fields_of dm (h_ent h)); [|discriminate]. rewrite Hp. cbn [andb].
  unfold lookup_node, peer_store, old_row, old_room_of, old_author_of. cbn [s_nodes].
  destruct (h_old h) as [o|]; cbn [find n_id n_room n_author]; reflexivity.
Qed.

Theorem write_agree defs dm me h nadd rm :
  h_kind h = KNormal -> peer_knows dm (h_ent h) = true ->
  forallb (N.eqb me) rm = true ->
  violations12 (CWrite defs dm me h nadd rm) (run_C12 (CWrite defs dm me h nadd rm)) = [].
Proof.
  intros Hk Hp Hrm. unfold run_C12, violations12, write_sends. rewrite Hk.
  destruct (h_has_node h) eqn:Hn; [|reflexivity].
  destruct (h_room h) as [rid|] eqn:Hr; [|reflexivity].
  rewrite (accept_sent_row defs dm me h rm rid Hr Hp).
  pose proof (node_agree me (build_rooms defs) h rid Hk Hn Hr) as Hag.
  pose proof (validate_entity_single me (build_rooms defs) h) as Hsingle.
  destruct (validate_entity me (build_rooms defs) (MEnt h [])) eqn:Hv; cbn [verdict_code Z.eqb].
  - (* locally accepted *)
    assert (Hc : check_head me (build_rooms defs) h = None) by (apply Hsingle; reflexivity).
    assert (Hval : validate_node (build_rooms defs) (sent_row me h) (old_room_of h) (old_author_of h) = true) by (apply Hag; exact Hc).
    rewrite Hval. cbn [zb Z.eqb andb].
    destruct (head_ok_can defs me h rid Hk Hn Hr Hc) as [r [Er Hself]]. rewrite Er.
    rewrite count_all.
    2:{ apply forallb_forall. intros x Hx. apply in_map_iff in Hx. destruct Hx as [i [<- _]].
        unfold edge_ok, added_ref. cbn [e_ent e_author e_cdate]. exact Hself. }
    rewrite map_length, length_upto, N_nat_Z, Z.eqb_refl. cbn [andb].
    rewrite count_all.
    2:{ apply forallb_forall. intros d Hd. apply in_map_iff in Hd. destruct Hd as [e [<- He]].
        unfold peer_store in He. cbn [s_edges] in He.
        unfold edel_ok, ref_tombstone. cbn [ed_ent ed_room ed_author ed_date].
        apply in_map_iff in He. destruct He as [p [<- Hp']]. cbn [stored_ref e_ent]. rewrite Er.
        match goal with |- can r me _ _ ?t = true => assert (Ht : t = MutateSelf) end.
        { destruct (find _ _) as [ex|] eqn:Ef; [|reflexivity]. apply find_some in Ef. destruct Ef as [Hin _].
          unfold peer_store in Hin. cbn [s_edges] in Hin. apply in_map_iff in Hin. destruct Hin as [q [<- Hq]].
          cbn [stored_ref e_author]. apply numbered_snd in Hq. rewrite forallb_forall in Hrm. specialize (Hrm _ Hq).
          apply N.eqb_eq in Hrm. rewrite <- Hrm, N.eqb_refl. reflexivity. }
        rewrite Ht. exact Hself. }
    unfold peer_store. cbn [s_edges]. rewrite !map_length, length_numbered, Z.eqb_refl. reflexivity.
  - assert (Hnv : validate_node (build_rooms defs) (sent_row me h) (old_room_of h) (old_author_of h) = false).
    { apply not_true_is_false. intros E. apply Hag in E. apply Hsingle in E. congruence. }
    rewrite Hnv. reflexivity.
  - assert (Hnv : validate_node (build_rooms defs) (sent_row me h) (old_room_of h) (old_author_of h) = false).
    { apply not_true_is_false. intros E. apply Hag in E. apply Hsingle in E. congruence. }
    rewrite Hnv. reflexivity.
  - assert (Hnv : validate_node (build_rooms defs) (sent_row me h) (old_room_of h) (old_author_of h) = false).
    { apply not_true_is_false. intros E. apply Hag in E. apply Hsingle in E. congruence. }
    rewrite Hnv. reflexivity.
  - assert (Hnv : validate_node (build_rooms defs) (sent_row me h) (old_room_of h) (old_author_of h) = false).
    { apply not_true_is_false. intros E. apply Hag in E. apply Hsingle in E. congruence. }
    rewrite Hnv. reflexivity.
  - assert (Hnv : validate_node (build_rooms defs) (sent_row me h) (old_room_of h) (old_author_of h) = false).
    { apply not_true_is_false. intros E. apply Hag in E. apply Hsingle in E. congruence. }
    rewrite Hnv. reflexivity.
Qed.

(* ------------------------------------------------------------------ deletion of a row *)
Lemma check_del_ok_iff me now rooms e rid author r :
  find_room rooms rid = Some r ->
  (check_del me now rooms KNormal e (Some rid) author now = VOk <->
   can r me e now (needed (N.eqb author me)) = true).
Proof.
  intros Hr. unfold check_del. rewrite Hr. destruct (N.eqb author me); cbn [needed];
  destruct (can r me e now _); split; congruence.
Qed.

Theorem delete_row_agree defs me now n :
  dn_date n = now ->
  violations12 (CDelNode defs me now n) (run_C12 (CDelNode defs me now n)) = [].
Proof.
  intros Hd. unfold run_C12, violations12, del_sends. destruct (dn_kind n) eqn:Hk; [|reflexivity].
  destruct (dn_room n) as [rid|] eqn:Hr; [|reflexivity].
  unfold validate_deletion. cbn [validate_dnodes validate_dupd validate_dedges]. rewrite Hk, Hr, Hd.
  unfold ndel_ok, lookup_node, row_of. cbn [nd_ent nd_room nd_id nd_author nd_date s_nodes find n_id n_author]. rewrite N.eqb_refl.
  cbn [n_author].
  destruct (find_room (build_rooms defs) rid) as [r|] eqn:Er.
  - pose proof (check_del_ok_iff me now (build_rooms defs) (dn_ent n) rid (dn_author n) r Er) as Hiff.
    destruct (check_del me now (build_rooms defs) KNormal (dn_ent n) (Some rid) (dn_author n) now) eqn:Hc; cbn [verdict_code Z.eqb].
    + rewrite (proj1 Hiff eq_refl). reflexivity.
    + assert (Hf : can r me (dn_ent n) now (needed (N.eqb (dn_author n) me)) = false) by (apply not_true_is_false; intros E; apply Hiff in E; discriminate).
      rewrite Hf. reflexivity.
    + assert (Hf : can r me (dn_ent n) now (needed (N.eqb (dn_author n) me)) = false) by (apply not_true_is_false; intros E; apply Hiff in E; discriminate).
      rewrite Hf. reflexivity.
    + assert (Hf : can r me (dn_ent n) now (needed (N.eqb (dn_author n) me)) = false) by (apply not_true_is_false; intros E; apply Hiff in E; discriminate).
      rewrite Hf. reflexivity.
    + assert (Hf : can r me (dn_ent n) now (needed (N.eqb (dn_author n) me)) = false) by (apply not_true_is_false; intros E; apply Hiff in E; discriminate).
      rewrite Hf. reflexivity.
    + assert (Hf : can r me (dn_ent n) now (needed (N.eqb (dn_author n) me)) = false) by (apply not_true_is_false; intros E; apply Hiff in E; discriminate).
      rewrite Hf. reflexivity.
  - unfold check_del. rewrite Er. reflexivity.
Qed.

(* ------------------------------------------------------------------ deletion of a reference *)
Theorem delete_reference_agree defs me now src ea :
  violations12 (CDelRef defs me now src ea) (run_C12 (CDelRef defs me now src ea)) = [].
Proof.
  unfold run_C12, violations12, del_sends. destruct (dn_kind src) eqn:Hk; [|reflexivity].
  destruct (dn_room src) as [rid|] eqn:Hr; [|reflexivity].
  unfold validate_deletion. cbn [validate_dnodes validate_dupd validate_dedges de_kind de_ent de_room de_author de_date]. rewrite Hk, Hr.
  unfold edel_ok, ref_tombstone. cbn [ed_ent ed_room ed_author ed_date ed_src ed_label ed_dest ed_cdate e_ent e_src e_label e_dest e_cdate s_edges find].
  unfold edge_hit at 1. cbn [ed_ent ed_src ed_label ed_dest ed_cdate e_ent e_src e_label e_dest e_cdate e_author].
  rewrite !N.eqb_refl, Z.eqb_refl. unfold oent_eqb. cbn [opt_eqb]. rewrite N.eqb_refl. cbn [andb e_author].
  unfold validate_node. cbn [n_too_big n_room n_ent n_author n_mdate required_right]. rewrite N.eqb_refl. cbn [negb].
  destruct (find_room (build_rooms defs) rid) as [r|] eqn:Er.
  - pose proof (check_del_ok_iff me now (build_rooms defs) (dn_ent src) rid (dn_author src) r Er) as Hn.
    pose proof (check_del_ok_iff me now (build_rooms defs) (dn_ent src) rid ea r Er) as He.
    destruct (can r me (dn_ent src) now (needed (N.eqb (dn_author src) me))) eqn:Cn.
    + rewrite (proj2 Hn eq_refl).
      destruct (can r me (dn_ent src) now (needed (N.eqb ea me))) eqn:Ce.
      * rewrite (proj2 He eq_refl). reflexivity.
      * destruct (check_del me now (build_rooms defs) KNormal (dn_ent src) (Some rid) ea now) eqn:Hc; try reflexivity.
        pose proof (proj1 He eq_refl) as X. discriminate X.
    + destruct (check_del me now (build_rooms defs) KNormal (dn_ent src) (Some rid) (dn_author src) now) eqn:Hc.
      * pose proof (proj1 Hn eq_refl) as X. discriminate X.
      * cbn [verdict_code Z.eqb]. destruct (can r me _ _ (needed (N.eqb ea me))); reflexivity.
      * cbn [verdict_code Z.eqb]. destruct (can r me _ _ (needed (N.eqb ea me))); reflexivity.
      * cbn [verdict_code Z.eqb]. destruct (can r me _ _ (needed (N.eqb ea me))); reflexivity.
      * cbn [verdict_code Z.eqb]. destruct (can r me _ _ (needed (N.eqb ea me))); reflexivity.
      * cbn [verdict_code Z.eqb]. destruct (can r me _ _ (needed (N.eqb ea me))); reflexivity.
  - unfold check_del. rewrite Er. reflexivity.
Qed.
