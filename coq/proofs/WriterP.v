(* WriterP.v — lemmas about model/Writer.v (used by C13P.v) *)
From DV Require Import Writer.
From Coq Require Import Lia.

(* ------------------------------------------------------------------ keys, association lists *)
Lemma rkey_eqb_eq : forall a b : rkey, rkey_eqb a b = true <-> a = b.
Proof.
  intros [a1 a2] [b1 b2]. unfold rkey_eqb. cbn [fst snd].
  rewrite andb_true_iff, !N.eqb_eq. split.
  - intros [H1 H2]. subst. reflexivity.
  - intros H. inversion H. auto.
Qed.
Lemma rkey_eqb_refl : forall a, rkey_eqb a a = true.
Proof. intros a. apply rkey_eqb_eq. reflexivity. Qed.
Lemma rkey_eqb_neq : forall a b : rkey, a <> b -> rkey_eqb a b = false.
Proof. intros a b H. destruct (rkey_eqb a b) eqn:E; auto. apply rkey_eqb_eq in E. contradiction. Qed.
Lemma rkey_eq_dec : forall a b : rkey, {a = b} + {a <> b}.
Proof. intros a b. destruct (rkey_eqb a b) eqn:E. left. apply rkey_eqb_eq; auto. right. intros H. apply rkey_eqb_eq in H. congruence. Qed.

Lemma lookup_remove_eq : forall V (k : rkey) (l : list (rkey * V)), lookup k (remove k l) = None.
Proof.
  intros V k l. induction l as [|[k' v] t IH]; cbn [remove lookup]; auto.
  destruct (rkey_eqb k' k) eqn:E; auto. cbn [lookup]. rewrite E. exact IH.
Qed.
Lemma lookup_remove_neq : forall V (k k' : rkey) (l : list (rkey * V)), k <> k' -> lookup k (remove k' l) = lookup k l.
Proof.
  intros V k k' l Hn. induction l as [|[k2 v] t IH]; cbn [remove lookup]; auto.
  destruct (rkey_eqb k2 k') eqn:E.
  - apply rkey_eqb_eq in E. subst k2. rewrite (rkey_eqb_neq k' k) by congruence. exact IH.
  - cbn [lookup]. rewrite IH. reflexivity.
Qed.
Lemma lookup_upd_eq : forall V (k : rkey) (v : V) l, lookup k (upd k v l) = Some v.
Proof. intros. unfold upd. cbn [lookup]. rewrite rkey_eqb_refl. reflexivity. Qed.
Lemma lookup_upd_neq : forall V (k k' : rkey) (v : V) l, k <> k' -> lookup k (upd k' v l) = lookup k l.
Proof.
  intros V k k' v l Hn. unfold upd. cbn [lookup]. rewrite (rkey_eqb_neq k' k) by congruence.
  apply lookup_remove_neq. exact Hn.
Qed.

Lemma nlookup_nremove_eq : forall V (k : N) (l : list (N * V)), nlookup k (nremove k l) = None.
Proof.
  intros V k l. induction l as [|[k' v] t IH]; cbn [nremove nlookup]; auto.
  destruct (N.eqb k' k) eqn:E; auto. cbn [nlookup]. rewrite E. exact IH.
Qed.
Lemma nlookup_nremove_neq : forall V (k k' : N) (l : list (N * V)), k <> k' -> nlookup k (nremove k' l) = nlookup k l.
Proof.
  intros V k k' l Hn. induction l as [|[k2 v] t IH]; cbn [nremove nlookup]; auto.
  destruct (N.eqb k2 k') eqn:E.
  - apply N.eqb_eq in E. subst k2. assert (N.eqb k' k = false) as -> by (apply N.eqb_neq; congruence). exact IH.
  - cbn [nlookup]. rewrite IH. reflexivity.
Qed.
Lemma nlookup_not_in : forall V (k : N) (l : list (N * V)), ~ In k (map fst l) -> nlookup k l = None.
Proof.
  intros V k l. induction l as [|[k' v] t IH]; cbn [map fst nlookup In]; auto.
  intros H. destruct (N.eqb k' k) eqn:E.
  - apply N.eqb_eq in E. exfalso. apply H. left. exact E.
  - apply IH. intros Hin. apply H. right. exact Hin.
Qed.

(* ------------------------------------------------------------------ apply_ops *)
Lemma apply_ops_app : forall l1 l2 d, apply_ops d (l1 ++ l2) = apply_ops (apply_ops d l1) l2.
Proof. intros. unfold apply_ops. apply fold_left_app. Qed.
Lemma apply_ops_log : forall l d, d_log (apply_ops d l) = d_log d.
Proof.
  induction l as [|o t IH]; intros d; cbn [apply_ops fold_left]; auto.
  change (fold_left apply_op t (apply_op d o)) with (apply_ops (apply_op d o) t). rewrite IH.
  destruct o; reflexivity.
Qed.

(* an operation changes the count of its own cell only *)
Lemma count_apply_op_other : forall d o c, c <> op_cell o -> count_cell (apply_op d o) c = count_cell d c.
Proof.
  intros d o c Hc. unfold count_cell.
  assert (Hrem : forall (k : rkey) (l : list (rkey * N)), fst k <> c ->
            length (filter (fun kv => N.eqb (fst (fst kv)) c) (remove k l)) =
            length (filter (fun kv => N.eqb (fst (fst kv)) c) l)).
  { intros k l Hk. induction l as [|[k2 v] t IH]; cbn [remove filter]; auto.
    destruct (rkey_eqb k2 k) eqn:E.
    - apply rkey_eqb_eq in E. subst k2. cbn [fst]. assert (N.eqb (fst k) c = false) as -> by (apply N.eqb_neq; exact Hk). exact IH.
    - cbn [filter fst]. destruct (N.eqb (fst k2) c); cbn [length]; rewrite IH; reflexivity. }
  destruct o as [c' i v | c' i]; unfold op_cell, op_key in Hc; cbn [fst] in Hc; cbn [apply_op d_rows d_tombs].
  - unfold upd. cbn [filter fst]. assert (N.eqb c' c = false) as -> by (apply N.eqb_neq; congruence).
    rewrite Hrem by (cbn [fst]; congruence). reflexivity.
  - cbn [filter fst]. assert (N.eqb c' c = false) as -> by (apply N.eqb_neq; congruence).
    rewrite Hrem by (cbn [fst]; congruence). reflexivity.
Qed.
Lemma count_apply_ops_other : forall l d c, (forall o, In o l -> op_cell o <> c) -> count_cell (apply_ops d l) c = count_cell d c.
Proof.
  induction l as [|o t IH]; intros d c H; cbn [apply_ops fold_left]; auto.
  change (fold_left apply_op t (apply_op d o)) with (apply_ops (apply_op d o) t).
  rewrite IH by (intros o' Ho'; apply H; right; exact Ho').
  apply count_apply_op_other. intros E. apply (H o (or_introl eq_refl)). auto.
Qed.
Lemma count_recompute : forall d c, count_cell (recompute d) c = count_cell d c.
Proof. reflexivity. Qed.
Lemma count_write_marks : forall d m c, count_cell (write_marks d m) c = count_cell d c.
Proof. reflexivity. Qed.

(* ------------------------------------------------------------------ the transaction body *)
Lemma group_steps_err : forall sched a gs n s, fold_left (group_step sched a) gs (TErr n s) = TErr n s.
Proof. induction gs; intros; cbn [fold_left group_step]; auto. Qed.
Lemma group_steps_dead : forall sched a gs n p, fold_left (group_step sched a) gs (TDead n p) = TDead n p.
Proof. induction gs; intros; cbn [fold_left group_step]; auto. Qed.
Lemma req_steps_err : forall sk sched b n s, fold_left (req_step sk sched) b (TErr n s) = TErr n s.
Proof.
  induction b as [|r t IH]; intros; cbn [fold_left]; auto.
  unfold req_step at 2. destruct (arm_of sk (r_kind r)) as [a|]; [destruct (a_fallible a)|]; rewrite ?group_steps_err; apply IH.
Qed.
Lemma req_steps_dead : forall sk sched b n p, fold_left (req_step sk sched) b (TDead n p) = TDead n p.
Proof.
  induction b as [|r t IH]; intros; cbn [fold_left]; auto.
  unfold req_step at 2. destruct (arm_of sk (r_kind r)) as [a|]; [destruct (a_fallible a)|]; rewrite ?group_steps_dead; apply IH.
Qed.

(* if the body reaches the marks, the transaction holds exactly the fault-free effect *)
Lemma stmts_run_go : forall sched a ss n t first n1 t1,
  stmts_run sched a n t ss first = TGo n1 t1 -> t1 = fold_left (stmt_eff a) ss t.
Proof.
  induction ss as [|s ss IH]; intros n t first n1 t1 H; cbn [stmts_run fold_left] in *.
  - inversion H. reflexivity.
  - destruct first.
    + apply IH in H. exact H.
    + destruct (sched (n + 1)%N); try discriminate. apply IH in H. exact H.
Qed.
Lemma group_steps_go : forall sched a gs n t n1 t1,
  fold_left (group_step sched a) gs (TGo n t) = TGo n1 t1 -> t1 = fold_left (group_eff a) gs t.
Proof.
  induction gs as [|g gs IH]; intros n t n1 t1 H; cbn [fold_left] in *.
  - inversion H. reflexivity.
  - unfold group_step at 2 in H.
    destruct (sched (n + 1)%N).
    + destruct (stmts_run sched a (n + 1) (group_pre a t) g true) as [n2 t2|n2 s2|n2 p2] eqn:E.
      * apply stmts_run_go in E. subst t2. fold (group_eff a t g) in H.
        destruct (sched (n2 + 1)%N).
        -- apply IH in H. exact H.
        -- apply IH in H. exact H.
        -- rewrite group_steps_dead in H. discriminate.
      * rewrite group_steps_err in H. discriminate.
      * rewrite group_steps_dead in H. discriminate.
    + rewrite group_steps_err in H. discriminate.
    + rewrite group_steps_dead in H. discriminate.
Qed.
Lemma req_steps_go : forall sk sched b n t n1 t1,
  fold_left (req_step sk sched) b (TGo n t) = TGo n1 t1 -> t1 = fold_left (req_eff sk) b t.
Proof.
  induction b as [|r b IH]; intros n t n1 t1 H; cbn [fold_left] in *.
  - inversion H. reflexivity.
  - unfold req_step at 2 in H. unfold req_eff at 2.
    destruct (arm_of sk (r_kind r)) as [a|].
    + destruct (a_fallible a).
      * destruct (fold_left (group_step sched a) (r_groups r) (TGo n t)) as [n2 t2 | n2 s | n2 p] eqn:E.
        -- apply group_steps_go in E. subst t2. apply IH in H. exact H.
        -- rewrite req_steps_err in H. discriminate.
        -- rewrite req_steps_dead in H. discriminate.
      * apply IH in H. exact H.
    + apply IH in H. exact H.
Qed.

(* ------------------------------------------------------------------ atomicity of one batch *)
Definition batch_post (sk : skeleton) (b : list req) (st st' : wstate) (o : outcome) : Prop :=
  match o with
  | Returned true | Died true => w_stuck st = false /\ w_disk st' = txn_body sk b (w_disk st) /\ w_stuck st' = false
  | Returned false | Died false => w_disk st' = w_disk st
  end.

Lemma ack_point_post : forall sk b sched st st' ok n r,
  ack_point sched st' ok n = r ->
  batch_post sk b st st' (Returned ok) ->
  batch_post sk b st (fst (fst (fst r))) (snd (fst (fst r))).
Proof.
  intros sk b sched st st' ok n r H Hp. subst r. unfold ack_point.
  destruct (sched (n + 1)%N); cbn [fst snd]; destruct ok; exact Hp.
Qed.

Theorem run_batch_atomic : forall sk sched n st b,
  let r := run_batch sk sched n st b in
  batch_post sk b st (fst (fst (fst r))) (snd (fst (fst r))).
Proof.
  intros sk sched n st b. cbv zeta. unfold run_batch.
  destruct (sched (n + 1)%N).
  - (* Continue *)
    destruct (w_stuck st) eqn:Hs.
    + eapply ack_point_post; [reflexivity|]. cbn. reflexivity.
    + destruct (fold_left (req_step sk sched) b (TGo (n + 1) (w_disk st))) as [n1 t | n1 s | n1 p] eqn:E.
      * apply req_steps_go in E. subst t.
        destruct (sched (n1 + 1)%N).
        -- destruct (sched (n1 + 2)%N).
           ++ destruct (sched (n1 + 3)%N).
              ** eapply ack_point_post; [reflexivity|]. cbn. auto.
              ** eapply ack_point_post; [reflexivity|]. cbn. auto.
              ** cbn. auto.
           ++ eapply ack_point_post; [reflexivity|]. cbn. reflexivity.
           ++ cbn. reflexivity.
        -- eapply ack_point_post; [reflexivity|]. cbn. reflexivity.
        -- cbn. reflexivity.
      * eapply ack_point_post; [reflexivity|]. cbn. reflexivity.
      * cbn. reflexivity.
  - eapply ack_point_post; [reflexivity|]. cbn. reflexivity.
  - cbn. reflexivity.
Qed.

(* ------------------------------------------------------------------ the daily log against the rows *)
Definition cellinv (d : disk) (c : N) : Prop :=
  match nlookup c (d_log d) with
  | None => count_cell d c = 0%N
  | Some (dirty, n) => dirty = true \/ n = count_cell d c
  end.
(* every entry that does not describe the rows is marked for recompute (cell 0 = not logged) *)
Definition LogInv (d : disk) : Prop := forall c, c <> 0%N -> cellinv d c.
Definition cellcons (d : disk) (c : N) : Prop :=
  match nlookup c (d_log d) with
  | None => count_cell d c = 0%N
  | Some (dirty, n) => dirty = false /\ n = count_cell d c
  end.
Definition Consistent (d : disk) : Prop := forall c, c <> 0%N -> cellcons d c.
Definition Covers (sk : skeleton) (r : req) : Prop :=
  forall o, In o (req_ops r) -> op_cell o = 0%N \/ In (op_cell o) (eff_marks sk r).

Lemma nlookup_recompute : forall d c,
  nlookup c (d_log (recompute d)) =
  match nlookup c (d_log d) with
  | Some (true, n) => Some (false, count_cell d c)
  | x => x
  end.
Proof.
  intros d c. cbn [recompute d_log]. induction (d_log d) as [|[k [dirty n]] t IH]; cbn [map nlookup fst snd]; auto.
  destruct dirty; cbn [fst snd nlookup].
  - destruct (N.eqb k c) eqn:E; auto. apply N.eqb_eq in E. subst. reflexivity.
  - destruct (N.eqb k c) eqn:E; auto.
Qed.

Lemma cellinv_recompute : forall d c, cellinv d c -> cellinv (recompute d) c.
Proof.
  intros d c H. unfold cellinv in *. rewrite nlookup_recompute, count_recompute.
  destruct (nlookup c (d_log d)) as [[[|] n]|]; auto.
Qed.
Lemma recompute_consistent : forall d, LogInv d -> Consistent (recompute d).
Proof.
  intros d H c Hc. specialize (H c Hc). unfold cellinv in H. unfold cellcons.
  rewrite nlookup_recompute, count_recompute.
  destruct (nlookup c (d_log d)) as [[[|] n]|]; auto.
  destruct H as [H|H]; [discriminate|auto].
Qed.
Lemma consistent_loginv : forall d, Consistent d -> LogInv d.
Proof.
  intros d H c Hc. specialize (H c Hc). unfold cellcons in H. unfold cellinv.
  destruct (nlookup c (d_log d)) as [[dirty n]|]; auto. right. apply H.
Qed.

Lemma nlookup_mark_cell : forall log m c,
  nlookup c (mark_cell log m) = if N.eqb m c then Some (true, match nlookup m log with Some (_, n) => n | None => 0%N end) else nlookup c log.
Proof.
  intros log m c. unfold mark_cell. cbn [nlookup]. destruct (N.eqb m c) eqn:E; auto.
  apply nlookup_nremove_neq. apply N.eqb_neq in E. congruence.
Qed.
Lemma nlookup_marks : forall marks log c,
  (In c marks -> exists n, nlookup c (fold_left mark_cell marks log) = Some (true, n)) /\
  (~ In c marks -> nlookup c (fold_left mark_cell marks log) = nlookup c log).
Proof.
  induction marks as [|m t IH]; intros log c; cbn [fold_left In].
  - split; [tauto|auto].
  - destruct (IH (mark_cell log m) c) as [IH1 IH2]. split.
    + intros [E|Hin].
      * subst m. destruct (in_dec N.eq_dec c t) as [Hi|Hn]; [apply IH1; exact Hi|].
        rewrite IH2 by exact Hn. rewrite nlookup_mark_cell, N.eqb_refl. eauto.
      * apply IH1. exact Hin.
    + intros Hn. rewrite IH2 by tauto. rewrite nlookup_mark_cell.
      assert (N.eqb m c = false) as -> by (apply N.eqb_neq; tauto). reflexivity.
Qed.

(* inside the transaction: cells outside the batch's marks keep the invariant *)
Definition inv_outside (marks : list N) (t : disk) : Prop :=
  forall c, c <> 0%N -> ~ In c marks -> cellinv t c.

Lemma inv_outside_apply_ops : forall marks ops t,
  (forall o, In o ops -> op_cell o = 0%N \/ In (op_cell o) marks) ->
  inv_outside marks t -> inv_outside marks (apply_ops t ops).
Proof.
  intros marks ops t Hc H c Hc0 Hn. specialize (H c Hc0 Hn). unfold cellinv in *.
  rewrite apply_ops_log. rewrite count_apply_ops_other; [exact H|].
  intros o Ho E. destruct (Hc o Ho) as [Z|I]; [congruence|]. rewrite E in I. contradiction.
Qed.
Lemma inv_outside_recompute : forall marks t, inv_outside marks t -> inv_outside marks (recompute t).
Proof. intros marks t H c Hc Hn. apply cellinv_recompute. apply H; assumption. Qed.

Lemma in_eff_marks_batch : forall sk b r c, In r b -> In c (eff_marks sk r) -> In c (batch_marks sk b).
Proof. intros sk b r c Hr Hc. unfold batch_marks. apply in_flat_map. exists r. split; assumption. Qed.

Lemma in_req_ops : forall r g st o, In g (r_groups r) -> In st g -> In o st -> In o (req_ops r).
Proof.
  intros r g st o Hg Hs Ho. unfold req_ops. apply in_concat. exists (concat g). split.
  - apply in_map. exact Hg.
  - apply in_concat. exists st. split; assumption.
Qed.
Lemma inv_outside_group : forall marks a g t,
  (forall st, In st g -> forall o, In o st -> op_cell o = 0%N \/ In (op_cell o) marks) ->
  inv_outside marks t -> inv_outside marks (group_eff a t g).
Proof.
  intros marks a g t Hg H. unfold group_eff.
  assert (Hp : inv_outside marks (group_pre a t)).
  { unfold group_pre. destruct (a_kind a); try exact H. apply inv_outside_recompute. exact H. }
  revert Hp. generalize (group_pre a t). clear H t. induction g as [|st g IH]; intros t H; cbn [fold_left]; [exact H|].
  apply IH.
  - intros st' Hst'. apply Hg. right. exact Hst'.
  - unfold stmt_eff. destruct (a_kind a); try (apply inv_outside_apply_ops; [apply (Hg st); left; reflexivity|exact H]). exact H.
Qed.
Lemma inv_outside_req : forall sk marks r t,
  Covers sk r -> (forall c, In c (eff_marks sk r) -> In c marks) ->
  inv_outside marks t -> inv_outside marks (req_eff sk t r).
Proof.
  intros sk marks r t Hcov Hsub H. unfold req_eff.
  destruct (arm_of sk (r_kind r)) as [a|] eqn:Ea; [|exact H].
  destruct (a_fallible a); [|exact H].
  assert (Hg : forall g, In g (r_groups r) -> forall st, In st g -> forall o, In o st -> op_cell o = 0%N \/ In (op_cell o) marks).
  { intros g Hgin st Hst o Ho. destruct (Hcov o) as [Z|I]; [eapply in_req_ops; eauto|auto|auto]. }
  clear Hcov. revert t H. induction (r_groups r) as [|g gs IH]; intros t H; cbn [fold_left]; [exact H|].
  apply IH.
  - intros g' Hg'. apply Hg. right. exact Hg'.
  - apply inv_outside_group; [apply Hg; left; reflexivity|exact H].
Qed.

Theorem txn_body_loginv : forall sk b d,
  (forall r, In r b -> Covers sk r) -> LogInv d -> LogInv (txn_body sk b d).
Proof.
  intros sk b d Hcov Hinv. unfold txn_body.
  set (marks := batch_marks sk b).
  assert (Hout : inv_outside marks (fold_left (req_eff sk) b d)).
  { assert (Hsub : forall r, In r b -> forall c, In c (eff_marks sk r) -> In c marks).
    { intros r Hr c Hc. eapply in_eff_marks_batch; eauto. }
    assert (H0 : inv_outside marks d) by (intros c Hc _; apply Hinv; exact Hc).
    clearbody marks. clear Hinv. revert d H0. induction b as [|r b IH]; intros d H0; cbn [fold_left]; [exact H0|].
    apply IH.
    - intros r' Hr'. apply Hcov. right. exact Hr'.
    - intros r' Hr'. apply Hsub. right. exact Hr'.
    - apply inv_outside_req; [apply Hcov; left; reflexivity|apply Hsub; left; reflexivity|exact H0]. }
  intros c Hc. unfold cellinv. cbn [write_marks d_log]. rewrite count_write_marks.
  destruct (nlookup_marks marks (d_log (fold_left (req_eff sk) b d)) c) as [H1 H2].
  destruct (in_dec N.eq_dec c marks) as [Hi|Hn].
  - destruct (H1 Hi) as [n ->]. left. reflexivity.
  - rewrite (H2 Hn). apply Hout; assumption.
Qed.

(* ------------------------------------------------------------------ rows and deletion log of a transaction *)
Definition data_eq (d1 d2 : disk) : Prop := d_rows d1 = d_rows d2 /\ d_tombs d1 = d_tombs d2.
Lemma data_eq_refl : forall d, data_eq d d. Proof. split; reflexivity. Qed.
Lemma data_eq_trans : forall a b c, data_eq a b -> data_eq b c -> data_eq a c.
Proof. intros a b c [H1 H2] [H3 H4]. split; congruence. Qed.
Lemma data_eq_apply_op : forall d1 d2 o, data_eq d1 d2 -> data_eq (apply_op d1 o) (apply_op d2 o).
Proof. intros d1 d2 o [H1 H2]. destruct o; split; cbn [apply_op d_rows d_tombs]; congruence. Qed.
Lemma data_eq_apply_ops : forall l d1 d2, data_eq d1 d2 -> data_eq (apply_ops d1 l) (apply_ops d2 l).
Proof.
  induction l as [|o t IH]; intros d1 d2 H; cbn [apply_ops fold_left]; auto.
  apply IH. apply data_eq_apply_op. exact H.
Qed.
Lemma data_eq_recompute : forall d, data_eq (recompute d) d. Proof. split; reflexivity. Qed.
Lemma data_eq_write_marks : forall d m, data_eq (write_marks d m) d. Proof. split; reflexivity. Qed.

(* the row operations a request contributes to its transaction *)
Definition eff_ops (sk : skeleton) (r : req) : list op :=
  match arm_of sk (r_kind r) with
  | Some a => if a_fallible a then match a_kind a with KCompute => [] | _ => req_ops r end else []
  | None => []
  end.

Lemma fold_apply_ops_concat : forall gs t, fold_left apply_ops gs t = apply_ops t (concat gs).
Proof.
  induction gs as [|g gs IH]; intros t; cbn [fold_left concat]; auto.
  rewrite IH, apply_ops_app. reflexivity.
Qed.
Lemma group_eff_data : forall a t g,
  data_eq (group_eff a t g) (apply_ops t (match a_kind a with KCompute => [] | _ => concat g end)).
Proof.
  intros a t g. unfold group_eff, group_pre, stmt_eff. destruct (a_kind a);
    try (change (fold_left (fun t0 s => apply_ops t0 s) g t) with (fold_left apply_ops g t);
         rewrite fold_apply_ops_concat; apply data_eq_refl).
  cbn [apply_ops fold_left]. induction g as [|st g IH]; cbn [fold_left]; [apply data_eq_recompute|exact IH].
Qed.
Lemma groups_eff_data : forall a gs t,
  data_eq (fold_left (group_eff a) gs t)
          (apply_ops t (match a_kind a with KCompute => [] | _ => concat (map (@concat op) gs) end)).
Proof.
  intros a. induction gs as [|g gs IH]; intros t; cbn [fold_left map concat].
  - destruct (a_kind a); apply data_eq_refl.
  - eapply data_eq_trans; [apply IH|].
    pose proof (group_eff_data a t g) as Hg. destruct (a_kind a);
      try (rewrite apply_ops_app; apply data_eq_apply_ops; exact Hg).
    cbn [apply_ops fold_left] in *. exact Hg.
Qed.
Lemma req_eff_data : forall sk t r, data_eq (req_eff sk t r) (apply_ops t (eff_ops sk r)).
Proof.
  intros sk t r. unfold req_eff, eff_ops.
  destruct (arm_of sk (r_kind r)) as [a|]; [|apply data_eq_refl].
  destruct (a_fallible a); [|apply data_eq_refl].
  unfold req_ops. apply groups_eff_data.
Qed.
Lemma txn_body_data : forall sk b d, data_eq (txn_body sk b d) (apply_ops d (flat_map (eff_ops sk) b)).
Proof.
  intros sk b d. unfold txn_body. eapply data_eq_trans; [apply data_eq_write_marks|].
  revert d. induction b as [|r b IH]; intros d; cbn [fold_left flat_map]; [apply data_eq_refl|].
  rewrite apply_ops_app. eapply data_eq_trans; [apply IH|]. apply data_eq_apply_ops. apply req_eff_data.
Qed.

(* ------------------------------------------------------------------ a whole run *)
Definition sel_ops (sk : skeleton) (items : list item) : list op :=
  flat_map (fun x => if it_committed x then eff_ops sk (it_req x) else []) items.

Lemma ack_batch_items : forall sk ok b au,
  map it_req (fst (ack_batch sk ok au b)) = b /\
  Forall (fun x => it_committed x = ok) (fst (ack_batch sk ok au b)).
Proof.
  induction b as [|r b IH]; intros au; cbn [ack_batch].
  - split; [reflexivity|constructor].
  - destruct (ack_req sk ok au r) as [a au1]. specialize (IH au1).
    destruct (ack_batch sk ok au1 b) as [l au2]. cbn [fst map] in *. destruct IH as [IH1 IH2].
    split; [unfold it_req at 1; cbn [fst]; congruence|constructor; [reflexivity|exact IH2]].
Qed.

Lemma sel_ops_const : forall sk (items : list item) ok,
  Forall (fun x => it_committed x = ok) items ->
  sel_ops sk items = if ok then flat_map (eff_ops sk) (map it_req items) else [].
Proof.
  intros sk items ok H. unfold sel_ops. induction H as [|x l Hx Hl IH]; cbn [flat_map map].
  - destruct ok; reflexivity.
  - rewrite IH, Hx. destruct ok; reflexivity.
Qed.
Lemma sel_ops_app : forall sk l1 l2, sel_ops sk (l1 ++ l2) = sel_ops sk l1 ++ sel_ops sk l2.
Proof. intros. unfold sel_ops. apply flat_map_app. Qed.

Lemma items_dead_req : forall (b : list req) c,
  map it_req (@map req (req * option bool * bool) (fun q => (q, @None bool, c)) b) = b.
Proof.
  intros b c. induction b as [|q b IH]; cbn [map]; auto. unfold it_req at 1. cbn [fst]. congruence.
Qed.
Lemma sel_ops_dead : forall sk (b : list req) c,
  sel_ops sk (@map req (req * option bool * bool) (fun q => (q, @None bool, c)) b) =
  if c then flat_map (eff_ops sk) b else [].
Proof.
  intros sk b c. unfold sel_ops. induction b as [|q b IH]; cbn [map flat_map].
  - destruct c; reflexivity.
  - rewrite IH. unfold it_committed, it_req. cbn [fst snd]. destruct c; reflexivity.
Qed.

Theorem run_batches_structure : forall sk sched bs n st au,
  let r := run_batches sk sched n st au bs in
  map it_req (rr_items r) = concat bs /\
  data_eq (w_disk (rr_state r)) (apply_ops (w_disk st) (sel_ops sk (rr_items r))).
Proof.
  intros sk sched. induction bs as [|b bs IH]; intros n st au; cbv zeta; cbn [run_batches].
  - cbn. split; [reflexivity|apply data_eq_refl].
  - pose proof (run_batch_atomic sk sched n st b) as Hat. cbv zeta in Hat.
    destruct (run_batch sk sched n st b) as [[[st' o] n'] last]. cbn [fst snd] in Hat.
    destruct o as [ok|c].
    + pose proof (ack_batch_items sk ok b au) as [Hi1 Hi2].
      destruct (ack_batch sk ok au b) as [items au']. cbn [fst] in Hi1, Hi2.
      specialize (IH n' st' au'). cbv zeta in IH. destruct IH as [IH1 IH2].
      cbn [rr_items rr_state concat]. split.
      * rewrite map_app, Hi1, IH1. reflexivity.
      * rewrite sel_ops_app, apply_ops_app. eapply data_eq_trans; [exact IH2|].
        apply data_eq_apply_ops. rewrite (sel_ops_const sk items ok Hi2), Hi1.
        destruct ok; cbn [batch_post] in Hat.
        -- destruct Hat as [_ [Hd _]]. rewrite Hd. apply txn_body_data.
        -- rewrite Hat. apply data_eq_refl.
    + cbn [rr_items rr_state concat]. split.
      * rewrite map_app, !items_dead_req. reflexivity.
      * rewrite sel_ops_app, !sel_ops_dead, app_nil_r.
        destruct c; cbn [batch_post] in Hat.
        -- destruct Hat as [_ [Hd _]]. rewrite Hd. apply txn_body_data.
        -- rewrite Hat. apply data_eq_refl.
Qed.

Theorem run_batches_loginv : forall sk sched bs n st au,
  (forall r, In r (concat bs) -> Covers sk r) ->
  LogInv (w_disk st) -> LogInv (w_disk (rr_state (run_batches sk sched n st au bs))).
Proof.
  intros sk sched. induction bs as [|b bs IH]; intros n st au Hcov Hinv; cbn [run_batches]; [exact Hinv|].
  pose proof (run_batch_atomic sk sched n st b) as Hat. cbv zeta in Hat.
  destruct (run_batch sk sched n st b) as [[[st' o] n'] last]. cbn [fst snd] in Hat.
  assert (Hst' : LogInv (w_disk st')).
  { assert (Hb : forall r, In r b -> Covers sk r) by (intros r Hr; apply Hcov; cbn [concat]; apply in_or_app; left; exact Hr).
    destruct o as [[|]|[|]]; cbn [batch_post] in Hat.
    - destruct Hat as [_ [Hd _]]. rewrite Hd. apply txn_body_loginv; assumption.
    - rewrite Hat. exact Hinv.
    - destruct Hat as [_ [Hd _]]. rewrite Hd. apply txn_body_loginv; assumption.
    - rewrite Hat. exact Hinv. }
  destruct o as [ok|c].
  - destruct (ack_batch sk ok au b) as [items au']. cbn [rr_state].
    apply IH; [|exact Hst']. intros r Hr. apply Hcov. cbn [concat]. apply in_or_app. right. exact Hr.
  - cbn [rr_state]. exact Hst'.
Qed.

(* ------------------------------------------------------------------ one batch, used by the start script *)
Lemma run_batch_loginv : forall sk sched n st b,
  (forall r, In r b -> Covers sk r) -> LogInv (w_disk st) ->
  LogInv (w_disk (fst (fst (fst (run_batch sk sched n st b))))).
Proof.
  intros sk sched n st b Hb Hinv.
  pose proof (run_batch_atomic sk sched n st b) as Hat. cbv zeta in Hat.
  destruct (run_batch sk sched n st b) as [[[st' o] n'] last]. cbn [fst snd] in *.
  destruct o as [[|]|[|]]; cbn [batch_post] in Hat.
  - destruct Hat as [_ [Hd _]]. rewrite Hd. apply txn_body_loginv; assumption.
  - rewrite Hat. exact Hinv.
  - destruct Hat as [_ [Hd _]]. rewrite Hd. apply txn_body_loginv; assumption.
  - rewrite Hat. exact Hinv.
Qed.

(* no fault: the batch is committed and acknowledged *)
Definition all_go : schedule := fun _ => Continue.
Lemma stmts_run_go_all : forall a ss n t first, exists n', stmts_run all_go a n t ss first = TGo n' (fold_left (stmt_eff a) ss t).
Proof.
  intros a. induction ss as [|s ss IH]; intros n t first; cbn [stmts_run fold_left]; [eauto|].
  destruct first; [apply IH|]. unfold all_go at 1. apply IH.
Qed.
Lemma group_steps_go_all : forall a gs n t, exists n', fold_left (group_step all_go a) gs (TGo n t) = TGo n' (fold_left (group_eff a) gs t).
Proof.
  intros a. induction gs as [|g gs IH]; intros n t; cbn [fold_left]; [eauto|].
  unfold group_step at 2. unfold all_go at 1.
  destruct (stmts_run_go_all a g (n + 1)%N (group_pre a t) true) as [n2 E]. rewrite E. unfold all_go at 1.
  fold (group_eff a t g). apply IH.
Qed.
Lemma req_steps_go_all : forall sk b n t, exists n', fold_left (req_step sk all_go) b (TGo n t) = TGo n' (fold_left (req_eff sk) b t).
Proof.
  intros sk. induction b as [|r b IH]; intros n t; cbn [fold_left]; [eauto|].
  unfold req_step at 2. unfold req_eff at 2. destruct (arm_of sk (r_kind r)) as [a|]; [|apply IH].
  destruct (a_fallible a); [|apply IH].
  destruct (group_steps_go_all a (r_groups r) n t) as [n2 E]. rewrite E. apply IH.
Qed.
Lemma run_batch_go_all : forall sk n st b, w_stuck st = false ->
  exists n' last, run_batch sk all_go n st b = ({| w_disk := txn_body sk b (w_disk st); w_stuck := false |}, Returned true, n', last).
Proof.
  intros sk n st b Hs. unfold run_batch. unfold all_go at 1. rewrite Hs.
  destruct (req_steps_go_all sk b (n + 1)%N (w_disk st)) as [n1 E]. rewrite E.
  unfold all_go at 1. unfold all_go at 1. unfold all_go at 1. unfold ack_point. unfold all_go at 1.
  unfold txn_body. eauto.
Qed.
Lemma run_batches_go_all : forall sk bs n st au, w_stuck st = false ->
  Forall (fun x => it_committed x = true) (rr_items (run_batches sk all_go n st au bs)) /\
  rr_alive (run_batches sk all_go n st au bs) = true.
Proof.
  intros sk. induction bs as [|b bs IH]; intros n st au Hs; cbn [run_batches]; [split; [constructor|reflexivity]|].
  destruct (run_batch_go_all sk n st b Hs) as [n' [last E]]. rewrite E.
  pose proof (ack_batch_items sk true b au) as [_ Hi2].
  destruct (ack_batch sk true au b) as [items au']. cbn [fst] in Hi2. cbn [rr_items rr_alive].
  destruct (IH n' {| w_disk := txn_body sk b (w_disk st); w_stuck := false |} au' eq_refl) as [IH1 IH2].
  split; [apply Forall_app; split; assumption|exact IH2].
Qed.
