(* SyncP.v — lemmas about the row store of Sync.v: last-writer-wins as a join, the system list. *)
From DV Require Import Sync.
From Coq Require Import Lia.
Open Scope Z_scope.

Definition nodup_ids (l : list nrow) : Prop := NoDup (map n_id l).

(* ---------- find / remove / put ---------- *)
Lemma find_node_some : forall x l n, find_node x l = Some n -> In n l /\ n_id n = x.
Proof.
  intros x l n H. unfold find_node in H. apply find_some in H. destruct H as [Hin Heq].
  apply N.eqb_eq in Heq. auto.
Qed.

Lemma find_node_none : forall x l, find_node x l = None -> forall n, In n l -> n_id n <> x.
Proof.
  intros x l H n Hin Heq. unfold find_node in H.
  apply (find_none _ _ H) in Hin. apply N.eqb_neq in Hin. auto.
Qed.

Lemma find_node_in : forall l n, nodup_ids l -> In n l -> find_node (n_id n) l = Some n.
Proof.
  induction l as [|a l IH]; intros n Hnd Hin; [inversion Hin|].
  unfold find_node in *. cbn [find]. inversion Hnd as [|? ? Hnotin Hnd']; subst.
  destruct Hin as [->|Hin].
  - rewrite N.eqb_refl. reflexivity.
  - destruct (N.eqb (n_id a) (n_id n)) eqn:E.
    + apply N.eqb_eq in E. exfalso. apply Hnotin. rewrite E. apply in_map. exact Hin.
    + apply IH; assumption.
Qed.

Lemma find_node_remove_same : forall x l, find_node x (remove_node x l) = None.
Proof.
  intros x l. induction l as [|a l IH]; [reflexivity|].
  unfold remove_node, find_node in *. cbn [filter].
  destruct (N.eqb (n_id a) x) eqn:E; cbn [negb].
  - exact IH.
  - cbn [find]. rewrite E. exact IH.
Qed.

Lemma find_node_remove_other : forall x y l, x <> y -> find_node x (remove_node y l) = find_node x l.
Proof.
  intros x y l Hxy. induction l as [|a l IH]; [reflexivity|].
  unfold remove_node, find_node in *. cbn [filter find].
  destruct (N.eqb (n_id a) y) eqn:E; cbn [negb].
  - apply N.eqb_eq in E. destruct (N.eqb (n_id a) x) eqn:E2.
    + apply N.eqb_eq in E2. congruence.
    + exact IH.
  - cbn [find]. destruct (N.eqb (n_id a) x); [reflexivity|exact IH].
Qed.

Lemma find_node_put : forall x l n,
  find_node x (put_node l n) = if N.eqb (n_id n) x then Some n else find_node x l.
Proof.
  intros x l n. unfold put_node. unfold find_node at 1. cbn [find]. fold (find_node x (remove_node (n_id n) l)).
  destruct (N.eqb (n_id n) x) eqn:E; [reflexivity|].
  apply N.eqb_neq in E. apply find_node_remove_other. congruence.
Qed.

Lemma in_remove_node : forall x l n, In n (remove_node x l) -> In n l /\ n_id n <> x.
Proof.
  intros x l n H. unfold remove_node in H. apply filter_In in H. destruct H as [H1 H2].
  split; [exact H1|]. apply Bool.negb_true_iff in H2. apply N.eqb_neq in H2. exact H2.
Qed.

Lemma nodup_ids_remove : forall x l, nodup_ids l -> nodup_ids (remove_node x l).
Proof.
  intros x l. unfold nodup_ids, remove_node. induction l as [|a l IH]; intros H; [constructor|].
  cbn [filter]. inversion H as [|? ? Hn Hd]; subst.
  destruct (negb (N.eqb (n_id a) x)).
  - cbn [map]. constructor.
    + intros Hin. apply Hn. apply in_map_iff in Hin. destruct Hin as [m [Hm Hin]].
      apply filter_In in Hin. destruct Hin as [Hin _]. apply in_map_iff. exists m. auto.
    + apply IH. exact Hd.
  - apply IH. exact Hd.
Qed.

Lemma nodup_ids_put : forall l n, nodup_ids l -> nodup_ids (put_node l n).
Proof.
  intros l n H. unfold put_node, nodup_ids. cbn [map]. constructor.
  - intros Hin. apply in_map_iff in Hin. destruct Hin as [m [Hm Hin]].
    apply in_remove_node in Hin. destruct Hin as [_ Hne]. congruence.
  - apply nodup_ids_remove. exact H.
Qed.

Lemma nodup_ids_fold_put : forall f d, nodup_ids d -> nodup_ids (fold_left put_node f d).
Proof.
  induction f as [|a f IH]; intros d H; cbn [fold_left]; [exact H|].
  apply IH. apply nodup_ids_put. exact H.
Qed.

Lemma nodup_ids_filter : forall (P : nrow -> bool) l, nodup_ids l -> nodup_ids (filter P l).
Proof.
  intros P l. unfold nodup_ids. induction l as [|a l IH]; intros H; [constructor|].
  cbn [filter]. inversion H as [|? ? Hn Hd]; subst. destruct (P a).
  - cbn [map]. constructor.
    + intros Hin. apply Hn. apply in_map_iff in Hin. destruct Hin as [m [Hm Hin]].
      apply filter_In in Hin. destruct Hin as [Hin _]. apply in_map_iff. exists m. auto.
    + apply IH. exact Hd.
  - apply IH. exact Hd.
Qed.

Lemma find_node_filter : forall (P : nrow -> bool) x l, nodup_ids l ->
  find_node x (filter P l) = match find_node x l with Some n => if P n then Some n else None | None => None end.
Proof.
  intros P x l. induction l as [|a l IH]; intros H; [reflexivity|].
  inversion H as [|? ? Hn Hd]; subst.
  unfold find_node in *. cbn [filter find].
  destruct (N.eqb (n_id a) x) eqn:E.
  - destruct (P a) eqn:Pa.
    + cbn [find]. rewrite E. reflexivity.
    + (* a is dropped: no other row has that id *)
      apply N.eqb_eq in E.
      destruct (find (fun n => N.eqb (n_id n) x) (filter P l)) eqn:F; [|reflexivity].
      exfalso. apply find_some in F. destruct F as [Fin Feq]. apply filter_In in Fin. destruct Fin as [Fin _].
      apply N.eqb_eq in Feq. apply Hn. rewrite E, <- Feq. apply in_map. exact Fin.
  - destruct (P a); cbn [find]; [rewrite E|]; apply IH; exact Hd.
Qed.

Lemma find_node_fold_put : forall x f d, nodup_ids f ->
  find_node x (fold_left put_node f d) = match find_node x f with Some n => Some n | None => find_node x d end.
Proof.
  intros x f. induction f as [|a f IH]; intros d H; [reflexivity|].
  inversion H as [|? ? Hn Hd]; subst. cbn [fold_left]. rewrite IH by exact Hd.
  assert (Hf : find_node x (a :: f) = if N.eqb (n_id a) x then Some a else find_node x f) by reflexivity.
  rewrite Hf. clear Hf.
  destruct (N.eqb (n_id a) x) eqn:E.
  - destruct (find_node x f) eqn:F.
    + exfalso. apply find_node_some in F. destruct F as [Fin Fid]. apply N.eqb_eq in E.
      apply Hn. rewrite E, <- Fid. apply in_map. exact Fin.
    + rewrite find_node_put, E. reflexivity.
  - destruct (find_node x f); [reflexivity|]. rewrite find_node_put, E. reflexivity.
Qed.

(* ---------- the order on versions ---------- *)
Lemma newer_irrefl : forall n, newer n n = false.
Proof.
  intros n. unfold newer. rewrite Z.ltb_irrefl, N.ltb_irrefl, Bool.andb_false_r. reflexivity.
Qed.

Lemma newer_antisym : forall a b, n_id a = n_id b -> newer a b = false -> newer b a = false -> a = b.
Proof.
  intros [ia ma sa] [ib mb sb] Hid H1 H2. cbn [n_id] in Hid. subst ib.
  unfold newer in *. cbn [n_mdate n_sig] in *.
  apply Bool.orb_false_iff in H1. destruct H1 as [H1a H1b].
  apply Bool.orb_false_iff in H2. destruct H2 as [H2a H2b].
  apply Z.ltb_ge in H1a. apply Z.ltb_ge in H2a.
  assert (ma = mb) by lia. subst mb.
  rewrite Z.eqb_refl in H1b, H2b. cbn [andb] in H1b, H2b.
  apply N.ltb_ge in H1b. apply N.ltb_ge in H2b.
  assert (sa = sb) by lia. subst sb. reflexivity.
Qed.

Lemma newer_asym : forall a b, newer a b = true -> newer b a = false.
Proof.
  intros [ia ma sa] [ib mb sb] H. unfold newer in *. cbn [n_mdate n_sig] in *.
  apply Bool.orb_true_iff in H. apply Bool.orb_false_iff.
  destruct H as [H|H].
  - apply Z.ltb_lt in H. split.
    + apply Z.ltb_ge. lia.
    + apply Bool.andb_false_iff. left. apply Z.eqb_neq. lia.
  - apply Bool.andb_true_iff in H. destruct H as [Hm Hs]. apply Z.eqb_eq in Hm. apply N.ltb_lt in Hs. split.
    + apply Z.ltb_ge. lia.
    + apply Bool.andb_false_iff. right. apply N.ltb_ge. lia.
Qed.

Lemma newer_trans : forall a b c, newer a b = true -> newer b c = true -> newer a c = true.
Proof.
  intros [ia ma sa] [ib mb sb] [ic mc sc] H1 H2. unfold newer in *. cbn [n_mdate n_sig] in *.
  apply Bool.orb_true_iff in H1. apply Bool.orb_true_iff in H2. apply Bool.orb_true_iff.
  destruct H1 as [H1|H1]; destruct H2 as [H2|H2];
    try apply Z.ltb_lt in H1; try apply Z.ltb_lt in H2;
    try (apply Bool.andb_true_iff in H1; destruct H1 as [H1m H1s]; apply Z.eqb_eq in H1m; apply N.ltb_lt in H1s);
    try (apply Bool.andb_true_iff in H2; destruct H2 as [H2m H2s]; apply Z.eqb_eq in H2m; apply N.ltb_lt in H2s).
  - left. apply Z.ltb_lt. lia.
  - left. apply Z.ltb_lt. lia.
  - left. apply Z.ltb_lt. lia.
  - right. apply Bool.andb_true_iff. split; [apply Z.eqb_eq; lia | apply N.ltb_lt; lia].
Qed.

(* not-newer is transitive as well (the order is total on versions of one row) *)
Lemma not_newer_trans : forall a b c, newer a b = false -> newer b c = false -> newer a c = false.
Proof.
  intros [ia ma sa] [ib mb sb] [ic mc sc] H1 H2. unfold newer in *. cbn [n_mdate n_sig] in *.
  apply Bool.orb_false_iff in H1. destruct H1 as [H1a H1b].
  apply Bool.orb_false_iff in H2. destruct H2 as [H2a H2b].
  apply Z.ltb_ge in H1a. apply Z.ltb_ge in H2a.
  apply Bool.orb_false_iff. split.
  - apply Z.ltb_ge. lia.
  - apply Bool.andb_false_iff.
    destruct (Z.eqb mc ma) eqn:E; [|left; reflexivity]. right.
    apply Z.eqb_eq in E. subst mc. assert (mb = ma) by lia. subst mb.
    rewrite Z.eqb_refl in H1b, H2b. cbn [andb] in H1b, H2b.
    apply N.ltb_ge in H1b. apply N.ltb_ge in H2b. apply N.ltb_ge. lia.
Qed.

(* ---------- the join: greatest (mdate, signature) per row id ---------- *)
Definition vjoin (od os : option nrow) : option nrow :=
  match os with
  | None => od
  | Some n => match od with None => Some n | Some e => if newer n e then Some n else Some e end
  end.

Definition same_id (a b : option nrow) : Prop :=
  match a, b with Some x, Some y => n_id x = n_id y | _, _ => True end.

Lemma vjoin_idem : forall a, vjoin a a = a.
Proof. intros [n|]; [|reflexivity]. cbn. rewrite newer_irrefl. reflexivity. Qed.

Lemma vjoin_comm : forall a b, same_id a b -> vjoin a b = vjoin b a.
Proof.
  intros [e|] [n|] Hid; try reflexivity. cbn in Hid. cbn.
  destruct (newer n e) eqn:E1; destruct (newer e n) eqn:E2; try reflexivity.
  - apply newer_asym in E1. congruence.
  - f_equal. symmetry. apply newer_antisym; auto.
Qed.

Lemma vjoin_assoc : forall a b c, same_id a b -> same_id b c -> same_id a c ->
  vjoin (vjoin a b) c = vjoin a (vjoin b c).
Proof.
  intros [x|] [y|] [z|] Hab Hbc Hac; try reflexivity; cbn in *.
  - destruct (newer y x) eqn:Eyx; destruct (newer z y) eqn:Ezy; destruct (newer z x) eqn:Ezx;
      cbn; rewrite ?Eyx, ?Ezy, ?Ezx; try reflexivity.
    + rewrite (newer_trans z y x Ezy Eyx) in Ezx. discriminate.
    + rewrite (not_newer_trans z y x Ezy Eyx) in Ezx. discriminate.
  - match goal with |- context [newer ?a ?b] => destruct (newer a b) end; reflexivity.
Qed.

Lemma vjoin_absorb : forall o n, vjoin (vjoin o (Some n)) (Some n) = vjoin o (Some n).
Proof.
  intros [e|] n; cbn.
  - destruct (newer n e) eqn:E; cbn; [rewrite newer_irrefl|rewrite E]; reflexivity.
  - rewrite newer_irrefl. reflexivity.
Qed.

(* ---------- one day's exchange and a whole pull, on the row lists ---------- *)
Definition merge (d s : list nrow) : list nrow := fold_left put_node (filter (wanted d) s) d.

Fixpoint pull_nodes (days : list Z) (d s : list nrow) : list nrow :=
  match days with [] => d | d0 :: rest => pull_nodes rest (merge d (on_day d0 s)) s end.
Fixpoint pull_count (days : list Z) (d s : list nrow) : nat :=
  match days with
  | [] => O
  | d0 :: rest => (length (filter (wanted d) (on_day d0 s)) + pull_count rest (merge d (on_day d0 s)) s)%nat
  end.

Lemma nodup_ids_merge : forall d s, nodup_ids d -> nodup_ids (merge d s).
Proof. intros. apply nodup_ids_fold_put. assumption. Qed.

Lemma nodup_ids_pull_nodes : forall days d s, nodup_ids d -> nodup_ids (pull_nodes days d s).
Proof.
  induction days as [|d0 rest IH]; intros d s H; cbn [pull_nodes]; [exact H|].
  apply IH. apply nodup_ids_merge. exact H.
Qed.

(* filter_existing + write = join *)
Lemma merge_view : forall x d s, nodup_ids s ->
  find_node x (merge d s) = vjoin (find_node x d) (find_node x s).
Proof.
  intros x d s Hs. unfold merge.
  rewrite find_node_fold_put by (apply nodup_ids_filter; exact Hs).
  rewrite find_node_filter by exact Hs.
  destruct (find_node x s) as [n|] eqn:F; [|reflexivity].
  apply find_node_some in F. destruct F as [_ Fid].
  unfold wanted. rewrite Fid. cbn [vjoin].
  destruct (find_node x d) as [e|]; [|reflexivity].
  destruct (newer n e); reflexivity.
Qed.

Lemma find_node_on_day : forall x d0 s, nodup_ids s ->
  find_node x (on_day d0 s) =
  match find_node x s with Some n => if Z.eqb (day (n_mdate n)) d0 then Some n else None | None => None end.
Proof. intros. unfold on_day. apply find_node_filter. assumption. Qed.

Lemma pull_view : forall days x d s, nodup_ids s ->
  find_node x (pull_nodes days d s) =
  match find_node x s with
  | Some n => if existsb (Z.eqb (day (n_mdate n))) days then vjoin (find_node x d) (Some n) else find_node x d
  | None => find_node x d
  end.
Proof.
  induction days as [|d0 rest IH]; intros x d s Hs; cbn [pull_nodes].
  - destruct (find_node x s); reflexivity.
  - rewrite IH by exact Hs.
    rewrite merge_view by (unfold on_day; apply nodup_ids_filter; exact Hs).
    rewrite find_node_on_day by exact Hs.
    destruct (find_node x s) as [n|]; [|reflexivity].
    cbn [existsb]. destruct (Z.eqb (day (n_mdate n)) d0) eqn:E; cbn [orb].
    + destruct (existsb (Z.eqb (day (n_mdate n))) rest); [apply vjoin_absorb|reflexivity].
    + reflexivity.
Qed.

(* the log comparison selected every day on which the source has a version the receiver wants *)
Definition complete (d s : list nrow) (days : list Z) : Prop :=
  forall n, In n s -> wanted d n = true -> existsb (Z.eqb (day (n_mdate n))) days = true.

Theorem lww_join : forall days x d s, nodup_ids s -> complete d s days ->
  find_node x (pull_nodes days d s) = vjoin (find_node x d) (find_node x s).
Proof.
  intros days x d s Hs Hc. rewrite pull_view by exact Hs.
  destruct (find_node x s) as [n|] eqn:F; [|reflexivity].
  destruct (existsb (Z.eqb (day (n_mdate n))) days) eqn:E; [reflexivity|].
  apply find_node_some in F. destruct F as [Fin Fid].
  destruct (wanted d n) eqn:W.
  - rewrite (Hc n Fin W) in E. discriminate.
  - unfold wanted in W. rewrite Fid in W. cbn [vjoin].
    destruct (find_node x d) as [e|]; [|discriminate]. rewrite W. reflexivity.
Qed.

(* a pull that requests nothing changes nothing, and nothing of the selected days was wanted *)
Lemma pull_count_zero : forall days d s, pull_count days d s = O ->
  pull_nodes days d s = d /\
  forall n, In n s -> existsb (Z.eqb (day (n_mdate n))) days = true -> wanted d n = false.
Proof.
  induction days as [|d0 rest IH]; intros d s H; cbn [pull_nodes pull_count] in *.
  - split; [reflexivity|]. intros n _ E. discriminate.
  - assert (H0 : length (filter (wanted d) (on_day d0 s)) = O) by lia.
    assert (H1 : pull_count rest (merge d (on_day d0 s)) s = O) by lia.
    apply length_zero_iff_nil in H0.
    assert (Hm : merge d (on_day d0 s) = d) by (unfold merge; rewrite H0; reflexivity).
    rewrite Hm in *. destruct (IH d s H1) as [IHa IHb]. split; [exact IHa|].
    intros n Hin E. cbn [existsb] in E. apply Bool.orb_true_iff in E. destruct E as [E|E].
    + destruct (wanted d n) eqn:W; [|reflexivity]. exfalso.
      assert (Hf : In n (filter (wanted d) (on_day d0 s))).
      { apply filter_In. split; [|exact W]. unfold on_day. apply filter_In. split; assumption. }
      rewrite H0 in Hf. inversion Hf.
    + apply IHb; assumption.
Qed.

Definition views_le (d s : list nrow) : Prop := forall n, In n s -> wanted d n = false.

Lemma quiet_complete_le : forall days d s, pull_count days d s = O -> complete d s days -> views_le d s.
Proof.
  intros days d s H0 Hc n Hin. destruct (wanted d n) eqn:W; [|reflexivity].
  destruct (pull_count_zero days d s H0) as [_ Hb]. rewrite (Hb n Hin (Hc n Hin W)) in W. discriminate.
Qed.

(* mutual quiescence = same view *)
Theorem views_le_antisym : forall d s, nodup_ids d -> nodup_ids s -> views_le d s -> views_le s d ->
  forall x, find_node x d = find_node x s.
Proof.
  intros d s Hd Hs Hds Hsd x.
  destruct (find_node x s) as [n|] eqn:Fs.
  - pose proof (find_node_some _ _ _ Fs) as [Hin Hid].
    pose proof (Hds n Hin) as W. unfold wanted in W. rewrite Hid in W.
    destruct (find_node x d) as [e|] eqn:Fd; [|discriminate].
    pose proof (find_node_some _ _ _ Fd) as [Hine Hide].
    pose proof (Hsd e Hine) as W2. unfold wanted in W2. rewrite Hide, Fs in W2.
    f_equal. apply newer_antisym; [congruence|exact W2|exact W].
  - destruct (find_node x d) as [e|] eqn:Fd; [|reflexivity]. exfalso.
    pose proof (find_node_some _ _ _ Fd) as [Hine Hide].
    pose proof (Hsd e Hine) as W2. unfold wanted in W2. rewrite Hide, Fs in W2. discriminate.
Qed.

(* equal views: nothing is wanted (a further pull requests nothing) *)
Lemma same_view_le : forall d s, nodup_ids s -> (forall x, find_node x d = find_node x s) -> views_le d s.
Proof.
  intros d s Hs Hv n Hin. unfold wanted. rewrite Hv, (find_node_in s n Hs Hin). apply newer_irrefl.
Qed.

Lemma views_le_count : forall days d s, views_le d s -> pull_count days d s = O.
Proof.
  induction days as [|d0 rest IH]; intros d s H; cbn [pull_count]; [reflexivity|].
  assert (H0 : filter (wanted d) (on_day d0 s) = []).
  { destruct (filter (wanted d) (on_day d0 s)) as [|a l] eqn:F; [reflexivity|]. exfalso.
    assert (Ha : In a (filter (wanted d) (on_day d0 s))) by (rewrite F; left; reflexivity).
    apply filter_In in Ha. destruct Ha as [Ha W]. unfold on_day in Ha. apply filter_In in Ha. destruct Ha as [Ha _].
    rewrite (H a Ha) in W. discriminate. }
  rewrite H0. unfold merge. rewrite H0. cbn [fold_left length]. apply IH. exact H.
Qed.

(* ---------- the system list ---------- *)
Lemma nth_set_nth : forall (S : sys) k j r,
  nth k (set_nth j r S) empty_replica = if (Nat.eqb k j && Nat.ltb j (length S))%bool then r else nth k S empty_replica.
Proof.
  induction S as [|a S IH]; intros k j r.
  - destruct j; cbn [set_nth]; rewrite Bool.andb_false_r; reflexivity.
  - destruct j as [|j]; cbn [set_nth].
    + destruct k as [|k]; reflexivity.
    + destruct k as [|k]; cbn [nth]; [reflexivity|]. rewrite IH. reflexivity.
Qed.

Lemma length_set_nth : forall (S : sys) j r, length (set_nth j r S) = length S.
Proof.
  induction S as [|a S IH]; intros j r; destruct j; cbn [set_nth length]; try reflexivity. rewrite IH. reflexivity.
Qed.

Lemma set_nth_same : forall (S : sys) j, set_nth j (nth j S empty_replica) S = S.
Proof.
  induction S as [|a S IH]; intros j; destruct j; cbn [set_nth nth]; try reflexivity. rewrite IH. reflexivity.
Qed.

Lemma get_set : forall S p q r,
  get q (set p r S) = if (N.eqb q p && Nat.ltb (N.to_nat p) (length S))%bool then r else get q S.
Proof.
  intros S p q r. unfold get, set. rewrite nth_set_nth.
  destruct (N.eqb q p) eqn:E.
  - apply N.eqb_eq in E. subst q. rewrite Nat.eqb_refl. reflexivity.
  - apply N.eqb_neq in E. assert (Hne : N.to_nat q <> N.to_nat p) by (intros H; apply E; apply N2Nat.inj; exact H).
    apply Nat.eqb_neq in Hne. rewrite Hne. reflexivity.
Qed.

Lemma set_get_same : forall S p, set p (get p S) S = S.
Proof. intros. unfold set, get. apply set_nth_same. Qed.

Lemma length_set : forall S p r, length (set p r S) = length S.
Proof. intros. unfold set. apply length_set_nth. Qed.

Lemma get_out_of_range : forall S p, (length S <= N.to_nat p)%nat -> get p S = empty_replica.
Proof. intros. unfold get. apply nth_overflow. assumption. Qed.

(* ====================================================================================== *)
(* deletion records: keys, the invariant "no row at or below a held deletion record"       *)
(* ====================================================================================== *)
Lemma tomb_eqb_eq : forall a b, tomb_eqb a b = true <-> a = b.
Proof.
  intros [i m d] [i' m' d']. unfold tomb_eqb. cbn [t_id t_mdate t_ddate]. split.
  - intros H. apply Bool.andb_true_iff in H. destruct H as [H H3]. apply Bool.andb_true_iff in H. destruct H as [H1 H2].
    apply N.eqb_eq in H1. apply Z.eqb_eq in H2. apply Z.eqb_eq in H3. congruence.
  - intros H. inversion H. subst. rewrite N.eqb_refl, !Z.eqb_refl. reflexivity.
Qed.
Lemma row_eqb_eq : forall a b, row_eqb a b = true <-> a = b.
Proof.
  intros [i m s] [i' m' s']. unfold row_eqb. cbn [n_id n_mdate n_sig]. split.
  - intros H. apply Bool.andb_true_iff in H. destruct H as [H H3]. apply Bool.andb_true_iff in H. destruct H as [H1 H2].
    apply N.eqb_eq in H1. apply Z.eqb_eq in H2. apply N.eqb_eq in H3. congruence.
  - intros H. inversion H. subst. rewrite !N.eqb_refl, Z.eqb_refl. reflexivity.
Qed.
Lemma edge_eqb_eq : forall a b, edge_eqb a b = true <-> a = b.
Proof.
  intros [i m s] [i' m' s']. unfold edge_eqb. cbn [e_src e_dest e_cdate]. split.
  - intros H. apply Bool.andb_true_iff in H. destruct H as [H H3]. apply Bool.andb_true_iff in H. destruct H as [H1 H2].
    apply N.eqb_eq in H1. apply N.eqb_eq in H2. apply Z.eqb_eq in H3. congruence.
  - intros H. inversion H. subst. rewrite !N.eqb_refl, Z.eqb_refl. reflexivity.
Qed.
Lemma etomb_eqb_eq : forall a b, etomb_eqb a b = true <-> a = b.
Proof.
  intros [i m s d] [i' m' s' d']. unfold etomb_eqb. cbn [et_src et_dest et_cdate et_ddate]. split.
  - intros H. apply Bool.andb_true_iff in H. destruct H as [H H4]. apply Bool.andb_true_iff in H. destruct H as [H H3].
    apply Bool.andb_true_iff in H. destruct H as [H1 H2].
    apply N.eqb_eq in H1. apply N.eqb_eq in H2. apply Z.eqb_eq in H3. apply Z.eqb_eq in H4. congruence.
  - intros H. inversion H. subst. rewrite !N.eqb_refl, !Z.eqb_refl. reflexivity.
Qed.
Lemma has_tomb_in : forall l t, has_tomb l t = true <-> In t l.
Proof.
  intros l t. unfold has_tomb. rewrite existsb_exists. split.
  - intros [u [Hin E]]. apply tomb_eqb_eq in E. subst. exact Hin.
  - intros H. exists t. split; [exact H|apply tomb_eqb_eq; reflexivity].
Qed.
Lemma has_etomb_in : forall l t, has_etomb l t = true <-> In t l.
Proof.
  intros l t. unfold has_etomb. rewrite existsb_exists. split.
  - intros [u [Hin E]]. apply etomb_eqb_eq in E. subst. exact Hin.
  - intros H. exists t. split; [exact H|apply etomb_eqb_eq; reflexivity].
Qed.
Lemma has_row_in : forall l n, has_row l n = true <-> In n l.
Proof.
  intros l n. unfold has_row. rewrite existsb_exists. split.
  - intros [u [Hin E]]. apply row_eqb_eq in E. subst. exact Hin.
  - intros H. exists n. split; [exact H|apply row_eqb_eq; reflexivity].
Qed.

Lemma list_eqb_eq : forall {A} (eqb : A -> A -> bool), (forall a b, eqb a b = true <-> a = b) ->
  forall l1 l2, list_eqb eqb l1 l2 = true -> l1 = l2.
Proof.
  intros A eqb H. induction l1 as [|x l1 IH]; intros [|y l2] E; cbn [list_eqb] in E; try discriminate; [reflexivity|].
  apply Bool.andb_true_iff in E. destruct E as [E1 E2]. apply H in E1. subst. f_equal. apply IH. exact E2.
Qed.
Lemma replica_eqb_eq : forall a b, replica_eqb a b = true -> a = b.
Proof.
  intros [na ta ea xa] [nb tb eb xb] H. unfold replica_eqb in H. cbn [nodes tombs edges etombs] in H.
  apply Bool.andb_true_iff in H. destruct H as [H H4]. apply Bool.andb_true_iff in H. destruct H as [H H3].
  apply Bool.andb_true_iff in H. destruct H as [H1 H2].
  apply (list_eqb_eq row_eqb row_eqb_eq) in H1. apply (list_eqb_eq tomb_eqb tomb_eqb_eq) in H2.
  apply (list_eqb_eq edge_eqb edge_eqb_eq) in H3. apply (list_eqb_eq etomb_eqb etomb_eqb_eq) in H4. congruence.
Qed.

Definition keys_unique (l : list tomb) : Prop := forall a b, In a l -> In b l -> same_key a b = true -> a = b.
Definition ekeys_unique (l : list etomb) : Prop := forall a b, In a l -> In b l -> same_ekey a b = true -> a = b.

Lemma same_key_sym' : forall a b, same_key a b = same_key b a.
Proof. intros a b. unfold same_key. rewrite (N.eqb_sym (t_id a)), (Z.eqb_sym (t_ddate a)). reflexivity. Qed.
Lemma same_ekey_sym : forall a b, same_ekey a b = same_ekey b a.
Proof. intros a b. unfold same_ekey. rewrite (N.eqb_sym (et_src a)), (N.eqb_sym (et_dest a)), (Z.eqb_sym (et_ddate a)). reflexivity. Qed.

Lemma in_tomb_put : forall l t u, In u (tomb_put l t) -> u = t \/ In u l.
Proof.
  intros l t u H. unfold tomb_put in H. destruct (has_tomb l t); [right; exact H|].
  destruct H as [H|H]; [left; auto|right]. apply filter_In in H. tauto.
Qed.
Lemma tomb_put_in : forall l t, In t (tomb_put l t).
Proof.
  intros l t. unfold tomb_put. destruct (has_tomb l t) eqn:E; [apply has_tomb_in; exact E|left; reflexivity].
Qed.
Lemma tomb_put_keep : forall l t u, In u l -> same_key u t = false -> In u (tomb_put l t).
Proof.
  intros l t u H K. unfold tomb_put. destruct (has_tomb l t); [exact H|]. right. apply filter_In. rewrite K. auto.
Qed.
Lemma keys_unique_put : forall l t, keys_unique l -> keys_unique (tomb_put l t).
Proof.
  intros l t H. unfold tomb_put. destruct (has_tomb l t); [exact H|].
  intros a b [<-|Ha] [<-|Hb] K; try reflexivity.
  - apply filter_In in Hb. destruct Hb as [_ Hb]. rewrite same_key_sym' in K. rewrite K in Hb. discriminate.
  - apply filter_In in Ha. destruct Ha as [_ Ha]. rewrite K in Ha. discriminate.
  - apply filter_In in Ha. apply filter_In in Hb. apply H; tauto.
Qed.
Lemma in_etomb_put : forall l t u, In u (etomb_put l t) -> u = t \/ In u l.
Proof.
  intros l t u H. unfold etomb_put in H. destruct (has_etomb l t); [right; exact H|].
  destruct H as [H|H]; [left; auto|right]. apply filter_In in H. tauto.
Qed.
Lemma etomb_put_in : forall l t, In t (etomb_put l t).
Proof.
  intros l t. unfold etomb_put. destruct (has_etomb l t) eqn:E; [apply has_etomb_in; exact E|left; reflexivity].
Qed.
Lemma etomb_put_keep : forall l t u, In u l -> same_ekey u t = false -> In u (etomb_put l t).
Proof.
  intros l t u H K. unfold etomb_put. destruct (has_etomb l t); [exact H|]. right. apply filter_In. rewrite K. auto.
Qed.
Lemma ekeys_unique_put : forall l t, ekeys_unique l -> ekeys_unique (etomb_put l t).
Proof.
  intros l t H. unfold etomb_put. destruct (has_etomb l t); [exact H|].
  intros a b [<-|Ha] [<-|Hb] K; try reflexivity.
  - apply filter_In in Hb. destruct Hb as [_ Hb]. rewrite same_ekey_sym in K. rewrite K in Hb. discriminate.
  - apply filter_In in Ha. destruct Ha as [_ Ha]. rewrite K in Ha. discriminate.
  - apply filter_In in Ha. apply filter_In in Hb. apply H; tauto.
Qed.

(* what the two kinds of record application touch *)
Lemma apply_tomb_fields : forall r t, edges (apply_tomb r t) = edges r /\ etombs (apply_tomb r t) = etombs r.
Proof. intros. split; reflexivity. Qed.
Lemma fold_apply_tomb_fields : forall ts r,
  edges (fold_left apply_tomb ts r) = edges r /\ etombs (fold_left apply_tomb ts r) = etombs r.
Proof.
  induction ts as [|t ts IH]; intros r; cbn [fold_left]; [split; reflexivity|].
  destruct (IH (apply_tomb r t)) as [A B]. rewrite A, B. split; reflexivity.
Qed.
Lemma fold_apply_etomb_fields : forall ts r,
  nodes (fold_left apply_etomb ts r) = nodes r /\ tombs (fold_left apply_etomb ts r) = tombs r.
Proof.
  induction ts as [|t ts IH]; intros r; cbn [fold_left]; [split; reflexivity|].
  destruct (IH (apply_etomb r t)) as [A B]. rewrite A, B. split; reflexivity.
Qed.

Lemma tombs_fold_apply : forall ts r, tombs (fold_left apply_tomb ts r) = fold_left tomb_put ts (tombs r).
Proof. induction ts as [|t ts IH]; intros r; cbn [fold_left]; [reflexivity|]. rewrite IH. reflexivity. Qed.
Lemma etombs_fold_apply : forall ts r, etombs (fold_left apply_etomb ts r) = fold_left etomb_put ts (etombs r).
Proof. induction ts as [|t ts IH]; intros r; cbn [fold_left]; [reflexivity|]. rewrite IH. reflexivity. Qed.

Lemma keys_unique_fold : forall ts l, keys_unique l -> keys_unique (fold_left tomb_put ts l).
Proof. induction ts as [|t ts IH]; intros l H; cbn [fold_left]; [exact H|]. apply IH. apply keys_unique_put. exact H. Qed.
Lemma ekeys_unique_fold : forall ts l, ekeys_unique l -> ekeys_unique (fold_left etomb_put ts l).
Proof. induction ts as [|t ts IH]; intros l H; cbn [fold_left]; [exact H|]. apply IH. apply ekeys_unique_put. exact H. Qed.

(* applying records of a source with unique keys: a record of the source that is applied, or already
   held, is held afterwards *)
Lemma fold_put_has : forall src ts l t, keys_unique src -> (forall u, In u ts -> In u src) -> In t src ->
  In t ts \/ In t l -> In t (fold_left tomb_put ts l).
Proof.
  intros src ts. induction ts as [|u ts IH]; intros l t Hk Hs Ht H; cbn [fold_left].
  - destruct H as [[]|H]. exact H.
  - apply IH; try assumption.
    + intros v Hv. apply Hs. right. exact Hv.
    + destruct H as [[->|H]|H].
      * right. apply tomb_put_in.
      * left. exact H.
      * right. destruct (same_key t u) eqn:K.
        -- assert (t = u) by (apply Hk; [exact Ht|apply Hs; left; reflexivity|exact K]). subst. apply tomb_put_in.
        -- apply tomb_put_keep; assumption.
Qed.
Lemma fold_eput_has : forall src ts l t, ekeys_unique src -> (forall u, In u ts -> In u src) -> In t src ->
  In t ts \/ In t l -> In t (fold_left etomb_put ts l).
Proof.
  intros src ts. induction ts as [|u ts IH]; intros l t Hk Hs Ht H; cbn [fold_left].
  - destruct H as [[]|H]. exact H.
  - apply IH; try assumption.
    + intros v Hv. apply Hs. right. exact Hv.
    + destruct H as [[->|H]|H].
      * right. apply etomb_put_in.
      * left. exact H.
      * right. destruct (same_ekey t u) eqn:K.
        -- assert (t = u) by (apply Hk; [exact Ht|apply Hs; left; reflexivity|exact K]). subst. apply etomb_put_in.
        -- apply etomb_put_keep; assumption.
Qed.

(* ---------- the invariant ---------- *)
Definition inv_replica (r : replica) : Prop :=
  forall n t, In n (nodes r) -> In t (tombs r) -> t_id t = n_id n -> t_mdate t < n_mdate n.

Lemma below_tomb_false : forall ts n, below_tomb ts n = false ->
  forall t, In t ts -> t_id t = n_id n -> t_mdate t < n_mdate n.
Proof.
  intros ts n H t Hin Hid. unfold below_tomb in H.
  destruct (N.eqb (t_id t) (n_id n) && (n_mdate n <=? t_mdate t))%bool eqn:E.
  - assert (existsb (fun t0 => (N.eqb (t_id t0) (n_id n) && (n_mdate n <=? t_mdate t0))%bool) ts = true)
      by (apply existsb_exists; exists t; split; assumption). congruence.
  - rewrite Hid, N.eqb_refl in E. cbn [andb] in E. apply Z.leb_gt in E. exact E.
Qed.
Lemma below_tomb_true : forall ts n, below_tomb ts n = true ->
  exists t, In t ts /\ t_id t = n_id n /\ n_mdate n <= t_mdate t.
Proof.
  intros ts n H. unfold below_tomb in H. apply existsb_exists in H. destruct H as [t [Hin E]].
  apply Bool.andb_true_iff in E. destruct E as [E1 E2]. apply N.eqb_eq in E1. apply Z.leb_le in E2. eauto.
Qed.

Lemma in_fold_put : forall f d n, In n (fold_left put_node f d) -> In n f \/ In n d.
Proof.
  induction f as [|a f IH]; intros d n H; cbn [fold_left] in H; [right; exact H|].
  apply IH in H. destruct H as [H|H]; [left; right; exact H|].
  unfold put_node in H. destruct H as [H|H]; [left; left; exact H|].
  apply in_remove_node in H. right. tauto.
Qed.

Lemma inv_apply_tomb : forall r t, inv_replica r -> inv_replica (apply_tomb r t).
Proof.
  intros r t H n u Hn Hu Hid. unfold apply_tomb, with_nodes_tombs in *. cbn [nodes tombs] in *.
  apply filter_In in Hn. destruct Hn as [Hn Hc].
  apply in_tomb_put in Hu. destruct Hu as [->|Hu]; [|apply (H n u Hn Hu Hid)].
  apply Bool.negb_true_iff in Hc. unfold covered in Hc. rewrite <- Hid, N.eqb_refl in Hc. cbn [andb] in Hc.
  apply Z.leb_gt in Hc. exact Hc.
Qed.
Lemma inv_fold_apply_tomb : forall ts r, inv_replica r -> inv_replica (fold_left apply_tomb ts r).
Proof. induction ts as [|t ts IH]; intros r H; cbn [fold_left]; [exact H|]. apply IH. apply inv_apply_tomb. exact H. Qed.

Lemma nodup_ids_apply_tomb : forall r t, nodup_ids (nodes r) -> nodup_ids (nodes (apply_tomb r t)).
Proof. intros. unfold apply_tomb, with_nodes_tombs. cbn [nodes]. apply nodup_ids_filter. assumption. Qed.
Lemma nodup_ids_fold_apply : forall ts r, nodup_ids (nodes r) -> nodup_ids (nodes (fold_left apply_tomb ts r)).
Proof. induction ts as [|t ts IH]; intros r H; cbn [fold_left]; [exact H|]. apply IH. apply nodup_ids_apply_tomb. exact H. Qed.

Record good (r : replica) : Prop := {
  g_ids : nodup_ids (nodes r); g_keys : keys_unique (tombs r); g_inv : inv_replica r; g_ekeys : ekeys_unique (etombs r) }.

Lemma good_sync_day : forall src dst cnt d, good dst -> good (fst (sync_day src (dst, cnt) d)).
Proof.
  intros src dst cnt d [G1 G2 G3 G4]. unfold sync_day. cbn [fst].
  set (dst0 := fold_left apply_etomb (etombs_on_day d (etombs src)) dst).
  set (dst1 := fold_left apply_tomb (tombs_on_day d (tombs src)) dst0).
  destruct (fold_apply_etomb_fields (etombs_on_day d (etombs src)) dst) as [N0 T0]. fold dst0 in N0, T0.
  assert (H0 : inv_replica dst0) by (intros n t Hn Ht; rewrite N0 in Hn; rewrite T0 in Ht; apply G3; assumption).
  assert (H1 : inv_replica dst1) by (apply inv_fold_apply_tomb; exact H0).
  constructor; cbn [nodes tombs edges etombs].
  - apply nodup_ids_fold_put. apply nodup_ids_fold_apply. rewrite N0. exact G1.
  - unfold dst1. rewrite tombs_fold_apply. apply keys_unique_fold. rewrite T0. exact G2.
  - intros n t Hn Ht Hid. apply in_fold_put in Hn. destruct Hn as [Hn|Hn]; [|apply (H1 n t Hn Ht Hid)].
    apply filter_In in Hn. destruct Hn as [_ Hf]. apply Bool.andb_true_iff in Hf. destruct Hf as [_ Hb].
    apply Bool.negb_true_iff in Hb. apply (below_tomb_false _ _ Hb t Ht Hid).
  - unfold dst1. rewrite (proj2 (fold_apply_tomb_fields _ dst0)). unfold dst0. rewrite etombs_fold_apply.
    apply ekeys_unique_fold. exact G4.
Qed.

Lemma good_pull : forall src days acc, good (fst acc) -> good (fst (fold_left (sync_day src) days acc)).
Proof.
  induction days as [|d days IH]; intros acc H; cbn [fold_left]; [exact H|].
  apply IH. destruct acc as [dst cnt]. apply good_sync_day. exact H.
Qed.

Definition good_sys (S : sys) : Prop := forall p, good (get p S).

Lemma good_set : forall S p r, good_sys S -> good r -> good_sys (set p r S).
Proof.
  intros S p r H Hr q. rewrite get_set. destruct (N.eqb q p && Nat.ltb (N.to_nat p) (length S))%bool; [exact Hr|apply H].
Qed.

Lemma mentions_false : forall x r, mentions x r = false -> forall t, In t (tombs r) -> t_id t <> x.
Proof.
  intros x r H t Hin Hid. unfold mentions in H. apply Bool.orb_false_iff in H. destruct H as [_ H].
  assert (existsb (fun t0 => N.eqb (t_id t0) x) (tombs r) = true)
    by (apply existsb_exists; exists t; split; [exact Hin|apply N.eqb_eq; exact Hid]).
  congruence.
Qed.

(* re-dating a row inside the envelope keeps the invariant *)
Lemma inv_redate : forall r x t sg e, inv_replica r -> In e (nodes r) -> n_id e = x -> (t <? n_mdate e) = false ->
  forall n u, In n (put_node (nodes r) {| n_id := x; n_mdate := t; n_sig := sg |}) -> In u (tombs r) -> t_id u = n_id n ->
  t_mdate u < n_mdate n.
Proof.
  intros r x t sg e H Fin Fid Hg n u Hn Hu Hid. unfold put_node in Hn. destruct Hn as [<-|Hn].
  - cbn [n_id n_mdate] in *. apply Z.ltb_ge in Hg.
    assert (t_mdate u < n_mdate e) by (apply (H e u Fin Hu); congruence). lia.
  - apply in_remove_node in Hn. apply (H n u (proj1 Hn) Hu Hid).
Qed.

Lemma good_create : forall r x t sg, good r -> mentions x r = false ->
  good (with_nodes r (put_node (nodes r) {| n_id := x; n_mdate := t; n_sig := sg |})).
Proof.
  intros r x t sg [G1 G2 G3 G4] Hg. constructor; unfold with_nodes; cbn [nodes tombs edges etombs]; try assumption.
  - apply nodup_ids_put. exact G1.
  - intros n u Hn Hu Hid. unfold put_node in Hn. destruct Hn as [<-|Hn].
    + cbn [n_id] in Hid. exfalso. apply (mentions_false _ _ Hg u Hu Hid).
    + apply in_remove_node in Hn. apply (G3 n u (proj1 Hn) Hu Hid).
Qed.
Lemma good_create_rows : forall sgs r x t, good r -> snd (create_rows r x t sgs) = false -> good (fst (create_rows r x t sgs)).
Proof.
  induction sgs as [|sg sgs IH]; intros r x t G Hg; cbn [create_rows] in *; [exact G|].
  destruct (create_rows (with_nodes r (put_node (nodes r) {| n_id := x; n_mdate := t; n_sig := sg |})) (x + 1)%N t sgs) as [r' g] eqn:E.
  cbn [fst snd] in *. apply Bool.orb_false_iff in Hg. destruct Hg as [H1 H2].
  specialize (IH (with_nodes r (put_node (nodes r) {| n_id := x; n_mdate := t; n_sig := sg |})) (x + 1)%N t (good_create r x t sg G H1)).
  rewrite E in IH. cbn [fst snd] in IH. apply IH. exact H2.
Qed.
Lemma create_rows_fields : forall sgs r x t,
  tombs (fst (create_rows r x t sgs)) = tombs r /\ edges (fst (create_rows r x t sgs)) = edges r /\
  etombs (fst (create_rows r x t sgs)) = etombs r /\ (nodup_ids (nodes r) -> nodup_ids (nodes (fst (create_rows r x t sgs)))).
Proof.
  induction sgs as [|sg sgs IH]; intros r x t; cbn [create_rows]; [repeat split; auto|].
  specialize (IH (with_nodes r (put_node (nodes r) {| n_id := x; n_mdate := t; n_sig := sg |})) (x + 1)%N t).
  destruct (create_rows (with_nodes r (put_node (nodes r) {| n_id := x; n_mdate := t; n_sig := sg |})) (x + 1)%N t sgs) as [r' g].
  cbn [fst] in *. unfold with_nodes in IH. cbn [nodes tombs edges etombs] in IH. destruct IH as [A [B [C D]]].
  repeat split; try assumption. intros H. apply D. apply nodup_ids_put. exact H.
Qed.

(* every step inside the envelope preserves: one row per id, one record per key, no row at or below a
   held deletion record *)
Lemma step_good : forall S o, good_sys S -> snd (step S o) = false -> good_sys (fst (fst (step S o))).
Proof.
  intros S o H Hg. destruct o as [p x t sg|p x0 t sgs|p x t sg|p x t|p x y t sg|p x y t sg|d s days]; cbn [step] in *.
  - cbn [fst snd] in *. apply good_set; [exact H|]. apply good_create; [apply H|exact Hg].
  - pose proof (good_create_rows sgs (get p S) x0 t (H p)) as GC.
    destruct (create_rows (get p S) x0 t sgs) as [r g]. cbn [fst snd] in *. apply good_set; [exact H|]. apply GC. exact Hg.
  - destruct (find_node x (nodes (get p S))) as [e|] eqn:F; cbn [fst snd] in *; [|exact H].
    apply good_set; [exact H|]. destruct (H p) as [G1 G2 G3 G4].
    apply find_node_some in F. destruct F as [Fin Fid].
    constructor; unfold with_nodes; cbn [nodes tombs edges etombs]; try assumption.
    + apply nodup_ids_put. exact G1.
    + intros n u Hn Hu Hid. cbn [nodes tombs] in *. apply (inv_redate (get p S) x t sg e G3 Fin Fid Hg n u Hn Hu Hid).
  - destruct (find_node x (nodes (get p S))) as [e|] eqn:F; cbn [fst snd] in *; [|exact H].
    apply good_set; [exact H|]. destruct (H p) as [G1 G2 G3 G4]. constructor; cbn [nodes tombs edges etombs]; try assumption.
    + apply nodup_ids_remove. exact G1.
    + apply keys_unique_put. exact G2.
    + intros n u Hn Hu Hid. apply in_remove_node in Hn. destruct Hn as [Hn Hne].
      apply in_tomb_put in Hu. destruct Hu as [->|Hu]; [cbn [t_id] in Hid; congruence|].
      apply (G3 n u Hn Hu Hid).
  - destruct (find_node x (nodes (get p S))) as [ex|] eqn:F; [|exact H].
    destruct (find_node y (nodes (get p S))); [|exact H].
    destruct (find_edge x y (edges (get p S))); cbn [fst snd] in *; [exact H|].
    apply good_set; [exact H|]. destruct (H p) as [G1 G2 G3 G4].
    apply find_node_some in F. destruct F as [Fin Fid].
    constructor; cbn [nodes tombs edges etombs]; try assumption.
    + apply nodup_ids_put. exact G1.
    + intros n0 u Hn Hu Hid. cbn [nodes tombs] in *. apply (inv_redate (get p S) x t sg ex G3 Fin Fid Hg n0 u Hn Hu Hid).
  - destruct (find_node x (nodes (get p S))) as [ex|] eqn:F; [|exact H].
    apply find_node_some in F. destruct F as [Fin Fid]. destruct (H p) as [G1 G2 G3 G4].
    destruct (find_edge x y (edges (get p S))); cbn [fst snd] in *; apply good_set; try exact H;
      constructor; unfold with_nodes; cbn [nodes tombs edges etombs]; try assumption;
      try (apply nodup_ids_put; exact G1);
      try (intros n0 u Hn Hu Hid; cbn [nodes tombs] in *; apply (inv_redate (get p S) x t sg ex G3 Fin Fid Hg n0 u Hn Hu Hid)).
    apply ekeys_unique_put. exact G4.
  - unfold pull_replica.
    pose proof (good_pull (get s S) days (get d S, 0%N) (H d)) as HG.
    destruct (fold_left (sync_day (get s S)) days (get d S, 0%N)) as [r cnt]. cbn [fst] in *.
    apply good_set; assumption.
Qed.

Lemma run_good : forall ops S, good_sys S -> run_guard S ops = false -> good_sys (run_sys S ops).
Proof.
  induction ops as [|o ops IH]; intros S H Hg; cbn [run_sys run_guard] in *; [exact H|].
  apply Bool.orb_false_iff in Hg. destruct Hg as [G1 G2]. apply IH; [|exact G2]. apply step_good; assumption.
Qed.

Lemma run_good_trace : forall ops S, good_sys S -> run_guard S ops = false -> Forall good_sys (run_trace S ops).
Proof.
  induction ops as [|o ops IH]; intros S H Hg; cbn [run_trace run_guard] in *; [constructor|].
  apply Bool.orb_false_iff in Hg. destruct Hg as [G1 G2].
  pose proof (step_good S o H G1) as HS. constructor; [exact HS|]. apply IH; assumption.
Qed.

Lemma init_good : forall n, good_sys (init_sys n).
Proof.
  intros n p. unfold get, init_sys.
  assert (E : nth (N.to_nat p) (repeat empty_replica (N.to_nat n)) empty_replica = empty_replica).
  { destruct (nth_in_or_default (N.to_nat p) (repeat empty_replica (N.to_nat n)) empty_replica) as [H|H];
      [apply repeat_spec in H|]; exact H. }
  rewrite E. constructor; cbn.
  - constructor.
  - intros a b [].
  - intros k t [].
  - intros a b [].
Qed.

Lemma run_guard_app : forall a b S, run_guard S (a ++ b) = (run_guard S a || run_guard (run_sys S a) b)%bool.
Proof.
  induction a as [|o a IH]; intros b S; cbn [app run_guard run_sys]; [reflexivity|].
  rewrite IH, Bool.orb_assoc. reflexivity.
Qed.
Lemma run_sys_app : forall a b S, run_sys S (a ++ b) = run_sys (run_sys S a) b.
Proof. induction a as [|o a IH]; intros b S; cbn [app run_sys]; [reflexivity|apply IH]. Qed.
Lemma run_complete_app : forall a b S,
  run_complete S (a ++ b) = (run_complete S a && run_complete (run_sys S a) b)%bool.
Proof.
  induction a as [|o a IH]; intros b S; cbn [app run_complete run_sys]; [reflexivity|].
  rewrite IH. rewrite Bool.andb_assoc. reflexivity.
Qed.

(* ---------- batching: any split of an answer that loses nothing gives the same result ---------- *)
Lemma fold_left_concat : forall {A B} (f : A -> B -> A) (chunks : list (list B)) (a : A),
  fold_left (fun acc c => fold_left f c acc) chunks a = fold_left f (concat chunks) a.
Proof.
  intros A B f chunks. induction chunks as [|c chunks IH]; intros a; cbn [fold_left concat]; [reflexivity|].
  rewrite fold_left_app. apply IH.
Qed.
Theorem batches_lossless_tombs : forall chunks r,
  apply_tomb_batches chunks r = fold_left apply_tomb (concat chunks) r.
Proof. intros. apply fold_left_concat. Qed.
Theorem batches_lossless_rows : forall chunks l,
  put_batches chunks l = fold_left put_node (concat chunks) l.
Proof. intros. apply fold_left_concat. Qed.

(* ... in particular an empty last batch (the number of rows is an exact multiple of the batch size) changes nothing *)
Theorem batches_empty_tail : forall (chunks : list (list nrow)) l, put_batches (chunks ++ [[]]) l = put_batches chunks l.
Proof. intros. rewrite !batches_lossless_rows, concat_app. cbn [concat]. rewrite !app_nil_r. reflexivity. Qed.
