(* SyncP.v — lemmas about the row store of Sync.v: last-writer-wins as a join, the system list. *)
From DV Require Import Sync.
From Coq Require Import Lia.
Open Scope Z_scope.

Definition nodup_ids (l : list nrow) : Prop := NoDup (map n_id l).

(* ---------- find / remove / put ---------- *)
Lemma find_node_some : forall x l n, find_node x l = Some n -> In n l /\ n_id n = x.
Proof.
  intros x l n H. unfold find_node in H. apply find_some in H. destruct H as [Hin Heq].
  apply N.eqb_eq in Heq. auto.
Qed.

Lemma find_node_none : forall x l, find_node x l = None -> forall n, In n l -> n_id n <> x.
Proof.
  intros x l H n Hin Heq. unfold find_node in H.
  apply (find_none _ _ H) in Hin. apply N.eqb_neq in Hin. auto.
Qed.

Lemma find_node_in : forall l n, nodup_ids l -> In n l -> find_node (n_id n) l = Some n.
Proof.
  induction l as [|a l IH]; intros n Hnd Hin; [inversion Hin|].
  unfold find_node in *. cbn [find]. inversion Hnd as [|? ? Hnotin Hnd']; subst.
  destruct Hin as [->|Hin].
  - rewrite N.eqb_refl. reflexivity.
  - destruct (N.eqb (n_id a) (n_id n)) eqn:E.
    + apply N.eqb_eq in E. exfalso. apply Hnotin. rewrite E. apply in_map. exact Hin.
    + apply IH; assumption.
Qed.

Lemma find_node_remove_same : forall x l, find_node x (remove_node x l) = None.
Proof.
  intros x l. induction l as [|a l IH]; [reflexivity|].
  unfold remove_node, find_node in *. cbn [filter].
  destruct (N.eqb (n_id a) x) eqn:E; cbn [negb].
  - exact IH.
  - cbn [find]. rewrite E. exact IH.
Qed.

Lemma find_node_remove_other : forall x y l, x <> y -> find_node x (remove_node y l) = find_node x l.
Proof.
  intros x y l Hxy. induction l as [|a l IH]; [reflexivity|].
  unfold remove_node, find_node in *. cbn [filter find].
  destruct (N.eqb (n_id a) y) eqn:E; cbn [negb].
  - apply N.eqb_eq in E. destruct (N.eqb (n_id a) x) eqn:E2.
    + apply N.eqb_eq in E2. congruence.
    + exact IH.
  - cbn [find]. destruct (N.eqb (n_id a) x); [reflexivity|exact IH].
Qed.

Lemma find_node_put : forall x l n,
  find_node x (put_node l n) = if N.eqb (n_id n) x then Some n else find_node x l.
Proof.
  intros x l n. unfold put_node. unfold find_node at 1. cbn [find]. fold (find_node x (remove_node (n_id n) l)).
  destruct (N.eqb (n_id n) x) eqn:E; [reflexivity|].
  apply N.eqb_neq in E. apply find_node_remove_other. congruence.
Qed.

Lemma in_remove_node : forall x l n, In n (remove_node x l) -> In n l /\ n_id n <> x.
Proof.
  intros x l n H. unfold remove_node in H. apply filter_In in H. destruct H as [H1 H2].
  split; [exact H1|]. apply Bool.negb_true_iff in H2. apply N.eqb_neq in H2. exact H2.
Qed.

Lemma nodup_ids_remove : forall x l, nodup_ids l -> nodup_ids (remove_node x l).
Proof.
  intros x l. unfold nodup_ids, remove_node. induction l as [|a l IH]; intros H; [constructor|].
  cbn [filter]. inversion H as [|? ? Hn Hd]; subst.
  destruct (negb (N.eqb (n_id a) x)).
  - cbn [map]. constructor.
    + intros Hin. apply Hn. apply in_map_iff in Hin. destruct Hin as [m [Hm Hin]].
      apply filter_In in Hin. destruct Hin as [Hin _]. apply in_map_iff. exists m. auto.
    + apply IH. exact Hd.
  - apply IH. exact Hd.
Qed.

Lemma nodup_ids_put : forall l n, nodup_ids l -> nodup_ids (put_node l n).
Proof.
  intros l n H. unfold put_node, nodup_ids. cbn [map]. constructor.
  - intros Hin. apply in_map_iff in Hin. destruct Hin as [m [Hm Hin]].
    apply in_remove_node in Hin. destruct Hin as [_ Hne]. congruence.
  - apply nodup_ids_remove. exact H.
Qed.

Lemma nodup_ids_fold_put : forall f d, nodup_ids d -> nodup_ids (fold_left put_node f d).
Proof.
  induction f as [|a f IH]; intros d H; cbn [fold_left]; [exact H|].
  apply IH. apply nodup_ids_put. exact H.
Qed.

Lemma nodup_ids_filter : forall (P : nrow -> bool) l, nodup_ids l -> nodup_ids (filter P l).
Proof.
  intros P l. unfold nodup_ids. induction l as [|a l IH]; intros H; [constructor|].
  cbn [filter]. inversion H as [|? ? Hn Hd]; subst. destruct (P a).
  - cbn [map]. constructor.
    + intros Hin. apply Hn. apply in_map_iff in Hin. destruct Hin as [m [Hm Hin]].
      apply filter_In in Hin. destruct Hin as [Hin _]. apply in_map_iff. exists m. auto.
    + apply IH. exact Hd.
  - apply IH. exact Hd.
Qed.

Lemma find_node_filter : forall (P : nrow -> bool) x l, nodup_ids l ->
  find_node x (filter P l) = match find_node x l with Some n => if P n then Some n else None | None => None end.
Proof.
  intros P x l. induction l as [|a l IH]; intros H; [reflexivity|].
  inversion H as [|? ? Hn Hd]; subst.
  unfold find_node in *. cbn [filter find].
  destruct (N.eqb (n_id a) x) eqn:E.
  - destruct (P a) eqn:Pa.
    + cbn [find]. rewrite E. reflexivity.
    + (* a is dropped: no other row has that id *)
      apply N.eqb_eq in E.
      destruct (find (fun n => N.eqb (n_id n) x) (filter P l)) eqn:F; [|reflexivity].
      exfalso. apply find_some in F. destruct F as [Fin Feq]. apply filter_In in Fin. destruct Fin as [Fin _].
      apply N.eqb_eq in Feq. apply Hn. rewrite E, <- Feq. apply in_map. exact Fin.
  - destruct (P a); cbn [find]; [rewrite E|]; apply IH; exact Hd.
Qed.

Lemma find_node_fold_put : forall x f d, nodup_ids f ->
  find_node x (fold_left put_node f d) = match find_node x f with Some n => Some n | None => find_node x d end.
Proof.
  intros x f. induction f as [|a f IH]; intros d H; [reflexivity|].
  inversion H as [|? ? Hn Hd]; subst. cbn [fold_left]. rewrite IH by exact Hd.
  assert (Hf : find_node x (a :: f) = if N.eqb (n_id a) x then Some a else find_node x f) by reflexivity.
  rewrite Hf. clear Hf.
  destruct (N.eqb (n_id a) x) eqn:E.
  - destruct (find_node x f) eqn:F.
    + exfalso. apply find_node_some in F. destruct F as [Fin Fid]. apply N.eqb_eq in E.
      apply Hn. rewrite E, <- Fid. apply in_map. exact Fin.
    + rewrite find_node_put, E. reflexivity.
  - destruct (find_node x f); [reflexivity|]. rewrite find_node_put, E. reflexivity.
Qed.

(* ---------- the order on versions ---------- *)
Lemma newer_irrefl : forall n, newer n n = false.
Proof.
  intros n. unfold newer. rewrite Z.ltb_irrefl, N.ltb_irrefl, Bool.andb_false_r. reflexivity.
Qed.

Lemma newer_antisym : forall a b, n_id a = n_id b -> newer a b = false -> newer b a = false -> a = b.
Proof.
  intros [ia ma sa] [ib mb sb] Hid H1 H2. cbn [n_id] in Hid. subst ib.
  unfold newer in *. cbn [n_mdate n_sig] in *.
  apply Bool.orb_false_iff in H1. destruct H1 as [H1a H1b].
  apply Bool.orb_false_iff in H2. destruct H2 as [H2a H2b].
  apply Z.ltb_ge in H1a. apply Z.ltb_ge in H2a.
  assert (ma = mb) by lia. subst mb.
  rewrite Z.eqb_refl in H1b, H2b. cbn [andb] in H1b, H2b.
  apply N.ltb_ge in H1b. apply N.ltb_ge in H2b.
  assert (sa = sb) by lia. subst sb. reflexivity.
Qed.

Lemma newer_asym : forall a b, newer a b = true -> newer b a = false.
Proof.
  intros [ia ma sa] [ib mb sb] H. unfold newer in *. cbn [n_mdate n_sig] in *.
  apply Bool.orb_true_iff in H. apply Bool.orb_false_iff.
  destruct H as [H|H].
  - apply Z.ltb_lt in H. split.
    + apply Z.ltb_ge. lia.
    + apply Bool.andb_false_iff. left. apply Z.eqb_neq. lia.
  - apply Bool.andb_true_iff in H. destruct H as [Hm Hs]. apply Z.eqb_eq in Hm. apply N.ltb_lt in Hs. split.
    + apply Z.ltb_ge. lia.
    + apply Bool.andb_false_iff. right. apply N.ltb_ge. lia.
Qed.

Lemma newer_trans : forall a b c, newer a b = true -> newer b c = true -> newer a c = true.
Proof.
  intros [ia ma sa] [ib mb sb] [ic mc sc] H1 H2. unfold newer in *. cbn [n_mdate n_sig] in *.
  apply Bool.orb_true_iff in H1. apply Bool.orb_true_iff in H2. apply Bool.orb_true_iff.
  destruct H1 as [H1|H1]; destruct H2 as [H2|H2];
    try apply Z.ltb_lt in H1; try apply Z.ltb_lt in H2;
    try (apply Bool.andb_true_iff in H1; destruct H1 as [H1m H1s]; apply Z.eqb_eq in H1m; apply N.ltb_lt in H1s);
    try (apply Bool.andb_true_iff in H2; destruct H2 as [H2m H2s]; apply Z.eqb_eq in H2m; apply N.ltb_lt in H2s).
  - left. apply Z.ltb_lt. lia.
  - left. apply Z.ltb_lt. lia.
  - left. apply Z.ltb_lt. lia.
  - right. apply Bool.andb_true_iff. split; [apply Z.eqb_eq; lia | apply N.ltb_lt; lia].
Qed.

(* not-newer is transitive as well (the order is total on versions of one row) *)
Lemma not_newer_trans : forall a b c, newer a b = false -> newer b c = false -> newer a c = false.
Proof.
  intros [ia ma sa] [ib mb sb] [ic mc sc] H1 H2. unfold newer in *. cbn [n_mdate n_sig] in *.
  apply Bool.orb_false_iff in H1. destruct H1 as [H1a H1b].
  apply Bool.orb_false_iff in H2. destruct H2 as [H2a H2b].
  apply Z.ltb_ge in H1a. apply Z.ltb_ge in H2a.
  apply Bool.orb_false_iff. split.
  - apply Z.ltb_ge. lia.
  - apply Bool.andb_false_iff.
    destruct (Z.eqb mc ma) eqn:E; [|left; reflexivity]. right.
    apply Z.eqb_eq in E. subst mc. assert (mb = ma) by lia. subst mb.
    rewrite Z.eqb_refl in H1b, H2b. cbn [andb] in H1b, H2b.
    apply N.ltb_ge in H1b. apply N.ltb_ge in H2b. apply N.ltb_ge. lia.
Qed.

(* ---------- the join: greatest (mdate, signature) per row id ---------- *)
Definition vjoin (od os : option nrow) : option nrow :=
  match os with
  | None => od
  | Some n => match od with None => Some n | Some e => if newer n e then Some n else Some e end
  end.

Definition same_id (a b : option nrow) : Prop :=
  match a, b with Some x, Some y => n_id x = n_id y | _, _ => True end.

Lemma vjoin_idem : forall a, vjoin a a = a.
Proof. intros [n|]; [|reflexivity]. cbn. rewrite newer_irrefl. reflexivity. Qed.

Lemma vjoin_comm : forall a b, same_id a b -> vjoin a b = vjoin b a.
Proof.
  intros [e|] [n|] Hid; try reflexivity. cbn in Hid. cbn.
  destruct (newer n e) eqn:E1; destruct (newer e n) eqn:E2; try reflexivity.
  - apply newer_asym in E1. congruence.
  - f_equal. symmetry. apply newer_antisym; auto.
Qed.

Lemma vjoin_assoc : forall a b c, same_id a b -> same_id b c -> same_id a c ->
  vjoin (vjoin a b) c = vjoin a (vjoin b c).
Proof.
  intros [x|] [y|] [z|] Hab Hbc Hac; try reflexivity; cbn in *.
  - destruct (newer y x) eqn:Eyx; destruct (newer z y) eqn:Ezy; destruct (newer z x) eqn:Ezx;
      cbn; rewrite ?Eyx, ?Ezy, ?Ezx; try reflexivity.
    + rewrite (newer_trans z y x Ezy Eyx) in Ezx. discriminate.
    + rewrite (not_newer_trans z y x Ezy Eyx) in Ezx. discriminate.
  - match goal with |- context [newer ?a ?b] => destruct (newer a b) end; reflexivity.
Qed.

Lemma vjoin_absorb : forall o n, vjoin (vjoin o (Some n)) (Some n) = vjoin o (Some n).
Proof.
  intros [e|] n; cbn.
  - destruct (newer n e) eqn:E; cbn; [rewrite newer_irrefl|rewrite E]; reflexivity.
  - rewrite newer_irrefl. reflexivity.
Qed.

(* ---------- one day's exchange and a whole pull, on the row lists ---------- *)
Definition merge (d s : list nrow) : list nrow := fold_left put_node (filter (wanted d) s) d.

Fixpoint pull_nodes (days : list Z) (d s : list nrow) : list nrow :=
  match days with [] => d | d0 :: rest => pull_nodes rest (merge d (on_day d0 s)) s end.
Fixpoint pull_count (days : list Z) (d s : list nrow) : nat :=
  match days with
  | [] => O
  | d0 :: rest => (length (filter (wanted d) (on_day d0 s)) + pull_count rest (merge d (on_day d0 s)) s)%nat
  end.

Lemma nodup_ids_merge : forall d s, nodup_ids d -> nodup_ids (merge d s).
Proof. intros. apply nodup_ids_fold_put. assumption. Qed.

Lemma nodup_ids_pull_nodes : forall days d s, nodup_ids d -> nodup_ids (pull_nodes days d s).
Proof.
  induction days as [|d0 rest IH]; intros d s H; cbn [pull_nodes]; [exact H|].
  apply IH. apply nodup_ids_merge. exact H.
Qed.

(* filter_existing + write = join *)
Lemma merge_view : forall x d s, nodup_ids s ->
  find_node x (merge d s) = vjoin (find_node x d) (find_node x s).
Proof.
  intros x d s Hs. unfold merge.
  rewrite find_node_fold_put by (apply nodup_ids_filter; exact Hs).
  rewrite find_node_filter by exact Hs.
  destruct (find_node x s) as [n|] eqn:F; [|reflexivity].
  apply find_node_some in F. destruct F as [_ Fid].
  unfold wanted. rewrite Fid. cbn [vjoin].
  destruct (find_node x d) as [e|]; [|reflexivity].
  destruct (newer n e); reflexivity.
Qed.

Lemma find_node_on_day : forall x d0 s, nodup_ids s ->
  find_node x (on_day d0 s) =
  match find_node x s with Some n => if Z.eqb (day (n_mdate n)) d0 then Some n else None | None => None end.
Proof. intros. unfold on_day. apply find_node_filter. assumption. Qed.

Lemma pull_view : forall days x d s, nodup_ids s ->
  find_node x (pull_nodes days d s) =
  match find_node x s with
  | Some n => if existsb (Z.eqb (day (n_mdate n))) days then vjoin (find_node x d) (Some n) else find_node x d
  | None => find_node x d
  end.
Proof.
  induction days as [|d0 rest IH]; intros x d s Hs; cbn [pull_nodes].
  - destruct (find_node x s); reflexivity.
  - rewrite IH by exact Hs.
    rewrite merge_view by (unfold on_day; apply nodup_ids_filter; exact Hs).
    rewrite find_node_on_day by exact Hs.
    destruct (find_node x s) as [n|]; [|reflexivity].
    cbn [existsb]. destruct (Z.eqb (day (n_mdate n)) d0) eqn:E; cbn [orb].
    + destruct (existsb (Z.eqb (day (n_mdate n))) rest); [apply vjoin_absorb|reflexivity].
    + reflexivity.
Qed.

(* the log comparison selected every day on which the source has a version the receiver wants *)
Definition complete (d s : list nrow) (days : list Z) : Prop :=
  forall n, In n s -> wanted d n = true -> existsb (Z.eqb (day (n_mdate n))) days = true.

Theorem lww_join : forall days x d s, nodup_ids s -> complete d s days ->
  find_node x (pull_nodes days d s) = vjoin (find_node x d) (find_node x s).
Proof.
  intros days x d s Hs Hc. rewrite pull_view by exact Hs.
  destruct (find_node x s) as [n|] eqn:F; [|reflexivity].
  destruct (existsb (Z.eqb (day (n_mdate n))) days) eqn:E; [reflexivity|].
  apply find_node_some in F. destruct F as [Fin Fid].
  destruct (wanted d n) eqn:W.
  - rewrite (Hc n Fin W) in E. discriminate.
  - unfold wanted in W. rewrite Fid in W. cbn [vjoin].
    destruct (find_node x d) as [e|]; [|discriminate]. rewrite W. reflexivity.
Qed.

(* a pull that requests nothing changes nothing, and nothing of the selected days was wanted *)
Lemma pull_count_zero : forall days d s, pull_count days d s = O ->
  pull_nodes days d s = d /\
  forall n, In n s -> existsb (Z.eqb (day (n_mdate n))) days = true -> wanted d n = false.
Proof.
  induction days as [|d0 rest IH]; intros d s H; cbn [pull_nodes pull_count] in *.
  - split; [reflexivity|]. intros n _ E. discriminate.
  - assert (H0 : length (filter (wanted d) (on_day d0 s)) = O) by lia.
    assert (H1 : pull_count rest (merge d (on_day d0 s)) s = O) by lia.
    apply length_zero_iff_nil in H0.
    assert (Hm : merge d (on_day d0 s) = d) by (unfold merge; rewrite H0; reflexivity).
    rewrite Hm in *. destruct (IH d s H1) as [IHa IHb]. split; [exact IHa|].
    intros n Hin E. cbn [existsb] in E. apply Bool.orb_true_iff in E. destruct E as [E|E].
    + destruct (wanted d n) eqn:W; [|reflexivity]. exfalso.
      assert (Hf : In n (filter (wanted d) (on_day d0 s))).
      { apply filter_In. split; [|exact W]. unfold on_day. apply filter_In. split; assumption. }
      rewrite H0 in Hf. inversion Hf.
    + apply IHb; assumption.
Qed.

Definition views_le (d s : list nrow) : Prop := forall n, In n s -> wanted d n = false.

Lemma quiet_complete_le : forall days d s, pull_count days d s = O -> complete d s days -> views_le d s.
Proof.
  intros days d s H0 Hc n Hin. destruct (wanted d n) eqn:W; [|reflexivity].
  destruct (pull_count_zero days d s H0) as [_ Hb]. rewrite (Hb n Hin (Hc n Hin W)) in W. discriminate.
Qed.

(* mutual quiescence = same view *)
Theorem views_le_antisym : forall d s, nodup_ids d -> nodup_ids s -> views_le d s -> views_le s d ->
  forall x, find_node x d = find_node x s.
Proof.
  intros d s Hd Hs Hds Hsd x.
  destruct (find_node x s) as [n|] eqn:Fs.
  - pose proof (find_node_some _ _ _ Fs) as [Hin Hid].
    pose proof (Hds n Hin) as W. unfold wanted in W. rewrite Hid in W.
    destruct (find_node x d) as [e|] eqn:Fd; [|discriminate].
    pose proof (find_node_some _ _ _ Fd) as [Hine Hide].
    pose proof (Hsd e Hine) as W2. unfold wanted in W2. rewrite Hide, Fs in W2.
    f_equal. apply newer_antisym; [congruence|exact W2|exact W].
  - destruct (find_node x d) as [e|] eqn:Fd; [|reflexivity]. exfalso.
    pose proof (find_node_some _ _ _ Fd) as [Hine Hide].
    pose proof (Hsd e Hine) as W2. unfold wanted in W2. rewrite Hide, Fs in W2. discriminate.
Qed.

(* equal views: nothing is wanted (a further pull requests nothing) *)
Lemma same_view_le : forall d s, nodup_ids s -> (forall x, find_node x d = find_node x s) -> views_le d s.
Proof.
  intros d s Hs Hv n Hin. unfold wanted. rewrite Hv, (find_node_in s n Hs Hin). apply newer_irrefl.
Qed.

Lemma views_le_count : forall days d s, views_le d s -> pull_count days d s = O.
Proof.
  induction days as [|d0 rest IH]; intros d s H; cbn [pull_count]; [reflexivity|].
  assert (H0 : filter (wanted d) (on_day d0 s) = []).
  { destruct (filter (wanted d) (on_day d0 s)) as [|a l] eqn:F; [reflexivity|]. exfalso.
    assert (Ha : In a (filter (wanted d) (on_day d0 s))) by (rewrite F; left; reflexivity).
    apply filter_In in Ha. destruct Ha as [Ha W]. unfold on_day in Ha. apply filter_In in Ha. destruct Ha as [Ha _].
    rewrite (H a Ha) in W. discriminate. }
  rewrite H0. unfold merge. rewrite H0. cbn [fold_left length]. apply IH. exact H.
Qed.

(* ---------- the system list ---------- *)
Lemma nth_set_nth : forall (S : sys) k j r,
  nth k (set_nth j r S) empty_replica = if (Nat.eqb k j && Nat.ltb j (length S))%bool then r else nth k S empty_replica.
Proof.
  induction S as [|a S IH]; intros k j r.
  - destruct j; cbn [set_nth]; rewrite Bool.andb_false_r; reflexivity.
  - destruct j as [|j]; cbn [set_nth].
    + destruct k as [|k]; reflexivity.
    + destruct k as [|k]; cbn [nth]; [reflexivity|]. rewrite IH. reflexivity.
Qed.

Lemma length_set_nth : forall (S : sys) j r, length (set_nth j r S) = length S.
Proof.
  induction S as [|a S IH]; intros j r; destruct j; cbn [set_nth length]; try reflexivity. rewrite IH. reflexivity.
Qed.

Lemma set_nth_same : forall (S : sys) j, set_nth j (nth j S empty_replica) S = S.
Proof.
  induction S as [|a S IH]; intros j; destruct j; cbn [set_nth nth]; try reflexivity. rewrite IH. reflexivity.
Qed.

Lemma get_set : forall S p q r,
  get q (set p r S) = if (N.eqb q p && Nat.ltb (N.to_nat p) (length S))%bool then r else get q S.
Proof.
  intros S p q r. unfold get, set. rewrite nth_set_nth.
  destruct (N.eqb q p) eqn:E.
  - apply N.eqb_eq in E. subst q. rewrite Nat.eqb_refl. reflexivity.
  - apply N.eqb_neq in E. assert (Hne : N.to_nat q <> N.to_nat p) by (intros H; apply E; apply N2Nat.inj; exact H).
    apply Nat.eqb_neq in Hne. rewrite Hne. reflexivity.
Qed.

Lemma set_get_same : forall S p, set p (get p S) S = S.
Proof. intros. unfold set, get. apply set_nth_same. Qed.

Lemma length_set : forall S p r, length (set p r S) = length S.
Proof. intros. unfold set. apply length_set_nth. Qed.

Lemma get_out_of_range : forall S p, (length S <= N.to_nat p)%nat -> get p S = empty_replica.
Proof. intros. unfold get. apply nth_overflow. assumption. Qed.
