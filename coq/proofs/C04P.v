(* C04P.v — proofs for C04: the JSON string codec round-trips every text; the literal decoder gives every literal
   the grammars accept the value it denotes; a value written as parameter or as literal comes back and is found
   by both equality filters. *)
From DV Require Import Codec Sql Run_C04 C05Order.
Open Scope list_scope.

(* ---------- small numbers by enumeration ---------- *)
Lemma small_N : forall k c, (c < N.of_nat k)%N -> In c (map N.of_nat (seq 0 k)).
Proof.
  intros k c H. apply in_map_iff. exists (N.to_nat c). split. apply N2Nat.id. apply in_seq. lia.
Qed.

(* ---------- serde_json escaping is undone by JSON unescaping ---------- *)
Lemma unesc_esc_small : forall c, (c < 32)%N -> forall rest, json_unesc (esc_char c ++ rest) = option_map (cons c) (json_unesc rest).
Proof.
  intros c H. apply (small_N 32) in H.
  revert c H. rewrite <- Forall_forall. repeat constructor; intros rest; reflexivity.
Qed.

Lemma unesc_esc_char : forall c rest, json_unesc (esc_char c ++ rest) = option_map (cons c) (json_unesc rest).
Proof.
  intros c rest. destruct (N.ltb c 32) eqn:E.
  - apply unesc_esc_small. apply N.ltb_lt. exact E.
  - apply N.ltb_ge in E. unfold esc_char.
    destruct (N.eqb c 34) eqn:E34. { apply N.eqb_eq in E34. subst. reflexivity. }
    destruct (N.eqb c 92) eqn:E92. { apply N.eqb_eq in E92. subst. reflexivity. }
    destruct (N.eqb c 8) eqn:E8. { apply N.eqb_eq in E8. lia. }
    destruct (N.eqb c 12) eqn:E12. { apply N.eqb_eq in E12. lia. }
    destruct (N.eqb c 10) eqn:E10. { apply N.eqb_eq in E10. lia. }
    destruct (N.eqb c 13) eqn:E13. { apply N.eqb_eq in E13. lia. }
    destruct (N.eqb c 9) eqn:E9. { apply N.eqb_eq in E9. lia. }
    assert (El : N.ltb c 32 = false) by (apply N.ltb_ge; exact E). rewrite El.
    cbn [app json_unesc]. rewrite E92, E34, El. reflexivity.
Qed.

Theorem json_codec : forall s, json_unesc (json_esc s) = Some s.
Proof.
  induction s as [|c s IH]. reflexivity.
  unfold json_esc in *. cbn [flat_map]. rewrite unesc_esc_char, IH. reflexivity.
Qed.

(* ---------- the tokens of an escaped text ---------- *)
Definition tok_of (c : N) : tok :=
  if N.eqb c 34 then TEsc EQuote else if N.eqb c 92 then TEsc EBslash else if N.eqb c 8 then TEsc Eb
  else if N.eqb c 12 then TEsc Ef else if N.eqb c 10 then TEsc En else if N.eqb c 13 then TEsc Er
  else if N.eqb c 9 then TEsc Et
  else if N.ltb c 32 then TEsc (Eu 48 48 (hexd (N.div c 16)) (hexd (N.modulo c 16)))
  else TChar c.

Lemma tok_of_small : forall c, (c < 32)%N ->
  render_tok (tok_of c) = esc_char c /\ (forall r, toks_from None (tok_of c :: r) = c :: toks_from None r) /\ wf_tok (tok_of c) = true /\
  (forall rest, lex_lit (esc_char c ++ rest) = option_map (cons (tok_of c)) (lex_lit rest)).
Proof.
  intros c H. apply (small_N 32) in H. revert c H. rewrite <- Forall_forall.
  repeat constructor; intros rest; reflexivity.
Qed.

Lemma tok_of_spec : forall c,
  render_tok (tok_of c) = esc_char c /\ (forall r, toks_from None (tok_of c :: r) = c :: toks_from None r) /\ wf_tok (tok_of c) = true /\
  (forall rest, lex_lit (esc_char c ++ rest) = option_map (cons (tok_of c)) (lex_lit rest)).
Proof.
  intros c. destruct (N.ltb c 32) eqn:E.
  - apply tok_of_small. apply N.ltb_lt. exact E.
  - pose proof E as El. apply N.ltb_ge in E. unfold tok_of, esc_char.
    destruct (N.eqb c 34) eqn:E34. { apply N.eqb_eq in E34. subst. repeat split. }
    destruct (N.eqb c 92) eqn:E92. { apply N.eqb_eq in E92. subst. repeat split. }
    destruct (N.eqb c 8) eqn:E8. { apply N.eqb_eq in E8. lia. }
    destruct (N.eqb c 12) eqn:E12. { apply N.eqb_eq in E12. lia. }
    destruct (N.eqb c 10) eqn:E10. { apply N.eqb_eq in E10. lia. }
    destruct (N.eqb c 13) eqn:E13. { apply N.eqb_eq in E13. lia. }
    destruct (N.eqb c 9) eqn:E9. { apply N.eqb_eq in E9. lia. }
    rewrite El. repeat split.
    + cbn [wf_tok]. rewrite E34, E92. reflexivity.
    + intros rest. cbn [app lex_lit]. rewrite E92, E34. reflexivity.
Qed.

Lemma lex_esc : forall w, lex_lit (json_esc w) = Some (map tok_of w).
Proof.
  induction w as [|c w IH]. reflexivity.
  unfold json_esc in *. cbn [flat_map map]. destruct (tok_of_spec c) as (_ & _ & _ & Hl). rewrite Hl, IH. reflexivity.
Qed.
Lemma render_tok_of : forall w, render (map tok_of w) = json_esc w.
Proof.
  induction w as [|c w IH]. reflexivity.
  unfold render, json_esc in *. cbn [map flat_map]. destruct (tok_of_spec c) as (Hr & _). rewrite Hr, IH. reflexivity.
Qed.
Lemma value_tok_of : forall w, toks_value (map tok_of w) = w.
Proof.
  induction w as [|c w IH]. reflexivity.
  unfold toks_value in *. cbn [map]. destruct (tok_of_spec c) as (_ & Hv & _). rewrite Hv, IH. reflexivity.
Qed.
Lemma wf_tok_of : forall w, forallb wf_tok (map tok_of w) = true.
Proof.
  induction w as [|c w IH]. reflexivity.
  cbn [map forallb]. destruct (tok_of_spec c) as (_ & _ & Hw & _). rewrite Hw, IH. reflexivity.
Qed.

(* ---------- the literal decoder gives every accepted literal its value ---------- *)
Lemma is_hex_not_special : forall x, is_hex x = true -> x <> 92%N /\ x <> 34%N.
Proof.
  intros x H. unfold is_hex, hexv in H.
  split; intros ->; simpl in H; discriminate.
Qed.

Lemma decode_render : forall ts pending, forallb wf_tok ts = true -> decode_from pending (render ts) = toks_from pending ts.
Proof.
  induction ts as [|t ts IH]; intros pending H. reflexivity.
  cbn [forallb] in H. apply andb_prop in H. destruct H as [Ht Hts].
  unfold render in *. cbn [flat_map]. fold (render ts) in *.
  destruct t as [c|e].
  - cbn [render_tok app wf_tok] in *. apply andb_prop in Ht. destruct Ht as [_ Hc].
    apply negb_true_iff in Hc. cbn [decode_from toks_from]. rewrite Hc. rewrite (IH None Hts). reflexivity.
  - destruct e; cbn [render_tok render_esc app]; cbn [decode_from toks_from];
      cbn; rewrite (IH _ Hts); reflexivity.
Qed.

Theorem literal_decode_holds : forall ts, forallb wf_tok ts = true -> decode_literal (render ts) = toks_value ts.
Proof. intros ts H. apply decode_render. exact H. Qed.

(* the tokenizer inverts render *)
Lemma simple_tok_render : forall e k, simple_tok e = Some k -> render_esc k = [92%N; e] /\ wf_tok (TEsc k) = true.
Proof.
  intros e k H. unfold simple_tok in H.
  destruct (N.eqb e 34) eqn:E1. { apply N.eqb_eq in E1. subst. injection H as <-. split; reflexivity. }
  destruct (N.eqb e 92) eqn:E2. { apply N.eqb_eq in E2. subst. injection H as <-. split; reflexivity. }
  destruct (N.eqb e 47) eqn:E3. { apply N.eqb_eq in E3. subst. injection H as <-. split; reflexivity. }
  destruct (N.eqb e 98) eqn:E4. { apply N.eqb_eq in E4. subst. injection H as <-. split; reflexivity. }
  destruct (N.eqb e 102) eqn:E5. { apply N.eqb_eq in E5. subst. injection H as <-. split; reflexivity. }
  destruct (N.eqb e 110) eqn:E6. { apply N.eqb_eq in E6. subst. injection H as <-. split; reflexivity. }
  destruct (N.eqb e 114) eqn:E7. { apply N.eqb_eq in E7. subst. injection H as <-. split; reflexivity. }
  destruct (N.eqb e 116) eqn:E8. { apply N.eqb_eq in E8. subst. injection H as <-. split; reflexivity. }
  discriminate.
Qed.

Lemma lex_render_n : forall n l ts, (List.length l <= n)%nat -> lex_lit l = Some ts -> render ts = l /\ forallb wf_tok ts = true.
Proof.
  induction n as [|n IH]; intros l ts Hn H.
  - destruct l; simpl in Hn; try lia. injection H as <-. split; reflexivity.
  - destruct l as [|c t]. injection H as <-. split; reflexivity.
    cbn [lex_lit] in H. destruct (N.eqb c 92) eqn:E92.
    + apply N.eqb_eq in E92. subst c. destruct t as [|e r]. discriminate.
      destruct (N.eqb e 117) eqn:E117.
      * apply N.eqb_eq in E117. subst e. destruct r as [|a [|b [|c' [|d r1]]]]; try discriminate.
        destruct (is_hex a && is_hex b && is_hex c' && is_hex d) eqn:Eh; try discriminate.
        destruct (lex_lit r1) as [ts1|] eqn:E1; try discriminate. injection H as <-.
        destruct (IH r1 ts1) as [Hr Hw]. simpl in Hn. lia. exact E1.
        split. unfold render in *. cbn [flat_map render_tok render_esc app]. rewrite Hr. reflexivity.
        cbn [forallb wf_tok]. rewrite Eh, Hw. reflexivity.
      * destruct (simple_tok e) as [k|] eqn:Ek; try discriminate.
        destruct (lex_lit r) as [ts1|] eqn:E1; try discriminate. injection H as <-.
        destruct (IH r ts1) as [Hr Hw]. simpl in Hn. lia. exact E1.
        destruct (simple_tok_render e k Ek) as [Hk Hwk].
        split. unfold render in *. cbn [flat_map render_tok]. rewrite Hk, Hr. reflexivity.
        cbn [forallb]. rewrite Hwk, Hw. reflexivity.
    + destruct (N.eqb c 34) eqn:E34; try discriminate.
      destruct (lex_lit t) as [ts1|] eqn:E1; try discriminate. injection H as <-.
      destruct (IH t ts1) as [Hr Hw]. simpl in Hn. lia. exact E1.
      split. unfold render in *. cbn [flat_map render_tok app]. rewrite Hr. reflexivity.
      cbn [forallb wf_tok]. rewrite E34, E92, Hw. reflexivity.
Qed.
Lemma lex_render : forall l ts, lex_lit l = Some ts -> render ts = l /\ forallb wf_tok ts = true.
Proof. intros l ts. apply (lex_render_n (List.length l)). lia. Qed.

(* ---------- the observation codec of Run_C04 ---------- *)
Lemma dec_enc_str4 : forall s rest, dec_str (enc_str s ++ rest) = Some (s, rest).
Proof.
  intros s rest. unfold dec_str, enc_str. cbn [app]. unfold count.
  assert (H1 : Z.ltb (Z.of_nat (List.length s)) 0 = false) by (apply Z.ltb_ge; lia).
  assert (H2 : Z.ltb (Z.of_nat (List.length (map Z.of_N s ++ rest))) (Z.of_nat (List.length s)) = false).
  { apply Z.ltb_ge. rewrite app_length, map_length. lia. }
  rewrite H1, H2. cbn [orb]. rewrite Nat2Z.id.
  rewrite <- (map_length Z.of_N s) at 1 2. rewrite firstn_app, Nat.sub_diag, firstn_all, skipn_app, Nat.sub_diag, skipn_all.
  cbn [firstn skipn app]. rewrite app_nil_r.
  assert (Hm : map Z.to_N (map Z.of_N s) = s). { clear. induction s as [|x s IH]; simpl. reflexivity. rewrite N2Z.id, IH. reflexivity. }
  rewrite Hm. reflexivity.
Qed.

(* ---------- values written as parameter or as literal come back unchanged ---------- *)
Theorem roundtrip_holds : forall h w v,
  intended h w = Some v -> spec_C04 (CStr h w) (run_C04 (CStr h w)) = true.
Proof.
  intros h w v Hv. cbn [spec_C04 run_C04]. unfold run_str. rewrite Hv.
  cbn [app]. rewrite dec_enc_str4, dec_enc_str4. rewrite json_codec.
  assert (Hst : stored h w = v /\ stored h w = decode_literal (literal_text h w)).
  { destruct h; cbn [stored literal_text intended] in *.
    - injection Hv as <-. split. reflexivity.
      rewrite <- render_tok_of. rewrite literal_decode_holds by apply wf_tok_of. symmetry. apply value_tok_of.
    - destruct (lex_lit w) as [ts|] eqn:El; try discriminate. injection Hv as <-.
      destruct (lex_render w ts El) as [Hr Hw].
      split; [|reflexivity]. rewrite <- Hr. apply literal_decode_holds. exact Hw. }
  destruct Hst as [H1 H2]. rewrite <- H2, H1. rewrite str_eqb_refl. reflexivity.
Qed.
