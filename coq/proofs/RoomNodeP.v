(* RoomNodeP.v — lemmas about model/RoomNode.v shared by C07 and C10:
   (1) the decisions of a room that represents a history are those the history grants;
   (2) RoomNode::parse builds its room by a strict replay of the events the definition lists, hence
       the room it returns represents exactly that history. *)
From Coq Require Import Permutation.
From DV Require Import RightsSpec RightsP RoomNode.

(* ------------------------------------------------------------------ (1) decisions of a represented history *)
Definition decide_spec (evs : list event) (p : key * entity * Z) : list Z :=
  let '(k, e, d) := p in
  [zb (granted evs k e d MutateSelf); zb (granted evs k e d MutateAll); zb (admin_at evs k d);
   zb (admin_at evs k d || existsb (fun g => member_at evs g k d) (groups evs));
   zb (existsb (fun g => uadmin_at evs g k d) (groups evs))].

Lemma Rep_member evs r a k d :
  Rep evs r -> In a (rm_auths r) -> auth_user_valid a k d = member_at evs (a_id a) k d.
Proof.
  intros (_ & _ & Hrep & _ & Hss & _) Hin.
  rewrite Forall_forall in Hrep, Hss. destruct (Hrep a Hin) as (R1 & R2 & _). destruct (Hss a Hin) as (S1 & S2 & _).
  unfold auth_user_valid, member_at. rewrite R1 in *. rewrite R2 in *.
  rewrite !enabled_at_in_force by assumption. rewrite user_entries_of, uadmin_entries_of. reflexivity.
Qed.
Lemma Rep_uadmin evs r a k d :
  Rep evs r -> In a (rm_auths r) -> can_admin_users a k d = uadmin_at evs (a_id a) k d.
Proof.
  intros (_ & _ & Hrep & _ & Hss & _) Hin.
  rewrite Forall_forall in Hrep, Hss. destruct (Hrep a Hin) as (_ & R2 & _). destruct (Hss a Hin) as (_ & S2 & _).
  unfold can_admin_users, uadmin_at. rewrite R2 in *.
  rewrite enabled_at_in_force by assumption. rewrite uadmin_entries_of. reflexivity.
Qed.

Theorem Rep_decide evs r p : Rep evs r -> decide r p = decide_spec evs p.
Proof.
  intros HR. destruct p as [[k e] d]. unfold decide, decide_spec.
  rewrite !(Rep_can evs r k e d _ HR), (Rep_is_admin evs r k d HR).
  destruct HR as (Had & Hids & Hrest). f_equal. f_equal. f_equal. f_equal; [|f_equal].
  - unfold is_user_valid_at. rewrite (Rep_is_admin evs r k d (conj Had (conj Hids Hrest))).
    f_equal. f_equal. rewrite <- Hids, existsb_map. apply existsb_ext_in. intros a Hin.
    apply (Rep_member evs r a k d (conj Had (conj Hids Hrest)) Hin).
  - f_equal. rewrite <- Hids, existsb_map. apply existsb_ext_in. intros a Hin.
    apply (Rep_uadmin evs r a k d (conj Had (conj Hids Hrest)) Hin).
Qed.
Corollary Rep_decisions evs r probes : Rep evs r -> decisions r probes = flat_map (decide_spec evs) probes.
Proof. intros HR. unfold decisions. apply flat_map_ext. intros p. apply Rep_decide. exact HR. Qed.

(* ------------------------------------------------------------------ (2) parse = strict replay *)
Definition ev_admin (n : unode) : event := EvAdmin (un_key n) (un_date n) (un_enabled n).
Definition ev_user (g : uid) (n : unode) : event := EvUser g (un_key n) (un_date n) (un_enabled n).
Definition ev_uadmin (g : uid) (n : unode) : event := EvUAdmin g (un_key n) (un_date n) (un_enabled n).
Definition ev_right (g : uid) (n : rnode) : event := EvRight g (rn_ent n) (rn_date n) (rn_self n) (rn_all n).
(* the events a group row and its entries amount to, in the order AuthorisationNode::parse adds them *)
Definition evs_of_auth (a : anode) : list event :=
  EvGroup (an_id a) :: map (ev_right (an_id a)) (an_rnodes a) ++ map (ev_user (an_id a)) (an_unodes a)
                    ++ map (ev_uadmin (an_id a)) (an_anodes a).
Definition evs_of_node (n : roomnode) : list event :=
  map ev_admin (rmn_anodes n) ++ flat_map evs_of_auth (rmn_gnodes n).

Lemma build_strict_app evs1 : forall evs2 r r1,
  build_strict r evs1 = Some r1 -> build_strict r (evs1 ++ evs2) = build_strict r1 evs2.
Proof.
  induction evs1 as [|ev tl IH]; simpl; intros evs2 r r1 H; [inversion H; reflexivity|].
  destruct (apply_event r ev) as [r'|]; [|discriminate]. eapply IH; eauto.
Qed.

Lemma add_users_admins ns : forall r l',
  add_users (rm_admins r) ns = POk l' ->
  build_strict r (map ev_admin ns) = Some {| rm_id := rm_id r; rm_admins := l'; rm_auths := rm_auths r |}.
Proof.
  induction ns as [|n tl IH]; cbn [add_users map build_strict]; intros r l' H.
  - inversion H; subst. destruct r; reflexivity.
  - unfold user_of in H. destruct (add_user (rm_admins r) _) as [l1|] eqn:Ha; [|discriminate].
    cbn [map build_strict]. unfold ev_admin at 1. cbn [apply_event]. rewrite Ha.
    apply (IH {| rm_id := rm_id r; rm_admins := l1; rm_auths := rm_auths r |} l' H).
Qed.

(* entries added to the last group of the room *)
Definition with_last (r : room) (pre : list auth) (a : auth) : room :=
  {| rm_id := rm_id r; rm_admins := rm_admins r; rm_auths := pre ++ [a] |}.

Lemma find_auth_last r pre a :
  existsb (fun x => N.eqb (a_id x) (a_id a)) pre = false ->
  find_auth (with_last r pre a) (a_id a) = Some a.
Proof.
  unfold find_auth, with_last. simpl. intros Hn. induction pre as [|x tl IH]; simpl in *.
  - rewrite N.eqb_refl. reflexivity.
  - apply orb_false_iff in Hn. destruct Hn as [Hx Htl]. rewrite Hx. apply IH. exact Htl.
Qed.
Lemma set_auth_last r pre a a' :
  a_id a' = a_id a -> existsb (fun x => N.eqb (a_id x) (a_id a)) pre = false ->
  set_auth (with_last r pre a) a' = with_last r pre a'.
Proof.
  unfold set_auth, with_last. simpl. intros Hid Hn. f_equal. rewrite map_app. simpl.
  rewrite Hid, N.eqb_refl. f_equal. induction pre as [|x tl IH]; simpl in *; [reflexivity|].
  apply orb_false_iff in Hn. destruct Hn as [Hx Htl]. rewrite Hx, IH by exact Htl. reflexivity.
Qed.

Lemma add_rights_last ns : forall r pre a l',
  existsb (fun x => N.eqb (a_id x) (a_id a)) pre = false ->
  add_rights (a_rights a) ns = POk l' ->
  build_strict (with_last r pre a) (map (ev_right (a_id a)) ns) =
  Some (with_last r pre {| a_id := a_id a; a_users := a_users a; a_rights := l'; a_uadmins := a_uadmins a |}).
Proof.
  induction ns as [|n tl IH]; cbn [add_users add_rights map build_strict]; intros r pre a l' Hn H.
  - inversion H; subst. destruct a; reflexivity.
  - unfold right_of in H. destruct (add_right (a_rights a) _) as [l1|] eqn:Ha; [|discriminate].
    cbn [map build_strict]. unfold ev_right at 1. cbn [apply_event]. rewrite (find_auth_last r pre a Hn), Ha.
    rewrite set_auth_last by (simpl; auto).
    apply (IH r pre {| a_id := a_id a; a_users := a_users a; a_rights := l1; a_uadmins := a_uadmins a |} l' Hn H).
Qed.
Lemma add_users_last ns : forall r pre a l',
  existsb (fun x => N.eqb (a_id x) (a_id a)) pre = false ->
  add_users (a_users a) ns = POk l' ->
  build_strict (with_last r pre a) (map (ev_user (a_id a)) ns) =
  Some (with_last r pre {| a_id := a_id a; a_users := l'; a_rights := a_rights a; a_uadmins := a_uadmins a |}).
Proof.
  induction ns as [|n tl IH]; cbn [add_users add_rights map build_strict]; intros r pre a l' Hn H.
  - inversion H; subst. destruct a; reflexivity.
  - unfold user_of in H. destruct (add_user (a_users a) _) as [l1|] eqn:Ha; [|discriminate].
    cbn [map build_strict]. unfold ev_user at 1. cbn [apply_event]. rewrite (find_auth_last r pre a Hn), Ha.
    rewrite set_auth_last by (simpl; auto).
    apply (IH r pre {| a_id := a_id a; a_users := l1; a_rights := a_rights a; a_uadmins := a_uadmins a |} l' Hn H).
Qed.
Lemma add_uadmins_last ns : forall r pre a l',
  existsb (fun x => N.eqb (a_id x) (a_id a)) pre = false ->
  add_users (a_uadmins a) ns = POk l' ->
  build_strict (with_last r pre a) (map (ev_uadmin (a_id a)) ns) =
  Some (with_last r pre {| a_id := a_id a; a_users := a_users a; a_rights := a_rights a; a_uadmins := l' |}).
Proof.
  induction ns as [|n tl IH]; cbn [add_users add_rights map build_strict]; intros r pre a l' Hn H.
  - inversion H; subst. destruct a; reflexivity.
  - unfold user_of in H. destruct (add_user (a_uadmins a) _) as [l1|] eqn:Ha; [|discriminate].
    cbn [map build_strict]. unfold ev_uadmin at 1. cbn [apply_event]. rewrite (find_auth_last r pre a Hn), Ha.
    rewrite set_auth_last by (simpl; auto).
    apply (IH r pre {| a_id := a_id a; a_users := a_users a; a_rights := a_rights a; a_uadmins := l1 |} l' Hn H).
Qed.

Lemma parse_auth_replay r pre g a :
  parse_auth g = POk a ->
  existsb (fun x => N.eqb (a_id x) (a_id a)) pre = false ->
  build_strict {| rm_id := rm_id r; rm_admins := rm_admins r; rm_auths := pre |} (evs_of_auth g) =
  Some (with_last r pre a).
Proof.
  unfold parse_auth, pbind. intros H Hn.
  destruct (add_rights [] (an_rnodes g)) as [rs|] eqn:H1; [|discriminate].
  destruct (add_users [] (an_unodes g)) as [us|] eqn:H2; [|discriminate].
  destruct (add_users [] (an_anodes g)) as [uas|] eqn:H3; [|discriminate].
  inversion H; subst a; clear H. simpl in Hn.
  unfold evs_of_auth. cbn [build_strict apply_event].
  assert (Hf : find_auth {| rm_id := rm_id r; rm_admins := rm_admins r; rm_auths := pre |} (an_id g) = None).
  { unfold find_auth. simpl. clear - Hn. induction pre as [|x tl IH]; simpl in *; [reflexivity|].
    apply orb_false_iff in Hn. destruct Hn as [Hx Htl]. rewrite Hx. auto. }
  rewrite Hf. cbn [rm_id rm_admins rm_auths].
  pose (a0 := {| a_id := an_id g; a_users := []; a_rights := []; a_uadmins := [] |}).
  change {| rm_id := rm_id r; rm_admins := rm_admins r; rm_auths := pre ++ [a0] |} with (with_last r pre a0).
  pose proof (add_rights_last (an_rnodes g) r pre a0 rs Hn H1) as E1.
  set (a1 := {| a_id := a_id a0; a_users := a_users a0; a_rights := rs; a_uadmins := a_uadmins a0 |}) in E1.
  pose proof (add_users_last (an_unodes g) r pre a1 us Hn H2) as E2.
  set (a2 := {| a_id := a_id a1; a_users := us; a_rights := a_rights a1; a_uadmins := a_uadmins a1 |}) in E2.
  pose proof (add_uadmins_last (an_anodes g) r pre a2 uas Hn H3) as E3.
  cbn [a_id a0 a1 a2] in E1, E2, E3.
  rewrite (build_strict_app _ _ _ _ E1), (build_strict_app _ _ _ _ E2), E3. reflexivity.
Qed.

Lemma add_auths_replay gs : forall r pre l',
  add_auths pre gs = POk l' ->
  build_strict {| rm_id := rm_id r; rm_admins := rm_admins r; rm_auths := pre |} (flat_map evs_of_auth gs) =
  Some {| rm_id := rm_id r; rm_admins := rm_admins r; rm_auths := l' |}.
Proof.
  induction gs as [|g tl IH]; cbn [add_auths flat_map]; intros r pre l' H.
  - inversion H; subst. reflexivity.
  - unfold pbind in H. destruct (parse_auth g) as [a|] eqn:Hp; [|discriminate].
    destruct (existsb (fun x => N.eqb (a_id x) (a_id a)) pre) eqn:Hn; [discriminate|].
    rewrite (build_strict_app _ _ _ _ (parse_auth_replay r pre g a Hp Hn)).
    apply (IH r (pre ++ [a]) l' H).
Qed.

(* RoomNode::parse is the strict replay of the definition's events *)
Theorem parse_room_replay n r :
  parse_room n = POk r -> build_strict (empty_room (rmn_id n)) (evs_of_node n) = Some r.
Proof.
  unfold parse_room, pbind. intros H.
  destruct (add_users [] (rmn_anodes n)) as [ads|] eqn:H1; [|discriminate].
  destruct (add_auths [] (rmn_gnodes n)) as [aus|] eqn:H2; [|discriminate].
  inversion H; subst r; clear H. unfold evs_of_node.
  rewrite (build_strict_app _ _ _ _ (add_users_admins (rmn_anodes n) (empty_room (rmn_id n)) ads H1)).
  apply (add_auths_replay (rmn_gnodes n) {| rm_id := rmn_id n; rm_admins := ads; rm_auths := [] |} [] aus H2).
Qed.

Corollary parse_room_Rep n r : parse_room n = POk r -> Rep (evs_of_node n) r.
Proof.
  intros H. apply parse_room_replay in H.
  apply (build_strict_Rep (evs_of_node n) [] (empty_room (rmn_id n)) r (Rep_empty _) H).
Qed.
(* the room a parsed definition gives decides exactly what the entries it lists grant *)
Corollary parse_room_decisions n r probes :
  parse_room n = POk r -> decisions r probes = flat_map (decide_spec (evs_of_node n)) probes.
Proof. intros H. apply Rep_decisions. apply parse_room_Rep. exact H. Qed.

(* ------------------------------------------------------------------ the stable sort *)
Section Sort.
  Variable A : Type.
  Variable f : A -> Z.

  Fixpoint asc (l : list A) : Prop :=
    match l with [] => True | x :: tl => Forall (fun y => f x <= f y) tl /\ asc tl end.

  Lemma insert_by_perm x l : Permutation (insert_by f x l) (x :: l).
  Proof.
    induction l as [|y tl IH]; simpl; [apply Permutation_refl|].
    destruct (Z.leb (f x) (f y)); [apply Permutation_refl|].
    eapply Permutation_trans; [apply perm_skip; exact IH|apply perm_swap].
  Qed.
  Lemma sort_by_perm l : Permutation (sort_by f l) l.
  Proof.
    induction l as [|x tl IH]; simpl; [apply Permutation_refl|].
    eapply Permutation_trans; [apply insert_by_perm|apply perm_skip; exact IH].
  Qed.
  Lemma sort_by_in x l : In x (sort_by f l) <-> In x l.
  Proof. split; apply Permutation_in; [|apply Permutation_sym]; apply sort_by_perm. Qed.

  Lemma insert_by_asc x l : asc l -> asc (insert_by f x l).
  Proof.
    induction l as [|y tl IH]; simpl; intros H; [split; [constructor|exact I]|].
    destruct H as [Hy Ht]. destruct (Z.leb (f x) (f y)) eqn:Hle.
    - apply Z.leb_le in Hle. simpl. split; [|split; assumption].
      constructor; [exact Hle|]. eapply Forall_impl; [|exact Hy]. simpl. intros; lia.
    - apply Z.leb_gt in Hle. simpl. split; [|apply IH; exact Ht].
      eapply Permutation_Forall; [apply Permutation_sym; apply insert_by_perm|].
      constructor; [lia|exact Hy].
  Qed.
  Lemma sort_by_asc l : asc (sort_by f l).
  Proof. induction l as [|x tl IH]; simpl; [exact I|apply insert_by_asc; exact IH]. Qed.

  (* in an ascending list an element with a strictly smaller key stands before *)
  Lemma asc_before l : asc l -> forall x y, In x l -> In y l -> f x < f y ->
    exists a b c, l = a ++ x :: b ++ y :: c.
  Proof.
    induction l as [|h tl IH]; simpl; intros Hs x y Hx Hy Hlt; [contradiction|].
    destruct Hs as [Hh Hs]. destruct Hx as [Hx|Hx]; destruct Hy as [Hy|Hy].
    - subst. lia.
    - subst h. apply in_split in Hy. destruct Hy as (b & c & ->). exists [], b, c. reflexivity.
    - subst h. rewrite Forall_forall in Hh. specialize (Hh x Hx). lia.
    - destruct (IH Hs x y Hx Hy Hlt) as (a & b & c & ->). exists (h :: a), b, c. reflexivity.
  Qed.

  (* stability: the elements of a class that carries one key value keep their order *)
  Lemma filter_insert_by (p : A -> bool) c x l :
    (forall y, In y (x :: l) -> p y = true -> f y = c) ->
    filter p (insert_by f x l) = if p x then x :: filter p l else filter p l.
  Proof.
    induction l as [|y tl IH]; intros Hc; simpl; [reflexivity|].
    destruct (Z.leb (f x) (f y)) eqn:Hle; simpl; [reflexivity|].
    apply Z.leb_gt in Hle.
    rewrite IH by (intros z Hz; apply Hc; destruct Hz as [Hz|Hz]; [left; exact Hz|right; right; exact Hz]).
    destruct (p y) eqn:Hpy; [|reflexivity].
    destruct (p x) eqn:Hpx; [|reflexivity].
    assert (f y = c) by (apply Hc; [right; left; reflexivity|exact Hpy]).
    assert (f x = c) by (apply Hc; [left; reflexivity|exact Hpx]). lia.
  Qed.
  Lemma filter_sort_by (p : A -> bool) c l :
    (forall y, In y l -> p y = true -> f y = c) -> filter p (sort_by f l) = filter p l.
  Proof.
    induction l as [|x tl IH]; intros Hc; simpl; [reflexivity|].
    rewrite (filter_insert_by p c).
    - rewrite IH by (intros y Hy; apply Hc; right; exact Hy). reflexivity.
    - intros y Hy. apply Hc. destruct Hy as [Hy|Hy]; [left; exact Hy|right; apply sort_by_in; exact Hy].
  Qed.
End Sort.

