(* C05P.v — proofs for C05 (tier T1): the SQL the compiler emits, run on the rows, gives the direct
   evaluation of the query — outside the delimited classes of Run_C05.known_query. *)
From DV Require Import Eval Sql Run_C05 C05Sort C05Order C05Sql.
From Coq Require Import Permutation.
Open Scope list_scope.

(* ---------- small list facts ---------- *)
Lemma cls_nil : forall b k l, cls b k ++ l = [] -> b = false /\ l = [].
Proof. intros [|] k l H; simpl in H. discriminate. split; [reflexivity | exact H]. Qed.

Lemma all_some_Forall2 : forall A B (f : A -> option B) l,
  (forall x, In x l -> f x <> None) -> exists r, all_some (map f l) = Some r /\ Forall2 (fun x y => f x = Some y) l r.
Proof.
  intros A B f l. induction l as [|x t IH]; intros H.
  - exists []. split. reflexivity. constructor.
  - destruct IH as (r & Hr & Hf). { intros y Hy. apply H. right. exact Hy. }
    destruct (f x) as [y|] eqn:E. 2: { exfalso. apply (H x). left. reflexivity. exact E. }
    exists (y :: r). split. simpl. rewrite E, Hr. reflexivity. constructor; assumption.
Qed.

Lemma In_skipn' : forall A n (l : list A) x, In x (skipn' n l) -> In x l.
Proof.
  intros A n. induction n as [|n IH]; intros l x H; destruct l as [|y t]; simpl in *; try assumption.
  right. apply IH. exact H.
Qed.
Lemma In_firstn : forall A n (l : list A) x, In x (firstn n l) -> In x l.
Proof.
  intros A n. induction n as [|n IH]; intros l x H; destruct l as [|y t]; simpl in *; try contradiction.
  destruct H as [H|H]. left. exact H. right. apply IH. exact H.
Qed.
Lemma In_take_first : forall n l x, In x (take_first n l) -> In x l.
Proof. intros n l x. unfold take_first. destruct (Z.leb n 0). auto. apply In_firstn. Qed.
Lemma In_drop_skip : forall n l x, In x (drop_skip n l) -> In x l.
Proof. intros n l x. unfold drop_skip. destruct (Z.leb n 0). auto. apply In_skipn'. Qed.

Lemma result_eqv_map : forall (f g : row -> list val) l,
  (forall r, In r l -> list_eqb val_eqv (f r) (g r) = true) -> result_eqv (map f l) (map g l) = true.
Proof.
  intros f g l. induction l as [|r t IH]; intros H. reflexivity.
  unfold result_eqv in *. simpl. rewrite (H r (or_introl eq_refl)). simpl. apply IH. intros r' Hr. apply H. right. exact Hr.
Qed.

Lemma filters_fold : forall binds r out fs,
  is_true (fold_right (fun f acc => tv_and (filter_eval binds r out f) acc) (Some true) fs)
  = forallb (fun f => is_true (filter_eval binds r out f)) fs.
Proof.
  intros binds r out fs. induction fs as [|f t IH]; simpl. reflexivity. rewrite is_true_and, IH. reflexivity.
Qed.

Lemma In_combine3_firstn : forall (ds : list dir) (ks cs : list val) d k c,
  In (d, k, c) (combine (combine ds ks) cs) -> In k (firstn (List.length cs) ks) /\ In c cs.
Proof.
  induction ds as [|d0 ds IH]; intros ks cs d k c H; simpl in H. contradiction.
  destruct ks as [|k0 ks]; simpl in H. contradiction. destruct cs as [|c0 cs]; simpl in H. contradiction.
  destruct H as [H|H].
  - injection H as <- <- <-. split; left; reflexivity.
  - destruct (IH _ _ _ _ _ H) as [H1 H2]. split; right; assumption.
Qed.

Lemma ref_value_no_paging : forall m q r fr, ref_value m (no_paging q) r fr = ref_value m q r fr.
Proof. intros m q r fr. destruct fr; reflexivity. Qed.

Lemma default_of_In : forall m i d, default_of m i = Some d -> exists fd, In fd (em_fields m) /\ fd_default fd = Some d.
Proof.
  intros m i d H. unfold default_of, field_def in H. destruct (nth_error (em_fields m) i) as [fd|] eqn:E; try discriminate.
  exists fd. split. eapply nth_error_In; eauto. exact H.
Qed.

(* membership in query_vars *)
Lemma vars_filter : forall q f n, In f (q_filters q) -> fl_val f = OVar n -> In n (query_vars q).
Proof.
  intros q f n Hin Hv. unfold query_vars. apply in_flat_map. exists (OVar n). split; [|left; reflexivity].
  apply in_or_app. left. rewrite <- Hv. apply in_map. exact Hin.
Qed.
Lemma vars_paging : forall q o n, In o (paging_values (q_paging q)) -> o = OVar n -> In n (query_vars q).
Proof.
  intros q o n Hin ->. unfold query_vars. apply in_flat_map. exists (OVar n). split; [|left; reflexivity].
  apply in_or_app. right. apply in_or_app. left. exact Hin.
Qed.
Lemma vars_first : forall q n, q_first q = OVar n -> In n (query_vars q).
Proof.
  intros q n H. unfold query_vars. apply in_flat_map. exists (OVar n). split; [|left; reflexivity].
  apply in_or_app. right. apply in_or_app. right. apply in_or_app. left. rewrite H. left. reflexivity.
Qed.
Lemma vars_skip : forall q n, q_skip q = Some (OVar n) -> In n (query_vars q).
Proof.
  intros q n H. unfold query_vars. apply in_flat_map. exists (OVar n). split; [|left; reflexivity].
  apply in_or_app. right. apply in_or_app. right. apply in_or_app. right. rewrite H. left. reflexivity.
Qed.

Lemma in_combine_snd : forall A B (a : list A) (b : list B) x, In x (combine a b) -> In (snd x) b.
Proof. intros A B a b [x y] H. eapply in_combine_r; eauto. Qed.

Lemma order_cmp_cons : forall a b d t,
  order_cmp ((a, b, d) :: t) = match (match d with Asc => scmp a b | Desc => scmp b a end) with Eq => order_cmp t | c => c end.
Proof. reflexivity. Qed.

(* ---------- the order keys ---------- *)
Section Keys.
  Variable m : emodel.
  Variable q : query.
  Variable rows : db.
  Variable binds : list sval.
  Variable s : stmt.
  Hypothesis Hsel : Forall2 (fun sf s0 => ss_field s0 = sf_field sf /\ ss_name s0 = sel_name m sf /\
                         sdefault_ok binds (default_of m (sf_field sf)) (ss_default s0)) (q_sel q) (st_sel s).
  Hypothesis Hord : st_order s = map (fun k => (ref_sx (ok_ref k), ok_dir k)) (q_order q).
  Hypothesis Hbool : k_booldefault m rows q = false.
  Hypothesis Hraw : k_rawkey m rows q = false.

  Lemma bool_rows : forall r sf b, In r rows -> In sf (q_sel q) ->
    default_of m (sf_field sf) = Some (VBool b) -> nth (sf_field sf) r VNull <> VNull.
  Proof.
    intros r sf b Hr Hsf Hd Hn. unfold k_booldefault in Hbool.
    assert (H : existsb (fun sf0 => match default_of m (sf_field sf0) with Some (VBool _) => lacks rows (sf_field sf0) | _ => false end) (q_sel q) = true).
    { apply existsb_exists. exists sf. split. exact Hsf. rewrite Hd. unfold lacks. apply existsb_exists. exists r. split. exact Hr. rewrite Hn. reflexivity. }
    congruence.
  Qed.

  Lemma alias_canon : forall r k, In r rows ->
    scanon (sx_eval binds r (json_object binds s r) (XOut k)) = vcanon (ref_value m q r (FByAlias k)).
  Proof.
    intros r k Hr. cbn [sx_eval]. unfold json_object.
    rewrite (out_alias_sem m binds r (q_sel q) (st_sel s) Hsel).
    - unfold ref_value, ref_field. destruct (nth_error (q_sel q) k); reflexivity.
    - intros sf b Hin Hd. eapply bool_rows; eauto.
  Qed.

  (* the key as the statement reads it *)
  Definition kval (r : row) (k : okey) : val :=
    match ok_ref k with FByName i => nth i r VNull | FByAlias _ => ref_value m q r (ok_ref k) end.

  Lemma kval_canon : forall r k, In r rows ->
    scanon (sx_eval binds r (json_object binds s r) (ref_sx (ok_ref k))) = vcanon (kval r k).
  Proof.
    intros r k Hr. unfold kval. destruct (ok_ref k) as [i|j] eqn:E; cbn [ref_sx].
    - cbn [sx_eval]. apply scanon_to_sql.
    - apply alias_canon. exact Hr.
  Qed.

  Lemma kval_ref : forall r k, In r rows -> In k (q_order q) -> kval r k = ref_value m q r (ok_ref k).
  Proof.
    intros r k Hr Hk. unfold kval. destruct (ok_ref k) as [i|j] eqn:E. 2: reflexivity.
    rewrite ref_value_name, field_value_nth.
    destruct (nth i r VNull) eqn:En; try reflexivity.
    destruct (default_of m i) as [d|] eqn:Ed; try reflexivity.
    exfalso. unfold k_rawkey in Hraw.
    assert (H : existsb (fun k0 => match ok_ref k0 with FByName i0 => has_default m i0 && lacks rows i0 | FByAlias _ => false end) (q_order q) = true).
    { apply existsb_exists. exists k. split. exact Hk. rewrite E. unfold has_default. rewrite Ed. simpl.
      unfold lacks. apply existsb_exists. exists r. split. exact Hr. rewrite En. reflexivity. }
    congruence.
  Qed.

  Lemma kvals_keys : forall r, In r rows -> map (kval r) (q_order q) = row_keys m q r.
  Proof.
    intros r Hr. unfold row_keys. apply map_ext_in. intros k Hk. apply kval_ref; assumption.
  Qed.

  (* ORDER BY compares two rows like the reference order *)
  Lemma order_cmp_lex : forall a b, In a rows -> In b rows ->
    srow_cmp binds s a b = lex_cmp (dirs q) (row_keys m q a) (row_keys m q b).
  Proof.
    intros a b Ha Hb. rewrite <- (kvals_keys a Ha), <- (kvals_keys b Hb). unfold dirs.
    unfold srow_cmp. rewrite Hord.
    assert (Ho : forall l, order_cmp (map (fun o : sx * dir => (sx_eval binds a (json_object binds s a) (fst o),
                                                     sx_eval binds b (json_object binds s b) (fst o), snd o))
                                (map (fun k => (ref_sx (ok_ref k), ok_dir k)) l))
                 = lex_cmp (map ok_dir l) (map (kval a) l) (map (kval b) l)).
    { induction l as [|k t IH]. reflexivity.
      cbn [map fst snd]. rewrite order_cmp_cons, IH. cbn [lex_cmp]. unfold kcmp.
      rewrite !scmp_canon, !kval_canon by assumption. rewrite <- !vcmp_canon.
      destruct (ok_dir k); reflexivity. }
    apply Ho.
  Qed.
End Keys.

(* ---------- filters ---------- *)
Lemma filters_sem : forall m q ps binds r out (fl : list qfilter) sfs fvals,
  Forall2 (fun f sf => exists xv, sf = filter_form m q f xv /\
             forall v r out, operand_value ps (fl_val f) = Some v -> scanon (sx_eval binds r out xv) = vcanon v) fl sfs ->
  Forall2 (fun f y => operand_value ps (fl_val f) = Some y) fl fvals ->
  (forall k, scanon (sx_eval binds r out (XOut k)) = vcanon (ref_value m q r (FByAlias k))) ->
  (forall f, In f fl -> fl_val f = OLit VNull -> filter_default m q f = None) ->
  (forall f d, In f fl -> filter_default m q f = Some d -> d <> VNull) ->
  (forall f n, In f fl -> (fl_op f = OEq \/ fl_op f = ONe) -> fl_val f = OVar n -> lookup n ps <> Some VNull) ->
  forallb (fun sf => is_true (filter_eval binds r out sf)) sfs =
  forallb (fun fv : qfilter * val => holds (fl_op (fst fv)) (ref_value m q r (fl_ref (fst fv))) (snd fv)) (combine fl fvals).
Proof.
  intros m q ps binds r out fl sfs fvals H. revert fvals.
  induction H as [|f sf fl sfs (xv & -> & Hxv) Hrest IH]; intros fvals Hv Hal Hw1 Hw2 Hk6.
  - inversion Hv. reflexivity.
  - inversion Hv as [|? v ? fvals' Hfv Hvrest]; subst. cbn [forallb combine fst snd]. f_equal.
    + apply filter_sem.
      * reflexivity.
      * apply Hxv. exact Hfv.
      * exact Hal.
      * intros Hl. rewrite Hl in Hfv. simpl in Hfv. congruence.
      * apply Hw1. left. reflexivity.
      * intros d. apply Hw2. left. reflexivity.
      * intros Hn Hop. destruct (fl_val f) as [v'|n] eqn:Ev.
        -- simpl in Hfv. congruence.
        -- exfalso. simpl in Hfv. eapply (Hk6 f n); eauto. left. reflexivity. congruence.
    + apply IH; try assumption.
      * intros f' Hin. apply Hw1. right. exact Hin.
      * intros f' d Hin. apply Hw2. right. exact Hin.
      * intros f' n Hin. apply Hk6. right. exact Hin.
Qed.

(* ---------- projection ---------- *)
Lemma project_eqv : forall m binds r sel ss,
  Forall2 (fun sf s0 => ss_field s0 = sf_field sf /\ ss_name s0 = sel_name m sf /\
                        sdefault_ok binds (default_of m (sf_field sf)) (ss_default s0)) sel ss ->
  (forall sf b, In sf sel -> default_of m (sf_field sf) = Some (VBool b) -> nth (sf_field sf) r VNull <> VNull) ->
  list_eqb val_eqv (map (fun sf => field_value m r (sf_field sf)) sel) (map (sel_value binds r) ss) = true.
Proof.
  intros m binds r sel ss H. induction H as [|sf s0 sel ss (Hf & _ & Hd) Hrest IH]; intros Hb. reflexivity.
  simpl. rewrite <- Hf. destruct (sel_value_sem m binds r s0) as [He _].
  - rewrite Hf. exact Hd.
  - intros b Hdb. rewrite Hf in *. eapply Hb; eauto. left. reflexivity.
  - rewrite He. simpl. apply IH. intros sf' b Hin. apply Hb. right. exact Hin.
Qed.

Lemma run_sql_unfold : forall rows s binds ln lk,
  stmt_malformed s = false -> lim_value binds (st_limit s) = Some ln -> lim_value binds (st_offset s) = Some lk ->
  run_sql rows s binds =
  Some (map (json_object binds s)
            (limit_list ln (offset_list lk (ssort (srow_cmp binds s)
               (filter (fun r => is_true (where_eval binds r (json_object binds s r) s)) rows))))).
Proof.
  intros rows s binds ln lk Hm Hl Hk. unfold run_sql. rewrite Hm, Hl, Hk. destruct ln, lk; reflexivity.
Qed.

(* ---------- paging ---------- *)
Lemma Forall2_combine_order : forall (P : operand -> val -> Prop) (order : list okey) vals cur,
  Forall2 P vals cur -> (List.length vals <= List.length order)%nat ->
  Forall2 (fun (ko : okey * operand) c => P (snd ko) c) (combine order vals) cur.
Proof.
  intros P order vals cur H. revert order. induction H as [|o c vals cur Hoc Hrest IH]; intros order Hl.
  - destruct order; constructor.
  - destruct order as [|k order]; simpl in Hl. lia. simpl. constructor. exact Hoc. apply IH. lia.
Qed.

Lemma compile_disjs_nonempty : forall before vo done ko todo vo' ds,
  compile_disjs before vo done (ko :: todo) = (vo', ds) -> ds <> [].
Proof.
  intros before vo done [k o] todo vo' ds H. cbn [compile_disjs] in H.
  destruct (compile_eqs vo done). destruct (operand_sx l o). destruct (compile_disjs before l1 (done ++ [(k, o)]) todo).
  injection H as _ <-. discriminate.
Qed.

Lemma filter_values_eq : forall q ps fvals,
  Forall2 (fun f y => operand_value ps (fl_val f) = Some y) (q_filters q) fvals -> filter_values q ps = fvals.
Proof.
  intros q ps fvals. unfold filter_values. generalize (q_filters q). intros l H.
  induction H as [|f y l fvals Hf Hrest IH]; simpl. reflexivity. rewrite Hf, IH. reflexivity.
Qed.
