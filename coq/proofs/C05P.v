(* C05P.v — proofs for C05 (tier T1): the SQL the compiler emits, run on the rows, gives the direct
   evaluation of the query — outside the delimited classes of Run_C05.known_query. *)
From DV Require Import Eval Sql Run_C05 C05Sort C05Order C05Sql.
From Coq Require Import Permutation.
Open Scope list_scope.

(* ---------- small list facts ---------- *)
Lemma cls_nil : forall b k l, cls b k ++ l = [] -> b = false /\ l = [].
Proof. intros [|] k l H; simpl in H. discriminate. split; [reflexivity | exact H]. Qed.

Lemma all_some_Forall2 : forall A B (f : A -> option B) l,
  (forall x, In x l -> f x <> None) -> exists r, all_some (map f l) = Some r /\ Forall2 (fun x y => f x = Some y) l r.
Proof.
  intros A B f l. induction l as [|x t IH]; intros H.
  - exists []. split. reflexivity. constructor.
  - destruct IH as (r & Hr & Hf). { intros y Hy. apply H. right. exact Hy. }
    destruct (f x) as [y|] eqn:E. 2: { exfalso. apply (H x). left. reflexivity. exact E. }
    exists (y :: r). split. simpl. rewrite E, Hr. reflexivity. constructor; assumption.
Qed.

Lemma In_skipn' : forall A n (l : list A) x, In x (skipn' n l) -> In x l.
Proof.
  intros A n. induction n as [|n IH]; intros l x H; destruct l as [|y t]; simpl in *; try assumption.
  right. apply IH. exact H.
Qed.
Lemma In_firstn : forall A n (l : list A) x, In x (firstn n l) -> In x l.
Proof.
  intros A n. induction n as [|n IH]; intros l x H; destruct l as [|y t]; simpl in *; try contradiction.
  destruct H as [H|H]. left. exact H. right. apply IH. exact H.
Qed.
Lemma In_take_first : forall n l x, In x (take_first n l) -> In x l.
Proof. intros n l x. unfold take_first. destruct (Z.leb n 0). auto. apply In_firstn. Qed.
Lemma In_drop_skip : forall n l x, In x (drop_skip n l) -> In x l.
Proof. intros n l x. unfold drop_skip. destruct (Z.leb n 0). auto. apply In_skipn'. Qed.

Lemma filters_fold : forall binds r out fs,
  is_true (fold_right (fun f acc => tv_and (filter_eval binds r out f) acc) (Some true) fs)
  = forallb (fun f => is_true (filter_eval binds r out f)) fs.
Proof.
  intros binds r out fs. induction fs as [|f t IH]; simpl. reflexivity. rewrite is_true_and, IH. reflexivity.
Qed.

Lemma In_combine3_firstn : forall (ds : list dir) (ks cs : list val) d k c,
  In (d, k, c) (combine (combine ds ks) cs) -> In k (firstn (List.length cs) ks) /\ In c cs.
Proof.
  induction ds as [|d0 ds IH]; intros ks cs d k c H; simpl in H. contradiction.
  destruct ks as [|k0 ks]; simpl in H. contradiction. destruct cs as [|c0 cs]; simpl in H. contradiction.
  destruct H as [H|H].
  - injection H as <- <- <-. split; left; reflexivity.
  - destruct (IH _ _ _ _ _ H) as [H1 H2]. split; right; assumption.
Qed.

Lemma ref_value_no_paging : forall m q r fr, ref_value m (no_paging q) r fr = ref_value m q r fr.
Proof. intros m q r fr. destruct fr; reflexivity. Qed.

Lemma default_of_In : forall m i d, default_of m i = Some d -> exists fd, In fd (em_fields m) /\ fd_default fd = Some d.
Proof.
  intros m i d H. unfold default_of, field_def in H. destruct (nth_error (em_fields m) i) as [fd|] eqn:E; try discriminate.
  exists fd. split. eapply nth_error_In; eauto. exact H.
Qed.

(* membership in query_vars *)
Lemma vars_filter : forall q f n, In f (q_filters q) -> fl_val f = OVar n -> In n (query_vars q).
Proof.
  intros q f n Hin Hv. unfold query_vars. apply in_flat_map. exists (OVar n). split; [|left; reflexivity].
  apply in_or_app. left. rewrite <- Hv. apply in_map. exact Hin.
Qed.
Lemma vars_paging : forall q o n, In o (paging_values (q_paging q)) -> o = OVar n -> In n (query_vars q).
Proof.
  intros q o n Hin ->. unfold query_vars. apply in_flat_map. exists (OVar n). split; [|left; reflexivity].
  apply in_or_app. right. apply in_or_app. left. exact Hin.
Qed.
Lemma vars_first : forall q n, q_first q = OVar n -> In n (query_vars q).
Proof.
  intros q n H. unfold query_vars. apply in_flat_map. exists (OVar n). split; [|left; reflexivity].
  apply in_or_app. right. apply in_or_app. right. apply in_or_app. left. rewrite H. left. reflexivity.
Qed.
Lemma vars_skip : forall q n, q_skip q = Some (OVar n) -> In n (query_vars q).
Proof.
  intros q n H. unfold query_vars. apply in_flat_map. exists (OVar n). split; [|left; reflexivity].
  apply in_or_app. right. apply in_or_app. right. apply in_or_app. right. rewrite H. left. reflexivity.
Qed.

Lemma in_combine_snd : forall A B (a : list A) (b : list B) x, In x (combine a b) -> In (snd x) b.
Proof. intros A B a b [x y] H. eapply in_combine_r; eauto. Qed.

Lemma order_cmp_cons : forall a b d t,
  order_cmp ((a, b, d) :: t) = match (match d with Asc => scmp a b | Desc => scmp b a end) with Eq => order_cmp t | c => c end.
Proof. reflexivity. Qed.

(* ---------- the order keys ---------- *)
Section Keys.
  Variable m : emodel.
  Variable q : query.
  Variable rows : db.
  Variable binds : list sval.
  Variable s : stmt.
  Hypothesis Hsel : Forall2 (fun sf s0 => ss_field s0 = sf_field sf /\ ss_name s0 = sel_name m sf /\
                         sdefault_ok binds (default_of m (sf_field sf)) (ss_default s0)) (q_sel q) (st_sel s).
  Hypothesis Hord : st_order s = map (fun k => (ref_sx (ok_ref k), ok_dir k)) (q_order q).
  Hypothesis Hbool : k_booldefault m rows q = false.
  Hypothesis Hraw : k_rawkey m rows q = false.

  Lemma bool_rows : forall r sf b, In r rows -> In sf (q_sel q) ->
    default_of m (sf_field sf) = Some (VBool b) -> nth (sf_field sf) r VNull <> VNull.
  Proof.
    intros r sf b Hr Hsf Hd Hn. unfold k_booldefault in Hbool.
    assert (H : existsb (fun sf0 => match default_of m (sf_field sf0) with Some (VBool _) => lacks rows (sf_field sf0) | _ => false end) (q_sel q) = true).
    { apply existsb_exists. exists sf. split. exact Hsf. rewrite Hd. unfold lacks. apply existsb_exists. exists r. split. exact Hr. rewrite Hn. reflexivity. }
    congruence.
  Qed.

  Lemma alias_canon : forall r k, In r rows ->
    scanon (sx_eval binds r (json_object binds s r) (XOut k)) = vcanon (ref_value m q r (FByAlias k)).
  Proof.
    intros r k Hr. cbn [sx_eval]. unfold json_object.
    rewrite (out_alias_sem m binds r (q_sel q) (st_sel s) Hsel).
    - unfold ref_value, ref_field. destruct (nth_error (q_sel q) k); reflexivity.
    - intros sf b Hin Hd. eapply bool_rows; eauto.
  Qed.

  (* the key as the statement reads it *)
  Definition kval (r : row) (k : okey) : val :=
    match ok_ref k with FByName i => nth i r VNull | FByAlias _ => ref_value m q r (ok_ref k) end.

  Lemma kval_canon : forall r k, In r rows ->
    scanon (sx_eval binds r (json_object binds s r) (ref_sx (ok_ref k))) = vcanon (kval r k).
  Proof.
    intros r k Hr. unfold kval. destruct (ok_ref k) as [i|j] eqn:E; cbn [ref_sx].
    - cbn [sx_eval]. apply scanon_to_sql.
    - apply alias_canon. exact Hr.
  Qed.

  Lemma kval_ref : forall r k, In r rows -> In k (q_order q) -> kval r k = ref_value m q r (ok_ref k).
  Proof.
    intros r k Hr Hk. unfold kval. destruct (ok_ref k) as [i|j] eqn:E. 2: reflexivity.
    rewrite ref_value_name, field_value_nth.
    destruct (nth i r VNull) eqn:En; try reflexivity.
    destruct (default_of m i) as [d|] eqn:Ed; try reflexivity.
    exfalso. unfold k_rawkey in Hraw.
    assert (H : existsb (fun k0 => match ok_ref k0 with FByName i0 => has_default m i0 && lacks rows i0 | FByAlias _ => false end) (q_order q) = true).
    { apply existsb_exists. exists k. split. exact Hk. rewrite E. unfold has_default. rewrite Ed. simpl.
      unfold lacks. apply existsb_exists. exists r. split. exact Hr. rewrite En. reflexivity. }
    congruence.
  Qed.

  Lemma kvals_keys : forall r, In r rows -> map (kval r) (q_order q) = row_keys m q r.
  Proof.
    intros r Hr. unfold row_keys. apply map_ext_in. intros k Hk. apply kval_ref; assumption.
  Qed.

  (* ORDER BY compares two rows like the reference order *)
  Lemma order_cmp_lex : forall a b, In a rows -> In b rows ->
    srow_cmp binds s a b = lex_cmp (dirs q) (row_keys m q a) (row_keys m q b).
  Proof.
    intros a b Ha Hb. rewrite <- (kvals_keys a Ha), <- (kvals_keys b Hb). unfold dirs.
    unfold srow_cmp. rewrite Hord.
    assert (Ho : forall l, order_cmp (map (fun o : sx * dir => (sx_eval binds a (json_object binds s a) (fst o),
                                                     sx_eval binds b (json_object binds s b) (fst o), snd o))
                                (map (fun k => (ref_sx (ok_ref k), ok_dir k)) l))
                 = lex_cmp (map ok_dir l) (map (kval a) l) (map (kval b) l)).
    { induction l as [|k t IH]. reflexivity.
      cbn [map fst snd]. rewrite order_cmp_cons, IH. cbn [lex_cmp]. unfold kcmp.
      rewrite !scmp_canon, !kval_canon by assumption. rewrite <- !vcmp_canon.
      destruct (ok_dir k); reflexivity. }
    apply Ho.
  Qed.
End Keys.

(* ---------- filters ---------- *)
Lemma filters_sem : forall m q ps binds r out (fl : list qfilter) sfs fvals,
  Forall2 (fun f sf => exists xv dx, sf = filter_form m q f xv dx /\
             (forall v r out, operand_value ps (fl_val f) = Some v -> scanon (sx_eval binds r out xv) = vcanon v) /\
             (forall d r out, filter_dflt m q f = Some d -> scanon (sx_eval binds r out dx) = vcanon d)) fl sfs ->
  Forall2 (fun f y => operand_value ps (fl_val f) = Some y) fl fvals ->
  (forall k, scanon (sx_eval binds r out (XOut k)) = vcanon (ref_value m q r (FByAlias k))) ->
  (forall f, In f fl -> fl_val f = OLit VNull -> filter_default m q f = None) ->
  (forall f d, In f fl -> filter_default m q f = Some d -> d <> VNull) ->
  (forall f n, In f fl -> (fl_op f = OEq \/ fl_op f = ONe) -> fl_val f = OVar n -> lookup n ps <> Some VNull) ->
  forallb (fun sf => is_true (filter_eval binds r out sf)) sfs =
  forallb (fun fv : qfilter * val => holds (fl_op (fst fv)) (ref_value m q r (fl_ref (fst fv))) (snd fv)) (combine fl fvals).
Proof.
  intros m q ps binds r out fl sfs fvals H. revert fvals.
  induction H as [|f sf fl sfs (xv & dx & -> & Hxv & Hdx) Hrest IH]; intros fvals Hv Hal Hw1 Hw2 Hk6.
  - inversion Hv. reflexivity.
  - inversion Hv as [|? v ? fvals' Hfv Hvrest]; subst. cbn [forallb combine fst snd]. f_equal.
    + apply filter_sem.
      * intros d Hd. apply Hdx. exact Hd.
      * apply Hxv. exact Hfv.
      * exact Hal.
      * intros Hl. rewrite Hl in Hfv. simpl in Hfv. congruence.
      * apply Hw1. left. reflexivity.
      * intros d. apply Hw2. left. reflexivity.
      * intros Hn Hop. destruct (fl_val f) as [v'|n] eqn:Ev.
        -- simpl in Hfv. congruence.
        -- exfalso. simpl in Hfv. eapply (Hk6 f n); eauto. left. reflexivity. congruence.
    + apply IH; try assumption.
      * intros f' Hin. apply Hw1. right. exact Hin.
      * intros f' d Hin. apply Hw2. right. exact Hin.
      * intros f' n Hin. apply Hk6. right. exact Hin.
Qed.

(* ---------- projection ---------- *)
Lemma project_eq : forall m binds r sel ss,
  Forall2 (fun sf s0 => ss_field s0 = sf_field sf /\ ss_name s0 = sel_name m sf /\
                        sdefault_ok binds (default_of m (sf_field sf)) (ss_default s0)) sel ss ->
  (forall sf b, In sf sel -> default_of m (sf_field sf) = Some (VBool b) -> nth (sf_field sf) r VNull <> VNull) ->
  map (sel_value binds r) ss = map (fun sf => field_value m r (sf_field sf)) sel.
Proof.
  intros m binds r sel ss H. induction H as [|sf s0 sel ss (Hf & _ & Hd) Hrest IH]; intros Hb. reflexivity.
  simpl. rewrite <- Hf. f_equal.
  - apply sel_value_sem. rewrite Hf. exact Hd. intros b Hdb. rewrite Hf in *. eapply Hb; eauto. left. reflexivity.
  - apply IH. intros sf' b Hin. apply Hb. right. exact Hin.
Qed.

Lemma run_sql_unfold : forall rows s binds ln lk,
  lim_value binds (st_limit s) = Some ln -> lim_value binds (st_offset s) = Some lk ->
  run_sql rows s binds =
  Some (map (json_object binds s)
            (limit_list ln (offset_list lk (ssort (srow_cmp binds s)
               (filter (fun r => is_true (where_eval binds r (json_object binds s r) s)) rows))))).
Proof.
  intros rows s binds ln lk Hl Hk. unfold run_sql. rewrite Hl, Hk. destruct ln, lk; reflexivity.
Qed.

(* ---------- paging ---------- *)
Lemma Forall2_combine_order : forall (P : operand -> val -> Prop) (order : list okey) vals cur,
  Forall2 P vals cur -> (List.length vals <= List.length order)%nat ->
  Forall2 (fun (ko : okey * operand) c => P (snd ko) c) (combine order vals) cur.
Proof.
  intros P order vals cur H. revert order. induction H as [|o c vals cur Hoc Hrest IH]; intros order Hl.
  - destruct order; constructor.
  - destruct order as [|k order]; simpl in Hl. lia. simpl. constructor. exact Hoc. apply IH. lia.
Qed.

Lemma compile_disjs_nonempty : forall before vo done ko todo vo' ds,
  compile_disjs before vo done (ko :: todo) = (vo', ds) -> ds <> [].
Proof.
  intros before vo done [k o] todo vo' ds H. cbn [compile_disjs] in H.
  destruct (compile_eqs vo done). destruct (operand_sx l o). destruct (compile_disjs before l1 (done ++ [(k, o)]) todo).
  injection H as _ <-. discriminate.
Qed.

Lemma filter_values_eq : forall q ps fvals,
  Forall2 (fun f y => operand_value ps (fl_val f) = Some y) (q_filters q) fvals -> filter_values q ps = fvals.
Proof.
  intros q ps fvals. unfold filter_values. generalize (q_filters q). intros l H.
  induction H as [|f y l fvals Hf Hrest IH]; simpl. reflexivity. rewrite Hf, IH. reflexivity.
Qed.

(* ---------- the T1 theorem ---------- *)
Lemma cls_nil1 : forall b k, cls b k = [] -> b = false.
Proof. intros [|] k H; simpl in H. discriminate. reflexivity. Qed.

Lemma Forall2_weaken : forall A B (P Q : A -> B -> Prop) l1 l2, (forall a b, P a b -> Q a b) -> Forall2 P l1 l2 -> Forall2 Q l1 l2.
Proof. intros A B P Q l1 l2 H F. induction F; constructor; auto. Qed.

Lemma Forall2_In_r : forall A B (P : A -> B -> Prop) l1 l2 y, Forall2 P l1 l2 -> In y l2 -> exists x, In x l1 /\ P x y.
Proof.
  intros A B P l1 l2 y F. induction F as [|a b l1 l2 Hab Hrest IH]; intros Hin. contradiction.
  destruct Hin as [<-|Hin]. exists a. split. left. reflexivity. exact Hab.
  destruct (IH Hin) as (x & Hx & Hp). exists x. split. right. exact Hx. exact Hp.
Qed.

Lemma compile_disjs_nonempty' : forall before vo done todo vo' ds,
  compile_disjs before vo done todo = (vo', ds) -> todo <> [] -> ds <> [].
Proof. intros before vo done todo vo' ds H Hn. destruct todo as [|ko t]. congruence. eapply compile_disjs_nonempty; eauto. Qed.

Theorem T1_outside_known : forall m rows q ps,
  wf_query m q = true -> params_ok q ps = true -> known_query m rows q ps = [] ->
  run_query m rows q ps = eval m rows q ps.
Proof.
  intros m rows q ps Hwf Hpo Hk.
  unfold known_query in Hk.
  apply cls_nil in Hk. destruct Hk as [K1 Hk]. apply cls_nil in Hk. destruct Hk as [K2 Hk].
  apply cls_nil in Hk. destruct Hk as [K3 Hk]. apply cls_nil in Hk. destruct Hk as [K6 K7]. apply cls_nil1 in K7.
  unfold wf_query in Hwf. apply andb_prop in Hwf. destruct Hwf as [Hwf W4]. apply andb_prop in Hwf. destruct Hwf as [Hwf W3].
  apply andb_prop in Hwf. destruct Hwf as [W1 W2].
  unfold params_ok in Hpo. apply andb_prop in Hpo. destruct Hpo as [Hpo P4]. apply andb_prop in Hpo. destruct Hpo as [Hpo P3].
  apply andb_prop in Hpo. destruct Hpo as [P1 P2].
  rewrite forallb_forall in W1, W2, W3, P1, P4.
  unfold run_query. destruct (compile m q) as [vf s] eqn:Ec.
  pose proof Ec as Ec'. unfold compile in Ec'.
  destruct (compile_sel m [] (q_sel q)) as [vo1 sel] eqn:E1.
  destruct (compile_filters m q vo1 (q_filters q)) as [vo2 fs] eqn:E2.
  destruct (compile_disjs (is_before (q_paging q)) vo2 [] (combine (q_order q) (paging_values (q_paging q)))) as [vo3 pg] eqn:E3.
  destruct (compile_limit vo3 q) as [[vo4 lim] off] eqn:E4.
  injection Ec' as Evf Es. subst vo4.
  assert (Ssel : st_sel s = sel) by (rewrite <- Es; reflexivity).
  assert (Sfs : st_filters s = fs) by (rewrite <- Es; reflexivity).
  assert (Spg : st_paging s = pg) by (rewrite <- Es; reflexivity).
  assert (Sord : st_order s = map (fun k : okey => (ref_sx (ok_ref k), ok_dir k)) (q_order q)) by (rewrite <- Es; reflexivity).
  assert (Slim : st_limit s = lim) by (rewrite <- Es; reflexivity).
  assert (Soff : st_offset s = off) by (rewrite <- Es; reflexivity).
  clear Es.
  destruct (compile_sel_sem _ _ _ _ _ E1) as [Hp1 C1].
  destruct (compile_filters_shape _ _ _ _ _ _ E2) as [Hp2 C2].
  destruct (compile_disjs_sem _ _ _ _ _ _ E3) as [Hp3 C3].
  destruct (compile_limit_sem _ _ _ _ _ E4) as [Hp4 C4].
  assert (Hpf3 : pfx vo3 vf) by exact Hp4.
  assert (Hpf2 : pfx vo2 vf) by (eapply pfx_trans; eauto).
  assert (Hpf1 : pfx vo1 vf) by (eapply pfx_trans; eauto).
  (* binding succeeds *)
  assert (Hent : entries_ok (fun n => In n (query_vars q)) vf).
  { eapply compile_limit_entries. exact E4. 2: apply vars_first. 2: apply vars_skip.
    eapply compile_disjs_entries. exact E3.
    2: { intros ko n Hin Hn. simpl in Hin. eapply vars_paging. eapply in_combine_snd. exact Hin. exact Hn. }
    eapply compile_filters_entries. exact E2. 2: apply vars_filter.
    eapply compile_sel_entries. exact E1. intros p []. }
  destruct (bind_total ps vf) as [binds Hb].
  { intros p Hin Hf. specialize (P1 _ (Hent p Hin Hf)). destruct (lookup (snd p) ps); congruence. }
  rewrite Hb.
  (* the reference side *)
  destruct (all_some_Forall2 _ _ (fun f => operand_value ps (fl_val f)) (q_filters q)) as (fvals & Hfv & Hfv2).
  { intros f Hin. destruct (fl_val f) as [v|n] eqn:Ev; simpl. discriminate.
    specialize (P1 n (vars_filter q f n Hin Ev)). destruct (lookup n ps); congruence. }
  destruct (all_some_Forall2 _ _ (operand_value ps) (paging_values (q_paging q))) as (cur & Hcur & Hcur2).
  { intros o Hin. destruct o as [v|n]; simpl. discriminate.
    specialize (P1 n (vars_paging q (OVar n) n Hin eq_refl)). destruct (lookup n ps); congruence. }
  unfold eval. rewrite Hfv, Hcur.
  destruct (option_map as_int (operand_value ps (q_first q))) as [[n|]|] eqn:Ef; try discriminate.
  set (sk := match q_skip q with None => Some (Some 0) | Some o => option_map as_int (operand_value ps o) end).
  assert (Hsk : exists k, sk = Some (Some k)).
  { subst sk. destruct (q_skip q) as [o|]. destruct (option_map as_int (operand_value ps o)) as [[k|]|]; try discriminate. exists k. reflexivity. exists 0. reflexivity. }
  destruct Hsk as [k Hsk]. rewrite Hsk.
  destruct (C4 vf ps binds n k (pfx_refl _) Hb Ef Hsk K7) as (ln & lk & Hln & Hlk & Hlim & Hoff).
  pose proof (C1 vf ps binds Hpf1 Hb) as HC1. rewrite <- Ssel in HC1.
  pose proof (C2 vf ps binds Hpf2 Hb) as HC2.
  rewrite (run_sql_unfold rows s binds ln lk); try (rewrite ?Slim, ?Soff; assumption).
  rewrite Hlim, Hoff, ssort_isort. fold (drop_skip k (isort (srow_cmp binds s) (filter (fun r : row => is_true (where_eval binds r (json_object binds s r) s)) rows))).
  match goal with |- Some (map _ (if Z.leb n 0 then ?x else firstn (Z.to_nat n) ?x)) = _ => fold (take_first n x) end.
  assert (Hwhere : forall r, In r rows ->
     is_true (where_eval binds r (json_object binds s r) s) =
     (forallb (fun fv : qfilter * val => holds (fl_op (fst fv)) (ref_value m q r (fl_ref (fst fv))) (snd fv)) (combine (q_filters q) fvals)
      && match q_paging q with
         | PNone => true
         | PAfter _ => match lex_cmp (dirs q) (row_keys m q r) cur with Gt => true | _ => false end
         | PBefore _ => match lex_cmp (dirs q) (row_keys m q r) cur with Lt => true | _ => false end
         end)).
  { intros r Hr.
    assert (Hfl : forallb (fun sf => is_true (filter_eval binds r (json_object binds s r) sf)) fs =
                  forallb (fun fv : qfilter * val => holds (fl_op (fst fv)) (ref_value m q r (fl_ref (fst fv))) (snd fv)) (combine (q_filters q) fvals)).
    { eapply filters_sem. exact HC2. exact Hfv2.
      - intros k0. apply (alias_canon m q rows binds s HC1 K3 K2 r k0 Hr).
      - intros f Hin Hl. specialize (W1 f Hin). rewrite Hl in W1. destruct (filter_default m q f); [discriminate | reflexivity].
      - intros f d Hin Hd Hdn. subst d. unfold filter_default in Hd. destruct (ref_field q (fl_ref f)) as [i|]; try discriminate.
        destruct (default_of_In m i VNull Hd) as (fd & Hfd & Hdd). specialize (W2 fd Hfd). rewrite Hdd in W2. discriminate.
      - intros f nm Hin Hop Hv Hl. unfold k_nullvar in K6.
        assert (Hex : existsb (fun f0 => match fl_op f0, fl_val f0 with
                                        | (OEq | ONe), OVar n0 => match lookup n0 ps with Some VNull => true | _ => false end
                                        | _, _ => false end) (q_filters q) = true).
        { apply existsb_exists. exists f. split. exact Hin. rewrite Hv, Hl. destruct Hop as [-> | ->]; reflexivity. }
        congruence. }
    unfold where_eval. rewrite Sfs, Spg.
    assert (Hpaged : forall (before : bool) vs, q_paging q = (if before then PBefore vs else PAfter vs) ->
              is_true (match pg with [] => fold_right (fun f acc => tv_and (filter_eval binds r (json_object binds s r) f) acc) (Some true) fs
                       | _ => tv_and (fold_right (fun f acc => tv_and (filter_eval binds r (json_object binds s r) f) acc) (Some true) fs)
                                     (fold_right (fun d acc => tv_or (disj_eval binds r (json_object binds s r) d) acc) (Some false) pg) end)
              = (forallb (fun fv : qfilter * val => holds (fl_op (fst fv)) (ref_value m q r (fl_ref (fst fv))) (snd fv)) (combine (q_filters q) fvals)
                 && match lex_cmp (dirs q) (row_keys m q r) cur with Gt => negb before | Lt => before | Eq => false end)).
    { intros before vs Ep.
      assert (Epv : paging_values (q_paging q) = vs) by (rewrite Ep; destruct before; reflexivity).
      assert (Epb : is_before (q_paging q) = before) by (rewrite Ep; destruct before; reflexivity).
      rewrite Epv, Epb in E3. rewrite Epv in Hcur2, W3, P4.
      assert (W4' : negb (Nat.eqb (List.length vs) 0) && Nat.leb (List.length vs) (List.length (q_order q)) = true).
      { rewrite Ep in W4. destruct before; exact W4. }
      apply andb_prop in W4'. destruct W4' as [W4a W4b]. apply Nat.leb_le in W4b.
      assert (W4c : List.length vs <> 0%nat). { intros Hc. rewrite Hc in W4a. discriminate. }
      rewrite Epv, Epb in C3.
      assert (Hcne : combine (q_order q) vs <> []).
      { intros Hc. pose proof (combine_length (q_order q) vs) as Hcl. rewrite Hc in Hcl. simpl in Hcl. lia. }
      pose proof (compile_disjs_nonempty' _ _ _ _ _ _ E3 Hcne) as Hne.
      destruct pg as [|d0 pg']; [congruence|].
      rewrite is_true_and, filters_fold, Hfl.
      destruct (forallb (fun fv : qfilter * val => holds (fl_op (fst fv)) (ref_value m q r (fl_ref (fst fv))) (snd fv)) (combine (q_filters q) fvals)) eqn:Hpass; [|reflexivity].
      cbn [andb].
      assert (HF2 : Forall2 (fun (ko0 : okey * operand) c => operand_value ps (snd ko0) = Some c) (combine (q_order q) vs) cur).
      { apply (Forall2_combine_order (fun o c => operand_value ps o = Some c)). exact Hcur2. exact W4b. }
      rewrite (C3 vf ps binds Hpf3 Hb) with (kval := kval m q r) (cd := []) (ct := cur).
      2: { intros k0. apply (kval_canon m q rows binds s HC1 K3 K2 r k0 Hr). }
      2: constructor.
      2: exact HF2.
      cbn [trip combine map forallb andb].
      rewrite (trip_zip _ _ _ _ _ HF2), (kvals_keys m q rows K2 r Hr). fold (dirs q).
      rewrite vlex_lexz, <- lex_cmp_zip. reflexivity.
      intros d kv c Hin. apply In_combine3_firstn in Hin. destruct Hin as [Hk Hc]. split.
      - (* keys of a row that passes the filters are not null outside class 1 *)
        assert (Hk1 : k_paging (List.length vs) m rows q ps = false).
        { rewrite Ep in K1. destruct before; cbn [paging_values] in K1; exact K1. }
        unfold k_paging in Hk1.
        assert (Hlen : List.length cur = List.length vs) by (symmetry; eapply Forall2_length'; eauto).
        rewrite Hlen in Hk. intros Hn. subst kv.
        assert (Hex : existsb (existsb is_null) (map (firstn (List.length vs)) (matching_keys m rows q ps)) = true).
        { apply existsb_exists. exists (firstn (List.length vs) (row_keys m q r)). split.
          - apply in_map. unfold matching_keys. apply in_map. unfold matching. apply filter_In. split. exact Hr.
            rewrite (filter_values_eq q ps fvals Hfv2). cbn [q_filters q_paging no_paging]. rewrite andb_true_r.
            rewrite forallb_forall in Hpass |- *. intros fv Hfvin. rewrite ref_value_no_paging. apply Hpass. exact Hfvin.
          - apply existsb_exists. exists VNull. split. exact Hk. reflexivity. }
        congruence.
      - destruct (Forall2_In_r _ _ _ _ _ _ Hcur2 Hc) as (o & Ho & Hov). specialize (P4 o Ho). rewrite Hov in P4.
        intros Hn. subst c. discriminate. }
    destruct (q_paging q) as [|vs|vs] eqn:Ep.
    - cbn [paging_values is_before] in E3. rewrite combine_nil in E3. cbn in E3. injection E3 as _ <-.
      rewrite filters_fold, Hfl, andb_true_r. reflexivity.
    - pose proof (Hpaged false vs eq_refl) as HP. cbn [negb] in HP.
      transitivity (forallb (fun fv : qfilter * val => holds (fl_op (fst fv)) (ref_value m q r (fl_ref (fst fv))) (snd fv)) (combine (q_filters q) fvals)
                    && match lex_cmp (dirs q) (row_keys m q r) cur with Gt => true | Lt => false | Eq => false end).
      + rewrite <- HP. destruct pg; reflexivity.
      + destruct (lex_cmp (dirs q) (row_keys m q r) cur); reflexivity.
    - pose proof (Hpaged true vs eq_refl) as HP. cbn [negb] in HP.
      transitivity (forallb (fun fv : qfilter * val => holds (fl_op (fst fv)) (ref_value m q r (fl_ref (fst fv))) (snd fv)) (combine (q_filters q) fvals)
                    && match lex_cmp (dirs q) (row_keys m q r) cur with Gt => false | Lt => true | Eq => false end).
      + rewrite <- HP. destruct pg; reflexivity.
      + destruct (lex_cmp (dirs q) (row_keys m q r) cur); reflexivity. }
  assert (Hfilt : filter (fun r => is_true (where_eval binds r (json_object binds s r) s)) rows = matching m q fvals cur rows).
  { unfold matching. apply filter_ext_in. exact Hwhere. }
  rewrite Hfilt.
  assert (Hsort : isort (srow_cmp binds s) (matching m q fvals cur rows) = ordered m q (matching m q fvals cur rows)).
  { unfold ordered. apply isort_ext_in. intros a b Ha Hb'.
    apply (order_cmp_lex m q rows binds s HC1 Sord K3 K2); unfold matching in *; [apply filter_In in Ha | apply filter_In in Hb']; tauto. }
  rewrite Hsort.
  f_equal. apply map_ext_in. intros r Hr.
  apply In_take_first, In_drop_skip in Hr. unfold ordered in Hr.
  assert (Hrr : In r rows).
  { eapply Permutation_in in Hr; [|apply Permutation_sym; apply isort_perm]. unfold matching in Hr. apply filter_In in Hr. tauto. }
  unfold project, json_object. apply project_eq. exact HC1.
  intros sf b Hin Hd. eapply bool_rows; eauto.
Qed.
