(* C18P.v — proofs about the event side of the daily log (model/Events.v, run/Run_C18.v). *)
From DV Require Import Run_C09 C09P Run_C18.
Open Scope Z_scope.

(* a recomputation reports every dirty row: C09P.compute_reports_all_dirty (both versions of compute) *)

(* ------------------------------------------------------------------ the end of a batch makes every mark a dirty row *)
Definition dirty_key (lg : list lrow) (k : lkey) : Prop := exists l, In l lg /\ lrow_key l = k /\ l_dirty l = true.

Lemma upsert_has : forall k lg, dirty_key (upsert k lg) k.
Proof.
  intros k lg. unfold upsert. destruct (has_key k lg) eqn:Hk.
  - unfold has_key in Hk. apply existsb_exists in Hk as [l [Hin He]].
    exists (mark_row l). split; [|split; [rewrite mark_row_key; apply key_eqb_eq; exact He | reflexivity]].
    apply in_map_iff. exists l. rewrite He. split; [reflexivity | exact Hin].
  - exists (new_row k). split; [apply insert_sorted_In; left; reflexivity | split; [apply new_row_key | apply new_row_dirty]].
Qed.
Lemma upsert_keeps : forall k lg k', dirty_key lg k' -> dirty_key (upsert k lg) k'.
Proof.
  intros k lg k' [l [Hin [Hk Hd]]]. unfold upsert. destruct (has_key k lg).
  - exists (if key_eqb (lrow_key l) k then mark_row l else l). split.
    + apply in_map_iff. exists l. split; [reflexivity | exact Hin].
    + destruct (key_eqb (lrow_key l) k); [split; [rewrite mark_row_key; exact Hk | reflexivity] | split; assumption].
  - exists l. split; [apply insert_sorted_In; right; exact Hin | split; assumption].
Qed.
Lemma write_marks_keeps : forall ks lg k, dirty_key lg k -> dirty_key (write_marks ks lg) k.
Proof.
  unfold write_marks. induction ks as [|k0 ks IH]; intros lg k H; cbn [fold_left]; [exact H|].
  apply IH. apply upsert_keeps. exact H.
Qed.
Lemma write_marks_dirty : forall ks lg k, key_mem k ks = true -> dirty_key (write_marks ks lg) k.
Proof.
  unfold write_marks. induction ks as [|k0 ks IH]; intros lg k H; cbn [fold_left]; [discriminate|].
  unfold key_mem in H; cbn [existsb] in H. apply orb_true_iff in H as [H|H].
  - apply key_eqb_eq in H. subst k0. apply (write_marks_keeps ks). apply upsert_has.
  - apply IH. exact H.
Qed.

(* ------------------------------------------------------------------ dirty or reported *)
(* every key changed by a committed write and not announced since is marked: pending in the
   current batch or a dirty row of the log *)
Definition OI (s : state) (pend ow : list lkey) : Prop :=
  forall k, In k ow -> key_mem k pend = true \/ dirty_key (log s) k.

Lemma kinsert_u_In : forall k l x, In x (kinsert_u k l) -> x = k \/ In x l.
Proof.
  intros k l x; induction l as [|h t IH]; cbn [kinsert_u]; intro H.
  - destruct H as [H|[]]; left; auto.
  - destruct (key_eqb h k); [right; exact H|]. destruct (key_ltb k h).
    + destruct H as [H|H]; [left; auto | right; exact H].
    + destruct H as [H|H]; [right; left; exact H|]. apply IH in H as [H|H]; [left; exact H | right; right; exact H].
Qed.
Lemma ksort_u_In : forall l x, In x (ksort_u l) -> In x l.
Proof.
  unfold ksort_u. intros l x.
  assert (G : forall l acc, In x (fold_left (fun a k => kinsert_u k a) l acc) -> In x acc \/ In x l).
  { induction l0 as [|k t IH]; intros acc H; cbn [fold_left] in H; [left; exact H|].
    apply IH in H as [H|H]; [|right; right; exact H].
    apply kinsert_u_In in H as [H|H]; [right; left; auto | left; exact H]. }
  intro H. apply G in H as [[]|H]. exact H.
Qed.
Lemma changed_in_marks : forall s s' ms, uncovered s s' ms = [] ->
  forall k, In k (changed_keys s s') -> key_mem k ms = true.
Proof.
  intros s s' ms Hu k Hk. unfold changed_keys in Hk. apply filter_In in Hk as [_ Hc].
  destruct (key_mem k ms) eqn:M; [reflexivity|].
  rewrite (uncovered_nil _ _ _ Hu k M) in Hc.
  assert (E : nlist_eqb (content s k) (content s k) = true) by (apply nlist_eqb_eq; reflexivity).
  rewrite E in Hc. discriminate.
Qed.

Lemma owed_app : forall t1 t2, owed (t1 ++ t2) = fold_left owed_step t2 (owed t1).
Proof. intros; unfold owed; apply fold_left_app. Qed.

Lemma trace_msgs_OI : forall b s pend tr s' pend' tr',
  OI s pend (owed tr) -> batch_covered s b ->
  fold_left trace_msg b (s, pend, tr) = (s', pend', tr') -> OI s' pend' (owed tr').
Proof.
  induction b as [|m t IH]; intros s pend tr s' pend' tr' Hi Hc H; cbn [fold_left] in H.
  - inversion H; subst; exact Hi.
  - destruct Hc as [Hm Ht]. destruct m as [o|]; cbn [trace_msg] in H.
    + destruct (exec_op o s) as [s1 ms] eqn:E. cbn [msg_state msg_covered] in *. rewrite E in *. cbn [fst snd] in *.
      eapply IH; [|exact Ht|exact H]. rewrite owed_app. cbn [fold_left owed_step].
      assert (Hl : log s1 = log s) by (pose proof (exec_op_log o s) as L; rewrite E in L; exact L).
      intros k Hk. apply in_app_or in Hk as [Hk|Hk].
      * destruct (Hi k Hk) as [A|A]; [left; rewrite key_mem_app, A; reflexivity | right; rewrite Hl; exact A].
      * left. rewrite key_mem_app, (changed_in_marks _ _ _ Hm k Hk). apply orb_true_r.
    + destruct (compute s) as [s1 rep] eqn:E. cbn [msg_state] in *. rewrite E in *. cbn [fst] in *.
      eapply IH; [|exact Ht|exact H]. rewrite owed_app. cbn [fold_left owed_step].
      intros k Hk. apply filter_In in Hk as [Hk Hn].
      destruct (Hi k Hk) as [A|[l [Hin [Hkl Hd]]]]; [left; exact A|].
      exfalso. pose proof (compute_reports_all_dirty _ _ _ E l Hin Hd) as R. rewrite Hkl in R.
      apply key_mem_In in R. rewrite R in Hn. discriminate.
Qed.

Lemma trace_batch_OI : forall s tr b s' tr',
  OI s [] (owed tr) -> batch_covered s b -> trace_batch (s, tr) b = (s', tr') -> OI s' [] (owed tr').
Proof.
  intros s tr b s' tr' Hi Hc H. unfold trace_batch in H.
  destruct (fold_left trace_msg b (s, [], tr)) as [[s1 pend] tr1] eqn:E. inversion H; subst; clear H.
  pose proof (trace_msgs_OI _ _ _ _ _ _ _ Hi Hc E) as P.
  intros k Hk. right. cbn [log set_log]. destruct (P k Hk) as [A|A];
    [apply write_marks_dirty; exact A | apply write_marks_keeps; exact A].
Qed.

(* the state part of the trace functions is the writer's (exec_batch) *)
Lemma trace_msgs_state : forall b s pend tr evs,
  fst (fst (fold_left trace_msg b (s, pend, tr))) = fst (fst (fold_left exec_msg b (s, pend, evs))) /\
  snd (fst (fold_left trace_msg b (s, pend, tr))) = snd (fst (fold_left exec_msg b (s, pend, evs))).
Proof.
  induction b as [|m t IH]; intros s pend tr evs; cbn [fold_left]; [split; reflexivity|].
  destruct m as [o|]; cbn [trace_msg exec_msg].
  - destruct (exec_op o s) as [s1 ms]. apply IH.
  - destruct (compute s) as [s1 rep]. apply IH.
Qed.
Lemma trace_batch_state : forall s tr b, fst (trace_batch (s, tr) b) = fst (exec_batch (s, []) b).
Proof.
  intros s tr b. unfold trace_batch, exec_batch.
  pose proof (trace_msgs_state b s [] tr []) as [A B].
  destruct (fold_left trace_msg b (s, [], tr)) as [[s1 p1] t1].
  destruct (fold_left exec_msg b (s, [], [])) as [[s2 p2] e2]. cbn [fst snd] in *. subst. reflexivity.
Qed.

Fixpoint batches_covered (s : state) (bs : list (list msg)) : Prop :=
  match bs with
  | [] => True
  | b :: t => batch_covered s b /\ batches_covered (fst (exec_batch (s, []) b)) t
  end.

Lemma trace_batches_OI : forall bs s tr s' tr',
  OI s [] (owed tr) -> batches_covered s bs -> trace_batches (s, tr) bs = (s', tr') -> OI s' [] (owed tr').
Proof.
  unfold trace_batches. induction bs as [|b t IH]; intros s tr s' tr' Hi Hc H; cbn [fold_left] in H.
  - inversion H; subst; exact Hi.
  - destruct Hc as [Hb Ht]. destruct (trace_batch (s, tr) b) as [s1 tr1] eqn:E.
    assert (Ht' : batches_covered s1 t).
    { pose proof (trace_batch_state s tr b) as S. rewrite E in S. cbn [fst] in S. rewrite S. exact Ht. }
    eapply IH; [|exact Ht'|exact H].
    eapply trace_batch_OI; eauto.
Qed.

(* quiescence: once a recompute request has been processed in a batch after the last write, every
   changed key has been announced — whatever the batching before *)
Theorem quiescent_all_reported : forall bs s tr s' tr',
  OI s [] (owed tr) -> batches_covered s bs ->
  trace_batches (s, tr) (bs ++ [[MCompute]]) = (s', tr') -> owed tr' = [].
Proof.
  intros bs s tr s' tr' Hi Hc H. unfold trace_batches in H. rewrite fold_left_app in H. cbn [fold_left] in H.
  destruct (fold_left trace_batch bs (s, tr)) as [s1 tr1] eqn:E.
  pose proof (trace_batches_OI _ _ _ _ _ Hi Hc E) as P.
  unfold trace_batch in H. cbn [fold_left trace_msg] in H.
  destruct (compute s1) as [s2 rep] eqn:C. inversion H; subst; clear H.
  rewrite owed_app. cbn [fold_left owed_step].
  destruct (filter (fun k => negb (key_mem k rep)) (owed tr1)) as [|k l] eqn:F; [reflexivity|].
  exfalso. assert (Hk : In k (filter (fun k => negb (key_mem k rep)) (owed tr1))) by (rewrite F; left; reflexivity).
  apply filter_In in Hk as [Hk Hn]. destruct (P k Hk) as [A|[l0 [Hin [Hkl Hd]]]]; [discriminate|].
  pose proof (compute_reports_all_dirty _ _ _ C l0 Hin Hd) as R. rewrite Hkl in R.
  apply key_mem_In in R. rewrite R in Hn. discriminate.
Qed.

(* ------------------------------------------------------------------ API programs *)
Definition noTQ (t : list tev) : Prop := forall e, In e t -> e <> TQ.

Lemma announced_app : forall t1 t2 ow,
  announced_ok ow (t1 ++ t2) = announced_ok ow t1 && announced_ok (fold_left owed_step t1 ow) t2.
Proof.
  induction t1 as [|e t IH]; intros t2 ow; [reflexivity|]. cbn [app]. destruct e as [ks|ks|]; cbn [announced_ok fold_left owed_step].
  - apply IH.
  - apply IH.
  - destruct ow; [apply IH | reflexivity].
Qed.
Lemma announced_noTQ : forall t ow, noTQ t -> announced_ok ow t = true.
Proof.
  induction t as [|e t IH]; intros ow H; [reflexivity|].
  assert (Ht : noTQ t) by (intros x Hx; apply H; right; exact Hx).
  destruct e as [ks|ks|]; cbn [announced_ok]; [apply IH; exact Ht | apply IH; exact Ht |].
  exfalso. apply (H TQ); [left; reflexivity | reflexivity].
Qed.

Lemma trace_msgs_ext : forall b s pend tr s' pend' tr',
  fold_left trace_msg b (s, pend, tr) = (s', pend', tr') -> exists new, tr' = tr ++ new /\ noTQ new.
Proof.
  induction b as [|m t IH]; intros s pend tr s' pend' tr' H; cbn [fold_left] in H.
  - inversion H; subst. exists []. split; [rewrite app_nil_r; reflexivity | intros e []].
  - destruct m as [o|]; cbn [trace_msg] in H.
    + destruct (exec_op o s) as [s1 ms]. apply IH in H as [new [E N]]. exists (TW (changed_keys s s1) :: new).
      split; [rewrite E, <- app_assoc; reflexivity | intros e [He|He]; [subst; discriminate | apply N; exact He]].
    + destruct (compute s) as [s1 rep]. apply IH in H as [new [E N]]. exists (TE rep :: new).
      split; [rewrite E, <- app_assoc; reflexivity | intros e [He|He]; [subst; discriminate | apply N; exact He]].
Qed.
Lemma trace_batches_ext : forall bs s tr s' tr',
  trace_batches (s, tr) bs = (s', tr') -> exists new, tr' = tr ++ new /\ noTQ new.
Proof.
  unfold trace_batches. induction bs as [|b t IH]; intros s tr s' tr' H; cbn [fold_left] in H.
  - inversion H; subst. exists []. split; [rewrite app_nil_r; reflexivity | intros e []].
  - destruct (trace_batch (s, tr) b) as [s1 tr1] eqn:E. apply IH in H as [n2 [E2 N2]].
    unfold trace_batch in E. destruct (fold_left trace_msg b (s, [], tr)) as [[s0 p0] t0] eqn:F. inversion E; subst.
    apply trace_msgs_ext in F as [n1 [E1 N1]]. subst. exists (n1 ++ n2).
    split; [rewrite app_assoc; reflexivity | intros e He; apply in_app_or in He as [He|He]; [apply N1 | apply N2]; exact He].
Qed.
Lemma trace_batches_state : forall bs s tr, fst (trace_batches (s, tr) bs) = fst (trace_batches (s, []) bs).
Proof.
  unfold trace_batches. induction bs as [|b t IH]; intros s tr; cbn [fold_left]; [reflexivity|].
  destruct (trace_batch (s, tr) b) as [s1 t1] eqn:E1. destruct (trace_batch (s, []) b) as [s2 t2] eqn:E2.
  pose proof (trace_batch_state s tr b) as A. pose proof (trace_batch_state s [] b) as B.
  rewrite E1 in A. rewrite E2 in B. cbn [fst] in A, B. assert (s1 = s2) by congruence. subst.
  rewrite IH. symmetry. apply IH.
Qed.
Lemma trace_api_state : forall a s tr, fst (trace_api (s, tr) a) = fst (trace_api (s, []) a).
Proof.
  intros a s tr. unfold trace_api. pose proof (trace_batches_state (batches_of a) s tr) as A.
  destruct (trace_batches (s, tr) (batches_of a)) as [s1 t1]. destruct (trace_batches (s, []) (batches_of a)) as [s2 t2].
  cbn [fst] in *. exact A.
Qed.

Fixpoint prog_ok (s : state) (p : list api) : Prop :=
  match p with
  | [] => True
  | a :: t => batches_covered s (batches_of a) /\ prog_ok (fst (trace_api (s, []) a)) t
  end.

(* every call that promises announcement ends with a recompute in a batch after its writes:
   mutate / delete request it after the acknowledgement, a stream after its last reply *)
Lemma promising_ends_with_compute : forall a, promises a = true ->
  exists bs, batches_of a = bs ++ [[MCompute]].
Proof.
  intros a Hp. destruct a as [t|o|os1|o| |os]; try discriminate.
  - exists [[MOp o]]. reflexivity.
  - exists [map MOp os1]. reflexivity.
  - exists []. reflexivity.
  - exists (map (fun o => [MOp o]) os). reflexivity.
Qed.
Lemma batches_covered_app : forall b1 b2 s, batches_covered s (b1 ++ b2) -> batches_covered s b1.
Proof.
  induction b1 as [|b t IH]; intros b2 s H; [exact I|]. cbn [app batches_covered] in *.
  destruct H as [A B]. split; [exact A | eapply IH; exact B].
Qed.

Theorem seq_announced : forall p s tr s' tr',
  announced_ok [] tr = true -> OI s [] (owed tr) -> prog_ok s p ->
  fold_left trace_api p (s, tr) = (s', tr') -> announced_ok [] tr' = true.
Proof.
  induction p as [|a t IH]; intros s tr s' tr' Ha Hi Hp H; cbn [fold_left] in H.
  - inversion H; subst; exact Ha.
  - destruct Hp as [Hcov Hrest].
    destruct (trace_api (s, tr) a) as [s1 tr1] eqn:E.
    assert (Hs1 : s1 = fst (trace_api (s, []) a)).
    { pose proof (trace_api_state a s tr) as S. rewrite E in S. exact S. }
    rewrite <- Hs1 in Hrest.
    unfold trace_api in E. destruct (trace_batches (s, tr) (batches_of a)) as [s2 tr2] eqn:B.
    destruct (trace_batches_ext _ _ _ _ _ B) as [new [En Nn]].
    destruct (promises a) eqn:Pr; inversion E; subst s2 tr1; clear E.
    + destruct (promising_ends_with_compute a Pr) as [bs Eb]. rewrite Eb in B, Hcov.
      pose proof (quiescent_all_reported _ _ _ _ _ Hi (batches_covered_app _ _ _ Hcov) B) as Q.
      eapply IH; [| |exact Hrest|exact H].
      * rewrite announced_app. fold (owed tr2). rewrite Q. cbn [announced_ok]. rewrite andb_true_r.
        rewrite En, announced_app, Ha. cbn [andb]. apply announced_noTQ; exact Nn.
      * rewrite owed_app, Q. cbn [fold_left owed_step]. intros k [].
    + eapply IH; [| |exact Hrest|exact H].
      * rewrite En, announced_app, Ha. cbn [andb]. apply announced_noTQ; exact Nn.
      * eapply trace_batches_OI; eauto.
Qed.

(* known_C18 = [] gives the premises *)
Lemma unc_msg_false : forall b s u, snd (fold_left unc_msg b (s, u)) = false -> u = false /\ batch_covered s b.
Proof.
  induction b as [|m t IH]; intros s u H; cbn [fold_left] in H; [split; [exact H | exact I]|].
  destruct m as [o|]; cbn [unc_msg] in H.
  - destruct (exec_op o s) as [s1 ms] eqn:E. apply IH in H as [Hu Ht].
    apply orb_false_iff in Hu as [Hu Hn]. cbn [batch_covered msg_covered msg_state]. rewrite E. cbn [fst snd].
    split; [exact Hu|]. split; [|exact Ht]. destruct (uncovered s s1 ms); [reflexivity | discriminate].
  - apply IH in H as [Hu Ht]. split; [exact Hu | split; [exact I | exact Ht]].
Qed.
Lemma unc_batches_false : forall bs s u s' , fold_left unc_batch bs (s, u) = (s', false) ->
  u = false /\ batches_covered s bs /\ s' = fst (trace_batches (s, []) bs).
Proof.
  induction bs as [|b t IH]; intros s u s' H; cbn [fold_left] in H.
  - inversion H; subst. repeat split; reflexivity.
  - cbn [unc_batch] in H. apply IH in H as [Hu [Ht Hs]]. apply unc_msg_false in Hu as [Hu Hb].
    rewrite trace_batch_state in Ht. split; [exact Hu|]. split; [split; [exact Hb | exact Ht]|].
    rewrite Hs. unfold trace_batches. cbn [fold_left].
    destruct (trace_batch (s, []) b) as [s1 t1] eqn:E. cbn [fst].
    change (fold_left trace_batch t (s1, [])) with (trace_batches (s1, []) t).
    change (fold_left trace_batch t (s1, t1)) with (trace_batches (s1, t1) t).
    symmetry. apply trace_batches_state.
Qed.
Lemma api_classes_nil : forall p s cl, snd (fold_left api_classes p (s, cl)) = [] -> cl = [] /\ prog_ok s p.
Proof.
  induction p as [|a t IH]; intros s cl H; cbn [fold_left] in H; [split; [exact H | exact I]|].
  cbn [api_classes] in H. destruct (fold_left unc_batch (batches_of a) (s, false)) as [s1 unc] eqn:U.
  apply IH in H as [Hcl Ht]. apply app_eq_nil in Hcl as [Hcl Hu].
  destruct unc; [discriminate|]. apply unc_batches_false in U as [_ [Hcov Hs]].
  split; [exact Hcl|]. split; [exact Hcov|].
  - assert (E : fst (trace_api (s, []) a) = s1).
    { unfold trace_api. destruct (trace_batches (s, []) (batches_of a)) as [x y]. cbn [fst] in *. symmetry; exact Hs. }
    rewrite E. exact Ht.
Qed.
Lemma zdedup18_nil : forall l, zdedup18 l = [] -> l = [].
Proof.
  induction l as [|x t IH]; [reflexivity|]. cbn [zdedup18].
  destruct (existsb (Z.eqb x) t) eqn:E; [|discriminate]. intro H. apply IH in H. subst t. discriminate.
Qed.

Theorem seq_holds : forall t0 prog, known_C18 (CSeq t0 prog) = [] ->
  announced_ok [] (run_trace (CSeq t0 prog)) = true.
Proof.
  intros t0 prog H. unfold known_C18 in H. apply zdedup18_nil in H. apply api_classes_nil in H as [_ Hp].
  unfold run_trace, trace_prog.
  destruct (fold_left trace_api prog (init t0, [])) as [s' tr'] eqn:E. cbn [snd].
  eapply seq_announced; [| |exact Hp|exact E]; [reflexivity | intros k []].
Qed.

(* ------------------------------------------------------------------ encode / decode round trip *)
Lemma dec_keys_enc : forall ks rest, dec_keys (length ks) (flat_map enc_key ks ++ rest) = Some (ks, rest).
Proof.
  induction ks as [|k ks IH]; intro rest; [reflexivity|]. destruct k as [[r e] d].
  cbn [length flat_map enc_key app dec_keys]. rewrite <- ?app_assoc. cbn [app dec_keys]. rewrite IH.
  unfold zn. rewrite !N2Z.id. reflexivity.
Qed.
Lemma dec_trace_enc : forall tr fuel, (length tr <= fuel)%nat -> dec_trace fuel (enc_trace tr) = Some tr.
Proof.
  unfold enc_trace. induction tr as [|e t IH]; intros fuel Hf.
  - destruct fuel; reflexivity.
  - destruct fuel as [|f]; [cbn in Hf; lia|]. cbn [length] in Hf. assert (Hf' : (length t <= f)%nat) by lia.
    cbn [flat_map]. destruct e as [ks|ks|]; cbn [enc_tev app dec_trace].
    + rewrite Nat2Z.id, dec_keys_enc, (IH f Hf'). reflexivity.
    + rewrite Nat2Z.id, dec_keys_enc, (IH f Hf'). reflexivity.
    + rewrite (IH f Hf'). reflexivity.
Qed.
Lemma enc_trace_length : forall tr, (length tr <= length (enc_trace tr))%nat.
Proof.
  unfold enc_trace. induction tr as [|e t IH]; [cbn; lia|]. cbn [flat_map length]. rewrite app_length.
  assert (1 <= length (enc_tev e))%nat by (destruct e; cbn; lia). lia.
Qed.

Theorem seq_holds_spec : forall t0 prog, known_C18 (CSeq t0 prog) = [] ->
  spec_C18 (CSeq t0 prog) (run_C18 (CSeq t0 prog)) = true.
Proof.
  intros t0 prog H. unfold spec_C18, run_C18.
  rewrite dec_trace_enc; [apply seq_holds; exact H | apply enc_trace_length].
Qed.

(* concurrent callers: whatever batches the writer forms out of their writes and recompute
   requests, once a recompute has been processed after the last write nothing is owed *)
Theorem any_batching_quiescent : forall t0 bs s' tr',
  batches_covered (init t0) bs -> trace_batches (init t0, []) (bs ++ [[MCompute]]) = (s', tr') -> owed tr' = [].
Proof. intros t0 bs s' tr' Hc H. eapply quiescent_all_reported; [|exact Hc|exact H]. intros k []. Qed.

(* ------------------------------------------------------------------ the stream, repaired (a874354) *)
(* the former refutation witness: one streamed creation, then nothing else: announced *)
Definition w_stream : c18case :=
  CSeq 1000 [ATick 1010; AStream [LCreate 1 (Some 1%N) 1 1]].
Lemma stream_holds :
  spec_C18 w_stream (run_C18 w_stream) = true /\ known_C18 w_stream = [] /\
  run_trace w_stream = [TW []; TW [(1%N, 1%N, 0)]; TE [(1%N, 1%N, 0)]; TQ].
Proof. vm_compute. repeat split; reflexivity. Qed.
(* the former witness of an unmarked key (C09 class 6, repaired by 9b19d99): announced *)
Definition w_unmarked : c18case :=
  CSeq 1000 [ATick 1010; AIngest (SNodes 1 [sn 1 1 5000 1; sn 2 1 6000 2]); ACompute;
             AIngest (SNodes 1 [sn 1 2 (D + 7000) 3]); ACompute].
Lemma unmarked_holds : spec_C18 w_unmarked (run_C18 w_unmarked) = true /\ known_C18 w_unmarked = [].
Proof. vm_compute. split; reflexivity. Qed.
(* the former witness of C09 class 7 (an edge tombstone replaced under another source entity,
   repaired by de0967d): announced *)
Definition w_edge_tombstone18 : c18case :=
  CSeq 1000 [ATick 1010; AIngest (SDelEdges [etomb 1 1]); ACompute; AIngest (SDelEdges [etomb 2 2]); ACompute].
Lemma edge_tombstone_holds : spec_C18 w_edge_tombstone18 (run_C18 w_edge_tombstone18) = true /\ known_C18 w_edge_tombstone18 = [].
Proof. vm_compute. split; reflexivity. Qed.

(* a sequential mix over two days and two rooms: nothing known, every change announced *)
Definition w_seq : c18case :=
  CSeq 1000 [ATick 1010; ACall (LCreate 1 (Some 1%N) 1 1); AIngest (SNodes 2 [sn 2 2 5000 2; sn 3 1 6000 3]); ACompute;
             ATick (D + 5); ACall (LUpdate 1 1 (Some 2%N) 4); ACall (LDelNode 1 1 5);
             AStream [LCreate 4 (Some 1%N) 2 6; LCreate 5 (Some 2%N) 2 7]].
Lemma seq_nonvacuous :
  known_C18 w_seq = [] /\ spec_C18 w_seq (run_C18 w_seq) = true /\
  length (filter (fun e => match e with TE (_ :: _) => true | _ => false end) (run_trace w_seq)) = 5%nat.
Proof. vm_compute. repeat split; reflexivity. Qed.

(* the statement at full strength against the model; what is proved is seq_holds_env below: it holds
   for every program inside the envelope of C09P.all_writes_cover (no class hypothesis) *)
Definition C18_full : Prop := forall c, spec_C18 c (run_C18 c) = true.

(* ------------------------------------------------------------------ no class hypothesis left *)
Fixpoint batches_env (s : state) (bs : list (list msg)) : Prop :=
  match bs with [] => True | b :: t => batch_env s b /\ batches_env (fst (exec_batch (s, []) b)) t end.
Fixpoint prog_env (s : state) (p : list api) : Prop :=
  match p with [] => True | a :: t => batches_env s (batches_of a) /\ prog_env (fst (trace_api (s, []) a)) t end.

Lemma batches_env_covered : forall bs s, batches_env s bs -> batches_covered s bs.
Proof.
  induction bs as [|b t IH]; intros s H; [exact I|]. destruct H as [Hb Ht].
  split; [apply batch_env_covered; exact Hb | apply IH; exact Ht].
Qed.
Lemma prog_env_ok : forall p s, prog_env s p -> prog_ok s p.
Proof.
  induction p as [|a t IH]; intros s H; [exact I|]. destruct H as [Ha Ht].
  split; [apply batches_env_covered; exact Ha | apply IH; exact Ht].
Qed.
Theorem seq_holds_env : forall t0 prog, prog_env (init t0) prog ->
  spec_C18 (CSeq t0 prog) (run_C18 (CSeq t0 prog)) = true.
Proof.
  intros t0 prog H. unfold spec_C18, run_C18.
  rewrite dec_trace_enc; [|apply enc_trace_length].
  unfold run_trace, trace_prog.
  destruct (fold_left trace_api prog (init t0, [])) as [s' tr'] eqn:E. cbn [snd].
  eapply seq_announced; [| |apply prog_env_ok; exact H|exact E]; [reflexivity | intros k []].
Qed.

(* ------------------------------------------------------------------ room-modified events under concurrency *)
From Coq Require Import Permutation.
Lemma isort_In : forall l x, In x (isort l) <-> In x l.
Proof. intros l x; split; intro H; [eapply Permutation_in; [apply isort_perm|exact H] | eapply Permutation_in; [apply Permutation_sym, isort_perm|exact H]]. Qed.
Lemma nsubset_In : forall a b, nsubset a b = true <-> forall x, In x a -> In x b.
Proof.
  intros a b. unfold nsubset. rewrite forallb_forall. split; intros H x Hx.
  - apply H in Hx. apply existsb_exists in Hx as [y [Hy E]]. apply N.eqb_eq in E. subst; exact Hy.
  - apply existsb_exists. exists x. split; [apply H; exact Hx | apply N.eqb_refl].
Qed.
Lemma room_events_length : forall order h, length (room_events_from h order) = length order.
Proof. induction order as [|e t IH]; intro h; cbn [room_events_from length]; [reflexivity | rewrite IH; reflexivity]. Qed.
Lemma room_events_grow : forall order h prev, (forall x, In x prev -> In x h) -> grows prev (room_events_from h order) = true.
Proof.
  induction order as [|e t IH]; intros h prev Hp; cbn [room_events_from grows]; [reflexivity|].
  apply andb_true_iff; split.
  - apply nsubset_In. intros x Hx. apply isort_In. right. apply Hp; exact Hx.
  - apply IH. intros x Hx; exact Hx.
Qed.
Lemma room_events_last : forall order h x, order <> [] -> In x h \/ In x order -> In x (last (room_events_from h order) []).
Proof.
  induction order as [|e t IH]; intros h x Hne Hx; [contradiction|]. cbn [room_events_from].
  destruct t as [|e2 t2].
  - cbn [room_events_from last]. apply isort_In. destruct Hx as [Hx|[Hx|[]]]; [right; exact Hx | left; exact Hx].
  - change (last (isort (e :: h) :: room_events_from (isort (e :: h)) (e2 :: t2)) [])
      with (last (room_events_from (isort (e :: h)) (e2 :: t2)) []).
    apply IH; [discriminate|]. destruct Hx as [Hx|[Hx|Hx]].
    + left. apply isort_In. right; exact Hx.
    + left. apply isort_In. left; exact Hx.
    + right; exact Hx.
Qed.
(* whatever the commit order of concurrent mutations of one room, the events of the model — the fold
   of the accepted mutations in commit order — are one per accepted mutation, only grow, and the last
   carries every accepted entry *)
Theorem room_events_hold : forall base accepted order, Permutation order accepted ->
  room_events_ok base accepted (room_events base order) = true.
Proof.
  intros base accepted order P. unfold room_events_ok, room_events.
  rewrite room_events_length, (Permutation_length P), Nat.eqb_refl. cbn [andb].
  rewrite (room_events_grow order (isort base) base); [|intros x Hx; apply isort_In; exact Hx]. cbn [andb].
  destruct accepted as [|a acc]; [reflexivity|].
  apply nsubset_In. intros x Hx. apply room_events_last.
  - intro E. subst order. apply Permutation_nil in P. discriminate.
  - apply in_app_or in Hx as [Hx|Hx]; [left; apply isort_In; exact Hx | right; eapply Permutation_in; [apply Permutation_sym; exact P | exact Hx]].
Qed.
