(* C18P.v — proofs about the event side of the daily log (model/Events.v, run/Run_C18.v). *)
From DV Require Import Run_C09 C09P Run_C18.
Open Scope Z_scope.

(* ------------------------------------------------------------------ a recomputation reports every dirty row *)
Lemma cloop_reports : forall s todo pre c rep lg' rep',
  cloop s pre todo c rep = (lg', rep') ->
  (forall k, In k rep -> In k rep') /\ (forall l, In l todo -> l_dirty l = true -> In (lrow_key l) rep').
Proof.
  intros s todo; induction todo as [|l t IH]; intros pre c rep lg' rep' H; cbn [cloop] in H.
  - inversion H; subst. split; [auto | intros l []].
  - destruct (selected (pre ++ l :: t) l) eqn:Hsel.
    + destruct (l_dirty l) eqn:Hd.
      * destruct (process_dirty s c l) as [l1 c1].
        assert (G : exists pre2 c2, cloop s pre2 t c2 (rep ++ [lrow_key l]) = (lg', rep')).
        { destruct (N.ltb (l_n l) (l_n l1) && selected (pre ++ l1 :: t) l1).
          - destruct (process_clean c1 l1) as [l2 c2]. eauto.
          - eauto. }
        destruct G as [pre2 [c2 G]]. apply IH in G as [A B]. split.
        -- intros k Hk. apply A. apply in_or_app; left; exact Hk.
        -- intros x [Hx|Hx] Hdx; [subst x; apply A; apply in_or_app; right; left; reflexivity | apply B; assumption].
      * destruct (process_clean c l) as [l1 c1]. apply IH in H as [A B]. split; [exact A|].
        intros x [Hx|Hx] Hdx; [subst x; congruence | apply B; assumption].
    + apply IH in H as [A B]. split; [exact A|].
      intros x [Hx|Hx] Hdx; [|apply B; assumption]. subst x.
      rewrite (dirty_selected (pre ++ l :: t) l) in Hsel; [discriminate | apply in_or_app; right; left; reflexivity | exact Hdx].
Qed.
Lemma compute_reports_all_dirty : forall s s' rep, compute s = (s', rep) ->
  forall l, In l (log s) -> l_dirty l = true -> In (lrow_key l) rep.
Proof.
  intros s s' rep H l Hin Hd. unfold compute in H.
  destruct (cloop s [] (log s) cinit []) as [lg rp] eqn:E. inversion H; subst.
  apply cloop_reports in E as [_ B]. apply B; assumption.
Qed.

(* ------------------------------------------------------------------ the end of a batch makes every mark a dirty row *)
Definition dirty_key (lg : list lrow) (k : lkey) : Prop := exists l, In l lg /\ lrow_key l = k /\ l_dirty l = true.

Lemma upsert_has : forall k lg, dirty_key (upsert k lg) k.
Proof.
  intros k lg. unfold upsert. destruct (has_key k lg) eqn:Hk.
  - unfold has_key in Hk. apply existsb_exists in Hk as [l [Hin He]].
    exists (mark_row l). split; [|split; [rewrite mark_row_key; apply key_eqb_eq; exact He | reflexivity]].
    apply in_map_iff. exists l. rewrite He. split; [reflexivity | exact Hin].
  - exists (new_row k). split; [apply insert_sorted_In; left; reflexivity | split; [apply new_row_key | apply new_row_dirty]].
Qed.
Lemma upsert_keeps : forall k lg k', dirty_key lg k' -> dirty_key (upsert k lg) k'.
Proof.
  intros k lg k' [l [Hin [Hk Hd]]]. unfold upsert. destruct (has_key k lg).
  - exists (if key_eqb (lrow_key l) k then mark_row l else l). split.
    + apply in_map_iff. exists l. split; [reflexivity | exact Hin].
    + destruct (key_eqb (lrow_key l) k); [split; [rewrite mark_row_key; exact Hk | reflexivity] | split; assumption].
  - exists l. split; [apply insert_sorted_In; right; exact Hin | split; assumption].
Qed.
Lemma write_marks_keeps : forall ks lg k, dirty_key lg k -> dirty_key (write_marks ks lg) k.
Proof.
  unfold write_marks. induction ks as [|k0 ks IH]; intros lg k H; cbn [fold_left]; [exact H|].
  apply IH. apply upsert_keeps. exact H.
Qed.
Lemma write_marks_dirty : forall ks lg k, key_mem k ks = true -> dirty_key (write_marks ks lg) k.
Proof.
  unfold write_marks. induction ks as [|k0 ks IH]; intros lg k H; cbn [fold_left]; [discriminate|].
  unfold key_mem in H; cbn [existsb] in H. apply orb_true_iff in H as [H|H].
  - apply key_eqb_eq in H. subst k0. apply (write_marks_keeps ks). apply upsert_has.
  - apply IH. exact H.
Qed.

(* ------------------------------------------------------------------ dirty or reported *)
(* every key changed by a committed write and not announced since is marked: pending in the
   current batch or a dirty row of the log *)
Definition OI (s : state) (pend ow : list lkey) : Prop :=
  forall k, In k ow -> key_mem k pend = true \/ dirty_key (log s) k.

Lemma kinsert_u_In : forall k l x, In x (kinsert_u k l) -> x = k \/ In x l.
Proof.
  intros k l x; induction l as [|h t IH]; cbn [kinsert_u]; intro H.
  - destruct H as [H|[]]; left; auto.
  - destruct (key_eqb h k); [right; exact H|]. destruct (key_ltb k h).
    + destruct H as [H|H]; [left; auto | right; exact H].
    + destruct H as [H|H]; [right; left; exact H|]. apply IH in H as [H|H]; [left; exact H | right; right; exact H].
Qed.
Lemma ksort_u_In : forall l x, In x (ksort_u l) -> In x l.
Proof.
  unfold ksort_u. intros l x.
  assert (G : forall l acc, In x (fold_left (fun a k => kinsert_u k a) l acc) -> In x acc \/ In x l).
  { induction l0 as [|k t IH]; intros acc H; cbn [fold_left] in H; [left; exact H|].
    apply IH in H as [H|H]; [|right; right; exact H].
    apply kinsert_u_In in H as [H|H]; [right; left; auto | left; exact H]. }
  intro H. apply G in H as [[]|H]. exact H.
Qed.
Lemma changed_in_marks : forall s s' ms, uncovered s s' ms = [] ->
  forall k, In k (changed_keys s s') -> key_mem k ms = true.
Proof.
  intros s s' ms Hu k Hk. unfold changed_keys in Hk. apply ksort_u_In in Hk. apply filter_In in Hk as [_ Hc].
  destruct (key_mem k ms) eqn:M; [reflexivity|].
  rewrite (uncovered_nil _ _ _ Hu k M) in Hc.
  assert (E : nlist_eqb (content s k) (content s k) = true) by (apply nlist_eqb_eq; reflexivity).
  rewrite E in Hc. discriminate.
Qed.

Lemma owed_app : forall t1 t2, owed (t1 ++ t2) = fold_left owed_step t2 (owed t1).
Proof. intros; unfold owed; apply fold_left_app. Qed.

Lemma trace_msgs_OI : forall b s pend tr s' pend' tr',
  OI s pend (owed tr) -> batch_covered s b ->
  fold_left trace_msg b (s, pend, tr) = (s', pend', tr') -> OI s' pend' (owed tr').
Proof.
  induction b as [|m t IH]; intros s pend tr s' pend' tr' Hi Hc H; cbn [fold_left] in H.
  - inversion H; subst; exact Hi.
  - destruct Hc as [Hm Ht]. destruct m as [o|]; cbn [trace_msg] in H.
    + destruct (exec_op o s) as [s1 ms] eqn:E. cbn [msg_state msg_covered] in *. rewrite E in *. cbn [fst snd] in *.
      eapply IH; [|exact Ht|exact H]. rewrite owed_app. cbn [fold_left owed_step].
      assert (Hl : log s1 = log s) by (pose proof (exec_op_log o s) as L; rewrite E in L; exact L).
      intros k Hk. apply in_app_or in Hk as [Hk|Hk].
      * destruct (Hi k Hk) as [A|A]; [left; rewrite key_mem_app, A; reflexivity | right; rewrite Hl; exact A].
      * left. rewrite key_mem_app, (changed_in_marks _ _ _ Hm k Hk). apply orb_true_r.
    + destruct (compute s) as [s1 rep] eqn:E. cbn [msg_state] in *. rewrite E in *. cbn [fst] in *.
      eapply IH; [|exact Ht|exact H]. rewrite owed_app. cbn [fold_left owed_step].
      intros k Hk. apply filter_In in Hk as [Hk Hn].
      destruct (Hi k Hk) as [A|[l [Hin [Hkl Hd]]]]; [left; exact A|].
      exfalso. pose proof (compute_reports_all_dirty _ _ _ E l Hin Hd) as R. rewrite Hkl in R.
      apply key_mem_In in R. rewrite R in Hn. discriminate.
Qed.

Lemma trace_batch_OI : forall s tr b s' tr',
  OI s [] (owed tr) -> batch_covered s b -> trace_batch (s, tr) b = (s', tr') -> OI s' [] (owed tr').
Proof.
  intros s tr b s' tr' Hi Hc H. unfold trace_batch in H.
  destruct (fold_left trace_msg b (s, [], tr)) as [[s1 pend] tr1] eqn:E. inversion H; subst; clear H.
  pose proof (trace_msgs_OI _ _ _ _ _ _ _ Hi Hc E) as P.
  intros k Hk. right. cbn [log set_log]. destruct (P k Hk) as [A|A];
    [apply write_marks_dirty; exact A | apply write_marks_keeps; exact A].
Qed.

(* the state part of the trace functions is the writer's (exec_batch) *)
Lemma trace_msgs_state : forall b s pend tr evs,
  fst (fst (fold_left trace_msg b (s, pend, tr))) = fst (fst (fold_left exec_msg b (s, pend, evs))) /\
  snd (fst (fold_left trace_msg b (s, pend, tr))) = snd (fst (fold_left exec_msg b (s, pend, evs))).
Proof.
  induction b as [|m t IH]; intros s pend tr evs; cbn [fold_left]; [split; reflexivity|].
  destruct m as [o|]; cbn [trace_msg exec_msg].
  - destruct (exec_op o s) as [s1 ms]. apply IH.
  - destruct (compute s) as [s1 rep]. apply IH.
Qed.
Lemma trace_batch_state : forall s tr b, fst (trace_batch (s, tr) b) = fst (exec_batch (s, []) b).
Proof.
  intros s tr b. unfold trace_batch, exec_batch.
  pose proof (trace_msgs_state b s [] tr []) as [A B].
  destruct (fold_left trace_msg b (s, [], tr)) as [[s1 p1] t1].
  destruct (fold_left exec_msg b (s, [], [])) as [[s2 p2] e2]. cbn [fst snd] in *. subst. reflexivity.
Qed.

Fixpoint batches_covered (s : state) (bs : list (list msg)) : Prop :=
  match bs with
  | [] => True
  | b :: t => batch_covered s b /\ batches_covered (fst (exec_batch (s, []) b)) t
  end.

Lemma trace_batches_OI : forall bs s tr s' tr',
  OI s [] (owed tr) -> batches_covered s bs -> trace_batches (s, tr) bs = (s', tr') -> OI s' [] (owed tr').
Proof.
  unfold trace_batches. induction bs as [|b t IH]; intros s tr s' tr' Hi Hc H; cbn [fold_left] in H.
  - inversion H; subst; exact Hi.
  - destruct Hc as [Hb Ht]. destruct (trace_batch (s, tr) b) as [s1 tr1] eqn:E.
    assert (Ht' : batches_covered s1 t).
    { pose proof (trace_batch_state s tr b) as S. rewrite E in S. cbn [fst] in S. rewrite S. exact Ht. }
    eapply IH; [|exact Ht'|exact H].
    eapply trace_batch_OI; eauto.
Qed.

(* quiescence: once a recompute request has been processed in a batch after the last write, every
   changed key has been announced — whatever the batching before *)
Theorem quiescent_all_reported : forall bs s tr s' tr',
  OI s [] (owed tr) -> batches_covered s bs ->
  trace_batches (s, tr) (bs ++ [[MCompute]]) = (s', tr') -> owed tr' = [].
Proof.
  intros bs s tr s' tr' Hi Hc H. unfold trace_batches in H. rewrite fold_left_app in H. cbn [fold_left] in H.
  destruct (fold_left trace_batch bs (s, tr)) as [s1 tr1] eqn:E.
  pose proof (trace_batches_OI _ _ _ _ _ Hi Hc E) as P.
  unfold trace_batch in H. cbn [fold_left trace_msg] in H.
  destruct (compute s1) as [s2 rep] eqn:C. inversion H; subst; clear H.
  rewrite owed_app. cbn [fold_left owed_step].
  destruct (filter (fun k => negb (key_mem k rep)) (owed tr1)) as [|k l] eqn:F; [reflexivity|].
  exfalso. assert (Hk : In k (filter (fun k => negb (key_mem k rep)) (owed tr1))) by (rewrite F; left; reflexivity).
  apply filter_In in Hk as [Hk Hn]. destruct (P k Hk) as [A|[l0 [Hin [Hkl Hd]]]]; [discriminate|].
  pose proof (compute_reports_all_dirty _ _ _ C l0 Hin Hd) as R. rewrite Hkl in R.
  apply key_mem_In in R. rewrite R in Hn. discriminate.
Qed.
