(* C10P.v — proofs for C10 (state of /repo after 83dc3ea, a68fe8d, 85b1827): replaying an entry list
   oldest-first (stable sort by date) into the append-only histories of room.rs never fails, so the
   data an instance wrote can always be reloaded; the reloaded room decides exactly as the live room,
   for every history (same-date entries included). *)
From Coq Require Import Permutation.
From DV Require Import RightsP RoomNodeP Run_C10.

(* ------------------------------------------------------------------ generic replay *)
Section Replay.
  Variable A : Type.
  Variable kf : A -> N.
  Variable df : A -> Z.

  Fixpoint greplay (l : list A) (xs : list A) : option (list A) :=
    match xs with
    | [] => Some l
    | x :: tl => match gadd A kf df l x with Some l' => greplay l' tl | None => None end
    end.

  Lemma gadd_cons l x l' : gadd A kf df l x = Some l' -> l' = x :: l.
  Proof.
    unfold gadd. destruct (glast A kf l (kf x)) as [v|]; [destruct (Z.ltb (df x) (df v)); [discriminate|]|];
      intros H; inversion H; reflexivity.
  Qed.

  Lemma greplay_ok xs : forall l l',
    ksorted A kf df l -> greplay l xs = Some l' -> l' = rev xs ++ l /\ ksorted A kf df l'.
  Proof.
    induction xs as [|x tl IH]; simpl; intros l l' Hs H.
    - inversion H; subst. auto.
    - destruct (gadd A kf df l x) as [l1|] eqn:Hg; [|discriminate].
      pose proof (gadd_sorted A kf df l x l1 Hs Hg) as Hs1.
      apply gadd_cons in Hg. subst l1.
      destruct (IH _ _ Hs1 H) as [-> Hs']. split; [|exact Hs'].
      rewrite <- app_assoc. reflexivity.
  Qed.

  Lemma desc_app_inv l1 y l2 : desc (l1 ++ y :: l2) -> Forall (fun z => z <= y) l2.
  Proof.
    induction l1 as [|a l1 IH]; simpl; intros H.
    - destruct H as [H _]. exact H.
    - destruct H as [_ H]. auto.
  Qed.

  (* a successful replay saw the entries of every key in ascending date order *)
  Lemma greplay_ascending xs l' a x b y c :
    greplay [] xs = Some l' -> xs = a ++ x :: b ++ y :: c -> kf x = kf y -> df x <= df y.
  Proof.
    intros H Hx Hk.
    destruct (greplay_ok xs [] l' (ksorted_nil kf df) H) as [-> Hs].
    specialize (Hs (kf y)). rewrite app_nil_r in Hs. subst xs.
    rewrite rev_app_distr in Hs. simpl in Hs. rewrite rev_app_distr in Hs. simpl in Hs.
    rewrite <- !app_assoc in Hs. simpl in Hs.
    rewrite filter_app in Hs. simpl in Hs. rewrite N.eqb_refl in Hs.
    rewrite filter_app in Hs. simpl in Hs. rewrite Hk, N.eqb_refl in Hs.
    rewrite map_app in Hs. simpl in Hs. rewrite map_app in Hs. simpl in Hs.
    apply desc_app_inv in Hs. rewrite Forall_app in Hs. destruct Hs as [_ Hs].
    inversion Hs; subst. assumption.
  Qed.

  Lemma in_mid (a x : A) tl l : In a (tl ++ x :: l) -> In a ((x :: tl) ++ l).
  Proof.
    intros H. apply in_app_or in H. simpl. destruct H as [H|H]; [right; apply in_or_app; left; exact H|].
    simpl in H. destruct H as [H|H]; [left; exact H|right; apply in_or_app; right; exact H].
  Qed.

  (* when the entries of every key carry one date, nothing is ever refused *)
  Lemma greplay_same_dates xs : forall l,
    (forall x y, In x (xs ++ l) -> In y (xs ++ l) -> kf x = kf y -> df x = df y) ->
    greplay l xs = Some (rev xs ++ l).
  Proof.
    induction xs as [|x tl IH]; simpl; intros l Hsame; [reflexivity|].
    assert (Hnext : forall a b, In a (tl ++ x :: l) -> In b (tl ++ x :: l) -> kf a = kf b -> df a = df b).
    { intros a b Ha Hb. apply Hsame; apply in_mid; assumption. }
    unfold gadd. destruct (glast A kf l (kf x)) as [v|] eqn:Hl.
    - unfold glast in Hl. apply find_some in Hl. destruct Hl as [Hin Hk]. apply N.eqb_eq in Hk.
      assert (df v = df x) as ->.
      { apply Hsame; [right; apply in_or_app; right; exact Hin|left; reflexivity|exact Hk]. }
      rewrite Z.ltb_irrefl. rewrite (IH _ Hnext). rewrite <- app_assoc. reflexivity.
    - rewrite (IH _ Hnext). rewrite <- app_assoc. reflexivity.
  Qed.
End Replay.

(* ------------------------------------------------------------------ the two instances *)
Lemma replay_users_greplay us : forall l, replay_users l us = greplay user u_key u_date l us.
Proof. induction us as [|u tl IH]; simpl; intros l; [reflexivity|]. rewrite add_user_gadd. destruct (gadd _ _ _ _ _); auto. Qed.
Lemma replay_rights_greplay rs : forall l, replay_rights l rs = greplay eright r_ent r_from l rs.
Proof. induction rs as [|u tl IH]; simpl; intros l; [reflexivity|]. rewrite add_right_gadd. destruct (gadd _ _ _ _ _); auto. Qed.


(* ------------------------------------------------------------------ oldest-first replay never fails *)
Lemma greplay_asc {A} (kf : A -> N) (df : A -> Z) xs : forall l,
  asc A df xs -> (forall v x, In v l -> In x xs -> df v <= df x) ->
  greplay A kf df l xs = Some (rev xs ++ l).
Proof.
  induction xs as [|x tl IH]; simpl; intros l Hs Hl; [reflexivity|].
  destruct Hs as [Hx Hs]. rewrite Forall_forall in Hx.
  assert (Hg : gadd A kf df l x = Some (x :: l)).
  { unfold gadd. destruct (glast A kf l (kf x)) as [v|] eqn:Hv; [|reflexivity].
    unfold glast in Hv. apply find_some in Hv. destruct Hv as [Hin _].
    assert (df v <= df x) by (apply Hl; [exact Hin|left; reflexivity]).
    destruct (Z.ltb (df x) (df v)) eqn:Hlt; [apply Z.ltb_lt in Hlt; lia|reflexivity]. }
  rewrite Hg, IH; [rewrite <- app_assoc; reflexivity|exact Hs|].
  intros v y [<-|Hv] Hy; [apply Hx; exact Hy|apply Hl; [exact Hv|right; exact Hy]].
Qed.
(* THE repaired replay: whatever the entries, sorted oldest first they are all accepted *)
Lemma greplay_sorted {A} (kf : A -> N) (df : A -> Z) (l : list A) :
  greplay A kf df [] (sort_by df l) = Some (rev (sort_by df l)).
Proof. rewrite (greplay_asc kf df); [rewrite app_nil_r; reflexivity|apply sort_by_asc|intros v x []]. Qed.

Lemma replay_users_sorted L : replay_users [] (sort_by u_date L) = Some (rev (sort_by u_date L)).
Proof. rewrite replay_users_greplay. apply greplay_sorted. Qed.
Lemma replay_rights_sorted L : replay_rights [] (sort_by r_from L) = Some (rev (sort_by r_from L)).
Proof. rewrite replay_rights_greplay. apply greplay_sorted. Qed.

Lemma reload_auth_total evs g :
  reload_auth evs g = Some {| a_id := g;
                              a_users := rev (sort_by u_date (hist_users evs g));
                              a_rights := rev (sort_by r_from (hist_rights_raw evs g));
                              a_uadmins := rev (sort_by u_date (hist_uadmins evs g)) |}.
Proof. unfold reload_auth. rewrite !replay_users_sorted, replay_rights_sorted. reflexivity. Qed.

(* an instance can always be restarted on data it wrote itself: the reload never fails *)
Theorem reload_total evs : exists r, reload evs = Some r.
Proof.
  unfold reload.
  assert (Ha : forall gs, exists aus, reload_auths evs gs = Some aus).
  { induction gs as [|g tl [aus IH]]; simpl; [eauto|]. rewrite reload_auth_total, IH. eauto. }
  destruct (Ha (groups (map snd evs))) as [aus ->]. rewrite replay_users_sorted. eauto.
Qed.

(* ------------------------------------------------------------------ the histories, seen from RightsP *)
Lemma pk_order_flat_map {B C} (F : B -> list (N * C)) (l : list B) :
  pk_order (flat_map F l) = flat_map (fun x => map snd (F x)) l.
Proof. unfold pk_order. induction l as [|x tl IH]; simpl; [reflexivity|]. rewrite map_app, IH. reflexivity. Qed.

Lemma hist_admins_eq evs : hist_admins evs = admin_users (map snd evs).
Proof.
  unfold hist_admins, admin_users. rewrite pk_order_flat_map.
  induction evs as [|[i ev] tl IH]; simpl; [reflexivity|]. rewrite IH. destruct ev; reflexivity.
Qed.
Lemma hist_users_eq evs g : hist_users evs g = group_users (map snd evs) g.
Proof.
  unfold hist_users, group_users. rewrite pk_order_flat_map.
  induction evs as [|[i ev] tl IH]; simpl; [reflexivity|]. rewrite IH. destruct ev; try reflexivity.
  simpl. destruct (N.eqb g0 g); reflexivity.
Qed.
Lemma hist_uadmins_eq evs g : hist_uadmins evs g = group_uadmins (map snd evs) g.
Proof.
  unfold hist_uadmins, group_uadmins. rewrite pk_order_flat_map.
  induction evs as [|[i ev] tl IH]; simpl; [reflexivity|]. rewrite IH. destruct ev; try reflexivity.
  simpl. destruct (N.eqb g0 g); reflexivity.
Qed.
Lemma hist_rights_eq evs g : hist_rights_raw evs g = group_rights (map snd evs) g.
Proof.
  unfold hist_rights_raw, group_rights. rewrite pk_order_flat_map.
  induction evs as [|[i ev] tl IH]; simpl; [reflexivity|]. rewrite IH. destruct ev; try reflexivity.
  simpl. destruct (N.eqb g0 g); reflexivity.
Qed.

(* ------------------------------------------------------------------ reload = live *)
Definition leq (l l' : list user) : Prop := forall k d, lookup_user l k d = lookup_user l' k d.
Definition req (l l' : list eright) : Prop := forall e d, lookup_right l e d = lookup_right l' e d.
Definition aequiv (a a' : auth) : Prop :=
  a_id a = a_id a' /\ leq (a_users a) (a_users a') /\ leq (a_uadmins a) (a_uadmins a') /\ req (a_rights a) (a_rights a').

Lemma existsb_Forall2 {B C} (f : B -> bool) (g : C -> bool) l l' :
  Forall2 (fun a a' => f a = g a') l l' -> existsb f l = existsb g l'.
Proof. induction 1 as [|a a' l l' H _ IH]; simpl; [reflexivity|]. rewrite H, IH. reflexivity. Qed.

Lemma Forall2_imp {B C} (P Q : B -> C -> Prop) l l' :
  (forall a b, P a b -> Q a b) -> Forall2 P l l' -> Forall2 Q l l'.
Proof. intros H. induction 1; constructor; auto. Qed.

Lemma enabled_at_leq l l' k d : leq l l' -> enabled_at l k d = enabled_at l' k d.
Proof. intros H. unfold enabled_at. rewrite H. reflexivity. Qed.
Lemma auth_can_req a a' e d t : req (a_rights a) (a_rights a') -> auth_can a e d t = auth_can a' e d t.
Proof. intros H. unfold auth_can. rewrite !H. reflexivity. Qed.

Lemma decide_equiv r r' p :
  leq (rm_admins r) (rm_admins r') -> Forall2 aequiv (rm_auths r) (rm_auths r') -> decide r p = decide r' p.
Proof.
  intros Ha Hf. destruct p as [[k e] d]. unfold decide.
  assert (Hadm : is_admin r k d = is_admin r' k d) by (apply enabled_at_leq; exact Ha).
  assert (Hcan : forall t, can r k e d t = can r' k e d t).
  { intros t. unfold can. apply existsb_Forall2. eapply Forall2_imp; [|exact Hf].
    intros a a' (_ & Hu & Hua & Hr). cbv beta. rewrite Hadm. unfold auth_user_valid.
    rewrite (enabled_at_leq _ _ k d Hu), (enabled_at_leq _ _ k d Hua), (auth_can_req a a' e d t Hr). reflexivity. }
  rewrite !Hcan, Hadm. f_equal. f_equal. f_equal. f_equal; [|f_equal].
  - unfold is_user_valid_at. rewrite Hadm. f_equal. f_equal. apply existsb_Forall2. eapply Forall2_imp; [|exact Hf].
    intros a a' (_ & Hu & Hua & _). cbv beta. unfold auth_user_valid.
    rewrite (enabled_at_leq _ _ k d Hu), (enabled_at_leq _ _ k d Hua). reflexivity.
  - f_equal. apply existsb_Forall2. eapply Forall2_imp; [|exact Hf].
    intros a a' (_ & _ & Hua & _). cbv beta. unfold can_admin_users. apply enabled_at_leq. exact Hua.
Qed.

Lemma lookup_user_filter l k d :
  lookup_user l k d = find (fun u => Z.leb (u_date u) d) (filter (fun u => N.eqb (u_key u) k) l).
Proof. unfold lookup_user. apply find_and_filter. Qed.
Lemma lookup_right_filter l e d :
  lookup_right l e d = find (fun r => Z.leb (r_from r) d) (filter (fun r => N.eqb (r_ent r) e) l).
Proof. unfold lookup_right. apply find_and_filter. Qed.


(* the stable sort commutes with taking the entries of one key ... *)
Lemma filter_insert_sorted {A} (f : A -> Z) (p : A -> bool) x s :
  asc A f s -> filter p (insert_by f x s) = if p x then insert_by f x (filter p s) else filter p s.
Proof.
  induction s as [|y tl IH]; simpl; intros Hs; [destruct (p x); reflexivity|].
  destruct Hs as [Hy Hs]. destruct (Z.leb (f x) (f y)) eqn:Hle.
  - simpl. destruct (p x) eqn:Hpx; [|reflexivity].
    destruct (p y) eqn:Hpy; simpl; [rewrite Hle; reflexivity|].
    (* the first kept element of tl is not below y, hence not below x *)
    apply Z.leb_le in Hle. clear IH Hs. induction tl as [|z t IHt]; simpl; [reflexivity|].
    inversion Hy as [|? ? Hz Ht]; subst. destruct (p z); simpl.
    + assert (Z.leb (f x) (f z) = true) as -> by (apply Z.leb_le; lia). reflexivity.
    + apply IHt. exact Ht.
  - simpl. rewrite (IH Hs). destruct (p y) eqn:Hpy; simpl.
    + destruct (p x); [rewrite Hle|]; reflexivity.
    + reflexivity.
Qed.
Lemma filter_sort_comm {A} (f : A -> Z) (p : A -> bool) l :
  filter p (sort_by f l) = sort_by f (filter p l).
Proof.
  induction l as [|x tl IH]; simpl; [reflexivity|].
  rewrite filter_insert_sorted by apply sort_by_asc. rewrite IH. destruct (p x); reflexivity.
Qed.
(* ... and leaves an ascending list as it is *)
Lemma sort_by_asc_id {A} (f : A -> Z) l : asc A f l -> sort_by f l = l.
Proof.
  induction l as [|x tl IH]; simpl; intros Hs; [reflexivity|]. destruct Hs as [Hx Hs]. rewrite (IH Hs).
  destruct tl as [|y t]; [reflexivity|]. simpl. inversion Hx; subst.
  assert (Z.leb (f x) (f y) = true) as -> by (apply Z.leb_le; assumption). reflexivity.
Qed.

(* the append-only history of a key (newest first, dates descending) read oldest first is ascending *)
Lemma desc_snoc l y : desc (l ++ [y]) -> desc l /\ Forall (fun z => y <= z) l.
Proof.
  induction l as [|a tl IH]; simpl; intros H; [split; [exact I|constructor]|].
  destruct H as [Ha Ht]. destruct (IH Ht) as [Hd Hf]. rewrite Forall_app in Ha. destruct Ha as [Ha1 Ha2].
  split; [split; assumption|]. constructor; [inversion Ha2; assumption|exact Hf].
Qed.
Lemma desc_rev_asc {A} (df : A -> Z) l : desc (map df (rev l)) -> asc A df l.
Proof.
  induction l as [|x tl IH]; simpl; intros H; [exact I|].
  rewrite map_app in H. simpl in H. apply desc_snoc in H. destruct H as [Hd Hf].
  split; [|apply IH; exact Hd].
  rewrite Forall_map in Hf. apply Forall_rev in Hf. rewrite rev_involutive in Hf. exact Hf.
Qed.

Lemma leq_sorted L : ksorted user u_key u_date (rev L) -> leq (rev (sort_by u_date L)) (rev L).
Proof.
  intros Hs k d. rewrite !lookup_user_filter, !filter_rev, filter_sort_comm.
  rewrite sort_by_asc_id; [reflexivity|]. apply desc_rev_asc. specialize (Hs k). rewrite filter_rev in Hs. exact Hs.
Qed.
Lemma req_sorted L : ksorted eright r_ent r_from (rev L) -> req (rev (sort_by r_from L)) (rev L).
Proof.
  intros Hs k d. rewrite !lookup_right_filter, !filter_rev, filter_sort_comm.
  rewrite sort_by_asc_id; [reflexivity|]. apply desc_rev_asc. specialize (Hs k). rewrite filter_rev in Hs. exact Hs.
Qed.

Lemma reload_auths_equiv evs (auths : list auth) :
  Forall (auth_rep (map snd evs)) auths -> Forall auth_sorted auths ->
  exists aus, reload_auths evs (map a_id auths) = Some aus /\ Forall2 aequiv aus auths.
Proof.
  intros Hrep. induction Hrep as [|a tl Ha _ IH]; simpl; intros Hss; [exists []; split; [reflexivity|constructor]|].
  inversion Hss as [|? ? Hsa Hst]; subst. destruct (IH Hst) as (aus & Hr & Hf).
  rewrite (reload_auth_total evs (a_id a)), Hr.
  eexists; split; [reflexivity|]. constructor; [|exact Hf].
  destruct Ha as (R1 & R2 & R3). destruct Hsa as (S1 & S2 & S3). unfold aequiv. simpl.
  split; [reflexivity|]. split; [|split].
  - rewrite R1 in *. rewrite hist_users_eq. apply leq_sorted. exact S1.
  - rewrite R2 in *. rewrite hist_uadmins_eq. apply leq_sorted. exact S2.
  - rewrite R3 in *. rewrite hist_rights_eq. apply req_sorted. exact S3.
Qed.

(* every step accepted live = the strict replay succeeds *)
Lemma build_from_all_ok evs : forall r,
  forallb (fun b => b) (snd (build_from r evs)) = true -> build_strict r evs = Some (fst (build_from r evs)).
Proof.
  induction evs as [|ev tl IH]; simpl; intros r H; [reflexivity|].
  destruct (apply_event r ev) as [r'|] eqn:Ha.
  - specialize (IH r'). destruct (build_from r' tl) as [rf oks]. simpl in *. apply IH. exact H.
  - destruct (build_from r tl) as [rf oks]. simpl in H. discriminate.
Qed.

(* for EVERY history the live path accepted: the reloaded room exists and decides as the live room *)
Theorem reload_is_live evs rl :
  build_strict (empty_room 1%N) (map snd evs) = Some rl ->
  exists r, reload evs = Some r /\ forall probes, decisions r probes = decisions rl probes.
Proof.
  intros Hb.
  pose proof (build_strict_Rep (map snd evs) [] (empty_room 1%N) rl (Rep_empty 1%N) Hb) as HR. simpl in HR.
  destruct HR as (Had & Hids & Hrep & Hsa & Hss & _).
  destruct (reload_auths_equiv evs (rm_auths rl) Hrep Hss) as (aus & Hr & Hf).
  unfold reload. rewrite <- Hids, Hr, replay_users_sorted.
  eexists; split; [reflexivity|]. intros probes. unfold decisions.
  apply flat_map_ext. intros p. apply decide_equiv; simpl.
  - rewrite Had in *. rewrite hist_admins_eq. apply leq_sorted. exact Hsa.
  - exact Hf.
Qed.

(* ------------------------------------------------------------------ statements about what the harness evaluates *)
Lemma probe_spec_decide evs p : probe_spec evs p = decide_spec evs p.
Proof. destruct p as [[k e] d]. reflexivity. Qed.

Definition all_accepted (steps : list (list ievent)) : Prop :=
  forallb (fun b => b) (snd (live steps)) = true.

(* (a) the live room decides what the history grants *)
Theorem live_is_history steps probes :
  all_accepted steps ->
  decisions (fst (live steps)) probes = flat_map (probe_spec (events_of steps)) probes.
Proof.
  unfold all_accepted, live. intros H.
  pose proof (build_from_all_ok (events_of steps) (empty_room 1%N) H) as Hb.
  pose proof (build_strict_Rep (events_of steps) [] (empty_room 1%N) _ (Rep_empty 1%N) Hb) as HR. simpl in HR.
  rewrite (Rep_decisions _ _ probes HR). apply flat_map_ext. intros p. symmetry. apply probe_spec_decide.
Qed.

(* (b) the reload part of run_C10: present and equal to the live decisions, for every accepted history *)
Theorem reload_part_holds steps probes :
  all_accepted steps ->
  dec_opt (reload (concat steps)) probes = 1 :: decisions (fst (live steps)) probes.
Proof.
  unfold all_accepted, live, events_of. intros H.
  pose proof (build_from_all_ok _ _ H) as Hb.
  destruct (reload_is_live (concat steps) _ Hb) as (r & Hr & Hd).
  rewrite Hr. simpl. rewrite Hd. reflexivity.
Qed.

(* (c) class 4 repaired: a group new to the peer whose user-admin entries, users and rights are all
   authored by room administrators (what the local path accepts from an administrator) is accepted *)
Lemma all_admin_users_true r l : Forall (fun x => is_admin r (un_author x) (un_date x) = true) l -> all_admin_users r l = true.
Proof. induction 1 as [|x tl Hx _ IH]; simpl; [reflexivity|]. rewrite Hx, IH. reflexivity. Qed.
Lemma all_admin_rights_true r l : Forall (fun x => is_admin r (rn_author x) (rn_date x) = true) l -> all_admin_rights r l = true.
Proof. induction 1 as [|x tl Hx _ IH]; simpl; [reflexivity|]. rewrite Hx, IH. reflexivity. Qed.
Lemma all_uadmin_or_admin_true r a l : Forall (fun x => is_admin r (un_author x) (un_date x) = true) l -> all_uadmin_or_admin_users r a l = true.
Proof. induction 1 as [|x tl Hx _ IH]; simpl; [reflexivity|]. rewrite Hx, IH, orb_true_r. reflexivity. Qed.
Theorem new_group_by_admin_accepted r g a :
  parse_auth g = POk a ->
  Forall (fun x => is_admin r (un_author x) (un_date x) = true) (an_anodes g) ->
  Forall (fun x => is_admin r (un_author x) (un_date x) = true) (an_unodes g) ->
  Forall (fun x => is_admin r (rn_author x) (rn_date x) = true) (an_rnodes g) ->
  prepare_new_auth r g = POk tt.
Proof.
  intros Hp H1 H2 H3. unfold prepare_new_auth, pbind. rewrite Hp.
  rewrite (all_admin_users_true _ _ H1), (all_uadmin_or_admin_true r a _ H2), (all_admin_rights_true _ _ H3). reflexivity.
Qed.

(* ------------------------------------------------------------------ closed witnesses (replayed by the harness as directed cases) *)
Definition w_probes : list probe := [(1%N, 1%N, 20000); (2%N, 1%N, 6000); (2%N, 1%N, 20000); (3%N, 1%N, 20000)].
(* former class 1: a user enabled, later disabled *)
Definition w1 : c10case :=
  CRestart 1%N [[(100, EvAdmin 1 5000 true); (0, EvGroup 10); (101, EvRight 10 0 5000 true false); (102, EvUser 10 2 5000 true)];
                [(103, EvUser 10 2 8000 false)]]%N w_probes.
Definition w1h : c10case :=
  CHist 1%N [[(100, EvAdmin 1 5000 true); (0, EvGroup 10); (101, EvRight 10 0 5000 true false); (102, EvUser 10 2 5000 true)];
             [(103, EvUser 10 2 8000 false)]]%N w_probes.
(* former class 2: a right with all rows but not own rows *)
Definition w2 : c10case :=
  CHist 1%N [[(100, EvAdmin 1 5000 true); (0, EvGroup 10); (101, EvRight 10 1 5000 false true); (102, EvUser 10 2 5000 true)]]%N w_probes.
(* class 3: enabled and disabled in the same millisecond, the later row has the smaller id *)
Definition w3 : c10case :=
  CHist 1%N [[(100, EvAdmin 1 5000 true); (0, EvGroup 10); (101, EvRight 10 0 5000 true false); (102, EvUser 10 2 5000 true)];
             [(104, EvUser 10 3 8000 true)]; [(103, EvUser 10 3 8000 false)]]%N w_probes.
(* former class 4: a later step creates a group with a user in it *)
Definition w4 : c10case :=
  CHist 1%N [[(100, EvAdmin 1 5000 true); (0, EvGroup 10); (101, EvRight 10 0 5000 true false); (102, EvUser 10 2 5000 true)];
             [(0, EvGroup 11); (103, EvRight 11 1 8000 true true); (104, EvUser 11 3 8000 true)]]%N w_probes.
(* no class: one entry per key, several steps, a second group without users *)
Definition w0 : c10case :=
  CHist 1%N [[(100, EvAdmin 1 5000 true); (0, EvGroup 10); (101, EvRight 10 0 5000 true false); (102, EvUser 10 2 5000 true)];
             [(103, EvUser 10 3 8000 true); (104, EvUAdmin 10 2 8000 true)];
             [(0, EvGroup 11); (105, EvRight 11 1 9000 true true)]; [(106, EvUser 11 3 9500 true)]]%N w_probes.

(* the witnesses of the repaired classes 1, 2 and 4 now pass the oracle *)
Lemma repaired_1 : known_C10 w1 = [] /\ spec_C10 w1 (run_C10 w1) = true /\
                   known_C10 w1h = [] /\ spec_C10 w1h (run_C10 w1h) = true.
Proof. vm_compute. auto. Qed.
Lemma repaired_2 : known_C10 w2 = [] /\ spec_C10 w2 (run_C10 w2) = true.
Proof. vm_compute. auto. Qed.
Lemma refuted_3 : known_C10 w3 = [3] /\ spec_C10 w3 (run_C10 w3) = false.
Proof. vm_compute. auto. Qed.
Lemma repaired_4 : known_C10 w4 = [] /\ spec_C10 w4 (run_C10 w4) = true.
Proof. vm_compute. auto. Qed.
Lemma nonvacuous_0 :
  known_C10 w0 = [] /\ spec_C10 w0 (run_C10 w0) = true /\
  all_accepted (case_steps w0).
Proof. vm_compute. auto. Qed.

(* a peer that skipped a version: key 1 founds the room, makes key 2 administrator, key 2 makes key 3
   administrator; the peer holding the first version receives the third directly (and so does a peer that
   never saw the room); a burst of three user additions *)
Definition Uz (id date author k : Z) (b : bool) (cd : Z) : unode := Build_unode (Z.to_N id) date (Z.to_N author) (Z.to_N k) b cd.
Definition Rz (id date author e : Z) (s a : bool) (cd : Z) : rnode := Build_rnode (Z.to_N id) date (Z.to_N author) (Z.to_N e) s a cd.
Definition Ez (src label dest date author : Z) : edge := Build_edge (Z.to_N src) (Z.to_N label) (Z.to_N dest) date (Z.to_N author).
Definition Gz (id date author : Z) := Build_anode (Z.to_N id) date (Z.to_N author).
Definition RMz (id cdate date author : Z) := Build_roomnode (Z.to_N id) cdate date (Z.to_N author).
Definition wj_old : roomnode :=
  RMz 1 1000 1000 1 [Ez 1 32 100 1000 1] [Uz 100 1000 1 1 true 1000] [Ez 1 33 10 1000 1]
    [Gz 10 1000 1 [Ez 10 33 101 1000 1] [Rz 101 1000 1 0 true false 1000] [] [] [] []].
Definition wj_new : roomnode :=
  RMz 1 1000 3000 2
    [Ez 1 32 100 1000 1; Ez 1 32 102 2000 1; Ez 1 32 103 3000 2]
    [Uz 100 1000 1 1 true 1000; Uz 102 2000 1 2 true 2000; Uz 103 3000 2 3 true 3000]
    [Ez 1 33 10 1000 1]
    [Gz 10 1000 1 [Ez 10 33 101 1000 1] [Rz 101 1000 1 0 true false 1000] [] [] [] []].
Definition wj : c10case := CJump wj_old wj_new [(3%N, 1%N, 5000); (2%N, 1%N, 2500); (3%N, 1%N, 2500)].
Definition wb : c10case :=
  CBurst 1%N [[(100, EvAdmin 1 5000 true); (0, EvGroup 10); (101, EvRight 10 0 5000 true false); (102, EvUser 10 2 5000 true)];
              [(105, EvUser 10 9 8000 true); (103, EvUser 10 10 8000 true); (104, EvUser 10 11 8000 true)]]%N
         [(9%N, 1%N, 8001); (10%N, 1%N, 8001); (11%N, 1%N, 7999)].
Lemma jump_and_burst_pass : spec_C10 wj (run_C10 wj) = true /\ hd 0 (run_C10 wj) = 1 /\ spec_C10 wb (run_C10 wb) = true.
Proof. vm_compute. auto. Qed.
