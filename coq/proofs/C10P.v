(* C10P.v — proofs for C10: replaying an entry list newest-first into the append-only histories of
   room.rs fails as soon as one key has two entries with different dates (reload after restart);
   outside that class (and the un-normalised right flags) the reloaded room decides exactly as the
   live room. *)
From Coq Require Import Permutation.
From DV Require Import RightsP Run_C10.

(* ------------------------------------------------------------------ generic replay *)
Section Replay.
  Variable A : Type.
  Variable kf : A -> N.
  Variable df : A -> Z.

  Fixpoint greplay (l : list A) (xs : list A) : option (list A) :=
    match xs with
    | [] => Some l
    | x :: tl => match gadd A kf df l x with Some l' => greplay l' tl | None => None end
    end.

  Lemma gadd_cons l x l' : gadd A kf df l x = Some l' -> l' = x :: l.
  Proof.
    unfold gadd. destruct (glast A kf l (kf x)) as [v|]; [destruct (Z.ltb (df x) (df v)); [discriminate|]|];
      intros H; inversion H; reflexivity.
  Qed.

  Lemma greplay_ok xs : forall l l',
    ksorted A kf df l -> greplay l xs = Some l' -> l' = rev xs ++ l /\ ksorted A kf df l'.
  Proof.
    induction xs as [|x tl IH]; simpl; intros l l' Hs H.
    - inversion H; subst. auto.
    - destruct (gadd A kf df l x) as [l1|] eqn:Hg; [|discriminate].
      pose proof (gadd_sorted A kf df l x l1 Hs Hg) as Hs1.
      apply gadd_cons in Hg. subst l1.
      destruct (IH _ _ Hs1 H) as [-> Hs']. split; [|exact Hs'].
      rewrite <- app_assoc. reflexivity.
  Qed.

  Lemma desc_app_inv l1 y l2 : desc (l1 ++ y :: l2) -> Forall (fun z => z <= y) l2.
  Proof.
    induction l1 as [|a l1 IH]; simpl; intros H.
    - destruct H as [H _]. exact H.
    - destruct H as [_ H]. auto.
  Qed.

  (* a successful replay saw the entries of every key in ascending date order *)
  Lemma greplay_ascending xs l' a x b y c :
    greplay [] xs = Some l' -> xs = a ++ x :: b ++ y :: c -> kf x = kf y -> df x <= df y.
  Proof.
    intros H Hx Hk.
    destruct (greplay_ok xs [] l' (ksorted_nil kf df) H) as [-> Hs].
    specialize (Hs (kf y)). rewrite app_nil_r in Hs. subst xs.
    rewrite rev_app_distr in Hs. simpl in Hs. rewrite rev_app_distr in Hs. simpl in Hs.
    rewrite <- !app_assoc in Hs. simpl in Hs.
    rewrite filter_app in Hs. simpl in Hs. rewrite N.eqb_refl in Hs.
    rewrite filter_app in Hs. simpl in Hs. rewrite Hk, N.eqb_refl in Hs.
    rewrite map_app in Hs. simpl in Hs. rewrite map_app in Hs. simpl in Hs.
    apply desc_app_inv in Hs. rewrite Forall_app in Hs. destruct Hs as [_ Hs].
    inversion Hs; subst. assumption.
  Qed.

  Lemma in_mid (a x : A) tl l : In a (tl ++ x :: l) -> In a ((x :: tl) ++ l).
  Proof.
    intros H. apply in_app_or in H. simpl. destruct H as [H|H]; [right; apply in_or_app; left; exact H|].
    simpl in H. destruct H as [H|H]; [left; exact H|right; apply in_or_app; right; exact H].
  Qed.

  (* when the entries of every key carry one date, nothing is ever refused *)
  Lemma greplay_same_dates xs : forall l,
    (forall x y, In x (xs ++ l) -> In y (xs ++ l) -> kf x = kf y -> df x = df y) ->
    greplay l xs = Some (rev xs ++ l).
  Proof.
    induction xs as [|x tl IH]; simpl; intros l Hsame; [reflexivity|].
    assert (Hnext : forall a b, In a (tl ++ x :: l) -> In b (tl ++ x :: l) -> kf a = kf b -> df a = df b).
    { intros a b Ha Hb. apply Hsame; apply in_mid; assumption. }
    unfold gadd. destruct (glast A kf l (kf x)) as [v|] eqn:Hl.
    - unfold glast in Hl. apply find_some in Hl. destruct Hl as [Hin Hk]. apply N.eqb_eq in Hk.
      assert (df v = df x) as ->.
      { apply Hsame; [right; apply in_or_app; right; exact Hin|left; reflexivity|exact Hk]. }
      rewrite Z.ltb_irrefl. rewrite (IH _ Hnext). rewrite <- app_assoc. reflexivity.
    - rewrite (IH _ Hnext). rewrite <- app_assoc. reflexivity.
  Qed.
End Replay.

(* ------------------------------------------------------------------ the stable sort *)
Section Sort.
  Variable A : Type.
  Variable f : A -> Z.

  Fixpoint asc (l : list A) : Prop :=
    match l with [] => True | x :: tl => Forall (fun y => f x <= f y) tl /\ asc tl end.

  Lemma insert_by_perm x l : Permutation (insert_by f x l) (x :: l).
  Proof.
    induction l as [|y tl IH]; simpl; [apply Permutation_refl|].
    destruct (Z.leb (f x) (f y)); [apply Permutation_refl|].
    eapply Permutation_trans; [apply perm_skip; exact IH|apply perm_swap].
  Qed.
  Lemma sort_by_perm l : Permutation (sort_by f l) l.
  Proof.
    induction l as [|x tl IH]; simpl; [apply Permutation_refl|].
    eapply Permutation_trans; [apply insert_by_perm|apply perm_skip; exact IH].
  Qed.
  Lemma sort_by_in x l : In x (sort_by f l) <-> In x l.
  Proof. split; apply Permutation_in; [|apply Permutation_sym]; apply sort_by_perm. Qed.

  Lemma insert_by_asc x l : asc l -> asc (insert_by f x l).
  Proof.
    induction l as [|y tl IH]; simpl; intros H; [split; [constructor|exact I]|].
    destruct H as [Hy Ht]. destruct (Z.leb (f x) (f y)) eqn:Hle.
    - apply Z.leb_le in Hle. simpl. split; [|split; assumption].
      constructor; [exact Hle|]. eapply Forall_impl; [|exact Hy]. simpl. intros; lia.
    - apply Z.leb_gt in Hle. simpl. split; [|apply IH; exact Ht].
      eapply Permutation_Forall; [apply Permutation_sym; apply insert_by_perm|].
      constructor; [lia|exact Hy].
  Qed.
  Lemma sort_by_asc l : asc (sort_by f l).
  Proof. induction l as [|x tl IH]; simpl; [exact I|apply insert_by_asc; exact IH]. Qed.

  (* in an ascending list an element with a strictly smaller key stands before *)
  Lemma asc_before l : asc l -> forall x y, In x l -> In y l -> f x < f y ->
    exists a b c, l = a ++ x :: b ++ y :: c.
  Proof.
    induction l as [|h tl IH]; simpl; intros Hs x y Hx Hy Hlt; [contradiction|].
    destruct Hs as [Hh Hs]. destruct Hx as [Hx|Hx]; destruct Hy as [Hy|Hy].
    - subst. lia.
    - subst h. apply in_split in Hy. destruct Hy as (b & c & ->). exists [], b, c. reflexivity.
    - subst h. rewrite Forall_forall in Hh. specialize (Hh x Hx). lia.
    - destruct (IH Hs x y Hx Hy Hlt) as (a & b & c & ->). exists (h :: a), b, c. reflexivity.
  Qed.

  (* stability: the elements of a class that carries one key value keep their order *)
  Lemma filter_insert_by (p : A -> bool) c x l :
    (forall y, In y (x :: l) -> p y = true -> f y = c) ->
    filter p (insert_by f x l) = if p x then x :: filter p l else filter p l.
  Proof.
    induction l as [|y tl IH]; intros Hc; simpl; [reflexivity|].
    destruct (Z.leb (f x) (f y)) eqn:Hle; simpl; [reflexivity|].
    apply Z.leb_gt in Hle.
    rewrite IH by (intros z Hz; apply Hc; destruct Hz as [Hz|Hz]; [left; exact Hz|right; right; exact Hz]).
    destruct (p y) eqn:Hpy; [|reflexivity].
    destruct (p x) eqn:Hpx; [|reflexivity].
    assert (f y = c) by (apply Hc; [right; left; reflexivity|exact Hpy]).
    assert (f x = c) by (apply Hc; [left; reflexivity|exact Hpx]). lia.
  Qed.
  Lemma filter_sort_by (p : A -> bool) c l :
    (forall y, In y l -> p y = true -> f y = c) -> filter p (sort_by f l) = filter p l.
  Proof.
    induction l as [|x tl IH]; intros Hc; simpl; [reflexivity|].
    rewrite (filter_insert_by p c).
    - rewrite IH by (intros y Hy; apply Hc; right; exact Hy). reflexivity.
    - intros y Hy. apply Hc. destruct Hy as [Hy|Hy]; [left; exact Hy|right; apply sort_by_in; exact Hy].
  Qed.
End Sort.

(* ------------------------------------------------------------------ the two instances *)
Lemma replay_users_greplay us : forall l, replay_users l us = greplay user u_key u_date l us.
Proof. induction us as [|u tl IH]; simpl; intros l; [reflexivity|]. rewrite add_user_gadd. destruct (gadd _ _ _ _ _); auto. Qed.
Lemma replay_rights_greplay rs : forall l, replay_rights l rs = greplay eright r_ent r_from l rs.
Proof. induction rs as [|u tl IH]; simpl; intros l; [reflexivity|]. rewrite add_right_gadd. destruct (gadd _ _ _ _ _); auto. Qed.

(* THE reason restart and first import break: a list replayed newest first is refused as soon as one
   key has two entries with different dates *)
Lemma greplay_desc_two_dates {A} (kf : A -> N) (df : A -> Z) (l : list A) x y :
  In x l -> In y l -> kf x = kf y -> df x <> df y -> greplay A kf df [] (desc_by df l) = None.
Proof.
  intros Hx Hy Hk Hd.
  destruct (greplay A kf df [] (desc_by df l)) as [l'|] eqn:Hr; [exfalso|reflexivity].
  unfold desc_by in Hr.
  pose proof (sort_by_asc A (fun z => - df z) l) as Hs.
  assert (Hcase : df x < df y \/ df y < df x) by lia.
  destruct Hcase as [Hlt|Hlt].
  - destruct (asc_before A (fun z => - df z) _ Hs y x) as (a & b & c & He); [apply sort_by_in; exact Hy|apply sort_by_in; exact Hx|lia|].
    pose proof (greplay_ascending A kf df _ _ a y b x c Hr He (eq_sym Hk)). lia.
  - destruct (asc_before A (fun z => - df z) _ Hs x y) as (a & b & c & He); [apply sort_by_in; exact Hx|apply sort_by_in; exact Hy|lia|].
    pose proof (greplay_ascending A kf df _ _ a x b y c Hr He Hk). lia.
Qed.

(* ------------------------------------------------------------------ reload fails inside class 1 *)
Definition one_date_users (l : list user) : Prop :=
  forall x y, In x l -> In y l -> u_key x = u_key y -> u_date x = u_date y.
Definition one_date_rights (l : list eright) : Prop :=
  forall x y, In x l -> In y l -> r_ent x = r_ent y -> r_from x = r_from y.

Lemma replay_users_desc_ok l r : replay_users [] (desc_by u_date l) = Some r -> one_date_users l.
Proof.
  intros H x y Hx Hy Hk. destruct (Z.eq_dec (u_date x) (u_date y)) as [|Hne]; [assumption|].
  rewrite replay_users_greplay, (greplay_desc_two_dates u_key u_date l x y Hx Hy Hk Hne) in H. discriminate.
Qed.
Lemma replay_rights_desc_ok l r : replay_rights [] (desc_by r_from l) = Some r -> one_date_rights l.
Proof.
  intros H x y Hx Hy Hk. destruct (Z.eq_dec (r_from x) (r_from y)) as [|Hne]; [assumption|].
  rewrite replay_rights_greplay, (greplay_desc_two_dates r_ent r_from l x y Hx Hy Hk Hne) in H. discriminate.
Qed.

Lemma reload_auths_in evs gs aus g :
  reload_auths evs gs = Some aus -> In g gs -> exists a, reload_auth evs g = Some a.
Proof.
  revert aus. induction gs as [|g0 tl IH]; simpl; intros aus H Hin; [contradiction|].
  destruct (reload_auth evs g0) as [a|] eqn:Ha; [|discriminate].
  destruct (reload_auths evs tl) as [l|] eqn:Hl; [|discriminate].
  destruct Hin as [->|Hin]; [eauto|eapply IH; eauto].
Qed.

(* reload succeeds only if no key (or entity) of any list has two entries with different dates *)
Theorem reload_requires_one_date evs r :
  reload evs = Some r ->
  one_date_users (hist_admins evs) /\
  forall g, In g (groups (map snd evs)) ->
    one_date_users (hist_users evs g) /\ one_date_users (hist_uadmins evs g) /\ one_date_rights (hist_rights_raw evs g).
Proof.
  unfold reload. intros H.
  destruct (reload_auths evs (groups (map snd evs))) as [aus|] eqn:Ha; [|discriminate].
  destruct (replay_users [] (desc_by u_date (hist_admins evs))) as [ads|] eqn:Hd; [|discriminate].
  split; [eapply replay_users_desc_ok; eauto|].
  intros g Hg. destruct (reload_auths_in _ _ _ _ Ha Hg) as [a Hra].
  unfold reload_auth in Hra.
  destruct (replay_users [] (desc_by u_date (hist_users evs g))) as [us|] eqn:H1; [|discriminate].
  destruct (replay_users [] (desc_by u_date (hist_uadmins evs g))) as [uas|] eqn:H2; [|discriminate].
  destruct (replay_rights [] (desc_by r_from (hist_rights_raw evs g))) as [rs|] eqn:H3; [|discriminate].
  repeat split; [eapply replay_users_desc_ok|eapply replay_users_desc_ok|eapply replay_rights_desc_ok]; eauto.
Qed.
