(* C10P.v — proofs for C10: replaying an entry list newest-first into the append-only histories of
   room.rs fails as soon as one key has two entries with different dates (reload after restart);
   outside that class (and the un-normalised right flags) the reloaded room decides exactly as the
   live room. *)
From Coq Require Import Permutation.
From DV Require Import RightsP RoomNodeP Run_C10.

(* ------------------------------------------------------------------ generic replay *)
Section Replay.
  Variable A : Type.
  Variable kf : A -> N.
  Variable df : A -> Z.

  Fixpoint greplay (l : list A) (xs : list A) : option (list A) :=
    match xs with
    | [] => Some l
    | x :: tl => match gadd A kf df l x with Some l' => greplay l' tl | None => None end
    end.

  Lemma gadd_cons l x l' : gadd A kf df l x = Some l' -> l' = x :: l.
  Proof.
    unfold gadd. destruct (glast A kf l (kf x)) as [v|]; [destruct (Z.ltb (df x) (df v)); [discriminate|]|];
      intros H; inversion H; reflexivity.
  Qed.

  Lemma greplay_ok xs : forall l l',
    ksorted A kf df l -> greplay l xs = Some l' -> l' = rev xs ++ l /\ ksorted A kf df l'.
  Proof.
    induction xs as [|x tl IH]; simpl; intros l l' Hs H.
    - inversion H; subst. auto.
    - destruct (gadd A kf df l x) as [l1|] eqn:Hg; [|discriminate].
      pose proof (gadd_sorted A kf df l x l1 Hs Hg) as Hs1.
      apply gadd_cons in Hg. subst l1.
      destruct (IH _ _ Hs1 H) as [-> Hs']. split; [|exact Hs'].
      rewrite <- app_assoc. reflexivity.
  Qed.

  Lemma desc_app_inv l1 y l2 : desc (l1 ++ y :: l2) -> Forall (fun z => z <= y) l2.
  Proof.
    induction l1 as [|a l1 IH]; simpl; intros H.
    - destruct H as [H _]. exact H.
    - destruct H as [_ H]. auto.
  Qed.

  (* a successful replay saw the entries of every key in ascending date order *)
  Lemma greplay_ascending xs l' a x b y c :
    greplay [] xs = Some l' -> xs = a ++ x :: b ++ y :: c -> kf x = kf y -> df x <= df y.
  Proof.
    intros H Hx Hk.
    destruct (greplay_ok xs [] l' (ksorted_nil kf df) H) as [-> Hs].
    specialize (Hs (kf y)). rewrite app_nil_r in Hs. subst xs.
    rewrite rev_app_distr in Hs. simpl in Hs. rewrite rev_app_distr in Hs. simpl in Hs.
    rewrite <- !app_assoc in Hs. simpl in Hs.
    rewrite filter_app in Hs. simpl in Hs. rewrite N.eqb_refl in Hs.
    rewrite filter_app in Hs. simpl in Hs. rewrite Hk, N.eqb_refl in Hs.
    rewrite map_app in Hs. simpl in Hs. rewrite map_app in Hs. simpl in Hs.
    apply desc_app_inv in Hs. rewrite Forall_app in Hs. destruct Hs as [_ Hs].
    inversion Hs; subst. assumption.
  Qed.

  Lemma in_mid (a x : A) tl l : In a (tl ++ x :: l) -> In a ((x :: tl) ++ l).
  Proof.
    intros H. apply in_app_or in H. simpl. destruct H as [H|H]; [right; apply in_or_app; left; exact H|].
    simpl in H. destruct H as [H|H]; [left; exact H|right; apply in_or_app; right; exact H].
  Qed.

  (* when the entries of every key carry one date, nothing is ever refused *)
  Lemma greplay_same_dates xs : forall l,
    (forall x y, In x (xs ++ l) -> In y (xs ++ l) -> kf x = kf y -> df x = df y) ->
    greplay l xs = Some (rev xs ++ l).
  Proof.
    induction xs as [|x tl IH]; simpl; intros l Hsame; [reflexivity|].
    assert (Hnext : forall a b, In a (tl ++ x :: l) -> In b (tl ++ x :: l) -> kf a = kf b -> df a = df b).
    { intros a b Ha Hb. apply Hsame; apply in_mid; assumption. }
    unfold gadd. destruct (glast A kf l (kf x)) as [v|] eqn:Hl.
    - unfold glast in Hl. apply find_some in Hl. destruct Hl as [Hin Hk]. apply N.eqb_eq in Hk.
      assert (df v = df x) as ->.
      { apply Hsame; [right; apply in_or_app; right; exact Hin|left; reflexivity|exact Hk]. }
      rewrite Z.ltb_irrefl. rewrite (IH _ Hnext). rewrite <- app_assoc. reflexivity.
    - rewrite (IH _ Hnext). rewrite <- app_assoc. reflexivity.
  Qed.
End Replay.

(* ------------------------------------------------------------------ the two instances *)
Lemma replay_users_greplay us : forall l, replay_users l us = greplay user u_key u_date l us.
Proof. induction us as [|u tl IH]; simpl; intros l; [reflexivity|]. rewrite add_user_gadd. destruct (gadd _ _ _ _ _); auto. Qed.
Lemma replay_rights_greplay rs : forall l, replay_rights l rs = greplay eright r_ent r_from l rs.
Proof. induction rs as [|u tl IH]; simpl; intros l; [reflexivity|]. rewrite add_right_gadd. destruct (gadd _ _ _ _ _); auto. Qed.

(* THE reason restart and first import break: a list replayed newest first is refused as soon as one
   key has two entries with different dates *)
Lemma greplay_desc_two_dates {A} (kf : A -> N) (df : A -> Z) (l : list A) x y :
  In x l -> In y l -> kf x = kf y -> df x <> df y -> greplay A kf df [] (desc_by df l) = None.
Proof.
  intros Hx Hy Hk Hd.
  destruct (greplay A kf df [] (desc_by df l)) as [l'|] eqn:Hr; [exfalso|reflexivity].
  unfold desc_by in Hr.
  pose proof (sort_by_asc A (fun z => - df z) l) as Hs.
  assert (Hcase : df x < df y \/ df y < df x) by lia.
  destruct Hcase as [Hlt|Hlt].
  - destruct (asc_before A (fun z => - df z) _ Hs y x) as (a & b & c & He); [apply sort_by_in; exact Hy|apply sort_by_in; exact Hx|lia|].
    pose proof (greplay_ascending A kf df _ _ a y b x c Hr He (eq_sym Hk)). lia.
  - destruct (asc_before A (fun z => - df z) _ Hs x y) as (a & b & c & He); [apply sort_by_in; exact Hx|apply sort_by_in; exact Hy|lia|].
    pose proof (greplay_ascending A kf df _ _ a x b y c Hr He Hk). lia.
Qed.

(* ------------------------------------------------------------------ reload fails inside class 1 *)
Definition one_date_users (l : list user) : Prop :=
  forall x y, In x l -> In y l -> u_key x = u_key y -> u_date x = u_date y.
Definition one_date_rights (l : list eright) : Prop :=
  forall x y, In x l -> In y l -> r_ent x = r_ent y -> r_from x = r_from y.

Lemma replay_users_desc_ok l r : replay_users [] (desc_by u_date l) = Some r -> one_date_users l.
Proof.
  intros H x y Hx Hy Hk. destruct (Z.eq_dec (u_date x) (u_date y)) as [|Hne]; [assumption|].
  rewrite replay_users_greplay, (greplay_desc_two_dates u_key u_date l x y Hx Hy Hk Hne) in H. discriminate.
Qed.
Lemma replay_rights_desc_ok l r : replay_rights [] (desc_by r_from l) = Some r -> one_date_rights l.
Proof.
  intros H x y Hx Hy Hk. destruct (Z.eq_dec (r_from x) (r_from y)) as [|Hne]; [assumption|].
  rewrite replay_rights_greplay, (greplay_desc_two_dates r_ent r_from l x y Hx Hy Hk Hne) in H. discriminate.
Qed.

Lemma reload_auths_in evs gs aus g :
  reload_auths evs gs = Some aus -> In g gs -> exists a, reload_auth evs g = Some a.
Proof.
  revert aus. induction gs as [|g0 tl IH]; simpl; intros aus H Hin; [contradiction|].
  destruct (reload_auth evs g0) as [a|] eqn:Ha; [|discriminate].
  destruct (reload_auths evs tl) as [l|] eqn:Hl; [|discriminate].
  destruct Hin as [->|Hin]; [eauto|eapply IH; eauto].
Qed.

(* reload succeeds only if no key (or entity) of any list has two entries with different dates *)
Theorem reload_requires_one_date evs r :
  reload evs = Some r ->
  one_date_users (hist_admins evs) /\
  forall g, In g (groups (map snd evs)) ->
    one_date_users (hist_users evs g) /\ one_date_users (hist_uadmins evs g) /\ one_date_rights (hist_rights_raw evs g).
Proof.
  unfold reload. intros H.
  destruct (reload_auths evs (groups (map snd evs))) as [aus|] eqn:Ha; [|discriminate].
  destruct (replay_users [] (desc_by u_date (hist_admins evs))) as [ads|] eqn:Hd; [|discriminate].
  split; [eapply replay_users_desc_ok; eauto|].
  intros g Hg. destruct (reload_auths_in _ _ _ _ Ha Hg) as [a Hra].
  unfold reload_auth in Hra.
  destruct (replay_users [] (desc_by u_date (hist_users evs g))) as [us|] eqn:H1; [|discriminate].
  destruct (replay_users [] (desc_by u_date (hist_uadmins evs g))) as [uas|] eqn:H2; [|discriminate].
  destruct (replay_rights [] (desc_by r_from (hist_rights_raw evs g))) as [rs|] eqn:H3; [|discriminate].
  repeat split; [eapply replay_users_desc_ok|eapply replay_users_desc_ok|eapply replay_rights_desc_ok]; eauto.
Qed.

(* ------------------------------------------------------------------ class 1 of known_C10 => reload fails *)
Definition groups_known (evs : list event) : Prop :=
  forall ev, In ev evs ->
    match ev with
    | EvUser g _ _ _ | EvUAdmin g _ _ _ | EvRight g _ _ _ _ => In g (groups evs)
    | _ => True
    end.

Lemma pk_order_flat_map {B C} (F : B -> list (N * C)) (l : list B) :
  pk_order (flat_map F l) = flat_map (fun x => map snd (F x)) l.
Proof. unfold pk_order. induction l as [|x tl IH]; simpl; [reflexivity|]. rewrite map_app, IH. reflexivity. Qed.

Lemma hist_admins_eq evs : hist_admins evs = admin_users (map snd evs).
Proof.
  unfold hist_admins, admin_users. rewrite pk_order_flat_map.
  induction evs as [|[i ev] tl IH]; simpl; [reflexivity|]. rewrite IH. destruct ev; reflexivity.
Qed.
Lemma hist_users_eq evs g : hist_users evs g = group_users (map snd evs) g.
Proof.
  unfold hist_users, group_users. rewrite pk_order_flat_map.
  induction evs as [|[i ev] tl IH]; simpl; [reflexivity|]. rewrite IH. destruct ev; try reflexivity.
  simpl. destruct (N.eqb g0 g); reflexivity.
Qed.
Lemma hist_uadmins_eq evs g : hist_uadmins evs g = group_uadmins (map snd evs) g.
Proof.
  unfold hist_uadmins, group_uadmins. rewrite pk_order_flat_map.
  induction evs as [|[i ev] tl IH]; simpl; [reflexivity|]. rewrite IH. destruct ev; try reflexivity.
  simpl. destruct (N.eqb g0 g); reflexivity.
Qed.
Definition raw_rights (evs : list event) (g : uid) : list eright :=
  flat_map (fun ev => match ev with EvRight g' e d s a => if N.eqb g' g then [{| r_from := d; r_ent := e; r_self := s; r_all := a |}] else [] | _ => [] end) evs.
Lemma hist_rights_eq evs g : hist_rights_raw evs g = raw_rights (map snd evs) g.
Proof.
  unfold hist_rights_raw, raw_rights. rewrite pk_order_flat_map.
  induction evs as [|[i ev] tl IH]; simpl; [reflexivity|]. rewrite IH. destruct ev; try reflexivity.
  simpl. destruct (N.eqb g0 g); reflexivity.
Qed.

(* entries of the history, seen from the slot list of known_C10 *)
Lemma in_admin_users evs u : In u (admin_users evs) <-> In (EvAdmin (u_key u) (u_date u) (u_enabled u)) evs.
Proof.
  unfold admin_users. rewrite in_flat_map. split.
  - intros (ev & Hin & Hu). destruct ev; simpl in Hu; try contradiction. destruct Hu as [<-|[]]. exact Hin.
  - intros H. eexists; split; [exact H|]. simpl. left. destruct u; reflexivity.
Qed.
Lemma in_group_users evs g u : In u (group_users evs g) <-> In (EvUser g (u_key u) (u_date u) (u_enabled u)) evs.
Proof.
  unfold group_users. rewrite in_flat_map. split.
  - intros (ev & Hin & Hu). destruct ev; simpl in Hu; try contradiction.
    destruct (N.eqb g0 g) eqn:He; [|contradiction]. apply N.eqb_eq in He. subst. destruct Hu as [<-|[]]. exact Hin.
  - intros H. eexists; split; [exact H|]. simpl. rewrite N.eqb_refl. left. destruct u; reflexivity.
Qed.
Lemma in_group_uadmins evs g u : In u (group_uadmins evs g) <-> In (EvUAdmin g (u_key u) (u_date u) (u_enabled u)) evs.
Proof.
  unfold group_uadmins. rewrite in_flat_map. split.
  - intros (ev & Hin & Hu). destruct ev; simpl in Hu; try contradiction.
    destruct (N.eqb g0 g) eqn:He; [|contradiction]. apply N.eqb_eq in He. subst. destruct Hu as [<-|[]]. exact Hin.
  - intros H. eexists; split; [exact H|]. simpl. rewrite N.eqb_refl. left. destruct u; reflexivity.
Qed.
Lemma in_raw_rights evs g r : In r (raw_rights evs g) <-> In (EvRight g (r_ent r) (r_from r) (r_self r) (r_all r)) evs.
Proof.
  unfold raw_rights. rewrite in_flat_map. split.
  - intros (ev & Hin & Hu). destruct ev; simpl in Hu; try contradiction.
    destruct (N.eqb g0 g) eqn:He; [|contradiction]. apply N.eqb_eq in He. subst. destruct Hu as [<-|[]]. exact Hin.
  - intros H. eexists; split; [exact H|]. simpl. rewrite N.eqb_refl. left. destruct r; reflexivity.
Qed.

Lemma slot_eqb_eq a b : slot_eqb a b = true <-> a = b.
Proof.
  destruct a as [[a1 a2] a3], b as [[b1 b2] b3]. unfold slot_eqb. simpl.
  rewrite !andb_true_iff, !N.eqb_eq. split; [intros [[-> ->] ->]; reflexivity|intros H; inversion H; auto].
Qed.

Lemma two_dates_false l : two_dates l = false ->
  forall s d d', In (s, d) l -> In (s, d') l -> d = d'.
Proof.
  induction l as [|[k0 d0] tl IH]; simpl; intros H s d d' H1 H2; [contradiction|].
  apply orb_false_iff in H. destruct H as [Hex Htl].
  assert (Hno : forall d1, In (k0, d1) tl -> d1 = d0).
  { intros d1 Hin. rewrite <- not_true_iff_false in Hex. destruct (Z.eq_dec d1 d0) as [|Hne]; [assumption|].
    exfalso. apply Hex. apply existsb_exists. exists (k0, d1). split; [exact Hin|]. simpl.
    rewrite (proj2 (slot_eqb_eq k0 k0) eq_refl). simpl. apply negb_true_iff. apply Z.eqb_neq. exact Hne. }
  destruct H1 as [H1|H1]; destruct H2 as [H2|H2].
  - inversion H1; inversion H2; subst. reflexivity.
  - inversion H1; subst. symmetry. apply Hno. exact H2.
  - inversion H2; subst. apply Hno. exact H1.
  - eapply IH; eauto.
Qed.
Lemma two_dates_true l s d d' : In (s, d) l -> In (s, d') l -> d <> d' -> two_dates l = true.
Proof.
  intros H1 H2 Hne. destruct (two_dates l) eqn:Ht; [reflexivity|].
  exfalso. apply Hne. eapply two_dates_false; eauto.
Qed.

Lemma in_entry_keys evs s d :
  In (s, d) (entry_keys evs) <->
  exists ev, In ev evs /\
    match ev with
    | EvGroup _ => False
    | EvAdmin k d' _ => s = (0, 0, k)%N /\ d = d'
    | EvUser g k d' _ => s = (1, g, k)%N /\ d = d'
    | EvUAdmin g k d' _ => s = (2, g, k)%N /\ d = d'
    | EvRight g e d' _ _ => s = (3, g, e)%N /\ d = d'
    end.
Proof.
  unfold entry_keys. rewrite in_flat_map. split.
  - intros (ev & Hin & H). exists ev. split; [exact Hin|]. destruct ev; simpl in H; try contradiction;
      destruct H as [H|[]]; inversion H; auto.
  - intros (ev & Hin & H). exists ev. split; [exact Hin|]. destruct ev; simpl; try contradiction;
      destruct H as [-> ->]; left; reflexivity.
Qed.

(* every history that lies in class 1 of known_C10 cannot be reloaded *)
Theorem class1_reload_fails evs :
  groups_known (map snd evs) -> two_dates (entry_keys (map snd evs)) = true -> reload evs = None.
Proof.
  intros Hg Ht. destruct (reload evs) as [r|] eqn:Hr; [exfalso|reflexivity].
  destruct (reload_requires_one_date evs r Hr) as [Had Hgr].
  assert (Hf : two_dates (entry_keys (map snd evs)) = false); [|congruence].
  clear Ht. destruct (two_dates (entry_keys (map snd evs))) eqn:Ht; [exfalso|reflexivity].
  (* find the two entries *)
  assert (Hex : exists s d d', In (s, d) (entry_keys (map snd evs)) /\ In (s, d') (entry_keys (map snd evs)) /\ d <> d').
  { clear - Ht. induction (entry_keys (map snd evs)) as [|[k0 d0] tl IH]; simpl in Ht; [discriminate|].
    apply orb_true_iff in Ht. destruct Ht as [Ht|Ht].
    - apply existsb_exists in Ht. destruct Ht as ([k1 d1] & Hin & Hp). simpl in Hp.
      apply andb_true_iff in Hp. destruct Hp as [Hk Hd]. apply slot_eqb_eq in Hk. subst k1.
      apply negb_true_iff, Z.eqb_neq in Hd. exists k0, d0, d1. simpl. auto.
    - destruct (IH Ht) as (s & d & d' & H1 & H2 & H3). exists s, d, d'. simpl. auto. }
  destruct Hex as (s & d & d' & H1 & H2 & Hne).
  apply in_entry_keys in H1. apply in_entry_keys in H2.
  destruct H1 as (e1 & Hi1 & M1). destruct H2 as (e2 & Hi2 & M2).
  rewrite hist_admins_eq in Had.
  destruct e1 as [?|k1 d1 b1|g1 k1 d1 b1|g1 k1 d1 b1|g1 x1 d1 s1 a1]; try contradiction; destruct M1 as [-> ->];
  destruct e2 as [?|k2 d2 b2|g2 k2 d2 b2|g2 k2 d2 b2|g2 x2 d2 s2 a2]; try contradiction; destruct M2 as [M2 ->]; inversion M2; subst.
  - apply Hne. apply (Had {| u_key := k2; u_date := d1; u_enabled := b1 |} {| u_key := k2; u_date := d2; u_enabled := b2 |});
      try apply in_admin_users; simpl; auto.
  - pose proof (Hg _ Hi1) as Hgin. simpl in Hgin. destruct (Hgr _ Hgin) as (Hu & _ & _). rewrite hist_users_eq in Hu.
    apply Hne. apply (Hu {| u_key := k2; u_date := d1; u_enabled := b1 |} {| u_key := k2; u_date := d2; u_enabled := b2 |});
      try apply in_group_users; simpl; auto.
  - pose proof (Hg _ Hi1) as Hgin. simpl in Hgin. destruct (Hgr _ Hgin) as (_ & Hu & _). rewrite hist_uadmins_eq in Hu.
    apply Hne. apply (Hu {| u_key := k2; u_date := d1; u_enabled := b1 |} {| u_key := k2; u_date := d2; u_enabled := b2 |});
      try apply in_group_uadmins; simpl; auto.
  - pose proof (Hg _ Hi1) as Hgin. simpl in Hgin. destruct (Hgr _ Hgin) as (_ & _ & Hu). rewrite hist_rights_eq in Hu.
    apply Hne. apply (Hu {| r_from := d1; r_ent := x2; r_self := s1; r_all := a1 |} {| r_from := d2; r_ent := x2; r_self := s2; r_all := a2 |});
      try apply in_raw_rights; simpl; auto.
Qed.

(* ------------------------------------------------------------------ outside the known classes: reload = live *)
Definition leq (l l' : list user) : Prop := forall k d, lookup_user l k d = lookup_user l' k d.
Definition req (l l' : list eright) : Prop := forall e d, lookup_right l e d = lookup_right l' e d.
Definition aequiv (a a' : auth) : Prop :=
  a_id a = a_id a' /\ leq (a_users a) (a_users a') /\ leq (a_uadmins a) (a_uadmins a') /\ req (a_rights a) (a_rights a').

Lemma existsb_Forall2 {B C} (f : B -> bool) (g : C -> bool) l l' :
  Forall2 (fun a a' => f a = g a') l l' -> existsb f l = existsb g l'.
Proof. induction 1 as [|a a' l l' H _ IH]; simpl; [reflexivity|]. rewrite H, IH. reflexivity. Qed.

Lemma Forall2_imp {B C} (P Q : B -> C -> Prop) l l' :
  (forall a b, P a b -> Q a b) -> Forall2 P l l' -> Forall2 Q l l'.
Proof. intros H. induction 1; constructor; auto. Qed.

Lemma enabled_at_leq l l' k d : leq l l' -> enabled_at l k d = enabled_at l' k d.
Proof. intros H. unfold enabled_at. rewrite H. reflexivity. Qed.
Lemma auth_can_req a a' e d t : req (a_rights a) (a_rights a') -> auth_can a e d t = auth_can a' e d t.
Proof. intros H. unfold auth_can. rewrite !H. reflexivity. Qed.

Lemma decide_equiv r r' p :
  leq (rm_admins r) (rm_admins r') -> Forall2 aequiv (rm_auths r) (rm_auths r') -> decide r p = decide r' p.
Proof.
  intros Ha Hf. destruct p as [[k e] d]. unfold decide.
  assert (Hadm : is_admin r k d = is_admin r' k d) by (apply enabled_at_leq; exact Ha).
  assert (Hcan : forall t, can r k e d t = can r' k e d t).
  { intros t. unfold can. apply existsb_Forall2. eapply Forall2_imp; [|exact Hf].
    intros a a' (_ & Hu & Hua & Hr). cbv beta. rewrite Hadm. unfold auth_user_valid.
    rewrite (enabled_at_leq _ _ k d Hu), (enabled_at_leq _ _ k d Hua), (auth_can_req a a' e d t Hr). reflexivity. }
  rewrite !Hcan, Hadm. f_equal. f_equal. f_equal. f_equal; [|f_equal].
  - unfold is_user_valid_at. rewrite Hadm. f_equal. f_equal. apply existsb_Forall2. eapply Forall2_imp; [|exact Hf].
    intros a a' (_ & Hu & Hua & _). cbv beta. unfold auth_user_valid.
    rewrite (enabled_at_leq _ _ k d Hu), (enabled_at_leq _ _ k d Hua). reflexivity.
  - f_equal. apply existsb_Forall2. eapply Forall2_imp; [|exact Hf].
    intros a a' (_ & _ & Hua & _). cbv beta. unfold can_admin_users. apply enabled_at_leq. exact Hua.
Qed.

(* looking a key up only sees the entries of that key; a stable sort by date does not move them
   when they all carry one date *)
Lemma lookup_user_filter l k d :
  lookup_user l k d = find (fun u => Z.leb (u_date u) d) (filter (fun u => N.eqb (u_key u) k) l).
Proof. unfold lookup_user. apply find_and_filter. Qed.
Lemma lookup_right_filter l e d :
  lookup_right l e d = find (fun r => Z.leb (r_from r) d) (filter (fun r => N.eqb (r_ent r) e) l).
Proof. unfold lookup_right. apply find_and_filter. Qed.

Lemma leq_desc L : one_date_users L -> leq (rev (desc_by u_date L)) (rev L).
Proof.
  intros H1 k d. rewrite !lookup_user_filter, !filter_rev. unfold desc_by.
  set (c := match find (fun u => N.eqb (u_key u) k) L with Some u => - u_date u | None => 0 end).
  rewrite (filter_sort_by user (fun x => - u_date x) (fun u => N.eqb (u_key u) k) c); [reflexivity|].
  intros y Hy Hk. apply N.eqb_eq in Hk. unfold c.
  destruct (find (fun u => N.eqb (u_key u) k) L) as [u|] eqn:Hf.
  - apply find_some in Hf. destruct Hf as [Hin He]. apply N.eqb_eq in He.
    rewrite (H1 y u Hy Hin); [reflexivity|congruence].
  - eapply find_none in Hf; [|exact Hy]. apply N.eqb_neq in Hf. contradiction.
Qed.
Lemma req_desc L : one_date_rights L -> req (rev (desc_by r_from L)) (rev L).
Proof.
  intros H1 e d. rewrite !lookup_right_filter, !filter_rev. unfold desc_by.
  set (c := match find (fun r => N.eqb (r_ent r) e) L with Some u => - r_from u | None => 0 end).
  rewrite (filter_sort_by eright (fun x => - r_from x) (fun r => N.eqb (r_ent r) e) c); [reflexivity|].
  intros y Hy Hk. apply N.eqb_eq in Hk. unfold c.
  destruct (find (fun r => N.eqb (r_ent r) e) L) as [u|] eqn:Hf.
  - apply find_some in Hf. destruct Hf as [Hin He]. apply N.eqb_eq in He.
    rewrite (H1 y u Hy Hin); [reflexivity|congruence].
  - eapply find_none in Hf; [|exact Hy]. apply N.eqb_neq in Hf. contradiction.
Qed.

Lemma replay_users_one_date L : one_date_users L -> replay_users [] (desc_by u_date L) = Some (rev (desc_by u_date L)).
Proof.
  intros H. rewrite replay_users_greplay, greplay_same_dates; [rewrite app_nil_r; reflexivity|].
  intros x y Hx Hy. rewrite app_nil_r in Hx, Hy. unfold desc_by in Hx, Hy. apply sort_by_in in Hx, Hy. apply H; assumption.
Qed.
Lemma replay_rights_one_date L : one_date_rights L -> replay_rights [] (desc_by r_from L) = Some (rev (desc_by r_from L)).
Proof.
  intros H. rewrite replay_rights_greplay, greplay_same_dates; [rewrite app_nil_r; reflexivity|].
  intros x y Hx Hy. rewrite app_nil_r in Hx, Hy. unfold desc_by in Hx, Hy. apply sort_by_in in Hx, Hy. apply H; assumption.
Qed.

(* outside class 1 every list of the history carries one date per key *)
Lemma no_class1_admins evs : two_dates (entry_keys evs) = false -> one_date_users (admin_users evs).
Proof.
  intros Ht x y Hx Hy Hk. apply in_admin_users in Hx, Hy.
  apply (two_dates_false _ Ht (0, 0, u_key x)%N); apply in_entry_keys.
  - eexists; split; [exact Hx|]. simpl; auto.
  - eexists; split; [exact Hy|]. simpl; rewrite Hk; auto.
Qed.
Lemma no_class1_users evs g : two_dates (entry_keys evs) = false -> one_date_users (group_users evs g).
Proof.
  intros Ht x y Hx Hy Hk. apply in_group_users in Hx, Hy.
  apply (two_dates_false _ Ht (1, g, u_key x)%N); apply in_entry_keys.
  - eexists; split; [exact Hx|]. simpl; auto.
  - eexists; split; [exact Hy|]. simpl; rewrite Hk; auto.
Qed.
Lemma no_class1_uadmins evs g : two_dates (entry_keys evs) = false -> one_date_users (group_uadmins evs g).
Proof.
  intros Ht x y Hx Hy Hk. apply in_group_uadmins in Hx, Hy.
  apply (two_dates_false _ Ht (2, g, u_key x)%N); apply in_entry_keys.
  - eexists; split; [exact Hx|]. simpl; auto.
  - eexists; split; [exact Hy|]. simpl; rewrite Hk; auto.
Qed.
Lemma no_class1_rights evs g : two_dates (entry_keys evs) = false -> one_date_rights (raw_rights evs g).
Proof.
  intros Ht x y Hx Hy Hk. apply in_raw_rights in Hx, Hy.
  apply (two_dates_false _ Ht (3, g, r_ent x)%N); apply in_entry_keys.
  - eexists; split; [exact Hx|]. simpl; auto.
  - eexists; split; [exact Hy|]. simpl; rewrite Hk; auto.
Qed.

(* outside class 2 the stored flags are the normalised ones *)
Definition normalised (evs : list event) : bool :=
  forallb (fun ev => match ev with EvRight _ _ _ s a => implb a s | _ => true end) evs.
Lemma raw_rights_normalised evs g : normalised evs = true -> raw_rights evs g = group_rights evs g.
Proof.
  unfold normalised, raw_rights, group_rights. induction evs as [|ev tl IH]; simpl; intros H; [reflexivity|].
  apply andb_true_iff in H. destruct H as [Hev Htl]. rewrite (IH Htl). f_equal.
  destruct ev; try reflexivity. destruct (N.eqb g0 g); [|reflexivity].
  unfold mk_right. destruct s, a; simpl in *; try reflexivity; discriminate.
Qed.

Lemma reload_auth_one_date evs g :
  two_dates (entry_keys (map snd evs)) = false ->
  reload_auth evs g = Some {| a_id := g;
                              a_users := rev (desc_by u_date (hist_users evs g));
                              a_rights := rev (desc_by r_from (hist_rights_raw evs g));
                              a_uadmins := rev (desc_by u_date (hist_uadmins evs g)) |}.
Proof.
  intros Ht. unfold reload_auth.
  rewrite replay_users_one_date by (rewrite hist_users_eq; apply no_class1_users; exact Ht).
  rewrite replay_users_one_date by (rewrite hist_uadmins_eq; apply no_class1_uadmins; exact Ht).
  rewrite replay_rights_one_date by (rewrite hist_rights_eq; apply no_class1_rights; exact Ht).
  reflexivity.
Qed.

Lemma reload_auths_equiv evs (auths : list auth) :
  two_dates (entry_keys (map snd evs)) = false -> normalised (map snd evs) = true ->
  Forall (auth_rep (map snd evs)) auths ->
  exists aus, reload_auths evs (map a_id auths) = Some aus /\ Forall2 aequiv aus auths.
Proof.
  intros Ht Hn. induction 1 as [|a tl Ha _ IH]; simpl; [exists []; split; [reflexivity|constructor]|].
  destruct IH as (aus & Hr & Hf). rewrite (reload_auth_one_date evs (a_id a) Ht), Hr.
  eexists; split; [reflexivity|]. constructor; [|exact Hf].
  destruct Ha as (R1 & R2 & R3). unfold aequiv. simpl.
  split; [reflexivity|]. split; [|split].
  - rewrite R1, hist_users_eq. apply leq_desc. apply no_class1_users. exact Ht.
  - rewrite R2, hist_uadmins_eq. apply leq_desc. apply no_class1_uadmins. exact Ht.
  - rewrite R3, hist_rights_eq, <- (raw_rights_normalised _ _ Hn). apply req_desc. apply no_class1_rights. exact Ht.
Qed.

(* every step accepted live = the strict replay succeeds *)
Lemma build_from_all_ok evs : forall r,
  forallb (fun b => b) (snd (build_from r evs)) = true -> build_strict r evs = Some (fst (build_from r evs)).
Proof.
  induction evs as [|ev tl IH]; simpl; intros r H; [reflexivity|].
  destruct (apply_event r ev) as [r'|] eqn:Ha.
  - specialize (IH r'). destruct (build_from r' tl) as [rf oks]. simpl in *. apply IH. exact H.
  - destruct (build_from r tl) as [rf oks]. simpl in H. discriminate.
Qed.

Theorem reload_outside_known evs rl :
  build_strict (empty_room 1%N) (map snd evs) = Some rl ->
  two_dates (entry_keys (map snd evs)) = false ->
  normalised (map snd evs) = true ->
  exists r, reload evs = Some r /\ forall probes, decisions r probes = decisions rl probes.
Proof.
  intros Hb Ht Hn.
  pose proof (build_strict_Rep (map snd evs) [] (empty_room 1%N) rl (Rep_empty 1%N) Hb) as HR. simpl in HR.
  destruct HR as (Had & Hids & Hrep & _ & _ & _).
  destruct (reload_auths_equiv evs (rm_auths rl) Ht Hn Hrep) as (aus & Hr & Hf).
  unfold reload. rewrite <- Hids, Hr.
  rewrite replay_users_one_date by (rewrite hist_admins_eq; apply no_class1_admins; exact Ht).
  eexists; split; [reflexivity|]. intros probes. unfold decisions.
  apply flat_map_ext. intros p. apply decide_equiv; simpl.
  - rewrite Had, hist_admins_eq. apply leq_desc. apply no_class1_admins. exact Ht.
  - exact Hf.
Qed.

(* ------------------------------------------------------------------ statements about what the harness evaluates *)

Lemma probe_spec_decide evs p : probe_spec evs p = decide_spec evs p.
Proof. destruct p as [[k e] d]. reflexivity. Qed.

Definition all_accepted (steps : list (list ievent)) : Prop :=
  forallb (fun b => b) (snd (live steps)) = true.

(* (a) the live room decides what the history grants *)
Theorem live_is_history steps probes :
  all_accepted steps ->
  decisions (fst (live steps)) probes = flat_map (probe_spec (events_of steps)) probes.
Proof.
  unfold all_accepted, live. intros H.
  pose proof (build_from_all_ok (events_of steps) (empty_room 1%N) H) as Hb.
  pose proof (build_strict_Rep (events_of steps) [] (empty_room 1%N) _ (Rep_empty 1%N) Hb) as HR. simpl in HR.
  rewrite (Rep_decisions _ _ probes HR). apply flat_map_ext. intros p. symmetry. apply probe_spec_decide.
Qed.

(* (b) the reload part of run_C10, outside classes 1 and 2 *)
Theorem reload_part_outside_known steps probes :
  all_accepted steps ->
  two_dates (entry_keys (events_of steps)) = false ->
  normalised (events_of steps) = true ->
  dec_opt (reload (concat steps)) probes = 1 :: decisions (fst (live steps)) probes.
Proof.
  unfold all_accepted, live, events_of. intros H Ht Hn.
  pose proof (build_from_all_ok _ _ H) as Hb.
  destruct (reload_outside_known (concat steps) _ Hb Ht Hn) as (r & Hr & Hd).
  rewrite Hr. simpl. rewrite Hd. reflexivity.
Qed.

(* (c) restart: the start of an instance on its own data succeeds exactly outside class 1 *)
Lemma reload_succeeds evs :
  two_dates (entry_keys (map snd evs)) = false -> exists r, reload evs = Some r.
Proof.
  intros Ht. unfold reload.
  assert (Ha : forall gs, exists aus, reload_auths evs gs = Some aus).
  { induction gs as [|g tl [aus IH]]; simpl; [eauto|]. rewrite (reload_auth_one_date evs g Ht), IH. eauto. }
  destruct (Ha (groups (map snd evs))) as [aus ->].
  rewrite replay_users_one_date by (rewrite hist_admins_eq; apply no_class1_admins; exact Ht). eauto.
Qed.
Theorem restart_iff evs :
  groups_known (map snd evs) ->
  ((exists r, reload evs = Some r) <-> two_dates (entry_keys (map snd evs)) = false).
Proof.
  intros Hg. split.
  - intros [r Hr]. destruct (two_dates (entry_keys (map snd evs))) eqn:Ht; [|reflexivity].
    rewrite (class1_reload_fails evs Hg Ht) in Hr. discriminate.
  - apply reload_succeeds.
Qed.

(* ------------------------------------------------------------------ closed witnesses (replayed by the harness as directed cases) *)
Definition w_probes : list probe := [(1%N, 1%N, 20000); (2%N, 1%N, 6000); (2%N, 1%N, 20000); (3%N, 1%N, 20000)].
(* class 1: a user enabled, later disabled *)
Definition w1 : c10case :=
  CRestart 1%N [[(100, EvAdmin 1 5000 true); (0, EvGroup 10); (101, EvRight 10 0 5000 true false); (102, EvUser 10 2 5000 true)];
                [(103, EvUser 10 2 8000 false)]]%N w_probes.
Definition w1h : c10case :=
  CHist 1%N [[(100, EvAdmin 1 5000 true); (0, EvGroup 10); (101, EvRight 10 0 5000 true false); (102, EvUser 10 2 5000 true)];
             [(103, EvUser 10 2 8000 false)]]%N w_probes.
(* class 2: a right with all rows but not own rows *)
Definition w2 : c10case :=
  CHist 1%N [[(100, EvAdmin 1 5000 true); (0, EvGroup 10); (101, EvRight 10 1 5000 false true); (102, EvUser 10 2 5000 true)]]%N w_probes.
(* class 3: enabled and disabled in the same millisecond, the later row has the smaller id *)
Definition w3 : c10case :=
  CHist 1%N [[(100, EvAdmin 1 5000 true); (0, EvGroup 10); (101, EvRight 10 0 5000 true false); (102, EvUser 10 2 5000 true)];
             [(104, EvUser 10 3 8000 true)]; [(103, EvUser 10 3 8000 false)]]%N w_probes.
(* class 4: a later step creates a group with a user in it *)
Definition w4 : c10case :=
  CHist 1%N [[(100, EvAdmin 1 5000 true); (0, EvGroup 10); (101, EvRight 10 0 5000 true false); (102, EvUser 10 2 5000 true)];
             [(0, EvGroup 11); (103, EvRight 11 1 8000 true true); (104, EvUser 11 3 8000 true)]]%N w_probes.
(* no class: one entry per key, several steps, a second group without users *)
Definition w0 : c10case :=
  CHist 1%N [[(100, EvAdmin 1 5000 true); (0, EvGroup 10); (101, EvRight 10 0 5000 true false); (102, EvUser 10 2 5000 true)];
             [(103, EvUser 10 3 8000 true); (104, EvUAdmin 10 2 8000 true)];
             [(0, EvGroup 11); (105, EvRight 11 1 9000 true true)]; [(106, EvUser 11 3 9500 true)]]%N w_probes.

Lemma refuted_1 : known_C10 w1 = [1] /\ spec_C10 w1 (run_C10 w1) = false /\
                  known_C10 w1h = [1] /\ spec_C10 w1h (run_C10 w1h) = false.
Proof. vm_compute. auto. Qed.
Lemma refuted_2 : known_C10 w2 = [2] /\ spec_C10 w2 (run_C10 w2) = false.
Proof. vm_compute. auto. Qed.
Lemma refuted_3 : known_C10 w3 = [3] /\ spec_C10 w3 (run_C10 w3) = false.
Proof. vm_compute. auto. Qed.
Lemma refuted_4 : known_C10 w4 = [4] /\ spec_C10 w4 (run_C10 w4) = false.
Proof. vm_compute. auto. Qed.
Lemma nonvacuous_0 :
  known_C10 w0 = [] /\ spec_C10 w0 (run_C10 w0) = true /\
  all_accepted (case_steps w0) /\ two_dates (entry_keys (events_of (case_steps w0))) = false /\
  normalised (events_of (case_steps w0)) = true.
Proof. vm_compute. auto. Qed.
