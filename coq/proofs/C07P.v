(* C07P.v — proofs for C07 about model/RoomNode.v (prepare_room_with_history, prepare_new_room):
   A. an accepted update keeps every stored entry and reference, in its place, unchanged;
   B. the administrator entries an accepted update adds justify one another in date order from the
      history the peer holds; entries added to the groups it holds are authored by administrators
      (users: or by a user admin of the group);
   C. an accepted never-seen room: every entry's author is an administrator of the parsed history at
      the entry's date, and the room decides what its rows grant;
   D. closed witnesses of the three open known-finding classes and of the repaired one.
   State of /repo: after 83dc3ea (oldest-first export), 85b1827 (prepare_new_auth), cd32c02 (check_placed). *)
From Coq Require Import Permutation.
From DV Require Import RightsSpec RightsP RoomNode RoomNodeP Run_C07.

(* ------------------------------------------------------------------ equality tests *)
Lemma unode_eqb_eq a b : unode_eqb a b = true -> a = b.
Proof.
  unfold unode_eqb. rewrite !andb_true_iff. intros (((((H1 & H2) & H3) & H4) & H5) & H6).
  apply N.eqb_eq in H1, H3, H4. apply Z.eqb_eq in H2, H6. apply Bool.eqb_prop in H5.
  destruct a, b; simpl in *; subst; reflexivity.
Qed.
Lemma rnode_eqb_eq a b : rnode_eqb a b = true -> a = b.
Proof.
  unfold rnode_eqb. rewrite !andb_true_iff. intros ((((((H1 & H2) & H3) & H4) & H5) & H6) & H7).
  apply N.eqb_eq in H1, H3, H4. apply Z.eqb_eq in H2, H7. apply Bool.eqb_prop in H5, H6.
  destruct a, b; simpl in *; subst; reflexivity.
Qed.
Lemma edge_eqb_eq a b : edge_eqb a b = true -> a = b.
Proof.
  unfold edge_eqb. rewrite !andb_true_iff. intros ((((H1 & H2) & H3) & H4) & H5).
  apply N.eqb_eq in H1, H2, H3, H5. apply Z.eqb_eq in H4.
  destruct a, b; simpl in *; subst; reflexivity.
Qed.

(* ------------------------------------------------------------------ A. merging keeps everything *)
Lemma merge_edges_incl old : forall new,
  incl new (merge_edges old new) /\ incl old (merge_edges old new).
Proof.
  unfold merge_edges. induction old as [|o tl IH]; simpl; intros new.
  - split; [apply incl_refl|intros x []].
  - destruct (existsb (edge_eqb o) new) eqn:He.
    + destruct (IH new) as [I1 I2]. split; [exact I1|].
      intros x [<-|Hx]; [|apply I2; exact Hx].
      apply existsb_exists in He. destruct He as (e & Hin & Heq). apply edge_eqb_eq in Heq. subst e. apply I1. exact Hin.
    + destruct (IH (new ++ [o])) as [I1 I2]. split.
      * intros x Hx. apply I1. apply in_or_app. left. exact Hx.
      * intros x [<-|Hx]; [apply I1; apply in_or_app; right; left; reflexivity|apply I2; exact Hx].
Qed.

Lemma merge_unodes_incl site old : forall new res,
  merge_unodes site old new = POk res -> incl new res /\ incl old res.
Proof.
  induction old as [|o tl IH]; simpl; intros new res H.
  - inversion H; subst. split; [apply incl_refl|intros x []].
  - destruct (find (fun u => N.eqb (un_id u) (un_id o)) new) as [u|] eqn:Hf.
    + destruct (unode_eqb u o) eqn:He; [|discriminate].
      apply unode_eqb_eq in He. subst u. apply find_some in Hf. destruct Hf as [Hin _].
      destruct (IH new res H) as [I1 I2]. split; [exact I1|].
      intros x [<-|Hx]; [apply I1; exact Hin|apply I2; exact Hx].
    + destruct (IH (new ++ [o]) res H) as [I1 I2]. split.
      * intros x Hx. apply I1. apply in_or_app. left. exact Hx.
      * intros x [<-|Hx]; [apply I1; apply in_or_app; right; left; reflexivity|apply I2; exact Hx].
Qed.
Lemma merge_rnodes_incl site old : forall new res,
  merge_rnodes site old new = POk res -> incl new res /\ incl old res.
Proof.
  induction old as [|o tl IH]; simpl; intros new res H.
  - inversion H; subst. split; [apply incl_refl|intros x []].
  - destruct (find (fun u => N.eqb (rn_id u) (rn_id o)) new) as [u|] eqn:Hf.
    + destruct (rnode_eqb u o) eqn:He; [|discriminate].
      apply rnode_eqb_eq in He. subst u. apply find_some in Hf. destruct Hf as [Hin _].
      destruct (IH new res H) as [I1 I2]. split; [exact I1|].
      intros x [<-|Hx]; [apply I1; exact Hin|apply I2; exact Hx].
    + destruct (IH (new ++ [o]) res H) as [I1 I2]. split.
      * intros x Hx. apply I1. apply in_or_app. left. exact Hx.
      * intros x [<-|Hx]; [apply I1; apply in_or_app; right; left; reflexivity|apply I2; exact Hx].
Qed.

Lemma incl_sort {A} (f : A -> Z) l l' : incl l l' -> incl l (sort_by f l').
Proof. intros H x Hx. apply sort_by_in. apply H. exact Hx. Qed.

(* all lists of a group row are contained in those of another *)
Definition auth_incl (a b : anode) : Prop :=
  incl (an_redges a) (an_redges b) /\ incl (an_rnodes a) (an_rnodes b) /\
  incl (an_uedges a) (an_uedges b) /\ incl (an_unodes a) (an_unodes b) /\
  incl (an_aedges a) (an_aedges b) /\ incl (an_anodes a) (an_anodes b).
Lemma auth_incl_refl a : auth_incl a a.
Proof. repeat split; apply incl_refl. Qed.
Lemma auth_incl_trans a b c : auth_incl a b -> auth_incl b c -> auth_incl a c.
Proof.
  intros (A1 & A2 & A3 & A4 & A5 & A6) (B1 & B2 & B3 & B4 & B5 & B6).
  repeat split; eapply incl_tran; eauto.
Qed.

Lemma prepare_auth_incl r old new b res :
  prepare_auth_with_history r old new = POk (b, res) ->
  an_id res = an_id new /\ auth_incl old res /\ auth_incl new res.
Proof.
  unfold prepare_auth_with_history, pbind. intros H.
  destruct (find_auth r (an_id old)) as [a0|]; [|discriminate].
  destruct (merge_unodes 40 (an_anodes old) (an_anodes new)) as [an0|] eqn:M1; [|discriminate].
  destruct (check_new_uadmins r a0 (an_anodes old) (sort_by un_date an0)) as [p1|]; [|discriminate].
  destruct (merge_unodes 42 (an_unodes old) (an_unodes new)) as [un0|] eqn:M2; [|discriminate].
  destruct (check_new_users r (fst p1) (an_unodes old) (sort_by un_date un0)) as [b2|]; [|discriminate].
  destruct (merge_rnodes 44 (an_rnodes old) (an_rnodes new)) as [rn0|] eqn:M3; [|discriminate].
  destruct (check_new_rights r (an_rnodes old) (sort_by rn_date rn0)) as [b3|]; [|discriminate].
  inversion H; subst res; clear H. simpl.
  destruct (merge_unodes_incl _ _ _ _ M1) as [N1 O1]. destruct (merge_unodes_incl _ _ _ _ M2) as [N2 O2].
  destruct (merge_rnodes_incl _ _ _ _ M3) as [N3 O3].
  destruct (merge_edges_incl (an_aedges old) (an_aedges new)) as [EN1 EO1].
  destruct (merge_edges_incl (an_uedges old) (an_uedges new)) as [EN2 EO2].
  destruct (merge_edges_incl (an_redges old) (an_redges new)) as [EN3 EO3].
  split; [reflexivity|]. split; unfold auth_incl; simpl; repeat split; apply incl_sort; assumption.
Qed.

Lemma merge_one_auth_incl r o a b a' :
  merge_one_auth r o a = POk (b, a') -> an_id a = an_id o ->
  an_id a' = an_id o /\ auth_incl o a' /\ auth_incl a a'.
Proof.
  unfold merge_one_auth, pbind. intros H Hid.
  destruct (Z.ltb (an_date o) (an_date a)).
  - destruct (negb (is_admin r (an_author a) (an_date a))); [discriminate|].
    destruct (prepare_auth_with_history r o a) as [[b0 x]|] eqn:Hp; [|discriminate].
    inversion H; subst; clear H. simpl.
    destruct (prepare_auth_incl _ _ _ _ _ Hp) as (I0 & I1 & I2). rewrite I0. auto.
  - destruct (prepare_auth_incl _ _ _ _ _ H) as (I0 & I1 & I2). simpl in I0. split; [exact I0|]. split; [exact I1|].
    exact I2.
Qed.

(* a stored group is present in the merged list, with everything it had *)
Definition has_group (o : anode) (l : list anode) : Prop :=
  exists g, In g l /\ an_id g = an_id o /\ auth_incl o g.

Lemma update_first_spec id f l x :
  update_first id f l = Some x ->
  exists pre a post, l = pre ++ a :: post /\ an_id a = id /\
    x = match f a with POk p => POk (fst p, pre ++ snd p :: post) | PErr e => PErr e end.
Proof.
  revert x. induction l as [|a tl IH]; simpl; intros x H; [discriminate|].
  destruct (N.eqb (an_id a) id) eqn:He.
  - apply N.eqb_eq in He. inversion H; subst x; clear H. exists [], a, tl. split; [reflexivity|]. split; [exact He|].
    unfold pbind. destruct (f a); reflexivity.
  - destruct (update_first id f tl) as [y|] eqn:Hu; [|discriminate].
    inversion H; subst x; clear H. destruct (IH y eq_refl) as (pre & a0 & post & -> & Hid & ->).
    exists (a :: pre), a0, post. split; [reflexivity|]. split; [exact Hid|].
    unfold pbind. destruct (f a0); reflexivity.
Qed.
Lemma update_first_none id f l : update_first id f l = None -> forall a, In a l -> an_id a <> id.
Proof.
  induction l as [|a tl IH]; simpl; intros H x Hx; [contradiction|].
  destruct (N.eqb (an_id a) id) eqn:He; [discriminate|].
  destruct (update_first id f tl) eqn:Hu; [discriminate|].
  destruct Hx as [<-|Hx]; [apply N.eqb_neq; exact He|apply IH; auto].
Qed.

Lemma has_group_after (g0 : anode) pre a a' post :
  an_id a' = an_id a -> auth_incl a a' ->
  has_group g0 (pre ++ a :: post) -> has_group g0 (pre ++ a' :: post).
Proof.
  intros Hid Hinc (g & Hin & Hg & Hi).
  apply in_app_or in Hin. destruct Hin as [Hin|[<-|Hin]].
  - exists g. split; [apply in_or_app; left; exact Hin|auto].
  - exists a'. split; [apply in_or_app; right; left; reflexivity|]. split; [congruence|eapply auth_incl_trans; eauto].
  - exists g. split; [apply in_or_app; right; right; exact Hin|auto].
Qed.

Lemma merge_auths_keeps r old : forall new b res,
  merge_auths r old new = POk (b, res) ->
  (forall g0, has_group g0 new -> has_group g0 res) /\ (forall o, In o old -> has_group o res).
Proof.
  induction old as [|o tl IH]; simpl; intros new b res H.
  - inversion H; subst. split; [auto|intros o []].
  - destruct (update_first (an_id o) (merge_one_auth r o) new) as [x|] eqn:Hu.
    + destruct (update_first_spec _ _ _ _ Hu) as (pre & a & post & -> & Hid & ->).
      unfold pbind in H. destruct (merge_one_auth r o a) as [[b1 a']|] eqn:Hm; [|discriminate].
      simpl in H. destruct (merge_auths r tl (pre ++ a' :: post)) as [[b2 res2]|] eqn:Hr; [|discriminate].
      inversion H; subst; clear H.
      destruct (merge_one_auth_incl _ _ _ _ _ Hm Hid) as (J0 & J1 & J2).
      destruct (IH _ _ _ Hr) as [K1 K2]. split.
      * intros g0 Hg0. apply K1. eapply has_group_after; [| |exact Hg0]; [congruence|exact J2].
      * intros x [<-|Hx]; [|apply K2; exact Hx].
        apply K1. exists a'. split; [apply in_or_app; right; left; reflexivity|auto].
    + destruct (IH _ _ _ H) as [K1 K2]. split.
      * intros g0 (g & Hin & Hg). apply K1. exists g. split; [apply in_or_app; left; exact Hin|exact Hg].
      * intros x [<-|Hx]; [|apply K2; exact Hx].
        apply K1. exists o. split; [apply in_or_app; right; left; reflexivity|]. split; [reflexivity|apply auth_incl_refl].
Qed.

(* the shape of an accepted update *)
Definition node_incl (old res : roomnode) : Prop :=
  incl (rmn_aedges old) (rmn_aedges res) /\ incl (rmn_anodes old) (rmn_anodes res) /\
  incl (rmn_gedges old) (rmn_gedges res) /\ forall o, In o (rmn_gnodes old) -> has_group o (rmn_gnodes res).

Theorem update_keeps_stored r old cand b res :
  prepare_room_with_history r old cand = POk (b, res) -> node_incl old res.
Proof.
  unfold prepare_room_with_history, pbind. intros H.
  destruct (merge_unodes 50 (rmn_anodes old) (rmn_anodes cand)) as [an0|] eqn:M1; [|discriminate].
  destruct (check_new_admins r (rmn_anodes old) (sort_by un_date an0)) as [p1|]; [|discriminate].
  destruct (merge_auths (fst p1) (rmn_gnodes old) (rmn_gnodes cand)) as [[b2 gs]|] eqn:M2; [|discriminate].
  simpl in H. destruct (check_new_auths (fst p1) (rmn_gnodes old) gs) as [b3|]; [|discriminate].
  match type of H with context [parse_room ?n] => destruct (parse_room n) end; [|discriminate].
  inversion H; subst res; clear H. unfold node_incl. simpl.
  destruct (merge_unodes_incl _ _ _ _ M1) as [_ O1].
  destruct (merge_edges_incl (rmn_aedges old) (rmn_aedges cand)) as [_ E1].
  destruct (merge_edges_incl (rmn_gedges old) (rmn_gedges cand)) as [_ E2].
  destruct (merge_auths_keeps _ _ _ _ _ M2) as [_ K].
  repeat split; [apply incl_sort; exact E1|apply incl_sort; exact O1|exact E2|exact K].
Qed.

(* ... and what that means for the oracle's first conjunct *)
Lemma sent_eqb_refl x : sent_eqb x x = true.
Proof. unfold sent_eqb. rewrite !Z.eqb_refl. reflexivity. Qed.
Lemma sedge_eqb_refl x : sedge_eqb x x = true.
Proof. unfold sedge_eqb. rewrite !Z.eqb_refl. reflexivity. Qed.
Lemma same_place_refl x : same_place x x = true.
Proof. unfold same_place. rewrite !Z.eqb_refl. reflexivity. Qed.

Lemma in_sents_of_auth o g x :
  an_id g = an_id o -> auth_incl o g -> In x (sents_of_auth o) ->
  (s_kind x = 5 /\ same_place x (sent_g g) = true) \/ (s_kind x <> 5 /\ In x (sents_of_auth g)).
Proof.
  intros Hid (I1 & I2 & I3 & I4 & I5 & I6) Hx. unfold sents_of_auth in *. simpl in Hx.
  destruct Hx as [<-|Hx].
  - left. split; [reflexivity|]. unfold same_place, sent_g. simpl. rewrite Hid, !Z.eqb_refl. reflexivity.
  - right. rewrite !in_app_iff in Hx. rewrite Hid. destruct Hx as [Hx|[Hx|Hx]]; apply in_map_iff in Hx; destruct Hx as (n & <- & Hn).
    + split; [simpl; discriminate|]. right. rewrite !in_app_iff. left. apply in_map. apply I4. exact Hn.
    + split; [simpl; discriminate|]. right. rewrite !in_app_iff. right. left. apply in_map. apply I6. exact Hn.
    + split; [simpl; discriminate|]. right. rewrite !in_app_iff. right. right. apply in_map. apply I2. exact Hn.
Qed.

Theorem node_incl_monotone old res :
  node_incl old res -> monotone (sents_of old) (sents_of res) (sedges_of old) (sedges_of res) = true.
Proof.
  intros (I1 & I2 & I3 & I4). unfold monotone. apply andb_true_iff. split; apply forallb_forall.
  - intros x Hx. unfold sents_of in Hx. apply in_app_or in Hx. destruct Hx as [Hx|Hx].
    + apply in_map_iff in Hx. destruct Hx as (n & <- & Hn). simpl.
      apply existsb_exists. exists (sent_u 1 0%N n). split; [|apply sent_eqb_refl].
      unfold sents_of. apply in_or_app. left. apply in_map. apply I2. exact Hn.
    + apply in_flat_map in Hx. destruct Hx as (o & Ho & Hx).
      destruct (I4 o Ho) as (g & Hg & Hid & Hinc).
      destruct (in_sents_of_auth o g x Hid Hinc Hx) as [[Hk Hp]|[Hk Hin]].
      * rewrite Hk. simpl. apply existsb_exists. exists (sent_g g). split; [|exact Hp].
        unfold sents_of. apply in_or_app. right. apply in_flat_map. exists g. split; [exact Hg|left; reflexivity].
      * destruct (Z.eqb (s_kind x) 5) eqn:He; [apply Z.eqb_eq in He; contradiction|].
        apply existsb_exists. exists x. split; [|apply sent_eqb_refl].
        unfold sents_of. apply in_or_app. right. apply in_flat_map. exists g. auto.
  - intros e He. apply existsb_exists. exists e. split; [|apply sedge_eqb_refl].
    unfold sedges_of in *. rewrite !in_app_iff in *. destruct He as [He|[He|He]].
    + left. apply in_map_iff in He. destruct He as (x & <- & Hx). apply in_map. apply I1. exact Hx.
    + right. left. apply in_map_iff in He. destruct He as (x & <- & Hx). apply in_map. apply I3. exact Hx.
    + right. right. apply in_flat_map in He. destruct He as (o & Ho & He).
      destruct (I4 o Ho) as (g & Hg & Hid & (J1 & J2 & J3 & J4 & J5 & J6)).
      apply in_flat_map. exists g. split; [exact Hg|].
      unfold sedges_of_auth in *. rewrite !in_app_iff in *. rewrite Hid.
      destruct He as [He|[He|He]]; apply in_map_iff in He; destruct He as (x & <- & Hx).
      * left. apply in_map. apply J3. exact Hx.
      * right. left. apply in_map. apply J5. exact Hx.
      * right. right. apply in_map. apply J1. exact Hx.
Qed.

(* an accepted update never removes or alters a stored entry or reference *)
Theorem update_monotone r old cand b res :
  prepare_room_with_history r old cand = POk (b, res) ->
  monotone (sents_of old) (sents_of res) (sedges_of old) (sedges_of res) = true.
Proof. intros H. apply node_incl_monotone. eapply update_keeps_stored. exact H. Qed.

(* ------------------------------------------------------------------ B. what an accepted update may add *)
(* administrator entries with a new id, taken in the order of the merged (date-sorted) list, must each be
   authored by a key that the history so far makes administrator at the entry's date *)
Fixpoint justified_admins (evs : list event) (old : list unode) (l : list unode) : Prop :=
  match l with
  | [] => True
  | x :: tl =>
      if in_uold old x then justified_admins evs old tl
      else admin_at evs (un_author x) (un_date x) = true /\ justified_admins (evs ++ [ev_admin x]) old tl
  end.
Definition new_admin_events (old l : list unode) : list event :=
  map ev_admin (filter (fun x => negb (in_uold old x)) l).

Lemma check_new_admins_sound l : forall r evs old r' b,
  Rep evs r -> check_new_admins r old l = POk (r', b) ->
  justified_admins evs old l /\ Rep (evs ++ new_admin_events old l) r'.
Proof.
  unfold new_admin_events.
  induction l as [|x tl IH]; cbn [check_new_admins justified_admins filter map]; intros r evs old r' b HR H.
  - inversion H; subst. rewrite app_nil_r. auto.
  - destruct (in_uold old x) eqn:Ho; cbn [negb].
    + eapply IH; eauto.
    + destruct (is_admin r (un_author x) (un_date x)) eqn:Ha; [|discriminate].
      destruct (add_user (rm_admins r) (user_of x)) as [l'|] eqn:Hadd; [|discriminate].
      unfold pbind in H.
      destruct (check_new_admins {| rm_id := rm_id r; rm_admins := l'; rm_auths := rm_auths r |} old tl) as [p|] eqn:Hc; [|discriminate].
      inversion H; subst; clear H.
      assert (HR1 : Rep (evs ++ [ev_admin x]) {| rm_id := rm_id r; rm_admins := l'; rm_auths := rm_auths r |}).
      { apply (apply_event_Rep evs r (ev_admin x)); [exact HR|]. unfold ev_admin. cbn [apply_event].
        unfold user_of in Hadd. rewrite Hadd. reflexivity. }
      destruct p as [r2 b2]. destruct (IH _ _ _ _ _ HR1 Hc) as [J1 J2]. cbn [fst].
      split; [split; [rewrite <- (Rep_is_admin evs r _ _ HR); exact Ha|exact J1]|].
      cbn [map]. rewrite <- app_assoc in J2. exact J2.
Qed.

(* entries added to a group the peer holds *)
Definition new_u (old : list unode) (P : unode -> Prop) (l : list unode) : Prop :=
  Forall (fun x => in_uold old x = false -> P x) l.
Definition new_r (old : list rnode) (P : rnode -> Prop) (l : list rnode) : Prop :=
  Forall (fun x => in_rold old x = false -> P x) l.

Lemma check_new_uadmins_sound l : forall r a old a' b evs,
  Rep evs r -> check_new_uadmins r a old l = POk (a', b) ->
  new_u old (fun x => admin_at evs (un_author x) (un_date x) = true) l.
Proof.
  unfold new_u. induction l as [|x tl IH]; cbn [check_new_uadmins]; intros r a old a' b evs HR H; [constructor|].
  destruct (in_uold old x) eqn:Ho.
  - constructor; [intros X; cbv beta in X; congruence|eapply IH; eauto].
  - destruct (is_admin r (un_author x) (un_date x)) eqn:Ha; [|discriminate].
    destruct (add_user (a_uadmins a) (user_of x)) as [l'|]; [|discriminate].
    unfold pbind in H.
    match type of H with context [check_new_uadmins r ?a1 old tl] => destruct (check_new_uadmins r a1 old tl) as [p|] eqn:Hc; [|discriminate] end.
    destruct p as [a2 b2]. constructor; [intros _; rewrite <- (Rep_is_admin evs r _ _ HR); exact Ha|eapply IH; eauto].
Qed.
Lemma check_new_rights_sound l : forall r old b evs,
  Rep evs r -> check_new_rights r old l = POk b ->
  new_r old (fun x => admin_at evs (rn_author x) (rn_date x) = true) l.
Proof.
  unfold new_r. induction l as [|x tl IH]; cbn [check_new_rights]; intros r old b evs HR H; [constructor|].
  destruct (in_rold old x) eqn:Ho.
  - constructor; [intros X; cbv beta in X; congruence|eapply IH; eauto].
  - destruct (is_admin r (rn_author x) (rn_date x)) eqn:Ha; [|discriminate].
    unfold pbind in H. destruct (check_new_rights r old tl) as [b2|] eqn:Hc; [|discriminate].
    constructor; [intros _; rewrite <- (Rep_is_admin evs r _ _ HR); exact Ha|eapply IH; eauto].
Qed.
Lemma check_new_users_sound l : forall r a old b evs,
  Rep evs r -> check_new_users r a old l = POk b ->
  new_u old (fun x => can_admin_users a (un_author x) (un_date x) || admin_at evs (un_author x) (un_date x) = true) l.
Proof.
  unfold new_u. induction l as [|x tl IH]; cbn [check_new_users]; intros r a old b evs HR H; [constructor|].
  destruct (in_uold old x) eqn:Ho.
  - constructor; [intros X; cbv beta in X; congruence|eapply IH; eauto].
  - destruct (can_admin_users a (un_author x) (un_date x) || is_admin r (un_author x) (un_date x)) eqn:Ha; [|discriminate].
    unfold pbind in H. destruct (check_new_users r a old tl) as [b2|] eqn:Hc; [|discriminate].
    constructor; [intros _; rewrite <- (Rep_is_admin evs r _ _ HR); exact Ha|eapply IH; eauto].
Qed.

(* what prepare_auth_with_history guarantees about the group row it returns; [a0] is the group as
   the peer holds it in memory, [a1] the same extended by the accepted new user-admin entries *)
Definition group_entitled (evs : list event) (r : room) (o g : anode) : Prop :=
  new_u (an_anodes o) (fun x => admin_at evs (un_author x) (un_date x) = true) (an_anodes g) /\
  new_r (an_rnodes o) (fun x => admin_at evs (rn_author x) (rn_date x) = true) (an_rnodes g) /\
  exists a0 a1 b, find_auth r (an_id o) = Some a0 /\
    check_new_uadmins r a0 (an_anodes o) (an_anodes g) = POk (a1, b) /\
    new_u (an_unodes o) (fun x => can_admin_users a1 (un_author x) (un_date x) || admin_at evs (un_author x) (un_date x) = true) (an_unodes g).

Lemma prepare_auth_entitled evs r old new b res :
  Rep evs r -> prepare_auth_with_history r old new = POk (b, res) -> group_entitled evs r old res.
Proof.
  unfold prepare_auth_with_history, pbind. intros HR H.
  destruct (find_auth r (an_id old)) as [a0|] eqn:Hf; [|discriminate].
  destruct (merge_unodes 40 (an_anodes old) (an_anodes new)) as [an0|] eqn:M1; [|discriminate].
  destruct (check_new_uadmins r a0 (an_anodes old) (sort_by un_date an0)) as [[a1 b1]|] eqn:C1; [|discriminate].
  destruct (merge_unodes 42 (an_unodes old) (an_unodes new)) as [un0|] eqn:M2; [|discriminate].
  cbn [fst] in H.
  destruct (check_new_users r a1 (an_unodes old) (sort_by un_date un0)) as [b2|] eqn:C2; [|discriminate].
  destruct (merge_rnodes 44 (an_rnodes old) (an_rnodes new)) as [rn0|] eqn:M3; [|discriminate].
  destruct (check_new_rights r (an_rnodes old) (sort_by rn_date rn0)) as [b3|] eqn:C3; [|discriminate].
  inversion H; subst res; clear H. unfold group_entitled. cbn [an_anodes an_rnodes an_unodes an_id].
  split; [eapply check_new_uadmins_sound; eauto|]. split; [eapply check_new_rights_sound; eauto|].
  exists a0, a1, b1. split; [exact Hf|]. split; [exact C1|]. eapply check_new_users_sound; eauto.
Qed.

Lemma merge_one_auth_entitled evs r o a b a' :
  Rep evs r -> merge_one_auth r o a = POk (b, a') -> group_entitled evs r o a'.
Proof.
  unfold merge_one_auth, pbind. intros HR H.
  destruct (Z.ltb (an_date o) (an_date a)).
  - destruct (negb (is_admin r (an_author a) (an_date a))); [discriminate|].
    destruct (prepare_auth_with_history r o a) as [[b0 x]|] eqn:Hp; [|discriminate].
    inversion H; subst; clear H. eapply prepare_auth_entitled; eauto.
  - eapply prepare_auth_entitled; eauto.
Qed.

Definition has_entitled (evs : list event) (r : room) (o : anode) (l : list anode) : Prop :=
  exists g, In g l /\ an_id g = an_id o /\ group_entitled evs r o g.

Lemma merge_auths_entitled evs r old : forall new b res,
  Rep evs r -> NoDup (map an_id old) ->
  merge_auths r old new = POk (b, res) ->
  (forall o0, ~ In (an_id o0) (map an_id old) -> has_entitled evs r o0 new -> has_entitled evs r o0 res) /\
  (forall o, In o old -> find_auth r (an_id o) <> None -> has_entitled evs r o res).
Proof.
  induction old as [|o tl IH]; cbn [merge_auths map]; intros new b res HR Hnd H.
  - inversion H; subst. split; [auto|intros o []].
  - inversion Hnd as [|? ? Hnotin Hnd']; subst.
    destruct (update_first (an_id o) (merge_one_auth r o) new) as [x|] eqn:Hu.
    + destruct (update_first_spec _ _ _ _ Hu) as (pre & a & post & -> & Hid & ->).
      unfold pbind in H. destruct (merge_one_auth r o a) as [[b1 a']|] eqn:Hm; [|discriminate].
      cbn [fst snd] in H. destruct (merge_auths r tl (pre ++ a' :: post)) as [[b2 res2]|] eqn:Hr; [|discriminate].
      inversion H; subst; clear H.
      destruct (merge_one_auth_incl _ _ _ _ _ Hm Hid) as (J0 & _ & _).
      destruct (IH _ _ _ HR Hnd' Hr) as [K1 K2]. split.
      * intros o0 Hn0 (g & Hin & Hg & He). apply K1; [intros X; apply Hn0; right; exact X|].
        assert (g <> a). { intros ->. apply Hn0. left. congruence. }
        exists g. split; [|auto]. apply in_app_or in Hin. apply in_or_app.
        destruct Hin as [Hin|[Hin|Hin]]; [left; exact Hin|congruence|right; right; exact Hin].
      * intros x [<-|Hx] Hfa; [|apply K2; assumption].
        apply K1; [exact Hnotin|]. exists a'. split; [apply in_or_app; right; left; reflexivity|].
        split; [exact J0|eapply merge_one_auth_entitled; eauto].
    + destruct (IH _ _ _ HR Hnd' H) as [K1 K2]. split.
      * intros o0 Hn0 (g & Hin & Hg). apply K1; [intros X; apply Hn0; right; exact X|].
        exists g. split; [apply in_or_app; left; exact Hin|exact Hg].
      * intros x [<-|Hx] Hfa; [|apply K2; assumption].
        (* a stored group absent from the candidate is pushed back as it is: nothing new in it *)
        apply K1; [exact Hnotin|]. exists o. split; [apply in_or_app; right; left; reflexivity|]. split; [reflexivity|].
        unfold group_entitled, new_u, new_r.
        assert (Hnu : forall l : list unode, Forall (fun x => in_uold l x = false -> False) l).
        { intros l. apply Forall_forall. intros y Hy Hno. unfold in_uold in Hno.
          rewrite <- not_true_iff_false in Hno. apply Hno. apply existsb_exists. exists y. split; [exact Hy|apply N.eqb_refl]. }
        assert (Hrr : forall l : list rnode, Forall (fun x => in_rold l x = false -> False) l).
        { intros l. apply Forall_forall. intros y Hy Hno. unfold in_rold in Hno.
          rewrite <- not_true_iff_false in Hno. apply Hno. apply existsb_exists. exists y. split; [exact Hy|apply N.eqb_refl]. }
        split; [eapply Forall_impl; [|apply Hnu]; cbv beta; intros ? F X; destruct (F X)|].
        split; [eapply Forall_impl; [|apply Hrr]; cbv beta; intros ? F X; destruct (F X)|].
        destruct (find_auth r (an_id o)) as [a0|] eqn:Hf0; [|contradiction].
        assert (Hsame : forall l a, check_new_uadmins r a l l = POk (a, false)).
        { intros l a. assert (G : forall l2, incl l2 l -> check_new_uadmins r a l l2 = POk (a, false)).
          { induction l2 as [|y t IHt]; intros Hi; cbn [check_new_uadmins]; [reflexivity|].
            assert (in_uold l y = true) as ->.
            { apply existsb_exists. exists y. split; [apply Hi; left; reflexivity|apply N.eqb_refl]. }
            apply IHt. intros z Hz. apply Hi. right. exact Hz. }
          apply G. apply incl_refl. }
        exists a0, a0, false. split; [reflexivity|]. split; [apply Hsame|].
        eapply Forall_impl; [|apply Hnu]; cbv beta; intros ? F X; destruct (F X).
Qed.

(* rights of a group that is new to the peer *)
Lemma all_admin_rights_sound evs r l :
  Rep evs r -> all_admin_rights r l = true -> Forall (fun x => admin_at evs (rn_author x) (rn_date x) = true) l.
Proof.
  intros HR. induction l as [|x tl IH]; cbn [all_admin_rights]; intros H; [constructor|].
  apply andb_true_iff in H. destruct H as [Ha Ht]. constructor; [rewrite <- (Rep_is_admin evs r _ _ HR); exact Ha|auto].
Qed.
Lemma all_uadmin_or_admin_sound evs r a l :
  Rep evs r -> all_uadmin_or_admin_users r a l = true ->
  Forall (fun x => can_admin_users a (un_author x) (un_date x) || admin_at evs (un_author x) (un_date x) = true) l.
Proof.
  intros HR. induction l as [|x tl IH]; cbn [all_uadmin_or_admin_users]; intros H; [constructor|].
  apply andb_true_iff in H. destruct H as [Ha Ht]. constructor; [rewrite <- (Rep_is_admin evs r _ _ HR); exact Ha|auto].
Qed.
Lemma all_admin_users_sound evs r l :
  Rep evs r -> all_admin_users r l = true -> Forall (fun x => admin_at evs (un_author x) (un_date x) = true) l.
Proof.
  intros HR. induction l as [|x tl IH]; cbn [all_admin_users]; intros H; [constructor|].
  apply andb_true_iff in H. destruct H as [Ha Ht]. constructor; [rewrite <- (Rep_is_admin evs r _ _ HR); exact Ha|auto].
Qed.

(* a group that is new to the peer (as of 85b1827): the row, its rights and its user-admin entries by
   administrators, its users by a user admin of the group (as the group itself defines them) or an
   administrator *)
Definition new_group_entitled_upd (evs : list event) (g : anode) : Prop :=
  admin_at evs (an_author g) (an_date g) = true /\
  Forall (fun x => admin_at evs (rn_author x) (rn_date x) = true) (an_rnodes g) /\
  Forall (fun x => admin_at evs (un_author x) (un_date x) = true) (an_anodes g) /\
  exists a, parse_auth g = POk a /\
    Forall (fun x => can_admin_users a (un_author x) (un_date x) || admin_at evs (un_author x) (un_date x) = true) (an_unodes g).

Lemma check_new_auths_sound evs r old l b :
  Rep evs r -> check_new_auths r old l = POk b ->
  Forall (fun g => existsb (fun o => N.eqb (an_id o) (an_id g)) old = false -> new_group_entitled_upd evs g) l.
Proof.
  intros HR. revert b. induction l as [|g tl IH]; cbn [check_new_auths]; intros b H; [constructor|].
  destruct (existsb (fun o => N.eqb (an_id o) (an_id g)) old) eqn:Ho.
  - constructor; [intros X; cbv beta in X; congruence|eapply IH; eauto].
  - destruct (is_admin r (an_author g) (an_date g)) eqn:Ha; [|discriminate].
    unfold pbind in H. destruct (prepare_new_auth r g) as [[]|] eqn:Hp; [|discriminate].
    destruct (check_new_auths r old tl) as [b2|] eqn:Hc; [|discriminate].
    constructor; [|eapply IH; eauto]. intros _. unfold new_group_entitled_upd.
    split; [rewrite <- (Rep_is_admin evs r _ _ HR); exact Ha|].
    unfold prepare_new_auth, pbind in Hp. destruct (parse_auth g) as [a|]; [|discriminate].
    destruct (negb (all_admin_users r (an_anodes g))) eqn:H1; [discriminate|].
    destruct (negb (all_uadmin_or_admin_users r a (an_unodes g))) eqn:H2; [discriminate|].
    destruct (negb (all_admin_rights r (an_rnodes g))) eqn:H3; [discriminate|].
    apply negb_false_iff in H1, H2, H3.
    split; [eapply all_admin_rights_sound; eauto|]. split; [eapply all_admin_users_sound; eauto|].
    exists a. split; [reflexivity|eapply all_uadmin_or_admin_sound; eauto].
Qed.

(* THE entitlement theorem of the update path (for every room held, every candidate):
   [evs] is the history the room in memory represents *)
Theorem update_entitled evs r old cand b res :
  Rep evs r -> NoDup (map an_id (rmn_gnodes old)) ->
  prepare_room_with_history r old cand = POk (b, res) ->
  let evs1 := evs ++ new_admin_events (rmn_anodes old) (rmn_anodes res) in
  (* administrators: justified one after the other, in date order *)
  justified_admins evs (rmn_anodes old) (rmn_anodes res) /\
  (* groups the peer holds: new user-admin and right entries by administrators, new user entries by a
     user admin of the group or an administrator *)
  (exists r1, Rep evs1 r1 /\
     forall o, In o (rmn_gnodes old) -> find_auth r1 (an_id o) <> None -> has_entitled evs1 r1 o (rmn_gnodes res)) /\
  (* groups new to the peer: row, rights and user-admin entries by administrators, users by a user
     admin of the group or an administrator *)
  Forall (fun g => existsb (fun o => N.eqb (an_id o) (an_id g)) (rmn_gnodes old) = false ->
                   new_group_entitled_upd evs1 g) (rmn_gnodes res) /\
  (* and the room that results decides exactly what the rows kept grant *)
  exists r', parse_room res = POk r' /\ forall probes, decisions r' probes = flat_map (decide_spec (evs_of_node res)) probes.
Proof.
  unfold prepare_room_with_history, pbind. intros HR Hnd H.
  destruct (merge_unodes 50 (rmn_anodes old) (rmn_anodes cand)) as [an0|] eqn:M1; [|discriminate].
  destruct (check_new_admins r (rmn_anodes old) (sort_by un_date an0)) as [[r1 b1]|] eqn:C1; [|discriminate].
  cbn [fst snd] in H.
  destruct (merge_auths r1 (rmn_gnodes old) (rmn_gnodes cand)) as [[b2 gs]|] eqn:M2; [|discriminate].
  cbn [fst snd] in H. destruct (check_new_auths r1 (rmn_gnodes old) gs) as [b3|] eqn:C3; [|discriminate].
  match type of H with context [parse_room ?n] => destruct (parse_room n) as [r'|] eqn:Hp end; [|discriminate].
  inversion H; subst res; clear H. cbn [rmn_anodes rmn_gnodes].
  destruct (check_new_admins_sound _ _ _ _ _ _ HR C1) as [J1 HR1].
  split; [exact J1|]. split; [|split].
  - exists r1. split; [exact HR1|]. intros o Ho Hf.
    destruct (merge_auths_entitled _ _ _ _ _ _ HR1 Hnd M2) as [_ K]. apply K; assumption.
  - eapply check_new_auths_sound; eauto.
  - exists r'. split; [exact Hp|]. intros probes. apply parse_room_decisions. exact Hp.
Qed.

(* ------------------------------------------------------------------ C. a room never seen before *)
Definition new_group_entitled (evs : list event) (g : anode) : Prop :=
  admin_at evs (an_author g) (an_date g) = true /\
  Forall (fun x => admin_at evs (un_author x) (un_date x) = true) (an_unodes g) /\
  Forall (fun x => admin_at evs (rn_author x) (rn_date x) = true) (an_rnodes g) /\
  Forall (fun x => admin_at evs (un_author x) (un_date x) = true) (an_anodes g).

Lemma check_new_room_auths_sound evs r l :
  Rep evs r -> check_new_room_auths r l = POk tt -> Forall (new_group_entitled evs) l.
Proof.
  intros HR. induction l as [|g tl IH]; cbn [check_new_room_auths]; intros H; [constructor|].
  destruct (is_admin r (an_author g) (an_date g)) eqn:Ha; [|discriminate].
  destruct (negb (all_admin_users r (an_unodes g))) eqn:H1; [discriminate|].
  destruct (negb (all_admin_rights r (an_rnodes g))) eqn:H2; [discriminate|].
  destruct (negb (all_admin_users r (an_anodes g))) eqn:H3; [discriminate|].
  apply negb_false_iff in H1, H2, H3. constructor; [|auto].
  split; [rewrite <- (Rep_is_admin evs r _ _ HR); exact Ha|].
  split; [eapply all_admin_users_sound; eauto|]. split; [eapply all_admin_rights_sound; eauto|eapply all_admin_users_sound; eauto].
Qed.

(* an accepted never-seen room: the room is the strict replay of its rows, every row's author is an
   administrator of THAT history at the row's date, and the room decides what the rows grant.  What
   is missing for the property (known classes 2 and 1): the administrator entries are judged against
   the whole parsed history, themselves included, and the references are not looked at. *)
Theorem new_room_entitled n :
  prepare_new_room n = POk tt ->
  exists r, parse_room n = POk r /\ Rep (evs_of_node n) r /\
    Forall (fun x => admin_at (evs_of_node n) (un_author x) (un_date x) = true) (rmn_anodes n) /\
    Forall (new_group_entitled (evs_of_node n)) (rmn_gnodes n) /\
    forall probes, decisions r probes = flat_map (decide_spec (evs_of_node n)) probes.
Proof.
  unfold prepare_new_room, pbind. intros H.
  destruct (parse_room n) as [r|] eqn:Hp; [|discriminate].
  destruct (negb (all_admin_users r (rmn_anodes n))) eqn:H1; [discriminate|].
  apply negb_false_iff in H1. pose proof (parse_room_Rep n r Hp) as HR.
  exists r. split; [reflexivity|]. split; [exact HR|].
  split; [eapply all_admin_users_sound; eauto|]. split; [eapply check_new_room_auths_sound; eauto|].
  intros probes. apply parse_room_decisions. exact Hp.
Qed.

(* ------------------------------------------------------------------ C'. what check_placed (cd32c02) guarantees *)
Definition referenced (es : list edge) (label : N) (ids : list uid) : Prop :=
  forall i, In i ids -> exists e, In e es /\ e_dest e = i /\ e_label e = label.

Lemma check_placed_from_sound es label ids : forall seen,
  check_placed_from seen es label ids = POk tt ->
  NoDup ids /\ (forall i, In i ids -> ~ In i seen) /\ referenced es label ids.
Proof.
  induction ids as [|i tl IH]; cbn [check_placed_from]; intros seen H.
  - split; [constructor|]. split; [intros ? []|intros ? []].
  - destruct (existsb (N.eqb i) seen) eqn:Hs; [discriminate|].
    destruct (negb (existsb (fun e => N.eqb (e_dest e) i && N.eqb (e_label e) label) es)) eqn:Hp; [discriminate|].
    apply negb_false_iff in Hp. apply existsb_exists in Hp. destruct Hp as (e & He & Hm).
    apply andb_true_iff in Hm. destruct Hm as [Hd Hl]. apply N.eqb_eq in Hd, Hl.
    destruct (IH _ H) as (Hnd & Hns & Href).
    assert (Hi : ~ In i seen).
    { intros Hin. rewrite <- not_true_iff_false in Hs. apply Hs. apply existsb_exists. exists i. split; [exact Hin|apply N.eqb_refl]. }
    split; [constructor; [intros Hin; apply (Hns i Hin); left; reflexivity|exact Hnd]|].
    split.
    + intros j [<-|Hj]; [exact Hi|]. intros Hin. apply (Hns j Hj). right. exact Hin.
    + intros j [<-|Hj]; [exists e; auto|apply Href; exact Hj].
Qed.
Lemma check_placed_sound es label ids :
  check_placed es label ids = POk tt -> NoDup ids /\ referenced es label ids.
Proof. intros H. destruct (check_placed_from_sound _ _ _ _ H) as (H1 & _ & H3). auto. Qed.

Definition auth_placed (a : anode) : Prop :=
  NoDup (map rn_id (an_rnodes a)) /\ referenced (an_redges a) L_RIGHTS (map rn_id (an_rnodes a)) /\
  NoDup (map un_id (an_unodes a)) /\ referenced (an_uedges a) L_USERS (map un_id (an_unodes a)) /\
  NoDup (map un_id (an_anodes a)) /\ referenced (an_aedges a) L_UADMIN (map un_id (an_anodes a)).

Lemma pres_unit (x : pres unit) : (exists e, x = PErr e) \/ x = POk tt.
Proof. destruct x as [[]|e]; [right; reflexivity|left; eauto]. Qed.

Lemma check_auth_placed a : check_auth a = POk tt -> auth_placed a.
Proof.
  unfold check_auth, pbind. intros H.
  destruct (negb (Nat.eqb (length (an_redges a)) (length (an_rnodes a)))); [discriminate|].
  destruct (check_edges (an_id a) 8 9 (map rn_id (an_rnodes a)) (an_redges a)); [|discriminate].
  destruct (negb (Nat.eqb (length (an_uedges a)) (length (an_unodes a)))); [discriminate|].
  destruct (check_edges (an_id a) 11 12 (map un_id (an_unodes a)) (an_uedges a)); [|discriminate].
  destruct (negb (Nat.eqb (length (an_aedges a)) (length (an_anodes a)))); [discriminate|].
  destruct (check_edges (an_id a) 8 9 (map un_id (an_anodes a)) (an_aedges a)); [|discriminate].
  destruct (check_placed (an_redges a) L_RIGHTS (map rn_id (an_rnodes a))) as [[]|] eqn:P1; [|discriminate].
  destruct (check_placed (an_uedges a) L_USERS (map un_id (an_unodes a))) as [[]|] eqn:P2; [|discriminate].
  destruct (check_placed_sound _ _ _ P1) as [A1 A2]. destruct (check_placed_sound _ _ _ P2) as [B1 B2].
  destruct (check_placed_sound _ _ _ H) as [C1 C2]. unfold auth_placed. auto 10.
Qed.

Lemma check_auth_edges_all cid gs es :
  check_auth_edges cid gs es = POk tt ->
  forall e, In e es -> exists a, find (fun a => N.eqb (an_id a) (e_dest e)) gs = Some a /\ check_auth a = POk tt.
Proof.
  induction es as [|e0 tl IH]; cbn [check_auth_edges]; intros H e He; [contradiction|].
  destruct (negb (N.eqb (e_src e0) cid)); [discriminate|].
  destruct (find (fun a => N.eqb (an_id a) (e_dest e0)) gs) as [a|] eqn:Hf; [|discriminate].
  unfold pbind in H. destruct (check_auth a) as [[]|] eqn:Hc; [|discriminate].
  destruct He as [<-|He]; [exists a; auto|apply IH; assumption].
Qed.

Lemma nodup_map_inj {A} (f : A -> N) l a b : NoDup (map f l) -> In a l -> In b l -> f a = f b -> a = b.
Proof.
  induction l as [|x tl IH]; simpl; intros Hnd Ha Hb Hf; [contradiction|].
  inversion Hnd as [|? ? Hx Ht]; subst.
  destruct Ha as [<-|Ha]; destruct Hb as [<-|Hb]; [reflexivity| | |apply IH; assumption].
  - exfalso. apply Hx. rewrite Hf. apply in_map. exact Hb.
  - exfalso. apply Hx. rewrite <- Hf. apply in_map. exact Ha.
Qed.

(* a candidate that passes check_consistency: in every list each id appears once and every row is the
   destination of a reference of that list under the list's field name - the former class 4 and the
   "no reference" / "reference of another field" variants of the former class 1 cannot be accepted *)
Theorem consistent_placed n :
  check_consistency n = POk tt ->
  NoDup (map un_id (rmn_anodes n)) /\ referenced (rmn_aedges n) L_ADMIN (map un_id (rmn_anodes n)) /\
  NoDup (map an_id (rmn_gnodes n)) /\ referenced (rmn_gedges n) L_AUTHS (map an_id (rmn_gnodes n)) /\
  forall g, In g (rmn_gnodes n) -> auth_placed g.
Proof.
  unfold check_consistency, pbind. intros H.
  destruct (negb (Nat.eqb (length (rmn_aedges n)) (length (rmn_anodes n)))); [discriminate|].
  destruct (check_edges (rmn_id n) 2 3 (map un_id (rmn_anodes n)) (rmn_aedges n)); [|discriminate].
  destruct (check_placed (rmn_aedges n) L_ADMIN (map un_id (rmn_anodes n))) as [[]|] eqn:P1; [|discriminate].
  destruct (negb (Nat.eqb (length (rmn_gedges n)) (length (rmn_gnodes n)))); [discriminate|].
  destruct (check_auth_edges (rmn_id n) (rmn_gnodes n) (rmn_gedges n)) as [[]|] eqn:P2; [|discriminate].
  destruct (check_placed_sound _ _ _ P1) as [A1 A2]. destruct (check_placed_sound _ _ _ H) as [B1 B2].
  split; [exact A1|]. split; [exact A2|]. split; [exact B1|]. split; [exact B2|].
  intros g Hg. destruct (B2 (an_id g) (in_map an_id _ _ Hg)) as (e & He & Hd & _).
  destruct (check_auth_edges_all _ _ _ P2 e He) as (a0 & Hf & Hc).
  apply find_some in Hf. destruct Hf as [Ha Hid]. apply N.eqb_eq in Hid.
  assert (a0 = g) as -> by (eapply nodup_map_inj; eauto; congruence).
  apply check_auth_placed. exact Hc.
Qed.

(* ------------------------------------------------------------------ D. closed witnesses (the harness replays them as directed cases) *)
Definition U_ (id date author k : Z) (b : bool) : unode := Build_unode (Z.to_N id) date (Z.to_N author) (Z.to_N k) b date.
Definition R_ (id date author e : Z) (s a : bool) : rnode := Build_rnode (Z.to_N id) date (Z.to_N author) (Z.to_N e) s a date.
Definition E_ (src label dest date author : Z) : edge := Build_edge (Z.to_N src) (Z.to_N label) (Z.to_N dest) date (Z.to_N author).
Definition G_ (id date author : Z) := Build_anode (Z.to_N id) date (Z.to_N author).
Definition RM_ (id cdate date author : Z) := Build_roomnode (Z.to_N id) cdate date (Z.to_N author).
Definition wp : list probe := [(1%N, 1%N, 6000); (3%N, 1%N, 6000); (3%N, 1%N, 1001); (4%N, 1%N, 6000); (5%N, 0%N, 6000)].
Definition w_admin := U_ 100 1000 1 1 true.
Definition w_user3 := U_ 102 1000 1 3 true.
Definition w_g10 (extra_u : list unode) (extra_ue : list edge) : anode :=
  G_ 10 1000 1 [E_ 10 33 101 1000 1] [R_ 101 1000 1 0 true false]
              (E_ 10 34 102 1000 1 :: extra_ue) (w_user3 :: extra_u) [] [].
(* the stored definition: key 1 administrator, group 10 with a wildcard own-rows right, key 3 a plain user *)
Definition w_base : roomnode :=
  RM_ 1 1000 1000 1 [E_ 1 32 100 1000 1] [w_admin] [E_ 1 33 10 1000 1] [w_g10 [] []].
(* honest later states: key 1 adds user 4 to group 10 / creates the empty group 11 *)
Definition w_later : roomnode :=
  RM_ 1 1000 1000 1 [E_ 1 32 100 1000 1] [w_admin] [E_ 1 33 10 1000 1]
                 [w_g10 [U_ 103 2000 1 4 true] [E_ 10 34 103 2000 1]].
Definition w_g11 (ua us : list unode) (uae use : list edge) : anode := G_ 11 2000 1 [] [] use us uae ua.
Definition w_later_g (g11 : anode) : roomnode :=
  RM_ 1 1000 2000 1 [E_ 1 32 100 1000 1] [w_admin]
                 [E_ 1 33 10 1000 1; E_ 1 33 11 2000 1] [w_g10 [] []; g11].

(* class 1: the admin-signed entry "key 3 is a user" re-placed into the administrator list, reference signed by key 3 *)
Definition wk1 : c07case :=
  CPrep (Some w_base)
        (RM_ 1 1000 1000 1 [E_ 1 32 100 1000 1; E_ 1 32 102 5000 3] [w_admin; w_user3]
                        [E_ 1 33 10 1000 1] [w_g10 [] []]) wp.
(* class 2: never-seen room with a self-signed administrator entry of the relaying member *)
Definition wk2 : c07case :=
  CPrep None
        (RM_ 1 1000 1000 1 [E_ 1 32 100 1000 1; E_ 1 32 900 5000 3]
                        [w_admin; U_ 900 5000 3 3 true] [E_ 1 33 10 1000 1] [w_g10 [] []]) wp.
(* former class 3 (repaired by 85b1827): own user-admin entry, then own user entry, inside a group new to the peer *)
Definition wk3 : c07case :=
  CPrep (Some w_base)
        (w_later_g (w_g11 [U_ 901 5000 3 3 true] [U_ 902 5000 3 5 true]
                          [E_ 11 35 901 5000 3] [E_ 11 34 902 5000 3])) wp.
(* former class 4 (repaired by cd32c02): a second row with the id of the administrator's entry, riding on an honest update *)
Definition wk4 : c07case :=
  CPrep (Some w_base)
        (RM_ 1 1000 1000 1 [E_ 1 32 100 1000 1; E_ 1 32 100 5000 3]
                        [w_admin; U_ 100 5000 3 3 true] [E_ 1 33 10 1000 1]
                        [w_g10 [U_ 103 2000 1 4 true] [E_ 10 34 103 2000 1]]) wp.
(* no class: the honest update *)
Definition wk0 : c07case := CPrep (Some w_base) (w_later_g (w_g11 [] [] [] [])) wp.
Definition wk0' : c07case := CPrep None (w_later_g (w_g11 [] [] [] [])) wp.

Definition accepted_and_fails (c : c07case) (k : Z) : Prop :=
  known_C07 c = [k] /\ hd 0 (run_C07 c) = 1 /\ spec_C07 c (run_C07 c) = false.
Lemma refuted_k1 : accepted_and_fails wk1 1. Proof. vm_compute. auto. Qed.
Lemma refuted_k2 : accepted_and_fails wk2 2. Proof. vm_compute. auto. Qed.
(* the witness of the repaired class 3 is refused now (site 41), the oracle holds on it *)
Lemma repaired_k3 : known_C07 wk3 = [] /\ run_C07 wk3 = [141] /\ spec_C07 wk3 (run_C07 wk3) = true.
Proof. vm_compute. auto. Qed.
(* the witness of the repaired class 4 is refused now (site 70), the oracle holds on it *)
Lemma repaired_k4 : known_C07 wk4 = [] /\ run_C07 wk4 = [170] /\ spec_C07 wk4 (run_C07 wk4) = true.
Proof. vm_compute. auto. Qed.
(* the variants of the former class 1 that cd32c02 closes: the user entry carried into the user-admin
   list by the administrator's own "users" reference; a self-signed row riding on a reference listed twice *)
Definition wk1b : c07case :=
  CPrep (Some w_base)
        (RM_ 1 1000 1000 1 [E_ 1 32 100 1000 1] [w_admin] [E_ 1 33 10 1000 1]
             [G_ 10 1000 1 [E_ 10 33 101 1000 1] [R_ 101 1000 1 0 true false]
                 [E_ 10 34 102 1000 1] [w_user3] [E_ 10 34 102 1000 1] [w_user3]]) wp.
Definition wk1c : c07case :=
  CPrep (Some w_base)
        (RM_ 1 1000 1000 1 [E_ 1 32 100 1000 1; E_ 1 32 100 1000 1] [w_admin; U_ 900 5000 1 3 true]
             [E_ 1 33 10 1000 1] [w_g10 [] []]) wp.
Lemma repaired_k1_variants :
  known_C07 wk1b = [] /\ run_C07 wk1b = [171] /\ spec_C07 wk1b (run_C07 wk1b) = true /\
  known_C07 wk1c = [] /\ run_C07 wk1c = [171] /\ spec_C07 wk1c (run_C07 wk1c) = true.
Proof. vm_compute. repeat split; reflexivity. Qed.
(* class 5: keys 1 and 2 administrators; "key 2 revoked" (by key 1) and "key 5 administrator" (by key 2) carry the
   same date; listed first, the entry of the revoked key is judged while the key is still enabled *)
Definition w_base2 : roomnode :=
  RM_ 1 1000 1000 1 [E_ 1 32 100 1000 1; E_ 1 32 110 1000 1] [w_admin; U_ 110 1000 1 2 true] [E_ 1 33 10 1000 1] [w_g10 [] []].
Definition wk5 : c07case :=
  CPrep (Some w_base2)
        (RM_ 1 1000 1000 1 [E_ 1 32 921 5000 2; E_ 1 32 100 1000 1; E_ 1 32 110 1000 1; E_ 1 32 920 5000 1]
             [U_ 921 5000 2 5 true; w_admin; U_ 110 1000 1 2 true; U_ 920 5000 1 2 false]
             [E_ 1 33 10 1000 1] [w_g10 [] []]) wp.
Definition wk5' : c07case :=
  CPrep (Some w_base2)
        (RM_ 1 1000 1000 1 [E_ 1 32 920 5000 1; E_ 1 32 100 1000 1; E_ 1 32 110 1000 1; E_ 1 32 921 5000 2]
             [U_ 920 5000 1 2 false; w_admin; U_ 110 1000 1 2 true; U_ 921 5000 2 5 true]
             [E_ 1 33 10 1000 1] [w_g10 [] []]) wp.
(* the same pair with the entry dated after the revocation is refused in either order *)
Definition wk5l : c07case :=
  CPrep (Some w_base2)
        (RM_ 1 1000 1000 1 [E_ 1 32 921 6000 2; E_ 1 32 100 1000 1; E_ 1 32 110 1000 1; E_ 1 32 920 5000 1]
             [U_ 921 6000 2 5 true; w_admin; U_ 110 1000 1 2 true; U_ 920 5000 1 2 false]
             [E_ 1 33 10 1000 1] [w_g10 [] []]) wp.
Lemma refuted_k5 : accepted_and_fails wk5 5 /\ run_C07 wk5' = [151] /\ run_C07 wk5l = [151] /\ known_C07 wk5l = [].
Proof. vm_compute. repeat split; reflexivity. Qed.

Lemma nonvacuous_k0 :
  known_C07 wk0 = [] /\ hd 0 (run_C07 wk0) = 1 /\ spec_C07 wk0 (run_C07 wk0) = true /\
  known_C07 wk0' = [] /\ hd 0 (run_C07 wk0') = 1 /\ spec_C07 wk0' (run_C07 wk0') = true.
Proof. vm_compute. repeat split; reflexivity. Qed.
(* what the witnesses buy the attacker (key 3, a plain user of group 10 before) *)
Definition accepted_room (c : c07case) : option room :=
  let old := case_old c in
  let known := match known_room old with Some (POk r) => Some r | _ => None end in
  match prepare_room_node known (option_map read_order old) (case_cand c) with
  | POk (true, res) => match parse_room res with POk r => Some r | PErr _ => None end
  | _ => None
  end.
Definition admin_after (c : c07case) (k : key) (d : Z) : option bool := option_map (fun r => is_admin r k d) (accepted_room c).
Definition uadmin_after (c : c07case) (k : key) (d : Z) : option bool :=
  option_map (fun r => existsb (fun a => can_admin_users a k d) (rm_auths r)) (accepted_room c).
Lemma attacker_gains :
  admin_after wk0 3%N 6000 = Some false /\
  admin_after wk1 3%N 6000 = Some true /\ admin_after wk2 3%N 6000 = Some true /\ admin_after wk4 3%N 6000 = None /\
  uadmin_after wk0 3%N 6000 = Some false /\ uadmin_after wk3 3%N 6000 = None.
Proof. vm_compute. repeat split; reflexivity. Qed.
