(* C05Sql.v — meaning of what Sql.compile emits: parameter slots, default-aware filters,
   the paging disjunction.  Used by C05P.v. *)
From DV Require Import Eval Sql Run_C05 C05Sort C05Order.
Open Scope list_scope.

(* ---------- three-valued logic under is_true ---------- *)
Lemma is_true_or : forall a b, is_true (tv_or a b) = is_true a || is_true b.
Proof. intros [[|]|] [[|]|]; reflexivity. Qed.
Lemma is_true_and : forall a b, is_true (tv_and a b) = is_true a && is_true b.
Proof. intros [[|]|] [[|]|]; reflexivity. Qed.

(* sop_eval only looks at the canonical form of its arguments *)
Lemma s_is_canon : forall a b, s_is a b = match ccmp (scanon a) (scanon b) with Eq => true | _ => false end.
Proof.
  intros a b. unfold s_is. rewrite scmp_canon. destruct a, b; simpl; try reflexivity.
Qed.
Lemma sop_eval_canon : forall o a b a' b', scanon a = scanon a' -> scanon b = scanon b' ->
  sop_eval o a b = sop_eval o a' b'.
Proof.
  intros o a b a' b' Ha Hb. destruct o as [op| |]; simpl.
  - rewrite !scmp_canon, Ha, Hb.
    destruct a, a'; simpl in Ha; try discriminate; destruct b, b'; simpl in Hb; try discriminate; reflexivity.
  - rewrite !s_is_canon, Ha, Hb. reflexivity.
  - rewrite !s_is_canon, Ha, Hb. reflexivity.
Qed.
Lemma scanon_null : forall a, scanon a = CNull <-> a = SNull.
Proof. intros a. destruct a; simpl; split; congruence. Qed.
Lemma vcanon_null : forall a, vcanon a = CNull <-> a = VNull.
Proof. intros a. destruct a as [|b| | |]; simpl; split; congruence. Qed.

(* a comparison in SQL of two values that stand for language values *)
Lemma is_true_some : forall b, is_true (Some b) = b.
Proof. intros [|]; reflexivity. Qed.

Lemma sop_cmp_vals : forall op a b x y, scanon a = vcanon x -> scanon b = vcanon y ->
  is_true (sop_eval (SCmp op) a b) = negb (is_null x) && negb (is_null y) && test op (vcmp x y).
Proof.
  intros op a b x y Ha Hb.
  assert (Hc : scmp a b = vcmp x y) by (rewrite scmp_canon, Ha, Hb, <- vcmp_canon; reflexivity).
  destruct (is_null x) eqn:Ex.
  { destruct x; try discriminate. apply scanon_null in Ha. subst. reflexivity. }
  destruct (is_null y) eqn:Ey.
  { destruct y; try discriminate. apply scanon_null in Hb. subst. simpl. destruct a; reflexivity. }
  assert (Hna : a <> SNull).
  { intros ->. simpl in Ha. symmetry in Ha. apply vcanon_null in Ha. subst. discriminate. }
  assert (Hnb : b <> SNull).
  { intros ->. simpl in Hb. symmetry in Hb. apply vcanon_null in Hb. subst. discriminate. }
  unfold sop_eval. destruct a; try congruence; destruct b; try congruence; rewrite is_true_some, Hc; reflexivity.
Qed.

(* ---------- the default-aware filter form ---------- *)
Definition coalesce (a d : sval) : sval := match a with SNull => d | _ => a end.

(* CASE WHEN d op v THEN x op v OR x is null ELSE x op v END  ==  coalesce(x, d) op v   (as a WHERE condition) *)
Lemma default_filter_equiv_sval : forall op x d v, d <> SNull ->
  is_true (if is_true (sop_eval (SCmp op) d v)
           then tv_or (sop_eval (SCmp op) x v) (sop_eval SIs x SNull)
           else sop_eval (SCmp op) x v)
  = is_true (sop_eval (SCmp op) (coalesce x d) v).
Proof.
  intros op x d v Hd. destruct x; simpl coalesce.
  - (* x is NULL *)
    destruct (is_true (sop_eval (SCmp op) d v)) eqn:E.
    + rewrite is_true_or. simpl. rewrite ?orb_true_r. reflexivity.
    + try rewrite E. destruct d; try congruence; destruct v; reflexivity.
  - destruct (is_true (sop_eval (SCmp op) d v)); [rewrite is_true_or; simpl; rewrite orb_false_r|]; reflexivity.
  - destruct (is_true (sop_eval (SCmp op) d v)); [rewrite is_true_or; simpl; rewrite orb_false_r|]; reflexivity.
  - destruct (is_true (sop_eval (SCmp op) d v)); [rewrite is_true_or; simpl; rewrite orb_false_r|]; reflexivity.
Qed.

Theorem default_filter_equiv : forall binds r out d op x v,
  sx_eval binds r out d <> SNull ->
  is_true (filter_eval binds r out (FCase d (SCmp op) x v)) =
  is_true (sop_eval (SCmp op) (coalesce (sx_eval binds r out x) (sx_eval binds r out d)) (sx_eval binds r out v)).
Proof. intros. unfold filter_eval. apply default_filter_equiv_sval. assumption. Qed.

(* ---------- the paging disjunction ---------- *)
(* strict lexicographic "beyond the cursor" relation on (key, cursor value, direction) triples, in SQL's logic *)
Fixpoint slex (before : bool) (l : list (sval * sval * dir)) : bool :=
  match l with
  | [] => false
  | (k, c, d) :: t =>
      is_true (sop_eval (SCmp (paging_op before d)) k c) || (is_true (sop_eval (SCmp OEq) k c) && slex before t)
  end.
Definition all_eq (l : list (sval * sval * dir)) : bool :=
  forallb (fun e => let '(k, c, _) := e in is_true (sop_eval (SCmp OEq) k c)) l.


(* ---------- parameter slots ---------- *)
Definition pfx (a b : list pentry) : Prop := exists t, b = a ++ t.
Lemma pfx_refl : forall a, pfx a a.
Proof. intros a. exists []. rewrite app_nil_r. reflexivity. Qed.
Lemma pfx_trans : forall a b c, pfx a b -> pfx b c -> pfx a c.
Proof. intros a b c [t1 ->] [t2 ->]. exists (t1 ++ t2). rewrite app_assoc. reflexivity. Qed.
Lemma pfx_app : forall a t, pfx a (a ++ t).
Proof. intros a t. exists t. reflexivity. Qed.

Definition slot_val (ps : params) (p : pentry) : option sval :=
  if fst p then Some (SText (snd p)) else option_map to_sql (lookup (snd p) ps).
Lemma bind_unfold : forall vo ps, bind vo ps = all_some (map (slot_val ps) vo).
Proof. reflexivity. Qed.

Lemma all_some_nth : forall A (l : list (option A)) r i o,
  all_some l = Some r -> nth_error l i = Some o -> exists x, o = Some x /\ nth_error r i = Some x.
Proof.
  induction l as [|a l IH]; intros r i o H Hn.
  - destruct i; discriminate.
  - simpl in H. destruct a as [a|]; try discriminate. destruct (all_some l) as [r'|] eqn:E; try discriminate.
    injection H as <-. destruct i; simpl in *.
    + injection Hn as <-. exists a. split; reflexivity.
    + eapply IH; eauto.
Qed.

Lemma bind_nth : forall vf ps binds i p x,
  bind vf ps = Some binds -> nth_error vf i = Some p -> slot_val ps p = Some x -> nth i binds SNull = x.
Proof.
  intros vf ps binds i p x Hb Hn Hs. rewrite bind_unfold in Hb.
  destruct (all_some_nth _ _ _ i (slot_val ps p) Hb) as (y & Hy & Hr).
  { rewrite nth_error_map, Hn. reflexivity. }
  rewrite Hs in Hy. injection Hy as <-. apply nth_error_nth. exact Hr.
Qed.

(* the slot of a variable: the first entry that is a variable of that name *)
Definition fm (n : str) (vf : list pentry) : option pentry := find (fun p : pentry => negb (fst p) && str_eqb n (snd p)) vf.

Lemma fm_app_some : forall n a t p, fm n a = Some p -> fm n (a ++ t) = Some p.
Proof.
  unfold fm. induction a as [|x a IH]; intros t p H; simpl in *. discriminate.
  destruct (negb (fst x) && str_eqb n (snd x)). exact H. apply IH. exact H.
Qed.

Lemma find_param_spec : forall n vo k,
  match find_param n vo k with
  | Some i => exists j p, i = (k + j)%nat /\ nth_error vo j = Some p /\ fm n vo = Some p
  | None => fm n vo = None
  end.
Proof.
  unfold fm. induction vo as [|x vo IH]; intros k; simpl. reflexivity.
  destruct (negb (fst x) && str_eqb n (snd x)) eqn:E.
  - exists 0%nat, x. repeat split. lia.
  - specialize (IH (S k)). destruct (find_param n vo (S k)).
    + destruct IH as (j & p & -> & Hn & Hf). exists (S j), p. repeat split; try assumption. lia.
    + exact IH.
Qed.

Lemma nth_error_pfx : forall (a vf : list pentry) i p, pfx a vf -> nth_error a i = Some p -> nth_error vf i = Some p.
Proof.
  intros a vf i p [t ->] H. rewrite nth_error_app1. exact H. apply nth_error_Some. congruence.
Qed.

Lemma add_param_internal : forall vo s vo' i, add_param vo s true = (vo', i) ->
  pfx vo vo' /\ forall vf ps binds, pfx vo' vf -> bind vf ps = Some binds -> nth (pred i) binds SNull = SText s.
Proof.
  intros vo s vo' i H. unfold add_param in H. injection H as <- <-. split. apply pfx_app.
  intros vf ps binds Hp Hb. simpl. eapply bind_nth. exact Hb.
  - eapply nth_error_pfx. exact Hp. rewrite nth_error_app2 by lia. rewrite Nat.sub_diag. reflexivity.
  - reflexivity.
Qed.

Lemma add_param_var : forall vo n vo' i, add_param vo n false = (vo', i) ->
  pfx vo vo' /\ forall vf ps binds v, pfx vo' vf -> bind vf ps = Some binds ->
                lookup n ps = Some v -> nth (pred i) binds SNull = to_sql v.
Proof.
  intros vo n vo' i H. unfold add_param in H.
  pose proof (find_param_spec n vo 0) as Hs. destruct (find_param n vo 0) as [k|].
  - injection H as <- <-. destruct Hs as (j & p & -> & Hn & Hf). split. apply pfx_refl.
    intros vf ps binds v Hp Hb Hl. simpl.
    unfold fm in Hf. apply find_some in Hf. destruct Hf as [_ Hf]. apply andb_prop in Hf. destruct Hf as [Hint Hname].
    apply negb_true_iff in Hint. apply str_eqb_eq in Hname.
    eapply bind_nth. exact Hb. eapply nth_error_pfx; eauto.
    unfold slot_val. rewrite Hint, <- Hname, Hl. reflexivity.
  - injection H as <- <-. split. apply pfx_app.
    intros vf ps binds v Hp Hb Hl. simpl. eapply bind_nth. exact Hb.
    + eapply nth_error_pfx. exact Hp. rewrite nth_error_app2 by lia. rewrite Nat.sub_diag. reflexivity.
    + unfold slot_val. simpl. rewrite Hl. reflexivity.
Qed.

Lemma operand_sx_sem : forall vo o vo' x, operand_sx vo o = (vo', x) ->
  pfx vo vo' /\
  forall vf ps binds v r out, pfx vo' vf -> bind vf ps = Some binds ->
    operand_value ps o = Some v ->
    scanon (sx_eval binds r out x) = vcanon v.
Proof.
  intros vo o vo' x H. destruct o as [v0|n]; cbn [operand_sx] in H.
  - destruct v0 as [|b|z|q|s].
    + injection H as <- <-. split. apply pfx_refl. intros vf ps binds v r out _ _ Hv. simpl in *. injection Hv as <-. reflexivity.
    + injection H as <- <-. split. apply pfx_refl. intros vf ps binds v r out _ _ Hv. simpl in *. injection Hv as <-. destruct b; reflexivity.
    + injection H as <- <-. split. apply pfx_refl. intros vf ps binds v r out _ _ Hv. simpl in *. injection Hv as <-. reflexivity.
    + injection H as <- <-. split. apply pfx_refl. intros vf ps binds v r out _ _ Hv. simpl in *. injection Hv as <-. reflexivity.
    + destruct (add_param vo s true) as [vo1 i] eqn:E. injection H as <- <-.
      destruct (add_param_internal _ _ _ _ E) as [Hp Hs]. split. exact Hp.
      intros vf ps binds v r out Hpf Hb Hv. simpl in Hv. injection Hv as <-. simpl.
      rewrite (Hs vf ps binds Hpf Hb). reflexivity.
  - destruct (add_param vo n false) as [vo1 i] eqn:E. injection H as <- <-.
    destruct (add_param_var _ _ _ _ E) as [Hp Hs]. split. exact Hp.
    intros vf ps binds v r out Hpf Hb Hv. simpl in Hv. simpl.
    rewrite (Hs vf ps binds v Hpf Hb Hv). apply scanon_to_sql.
Qed.

(* the default written into the WHEN of a filter *)
Lemma default_sx_sem : forall vo d vo' dx, default_sx vo d = (vo', dx) ->
  pfx vo vo' /\
  forall vf ps binds r out, pfx vo' vf -> bind vf ps = Some binds -> scanon (sx_eval binds r out dx) = vcanon d.
Proof.
  intros vo d vo' dx H. destruct d as [|b|z|q|s]; cbn [default_sx] in H.
  1-4: (injection H as <- <-; split; [apply pfx_refl | intros; try reflexivity]).
  - destruct b; reflexivity.
  - destruct (add_param vo s true) as [vo1 i] eqn:E. injection H as <- <-.
    destruct (add_param_internal _ _ _ _ E) as [Hp Hs]. split. exact Hp.
    intros vf ps binds r out Hpf Hb. simpl. rewrite (Hs vf ps binds Hpf Hb). reflexivity.
Qed.

(* ---------- the select list ---------- *)
Lemma field_value_nth : forall m r i,
  field_value m r i = match nth i r VNull with
                      | VNull => match default_of m i with Some d => d | None => VNull end
                      | v => v
                      end.
Proof.
  intros m r i. unfold field_value, default_of.
  destruct (nth_error r i) as [v|] eqn:E.
  - rewrite (nth_error_nth _ _ VNull E). destruct v; try reflexivity. destruct (field_def m i); reflexivity.
  - rewrite (nth_overflow r VNull) by (apply nth_error_None; exact E). destruct (field_def m i); reflexivity.
Qed.

Definition sdefault_ok (binds : list sval) (dflt : option val) (sd : option sx) : Prop :=
  match dflt with
  | None | Some VNull => sd = None
  | Some (VBool b) => sd = Some (XBool b)
  | Some (VInt z) => sd = Some (XInt z)
  | Some (VFlt x) => sd = Some (XFlt x)
  | Some (VStr s) => exists i, sd = Some (XParam i) /\ nth (pred i) binds SNull = SText s
  end.

Lemma compile_sel_sem : forall m sel vo vo' ss, compile_sel m vo sel = (vo', ss) ->
  pfx vo vo' /\
  forall vf ps binds, pfx vo' vf -> bind vf ps = Some binds ->
    Forall2 (fun sf s => ss_field s = sf_field sf /\ ss_name s = sel_name m sf /\
                         sdefault_ok binds (default_of m (sf_field sf)) (ss_default s)) sel ss.
Proof.
  intros m sel. induction sel as [|sf t IH]; intros vo vo' ss H; cbn [compile_sel] in H.
  - injection H as <- <-. split. apply pfx_refl. intros. constructor.
  - fold (default_of m (sf_field sf)) in H.
    destruct (default_of m (sf_field sf)) as [d|] eqn:Ed.
    + destruct d as [|b|z|x|s].
      * destruct (compile_sel m vo t) as [vo2 rest] eqn:E2. injection H as <- <-.
        destruct (IH _ _ _ E2) as [Hp Hs]. split. exact Hp. intros vf ps binds Hpf Hb.
        constructor. cbn. rewrite Ed. repeat split. apply (Hs vf ps binds); assumption.
      * destruct (compile_sel m vo t) as [vo2 rest] eqn:E2. injection H as <- <-.
        destruct (IH _ _ _ E2) as [Hp Hs]. split. exact Hp. intros vf ps binds Hpf Hb.
        constructor. cbn. rewrite Ed. repeat split. apply (Hs vf ps binds); assumption.
      * destruct (compile_sel m vo t) as [vo2 rest] eqn:E2. injection H as <- <-.
        destruct (IH _ _ _ E2) as [Hp Hs]. split. exact Hp. intros vf ps binds Hpf Hb.
        constructor. cbn. rewrite Ed. repeat split. apply (Hs vf ps binds); assumption.
      * destruct (compile_sel m vo t) as [vo2 rest] eqn:E2. injection H as <- <-.
        destruct (IH _ _ _ E2) as [Hp Hs]. split. exact Hp. intros vf ps binds Hpf Hb.
        constructor. cbn. rewrite Ed. repeat split. apply (Hs vf ps binds); assumption.
      * destruct (add_param vo s true) as [vo1 i] eqn:E1.
        destruct (compile_sel m vo1 t) as [vo2 rest] eqn:E2. injection H as <- <-.
        destruct (add_param_internal _ _ _ _ E1) as [Hp1 Hs1].
        destruct (IH _ _ _ E2) as [Hp Hs]. split. eapply pfx_trans; eauto. intros vf ps binds Hpf Hb.
        constructor. cbn. rewrite Ed. repeat split. exists i. split. reflexivity.
        apply (Hs1 vf ps binds). eapply pfx_trans; eauto. exact Hb. apply (Hs vf ps binds); assumption.
    + destruct (compile_sel m vo t) as [vo2 rest] eqn:E2. injection H as <- <-.
      destruct (IH _ _ _ E2) as [Hp Hs]. split. exact Hp. intros vf ps binds Hpf Hb.
      constructor. cbn. rewrite Ed. repeat split. apply (Hs vf ps binds); assumption.
Qed.

(* a selected value as the statement computes it is the field value of the language *)
Lemma sel_value_sem : forall m binds r s,
  sdefault_ok binds (default_of m (ss_field s)) (ss_default s) ->
  (forall b, default_of m (ss_field s) = Some (VBool b) -> nth (ss_field s) r VNull <> VNull) ->
  sel_value binds r s = field_value m r (ss_field s).
Proof.
  intros m binds r s Hd Hb. rewrite field_value_nth. unfold sel_value.
  destruct (nth (ss_field s) r VNull) eqn:En.
  2-5: (destruct (ss_default s); reflexivity).
  destruct (default_of m (ss_field s)) as [d|] eqn:Ed; simpl in Hd.
  - destruct d as [|b|z|x|t].
    + rewrite Hd. reflexivity.
    + exfalso. eapply Hb; eauto.
    + rewrite Hd. reflexivity.
    + rewrite Hd. reflexivity.
    + destruct Hd as (i & -> & Hn). cbn [sx_eval]. rewrite Hn. reflexivity.
  - rewrite Hd. reflexivity.
Qed.

Lemma out_alias_sem : forall m binds r sel ss,
  Forall2 (fun sf s => ss_field s = sf_field sf /\ ss_name s = sel_name m sf /\
                       sdefault_ok binds (default_of m (sf_field sf)) (ss_default s)) sel ss ->
  (forall sf b, In sf sel -> default_of m (sf_field sf) = Some (VBool b) -> nth (sf_field sf) r VNull <> VNull) ->
  forall k, scanon (to_sql (nth k (map (sel_value binds r) ss) VNull)) =
            vcanon (match nth_error sel k with Some sf => field_value m r (sf_field sf) | None => VNull end).
Proof.
  intros m binds r sel ss H. induction H as [|sf s sel ss (Hf & _ & Hd) Hrest IH]; intros Hb k.
  - destruct k; reflexivity.
  - destruct k; simpl.
    + rewrite <- Hf. rewrite (sel_value_sem m binds r s). apply scanon_to_sql. rewrite Hf. exact Hd.
      intros b Hdb. rewrite Hf in *. eapply Hb; eauto. left. reflexivity.
    + apply IH. intros sf' b Hin. apply Hb. right. exact Hin.
Qed.

(* ---------- filters ---------- *)
Definition filter_sop (f : qfilter) : sop :=
  match fl_val f, fl_op f with
  | OLit VNull, OEq => SIs
  | OLit VNull, ONe => SIsNot
  | _, op => SCmp op
  end.
Definition filter_dflt := filter_default.
(* the compiled form of a filter, given the compiled value xv and (for a field with a default) the compiled default dx *)
Definition filter_form (m : emodel) (q : query) (f : qfilter) (xv : sx) (dx : sx) : sfilter :=
  match filter_dflt m q f with
  | Some _ => FCase dx (filter_sop f) (ref_sx (fl_ref f)) xv
  | None => FPlain (filter_sop f) (ref_sx (fl_ref f)) xv
  end.

Lemma compile_filters_shape : forall m q fs vo vo' sfs, compile_filters m q vo fs = (vo', sfs) ->
  pfx vo vo' /\
  forall vf ps binds, pfx vo' vf -> bind vf ps = Some binds ->
    Forall2 (fun f sf => exists xv dx, sf = filter_form m q f xv dx /\
                         (forall v r out, operand_value ps (fl_val f) = Some v ->
                                          scanon (sx_eval binds r out xv) = vcanon v) /\
                         (forall d r out, filter_dflt m q f = Some d -> scanon (sx_eval binds r out dx) = vcanon d)) fs sfs.
Proof.
  intros m q fs. induction fs as [|f t IH]; intros vo vo' sfs H; cbn [compile_filters] in H.
  - injection H as <- <-. split. apply pfx_refl. intros. constructor.
  - destruct (operand_sx vo (fl_val f)) as [vo1 xv] eqn:E1.
    assert (Hdf : match ref_field q (fl_ref f) with Some i => match field_def m i with Some fd => fd_default fd | None => None end | None => None end
                  = filter_dflt m q f) by reflexivity.
    rewrite Hdf in H. clear Hdf.
    destruct (operand_sx_sem _ _ _ _ E1) as [Hp1 Hs1].
    destruct (filter_dflt m q f) as [d|] eqn:Ed.
    + destruct (default_sx vo1 d) as [vo2 dx] eqn:E2.
      destruct (compile_filters m q vo2 t) as [vo3 rest] eqn:E3. injection H as <- <-.
      destruct (default_sx_sem _ _ _ _ E2) as [Hp2 Hs2]. destruct (IH _ _ _ E3) as [Hp3 Hs3].
      split. eapply pfx_trans. exact Hp1. eapply pfx_trans; eauto.
      intros vf ps binds Hpf Hb. constructor.
      * exists xv, dx. split. unfold filter_form. rewrite Ed. reflexivity. split.
        -- intros v r out Hv. apply (Hs1 vf ps binds v r out); [ eapply pfx_trans; [exact Hp2 | eapply pfx_trans; eauto] | exact Hb | exact Hv ].
        -- intros d' r out Hd. rewrite Ed in Hd. injection Hd as <-. apply (Hs2 vf ps binds r out). eapply pfx_trans; eauto. exact Hb.
      * apply (Hs3 vf ps binds); assumption.
    + destruct (compile_filters m q vo1 t) as [vo3 rest] eqn:E3. injection H as <- <-.
      destruct (IH _ _ _ E3) as [Hp3 Hs3].
      split. eapply pfx_trans; eauto.
      intros vf ps binds Hpf Hb. constructor.
      * exists xv, XNull. split. unfold filter_form. rewrite Ed. reflexivity. split.
        -- intros v r out Hv. apply (Hs1 vf ps binds v r out); [ eapply pfx_trans; eauto | exact Hb | exact Hv ].
        -- intros d' r out Hd. rewrite Ed in Hd. discriminate.
      * apply (Hs3 vf ps binds); assumption.
Qed.

Lemma ref_value_name : forall m q r i, ref_value m q r (FByName i) = field_value m r i.
Proof. reflexivity. Qed.

Lemma filter_sem : forall m q binds r out f xv dx v,
  (forall d, filter_dflt m q f = Some d -> scanon (sx_eval binds r out dx) = vcanon d) ->
  scanon (sx_eval binds r out xv) = vcanon v ->
  (forall k, scanon (sx_eval binds r out (XOut k)) = vcanon (ref_value m q r (FByAlias k))) ->
  (fl_val f = OLit VNull -> v = VNull) ->
  (fl_val f = OLit VNull -> filter_dflt m q f = None) ->
  (forall d, filter_dflt m q f = Some d -> d <> VNull) ->
  (v = VNull -> fl_op f = OEq \/ fl_op f = ONe -> fl_val f = OLit VNull) ->
  is_true (filter_eval binds r out (filter_form m q f xv dx)) = holds (fl_op f) (ref_value m q r (fl_ref f)) v.
Proof.
  intros m q binds r out f xv dx v Hdx Hxv Hal Hlit Hwf1 Hwf2 Hk6.
  set (a := ref_value m q r (fl_ref f)).
  (* the key expression against the field value *)
  assert (Hx : filter_dflt m q f = None -> scanon (sx_eval binds r out (ref_sx (fl_ref f))) = vcanon a).
  { intros Hn. subst a. destruct (fl_ref f) as [i|k] eqn:Er; cbn [ref_sx].
    - cbn [sx_eval]. rewrite scanon_to_sql, ref_value_name, field_value_nth.
      unfold filter_dflt, filter_default in Hn. rewrite Er in Hn. cbn [ref_field] in Hn. rewrite Hn.
      destruct (nth i r VNull); reflexivity.
    - apply Hal. }
  assert (Hxd : forall d, filter_dflt m q f = Some d ->
             scanon (coalesce (sx_eval binds r out (ref_sx (fl_ref f))) (sx_eval binds r out dx)) = vcanon a
             /\ a <> VNull).
  { intros d Hd. pose proof (Hwf2 d Hd) as Hdn. pose proof (Hdx d Hd) as Hdxd. subst a. destruct (fl_ref f) as [i|k] eqn:Er; cbn [ref_sx].
    - cbn [sx_eval]. rewrite ref_value_name, field_value_nth.
      unfold filter_dflt, filter_default in Hd. rewrite Er in Hd. cbn [ref_field] in Hd. rewrite Hd.
      destruct (nth i r VNull) eqn:En; cbn [to_sql coalesce].
      + split. apply Hdxd. exact Hdn.
      + split. destruct b; reflexivity. discriminate.
      + split. reflexivity. discriminate.
      + split. reflexivity. discriminate.
      + split. reflexivity. discriminate.
    - assert (Ha : ref_value m q r (FByAlias k) <> VNull).
      { unfold ref_value. unfold filter_dflt, filter_default in Hd. rewrite Er in Hd.
        destruct (ref_field q (FByAlias k)) as [i|]; try discriminate.
        rewrite field_value_nth, Hd. destruct (nth i r VNull); try discriminate. exact Hdn. }
      split; [|exact Ha]. pose proof (Hal k) as Hk.
      destruct (sx_eval binds r out (XOut k)) eqn:Ex; cbn [coalesce]; try exact Hk.
      exfalso. apply Ha. apply vcanon_null. rewrite <- Hk. reflexivity. }
  unfold filter_form. destruct (filter_dflt m q f) as [d|] eqn:Ed.
  - (* default-aware CASE form *)
    assert (Hnl : fl_val f <> OLit VNull). { intros Hc. specialize (Hwf1 Hc). discriminate. }
    assert (Hop : filter_sop f = SCmp (fl_op f)).
    { unfold filter_sop. destruct (fl_val f) as [[| | | |]|]; try reflexivity. congruence. }
    rewrite Hop. rewrite default_filter_equiv.
    2: { intros Hc. apply scanon_null in Hc. rewrite (Hdx d eq_refl) in Hc. apply vcanon_null in Hc. eapply Hwf2; eauto. }
    destruct (Hxd d eq_refl) as [Hc Hna].
    rewrite (sop_cmp_vals _ _ _ a v Hc Hxv).
    unfold holds. destruct v.
    + (* null-valued variable *)
      destruct (fl_op f) eqn:Eo; try (rewrite andb_false_r; reflexivity).
      * exfalso. apply Hnl. apply Hk6; auto.
      * exfalso. apply Hnl. apply Hk6; auto.
    + destruct a; try congruence; reflexivity.
    + destruct a; try congruence; reflexivity.
    + destruct a; try congruence; reflexivity.
    + destruct a; try congruence; reflexivity.
  - specialize (Hx eq_refl). cbn [filter_eval].
    unfold filter_sop. destruct (fl_val f) as [lv|n] eqn:Ev.
    + destruct lv.
      * (* literal null *)
        specialize (Hlit eq_refl). subst v. simpl in Hxv. apply scanon_null in Hxv. rewrite Hxv.
        destruct (fl_op f) eqn:Eo.
        -- cbn [sop_eval]. rewrite is_true_some, s_is_canon, Hx. unfold holds. destruct a as [|b| | |]; try reflexivity; destruct b; reflexivity.
        -- cbn [sop_eval]. rewrite is_true_some, s_is_canon, Hx. unfold holds. destruct a as [|b| | |]; try reflexivity; destruct b; reflexivity.
        -- destruct (sx_eval binds r out (ref_sx (fl_ref f))); reflexivity.
        -- destruct (sx_eval binds r out (ref_sx (fl_ref f))); reflexivity.
        -- destruct (sx_eval binds r out (ref_sx (fl_ref f))); reflexivity.
        -- destruct (sx_eval binds r out (ref_sx (fl_ref f))); reflexivity.
      * rewrite (sop_cmp_vals _ _ _ a v Hx Hxv). unfold holds.
        destruct v; [ destruct (fl_op f) eqn:Eo; try (rewrite andb_false_r; reflexivity); exfalso; (assert (OLit (VBool b) = OLit VNull) by (apply Hk6; auto)); discriminate | | | | ];
          (destruct a; reflexivity).
      * rewrite (sop_cmp_vals _ _ _ a v Hx Hxv). unfold holds.
        destruct v; [ destruct (fl_op f) eqn:Eo; try (rewrite andb_false_r; reflexivity); exfalso; (assert (OLit (VInt z) = OLit VNull) by (apply Hk6; auto)); discriminate | | | | ];
          (destruct a; reflexivity).
      * rewrite (sop_cmp_vals _ _ _ a v Hx Hxv). unfold holds.
        destruct v; [ destruct (fl_op f) eqn:Eo; try (rewrite andb_false_r; reflexivity); exfalso; (assert (OLit (VFlt q0) = OLit VNull) by (apply Hk6; auto)); discriminate | | | | ];
          (destruct a; reflexivity).
      * rewrite (sop_cmp_vals _ _ _ a v Hx Hxv). unfold holds.
        destruct v; [ destruct (fl_op f) eqn:Eo; try (rewrite andb_false_r; reflexivity); exfalso; (assert (OLit (VStr s) = OLit VNull) by (apply Hk6; auto)); discriminate | | | | ];
          (destruct a; reflexivity).
    + rewrite (sop_cmp_vals _ _ _ a v Hx Hxv). unfold holds.
      destruct v; [ destruct (fl_op f) eqn:Eo; try (rewrite andb_false_r; reflexivity); exfalso; (assert (OVar n = OLit VNull) by (apply Hk6; auto)); discriminate | | | | ];
        (destruct a; reflexivity).
Qed.

(* ---------- the paging disjunction ---------- *)
Definition nn (v : val) : bool := negb (is_null v).
Definition eqv_t (t : dir * val * val) : bool := let '(_, k, c) := t in nn k && nn c && test OEq (vcmp k c).
(* strict lexicographic "beyond the cursor" on (direction, key, cursor value) triples *)
Fixpoint vlex (before : bool) (l : list (dir * val * val)) : bool :=
  match l with
  | [] => false
  | (d, k, c) :: t => (nn k && nn c && test (paging_op before d) (vcmp k c)) || (eqv_t (d, k, c) && vlex before t)
  end.
Definition trip (kval : okey -> val) (kos : list (okey * operand)) (cs : list val) : list (dir * val * val) :=
  map (fun x : okey * operand * val => (ok_dir (fst (fst x)), kval (fst (fst x)), snd x)) (combine kos cs).

Section PagingRow.
  Variable binds : list sval.
  Variable r : row.
  Variable out : list val.
  Let ev := sx_eval binds r out.

  Lemma eqs_eval : forall (eqs : list (sx * sx)) (last : tv),
    is_true (fold_right (fun e acc => tv_and (sop_eval (SCmp OEq) (ev (fst e)) (ev (snd e))) acc) last eqs)
    = forallb (fun e => is_true (sop_eval (SCmp OEq) (ev (fst e)) (ev (snd e)))) eqs && is_true last.
  Proof.
    induction eqs as [|e t IH]; intros last; simpl. reflexivity.
    rewrite is_true_and, IH, andb_assoc. reflexivity.
  Qed.

  Lemma disj_eval_unfold : forall d,
    is_true (disj_eval binds r out d) =
    forallb (fun e => is_true (sop_eval (SCmp OEq) (ev (fst e)) (ev (snd e)))) (pd_eqs d) &&
    is_true (sop_eval (SCmp (snd (fst (pd_last d)))) (ev (fst (fst (pd_last d)))) (ev (snd (pd_last d)))).
  Proof.
    intros d. unfold disj_eval. destruct (pd_last d) as [[x op] v]. apply eqs_eval.
  Qed.
End PagingRow.

Lemma compile_eqs_sem : forall kvs vo vo' eqs, compile_eqs vo kvs = (vo', eqs) ->
  pfx vo vo' /\
  forall vf ps binds, pfx vo' vf -> bind vf ps = Some binds ->
    forall r out kval cs,
      (forall k, scanon (sx_eval binds r out (ref_sx (ok_ref k))) = vcanon (kval k)) ->
      Forall2 (fun (ko : okey * operand) c => operand_value ps (snd ko) = Some c) kvs cs ->
      forallb (fun e => is_true (sop_eval (SCmp OEq) (sx_eval binds r out (fst e)) (sx_eval binds r out (snd e)))) eqs
      = forallb eqv_t (trip kval kvs cs).
Proof.
  induction kvs as [|[k o] t IH]; intros vo vo' eqs H; cbn [compile_eqs] in H.
  - injection H as <- <-. split. apply pfx_refl. intros vf ps binds _ _ r out kval cs _ Hcs. inversion Hcs. reflexivity.
  - destruct (operand_sx vo o) as [vo1 v] eqn:E1. destruct (compile_eqs vo1 t) as [vo2 rest] eqn:E2.
    injection H as <- <-. destruct (operand_sx_sem _ _ _ _ E1) as [Hp1 Hs1]. destruct (IH _ _ _ E2) as [Hp2 Hs2].
    split. eapply pfx_trans; eauto.
    intros vf ps binds Hpf Hb r out kval cs Hk Hcs. inversion Hcs as [|? c ? cs' Hc Hrest]; subst.
    cbn [forallb trip combine map fst snd]. f_equal.
    + simpl in Hc. unfold eqv_t.
      rewrite (sop_cmp_vals OEq _ _ (kval k) c (Hk k)). reflexivity.
      apply (Hs1 vf ps binds c r out); [ eapply pfx_trans; eauto | exact Hb | exact Hc ].
    + apply (Hs2 vf ps binds); assumption.
Qed.

Lemma combine_app' : forall A B (a b : list A) (ca cb : list B), List.length a = List.length ca ->
  combine (a ++ b) (ca ++ cb) = combine a ca ++ combine b cb.
Proof.
  induction a as [|x a IH]; intros b ca cb Hl; destruct ca as [|y ca]; simpl in *; try discriminate.
  reflexivity. f_equal. apply IH. lia.
Qed.

Lemma trip_app : forall kval a b ca cb, List.length a = List.length ca ->
  trip kval (a ++ b) (ca ++ cb) = trip kval a ca ++ trip kval b cb.
Proof.
  intros kval a b ca cb Hl. unfold trip. rewrite combine_app' by exact Hl. apply map_app.
Qed.

Lemma Forall2_length' : forall A B (P : A -> B -> Prop) l1 l2, Forall2 P l1 l2 -> List.length l1 = List.length l2.
Proof. intros A B P l1 l2 H. induction H; simpl; congruence. Qed.

Lemma compile_disjs_sem : forall before todo vo done vo' ds,
  compile_disjs before vo done todo = (vo', ds) ->
  pfx vo vo' /\
  forall vf ps binds, pfx vo' vf -> bind vf ps = Some binds ->
    forall r out kval cd ct,
      (forall k, scanon (sx_eval binds r out (ref_sx (ok_ref k))) = vcanon (kval k)) ->
      Forall2 (fun (ko : okey * operand) c => operand_value ps (snd ko) = Some c) done cd ->
      Forall2 (fun (ko : okey * operand) c => operand_value ps (snd ko) = Some c) todo ct ->
      is_true (fold_right (fun d acc => tv_or (disj_eval binds r out d) acc) (Some false) ds) =
      forallb eqv_t (trip kval done cd) && vlex before (trip kval todo ct).
Proof.
  intros before todo. induction todo as [|[k o] t IH]; intros vo done vo' ds H; cbn [compile_disjs] in H.
  - injection H as <- <-. split. apply pfx_refl. intros vf ps binds _ _ r out kval cd ct _ _ Hct. inversion Hct. simpl. rewrite andb_false_r. reflexivity.
  - destruct (compile_eqs vo done) as [vo1 eqs] eqn:E1.
    destruct (operand_sx vo1 o) as [vo2 v] eqn:E2.
    destruct (compile_disjs before vo2 (done ++ [(k, o)]) t) as [vo3 rest] eqn:E3.
    injection H as <- <-.
    destruct (compile_eqs_sem _ _ _ _ E1) as [Hp1 Hs1]. destruct (operand_sx_sem _ _ _ _ E2) as [Hp2 Hs2].
    destruct (IH _ _ _ _ E3) as [Hp3 Hs3].
    split. eapply pfx_trans. exact Hp1. eapply pfx_trans; eauto.
    intros vf ps binds Hpf Hb r out kval cd ct Hk Hcd Hct.
    inversion Hct as [|? c ? ct' Hc Hrest]; subst.
    cbn [fold_right]. rewrite is_true_or, disj_eval_unfold. cbn [pd_eqs pd_last fst snd].
    rewrite (Hs1 vf ps binds) with (kval := kval) (cs := cd); try assumption.
    2: { eapply pfx_trans. exact Hp2. eapply pfx_trans; eauto. }
    rewrite (sop_cmp_vals _ _ _ (kval k) c (Hk k)).
    2: { apply (Hs2 vf ps binds c r out); [ eapply pfx_trans; eauto | exact Hb | exact Hc ]. }
    rewrite (Hs3 vf ps binds Hpf Hb) with (kval := kval) (cd := cd ++ [c]) (ct := ct'); try assumption.
    2: { apply Forall2_app. exact Hcd. constructor. exact Hc. constructor. }
    rewrite trip_app by (eapply Forall2_length'; eauto). rewrite forallb_app.
    remember (forallb eqv_t (trip kval done cd)) as A eqn:EA.
    cbn [trip combine map forallb vlex fst snd]. fold (trip kval t ct').
    remember (vlex before (trip kval t ct')) as L eqn:EL.
    unfold eqv_t, nn.
    destruct A, L, (negb (is_null (kval k))), (negb (is_null c)), (test (paging_op before (ok_dir k)) (vcmp (kval k) c)),
      (test OEq (vcmp (kval k) c)); reflexivity.
Qed.

(* the same relation read off the reference evaluator's lexicographic comparison *)
Fixpoint lexz (l : list (dir * val * val)) : comparison :=
  match l with
  | [] => Eq
  | (d, k, c) :: t => match kcmp d k c with Eq => lexz t | x => x end
  end.
Lemma lex_cmp_zip : forall ds ks cs, lex_cmp ds ks cs = lexz (combine (combine ds ks) cs).
Proof.
  induction ds as [|d ds IH]; intros ks cs; simpl. reflexivity.
  destruct ks as [|k ks]; simpl. reflexivity. destruct cs as [|c cs]; simpl. reflexivity.
  rewrite IH. reflexivity.
Qed.

Lemma vlex_lexz : forall before l,
  (forall d k c, In (d, k, c) l -> k <> VNull /\ c <> VNull) ->
  vlex before l = match lexz l with Gt => negb before | Lt => before | Eq => false end.
Proof.
  intros before l. induction l as [|[[d k] c] t IH]; intros Hn; simpl. reflexivity.
  destruct (Hn d k c (or_introl eq_refl)) as [Hk Hc].
  assert (Hnk : nn k = true) by (destruct k; try reflexivity; congruence).
  assert (Hnc : nn c = true) by (destruct c; try reflexivity; congruence).
  rewrite Hnk, Hnc, IH by (intros d' k' c' Hin; apply (Hn d' k' c'); right; exact Hin). simpl.
  destruct d; simpl; [|rewrite (vcmp_antisym k c)]; destruct (vcmp k c); destruct before; simpl;
    try reflexivity; destruct (lexz t); reflexivity.
Qed.

Lemma trip_zip : forall (kval : okey -> val) (P : okey * operand -> val -> Prop) order ops cs,
  Forall2 P (combine order ops) cs ->
  trip kval (combine order ops) cs = combine (combine (map ok_dir order) (map kval order)) cs.
Proof.
  intros kval P. induction order as [|k t IH]; intros ops cs H; simpl in *.
  - inversion H. reflexivity.
  - destruct ops as [|o ops]; simpl in *.
    + inversion H. reflexivity.
    + inversion H as [|? c ? cs' Hc Hrest]; subst. unfold trip. simpl. f_equal. apply IH. exact Hrest.
Qed.

(* ---------- LIMIT / OFFSET ---------- *)
Definition limit_list {A} (lim : option Z) (l : list A) : list A :=
  match lim with Some n => if Z.ltb n 0 then l else firstn (Z.to_nat n) l | None => l end.
Definition offset_list {A} (off : option Z) (l : list A) : list A :=
  match off with Some k => if Z.leb k 0 then l else skipn' (Z.to_nat k) l | None => l end.

Lemma limit_sx_sem : forall vo o vo' x, limit_sx vo o = (vo', x) ->
  pfx vo vo' /\
  forall vf ps binds n, pfx vo' vf -> bind vf ps = Some binds ->
    option_map as_int (operand_value ps o) = Some (Some n) ->
    lim_value binds x = Some (match o with OLit _ => if Z.eqb n 0 then None else Some n | OVar _ => Some n end).
Proof.
  intros vo o vo' x H. destruct o as [v|nm]; cbn [limit_sx] in H.
  - destruct v; injection H as <- <-; (split; [apply pfx_refl|]); intros vf ps binds n _ _ Hn; simpl in Hn; try discriminate.
    injection Hn as <-. destruct (Z.eqb z 0); reflexivity.
  - destruct (add_param vo nm false) as [vo1 i] eqn:E. injection H as <- <-.
    destruct (add_param_var _ _ _ _ E) as [Hp Hs]. split. exact Hp.
    intros vf ps binds n Hpf Hb Hn. simpl in Hn.
    destruct (lookup nm ps) as [v|] eqn:El; try discriminate. simpl in Hn. destruct v; try discriminate. injection Hn as <-.
    unfold lim_value. cbn [sx_eval]. rewrite (Hs vf ps binds (VInt z) Hpf Hb El). reflexivity.
Qed.

Lemma compile_limit_sem : forall vo q vo' lim off, compile_limit vo q = (vo', lim, off) ->
  pfx vo vo' /\
  forall vf ps binds n k, pfx vo' vf -> bind vf ps = Some binds ->
    option_map as_int (operand_value ps (q_first q)) = Some (Some n) ->
    match q_skip q with None => Some (Some 0) | Some o => option_map as_int (operand_value ps o) end = Some (Some k) ->
    k_firstzero q ps = false ->
    exists ln lk, lim_value binds lim = Some ln /\ lim_value binds off = Some lk /\
                  (forall A (l : list A), limit_list ln l = if Z.leb n 0 then l else firstn (Z.to_nat n) l) /\
                  (forall A (l : list A), offset_list lk l = if Z.leb k 0 then l else skipn' (Z.to_nat k) l).
Proof.
  intros vo q vo' lim off H. unfold compile_limit in H.
  destruct (limit_sx vo (q_first q)) as [vo1 lim1] eqn:E1.
  destruct (limit_sx_sem _ _ _ _ E1) as [Hp1 Hs1].
  assert (Hfirst : forall vf ps binds n, pfx vo1 vf -> bind vf ps = Some binds ->
            option_map as_int (operand_value ps (q_first q)) = Some (Some n) -> k_firstzero q ps = false ->
            exists ln, lim_value binds (match lim1, q_skip q with None, Some _ => Some (XInt (-1)) | l, _ => l end) = Some ln /\
                       forall A (l : list A), limit_list ln l = if Z.leb n 0 then l else firstn (Z.to_nat n) l).
  { intros vf ps binds n Hpf Hb Hn Hk7. pose proof (Hs1 vf ps binds n Hpf Hb Hn) as Hl1.
    destruct (q_first q) as [fv|fn] eqn:Ef.
    - destruct (Z.eqb n 0) eqn:E.
      + apply Z.eqb_eq in E. subst n. destruct lim1 as [x|].
        * exists None. split. destruct (q_skip q); exact Hl1. intros A l. reflexivity.
        * destruct (q_skip q). exists (Some (-1)). split. reflexivity. intros A l. reflexivity.
          exists None. split. reflexivity. intros A l. reflexivity.
      + apply Z.eqb_neq in E. destruct lim1 as [x|]. 2: { simpl in Hl1. discriminate. }
        exists (Some n). split. destruct (q_skip q); exact Hl1.
        intros A l. unfold limit_list. destruct (Z.ltb n 0) eqn:Ea, (Z.leb n 0) eqn:Eb; try reflexivity; lia.
    - unfold k_firstzero in Hk7. rewrite Ef in Hk7. simpl in Hn.
      destruct (lookup fn ps) as [v|] eqn:El; try discriminate. simpl in Hn. destruct v; try discriminate. injection Hn as <-.
      destruct lim1 as [x|]. 2: { simpl in Hl1. discriminate. }
      exists (Some z). split. destruct (q_skip q); exact Hl1.
      intros A l. unfold limit_list. destruct z; try discriminate; reflexivity. }
  destruct (q_skip q) as [so|] eqn:Es.
  - destruct (limit_sx vo1 so) as [vo2 off1] eqn:E2. injection H as <- <- <-.
    destruct (limit_sx_sem _ _ _ _ E2) as [Hp2 Hs2]. split. eapply pfx_trans; eauto.
    intros vf ps binds n k Hpf Hb Hn Hk Hk7.
    destruct (Hfirst vf ps binds n (pfx_trans _ _ _ Hp2 Hpf) Hb Hn Hk7) as (ln & Hln & Hlim).
    pose proof (Hs2 vf ps binds k Hpf Hb Hk) as Hl2.
    exists ln. eexists. split. exact Hln. split. exact Hl2. split. exact Hlim.
    intros A l. unfold offset_list. destruct so.
    + destruct (Z.eqb k 0) eqn:E. apply Z.eqb_eq in E. subst. reflexivity. reflexivity.
    + reflexivity.
  - injection H as <- <- <-. split. exact Hp1.
    intros vf ps binds n k Hpf Hb Hn Hk Hk7. injection Hk as <-.
    destruct (Hfirst vf ps binds n Hpf Hb Hn Hk7) as (ln & Hln & Hlim).
    exists ln, None. split. exact Hln. split. reflexivity. split. exact Hlim. intros A l. reflexivity.
Qed.

(* ---------- every variable slot of the statement is a variable of the query: binding succeeds ---------- *)
Definition entries_ok (S : str -> Prop) (vo : list pentry) : Prop :=
  forall p, In p vo -> fst p = false -> S (snd p).

Lemma add_param_entries : forall S vo v i vo' k, add_param vo v i = (vo', k) ->
  entries_ok S vo -> (i = false -> S v) -> entries_ok S vo'.
Proof.
  intros S vo v i vo' k H Ho Hv. unfold add_param in H. destruct i.
  - injection H as <- <-. intros p Hin Hf. apply in_app_or in Hin. destruct Hin as [Hin|[<-|[]]]. apply Ho; assumption. discriminate.
  - destruct (find_param v vo 0).
    + injection H as <- <-. exact Ho.
    + injection H as <- <-. intros p Hin Hf. apply in_app_or in Hin. destruct Hin as [Hin|[<-|[]]]. apply Ho; assumption. apply Hv. reflexivity.
Qed.

Lemma operand_sx_entries : forall S vo o vo' x, operand_sx vo o = (vo', x) ->
  entries_ok S vo -> (forall n, o = OVar n -> S n) -> entries_ok S vo'.
Proof.
  intros S vo o vo' x H Ho Hv. destruct o as [v|n]; cbn [operand_sx] in H.
  - destruct v; try (injection H as <- <-; exact Ho).
    destruct (add_param vo s true) as [vo1 i] eqn:E. injection H as <- <-.
    eapply add_param_entries; eauto. discriminate.
  - destruct (add_param vo n false) as [vo1 i] eqn:E. injection H as <- <-.
    eapply add_param_entries; eauto.
Qed.

Lemma compile_sel_entries : forall S m sel vo vo' ss, compile_sel m vo sel = (vo', ss) -> entries_ok S vo -> entries_ok S vo'.
Proof.
  intros S m sel. induction sel as [|sf t IH]; intros vo vo' ss H Ho; cbn [compile_sel] in H.
  - injection H as <- <-. exact Ho.
  - destruct (match field_def m (sf_field sf) with Some fd => fd_default fd | None => None end) as [d|].
    + destruct d as [|b|z|x|s].
      1-4: (destruct (compile_sel m vo t) as [vo2 rest] eqn:E2; injection H as <- <-; eapply IH; eauto).
      destruct (add_param vo s true) as [vo1 i] eqn:E1.
      destruct (compile_sel m vo1 t) as [vo2 rest] eqn:E2. injection H as <- <-.
      eapply IH; eauto. eapply add_param_entries; eauto. discriminate.
    + destruct (compile_sel m vo t) as [vo2 rest] eqn:E2. injection H as <- <-. eapply IH; eauto.
Qed.

Lemma default_sx_entries : forall S vo d vo' dx, default_sx vo d = (vo', dx) -> entries_ok S vo -> entries_ok S vo'.
Proof.
  intros S vo d vo' dx H Ho. destruct d; cbn [default_sx] in H; try (injection H as <- <-; exact Ho).
  destruct (add_param vo s true) as [vo1 i] eqn:E. injection H as <- <-. eapply add_param_entries; eauto. discriminate.
Qed.

Lemma compile_filters_entries : forall S m q fs vo vo' sfs, compile_filters m q vo fs = (vo', sfs) ->
  entries_ok S vo -> (forall f n, In f fs -> fl_val f = OVar n -> S n) -> entries_ok S vo'.
Proof.
  intros S m q fs. induction fs as [|f t IH]; intros vo vo' sfs H Ho Hv; cbn [compile_filters] in H.
  - injection H as <- <-. exact Ho.
  - destruct (operand_sx vo (fl_val f)) as [vo1 xv] eqn:E1.
    assert (H1 : entries_ok S vo1).
    { eapply operand_sx_entries; eauto. intros n Hn. eapply Hv; eauto. left. reflexivity. }
    destruct (match ref_field q (fl_ref f) with Some i => match field_def m i with Some fd => fd_default fd | None => None end | None => None end) as [d|].
    + destruct (default_sx vo1 d) as [vo2 dx] eqn:E2. destruct (compile_filters m q vo2 t) as [vo3 rest] eqn:E3. injection H as <- <-.
      eapply IH; eauto. eapply default_sx_entries; eauto. intros f' n Hin. apply Hv. right. exact Hin.
    + destruct (compile_filters m q vo1 t) as [vo3 rest] eqn:E3. injection H as <- <-.
      eapply IH; eauto. intros f' n Hin. apply Hv. right. exact Hin.
Qed.

Lemma compile_eqs_entries : forall S kvs vo vo' eqs, compile_eqs vo kvs = (vo', eqs) ->
  entries_ok S vo -> (forall ko n, In ko kvs -> snd ko = OVar n -> S n) -> entries_ok S vo'.
Proof.
  intros S. induction kvs as [|[k o] t IH]; intros vo vo' eqs H Ho Hv; cbn [compile_eqs] in H.
  - injection H as <- <-. exact Ho.
  - destruct (operand_sx vo o) as [vo1 v] eqn:E1. destruct (compile_eqs vo1 t) as [vo2 rest] eqn:E2.
    injection H as <- <-. eapply IH; eauto.
    + eapply operand_sx_entries; eauto. intros n Hn. eapply (Hv (k, o)). left. reflexivity. exact Hn.
    + intros ko n Hin. apply Hv. right. exact Hin.
Qed.

Lemma compile_disjs_entries : forall S before todo vo done vo' ds, compile_disjs before vo done todo = (vo', ds) ->
  entries_ok S vo -> (forall ko n, In ko (done ++ todo) -> snd ko = OVar n -> S n) -> entries_ok S vo'.
Proof.
  intros S before todo. induction todo as [|[k o] t IH]; intros vo done vo' ds H Ho Hv; cbn [compile_disjs] in H.
  - injection H as <- <-. exact Ho.
  - destruct (compile_eqs vo done) as [vo1 eqs] eqn:E1.
    destruct (operand_sx vo1 o) as [vo2 v] eqn:E2.
    destruct (compile_disjs before vo2 (done ++ [(k, o)]) t) as [vo3 rest] eqn:E3.
    injection H as <- <-. eapply IH; eauto.
    + eapply operand_sx_entries; eauto.
      * eapply compile_eqs_entries; eauto. intros ko n Hin. apply Hv. apply in_or_app. left. exact Hin.
      * intros n Hn. eapply (Hv (k, o)). apply in_or_app. right. left. reflexivity. exact Hn.
    + intros ko n Hin. apply Hv. rewrite <- app_assoc in Hin. exact Hin.
Qed.

Lemma limit_sx_entries : forall S vo o vo' x, limit_sx vo o = (vo', x) ->
  entries_ok S vo -> (forall n, o = OVar n -> S n) -> entries_ok S vo'.
Proof.
  intros S vo o vo' x H Ho Hv. destruct o as [v|n]; cbn [limit_sx] in H.
  - destruct v; injection H as <- <-; exact Ho.
  - destruct (add_param vo n false) as [vo1 i] eqn:E. injection H as <- <-. eapply add_param_entries; eauto.
Qed.

Lemma bind_total : forall ps vo, entries_ok (fun n => lookup n ps <> None) vo -> exists binds, bind vo ps = Some binds.
Proof.
  intros ps vo. rewrite bind_unfold. induction vo as [|p t IH]; intros Ho.
  - exists []. reflexivity.
  - destruct IH as [bs Hbs]. { intros p' Hin. apply Ho. right. exact Hin. }
    simpl. unfold slot_val at 1. destruct p as [[|] n]; simpl.
    + rewrite Hbs. eexists. reflexivity.
    + pose proof (Ho (false, n) (or_introl eq_refl) eq_refl) as Hl. simpl in Hl.
      destruct (lookup n ps); try congruence. simpl. rewrite Hbs. eexists. reflexivity.
Qed.

(* ---------- sorting ---------- *)
Lemma ssort_isort : forall A (c : A -> A -> comparison) l, ssort c l = isort c l.
Proof.
  intros A c l. unfold ssort, isort. induction l as [|x t IH]; simpl. reflexivity. rewrite IH.
  generalize (fold_right (insert c) [] t). intros l'. induction l' as [|y u IHu]; simpl. reflexivity.
  rewrite IHu. reflexivity.
Qed.

Lemma insert_ext_in : forall A (c1 c2 : A -> A -> comparison) x l,
  (forall y, In y l -> c1 x y = c2 x y) -> insert c1 x l = insert c2 x l.
Proof.
  intros A c1 c2 x l. induction l as [|y t IH]; intros H; simpl. reflexivity.
  rewrite (H y (or_introl eq_refl)). destruct (c2 x y); try reflexivity. f_equal. apply IH.
  intros z Hz. apply H. right. exact Hz.
Qed.

Lemma isort_ext_in : forall A (c1 c2 : A -> A -> comparison) l,
  (forall x y, In x l -> In y l -> c1 x y = c2 x y) -> isort c1 l = isort c2 l.
Proof.
  intros A c1 c2 l. induction l as [|x t IH]; intros H. reflexivity.
  unfold isort in *. simpl. rewrite IH by (intros a b Ha Hb; apply H; right; assumption).
  apply insert_ext_in. intros y Hy. apply H. left. reflexivity. right.
  eapply Permutation.Permutation_in. apply Permutation.Permutation_sym. apply (isort_perm c2 t). exact Hy.
Qed.

Lemma compile_limit_entries : forall S vo q vo' lim off, compile_limit vo q = (vo', lim, off) ->
  entries_ok S vo -> (forall n, q_first q = OVar n -> S n) -> (forall n, q_skip q = Some (OVar n) -> S n) -> entries_ok S vo'.
Proof.
  intros S vo q vo' lim off H Ho Hf Hs. unfold compile_limit in H.
  destruct (limit_sx vo (q_first q)) as [vo1 lim1] eqn:E1.
  pose proof (limit_sx_entries S _ _ _ _ E1 Ho Hf) as H1.
  destruct (q_skip q) as [so|] eqn:Es.
  - destruct (limit_sx vo1 so) as [vo2 off1] eqn:E2. injection H as <- _ _.
    eapply limit_sx_entries; eauto. intros n ->. apply Hs. reflexivity.
  - injection H as <- _ _. exact H1.
Qed.
