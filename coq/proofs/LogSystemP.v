(* LogSystemP.v — the composition theorem over model/LogSystem.v: C13 (which batches commit, marks commit
   with the data, never wedged, restart) x C09 (marks cover the change; recompute = recount) x C18 (dirty or
   reported), by induction over unbounded histories and every fault schedule.  Reused, not re-proved:
   WriterP.run_batch_loginv, C13P.never_wedged, WriterP.recompute_consistent / consistent_loginv,
   C09P.exec_batch_inv / compute_ok / compute_clean / LogInv_init, C18P.trace_batch_state / trace_batch_OI /
   quiescent_all_reported. *)
From DV Require Import Run_C13 LogSystem Run_C09 C09P Run_C18 C18P WriterP C13P.
From Coq Require Import Lia.
Open Scope Z_scope.

(* C09's coverage for the batches that commit, in the state they run in (C09P.all_writes_cover gives it
   inside the envelope: C09P.batch_env_covered) *)
Definition P_cov (l : lstate) (b : list lreq) (o : outcome) : Prop :=
  match o with Returned true | Died true => C09P.batch_covered (ls_s l) (lside b) | _ => True end.

(* the simulation invariant between the three states *)
Record SysInv (l : lstate) : Prop := {
  si_w : WriterP.LogInv (w_disk (ls_w l));      (* C13: the writer's log entries describe its rows or are marked *)
  si_stuck : w_stuck (ls_w l) = false;          (* C13: the connection is not inside an abandoned transaction *)
  si_s : C09P.LogInv (ls_s l)                   (* C09: every log row is dirty or carries the recount of its key *)
}.
Definition EvInv (l : lstate) : Prop := OI (ls_s l) [] (owed (ls_tr l)).   (* C18: dirty or reported *)

(* (i) spelled out *)
Definition marked_or_exact (s : DailyLog.state) : Prop :=
  (forall r, In r (log s) -> (l_n r, l_daily r) <> recount s (lrow_key r) -> l_dirty r = true) /\
  (forall k, has_key k (log s) = false -> content s k = []).
(* (ii) spelled out *)
Definition log_is_recount (s : DailyLog.state) : Prop :=
  (forall r, In r (log s) -> l_dirty r = false /\ (l_n r, l_daily r) = recount s (lrow_key r)) /\
  (forall k, has_key k (log s) = false -> content s k = []).

Lemma loginv_marked : forall s, C09P.LogInv s -> marked_or_exact s.
Proof.
  intros s [H1 H2]. split.
  - intros r Hr Hne. destruct (H1 r Hr) as [Hd|[Hm|He]]; [exact Hd|discriminate Hm|contradiction].
  - intros k Hk. destruct (H2 k Hk) as [Hm|Hc]; [discriminate Hm|exact Hc].
Qed.

Lemma trace_batch_loginv : forall s tr b,
  C09P.LogInv s -> batch_covered s b -> C09P.LogInv (fst (trace_batch (s, tr) b)).
Proof.
  intros s tr b Hi Hc. rewrite trace_batch_state.
  destruct (exec_batch (s, []) b) as [s' evs'] eqn:E. cbn [fst].
  eapply exec_batch_inv; [exact Hi|exact Hc|exact E].
Qed.
Lemma compute_batch_covered : forall s, batch_covered s [MCompute].
Proof. intros s. cbn [batch_covered msg_covered]. split; exact I. Qed.

Lemma trace_batch_EvInv : forall s tr b,
  OI s [] (owed tr) -> batch_covered s b ->
  OI (fst (trace_batch (s, tr) b)) [] (owed (snd (trace_batch (s, tr) b))).
Proof.
  intros s tr b Hi Hc. destruct (trace_batch (s, tr) b) as [s' tr'] eqn:E. cbn [fst snd].
  eapply trace_batch_OI; [exact Hi|exact Hc|exact E].
Qed.

(* ------------------------------------------------------------------ the final recompute *)
Lemma quiesce_recount : forall s tr, C09P.LogInv s -> log_is_recount (fst (trace_batch (s, tr) [MCompute])).
Proof.
  intros s tr Hi. unfold trace_batch. cbn [fold_left trace_msg].
  destruct (compute s) as [s1 rep] eqn:C. cbn [fst DailyLog.write_marks fold_left].
  destruct (compute_ok [] s s1 rep Hi C) as [_ [P1 P2]].
  pose proof (compute_clean s s1 rep C) as Hcl.
  split.
  - intros r Hr. cbn [log set_log] in Hr. split; [apply Hcl; exact Hr|].
    rewrite recount_set_log.
    destruct (P1 r Hr) as [Hd|[Hm|He]]; [rewrite (Hcl r Hr) in Hd; discriminate Hd|discriminate Hm|exact He].
  - intros k Hk. cbn [log set_log] in Hk. rewrite content_set_log.
    destruct (P2 k Hk) as [Hm|Hc]; [discriminate Hm|exact Hc].
Qed.

(* ------------------------------------------------------------------ one step *)
Lemma restart_SysInv : forall l, SysInv l -> SysInv (sys_restart l).
Proof.
  intros l [Hw Hs Hl]. split; cbn [sys_restart ls_w ls_s w_disk w_stuck].
  - unfold restart. apply consistent_loginv. apply recompute_consistent. exact Hw.
  - reflexivity.
  - apply trace_batch_loginv; [exact Hl|apply compute_batch_covered].
Qed.
Lemma restart_EvInv : forall l, EvInv l -> EvInv (sys_restart l).
Proof.
  intros l H. unfold EvInv. cbn [sys_restart ls_s ls_tr].
  apply trace_batch_EvInv; [exact H|apply compute_batch_covered].
Qed.
Lemma tag_SysInv : forall l c, SysInv l -> SysInv (tag l c).
Proof. intros l c [Hw Hs Hl]. split; cbn [tag ls_w ls_s]; assumption. Qed.

Lemma step_SysInv : forall sk sched n l b,
  sk_ok sk = true -> (forall r, In r (wside b) -> Covers sk r) -> SysInv l ->
  let r := run_batch sk sched n (ls_w l) (wside b) in
  P_cov l b (snd (fst (fst r))) ->
  SysInv (sys_step l b (fst (fst (fst r))) (snd (fst (fst r)))).
Proof.
  intros sk sched n l b Hok Hcov [Hw Hs Hl] r Hp.
  pose proof (run_batch_loginv sk sched n (ls_w l) (wside b) Hcov Hw) as Hw'. fold r in Hw'.
  assert (Hs' : w_stuck (fst (fst (fst r))) = false).
  { destruct r as [[[st' o] n'] last] eqn:E. cbn [fst]. eapply never_wedged; [exact Hok|exact Hs|exact E]. }
  destruct r as [[[st' o] n'] last]. cbn [fst snd] in *.
  destruct o as [[|]|[|]]; cbn [sys_step P_cov] in *.
  - apply tag_SysInv. split; cbn [commit_acked ls_w ls_s]; [exact Hw'|exact Hs'|apply trace_batch_loginv; assumption].
  - apply tag_SysInv. split; cbn [not_committed ls_w ls_s]; assumption.
  - apply restart_SysInv. apply tag_SysInv. unfold commit_lost. destruct (has_compute b).
    + split; cbn [ls_w ls_s]; [exact Hw'|exact Hs'|apply trace_batch_loginv; assumption].
    + split; cbn [commit_acked ls_w ls_s]; [exact Hw'|exact Hs'|apply trace_batch_loginv; assumption].
  - apply restart_SysInv. apply tag_SysInv. split; cbn [not_committed ls_w ls_s]; assumption.
Qed.

Lemma step_EvInv : forall l b st' o,
  EvInv l -> P_cov l b o -> P_ack l b o -> EvInv (sys_step l b st' o).
Proof.
  intros l b st' o Hi Hc Ha. destruct o as [[|]|[|]]; cbn [sys_step P_cov P_ack] in *.
  - unfold EvInv. cbn [tag commit_acked ls_s ls_tr]. apply trace_batch_EvInv; assumption.
  - exact Hi.
  - apply restart_EvInv. unfold commit_lost. rewrite Ha.
    unfold EvInv. cbn [tag commit_acked ls_s ls_tr]. apply trace_batch_EvInv; assumption.
  - apply restart_EvInv. exact Hi.
Qed.

(* ------------------------------------------------------------------ unbounded histories, every schedule *)
Lemma run_SysInv : forall sk sched h n l,
  sk_ok sk = true -> (forall b r, In b h -> In r (wside b) -> Covers sk r) ->
  SysInv l -> sys_all P_cov sk sched n l h -> SysInv (sys_run sk sched n l h).
Proof.
  intros sk sched. induction h as [|b rest IH]; intros n l Hok Hcov Hi Ha; cbn [sys_run]; [exact Hi|].
  cbn [sys_all] in Ha. destruct Ha as [Hp Hrest].
  apply IH; [exact Hok| |apply step_SysInv|exact Hrest].
  - intros b' r Hb' Hr. apply (Hcov b' r); [right; exact Hb'|exact Hr].
  - exact Hok.
  - intros r Hr. apply (Hcov b r); [left; reflexivity|exact Hr].
  - exact Hi.
  - exact Hp.
Qed.
Lemma run_EvInv : forall sk sched h n l,
  EvInv l -> sys_all P_cov sk sched n l h -> sys_all P_ack sk sched n l h -> EvInv (sys_run sk sched n l h).
Proof.
  intros sk sched. induction h as [|b rest IH]; intros n l Hi Hc Ha; cbn [sys_run]; [exact Hi|].
  cbn [sys_all] in Hc, Ha. destruct Hc as [Hc1 Hc2]. destruct Ha as [Ha1 Ha2].
  apply IH; [apply step_EvInv; assumption|exact Hc2|exact Ha2].
Qed.

(* the statement *)
Definition log_system_statement (with_ack : bool) : Prop :=
  forall sk sched h n l,
  sk_ok sk = true ->
  (forall b r, In b h -> In r (wside b) -> Covers sk r) ->     (* C13: the writer's marks cover its row operations *)
  SysInv l ->
  sys_all P_cov sk sched n l h ->                              (* C09: the committed writes mark what they change *)
  let f := sys_run sk sched n l h in
  let q := sys_quiesce f in
  SysInv f /\
  marked_or_exact (ls_s f) /\                                  (* (i) *)
  log_is_recount (fst q) /\                                    (* (ii) *)
  (EvInv l -> (if with_ack then sys_all P_ack sk sched n l h else True) ->
   EvInv f /\ owed (snd q) = []).                              (* (iii) *)
Definition log_system_full : Prop := log_system_statement false.

Theorem log_system_partial : log_system_statement true.
Proof.
  intros sk sched h n l Hok Hcov Hi Hc f q.
  pose proof (run_SysInv sk sched h n l Hok Hcov Hi Hc) as Hf. fold f in Hf.
  split; [exact Hf|]. split; [apply loginv_marked; apply (si_s _ Hf)|].
  split; [apply quiesce_recount; apply (si_s _ Hf)|].
  intros He Ha. pose proof (run_EvInv sk sched h n l He Hc Ha) as Hef. fold f in Hef.
  split; [exact Hef|].
  unfold q, sys_quiesce.
  destruct (trace_batch (ls_s f, ls_tr f) [MCompute]) as [s' tr'] eqn:E. cbn [snd].
  eapply (quiescent_all_reported [] (ls_s f) (ls_tr f) s' tr'); [exact Hef|exact I|].
  unfold trace_batches. cbn [app fold_left]. exact E.
Qed.

(* from an empty database *)
Lemma init_SysInv : forall d t0, WriterP.LogInv d -> SysInv (sys_init d t0) /\ EvInv (sys_init d t0).
Proof.
  intros d t0 Hd. split; [split; cbn [sys_init ls_w ls_s w_disk w_stuck]; [exact Hd|reflexivity|apply LogInv_init]|].
  unfold EvInv. cbn [sys_init ls_s ls_tr]. intros k [].
Qed.

(* ------------------------------------------------------------------ closed examples *)
Definition Dy : Z := 86400000.
Definition rq (k : kind) (c i v : N) : req := mkReq k [[[Put c i v]]] [c] ANone.
Definition rq_compute : req := mkReq KCompute [[[]]] [] ANone.
Definition w1 : lreq := (rq KMutation 1 7 7, MOp (LCreate 7 (Some 1%N) 1 70)).
Definition w2 : lreq := (rq KMutation 1 8 8, MOp (LCreate 8 (Some 1%N) 1 80)).
Definition w3 : lreq := (rq KMutation 2 9 9, MOp (LCreate 9 (Some 2%N) 1 90)).
Definition w4 : lreq := (rq KMutation 2 10 10, MOp (LCreate 10 (Some 2%N) 1 100)).
Definition wc : lreq := (rq_compute, MCompute).
Definition sched_list (fs : list (N * fault)) : schedule :=
  fun n => match find (fun x => N.eqb (fst x) n) fs with Some x => snd x | None => Continue end.
Definition d_empty : disk := {| Writer.d_rows := []; Writer.d_tombs := []; Writer.d_log := [] |}.
Definition k1 : lkey := (1%N, 1%N, 0).
Definition k2 : lkey := (2%N, 1%N, 0).


(* the process dies between the COMMIT of a batch [recompute] and its acknowledgement: the key the recompute
   cleaned was never announced and is not dirty any more; nothing will ever announce it *)
Definition lost_hist : list (list lreq) := [[w1]; [wc]].
Definition lost_sched : schedule := sched_list [(14%N, Kill)].
Lemma lost_event :
  let f := sys_run code_skeleton lost_sched 0 (sys_init d_empty 0) lost_hist in
  ls_out f = [1; 3]%N /\
  owed (ls_tr f) = [k1] /\ existsb l_dirty (log (ls_s f)) = false /\
  owed (snd (sys_quiesce f)) = [k1].
Proof. vm_compute. repeat split; reflexivity. Qed.

(* non-vacuity: 4 batches (7 points each when nothing fails); the first statement of the second batch fails (point 9:
   ROLLBACK, reported failed), the process dies in front of the COMMIT of the third (point 15: restart, start-up
   recompute), the last one holds a write and a recompute; then the final recompute *)
Definition nv_hist : list (list lreq) := [[w1]; [w2]; [w3]; [w4; wc]].
Definition nv_sched : schedule := sched_list [(9%N, FailStmt); (15%N, Kill)].
Definition keys_eqb (a b : list lkey) : bool := list_eqb key_eqb a b.
Lemma nonvacuous_run :
  let f := sys_run code_skeleton nv_sched 0 (sys_init d_empty 0) nv_hist in
  let q := sys_quiesce f in
  ls_out f = [1; 2; 4; 1]%N /\
  ls_done f = [[MOp (LCreate 7 (Some 1%N) 1 70)]; [MCompute]; [MOp (LCreate 10 (Some 2%N) 1 100); MCompute]] /\
  map (fun r => (lrow_key r, l_dirty r, l_n r)) (log (ls_s f)) = [(k1, false, 1%N); (k2, true, 0%N)] /\
  owed (ls_tr f) = [k2] /\
  map (fun r => (lrow_key r, l_dirty r, l_n r)) (log (fst q)) = [(k1, false, 1%N); (k2, false, 1%N)] /\
  owed (snd q) = [] /\
  snd q = [TW [k1]; TE [k1]; TW [k2]; TE []; TE [k2]].
Proof. vm_compute. repeat split; reflexivity. Qed.

(* so the hypothesis P_ack of the partial theorem is needed: without it the statement is false of the models *)
Lemma d_empty_loginv : WriterP.LogInv d_empty.
Proof. apply loginv_b_sound. vm_compute. reflexivity. Qed.
Theorem full_refuted : ~ log_system_full.
Proof.
  intros H.
  assert (Hcov : forall b r, In b lost_hist -> In r (wside b) -> Covers code_skeleton r).
  { intros b r Hb Hr. apply covers_sound.
    destruct Hb as [Hb|[Hb|[]]]; subst b; destruct Hr as [Hr|[]]; subst r; vm_compute; reflexivity. }
  assert (Hc : sys_all P_cov code_skeleton lost_sched 0 (sys_init d_empty 0) lost_hist).
  { vm_compute. repeat split. }
  destruct (init_SysInv d_empty 0 d_empty_loginv) as [Hi He].
  destruct (H code_skeleton lost_sched lost_hist 0%N (sys_init d_empty 0) code_skeleton_ok Hcov Hi Hc) as [_ [_ [_ H3]]].
  destruct (H3 He I) as [_ Hq].
  destruct lost_event as [_ [_ [_ Hl]]]. cbv zeta in Hl. rewrite Hl in Hq. discriminate Hq.
Qed.
