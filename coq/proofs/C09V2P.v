(* C09V2P.v — the history column left by compute_v2, the model of DailyLogsUpdate::compute as repaired by
   requests/C09-fix-6.diff (not applied to /repo yet; DailyLog.compute still points at compute_v1).
   The three properties every downstream theorem uses of `compute` are proved for compute_v2 in
   proofs/C09P.v (compute_v2_ok, compute_v2_reports_all_dirty, compute_v2_leaves_nothing_dirty).
   Here: C09_history_holds — the history column is the fold of the day contents of the room in
   (day, entity) order. *)
From DV Require Import Run_C09 C09P.
Open Scope Z_scope.

(* ------------------------------------------------------------------ (2) the history column *)
(* the rows of one room in (day, entity) order are CHAINED when the first carries its daily hash and
   every other one hashes the history and the daily hash of the one before *)
Fixpoint chained (prev : option (option hterm * option hterm)) (rows : list lrow) : Prop :=
  match rows with
  | [] => True
  | l :: t => l_hist l = chain2 prev (l_daily l) /\ chained (Some (l_hist l, l_daily l)) t
  end.
(* ... chained up to (excluding) the first dirty row: what writes leave behind, since they only mark *)
Fixpoint chained_until_dirty (prev : option (option hterm * option hterm)) (rows : list lrow) : Prop :=
  match rows with
  | [] => True
  | l :: t => if l_dirty l then True
              else l_hist l = chain2 prev (l_daily l) /\ chained_until_dirty (Some (l_hist l, l_daily l)) t
  end.

Lemma loop2_chained : forall s r rows c,
  (forall l, In l rows -> l_room l = r) -> c2_room c = Some r ->
  (c2_mod c = false -> chained_until_dirty (c2_prev c) rows) ->
  chained (c2_prev c) (fst (loop2 s c rows)).
Proof.
  intros s r rows; induction rows as [|l t IH]; intros c Hr Hc Hpre; cbn [loop2]; [exact I|].
  assert (Hl : l_room l = r) by (apply Hr; left; reflexivity).
  assert (Ht : forall x, In x t -> l_room x = r) by (intros x Hx; apply Hr; right; exact Hx).
  assert (Hent : c2enter c l = if l_dirty l then {| c2_room := c2_room c; c2_mod := true; c2_prev := c2_prev c |} else c).
  { unfold c2enter. rewrite Hl. replace (opt_is (c2_room c) r) with true by (rewrite Hc; cbn [opt_is]; symmetry; apply N.eqb_refl). reflexivity. }
  rewrite Hent. destruct (l_dirty l) eqn:Hd.
  - destruct (content s (lrow_key l)) as [|a cnt].
    + destruct (loop2 s {| c2_room := c2_room c; c2_mod := true; c2_prev := c2_prev c |} t) as [rs rep] eqn:E. cbn [fst].
      specialize (IH {| c2_room := c2_room c; c2_mod := true; c2_prev := c2_prev c |} Ht Hc (fun F => ltac:(discriminate F))).
      rewrite E in IH. exact IH.
    + cbn [c2_prev c2next c2_room c2_mod].
      destruct (loop2 s _ t) as [rs rep] eqn:E. cbn [fst chained l_hist l_daily]. split; [reflexivity|].
      match type of E with loop2 s ?c' t = _ => specialize (IH c' Ht Hc (fun F => ltac:(discriminate F))) end.
      rewrite E in IH. exact IH.
  - destruct (loop2 s _ t) as [rs rep] eqn:E. cbn [fst chained].
    unfold set_hist at 1 2. cbn [l_hist l_daily].
    assert (Hh : (if c2_mod c then chain2 (c2_prev c) (l_daily l) else l_hist l) = chain2 (c2_prev c) (l_daily l)).
    { destruct (c2_mod c) eqn:M; [reflexivity|]. specialize (Hpre eq_refl). cbn [chained_until_dirty] in Hpre. rewrite Hd in Hpre. apply Hpre. }
    split; [exact Hh|].
    match type of E with loop2 s ?c' t = _ => assert (IH' := IH c' Ht Hc) end.
    cbn [c2next c2_mod c2_prev] in IH'. rewrite E in IH'. cbn [fst] in IH'. apply IH'.
    intro M. specialize (Hpre M). cbn [chained_until_dirty] in Hpre. rewrite Hd in Hpre. destruct Hpre as [Hp1 Hp2].
    rewrite M. exact Hp2.
Qed.

Lemma loop2_init_room : forall s l t,
  loop2 s c2init (l :: t) = loop2 s {| c2_room := Some (l_room l); c2_mod := false; c2_prev := None |} (l :: t).
Proof.
  intros s l t. cbn [loop2]. unfold c2enter. cbn [c2init c2_room opt_is]. rewrite N.eqb_refl. reflexivity.
Qed.

(* the history column as a fold of the daily hashes, in order *)
Fixpoint hist_fold (prev : option (option hterm * option hterm)) (dailies : list (option hterm)) : list (option hterm) :=
  match dailies with
  | [] => []
  | d :: t => let h := chain2 prev d in h :: hist_fold (Some (h, d)) t
  end.
Lemma chained_fold : forall rows prev, chained prev rows -> map l_hist rows = hist_fold prev (map l_daily rows).
Proof.
  induction rows as [|l t IH]; intros prev H; [reflexivity|]. cbn [chained] in H. destruct H as [H1 H2].
  cbn [map hist_fold]. rewrite <- H1. f_equal. apply IH. exact H2.
Qed.

(* C09_history_holds: one recomputation over the rows of a room, read in (day, entity) order, whose
   clean rows before the first dirty one are chained (all that writes and earlier recomputations
   leave behind) yields rows that are all clean, carry the recount of their key, and whose history
   column is the fold of their daily hashes in that order: a function of the stored content *)
Theorem history_holds : forall s r rows,
  (forall l, In l rows -> l_room l = r) ->
  (forall l, In l rows -> row_ok s [] l) ->
  chained_until_dirty None rows ->
  let out := fst (loop2 s c2init rows) in
  map l_hist out = hist_fold None (map l_daily out) /\
  (forall l', In l' out -> l_dirty l' = false /\ (l_n l', l_daily l') = recount s (lrow_key l')) /\
  (forall l, In l rows -> (exists l', In l' out /\ lrow_key l' = lrow_key l) \/ content s (lrow_key l) = []).
Proof.
  intros s r rows Hr Hok Hpre out. subst out.
  destruct (loop2 s c2init rows) as [rs rep] eqn:E.
  destruct (loop2_props s [] rows c2init rs rep Hok E) as [A [B _]]. cbn [fst]. split; [|split].
  - apply chained_fold. destruct rows as [|l t].
    + cbn [loop2] in E. inversion E; subst. exact I.
    + rewrite loop2_init_room in E.
      pose proof (loop2_chained s r (l :: t) {| c2_room := Some (l_room l); c2_mod := false; c2_prev := None |} Hr) as L.
      cbn [c2_room c2_mod c2_prev] in L. rewrite E in L. cbn [fst] in L. apply L.
      * f_equal. apply Hr. left; reflexivity.
      * intros _. exact Hpre.
  - intros l' Hl'. destruct (A l' Hl') as [[Hd [X|X]] _]; [discriminate | split; assumption].
  - intros l Hl. destruct (B l Hl) as [X|[_ X]]; [left; exact X | right; exact X].
Qed.

(* closed, end to end through compute_v2 (selection, sorting, several entities): the same rows ingested
   day by day and in one pass give the same log; a change on an earlier day re-chains the later days;
   a day that loses its last row loses its log row *)
Definition step2 (o : op) (s : state) : state := let '(s', ms) := exec_op o s in set_log s' (write_marks ms (log s')).
Definition c2 (s : state) : state := fst (compute_v2 s).
Example v2_daybyday_equals_onepass :
  log (c2 (step2 (SNodes 1 [sn 3 1 (2 * D + 5000) 3]) (c2 (step2 (SNodes 1 [sn 2 2 (D + 5000) 2]) (c2 (step2 (SNodes 1 [sn 1 1 5000 1]) (init 1000)))))))
  = log (c2 (step2 (SNodes 1 [sn 1 1 5000 1; sn 2 2 (D + 5000) 2; sn 3 1 (2 * D + 5000) 3]) (init 1000))) /\
  map raw_of (log (c2 (step2 (SNodes 1 [sn 1 1 5000 1; sn 2 2 (D + 5000) 2; sn 3 1 (2 * D + 5000) 3]) (init 1000))))
  = canon_log_v2 (d_content (dump_of (c2 (step2 (SNodes 1 [sn 1 1 5000 1; sn 2 2 (D + 5000) 2; sn 3 1 (2 * D + 5000) 3]) (init 1000))))).
Proof. vm_compute. split; reflexivity. Qed.
Example v2_earlier_day_rechains_and_empty_row_goes :
  let s1 := c2 (step2 (SNodes 1 [sn 1 1 5000 1; sn 2 1 (D + 5000) 2; sn 3 1 (2 * D + 5000) 3]) (init 1000)) in
  let s2 := c2 (step2 (SNodes 1 [sn 4 1 6000 4]) s1) in
  let s3 := c2 (step2 (SDelNodes [{| nd_room := 1; nd_id := 2; nd_ent := 1; nd_mdate := D + 5000; nd_date := 2 * D + 50; nd_sig := 5 |}]) s2) in
  map raw_of (log s2) = canon_log_v2 (d_content (dump_of s2)) /\
  map l_hist (log s2) <> map l_hist (log s1) /\
  map raw_of (log s3) = canon_log_v2 (d_content (dump_of s3)) /\ map l_day (log s3) = [0; 2 * D].
Proof. vm_compute. repeat split; try reflexivity. intro H; discriminate H. Qed.
